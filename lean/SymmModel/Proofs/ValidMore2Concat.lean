/-
  SymmModel.Proofs.ValidMore2Concat — `fuse` in concat mode (property C01, fuse item, part C).

  C1  `recurseConcat`: by induction on the fuel, the block returned at level `g` for a sub-key of
      length `g` has shape  before-sizes ++ (sizes of the sub-sectors in the sub-key) ++ (full
      sizes of the groups `≥ g`) ++ after-sizes  and is well formed (`FC.recurse_shape`, stated
      over abstract size functions).
  C2  the grouping loop of `fuseConcat`: every stored sub-block is the reshaped transpose of a
      block of the array, filed under the new sector and the sub-sectors of its plan
      (`FC.grp_inv`).
  C3  the abstract hypotheses of C1 hold for the tables of `calcFuseBlockInfo`
      (`FC.leaf_ok`, `FC.zero_ok`, `FC.ext_ok`), and the new sector has a block shape in the new
      index tables (`FC.plan_blockShape`; uses the completeness of the sub-sector table,
      `FuseP.fusedIndexOf_complete`).
  C4  `fuseCore_concat_core`, `fuseCore_concat_valid`, and the wrappers `fuseA_concat_valid`
      (empty groups included), `fuseF_valid_of` (any mode), `fuseF_concat_valid`.
-/
import SymmModel.Proofs.ValidFuseF
import SymmModel.Proofs.FuseWf

namespace SymmModel
namespace ValidP
open Sym

variable {R : Type}

/-! The auxiliary definitions and lemmas live in `SymmModel.ValidP.FC`; the theorems about the
    model's operations (`fuseCore_concat_core` and the wrappers) in `SymmModel.ValidP`. -/
namespace FC

/-! ## C1 — the shape of `recurseConcat` -/

theorem set_mid {α : Type} (pre post : List α) (x y : α) :
    (pre ++ [x] ++ post).set pre.length y = pre ++ [y] ++ post := by
  simp

theorem getD_mid1 {α : Type} (pre post : List α) (x d : α) :
    (pre ++ [x] ++ post).getD pre.length d = x := by
  simp [List.getD_eq_getElem?_getD]

theorem forall₂_imp_mem {α β : Type} {Q Q' : α → β → Prop} {l : List α} {r : List β}
    (h : List.Forall₂ Q l r) (hq : ∀ x y, x ∈ l → Q x y → Q' x y) : List.Forall₂ Q' l r := by
  induction h with
  | nil => exact List.Forall₂.nil
  | cons h1 _ ih =>
    exact List.Forall₂.cons (hq _ _ (by simp) h1) (ih (fun x y hx => hq x y (by simp [hx])))

/-- sizes of the sub-sectors listed in a sub-key -/
def subSizes (subSize : Nat → Sector → Nat) (key : List Sector) : List Nat :=
  key.zipIdx.map (fun x => subSize x.2 x.1)

/-- full sizes of the groups `g, g+1, …, n-1` -/
def fullsFrom (fullSize : Nat → Nat) (n g : Nat) : List Nat :=
  (List.range' g (n - g)).map fullSize

theorem subSizes_append (subSize : Nat → Sector → Nat) (key : List Sector) (ss : Sector) :
    subSizes subSize (key ++ [ss]) = subSizes subSize key ++ [subSize key.length ss] := by
  simp [subSizes, List.zipIdx_append]

theorem subSizes_length (subSize : Nat → Sector → Nat) (key : List Sector) :
    (subSizes subSize key).length = key.length := by simp [subSizes]

theorem fullsFrom_cons (fullSize : Nat → Nat) {n g : Nat} (h : g < n) :
    fullsFrom fullSize n g = fullSize g :: fullsFrom fullSize n (g + 1) := by
  unfold fullsFrom
  have : n - g = (n - (g + 1)) + 1 := by omega
  rw [this, List.range'_succ]
  simp

theorem fullsFrom_self (fullSize : Nat → Nat) (n : Nat) : fullsFrom fullSize n n = [] := by
  simp [fullsFrom]

/-- the value computed for one extended sub-key (copy of the model text) -/
def rcChild [Zero R] (fi : FuseInfo) (subblocks : List (List Sector × Blk R)) (newSector : Sector)
    (zeroShapeOf : List Sector → Except Err (List Nat)) (fuel g : Nat) (newSubkey : List Sector) :
    Except Err (Blk R) :=
  if g + 1 == fi.gi.numGroups then
    match alookup subblocks newSubkey with
    | some b => pure b
    | none => do
      let shp ← zeroShapeOf newSubkey
      pure (Blk.zeros shp)
  else recurseConcat fi subblocks newSector zeroShapeOf fuel (g + 1) newSubkey

/-- the extent of the new charge of group `g` (copy of the model text) -/
def rcExt (fi : FuseInfo) (newSector : Sector) (g : Nat) : Except Err Extent :=
  match (fi.newIndices.getD (fi.gi.position + g) default).sub with
  | some (_, exts) => match alookup exts (newSector.getD (fi.gi.position + g) (0, 0)) with
    | some e => pure e
    | none => throw Err.key
  | none => throw Err.attr

theorem recurseConcat_succ [Zero R] (fi : FuseInfo) (subblocks : List (List Sector × Blk R))
    (newSector : Sector) (zeroShapeOf : List Sector → Except Err (List Nat)) (fuel g : Nat)
    (subkey : List Sector) :
    recurseConcat fi subblocks newSector zeroShapeOf (fuel + 1) g subkey =
      (if fi.gi.singlets.contains g then
        rcChild fi subblocks newSector zeroShapeOf fuel g
          (subkey ++ [[newSector.getD (fi.gi.position + g) (0, 0)]])
      else do
        let ext ← rcExt fi newSector g
        let arrays ← ext.mapM (fun (ss, _) =>
          rcChild fi subblocks newSector zeroShapeOf fuel g (subkey ++ [ss]))
        pure (Blk.concatK arrays (fi.gi.position + g))) := by
  rw [recurseConcat]
  split
  · rfl
  · unfold rcExt
    dsimp only
    generalize (fi.newIndices.getD (fi.gi.position + g) default).sub = s
    rcases s with _ | ⟨subs, exts⟩
    · rfl
    · dsimp only
      generalize alookup exts (newSector.getD (fi.gi.position + g) (0, 0)) = e
      cases e <;> rfl

theorem rcExt_ok {fi : FuseInfo} {newSector : Sector} {g : Nat} {ext : Extent}
    (h : rcExt fi newSector g = .ok ext) :
    ∃ subs exts, (fi.newIndices.getD (fi.gi.position + g) default).sub = some (subs, exts)
      ∧ alookup exts (newSector.getD (fi.gi.position + g) (0, 0)) = some ext := by
  unfold rcExt at h
  split at h
  · rename_i subs exts hs
    split at h
    · rename_i e he
      cases h
      exact ⟨subs, exts, hs, he⟩
    · cases h
  · cases h

theorem zeros_shape [Zero R] (s : List Nat) : (Blk.zeros s : Blk R).shape = s := rfl

theorem concatK_cons_shape [Zero R] (b0 : Blk R) (rest : List (Blk R)) (axis : Nat) :
    (Blk.concatK (b0 :: rest) axis).shape
      = b0.shape.set axis (sumN ((b0 :: rest).map (fun b => b.shape.getD axis 0))) := rfl

theorem concatK_cons_wf [Zero R] (b0 : Blk R) (rest : List (Blk R)) (axis : Nat) :
    (Blk.concatK (b0 :: rest) axis).wf = true := ofFn_wf _ _

theorem map_getD_of_forall₂ {pre post : List Nat} {ext : Extent} {arrays : List (Blk R)}
    (h : List.Forall₂ (fun (x : Sector × Nat) (c : Blk R) => c.shape = pre ++ [x.2] ++ post)
      ext arrays) :
    arrays.map (fun c => c.shape.getD pre.length 0) = ext.map (·.2) := by
  induction h with
  | nil => rfl
  | cons hxc _ ih => simp only [List.map_cons, ih, hxc, getD_mid1]

/-- **C1**: shape and well-formedness of the block `recurseConcat` returns, over abstract size
    functions: `subSize g ss` for a sub-sector of group `g`, `fullSize g` for the whole new
    charge of group `g`. -/
theorem recurse_shape [Zero R] (fi : FuseInfo) (subblocks : List (List Sector × Blk R))
    (ns : Sector) (zs : List Sector → Except Err (List Nat)) (Bsz Asz : List Nat)
    (subSize : Nat → Sector → Nat) (fullSize : Nat → Nat)
    (hB : Bsz.length = fi.gi.position)
    (hleaf : ∀ key b, key.length = fi.gi.numGroups → alookup subblocks key = some b →
      b.shape = Bsz ++ subSizes subSize key ++ Asz ∧ b.wf = true)
    (hzero : ∀ key shp, key.length = fi.gi.numGroups → zs key = .ok shp →
      shp = Bsz ++ subSizes subSize key ++ Asz)
    (hsing : ∀ g, fi.gi.singlets.contains g = true →
      subSize g [ns.getD (fi.gi.position + g) (0, 0)] = fullSize g)
    (hext : ∀ g subs exts ext, fi.gi.singlets.contains g = false →
      (fi.newIndices.getD (fi.gi.position + g) default).sub = some (subs, exts) →
      alookup exts (ns.getD (fi.gi.position + g) (0, 0)) = some ext →
      ext ≠ [] ∧ sumN (ext.map (·.2)) = fullSize g ∧ ∀ x ∈ ext, x.2 = subSize g x.1) :
    ∀ (fuel g : Nat) (subkey : List Sector) (b : Blk R), fuel + g = fi.gi.numGroups →
      subkey.length = g → recurseConcat fi subblocks ns zs fuel g subkey = .ok b →
      b.shape = Bsz ++ subSizes subSize subkey ++ fullsFrom fullSize fi.gi.numGroups g ++ Asz
        ∧ b.wf = true := by
  intro fuel
  induction fuel with
  | zero => intro g subkey b _ _ h; simp [recurseConcat] at h
  | succ fuel ih =>
    intro g subkey b hfg hlen h
    -- one extended sub-key
    have child : ∀ (key : List Sector) (c : Blk R), key.length = g + 1 →
        rcChild fi subblocks ns zs fuel g key = .ok c →
        c.shape = Bsz ++ subSizes subSize key ++ fullsFrom fullSize fi.gi.numGroups (g + 1) ++ Asz
          ∧ c.wf = true := by
      intro key c hk hc
      unfold rcChild at hc
      split at hc
      · rename_i hlast
        have hlast' : g + 1 = fi.gi.numGroups := by simpa using hlast
        rw [hlast', fullsFrom_self, List.append_nil]
        split at hc
        · rename_i b' hb'
          cases hc
          exact hleaf key _ (by omega) hb'
        · cases hz : zs key with
          | error e => rw [hz] at hc; cases hc
          | ok shp =>
            rw [hz] at hc
            cases hc
            exact ⟨by rw [zeros_shape]; exact hzero key shp (by omega) hz, ofFn_wf _ _⟩
      · exact ih (g + 1) key c (by omega) hk hc
    have hgn : g < fi.gi.numGroups := by omega
    rw [recurseConcat_succ] at h
    split at h
    · rename_i hs
      obtain ⟨c1, c2⟩ := child _ b (by simp [hlen]) h
      refine ⟨?_, c2⟩
      rw [c1, subSizes_append, hlen, hsing g hs, fullsFrom_cons fullSize hgn]
      simp
    · rename_i hs
      have hs' : fi.gi.singlets.contains g = false := by simpa using hs
      cases he : rcExt fi ns g with
      | error e => rw [he] at h; cases h
      | ok ext =>
        rw [he] at h
        obtain ⟨subs, exts, hsub, hal⟩ := rcExt_ok he
        obtain ⟨hne, hsum, hsz⟩ := hext g subs exts ext hs' hsub hal
        cases ha : ext.mapM (fun (x : Sector × Nat) =>
            rcChild fi subblocks ns zs fuel g (subkey ++ [x.1])) with
        | error e =>
          have : ext.mapM (fun (x : Sector × Nat) => match x with
            | (ss, _) => rcChild fi subblocks ns zs fuel g (subkey ++ [ss])) = .error e := ha
          simp only [bind, Except.bind] at h
          rw [this] at h; cases h
        | ok arrays =>
          have : ext.mapM (fun (x : Sector × Nat) => match x with
            | (ss, _) => rcChild fi subblocks ns zs fuel g (subkey ++ [ss])) = .ok arrays := ha
          simp only [bind, Except.bind] at h
          rw [this] at h
          cases h
          have hF := mapM_ok_forall₂ _ _ _ ha
          set pre := Bsz ++ subSizes subSize subkey with hpre
          set post := fullsFrom fullSize fi.gi.numGroups (g + 1) ++ Asz with hpost
          have hprel : pre.length = fi.gi.position + g := by
            rw [hpre, List.length_append, subSizes_length, hB, hlen]
          -- every piece has the shape of its sub-sector
          have hall : List.Forall₂ (fun (x : Sector × Nat) (c : Blk R) =>
              c.shape = pre ++ [x.2] ++ post) ext arrays := by
            refine forall₂_imp_mem hF ?_
            intro x c hx hc
            obtain ⟨c1, _⟩ := child _ c (by simp [hlen]) hc
            rw [c1, subSizes_append, hlen, ← hsz x hx, hpre, hpost]
            simp
          have hsizes : arrays.map (fun c => c.shape.getD (fi.gi.position + g) 0)
              = ext.map (·.2) := by
            rw [← hprel]; exact map_getD_of_forall₂ hall
          cases hall with
          | nil => exact absurd rfl hne
          | @cons x0 b0 ext' arrays' h0 _ =>
            refine ⟨?_, concatK_cons_wf _ _ _⟩
            rw [concatK_cons_shape, hsizes, hsum, h0, ← hprel, set_mid,
              fullsFrom_cons fullSize hgn, hpre, hpost]
            simp

/-! ## C2 — the grouping loop of `fuseConcat` -/

/-- the loop body of the grouping in `fuseConcat` (copy of the model text) -/
def fcStep [Zero R] (fi : FuseInfo) (acc : List (Sector × List (List Sector × Blk R)))
    (sb : Sector × Blk R) : Except Err (List (Sector × List (List Sector × Blk R))) := do
  let (sector, array) := sb
  let p ← match alookup fi.blockmap sector with
    | some p => pure p
    | none => throw Err.key
  let newArray := (array.transposeK fi.gi.perm).reshapeK p.newShape
  let cur := (alookup acc p.newSector).getD []
  pure (ainsert acc p.newSector (ainsert cur p.subsectors newArray))

/-- `zeroShapeOf` of `fuseConcat` (copy of the model text) -/
def fcZeroShape (oldIndices : List Index) (fi : FuseInfo) (newSector : Sector)
    (subkey : List Sector) : Except Err (List Nat) := do
  let sz (ax : Nat) (pos : Nat) : Except Err Nat :=
    match (oldIndices.getD ax default).sizeOf? (newSector.getD pos (0, 0)) with
    | some d => pure d
    | none => throw Err.key
  let before ← fi.gi.axesBefore.zipIdx.mapM (fun (ax, k) => sz ax k)
  let mid ← subkey.zipIdx.mapM (fun (ss, g) =>
    let ix := fi.newIndices.getD (fi.gi.position + g) default
    let c := newSector.getD (fi.gi.position + g) (0, 0)
    if fi.gi.singlets.contains g then
      match ix.sizeOf? c with
      | some d => pure d
      | none => throw Err.key
    else match extentStart? ix c ss with
      | some (_, d) => pure d
      | none => throw Err.key)
  let after ← fi.gi.axesAfter.zipIdx.mapM (fun (ax, k) =>
    sz ax (fi.gi.position + fi.gi.numGroups + k))
  pure (before ++ mid ++ after)

/-- the per-sector part of `fuseConcat` (copy of the model text) -/
def fcOut [Zero R] (oldIndices : List Index) (fi : FuseInfo) :
    Sector × List (List Sector × Blk R) → Except Err (Sector × Blk R) :=
  fun (newSector, subblocks) => do
    let b ← recurseConcat fi subblocks newSector (fcZeroShape oldIndices fi newSector)
      fi.gi.numGroups 0 []
    pure (newSector, b)

theorem fuseConcat_eq [Zero R] (oldIndices : List Index) (blocks : List (Sector × Blk R))
    (fi : FuseInfo) :
    fuseConcat oldIndices blocks fi
      = (do let grouped ← blocks.foldlM (fcStep fi) []
            grouped.mapM (fcOut oldIndices fi)) := rfl

/-- a stored sub-block is the reshaped transpose of a block, filed under its plan -/
def LeafOf [Zero R] (blocks : List (Sector × Blk R)) (fi : FuseInfo) (ns : Sector)
    (kb : List Sector × Blk R) : Prop :=
  ∃ sb ∈ blocks, ∃ p, alookup fi.blockmap sb.1 = some p ∧ p.newSector = ns ∧ p.subsectors = kb.1
    ∧ kb.2 = (sb.2.transposeK fi.gi.perm).reshapeK p.newShape

def GrpOk [Zero R] (blocks : List (Sector × Blk R)) (fi : FuseInfo)
    (acc : List (Sector × List (List Sector × Blk R))) : Prop :=
  (acc.map (·.1)).Nodup ∧ ∀ e ∈ acc, e.2 ≠ [] ∧ ∀ kb ∈ e.2, LeafOf blocks fi e.1 kb

theorem ainsert_ne_nil {κ β : Type} [BEq κ] (l : List (κ × β)) (k : κ) (v : β) :
    ainsert l k v ≠ [] := by
  cases l with
  | nil => simp [ainsert]
  | cons q rest =>
    obtain ⟨k', v'⟩ := q
    simp only [ainsert]
    split <;> simp

theorem grp_inv [Zero R] (blocks : List (Sector × Blk R)) (fi : FuseInfo)
    (grouped : List (Sector × List (List Sector × Blk R)))
    (h : blocks.foldlM (fcStep fi) [] = .ok grouped) : GrpOk blocks fi grouped := by
  refine foldlM_ok_inv (GrpOk blocks fi) (fcStep fi) blocks [] grouped ⟨by simp, by simp⟩ ?_ h
  rintro acc ⟨sector, array⟩ acc' hsb ⟨hn, hall⟩ hstep
  unfold fcStep at hstep
  simp only at hstep
  cases hp : alookup fi.blockmap sector with
  | none => rw [hp] at hstep; cases hstep
  | some p =>
    rw [hp] at hstep
    cases hstep
    refine ⟨ainsert_keys_nodup _ _ hn, ?_⟩
    intro e he
    rcases mem_ainsert he with rfl | he
    · refine ⟨ainsert_ne_nil _ _ _, ?_⟩
      intro kb hkb
      rcases mem_ainsert hkb with rfl | hkb
      · exact ⟨(sector, array), hsb, p, hp, rfl, rfl, rfl⟩
      · cases hc : alookup acc p.newSector with
        | none => rw [hc] at hkb; simp at hkb
        | some cur =>
          rw [hc] at hkb
          exact (hall _ (alookup_some_mem hc)).2 kb hkb
    · exact hall e he

theorem fcOut_ok [Zero R] {oldIndices : List Index} {fi : FuseInfo}
    {x : Sector × List (List Sector × Blk R)} {y : Sector × Blk R}
    (h : fcOut oldIndices fi x = .ok y) :
    y.1 = x.1 ∧ recurseConcat fi x.2 x.1 (fcZeroShape oldIndices fi x.1) fi.gi.numGroups 0 []
      = .ok y.2 := by
  obtain ⟨ns, sub⟩ := x
  unfold fcOut at h
  simp only at h
  cases hr : recurseConcat fi sub ns (fcZeroShape oldIndices fi ns) fi.gi.numGroups 0 [] with
  | error e => rw [hr] at h; cases h
  | ok b => rw [hr] at h; cases h; exact ⟨rfl, rfl⟩

theorem forall₂_keys_eq {α β γ : Type} {l : List (α × β)} {r : List (α × γ)}
    (h : List.Forall₂ (fun x y => y.1 = x.1) l r) : r.map (·.1) = l.map (·.1) := by
  induction h with
  | nil => rfl
  | cons h1 _ ih => simp only [List.map_cons, ih, h1]

/-! ## C3 — the tables of `calcFuseBlockInfo` -/

/-- size of the whole new charge of group `j` -/
def fullSizeOf (fi : FuseInfo) (ns : Sector) (j : Nat) : Nat :=
  ((fi.newIndices.getD (fi.gi.position + j) default).sizeOf?
    (ns.getD (fi.gi.position + j) (0, 0))).getD 0

/-- size of the sub-sector `ss` of group `j`: for a fused group the product of the sub-sizes
    (a function of `ss` alone) -/
def subSizeOf (fi : FuseInfo) (ns : Sector) (j : Nat) (ss : Sector) : Nat :=
  if fi.gi.singlets.contains j then fullSizeOf fi ns j
  else match (fi.newIndices.getD (fi.gi.position + j) default).sub with
    | some (subs, _) => ((Arr.blockShape? subs ss).map prod).getD 0
    | none => 0

/-- what `Index.wfB` of the new index says about the extent `recurseConcat` iterates over -/
theorem ext_ok {sym : Sym} {fi : FuseInfo} (hwf : ∀ i ∈ fi.newIndices, Index.wfB sym i = true)
    (ns : Sector) (g : Nat) (subs : List Index) (exts : Extents) (ext : Extent)
    (hs : fi.gi.singlets.contains g = false)
    (hsub : (fi.newIndices.getD (fi.gi.position + g) default).sub = some (subs, exts))
    (hal : alookup exts (ns.getD (fi.gi.position + g) (0, 0)) = some ext) :
    ext ≠ [] ∧ sumN (ext.map (·.2)) = fullSizeOf fi ns g
      ∧ ∀ x ∈ ext, x.2 = subSizeOf fi ns g x.1 := by
  have hix := wfB_getD hwf (fi.gi.position + g)
  unfold fullSizeOf subSizeOf
  simp only [hs, Bool.false_eq_true, if_false]
  generalize fi.newIndices.getD (fi.gi.position + g) default = ix at hix hsub ⊢
  generalize ns.getD (fi.gi.position + g) (0, 0) = c at hal ⊢
  obtain ⟨cm, d, sub⟩ := ix
  simp only [Index.sub] at hsub ⊢
  subst hsub
  obtain ⟨hcm, _, hnd, hcmext, hextcm⟩ := (wfB_some sym cm d subs exts).mp hix
  have h1 := hextcm (c, ext) (alookup_some_mem hal)
  obtain ⟨D, hD⟩ := Option.isSome_iff_exists.mp h1
  obtain ⟨ext', he', hok⟩ := hcmext (c, D) (alookup_some_mem hD)
  simp only at he' hok hD
  rw [hal] at he'
  cases he'
  obtain ⟨e1, _, e3⟩ := (extentOk_iff sym d subs c D ext).mp hok
  have hpos := (hcm.2 (c, D) (alookup_some_mem hD)).1
  simp only at hpos
  refine ⟨?_, ?_, ?_⟩
  · rintro rfl
    simp [sumN] at e1
    omega
  · simp only [Index.sizeOf?, Index.cm, hD, Option.getD_some]
    exact e1
  · intro x hx
    obtain ⟨_, ⟨shp, hshp, hprod⟩, _⟩ := e3 x hx
    simp only [hshp, Option.map_some, Option.getD_some]
    exact hprod.symm

/-- the `FuseInfo` that `calcFuseBlockInfo` returns, as a function of the block map -/
def fiOf (a : Arr R) (groups : List (List Nat)) (blockmap : List (Sector × BlockPlan)) : FuseInfo :=
  { gi := calcFuseGroupInfo groups a.duals,
    newIndices := permuted a.indices (calcFuseGroupInfo groups a.duals).axesBefore
      ++ groups.zipIdx.map (fuseMidIndex a (calcFuseGroupInfo groups a.duals) blockmap)
      ++ permuted a.indices (calcFuseGroupInfo groups a.duals).axesAfter,
    blockmap := blockmap }

theorem position_le_ndim {a : Arr R} {groups : List (List Nat)}
    (hadm : fuseAdmissibleB groups a.ndim = true) :
    (calcFuseGroupInfo groups a.duals).position ≤ a.indices.length := by
  unfold fuseAdmissibleB at hadm
  simp only [Bool.and_eq_true, List.all_eq_true, decide_eq_true_eq] at hadm
  exact foldl_min_head_le groups.flatten a.indices.length hadm.2

theorem before_len {a : Arr R} {groups : List (List Nat)}
    (hadm : fuseAdmissibleB groups a.ndim = true) :
    (permuted a.indices (calcFuseGroupInfo groups a.duals).axesBefore).length
      = (calcFuseGroupInfo groups a.duals).position := by
  rw [permuted_length, axesBefore_length]
  intro i hi
  rw [axesBefore_eq] at hi
  have := List.mem_range.mp hi
  have := position_le_ndim hadm
  omega

theorem newIdx_getD {a : Arr R} {groups : List (List Nat)} (blockmap : List (Sector × BlockPlan))
    (hadm : fuseAdmissibleB groups a.ndim = true) {j : Nat} (hj : j < groups.length) :
    (fiOf a groups blockmap).newIndices.getD ((calcFuseGroupInfo groups a.duals).position + j) default
      = fuseMidIndex a (calcFuseGroupInfo groups a.duals) blockmap (groups[j], j) := by
  have := getD_mid (permuted a.indices (calcFuseGroupInfo groups a.duals).axesBefore)
    (groups.zipIdx.map (fuseMidIndex a (calcFuseGroupInfo groups a.duals) blockmap))
    (permuted a.indices (calcFuseGroupInfo groups a.duals).axesAfter) j (by simpa using hj) default
  rw [before_len hadm] at this
  show List.getD (_ ++ _ ++ _) _ _ = _
  rw [this]
  simp

theorem singlets_contains (groups : List (List Nat)) (duals : List Bool) {j : Nat}
    (hj : j < groups.length) :
    (calcFuseGroupInfo groups duals).singlets.contains j = (groups[j].length == 1) := by
  show ((groups.zipIdx.filter (fun p => p.1.length == 1)).map (·.2)).contains j = _
  rw [Bool.eq_iff_iff, List.contains_iff_mem]
  simp only [List.mem_map, List.mem_filter, beq_iff_eq]
  constructor
  · rintro ⟨⟨gaxes, g⟩, ⟨hm, hl⟩, rfl⟩
    have := List.mk_mem_zipIdx_iff_getElem?.mp hm
    simp only at hl ⊢
    rw [List.getElem?_eq_getElem hj, Option.some.injEq] at this
    rw [this]
    exact hl
  · intro hl
    exact ⟨(groups[j], j), ⟨List.mk_mem_zipIdx_iff_getElem?.mpr (List.getElem?_eq_getElem hj), hl⟩, rfl⟩

/-! ### what `planSector` computes -/

theorem planCd_congr {indices : List Index} {s s' : Sector} {ax : Nat} {y y' : Charge × Nat × Bool}
    (h : planCd indices s ax = .ok y) (h' : planCd indices s' ax = .ok y') (hc : y.1 = y'.1) :
    y = y' := by
  obtain ⟨ix, h1, _, h3, h4⟩ := planCd_ok h
  obtain ⟨ix', h1', _, h3', h4'⟩ := planCd_ok h'
  rw [h1] at h1'
  cases h1'
  obtain ⟨c, d, dl⟩ := y
  obtain ⟨c', d', dl'⟩ := y'
  simp only at hc h3 h4 h3' h4'
  subst hc
  rw [h3] at h3'
  cases h3'
  rw [h4, h4']

/-- the sizes and directions `cd` collects are determined by the charges -/
theorem cds_congr {indices : List Index} {s s' : Sector} {axes : List Nat}
    {cds cds' : List (Charge × Nat × Bool)}
    (h : List.Forall₂ (fun ax y => planCd indices s ax = .ok y) axes cds)
    (h' : List.Forall₂ (fun ax y => planCd indices s' ax = .ok y) axes cds')
    (hc : cds.map (·.1) = cds'.map (·.1)) : cds = cds' := by
  induction h generalizing cds' with
  | nil => cases h'; rfl
  | cons h1 _ ih =>
    cases h' with
    | cons h1' h2' =>
      simp only [List.map_cons, List.cons.injEq] at hc
      rw [planCd_congr h1 h1' hc.1, ih h2' hc.2]

theorem plan_fields_getD (before after : List (Charge × Nat × Bool))
    (mids : List (Charge × Nat × List Charge)) {pos j : Nat} (hb : before.length = pos)
    (hj : j < mids.length) :
    (mids.map (·.2.2)).getD j [] = mids[j].2.2
    ∧ (before.map (·.1) ++ mids.map (·.1) ++ after.map (·.1)).getD (pos + j) (0, 0) = mids[j].1
    ∧ (before.map (·.2.1) ++ mids.map (·.2.1) ++ after.map (·.2.1)).getD (pos + j) 0
        = mids[j].2.1 := by
  refine ⟨by simp [List.getD_eq_getElem?_getD, hj], ?_, ?_⟩
  · have := getD_mid (before.map (·.1)) (mids.map (·.1)) (after.map (·.1)) j (by simpa using hj) (0, 0)
    rw [List.length_map, hb] at this
    rw [this]; simp
  · have := getD_mid (before.map (·.2.1)) (mids.map (·.2.1)) (after.map (·.2.1)) j
      (by simpa using hj) 0
    rw [List.length_map, hb] at this
    rw [this]; simp

/-- the pieces `planSector` computes for a sector -/
structure PlanDec (a : Arr R) (groups : List (List Nat)) (s : Sector) (p : BlockPlan)
    (before after : List (Charge × Nat × Bool)) (mids : List (Charge × Nat × List Charge)) :
    Prop where
  hb : List.Forall₂ (fun ax y => planCd a.indices s ax = .ok y)
    (calcFuseGroupInfo groups a.duals).axesBefore before
  ha : List.Forall₂ (fun ax y => planCd a.indices s ax = .ok y)
    (calcFuseGroupInfo groups a.duals).axesAfter after
  hm : List.Forall₂ (fun x y => planMid a.sym a.indices (calcFuseGroupInfo groups a.duals) s x = .ok y)
    groups.zipIdx mids
  hp : p = { newShape := before.map (·.2.1) ++ mids.map (·.2.1) ++ after.map (·.2.1),
             newSector := before.map (·.1) ++ mids.map (·.1) ++ after.map (·.1),
             subsectors := mids.map (·.2.2) }

theorem planDec_of {a : Arr R} {groups : List (List Nat)} {s : Sector} {p : BlockPlan}
    (hp : planSector a.sym a.indices groups (calcFuseGroupInfo groups a.duals) s = .ok p) :
    ∃ before after mids, PlanDec a groups s p before after mids := by
  obtain ⟨before, after, mids, hb, ha, hm, rfl⟩ := planSector_ok hp
  exact ⟨before, after, mids, mapM_ok_forall₂ _ _ _ hb, mapM_ok_forall₂ _ _ _ ha,
    mapM_ok_forall₂ _ _ _ hm, rfl⟩

theorem PlanDec.before_len {a : Arr R} {groups : List (List Nat)} {s : Sector} {p : BlockPlan}
    {before after : List (Charge × Nat × Bool)} {mids : List (Charge × Nat × List Charge)}
    (hd : PlanDec a groups s p before after mids) :
    before.length = (calcFuseGroupInfo groups a.duals).position := by
  rw [← forall₂_length hd.hb, axesBefore_length]

theorem PlanDec.mids_len {a : Arr R} {groups : List (List Nat)} {s : Sector} {p : BlockPlan}
    {before after : List (Charge × Nat × Bool)} {mids : List (Charge × Nat × List Charge)}
    (hd : PlanDec a groups s p before after mids) : mids.length = groups.length := by
  rw [← forall₂_length hd.hm, List.length_zipIdx]

theorem PlanDec.mid_ok {a : Arr R} {groups : List (List Nat)} {s : Sector} {p : BlockPlan}
    {before after : List (Charge × Nat × Bool)} {mids : List (Charge × Nat × List Charge)}
    (hd : PlanDec a groups s p before after mids) {j : Nat} (hj : j < groups.length)
    (hjm : j < mids.length) :
    planMid a.sym a.indices (calcFuseGroupInfo groups a.duals) s (groups[j], j) = .ok mids[j] := by
  have := forall₂_getElem hd.hm j (by simpa using hj) hjm
  simpa using this

/-- the sub-sector table entries of group `g` before `dict(...)` -/
def subEntries (gi : FuseGroupInfo) (blockmap : List (Sector × BlockPlan)) (g : Nat) :
    List (Sector × Charge × Nat) :=
  blockmap.map (fun (_, p) =>
    (p.subsectors.getD g [], (p.newSector.getD (gi.position + g) (0, 0),
                              p.newShape.getD (gi.position + g) 0)))

theorem fuseMidIndex_fused (a : Arr R) (gi : FuseGroupInfo) (blockmap : List (Sector × BlockPlan))
    {gaxes : List Nat} (g : Nat) (hlen : gaxes.length ≠ 1) :
    fuseMidIndex a gi blockmap (gaxes, g)
      = Index.mk (Index.sortCm (accumExtents (FuseP.sortedEntries (subEntries gi blockmap g))).1)
          (gi.groupDuals.getD g false)
          (some (gaxes.map (fun ax => a.indices.getD ax default),
                 (accumExtents (FuseP.sortedEntries (subEntries gi blockmap g))).2)) := by
  unfold fuseMidIndex
  have : (gaxes.length == 1) = false := by simpa using hlen
  simp only [this, Bool.false_eq_true, if_false]
  rfl

theorem pieceOk_fun {sym : Sym} {D : Bool} {subs : List Index} {x y : Sector × Charge × Nat}
    (hx : PieceOk sym D subs x) (hy : PieceOk sym D subs y) (h : x.1 = y.1) : x = y := by
  obtain ⟨x1, x2, x3⟩ := x
  obtain ⟨y1, y2, y3⟩ := y
  simp only at h
  subst h
  obtain ⟨_, ⟨shp, a1, a2⟩, a3, _⟩ := hx
  obtain ⟨_, ⟨shp', b1, b2⟩, b3, _⟩ := hy
  simp only at a1 a2 a3 b1 b2 b3
  rw [a1] at b1
  cases b1
  rw [← a3, ← a2, b3, b2]

/-- the new index of group `j` knows the new charge of every planned block; for a singlet its
    size is the block's, for a fused group the block's size is the product of the sub-sizes of its
    sub-sector -/
theorem mid_fact {a : Arr R} {groups : List (List Nat)} {blockmap : List (Sector × BlockPlan)}
    (hwf : ∀ i ∈ a.indices, Index.wfB a.sym i = true)
    (hbm : a.blocks.mapM (planOf a groups (calcFuseGroupInfo groups a.duals)) = .ok blockmap)
    {s : Sector} {p : BlockPlan} (hsp : (s, p) ∈ blockmap)
    {before after : List (Charge × Nat × Bool)} {mids : List (Charge × Nat × List Charge)}
    (hd : PlanDec a groups s p before after mids) {j : Nat} (hj : j < groups.length)
    (hjm : j < mids.length) :
    ∃ D, (fuseMidIndex a (calcFuseGroupInfo groups a.duals) blockmap (groups[j], j)).sizeOf?
          mids[j].1 = some D
      ∧ (groups[j].length = 1 → D = mids[j].2.1)
      ∧ (groups[j].length ≠ 1 → ∃ subs exts shp,
          (fuseMidIndex a (calcFuseGroupInfo groups a.duals) blockmap (groups[j], j)).sub
            = some (subs, exts)
          ∧ Arr.blockShape? subs mids[j].2.2 = some shp ∧ prod shp = mids[j].2.1) := by
  have hq := hd.mid_ok hj hjm
  by_cases hlen : groups[j].length = 1
  · obtain ⟨c, d, dl, hcd, hy⟩ := planMid_ok_single hlen hq
    obtain ⟨ix, h1, _, h3, _⟩ := planCd_ok hcd
    refine ⟨d, ?_, fun _ => by rw [hy], fun h => absurd hlen h⟩
    unfold fuseMidIndex
    simp only [hlen, beq_self_eq_true, if_true]
    rw [List.getD_eq_getElem?_getD, h1, hy]
    exact h3
  · have hzip : (groups[j], j) ∈ groups.zipIdx :=
      List.mk_mem_zipIdx_iff_getElem?.mpr (List.getElem?_eq_getElem hj)
    obtain ⟨e1, e2, e3⟩ := plan_fields_getD before after mids hd.before_len hjm
    set gi := calcFuseGroupInfo groups a.duals with hgi
    -- every table entry is a `PieceOk`
    have hall : ∀ x ∈ subEntries gi blockmap j,
        PieceOk a.sym (gi.groupDuals.getD j false)
          (groups[j].map (fun ax => a.indices.getD ax default)) x := by
      intro x hx
      obtain ⟨sp, hsp', rfl⟩ := List.mem_map.mp hx
      exact plan_piece hwf (axesBefore_length groups a.duals) (blockmap_mem hbm hsp').2 hzip hlen
    have hmem : (mids[j].2.2, mids[j].1, mids[j].2.1) ∈ subEntries gi blockmap j := by
      refine List.mem_map.mpr ⟨(s, p), hsp, ?_⟩
      simp only [hd.hp, e1, e2, e3]
    obtain ⟨e, D, he, hin, _, hD, _⟩ := FuseP.fusedIndexOf_complete (subEntries gi blockmap j)
      (fun x hx y hy hxy => pieceOk_fun (hall x hx) (hall y hy) hxy) hmem
    obtain ⟨_, ⟨shp, hshp, hprod⟩, _, _⟩ := hall _ hmem
    rw [fuseMidIndex_fused a gi blockmap j hlen]
    exact ⟨D, hD, fun h => absurd h hlen, fun _ => ⟨_, _, shp, rfl, hshp, hprod⟩⟩

theorem fiOf_gi (a : Arr R) (groups : List (List Nat)) (blockmap : List (Sector × BlockPlan)) :
    (fiOf a groups blockmap).gi = calcFuseGroupInfo groups a.duals := rfl

theorem fiOf_blockmap (a : Arr R) (groups : List (List Nat))
    (blockmap : List (Sector × BlockPlan)) : (fiOf a groups blockmap).blockmap = blockmap := rfl

theorem numGroups_eq (groups : List (List Nat)) (duals : List Bool) :
    (calcFuseGroupInfo groups duals).numGroups = groups.length := rfl

/-- the recorded size of group `j` of a planned block is `subSizeOf` of its sub-sector -/
theorem subSize_mid {a : Arr R} {groups : List (List Nat)} {blockmap : List (Sector × BlockPlan)}
    (hwf : ∀ i ∈ a.indices, Index.wfB a.sym i = true)
    (hadm : fuseAdmissibleB groups a.ndim = true)
    (hbm : a.blocks.mapM (planOf a groups (calcFuseGroupInfo groups a.duals)) = .ok blockmap)
    {s : Sector} {p : BlockPlan} (hsp : (s, p) ∈ blockmap)
    {before after : List (Charge × Nat × Bool)} {mids : List (Charge × Nat × List Charge)}
    (hd : PlanDec a groups s p before after mids) {j : Nat} (hj : j < groups.length)
    (hjm : j < mids.length) :
    subSizeOf (fiOf a groups blockmap) p.newSector j mids[j].2.2 = mids[j].2.1 := by
  obtain ⟨D, hD, h1, h2⟩ := mid_fact hwf hbm hsp hd hj hjm
  obtain ⟨_, e2, _⟩ := plan_fields_getD before after mids hd.before_len hjm
  have hns : p.newSector.getD ((calcFuseGroupInfo groups a.duals).position + j) (0, 0)
      = mids[j].1 := by rw [hd.hp]; exact e2
  have hsc : (fiOf a groups blockmap).gi.singlets.contains j = (groups[j].length == 1) :=
    singlets_contains groups a.duals hj
  have hni : (fiOf a groups blockmap).newIndices.getD ((fiOf a groups blockmap).gi.position + j)
      default = fuseMidIndex a (calcFuseGroupInfo groups a.duals) blockmap (groups[j], j) :=
    newIdx_getD blockmap hadm hj
  have hns' : p.newSector.getD ((fiOf a groups blockmap).gi.position + j) (0, 0) = mids[j].1 := hns
  unfold subSizeOf fullSizeOf
  rw [hni, hns', hD]
  by_cases hlen : groups[j].length = 1
  · simp only [hsc, hlen, beq_self_eq_true, if_true, Option.getD_some]
    exact h1 hlen
  · have : (groups[j].length == 1) = false := by simpa using hlen
    obtain ⟨subs, exts, shp, hs, hb, hp⟩ := h2 hlen
    simp only [hsc, this, Bool.false_eq_true, if_false, hs, hb, Option.map_some, Option.getD_some]
    exact hp

/-- the new index of group `j` knows the new charge of a planned block -/
theorem fullSize_mid {a : Arr R} {groups : List (List Nat)} {blockmap : List (Sector × BlockPlan)}
    (hwf : ∀ i ∈ a.indices, Index.wfB a.sym i = true)
    (hadm : fuseAdmissibleB groups a.ndim = true)
    (hbm : a.blocks.mapM (planOf a groups (calcFuseGroupInfo groups a.duals)) = .ok blockmap)
    {s : Sector} {p : BlockPlan} (hsp : (s, p) ∈ blockmap)
    {before after : List (Charge × Nat × Bool)} {mids : List (Charge × Nat × List Charge)}
    (hd : PlanDec a groups s p before after mids) {j : Nat} (hj : j < groups.length)
    (hjm : j < mids.length) :
    (fuseMidIndex a (calcFuseGroupInfo groups a.duals) blockmap (groups[j], j)).sizeOf? mids[j].1
      = some (fullSizeOf (fiOf a groups blockmap) p.newSector j) := by
  obtain ⟨D, hD, _, _⟩ := mid_fact hwf hbm hsp hd hj hjm
  obtain ⟨_, e2, _⟩ := plan_fields_getD before after mids hd.before_len hjm
  have hns : p.newSector.getD ((calcFuseGroupInfo groups a.duals).position + j) (0, 0)
      = mids[j].1 := by rw [hd.hp]; exact e2
  have hni : (fiOf a groups blockmap).newIndices.getD ((fiOf a groups blockmap).gi.position + j)
      default = fuseMidIndex a (calcFuseGroupInfo groups a.duals) blockmap (groups[j], j) :=
    newIdx_getD blockmap hadm hj
  have hns' : p.newSector.getD ((fiOf a groups blockmap).gi.position + j) (0, 0) = mids[j].1 := hns
  unfold fullSizeOf
  rw [hni, hns', hD]
  rfl

/-! ### well-formedness of the leaves -/

theorem cds_permuted_shape {indices : List Index} {s : Sector} {shape : List Nat}
    (hshape : Arr.blockShape? indices s = some shape) {axes : List Nat}
    {cds : List (Charge × Nat × Bool)}
    (h : List.Forall₂ (fun ax y => planCd indices s ax = .ok y) axes cds) :
    permuted shape axes = cds.map (·.2.1) := by
  obtain ⟨T, hT, rfl, rfl, rfl⟩ := blockShape?_iff.mp hshape
  induction h with
  | nil => rfl
  | @cons ax y axes' cds' hy _ ih =>
    obtain ⟨ix, h1, h2, h3, _⟩ := planCd_ok hy
    have hax : ax < T.length := by
      have := (List.getElem?_eq_some_iff.mp h1).1
      simpa using this
    have e1 : T[ax].1 = ix := by
      have := (List.getElem?_eq_some_iff.mp h1).2
      simpa using this
    have e2 : T[ax].2.1 = y.1 := by
      have := (List.getElem?_eq_some_iff.mp h2).2
      simpa using this
    have e3 := hT _ (List.getElem_mem hax)
    rw [e1, e2, h3] at e3
    rw [permuted_cons _ _ _ (by simpa using hax), ih]
    simp only [List.getElem_map, List.map_cons, List.cons.injEq, and_true]
    exact (Option.some.inj e3).symm

theorem planMid_prod {sym : Sym} {indices : List Index} {gi : FuseGroupInfo} {s : Sector}
    {shape : List Nat} (hshape : Arr.blockShape? indices s = some shape)
    {x : List Nat × Nat} {y : Charge × Nat × List Charge}
    (h : planMid sym indices gi s x = .ok y) : prod (permuted shape x.1) = y.2.1 := by
  obtain ⟨gaxes, g⟩ := x
  by_cases hlen : gaxes.length = 1
  · obtain ⟨c, d, dl, hcd, rfl⟩ := planMid_ok_single hlen h
    match gaxes, hlen, hcd with
    | [ax], _, hcd =>
      have := cds_permuted_shape hshape (List.Forall₂.cons hcd List.Forall₂.nil)
      simp only [List.headD_cons, List.map_cons, List.map_nil] at this ⊢
      rw [this]
      simp [prod]
  · obtain ⟨cds, hc, rfl⟩ := planMid_ok_fused hlen h
    rw [cds_permuted_shape hshape (mapM_ok_forall₂ _ _ _ hc)]

theorem mids_prod {sym : Sym} {indices : List Index} {gi : FuseGroupInfo} {s : Sector}
    {shape : List Nat} (hshape : Arr.blockShape? indices s = some shape)
    {xs : List (List Nat × Nat)} {mids : List (Charge × Nat × List Charge)}
    (h : List.Forall₂ (fun x y => planMid sym indices gi s x = .ok y) xs mids) :
    prod (xs.flatMap (fun x => permuted shape x.1)) = prod (mids.map (·.2.1)) := by
  induction h with
  | nil => rfl
  | cons h1 _ ih =>
    simp only [List.flatMap_cons, List.map_cons, prod_append, prod, ih, planMid_prod hshape h1]

/-- the reshaped transpose of a stored block is well formed -/
theorem leaf_wf [Zero R] {a : Arr R} {groups : List (List Nat)} {sb : Sector × Blk R}
    {p : BlockPlan} (hshape : Arr.blockShape? a.indices sb.1 = some sb.2.shape)
    (hp : planSector a.sym a.indices groups (calcFuseGroupInfo groups a.duals) sb.1 = .ok p) :
    ((sb.2.transposeK (calcFuseGroupInfo groups a.duals).perm).reshapeK p.newShape).wf = true := by
  obtain ⟨before, after, mids, hd⟩ := planDec_of hp
  have hperm : (calcFuseGroupInfo groups a.duals).perm
      = (calcFuseGroupInfo groups a.duals).axesBefore ++ groups.flatten
        ++ (calcFuseGroupInfo groups a.duals).axesAfter := rfl
  unfold Blk.wf Blk.reshapeK Blk.transposeK Blk.ofFn
  simp only [List.size_toArray, List.length_map, allIdx_length, beq_iff_eq]
  rw [hperm, permuted_append, permuted_append, prod_append, prod_append,
    cds_permuted_shape hshape hd.hb, cds_permuted_shape hshape hd.ha, permuted_flatten, hd.hp]
  simp only [prod_append]
  have hfm : groups.flatMap (permuted sb.2.shape)
      = groups.zipIdx.flatMap (fun x => permuted sb.2.shape x.1) := by
    conv_lhs => rw [← List.zipIdx_map_fst 0 groups, List.flatMap_map]
  rw [hfm, mids_prod hshape hd.hm]

/-! ### the leaves and the zero blocks have the shape `recurse_shape` asks for -/

theorem subSizes_getElem (subSize : Nat → Sector → Nat) (key : List Sector) (j : Nat)
    (hj : j < (subSizes subSize key).length) :
    (subSizes subSize key)[j] = subSize j (key[j]'(by simpa [subSizes] using hj)) := by
  simp [subSizes]

theorem plan_sector_split {before before' after after' : List (Charge × Nat × Bool)}
    {mids mids' : List (Charge × Nat × List Charge)}
    (hb : before.length = before'.length) (hm : mids.length = mids'.length)
    (h : before.map (·.1) ++ mids.map (·.1) ++ after.map (·.1)
      = before'.map (·.1) ++ mids'.map (·.1) ++ after'.map (·.1)) :
    before.map (·.1) = before'.map (·.1) ∧ after.map (·.1) = after'.map (·.1) := by
  obtain ⟨h1, h2⟩ := List.append_inj h (by simp [hb, hm])
  obtain ⟨h3, _⟩ := List.append_inj h1 (by simp [hb])
  exact ⟨h3, h2⟩

/-- a stored sub-block has the shape of its sub-sectors and is well formed -/
theorem leaf_ok [Zero R] {a : Arr R} {groups : List (List Nat)}
    {blockmap : List (Sector × BlockPlan)} (hv : Core a)
    (hadm : fuseAdmissibleB groups a.ndim = true)
    (hbm : a.blocks.mapM (planOf a groups (calcFuseGroupInfo groups a.duals)) = .ok blockmap)
    {s0 : Sector} {p0 : BlockPlan}
    {before0 after0 : List (Charge × Nat × Bool)} {mids0 : List (Charge × Nat × List Charge)}
    (hd0 : PlanDec a groups s0 p0 before0 after0 mids0)
    {kb : List Sector × Blk R} (hkb : LeafOf a.blocks (fiOf a groups blockmap) p0.newSector kb) :
    kb.2.shape = before0.map (·.2.1)
        ++ subSizes (subSizeOf (fiOf a groups blockmap) p0.newSector) kb.1 ++ after0.map (·.2.1)
      ∧ kb.2.wf = true := by
  obtain ⟨sb, hsb, p, hal, hns, hkey, hb⟩ := hkb
  rw [fiOf_blockmap] at hal
  have hsp := alookup_some_mem hal
  have hplan := (blockmap_mem hbm hsp).2
  simp only at hplan
  obtain ⟨before, after, mids, hd⟩ := planDec_of hplan
  have hsec : before.map (·.1) ++ mids.map (·.1) ++ after.map (·.1)
      = before0.map (·.1) ++ mids0.map (·.1) ++ after0.map (·.1) := by
    have := hns
    rw [hd.hp, hd0.hp] at this
    exact this
  obtain ⟨hb1, ha1⟩ := plan_sector_split (by rw [hd.before_len, hd0.before_len])
    (by rw [hd.mids_len, hd0.mids_len]) hsec
  have hbe := cds_congr hd.hb hd0.hb hb1
  have hae := cds_congr hd.ha hd0.ha ha1
  refine ⟨?_, ?_⟩
  · rw [hb]
    show p.newShape = _
    rw [← hkey, ← hns]
    have hmid : mids.map (·.2.1)
        = subSizes (subSizeOf (fiOf a groups blockmap) p.newSector) (mids.map (·.2.2)) := by
      apply List.ext_getElem
      · simp [subSizes_length]
      · intro j h1 h2
        have hjm : j < mids.length := by simpa using h1
        have hj : j < groups.length := by rw [← hd.mids_len]; exact hjm
        rw [subSizes_getElem]
        simp only [List.getElem_map]
        exact (subSize_mid hv.idx hadm hbm hsp hd hj hjm).symm
    have hshp : p.newShape = before.map (·.2.1) ++ mids.map (·.2.1) ++ after.map (·.2.1) := by
      rw [hd.hp]
    have hsub : p.subsectors = mids.map (·.2.2) := by rw [hd.hp]
    rw [hshp, hsub, hmid, hbe, hae]
  · rw [hb, fiOf_gi]
    exact leaf_wf (hv.blk sb hsb).2.1 hplan

theorem forall₂_eq_map {α β : Type} {f : α → β} {l : List α} {r : List β}
    (h : List.Forall₂ (fun x y => y = f x) l r) : r = l.map f := by
  induction h with
  | nil => rfl
  | cons h1 _ ih => rw [h1, ih]; rfl

/-- the sizes `zeroShapeOf` looks up along a run of plain axes are the plan's -/
theorem zero_seg {indices : List Index} {s0 : Sector} {axes : List Nat}
    {cds : List (Charge × Nat × Bool)}
    (hF : List.Forall₂ (fun ax y => planCd indices s0 ax = .ok y) axes cds) (ns : Sector)
    (posOf : Nat → Nat) (hns : ∀ k (hk : k < cds.length), ns.getD (posOf k) (0, 0) = cds[k].1)
    {out : List Nat}
    (hout : List.Forall₂ (fun (x : Nat × Nat) d =>
      (match (indices.getD x.1 default).sizeOf? (ns.getD (posOf x.2) (0, 0)) with
        | some d => pure d
        | none => throw Err.key : Except Err Nat) = .ok d) axes.zipIdx out) :
    out = cds.map (·.2.1) := by
  have l1 := forall₂_length hF
  have l2 := forall₂_length hout
  rw [List.length_zipIdx] at l2
  apply List.ext_getElem
  · simp; omega
  · intro i h1 h2
    have hi : i < cds.length := by simpa using h2
    have q1 := forall₂_getElem hF i (by omega) hi
    have q2 := forall₂_getElem hout i (by simp; omega) h1
    obtain ⟨ix, e1, _, e3, _⟩ := planCd_ok q1
    simp only [List.getElem_zipIdx, Nat.zero_add] at q2
    rw [hns i hi, List.getD_eq_getElem?_getD, e1] at q2
    simp only [Option.getD_some, e3, pure, Except.pure, Except.ok.injEq] at q2
    simp [q2]

/-- the shape `zeroShapeOf` computes for a missing sub-block -/
theorem zero_ok {a : Arr R} {groups : List (List Nat)} {blockmap : List (Sector × BlockPlan)}
    (hwfNew : ∀ i ∈ (fiOf a groups blockmap).newIndices, Index.wfB a.sym i = true)
    {s0 : Sector} {p0 : BlockPlan}
    {before0 after0 : List (Charge × Nat × Bool)} {mids0 : List (Charge × Nat × List Charge)}
    (hd0 : PlanDec a groups s0 p0 before0 after0 mids0) (key : List Sector) (shp : List Nat)
    (hz : fcZeroShape a.indices (fiOf a groups blockmap) p0.newSector key = .ok shp) :
    shp = before0.map (·.2.1)
      ++ subSizes (subSizeOf (fiOf a groups blockmap) p0.newSector) key ++ after0.map (·.2.1) := by
  unfold fcZeroShape at hz
  dsimp only at hz
  obtain ⟨bef, hbef, hz⟩ := bind_ok hz
  obtain ⟨mid, hmid, hz⟩ := bind_ok hz
  obtain ⟨aft, haft, hz⟩ := bind_ok hz
  simp only [pure, Except.pure, Except.ok.injEq] at hz
  subst hz
  have hsecs : p0.newSector = before0.map (·.1) ++ mids0.map (·.1) ++ after0.map (·.1) := by
    rw [hd0.hp]
  -- plain axes before the groups
  have e1 : bef = before0.map (·.2.1) := by
    refine zero_seg hd0.hb p0.newSector (fun k => k) ?_ (mapM_ok_forall₂ _ _ _ hbef)
    intro k hk
    rw [hsecs, List.getD_eq_getElem?_getD, List.append_assoc,
      List.getElem?_append_left (by simpa using hk)]
    simp [hk]
  -- plain axes after the groups
  have e3 : aft = after0.map (·.2.1) := by
    refine zero_seg hd0.ha p0.newSector
      (fun k => (fiOf a groups blockmap).gi.position + (fiOf a groups blockmap).gi.numGroups + k)
      ?_ (mapM_ok_forall₂ _ _ _ haft)
    intro k hk
    have hl : (before0.map (·.1) ++ mids0.map (·.1)).length
        = (fiOf a groups blockmap).gi.position + (fiOf a groups blockmap).gi.numGroups := by
      rw [List.length_append, List.length_map, List.length_map, hd0.before_len, hd0.mids_len]
      rfl
    rw [hsecs, List.getD_eq_getElem?_getD, List.getElem?_append_right (by omega), hl]
    simp [hk]
  -- the groups
  have e2 : mid = subSizes (subSizeOf (fiOf a groups blockmap) p0.newSector) key := by
    refine forall₂_eq_map (forall₂_imp_mem (mapM_ok_forall₂ _ _ _ hmid) ?_)
    rintro ⟨ss, g⟩ d _ hq
    simp only at hq ⊢
    cases hs : (fiOf a groups blockmap).gi.singlets.contains g with
    | true =>
      simp only [hs, if_true] at hq
      unfold subSizeOf fullSizeOf
      simp only [hs, if_true]
      split at hq
      · rename_i d' hd'
        simp only [pure, Except.pure, Except.ok.injEq] at hq
        rw [hd', hq]; rfl
      · cases hq
    | false =>
      simp only [hs, Bool.false_eq_true, if_false] at hq
      split at hq
      · rename_i st d' hd'
        simp only [pure, Except.pure, Except.ok.injEq] at hq
        subst hq
        cases hsub : ((fiOf a groups blockmap).newIndices.getD
            ((fiOf a groups blockmap).gi.position + g) default).sub with
        | none => simp only [extentStart?, hsub, reduceCtorEq] at hd'
        | some se =>
          obtain ⟨subs, exts⟩ := se
          cases hal : alookup exts (p0.newSector.getD ((fiOf a groups blockmap).gi.position + g) (0, 0)) with
          | none => simp only [extentStart?, hsub, hal, reduceCtorEq] at hd'
          | some ext =>
            rw [FuseP.extentStart?_eq hsub hal ss] at hd'
            exact (ext_ok hwfNew p0.newSector g subs exts ext hs hsub hal).2.2 _
              (FuseP.startOf_mem hd')
      · cases hq
  rw [e1, e2, e3]

theorem blockShape?_single {ix : Index} {c : Charge} {d : Nat} (h : ix.sizeOf? c = some d) :
    Arr.blockShape? [ix] [c] = some [d] :=
  blockShape?_iff.mpr ⟨[(ix, c, d)], by simpa [TOk] using h, rfl, rfl, rfl⟩

/-- a sector all of whose charges are in the tables has a block shape -/
theorem blockShape?_tab (idx : List Index) (s : Sector) (hl : idx.length = s.length)
    (hs : ∀ i, i < idx.length →
      ((idx.getD i default).sizeOf? (s.getD i (0, 0))).isSome = true) :
    Arr.blockShape? idx s = some ((List.range idx.length).map
      (fun i => ((idx.getD i default).sizeOf? (s.getD i (0, 0))).getD 0)) := by
  induction idx generalizing s with
  | nil =>
    cases s with
    | nil => simp [Arr.blockShape?]
    | cons c s => simp at hl
  | cons ix idx ih =>
    cases s with
    | nil => simp at hl
    | cons c s =>
      have h0 := hs 0 (by simp)
      simp only [List.getD_cons_zero] at h0
      obtain ⟨d, hd⟩ := Option.isSome_iff_exists.mp h0
      have ih' := ih s (by simpa using hl) (fun i hi => by
        have := hs (i + 1) (by simpa using hi)
        simpa using this)
      have := blockShape?_append (blockShape?_single hd) ih'
      simp only [List.singleton_append] at this
      rw [this, List.length_cons, List.range_succ_eq_map]
      simp [hd, Function.comp_def]

theorem permuted_eq_map_getD {indices : List Index} {s : Sector} {axes : List Nat}
    {cds : List (Charge × Nat × Bool)}
    (h : List.Forall₂ (fun ax y => planCd indices s ax = .ok y) axes cds) :
    permuted indices axes = axes.map (fun ax => indices.getD ax default) := by
  induction h with
  | nil => rfl
  | @cons ax y axes' cds' hy _ ih =>
    obtain ⟨ix, h1, _, _, _⟩ := planCd_ok hy
    have hax : ax < indices.length := (List.getElem?_eq_some_iff.mp h1).1
    rw [permuted_cons _ _ _ hax, ih]
    simp [List.getD_eq_getElem?_getD, hax]

/-- the new sector of a planned block has a block shape in the new index tables -/
theorem plan_blockShape {a : Arr R} {groups : List (List Nat)}
    {blockmap : List (Sector × BlockPlan)} (hwf : ∀ i ∈ a.indices, Index.wfB a.sym i = true)
    (hadm : fuseAdmissibleB groups a.ndim = true)
    (hbm : a.blocks.mapM (planOf a groups (calcFuseGroupInfo groups a.duals)) = .ok blockmap)
    {s : Sector} {p : BlockPlan} (hsp : (s, p) ∈ blockmap)
    {before after : List (Charge × Nat × Bool)} {mids : List (Charge × Nat × List Charge)}
    (hd : PlanDec a groups s p before after mids) :
    Arr.blockShape? (fiOf a groups blockmap).newIndices p.newSector
      = some (before.map (·.2.1)
          ++ fullsFrom (fullSizeOf (fiOf a groups blockmap) p.newSector) groups.length 0
          ++ after.map (·.2.1)) := by
  have hsecs : p.newSector = before.map (·.1) ++ mids.map (·.1) ++ after.map (·.1) := by
    rw [hd.hp]
  have hB := (cds_facts (sym := a.sym) false hwf hd.hb).1
  have hA := (cds_facts (sym := a.sym) false hwf hd.ha).1
  rw [← permuted_eq_map_getD hd.hb] at hB
  rw [← permuted_eq_map_getD hd.ha] at hA
  have hM : Arr.blockShape?
      (groups.zipIdx.map (fuseMidIndex a (calcFuseGroupInfo groups a.duals) blockmap))
      (mids.map (·.1))
      = some (fullsFrom (fullSizeOf (fiOf a groups blockmap) p.newSector) groups.length 0) := by
    have hget : ∀ i (hi : i < groups.length),
        (groups.zipIdx.map (fuseMidIndex a (calcFuseGroupInfo groups a.duals) blockmap)).getD i default
          = fuseMidIndex a (calcFuseGroupInfo groups a.duals) blockmap (groups[i], i) := by
      intro i hi
      simp [List.getD_eq_getElem?_getD, hi]
    have hgetm : ∀ i (hi : i < mids.length), (mids.map (·.1)).getD i (0, 0) = mids[i].1 := by
      intro i hi
      simp [List.getD_eq_getElem?_getD, hi]
    have hml := hd.mids_len
    rw [blockShape?_tab _ _ (by simp [hml])]
    · simp only [List.length_map, List.length_zipIdx, fullsFrom, Nat.sub_zero,
        List.range_eq_range', Option.some.injEq]
      apply List.map_congr_left
      intro i hi
      have hi' : i < groups.length := by
        have := List.mem_range'.mp hi
        omega
      rw [hget i hi', hgetm i (by omega), fullSize_mid hwf hadm hbm hsp hd hi' (by omega)]
      rfl
    · intro i hi
      have hi' : i < groups.length := by simpa using hi
      rw [hget i hi', hgetm i (by omega), fullSize_mid hwf hadm hbm hsp hd hi' (by omega)]
      rfl
  conv_lhs => rw [hsecs]
  exact blockShape?_append (blockShape?_append hB hM) hA

end FC
open FC

/-! ## C4 — `_fuse_core` in concat mode -/

/-- **C4**: fusing (concat mode) a `Core`-valid array over admissible groups gives a `Core`-valid
    array -/
theorem fuseCore_concat_core [Zero R] (a r : Arr R) (groups : List (List Nat)) (hv : Core a)
    (hadm : fuseAdmissibleB groups a.ndim = true)
    (h : fuseCore a groups .concat = .ok r) : Core r := by
  unfold fuseCore at h
  cases hfi : calcFuseBlockInfo a groups with
  | error e => rw [hfi] at h; cases h
  | ok fi =>
    rw [hfi] at h
    simp only [bind, Except.bind] at h
    cases hnb : fuseConcat a.indices a.blocks fi with
    | error e => rw [hnb] at h; cases h
    | ok nb =>
      rw [hnb] at h
      cases h
      have hidxwf := calcFuseBlockInfo_wf a groups fi hv.idx hfi
      obtain ⟨blockmap, hb, hfieq⟩ := calcFuseBlockInfo_ok hfi
      have hfi' : fi = fiOf a groups blockmap := hfieq
      subst hfi'
      have hperm : (calcFuseGroupInfo groups a.duals).perm.Perm (List.range a.ndim) := by
        have : a.ndim = a.duals.length := by simp [Arr.ndim, Arr.duals]
        rw [this] at hadm ⊢
        exact perm_of_admissible hadm
      rw [fuseConcat_eq] at hnb
      obtain ⟨grouped, hgr, hout⟩ := bind_ok hnb
      have hG := grp_inv a.blocks _ grouped hgr
      have hF := mapM_ok_forall₂ _ _ _ hout
      refine ⟨hidxwf, hv.chg, ?_, ?_⟩
      · show (nb.map (·.1)).Nodup
        rw [forall₂_keys_eq (hF.imp (fun x y hxy => (fcOut_ok hxy).1))]
        exact hG.1
      · intro sb' hsb'
        obtain ⟨x, hx, hxy⟩ := forall₂_mem_right hF hsb'
        obtain ⟨hkey, hrec⟩ := fcOut_ok hxy
        obtain ⟨hne, hleafs⟩ := hG.2 x hx
        obtain ⟨ns, sub⟩ := x
        obtain ⟨nsb, b⟩ := sb'
        simp only at hkey hrec hne hleafs
        subst hkey
        -- a planned block with this new sector
        obtain ⟨kb0, hkb0⟩ := List.exists_mem_of_ne_nil _ hne
        obtain ⟨sb0, hsb0, p0, hal0, hns0, _, _⟩ := hleafs kb0 hkb0
        rw [fiOf_blockmap] at hal0
        have hsp0 := alookup_some_mem hal0
        have hplan0 := (blockmap_mem hb hsp0).2
        simp only at hplan0
        obtain ⟨before0, after0, mids0, hd0⟩ := planDec_of hplan0
        subst hns0
        have hshape := recurse_shape (fiOf a groups blockmap) sub p0.newSector
          (fcZeroShape a.indices (fiOf a groups blockmap) p0.newSector)
          (before0.map (·.2.1)) (after0.map (·.2.1))
          (subSizeOf (fiOf a groups blockmap) p0.newSector)
          (fullSizeOf (fiOf a groups blockmap) p0.newSector)
          (by rw [List.length_map, hd0.before_len]; rfl)
          (fun key b' _ hal =>
            leaf_ok hv hadm hb hd0 (kb := (key, b')) (hleafs (key, b') (alookup_some_mem hal)))
          (fun key shp _ hz => zero_ok hidxwf hd0 key shp hz)
          (fun g hs => by unfold subSizeOf; simp only [hs, if_true])
          (fun g subs exts ext hs hsub hal => ext_ok hidxwf _ g subs exts ext hs hsub hal)
          (fiOf a groups blockmap).gi.numGroups 0 [] b rfl rfl hrec
        have hbs := plan_blockShape hv.idx hadm hb hsp0 hd0
        have hsh : b.shape = before0.map (·.2.1)
            ++ fullsFrom (fullSizeOf (fiOf a groups blockmap) p0.newSector) groups.length 0
            ++ after0.map (·.2.1) := by
          rw [hshape.1]
          simp only [subSizes, List.zipIdx_nil, List.map_nil, List.append_nil]
          rfl
        refine ⟨⟨(blockShape?_length hbs).2, ?_⟩, ?_, hshape.2⟩
        · exact plan_charge blockmap (hv.blk _ hsb0).1 hplan0 hperm
        · show Arr.blockShape? (fiOf a groups blockmap).newIndices p0.newSector = some b.shape
          rw [hsh]; exact hbs

/-- abelian arrays: `_fuse_core` in concat mode returns a valid array -/
theorem fuseCore_concat_valid [Zero R] (a r : Arr R) (groups : List (List Nat)) (hv : Valid a)
    (hf : a.fermi = false) (hadm : fuseAdmissibleB groups a.ndim = true)
    (h : fuseCore a groups .concat = .ok r) : Valid r := by
  refine Valid.of (fuseCore_concat_core a r groups hv.core hadm h) ?_
  obtain ⟨_, e2, _, e4, e5⟩ := fuseCore_fields h
  have := hv.sgn
  unfold SignsOk at this ⊢
  simp only [hf, Bool.false_eq_true, if_false] at this
  rw [e2, e4, e5]
  simp only [hf, Bool.false_eq_true, if_false]
  exact this

theorem fuseCore_concat_validB [Zero R] (a r : Arr R) (groups : List (List Nat))
    (hv : a.validB = true) (hf : a.fermi = false) (hadm : fuseAdmissibleB groups a.ndim = true)
    (h : fuseCore a groups .concat = .ok r) : r.validB = true :=
  (validB_iff r).mpr (fuseCore_concat_valid a r groups ((validB_iff a).mp hv) hf hadm h)

/-! ## the public wrappers -/

/-- `AbelianArray.fuse(*axes_groups, expand_empty, mode="concat")` on an abelian array, empty
    groups included -/
theorem fuseA_concat_valid [Zero R] (a r : Arr R) (groups : List (List Nat)) (expandEmpty : Bool)
    (hv : Valid a) (hf : a.fermi = false) (hadm : fuseAdmissibleB groups a.ndim = true)
    (h : fuseA a groups .concat expandEmpty = .ok r) : Valid r := by
  have hadm' : fuseAdmissibleB (groups.filter (fun g => !g.isEmpty)) a.ndim = true := by
    unfold fuseAdmissibleB at hadm ⊢
    rw [filter_nonempty_flatten]; exact hadm
  unfold fuseA at h
  dsimp only at h
  split at h
  · rw [pure_bind] at h
    have h' : fuseTail groups expandEmpty (groups.filter (fun g => !g.isEmpty)) a = .ok r := h
    exact fuseTail_valid _ _ _ a r hv h'
  · obtain ⟨xf, hxf, h⟩ := bind_ok h
    have h' : fuseTail groups expandEmpty (groups.filter (fun g => !g.isEmpty)) xf = .ok r := h
    exact fuseTail_valid _ _ _ xf r (fuseCore_concat_valid a xf _ hv hf hadm' hxf) h'

theorem fuseA_concat_validB [Zero R] (a r : Arr R) (groups : List (List Nat)) (expandEmpty : Bool)
    (hv : a.validB = true) (hf : a.fermi = false) (hadm : fuseAdmissibleB groups a.ndim = true)
    (h : fuseA a groups .concat expandEmpty = .ok r) : r.validB = true :=
  (validB_iff r).mpr (fuseA_concat_valid a r groups expandEmpty ((validB_iff a).mp hv) hf hadm h)

/-- `FermionicArray.fuse(*axes_groups, expand_empty, mode)` returns a valid array as soon as
    `_fuse_core` in that mode preserves `Core` (the proof of `fuseF_valid`, generalised over the
    mode) -/
theorem fuseF_valid_of [Zero R] [Neg R] (mode : FuseMode)
    (hcore : ∀ (x r : Arr R) (gs : List (List Nat)), Core x → fuseAdmissibleB gs x.ndim = true →
      fuseCore x gs mode = .ok r → Core r)
    (a r : Arr R) (groups : List (List Nat)) (expandEmpty : Bool)
    (hv : Valid a) (hf : a.fermi = true) (hadm : fuseAdmissibleB groups a.ndim = true)
    (h : Arr.fuseF a groups mode expandEmpty = .ok r) : Valid r := by
  have hadm' : fuseAdmissibleB (groups.filter (fun g => !g.isEmpty)) a.duals.length = true := by
    unfold fuseAdmissibleB at hadm ⊢
    rw [filter_nonempty_flatten]
    have : a.duals.length = a.ndim := by simp [Arr.duals, Arr.ndim]
    rw [this]; exact hadm
  unfold Arr.fuseF at h
  dsimp only at h
  split at h
  · rw [pure_bind] at h
    have h' : fuseTail groups expandEmpty (groups.filter (fun g => !g.isEmpty)) a = .ok r := h
    exact fuseTail_valid _ _ _ a r hv h'
  · obtain ⟨ng, hng, h⟩ := bind_ok h
    obtain ⟨x5, hx5, h⟩ := bind_ok h
    rw [pure_bind] at h
    have h' : fuseTail groups expandEmpty ng x5 = .ok r := h
    refine fuseTail_valid _ _ _ x5 r ?_ h'
    have goal : Valid x5 := by
      -- the transposed, sign-synchronised operand of `_fuse_core`
      set nonEmpty := groups.filter (fun g => !g.isEmpty) with hne
      have hperm := perm_of_admissible hadm'
      have hisp : Arr.isPerm (calcFuseGroupInfo nonEmpty a.duals).perm a.ndim = true := by
        have : a.duals.length = a.ndim := by simp [Arr.duals, Arr.ndim]
        rw [← this]; exact isPerm_of_perm hperm
      have v1 := transposeF_valid a _ true hv hf hisp
      set x1 := a.transposeF (calcFuseGroupInfo nonEmpty a.duals).perm true with hx1
      have f1 : x1.fermi = true := hf
      have n1 : x1.ndim = a.ndim := by
        show (permuted a.indices _).length = a.ndim
        rw [permuted_length (fun i hi => isPerm_lt hisp i hi)]
        have := hperm.length_eq
        simpa [Arr.duals, Arr.ndim] using this
      -- the new groups are admissible
      have hadmNew : fuseAdmissibleB ng a.ndim = true := by
        have hF := forall₂_flatten ((mapM_ok_forall₂ _ _ _ hng).imp
          (fun g g' hg => mapM_ok_forall₂ _ _ _ hg))
        have hF' : List.Forall₂ (fun ax k =>
            indexOf? (calcFuseGroupInfo nonEmpty a.duals).perm ax = some k)
            nonEmpty.flatten ng.flatten := by
          refine hF.imp ?_
          intro ax k hk
          split at hk
          · rename_i k' hk'
            simp only [pure, Except.pure, Except.ok.injEq] at hk
            subst hk; exact hk'
          · cases hk
        unfold fuseAdmissibleB at hadm' ⊢
        simp only [Bool.and_eq_true, allDistinct_iff, List.all_eq_true,
          decide_eq_true_eq] at hadm' ⊢
        obtain ⟨q1, q2⟩ := positions_nodup hF' hadm'.1
        refine ⟨q1, fun k hk => ?_⟩
        have := q2 k hk
        have hl := hperm.length_eq
        rw [List.length_range] at hl
        rw [hl] at this
        simpa [Arr.duals, Arr.ndim] using this
      -- sign bookkeeping before `_fuse_core`
      generalize hflip : List.flatMap _ _ = axesFlip at hx5
      have v2 := phaseFlip_valid x1 axesFlip v1 f1
      have f2 : (x1.phaseFlip axesFlip).fermi = true := by
        rw [(phaseFlip_fields x1 axesFlip).2.2.2.2]; exact f1
      have i2 : (x1.phaseFlip axesFlip).indices = x1.indices :=
        (phaseFlip_fields x1 axesFlip).1
      have key : ∀ (c : Bool) (p : Option (List Nat)),
          Valid (if c = true then x1.phaseFlip axesFlip
                 else (x1.phaseFlip axesFlip).phaseTranspose p)
          ∧ (if c = true then x1.phaseFlip axesFlip
             else (x1.phaseFlip axesFlip).phaseTranspose p).indices = x1.indices := by
        intro c p
        cases c
        · simp only [Bool.false_eq_true, if_false]
          exact ⟨phaseTranspose_valid _ _ v2 f2, i2⟩
        · simp only [if_true]
          exact ⟨v2, i2⟩
      refine valid_of_core_synced (phaseSync_valid _ (key _ _).1) rfl
        (hcore _ x5 ng (phaseSync_valid _ (key _ _).1).core ?_ hx5)
        (fuseCore_fields hx5)
      have : ∀ y : Arr R, y.indices = x1.indices → y.phaseSync.ndim = a.ndim := by
        intro y hy
        show y.indices.length = a.ndim
        rw [hy]; exact n1
      rw [this _ (key _ _).2]
      exact hadmNew
    exact goal


/-- `FermionicArray.fuse(*axes_groups, expand_empty, mode="concat")` -/
theorem fuseF_concat_valid [Zero R] [Neg R] (a r : Arr R) (groups : List (List Nat))
    (expandEmpty : Bool) (hv : Valid a) (hf : a.fermi = true)
    (hadm : fuseAdmissibleB groups a.ndim = true)
    (h : Arr.fuseF a groups .concat expandEmpty = .ok r) : Valid r :=
  fuseF_valid_of .concat (fun x r gs hx hg hr => fuseCore_concat_core x r gs hx hg hr)
    a r groups expandEmpty hv hf hadm h

theorem fuseF_concat_validB [Zero R] [Neg R] (a r : Arr R) (groups : List (List Nat))
    (expandEmpty : Bool) (hv : a.validB = true) (hf : a.fermi = true)
    (hadm : fuseAdmissibleB groups a.ndim = true)
    (h : Arr.fuseF a groups .concat expandEmpty = .ok r) : r.validB = true :=
  (validB_iff r).mpr (fuseF_concat_valid a r groups expandEmpty ((validB_iff a).mp hv) hf hadm h)

/-! ## the hypotheses are satisfiable, and a zero block really is used -/

/-- a Z2 array with four indices, total charge 1, three of the eight sectors stored.  Fusing
    axes `0, 1`: the new charge `0` has the sub-sectors `(0,0)` and `(1,1)`; the new sector
    `(0,0,1)` only has the sub-block `(0,0)` and the new sector `(0,1,0)` only `(1,1)`, so each
    is completed by a zero block.  (With three indices and one fused pair the remaining charge is
    determined by the fused one, so no sub-block can be missing: rank 4 is the smallest case.) -/
def exConcat4 : Arr Int :=
  { sym := .Z2, fermi := false,
    indices := [.mk [((0, 0), 1), ((1, 0), 2)] false none, .mk [((0, 0), 2), ((1, 0), 1)] true none,
                .mk [((0, 0), 1), ((1, 0), 1)] false none, .mk [((0, 0), 2), ((1, 0), 1)] false none],
    charge := (1, 0),
    blocks := [([(0, 0), (0, 0), (0, 0), (1, 0)], ⟨[1, 2, 1, 1], #[1, 2]⟩),
               ([(1, 0), (1, 0), (1, 0), (0, 0)], ⟨[2, 1, 1, 2], #[3, 4, 5, 6]⟩),
               ([(0, 0), (1, 0), (0, 0), (0, 0)], ⟨[1, 1, 1, 2], #[7, 8]⟩)] }

example : exConcat4.validB = true ∧ exConcat4.fermi = false
    ∧ fuseAdmissibleB [[0, 1]] exConcat4.ndim = true ∧ fuseAdmissibleB [[0, 1], [2, 3]] exConcat4.ndim = true
    ∧ fuseAdmissibleB [[3, 0], [1]] exConcat4.ndim = true := by
  decide

/-- the result is valid, has the three new sectors, and the block of `(0,0,1)` is the stored
    `[1,2]` followed by two zeros -/
example : (match fuseCore exConcat4 [[0, 1]] .concat with
    | .ok r => r.validB && r.sectors == [[(0, 0), (0, 0), (1, 0)], [(0, 0), (1, 0), (0, 0)],
                                         [(1, 0), (0, 0), (0, 0)]]
        && (r.blocks.map (fun sb => (sb.2.shape, sb.2.data.toList)))
            == [([4, 1, 1], [1, 2, 0, 0]), ([4, 1, 2], [0, 0, 0, 0, 3, 4, 5, 6]), ([1, 1, 2], [7, 8])]
    | .error _ => false) = true := by decide +kernel

/-- two fused groups, and a fused group together with a singlet group -/
example : (match fuseCore exConcat4 [[0, 1], [2, 3]] .concat with
    | .ok r => r.validB && r.ndim == 2
    | .error _ => false) = true := by decide +kernel

example : (match fuseCore exConcat4 [[3, 0], [1]] .concat with
    | .ok r => r.validB && r.ndim == 3
    | .error _ => false) = true := by decide +kernel

/-- concat and insert mode agree on this array -/
example : (match fuseCore exConcat4 [[0, 1]] .concat, fuseCore exConcat4 [[0, 1]] .insert with
    | .ok r, .ok r' => r.sectors == r'.sectors
        && r.blocks.map (fun sb => (sb.2.shape, sb.2.data.toList))
            == r'.blocks.map (fun sb => (sb.2.shape, sb.2.data.toList))
    | _, _ => false) = true := by decide +kernel

/-- a rank-3 array (all four sectors stored), every group a singlet: the result is the leaf -/
example : (match fuseCore exArr3 [[1], [0]] .concat with
    | .ok r => r.validB && r.ndim == 3
    | .error _ => false) = true := by decide +kernel

example : (match fuseCore exArr3 [[0, 1]] .concat with
    | .ok r => r.validB && r.sectors == [[(0, 0), (1, 0)], [(1, 0), (0, 0)]]
    | .error _ => false) = true := by decide +kernel

/-- `AbelianArray.fuse` in concat mode with an empty group (continues with `expand_dims`) -/
example : fuseAdmissibleB [[1, 0], [], [3]] exConcat4.ndim = true
    ∧ (match fuseA exConcat4 [[1, 0], [], [3]] .concat true with
        | .ok r => r.validB && r.ndim == 4
        | .error _ => false) = true := by decide +kernel

/-- the same data as a fermionic array (odd parity, one odd-position label) -/
def exConcat4F : Arr Int := { exConcat4 with fermi := true, oddpos := [(0, false)] }

example : exConcat4F.validB = true ∧ exConcat4F.fermi = true
    ∧ fuseAdmissibleB [[1, 0], [], [3]] exConcat4F.ndim = true := by decide

example : (match Arr.fuseF exConcat4F [[1, 0], [], [3]] .concat true with
    | .ok r => r.validB && r.ndim == 4
    | .error _ => false) = true := by decide +kernel

example : (match Arr.fuseF exConcat4F [[0, 1], [2, 3]] .concat true with
    | .ok r => r.validB && r.ndim == 2
    | .error _ => false) = true := by decide +kernel

/-
  Remarks.
  * `fuseCore_concat_core` holds as stated: no admissible input was found (nor exists, by the
    proof) on which `recurseConcat` returns a block whose shape disagrees with the tables.  The
    two places where the model could have produced an ill-formed block are excluded by
    `Index.wfB` of the new indices: an extent is never empty (its sizes add up to a positive
    chargemap size, `FC.ext_ok`), so `Blk.concatK [] _` is never evaluated; and with only singlet
    groups the result is a leaf, which is well formed (`FC.leaf_wf`).
  * `fuseCore a [] .concat` is an error whenever `a` has a block (`recurseConcat` starts with fuel
    `0`), while insert mode returns a valid array; `fuseA` / `fuseF` never call `fuseCore` with an
    empty list, and Python's `_recurse_concat` fails there too, so this is not a discrepancy.
  * Nothing of the concat mode is left PLANNED.
-/

end ValidP
end SymmModel
