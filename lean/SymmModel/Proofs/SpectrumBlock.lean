/-
  SymmModel.Proofs.SpectrumBlock — the global reindexing `Fin N ≃ Σ k, Fin d_k` of the positions
  of an axis (pieces of a charge table are contiguous) and the dense form of a Hermitian-structured
  matrix as `Matrix.blockDiagonal'` of its sector matrices.
-/
import SymmModel.Proofs.SpectrumMore

namespace SymmModel
namespace Spectrum

open Arr Matrix LinalgLemmas

/-- first position of the `k`-th piece of a charge table -/
def startOf : List (Charge × Nat) → Nat → Nat
  | [], _ => 0
  | _ :: _, 0 => 0
  | (_, d) :: rest, k + 1 => d + startOf rest k

/-- number of the piece a position lies in -/
def pieceAt : List (Charge × Nat) → Nat → Nat
  | [], _ => 0
  | (_, d) :: rest, p => if p < d then 0 else pieceAt rest (p - d) + 1

/-- the pieces are contiguous: offset `o` of piece `k` sits at position `startOf k + o` -/
theorem locate_startOf (cm : List (Charge × Nat)) (k : Nat) (hk : k < cm.length) (o : Nat)
    (ho : o < cm[k].2) : locate cm (startOf cm k + o) = some (cm[k].1, o) := by
  induction cm generalizing k with
  | nil => simp at hk
  | cons kd rest ih =>
    obtain ⟨c, d⟩ := kd
    cases k with
    | zero =>
      simp only [List.getElem_cons_zero] at ho
      simp [startOf, locate, ho]
    | succ k =>
      simp only [List.getElem_cons_succ] at ho ⊢
      have : ¬ (d + startOf rest k + o < d) := by omega
      simp only [startOf, locate, this, if_false]
      have e : d + startOf rest k + o - d = startOf rest k + o := by omega
      rw [e]
      exact ih k (by simpa using hk) ho

theorem startOf_add_lt (cm : List (Charge × Nat)) (k : Nat) (hk : k < cm.length) (o : Nat)
    (ho : o < cm[k].2) : startOf cm k + o < total cm :=
  locate_lt (locate_startOf cm k hk o ho)

theorem pieceAt_spec (cm : List (Charge × Nat)) (p : Nat) (hp : p < total cm) :
    ∃ hk : pieceAt cm p < cm.length,
      startOf cm (pieceAt cm p) ≤ p ∧ p - startOf cm (pieceAt cm p) < cm[pieceAt cm p].2 := by
  induction cm generalizing p with
  | nil => simp [total, sumN] at hp
  | cons kd rest ih =>
    obtain ⟨c, d⟩ := kd
    by_cases h : p < d
    · simp [pieceAt, h, startOf]
    · have hp' : p - d < total rest := by
        have : total ((c, d) :: rest) = d + total rest := rfl
        omega
      obtain ⟨hk, h1, h2⟩ := ih (p - d) hp'
      refine ⟨by simp [pieceAt, h]; exact hk, ?_, ?_⟩
      · simp only [pieceAt, h, if_false, startOf]; omega
      · simp only [pieceAt, h, if_false, startOf, List.getElem_cons_succ]
        have : p - (d + startOf rest (pieceAt rest (p - d))) = p - d - startOf rest (pieceAt rest (p - d)) := by
          omega
        rw [this]; exact h2

theorem pieceAt_startOf (cm : List (Charge × Nat)) (k : Nat) (hk : k < cm.length) (o : Nat)
    (ho : o < cm[k].2) : pieceAt cm (startOf cm k + o) = k := by
  induction cm generalizing k with
  | nil => simp at hk
  | cons kd rest ih =>
    obtain ⟨c, d⟩ := kd
    cases k with
    | zero =>
      simp only [List.getElem_cons_zero] at ho
      simp [startOf, pieceAt, ho]
    | succ k =>
      simp only [List.getElem_cons_succ] at ho
      have : ¬ (d + startOf rest k + o < d) := by omega
      have e : d + startOf rest k + o - d = startOf rest k + o := by omega
      simp only [startOf, pieceAt, this, if_false, e]
      rw [ih k (by simpa using hk) ho]

/-- positions of an axis ≃ (piece, offset inside the piece) -/
def blockEquiv (cm : List (Charge × Nat)) :
    Fin (total cm) ≃ Σ k : Fin cm.length, Fin (cm[k.1].2) where
  toFun p := ⟨⟨pieceAt cm p.1, (pieceAt_spec cm p.1 p.2).1⟩,
    ⟨p.1 - startOf cm (pieceAt cm p.1), (pieceAt_spec cm p.1 p.2).2.2⟩⟩
  invFun x := ⟨startOf cm x.1.1 + x.2.1, startOf_add_lt cm x.1.1 x.1.2 x.2.1 x.2.2⟩
  left_inv p := by
    apply Fin.ext
    have := (pieceAt_spec cm p.1 p.2).2.1
    simp only
    omega
  right_inv x := by
    obtain ⟨⟨k, hk⟩, ⟨o, ho⟩⟩ := x
    have h1 := pieceAt_startOf cm k hk o ho
    simp only
    refine Sigma.ext (Fin.ext h1) ?_
    have hsz : cm[pieceAt cm (startOf cm k + o)].2 = cm[k].2 := by simp only [h1]
    rw [Fin.heq_ext_iff hsz]
    simp only [h1]
    omega

theorem blockEquiv_symm_val (cm : List (Charge × Nat)) (x : Σ k : Fin cm.length, Fin (cm[k.1].2)) :
    ((blockEquiv cm).symm x).1 = startOf cm x.1.1 + x.2.1 := rfl

variable {R : Type} [CommRing R]

/-- **`toDense_eq_blockDiagonal`**: after the reindexing `position ↦ (piece, offset)` — which
    only renames positions, the pieces being contiguous and in the same order on both axes —
    the dense form of a Hermitian-structured matrix is the block-diagonal matrix of its sector
    matrices `(c, c)` (zero blocks for the charges whose sector is not stored) -/
theorem herm_eq_blockDiagonal {a : Arr R} (H : EighInput a) {i0 i1 : Index}
    (hi : a.indices = [i0, i1]) {d : Blk R} (hd : a.toDenseA = .ok d) :
    reindex (blockEquiv (Index.sortCm i0.cm)) (blockEquiv (Index.sortCm i0.cm))
      (d.toMatrix (total (Index.sortCm i0.cm)) (total (Index.sortCm i0.cm)))
      = blockDiagonal' (fun k : Fin (Index.sortCm i0.cm).length =>
          a.sectorMatrix (Index.sortCm i0.cm)[k.1].1 (Index.sortCm i0.cm)[k.1].1
            (Index.sortCm i0.cm)[k.1].2 (Index.sortCm i0.cm)[k.1].2) := by
  have hnd := herm_nodup H hi
  ext ⟨k, o⟩ ⟨k', o'⟩
  have l1 := locate_startOf _ k.1 k.2 o.1 o.2
  have l2 := locate_startOf _ k'.1 k'.2 o'.1 o'.2
  have hent : (reindex (blockEquiv (Index.sortCm i0.cm)) (blockEquiv (Index.sortCm i0.cm))
      (d.toMatrix (total (Index.sortCm i0.cm)) (total (Index.sortCm i0.cm)))) ⟨k, o⟩ ⟨k', o'⟩
      = a.elem [(Index.sortCm i0.cm)[k.1].1, (Index.sortCm i0.cm)[k'.1].1] [o.1, o'.1] := by
    simp only [reindex_apply, submatrix_apply, Blk.toMatrix, blockEquiv_symm_val]
    rw [herm_entry H hi hd (startOf_add_lt _ k.1 k.2 o.1 o.2) (startOf_add_lt _ k'.1 k'.2 o'.1 o'.2)]
    simp only [chargeAt, offsetAt, l1, l2, Option.map_some, Option.getD_some, ofLex_toLex]
  rw [hent]
  by_cases hkk : k = k'
  · subst hkk
    rw [blockDiagonal'_apply_eq]
    rfl
  · rw [blockDiagonal'_apply_ne _ _ _ hkk]
    by_contra hnz
    obtain ⟨⟨s, b⟩, hm, hse⟩ := List.mem_map.mp (elem_ne_zero_mem hnz)
    obtain ⟨c, m, hsc, _⟩ := eigh_block H (s := s) (b := b) hm
    have hse' : s = [(Index.sortCm i0.cm)[k.1].1, (Index.sortCm i0.cm)[k'.1].1] := hse
    rw [hsc] at hse'
    have e : (Index.sortCm i0.cm)[k.1].1 = (Index.sortCm i0.cm)[k'.1].1 :=
      (List.cons.inj hse').1.symm.trans (List.cons.inj (List.cons.inj hse').2).1
    have := (List.nodup_iff_injective_getElem.mp hnd)
    apply hkk
    apply Fin.ext
    have h1 : ((Index.sortCm i0.cm).map (·.1))[k.1]'(by simp) = ((Index.sortCm i0.cm).map (·.1))[k'.1]'(by simp) := by
      simpa using e
    have := @this ⟨k.1, by simp⟩ ⟨k'.1, by simp⟩ h1
    exact Fin.mk.inj this

/-- the same factorisation of the characteristic polynomial, obtained from the block-diagonal
    form with `charpoly_reindex` and `charpoly_blockDiagonal'` -/
theorem herm_charpoly_fin {a : Arr R} (H : EighInput a) {i0 i1 : Index}
    (hi : a.indices = [i0, i1]) {d : Blk R} (hd : a.toDenseA = .ok d) :
    (d.toMatrix (total (Index.sortCm i0.cm)) (total (Index.sortCm i0.cm))).charpoly
      = ∏ k : Fin (Index.sortCm i0.cm).length,
          (a.sectorMatrix (Index.sortCm i0.cm)[k.1].1 (Index.sortCm i0.cm)[k.1].1
            (Index.sortCm i0.cm)[k.1].2 (Index.sortCm i0.cm)[k.1].2).charpoly := by
  rw [← charpoly_reindex (blockEquiv (Index.sortCm i0.cm)), herm_eq_blockDiagonal H hi hd,
    charpoly_blockDiagonal']

end Spectrum
end SymmModel
