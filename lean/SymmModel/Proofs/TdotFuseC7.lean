import SymmModel.Proofs.TdotFuseC6

/-!
# C06 — fermionic fuse-free-commute with the contractions in any mode

`lead_commute_fermi` split into its two halves (the pre-fused contraction in terms of the plain
blockwise result; the fermionic fuse of the leading legs of ANY valid array at decoded addresses),
and recombined with the padding relation between the results of a call in fused / auto mode and
in blockwise mode.
-/

namespace SymmModel.TdotP
open SymmModel SymmModel.GradedP SymmModel.Lazy SymmModel.AssocP SymmModel.RoutesP

variable {R : Type}

/-- a padded result and the blockwise result agree at every address inside the operands' tables -/
theorem pad_elem_big [Zero R] [Neg R] {P Q : Arr R} (hp : Pad P Q) {Wt : List Index}
    (hfr : List.Forall₂ SizeLe P.indices Wt) (s : Sector) (o : List Nat)
    (ho : inBox (Arr.blockShapeD Wt s) o = true) : P.elem s o = Q.elem s o := by
  by_cases hs : s ∈ P.sectors
  · obtain ⟨p, hpm, rfl⟩ := List.mem_map.mp hs
    have h1 := hp.shapeP p hpm
    have h2 := blockShape?_weaken hfr _ _ h1
    apply hp.elem _ hs
    unfold Arr.blockShapeD at ho ⊢
    rw [h2] at ho
    rw [h1]
    exact ho
  · rw [Arr.elem_of_not_mem hs, Arr.elem_of_not_mem (fun h => hs (hp.sub s h))]

/-- a successful call in any mode: the blockwise call succeeds, and the result is a padding of it -/
theorem call_any [AddCommMonoid R] [Mul R] [Neg R] [SignRing R]
    (hz1 : ∀ x : R, 0 * x = 0) (hz2 : ∀ x : R, x * 0 = 0) (a b : Arr R) (xa xb : List Nat)
    (W : AdmW a b xa xb) (mode : TdotMode) (rm : Arr R)
    (hm : a.tensordotF b (.pair (xa.map Int.ofNat) (xb.map Int.ofNat)) mode = .ok rm) :
    ∃ rb, a.tensordotF b (.pair (xa.map Int.ofNat) (xb.map Int.ofNat)) .blockwise = .ok rb
      ∧ Pad rm rb ∧ InterW a b xa xb rm ∧ InterW a b xa xb rb := by
  have key : ∀ m, (m = .fused ∨ m = .auto) →
      a.tensordotF b (.pair (xa.map Int.ofNat) (xb.map Int.ofNat)) m = .ok rm →
      ∃ rb, a.tensordotF b (.pair (xa.map Int.ofNat) (xb.map Int.ofNat)) .blockwise = .ok rb
        ∧ Pad rm rb ∧ InterW a b xa xb rm ∧ InterW a b xa xb rb := by
    intro m hmode hm'
    obtain ⟨he, hk⟩ := tensordotF_modes_all_w hz1 hz2 a b xa xb W m hmode
    cases hmo : OddposP.mergeOddpos a.parity a.oddpos b.oddpos with
    | error e => rw [(he e hmo).1] at hm'; cases hm'
    | ok r =>
      obtain ⟨rm', rb, h1, h2, _⟩ := hk r hmo
      obtain ⟨rm'', h3, h4, h5, h6, _⟩ := call_w hz1 hz2 a b xa xb W m hmode rb h2
      have e1 : rm'' = rm := by rw [h3] at hm'; exact Except.ok.inj hm'
      subst e1
      exact ⟨rb, h2, h4, h5, h6⟩
  cases mode with
  | fused => exact key .fused (Or.inl rfl) hm
  | auto => exact key .auto (Or.inr rfl) hm
  | blockwise =>
    obtain ⟨_, _, _, _, h6, _⟩ := call_w hz1 hz2 a b xa xb W .fused (Or.inl rfl) rm hm
    exact ⟨rm, hm, Pad.refl h6.valid, h6, h6⟩

theorem call_any_exists [AddCommMonoid R] [Mul R] [Neg R] [SignRing R]
    (hz1 : ∀ x : R, 0 * x = 0) (hz2 : ∀ x : R, x * 0 = 0) (a b : Arr R) (xa xb : List Nat)
    (W : AdmW a b xa xb) (rb : Arr R)
    (hb : a.tensordotF b (.pair (xa.map Int.ofNat) (xb.map Int.ofNat)) .blockwise = .ok rb)
    (mode : TdotMode) :
    ∃ rm, a.tensordotF b (.pair (xa.map Int.ofNat) (xb.map Int.ofNat)) mode = .ok rm := by
  cases mode with
  | fused =>
    obtain ⟨rm, h, _⟩ := call_w hz1 hz2 a b xa xb W .fused (Or.inl rfl) rb hb
    exact ⟨rm, h⟩
  | auto =>
    obtain ⟨rm, h, _⟩ := call_w hz1 hz2 a b xa xb W .auto (Or.inr rfl) rb hb
    exact ⟨rm, h⟩
  | blockwise => exact ⟨rb, hb⟩

/-- **the fermionic fuse of the leading legs at decoded addresses**: `fuseF(Z, [0 … k-1])` succeeds
    and its element at `(c2 :: rest, i2 :: orest)` is the fuse sign (C05) times the element of `Z`
    at the decoded address -/
theorem fuseF_lead [Zero R] [Neg R] [LawfulNeg R] (Z : Arr R) (k : Nat) (e : Bool)
    (hv : Z.validB = true) (hf : Z.fermi = true) (hk1 : 1 ≤ k) (hk : k ≤ Z.ndim) :
    Z.fuseF [List.range k] .insert e
        = .ok (FuseP.fusedArrM (FuseP.signAdj Z [List.range k]) [List.range k])
    ∧ (FuseP.fusedArrM (FuseP.signAdj Z [List.range k]) [List.range k]).validB = true
    ∧ ∀ (c2 : Charge) (i2 d2 : Nat) (S rest : Sector) (O orest shp : List Nat),
        decAx (FuseP.signAdj Z [List.range k]) [List.range k] 0 c2 i2 = some (S, O) →
        (FuseP.ixM (FuseP.signAdj Z [List.range k]) [List.range k] 0).sizeOf? c2 = some d2 → i2 < d2 →
        Arr.blockShape? (Z.indices.drop k) rest = some shp → inBox shp orest = true →
        (FuseP.fusedArrM (FuseP.signAdj Z [List.range k]) [List.range k]).elem (c2 :: rest) (i2 :: orest)
          = sgnI (FuseP.fuseSignT Z [List.range k] (S ++ rest)) (Z.elem (S ++ rest) (O ++ orest)) := by
  have hok := lead_groupsOk (X := Z) hk1 hk
  have hfuse := (FuseP.fuseF_elemT Z [List.range k] e hv hf hok).1
  rw [lead_newGroupsF Z hk1 hk] at hfuse
  have hadmF : ValidP.fuseAdmissibleB [List.range k] Z.ndim = true := by
    simp only [ValidP.fuseAdmissibleB, Bool.and_eq_true, List.all_eq_true, decide_eq_true_eq]
    exact ⟨allDistinct_iff_nodup.mpr hok.nodup, hok.lt⟩
  have hvP : (FuseP.fusedArrM (FuseP.signAdj Z [List.range k]) [List.range k]).validB = true :=
    (ValidP.validB_iff _).mpr
      (ValidP.fuseF_valid Z _ _ e ((ValidP.validB_iff Z).mp hv) hf hadmF hfuse)
  obtain ⟨yI, yS, ySec, yPh, yV, yF, yCh, yOd, yE⟩ := signAdj_lead Z hv hf hk1 hk
  refine ⟨hfuse, hvP, ?_⟩
  intro c2 i2 d2 S rest O orest shp hdec2 hz2' hi2 hshp hbox
  have hkY : k ≤ (FuseP.signAdj Z [List.range k]).ndim := by
    show k ≤ (FuseP.signAdj Z [List.range k]).indices.length
    rw [yI]; exact hk
  rw [lead_elem (FuseP.validArr_of_validB yV) yPh hk1 hkY hdec2 hz2' hi2 (by rw [yI]; exact hshp) hbox, yE]

/-- the contraction of the pre-fused fermionic operand in terms of the plain blockwise result -/
theorem lead_fermi_left [AddCommMonoid R] [Mul R] [Neg R] [SignRing R]
    (hz1 : ∀ x : R, 0 * x = 0) (hz2 : ∀ x : R, x * 0 = 0) (a b c : Arr R) (xa xb : List Nat) (k : Nat)
    (e : Bool)
    (ha : a.validB = true) (hb : b.validB = true) (hfa : a.fermi = true) (hfb : b.fermi = true)
    (hadm : tdotAdmissibleCommonB a b xa xb = true)
    (hk1 : 1 ≤ k) (hk : k ≤ a.ndim) (hxa : ∀ x ∈ xa, k ≤ x)
    (hc : a.tensordotF b (.pair (xa.map Int.ofNat) (xb.map Int.ofNat)) .blockwise = .ok c) :
    ∃ cP, AdmW (FuseP.fusedArrM (FuseP.signAdj a [List.range k]) [List.range k]) b (xa.map (sh k)) xb
      ∧ (FuseP.fusedArrM (FuseP.signAdj a [List.range k]) [List.range k]).tensordotF b
          (.pair ((xa.map (sh k)).map Int.ofNat) (xb.map Int.ofNat)) .blockwise = .ok cP
      ∧ ∀ (c0 : Charge) (i0 d0 : Nat) (S Lr Rs : Sector) (O oLr oR shpLr shpR : List Nat),
        decAx (FuseP.signAdj a [List.range k]) [List.range k] 0 c0 i0 = some (S, O) →
        (FuseP.ixM (FuseP.signAdj a [List.range k]) [List.range k] 0).sizeOf? c0 = some d0 → i0 < d0 →
        Arr.blockShape? (permuted a.indices (freeTail a.ndim k xa)) Lr = some shpLr →
        inBox shpLr oLr = true →
        Arr.blockShape? (permuted b.indices (freeAxes b.ndim xb)) Rs = some shpR →
        inBox shpR oR = true →
        inBox (Arr.blockShapeD (without (FuseP.fusedArrM (FuseP.signAdj a [List.range k])
            [List.range k]).indices (xa.map (sh k)) ++ without b.indices xb) ((c0 :: Lr) ++ Rs))
          ((i0 :: oLr) ++ oR) = true
        ∧ inBox (Arr.blockShapeD (without a.indices xa ++ without b.indices xb) ((S ++ Lr) ++ Rs))
            ((O ++ oLr) ++ oR) = true
        ∧ cP.elem ((c0 :: Lr) ++ Rs) ((i0 :: oLr) ++ oR)
          = sgnI (FuseP.fuseSignT a [List.range k] ((S ++ Lr) ++ Rs))
              (c.elem ((S ++ Lr) ++ Rs) ((O ++ oLr) ++ oR)) := by
  have W := AdmW.of ha hb hfa hfb hadm
  have hnA := W.nA
  have hnB := W.nB
  have hA := W.ltA
  have hB := W.ltB
  have hlen := commonB_len W.con
  have hok := lead_groupsOk (X := a) hk1 hk
  have ean : a.indices.length = a.ndim := rfl
  have ebn : b.indices.length = b.ndim := rfl
  -- the result `c`
  have F := coreT_frame_w a b xa xb W
  have hc0 := hc
  rw [tensordotF_eq_core_w a b xa xb W] at hc0
  cases hm : OddposP.mergeOddpos a.parity a.oddpos b.oddpos with
  | error e' => rw [hm] at hc0; cases hc0
  | ok r =>
  rw [hm] at hc0
  simp only [Except.map, Except.ok.injEq] at hc0
  obtain ⟨g1, g2, g3, g4, g5, g6⟩ := finish_fields (coreT a b xa xb) r
  rw [hc0] at g1 g2 g3 g4 g5 g6
  have cSym : c.sym = a.sym := g2.trans F.sym
  have cF : c.fermi = true := (g3.trans F.fermi).trans hfa
  have cI : c.indices = dropUnused (without a.indices xa ++ without b.indices xb) c.sectors := by
    rw [g4, g5]; exact F.indices
  have cV : c.validB = true := (ValidP.validB_iff c).mpr
    (ValidP.tensordotF_valid_of_opposite .blockwise (ValidP.tdotASpec_all .blockwise) a b c xa xb
      ((ValidP.validB_iff a).mp ha) ((ValidP.validB_iff b).mp hb) hfa hfb W.sym
      (Assoc3P.opposite_of_commonB W.con) hnA hnB hA hB hc)
  have cE : ∀ s oL oR, oL.length = (freeAxes a.ndim xa).length →
      inBox (Arr.blockShapeD (without a.indices xa ++ without b.indices xb) s) (oL ++ oR) = true →
      c.elem s (oL ++ oR) = sgnI r.2 (gradedContract a b xa xb s oL oR) := by
    intro s oL oR h1 h2
    rw [← hc0, finish_elem _ _ (coreFrame_signOk F), F.elem s oL oR h1 h2]
  have hfuseA := (FuseP.fuseF_elemT a [List.range k] e ha hfa hok).1
  rw [lead_newGroupsF a hk1 hk] at hfuseA
  have hadmF : ValidP.fuseAdmissibleB [List.range k] a.ndim = true := by
    simp only [ValidP.fuseAdmissibleB, Bool.and_eq_true, List.all_eq_true, decide_eq_true_eq]
    exact ⟨allDistinct_iff_nodup.mpr hok.nodup, hok.lt⟩
  have hvP : (FuseP.fusedArrM (FuseP.signAdj a [List.range k]) [List.range k]).validB = true :=
    (ValidP.validB_iff _).mpr
      (ValidP.fuseF_valid a _ _ e ((ValidP.validB_iff a).mp ha) hfa hadmF hfuseA)
  obtain ⟨xI, xS, xSec, xPh, xV, xF, xCh, xOd, xE⟩ := signAdj_lead a ha hfa hk1 hk
  clear hfuseA
  generalize FuseP.signAdj a [List.range k] = X at *
  have hXn : X.ndim = a.ndim := by show X.indices.length = a.indices.length; rw [xI]
  have hkX : k ≤ X.ndim := by rw [hXn]; exact hk
  have hAX : ∀ x ∈ xa, x < X.ndim := by rw [hXn]; exact hA
  have iP : (FuseP.fusedArrM X [List.range k]).indices
      = FuseP.ixM X [List.range k] 0 :: X.indices.drop k := lead_newIdx hk1 hkX
  have nP : (FuseP.fusedArrM X [List.range k]).ndim = 1 + (a.ndim - k) := by
    show (FuseP.fusedArrM X [List.range k]).indices.length = _
    rw [iP, xI, List.length_cons, List.length_drop, ean]; omega
  have hnA' : (xa.map (sh k)).Nodup := by
    refine hnA.map_on ?_
    intro x hx y hy e
    have := hxa x hx; have := hxa y hy
    unfold sh at e; omega
  have hA' : ∀ x ∈ xa.map (sh k), x < (FuseP.fusedArrM X [List.range k]).ndim := by
    intro y hy
    obtain ⟨x, hx, rfl⟩ := List.mem_map.mp hy
    have := hA x hx; have := hxa x hx
    rw [nP]; unfold sh; omega
  have W' : AdmW (FuseP.fusedArrM X [List.range k]) b (xa.map (sh k)) xb := by
    refine ⟨hvP, hb, xF.trans hfa, hfb, xS.trans W.sym, ?_, hnA', hnB, hA', hB⟩
    have hcon := W.con
    unfold contractibleCommonB at hcon ⊢
    rw [Bool.and_eq_true, List.all_eq_true] at hcon ⊢
    refine ⟨by simp only [beq_iff_eq, List.length_map]; exact hlen, ?_⟩
    intro p hp
    rw [List.zip_map_left] at hp
    obtain ⟨q, hq, rfl⟩ := List.mem_map.mp hp
    have hqa : q.1 ∈ xa := (List.of_mem_zip hq).1
    have h0 := hcon.2 q hq
    simp only [Prod.map_fst, Prod.map_snd, id]
    rw [iP, getD_cons_drop_shift _ X.indices k q.1 hk1 (hxa _ hqa), xI]
    exact h0
  have F' := coreT_frame_w _ b _ xb W'
  have hPpar : (FuseP.fusedArrM X [List.range k]).parity = a.parity := by
    show X.sym.parity X.charge = a.sym.parity a.charge
    rw [xS, xCh]
  have hcP : (FuseP.fusedArrM X [List.range k]).tensordotF b
      (.pair ((xa.map (sh k)).map Int.ofNat) (xb.map Int.ofNat)) .blockwise
      = .ok (finish (coreT (FuseP.fusedArrM X [List.range k]) b (xa.map (sh k)) xb) r) := by
    rw [tensordotF_eq_core_w _ b _ xb W', hPpar]
    show (OddposP.mergeOddpos a.parity X.oddpos b.oddpos).map _ = _
    rw [xOd, hm]
    rfl
  refine ⟨_, W', hcP, ?_⟩
  intro c0 i0 d0 S Lr Rs O oLr oR shpLr shpR hdec hz hi hLr hbLr hR hbR
  have hLrX : Arr.blockShape? (permuted X.indices (freeTail X.ndim k xa)) Lr = some shpLr := by
    rw [xI, hXn]; exact hLr
  obtain ⟨bA, bF, lF, lA, hSl⟩ := lead_boxes hz1 hz2 X b xa xb k xV hb xPh hvP hnA hnB hAX hB hlen hk1 hkX
    hxa hdec hz hi hLrX hbLr hR hbR
  rw [xI] at bA
  rw [hXn] at lA
  refine ⟨bF, bA, ?_⟩
  rw [finish_elem _ _ (coreFrame_signOk F'), F'.elem _ _ _ lF bF,
    lead_commute_graded hz1 hz2 X b xa xb k xV hb xPh hvP hnA hnB hAX hB hlen hk1 hkX hxa hdec hz hi
      hLrX hbLr hR hbR,
    cE _ _ _ lA bA]
  have hσ : ∀ p ∈ storedPairs a b (freeAxes a.ndim xa) xa xb (freeAxes b.ndim xb) ((S ++ Lr) ++ Rs),
      FuseP.fuseSignT a [List.range k] p.1 = FuseP.fuseSignT a [List.range k] ((S ++ Lr) ++ Rs) := by
    rintro ⟨sa, sb⟩ hp
    obtain ⟨hA1, _, _, hs⟩ := mem_storedPairs.mp hp
    have hsl := Arr.sector_length (Arr.shapesOk_of_validB ha) hA1
    rw [freeAxes_lead a.ndim k xa hk hxa, ValidP.permuted_append, ValidP.permuted_range_take,
      List.append_assoc, List.append_assoc] at hs
    have hl : (sa.take k).length = S.length := by rw [List.length_take, hsl, hSl]; omega
    have hS := (List.append_inj hs hl).1
    apply fuseSignT_lead_congr a a hk1 hk hk rfl (fun _ _ => rfl)
    show sa.take k = ((S ++ Lr) ++ Rs).take k
    rw [List.append_assoc, List.take_left' hSl]
    exact hS
  rw [gradedContract_twist X a b xa xb (FuseP.fuseSignT a [List.range k])
    (FuseP.fuseSignT_pm a [List.range k]) xI xS xSec xE _ _ hσ]
  exact sgnI_swap _ _ _

/-- **fermionic fuse-free-commute with the two contractions in arbitrary modes** (`m1` for the
    plain contraction, `m2` for the contraction of the pre-fused operand; each of blockwise / fused /
    auto). -/
theorem lead_commute_fermi_modes [AddCommMonoid R] [Mul R] [Neg R] [SignRing R]
    (hz1 : ∀ x : R, 0 * x = 0) (hz2 : ∀ x : R, x * 0 = 0) (a b cm : Arr R) (xa xb : List Nat) (k : Nat)
    (e : Bool) (m1 m2 : TdotMode)
    (ha : a.validB = true) (hb : b.validB = true) (hfa : a.fermi = true) (hfb : b.fermi = true)
    (hadm : tdotAdmissibleCommonB a b xa xb = true)
    (hk1 : 1 ≤ k) (hk : k ≤ a.ndim) (hxa : ∀ x ∈ xa, k ≤ x)
    (hcm : a.tensordotF b (.pair (xa.map Int.ofNat) (xb.map Int.ofNat)) m1 = .ok cm) :
    a.fuseF [List.range k] .insert e
        = .ok (FuseP.fusedArrM (FuseP.signAdj a [List.range k]) [List.range k])
    ∧ cm.fuseF [List.range k] .insert e
        = .ok (FuseP.fusedArrM (FuseP.signAdj cm [List.range k]) [List.range k])
    ∧ k ≤ cm.ndim
    ∧ ∃ cPm, (FuseP.fusedArrM (FuseP.signAdj a [List.range k]) [List.range k]).tensordotF b
          (.pair ((xa.map (sh k)).map Int.ofNat) (xb.map Int.ofNat)) m2 = .ok cPm
      ∧ ∀ (c0 c2 : Charge) (i0 d0 i2 d2 : Nat) (S rest : Sector) (O orest shp : List Nat),
        decAx (FuseP.signAdj a [List.range k]) [List.range k] 0 c0 i0 = some (S, O) →
        (FuseP.ixM (FuseP.signAdj a [List.range k]) [List.range k] 0).sizeOf? c0 = some d0 → i0 < d0 →
        decAx (FuseP.signAdj cm [List.range k]) [List.range k] 0 c2 i2 = some (S, O) →
        (FuseP.ixM (FuseP.signAdj cm [List.range k]) [List.range k] 0).sizeOf? c2 = some d2 → i2 < d2 →
        Arr.blockShape? (cm.indices.drop k) rest = some shp → inBox shp orest = true →
        cPm.elem (c0 :: rest) (i0 :: orest)
          = (FuseP.fusedArrM (FuseP.signAdj cm [List.range k]) [List.range k]).elem
              (c2 :: rest) (i2 :: orest) := by
  have W := AdmW.of ha hb hfa hfb hadm
  have hnA := W.nA
  have hnB := W.nB
  have hA := W.ltA
  have hB := W.ltB
  have ean : a.indices.length = a.ndim := rfl
  have ebn : b.indices.length = b.ndim := rfl
  obtain ⟨c, hc, hpad, Im, Ib⟩ := call_any hz1 hz2 a b xa xb W m1 cm hcm
  obtain ⟨cP, W', hcP, hleft⟩ := lead_fermi_left hz1 hz2 a b c xa xb k e ha hb hfa hfb hadm hk1 hk hxa hc
  obtain ⟨cPm, hcPm⟩ := call_any_exists hz1 hz2 _ b _ xb W' cP hcP m2
  obtain ⟨cP', hcP', hpadP, IPm, _⟩ := call_any hz1 hz2 _ b _ xb W' m2 cPm hcPm
  have ecP : cP' = cP := by rw [hcP] at hcP'; exact (Except.ok.inj hcP').symm
  subst ecP
  have hfr0 : List.Forall₂ SizeLe cm.indices (without a.indices xa ++ without b.indices xb) := Im.frame
  have hFTlt : ∀ x ∈ freeTail a.ndim k xa, x < a.indices.length := fun x hx => (mem_freeTail hx).2.1
  have hpk : (permuted a.indices (List.range k)).length = k := by
    rw [ValidP.permuted_range_take, List.length_take, ean]; omega
  have hWeq : without a.indices xa ++ without b.indices xb
      = a.indices.take k ++ (permuted a.indices (freeTail a.ndim k xa)
          ++ permuted b.indices (freeAxes b.ndim xb)) := by
    rw [without_eq_permuted_freeAxes, without_eq_permuted_freeAxes, ean, ebn,
      freeAxes_lead a.ndim k xa hk hxa, ValidP.permuted_append, List.append_assoc,
      ValidP.permuted_range_take]
  have htk : (a.indices.take k).length = k := by rw [List.length_take, ean]; omega
  have hkc : k ≤ cm.ndim := by
    show k ≤ cm.indices.length
    rw [hfr0.length_eq, hWeq, List.length_append, htk]; omega
  have hdual : ∀ ax, ax < k → (a.indices.getD ax default).dual = (cm.indices.getD ax default).dual := by
    intro ax hax
    have := forall₂_getD hfr0 ax (by show ax < cm.ndim; omega) default default
    rw [hWeq, getD_append_take _ _ hax (by rw [ean]; exact hk)] at this
    exact this.1.symm
  have hsg : ∀ T, FuseP.fuseSignT a [List.range k] T = FuseP.fuseSignT cm [List.range k] T :=
    fun T => fuseSignT_lead_congr a cm hk1 hk hkc Im.sym.symm hdual rfl
  obtain ⟨hfuseA, _, _⟩ := fuseF_lead a k e ha hfa hk1 hk
  obtain ⟨hfuseC, _, hright⟩ := fuseF_lead cm k e Im.valid Im.fermi hk1 hkc
  refine ⟨hfuseA, hfuseC, hkc, cPm, hcPm, ?_⟩
  intro c0 c2 i0 d0 i2 d2 S rest O orest shp hdec hz hi hdec2 hz2' hi2 hshp hbox
  rw [hright c2 i2 d2 S rest O orest shp hdec2 hz2' hi2 hshp hbox]
  -- split the tail address
  have hT : (without a.indices xa ++ without b.indices xb).drop k
      = permuted a.indices (freeTail a.ndim k xa) ++ permuted b.indices (freeAxes b.ndim xb) := by
    rw [hWeq]; exact List.drop_left' htk
  have hfr : List.Forall₂ SizeLe (cm.indices.drop k)
      (permuted a.indices (freeTail a.ndim k xa) ++ permuted b.indices (freeAxes b.ndim xb)) := by
    rw [← hT]; exact forall₂_drop hfr0 k
  have hw := blockShape?_weaken hfr rest shp hshp
  have hrl : rest.length = (freeTail a.ndim k xa).length + (freeAxes b.ndim xb).length := by
    rw [(blockShape?_length hw).1, List.length_append, permuted_length _ _ hFTlt,
      permuted_length _ _ (by simpa [ebn] using mem_freeAxes_lt)]
  have hrs : rest = rest.take (freeTail a.ndim k xa).length ++ rest.drop (freeTail a.ndim k xa).length :=
    (List.take_append_drop _ _).symm
  rw [hrs] at hw
  obtain ⟨shpLr, shpR, rfl, hLr, hR⟩ := blockShape?_split (by
    rw [List.length_take, permuted_length _ _ hFTlt]; omega) hw
  have hol : orest.length = shpLr.length + shpR.length := by rw [inBox_length hbox, List.length_append]
  have hLrl : shpLr.length = (freeTail a.ndim k xa).length := by
    rw [(blockShape?_length hLr).2, permuted_length _ _ hFTlt]
  have hos : orest = orest.take shpLr.length ++ orest.drop shpLr.length := (List.take_append_drop _ _).symm
  have hbox' := hbox
  rw [hos, inBox_append (by rw [List.length_take]; omega)] at hbox'
  simp only [Bool.and_eq_true] at hbox'
  generalize rest.take (freeTail a.ndim k xa).length = Lr at *
  generalize rest.drop (freeTail a.ndim k xa).length = Rs at *
  generalize orest.take shpLr.length = oLr at *
  generalize orest.drop shpLr.length = oR at *
  subst hrs hos
  obtain ⟨bF, bA, hE⟩ := hleft c0 i0 d0 S Lr Rs O oLr oR shpLr shpR hdec hz hi hLr hbox'.1 hR hbox'.2
  have e1 : c0 :: (Lr ++ Rs) = (c0 :: Lr) ++ Rs := rfl
  have e2 : i0 :: (oLr ++ oR) = (i0 :: oLr) ++ oR := rfl
  have e3 : S ++ (Lr ++ Rs) = (S ++ Lr) ++ Rs := (List.append_assoc _ _ _).symm
  have e4 : O ++ (oLr ++ oR) = (O ++ oLr) ++ oR := (List.append_assoc _ _ _).symm
  rw [e1, e2, e3, e4, pad_elem_big hpadP IPm.frame _ _ bF, hE, pad_elem_big hpad Im.frame _ _ bA, hsg]

end SymmModel.TdotP
