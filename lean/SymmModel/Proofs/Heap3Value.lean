/-
  SymmModel.Proofs.Heap3Value — the denotation `binSem` of the heap program of `_binary_blockwise_op`
  (a fold of dict effects: pop from the copy of the right dict, store under the left key, delete, update)
  IS the value model's `SymmModel.binaryBlockwise` (maps / filters of association lists), for dicts with
  unique keys (property C14, link between `Model/Heap.lean` and `Model/Tdot.lean`).
-/
import SymmModel.Proofs.Heap3Prov
import SymmModel.Model.Tdot
namespace SymmModel.Heap

section
variable {V : Type}

def keysOf (l : SDict V) : List Key := l.map (·.1)

theorem sd_set_mid (A C : SDict V) (k : Key) (v v' : V) (hA : k ∉ keysOf A) :
    SD.set (A ++ (k, v) :: C) k v' = A ++ (k, v') :: C := by
  induction A with
  | nil => simp [SD.set]
  | cons a r ih =>
    obtain ⟨k', w⟩ := a
    simp only [keysOf, List.map_cons, List.mem_cons, not_or] at hA
    have hne : (k' == k) = false := by simp; exact fun e => hA.1 e.symm
    simp only [List.cons_append, SD.set, hne, Bool.false_eq_true, if_false]
    exact congrArg _ (ih hA.2)

theorem sd_set_not_mem (A : SDict V) (k : Key) (v : V) (hA : k ∉ keysOf A) : SD.set A k v = A ++ [(k, v)] := by
  induction A with
  | nil => rfl
  | cons a r ih =>
    obtain ⟨k', w⟩ := a
    simp only [keysOf, List.map_cons, List.mem_cons, not_or] at hA
    have hne : (k' == k) = false := by simp; exact fun e => hA.1 e.symm
    simp only [List.cons_append, SD.set, hne, Bool.false_eq_true, if_false]
    exact congrArg _ (ih hA.2)

theorem sd_pop_not_mem (A : SDict V) (k : Key) (hA : k ∉ keysOf A) : SD.pop A k = A := by
  apply List.filter_eq_self.mpr
  intro e he
  simp only [Bool.not_eq_eq_eq_not, Bool.not_true, beq_eq_false_iff_ne, ne_eq]
  intro h; apply hA; rw [← h]; exact List.mem_map_of_mem he

theorem sd_pop_mid (A C : SDict V) (k : Key) (v : V) (hA : k ∉ keysOf A) (hC : k ∉ keysOf C) :
    SD.pop (A ++ (k, v) :: C) k = A ++ C := by
  have h1 := sd_pop_not_mem A k hA
  have h2 := sd_pop_not_mem C k hC
  simp only [SD.pop] at h1 h2 ⊢
  rw [List.filter_append, List.filter_cons, h1, h2]
  simp

theorem sd_update_append (l src : SDict V) (hs : (keysOf src).Nodup) (hd : ∀ k ∈ keysOf src, k ∉ keysOf l) :
    SD.update l src = l ++ src := by
  induction src generalizing l with
  | nil => simp [SD.update]
  | cons e r ih =>
    obtain ⟨k, v⟩ := e
    simp only [keysOf, List.map_cons, List.nodup_cons, List.mem_cons] at hs hd
    simp only [SD.update, List.foldl_cons] at ih ⊢
    rw [sd_set_not_mem l k v (hd k (Or.inl rfl))]
    rw [ih (l ++ [(k, v)]) hs.2]
    · simp
    · intro k' hk'
      simp only [keysOf, List.map_append, List.map_cons, List.map_nil, List.mem_append, List.mem_cons,
        List.not_mem_nil, or_false, not_or]
      exact ⟨hd k' (Or.inr hk'), fun e => hs.1 (e ▸ hk')⟩

theorem alookup_eq_get? (l : SDict V) (k : Key) : alookup l k = SD.get? l k := by
  induction l with
  | nil => rfl
  | cons e r ih =>
    obtain ⟨k', v⟩ := e
    by_cases h : (k' == k) = true
    · simp [alookup, SD.get?, List.find?_cons, h]
    · have h' : (k' == k) = false := by simpa using h
      simp only [alookup, SD.get?, List.find?_cons, h', Bool.false_eq_true, if_false]
      simpa [SD.get?] using ih

theorem sd_has_iff (l : SDict V) (k : Key) : SD.has l k = (alookup l k).isSome := by
  induction l with
  | nil => rfl
  | cons e r ih =>
    obtain ⟨k', v⟩ := e
    simp only [SD.has, List.any_cons, alookup] at ih ⊢
    split <;> simp_all

theorem sd_has_mem (l : SDict V) (k : Key) : SD.has l k = true ↔ k ∈ keysOf l := by
  simp [SD.has, keysOf, List.any_eq_true]

theorem filterMap_congr_mem {α β : Type} {l : List α} {f g : α → Option β} (h : ∀ e ∈ l, f e = g e) :
    l.filterMap f = l.filterMap g := by
  induction l with
  | nil => rfl
  | cons a r ih =>
    simp only [List.filterMap_cons]
    rw [h a (List.mem_cons_self ..), ih (fun e he => h e (List.mem_cons_of_mem _ he))]

/-! ### one pass over the left dict -/

/-- what the effects of one left entry amount to: the entry is replaced / kept / deleted (`ψ`), the
    temporary dict is transformed by `τ` -/
def GoodStep (G : Key × V → List (SStep V)) (ψ : Key × V → Option (Key × V))
    (τ : Key × V → SDict V → SDict V) (e : Key × V) : Prop :=
  (∀ (A C t : SDict V), e.1 ∉ keysOf A → e.1 ∉ keysOf C →
    (G e).foldl (fun s a => a.run s) (A ++ e :: C, t) = (A ++ (ψ e).toList ++ C, τ e t)) ∧
  (∀ e' ∈ (ψ e).toList, e'.1 = e.1)

theorem pass_fold (G : Key × V → List (SStep V)) (ψ : Key × V → Option (Key × V))
    (τ : Key × V → SDict V → SDict V) :
    ∀ (l pre t : SDict V), (∀ e ∈ l, GoodStep G ψ τ e) → (keysOf (pre ++ l)).Nodup →
      (l.flatMap G).foldl (fun s a => a.run s) (pre ++ l, t) =
        (pre ++ l.filterMap ψ, l.foldl (fun t e => τ e t) t) := by
  intro l
  induction l with
  | nil => intro pre t _ _; simp
  | cons e r ih =>
    intro pre t hg hn
    have he := hg e (List.mem_cons_self ..)
    simp only [keysOf, List.map_append, List.map_cons, List.nodup_append, List.nodup_cons] at hn
    obtain ⟨hpre, ⟨her, hr⟩, hdis⟩ := hn
    have hA : e.1 ∉ keysOf pre := fun h => hdis _ h _ (List.mem_cons_self ..) rfl
    simp only [List.flatMap_cons, List.foldl_append, List.foldl_cons]
    rw [he.1 pre r t hA her]
    have hn' : (keysOf ((pre ++ (ψ e).toList) ++ r)).Nodup := by
      simp only [keysOf, List.map_append, List.nodup_append]
      refine ⟨⟨hpre, ?_, ?_⟩, hr, ?_⟩
      · cases hψ : ψ e with
        | none => simp
        | some e' => simp
      · intro a ha b hb
        simp only [List.mem_map] at hb
        obtain ⟨e', he', rfl⟩ := hb
        rw [he.2 e' he']
        intro h; exact hA (h ▸ ha)
      · intro a ha b hb
        rcases List.mem_append.mp ha with ha | ha
        · exact hdis a ha b (List.mem_cons_of_mem _ hb)
        · obtain ⟨e', he', rfl⟩ := List.mem_map.mp ha
          rw [he.2 e' he']
          intro h; exact her (h ▸ hb)
    rw [ih (pre ++ (ψ e).toList) (τ e t) (fun e' h' => hg e' (List.mem_cons_of_mem _ h')) hn']
    simp only [List.filterMap_cons]
    cases hψ : ψ e <;> simp

end

/-! ### the three modes -/

section
variable {R : Type} (fn : Blk R → Blk R → Blk R) (I : Nat → List (Blk R) → Blk R) (d : Blk R)

/-- what the heap program stores for a left entry that has a right partner -/
def comb (os : SDict (Blk R)) (e : Key × Blk R) : Key × Blk R := (e.1, I tFn [e.2, (SD.get? os e.1).getD d])

theorem comb_eq (hI : ∀ a b, I tFn [a, b] = fn a b) (os : SDict (Blk R)) (e : Key × Blk R) {b : Blk R}
    (h : alookup os e.1 = some b) : comb I d os e = (e.1, fn e.2 b) := by
  simp [comb, ← alookup_eq_get?, h, hI]

theorem good_both (os : SDict (Blk R)) (e : Key × Blk R) :
    GoodStep (fun e => [SStep.tpop e.1, .set e.1 (comb I d os e).2]) (fun e => some (comb I d os e))
      (fun e t => SD.pop t e.1) e := by
  refine ⟨?_, by intro e' he'; simp at he'; subst he'; rfl⟩
  intro A C t hA _
  obtain ⟨k, v⟩ := e
  simp only [List.foldl_cons, List.foldl_nil, SStep.run, sd_set_mid A C k v _ hA]
  simp [comb]

/-- `missing="outer"` -/
theorem binSem_outer (hI : ∀ a b, I tFn [a, b] = fn a b) (xs os : SDict (Blk R))
    (hx : (keysOf xs).Nodup) (ho : (keysOf os).Nodup) :
    binaryBlockwise fn .outer xs os = .ok (binSem I d .outer xs os) := by
  let G : Key × Blk R → List (SStep (Blk R)) := fun e =>
    if SD.has os e.1 then [SStep.tpop e.1, .set e.1 (I tFn [e.2, (SD.get? os e.1).getD d])] else [.set e.1 e.2]
  let ψ : Key × Blk R → Option (Key × Blk R) := fun e => if SD.has os e.1 then some (comb I d os e) else some e
  let τ : Key × Blk R → SDict (Blk R) → SDict (Blk R) := fun e t => if SD.has os e.1 then SD.pop t e.1 else t
  have hgood : ∀ e ∈ xs, GoodStep G ψ τ e := by
    intro e _
    by_cases hh : SD.has os e.1 = true
    · have := good_both I d os e
      simpa [GoodStep, G, ψ, τ, hh, comb] using this
    · refine ⟨?_, by intro e' he'; simp [ψ, hh] at he'; subst he'; rfl⟩
      intro A C t hA _
      obtain ⟨k, v⟩ := e
      simp only [G, ψ, τ, hh, Bool.false_eq_true, if_false, List.foldl_cons, List.foldl_nil, SStep.run,
        sd_set_mid A C k v v hA]
      simp
  have hpass := pass_fold G ψ τ xs [] os hgood (by simpa using hx)
  simp only [List.nil_append] at hpass
  -- the remaining right blocks: those whose key is not on the left
  have hrest : ∀ (l : SDict (Blk R)) (t : SDict (Blk R)), (∀ e' ∈ t, SD.has os e'.1 = true) →
      l.foldl (fun t e => τ e t) t = t.filter (fun e' => !(SD.has l e'.1)) := by
    intro l
    induction l with
    | nil =>
      intro t _
      simp only [List.foldl_nil, SD.has, List.any_nil, Bool.not_false]
      exact (List.filter_eq_self.mpr (fun _ _ => rfl)).symm
    | cons e r ih =>
      intro t ht
      simp only [List.foldl_cons]
      have hstep : τ e t = t.filter (fun e' => !(e.1 == e'.1)) := by
        by_cases hh : SD.has os e.1 = true
        · simp only [τ, hh, if_true, SD.pop]
          apply List.filter_congr
          intro e' _
          simp [Bool.beq_comm]
        · simp only [τ, hh, Bool.false_eq_true, if_false]
          symm
          apply List.filter_eq_self.mpr
          intro e' he'
          simp only [Bool.not_eq_eq_eq_not, Bool.not_true, beq_eq_false_iff_ne, ne_eq]
          intro h; rw [h] at hh; exact hh (ht e' he')
      rw [ih (τ e t) (by rw [hstep]; intro e' he'; exact ht e' (List.mem_filter.mp he').1), hstep,
        List.filter_filter]
      apply List.filter_congr
      intro e' _
      simp [SD.has, Bool.and_comm]
  have hrest' := hrest xs os (by
    intro e' he'
    exact (sd_has_mem os e'.1).mpr (List.mem_map_of_mem he'))
  have hbin : binSem I d .outer xs os =
      SD.update (xs.filterMap ψ) (os.filter (fun e' => !(SD.has xs e'.1))) := by
    simp only [binSem, binSSteps]
    show SD.update ((xs.flatMap G).foldl (fun s a => a.run s) (xs, os)).1
      ((xs.flatMap G).foldl (fun s a => a.run s) (xs, os)).2 = _
    rw [hpass, hrest']
  have hkeys : keysOf (xs.filterMap ψ) = keysOf xs := by
    simp only [keysOf, List.map_filterMap]
    rw [← List.filterMap_eq_map]
    apply filterMap_congr_mem
    intro e _
    simp only [ψ, comb]
    split <;> rfl
  rw [hbin, sd_update_append]
  · simp only [binaryBlockwise, pure, Except.pure]
    congr 1
    congr 1
    · rw [← List.filterMap_eq_map]
      apply filterMap_congr_mem
      intro e _
      obtain ⟨k, bx⟩ := e
      simp only [ψ, sd_has_iff]
      cases hl : alookup os k with
      | none => simp [hl]
      | some b => simp [hl, comb_eq fn I d hI os (k, bx) hl]
    · apply List.filter_congr
      intro e _
      obtain ⟨k, b⟩ := e
      simp [sd_has_iff]
  · exact (List.Nodup.sublist (List.Sublist.map _ List.filter_sublist) ho)
  · intro k hk
    rw [hkeys]
    simp only [keysOf, List.mem_map, List.mem_filter] at hk
    obtain ⟨e', ⟨_, hne⟩, rfl⟩ := hk
    intro hmem
    have := (sd_has_mem xs e'.1).mpr hmem
    simp [this] at hne

/-- `missing="inner"` -/
theorem binSem_inner (hI : ∀ a b, I tFn [a, b] = fn a b) (xs os : SDict (Blk R)) (hx : (keysOf xs).Nodup) :
    binaryBlockwise fn .inner xs os = .ok (binSem I d .inner xs os) := by
  let G : Key × Blk R → List (SStep (Blk R)) := fun e =>
    if SD.has os e.1 then [SStep.tpop e.1, .set e.1 (I tFn [e.2, (SD.get? os e.1).getD d])] else [.pop e.1]
  let ψ : Key × Blk R → Option (Key × Blk R) := fun e => if SD.has os e.1 then some (comb I d os e) else none
  let τ : Key × Blk R → SDict (Blk R) → SDict (Blk R) := fun e t => if SD.has os e.1 then SD.pop t e.1 else t
  have hgood : ∀ e ∈ xs, GoodStep G ψ τ e := by
    intro e _
    by_cases hh : SD.has os e.1 = true
    · have := good_both I d os e
      simpa [GoodStep, G, ψ, τ, hh, comb] using this
    · refine ⟨?_, by intro e' he'; simp [ψ, hh] at he'⟩
      intro A C t hA hC
      obtain ⟨k, v⟩ := e
      simp only [G, ψ, τ, hh, Bool.false_eq_true, if_false, List.foldl_cons, List.foldl_nil, SStep.run,
        sd_pop_mid A C k v hA hC]
      simp
  have hpass := pass_fold G ψ τ xs [] os hgood (by simpa using hx)
  simp only [List.nil_append] at hpass
  have hbin : binSem I d .inner xs os = xs.filterMap ψ := by
    simp only [binSem, binSSteps]
    show ((xs.flatMap G).foldl (fun s a => a.run s) (xs, os)).1 = _
    rw [hpass]
  rw [hbin]
  simp only [binaryBlockwise, pure, Except.pure]
  congr 1
  apply filterMap_congr_mem
  intro e _
  obtain ⟨k, bx⟩ := e
  simp only [ψ, sd_has_iff]
  cases hl : alookup os k with
  | none => simp [hl]
  | some b => simp [hl, comb_eq fn I d hI os (k, bx) hl]

theorem filterMap_some_fn {α β : Type} (f : α → β) (l : List α) : l.filterMap (fun e => some (f e)) = l.map f := by
  induction l with
  | nil => rfl
  | cons a r ih => simp only [List.filterMap_cons, List.map_cons, ih]

theorem takeWhile_all {α : Type} (p : α → Bool) (l : List α) (h : ∀ a ∈ l, p a = true) : l.takeWhile p = l := by
  induction l with
  | nil => rfl
  | cons a r ih =>
    rw [List.takeWhile_cons_of_pos (h a (List.mem_cons_self ..)), ih (fun b hb => h b (List.mem_cons_of_mem _ hb))]

/-- `missing=None` (1:1 matching blocks required): whenever the value model does not raise -/
theorem binSem_strict (hI : ∀ a b, I tFn [a, b] = fn a b) (xs os : SDict (Blk R)) (hx : (keysOf xs).Nodup)
    {res : List (Key × Blk R)} (h : binaryBlockwise fn .strict xs os = .ok res) :
    binSem I d .strict xs os = res := by
  simp only [binaryBlockwise] at h
  split at h
  · cases h
  · rename_i hall
    split at h
    · cases h
    · simp only [pure, Except.pure, Except.ok.injEq] at h
      have hsome : ∀ e ∈ xs, SD.has os e.1 = true := by
        intro e he
        rw [sd_has_iff]
        simp only [List.any_eq_true, not_exists, not_and, Bool.not_eq_true] at hall
        have := hall e he
        obtain ⟨k, bx⟩ := e
        simpa using this
      let G : Key × Blk R → List (SStep (Blk R)) := fun e =>
        [SStep.tpop e.1, .set e.1 (I tFn [e.2, (SD.get? os e.1).getD d])]
      have hgood : ∀ e ∈ xs, GoodStep G (fun e => some (comb I d os e)) (fun e t => SD.pop t e.1) e := by
        intro e _
        have := good_both I d os e
        simpa [GoodStep, G, comb] using this
      have hpass := pass_fold G _ _ xs [] os hgood (by simpa using hx)
      simp only [List.nil_append] at hpass
      have hbin : binSem I d .strict xs os = xs.filterMap (fun e => some (comb I d os e)) := by
        simp only [binSem, binSSteps]
        rw [takeWhile_all _ xs hsome]
        show ((xs.flatMap G).foldl (fun s a => a.run s) (xs, os)).1 = _
        rw [hpass]
      rw [hbin, ← h, filterMap_some_fn]
      apply List.map_congr_left
      intro e he
      obtain ⟨k, bx⟩ := e
      have := hsome (k, bx) he
      rw [sd_has_iff] at this
      cases hl : alookup os k with
      | none => simp [hl] at this
      | some b => simp [hl, comb_eq fn I d hI os (k, bx) hl]

/-- the heap model's and the value model's names of the three modes -/
def Missing.val : Missing → SymmModel.Missing
  | .strict => .strict
  | .outer => .outer
  | .inner => .inner

/-- the value model's `binaryBlockwise`, whenever it does not raise, is the denotation `binSem` -/
theorem binSem_value (hI : ∀ a b, I tFn [a, b] = fn a b) (m : Missing) (xs os : SDict (Blk R))
    (hx : (keysOf xs).Nodup) (ho : (keysOf os).Nodup) {res : List (Key × Blk R)}
    (h : binaryBlockwise fn m.val xs os = .ok res) : binSem I d m xs os = res := by
  cases m with
  | strict => exact binSem_strict fn I d hI xs os hx h
  | outer =>
    have h' : binaryBlockwise fn .outer xs os = .ok res := h
    rw [binSem_outer fn I d hI xs os hx ho] at h'
    exact Except.ok.inj h'
  | inner =>
    have h' : binaryBlockwise fn .inner xs os = .ok res := h
    rw [binSem_inner fn I d hI xs os hx] at h'
    exact Except.ok.inj h'

end

section
variable {V : Type} (I : Nat → List V → V) (d : V)

theorem keysOf_semDict (T : Bufs) (l : Dict) : keysOf (semDict I d T l) = l.map (·.1) := by
  simp [keysOf, semDict, mapV]

theorem psSem_clean (B : Bufs) (c : Content) (h : c.phases.getD [] = []) : psSem I d B c = semDict I d B c.blocks := by
  simp [psSem, psActs, h]

theorem sd_set_keys (l : SDict V) (k : Key) (v : V) (h : k ∈ keysOf l) : keysOf (SD.set l k v) = keysOf l := by
  induction l with
  | nil => simp [keysOf] at h
  | cons e r ih =>
    obtain ⟨k', w⟩ := e
    simp only [SD.set]
    by_cases hk : (k' == k) = true
    · have : k' = k := by simpa using hk
      simp [hk, keysOf, this]
    · have hk' : (k' == k) = false := by simpa using hk
      simp only [hk', Bool.false_eq_true, if_false, keysOf, List.map_cons, List.cons.injEq, true_and]
      simp only [keysOf, List.map_cons, List.mem_cons] at h
      rcases h with h | h
      · exact absurd h.symm (by simpa using hk)
      · exact ih h

/-- `phase_sync` negates blocks in place: the keys and their order do not change -/
theorem keysOf_psSem (B : Bufs) (c : Content) : keysOf (psSem I d B c) = c.blocks.map (·.1) := by
  have key : ∀ (l : List SAct) (s : SDict V × SDict V),
      (∀ a ∈ l, a = .ppop ∨ ∃ k tag args, a = .kern k tag args ∧ k ∈ c.blocks.map (·.1)) →
      keysOf s.1 = c.blocks.map (·.1) →
      keysOf (l.foldl (fun s a => (a.toS I d B).run s) s).1 = c.blocks.map (·.1) := by
    intro l
    induction l with
    | nil => intro s _ hs; exact hs
    | cons a r ih =>
      intro s hl hs
      simp only [List.foldl_cons]
      apply ih _ (fun a' h' => hl a' (List.mem_cons_of_mem _ h'))
      rcases hl a (List.mem_cons_self ..) with rfl | ⟨k, tag, args, rfl, hk⟩
      · exact hs
      · simp only [SAct.toS, SStep.run]
        rw [sd_set_keys _ _ _ (by rw [hs]; exact hk), hs]
  apply key
  · intro a ha
    simp only [psActs, List.mem_flatMap] at ha
    obtain ⟨e, _, ha⟩ := ha
    simp only [List.mem_cons] at ha
    rcases ha with rfl | ha
    · exact Or.inl rfl
    · split at ha
      · split at ha
        · rename_i b hb
          simp only [List.mem_cons, List.not_mem_nil, or_false] at ha
          subst ha
          refine Or.inr ⟨_, _, _, rfl, ?_⟩
          simp only [Dict.get?, Option.map_eq_some_iff] at hb
          obtain ⟨e', he', _⟩ := hb
          have hm := List.mem_of_find?_eq_some he'
          have hk := List.find?_some he'
          have : e'.1 = e.1 := by simpa using hk
          rw [← this]; exact List.mem_map_of_mem hm
        · simp at ha
      · simp at ha
  · exact keysOf_semDict I d B c.blocks

/-- **the body of `FermionicArray._binary_blockwise_op` at the level of values**: the new left block
    dict denotes `binSem` of the SYNCHRONISED denotations of both operands (`psSem`: pending signs
    multiplied in; the identity for an operand without pending signs) -/
theorem bodyF_value (m : Missing) (cx cy : Content) (B : Bufs) (hx : DictOK B.length cx.blocks)
    (hy : DictOK B.length cy.blocks) :
    semDict I d (bodyFPure m cx cy B).2 (bodyFPure m cx cy B).1.blocks =
      binSem I d m (psSem I d B cx) (psSem I d B cy) := by
  obtain ⟨⟨Y1, hY1⟩, ok1, sem1, _⟩ := phaseSync_abs I d B cx [] hx
  simp only [List.append_nil] at hY1 ok1 sem1
  generalize hs1 : S.phaseSync.pure (cx, B) = s1 at *
  by_cases hclean : cy.phases.getD [] = []
  · have hb : bodyFPure m cx cy B = binPure m (s1.1, s1.2) cy.blocks := by
      simp only [bodyFPure, hs1, syncedPure, hclean, List.isEmpty_nil, Bool.not_true, Bool.and_false,
        Bool.false_eq_true, if_false]
    have hy1 : DictOK s1.2.length cy.blocks := hy.mono (by rw [hY1]; simp)
    obtain ⟨_, _, sem, _⟩ := binPure_abs I d m s1.1 s1.2 cy.blocks ok1 hy1
    rw [hb, sem, sem1, psSem_clean I d B cy hclean, hY1, semDict_append I d B Y1 hy]
  · obtain ⟨⟨Y2, hY2⟩, ok2, sem2, _⟩ := phaseSync_abs I d B cy Y1 hy
    rw [← hY1] at hY2 ok2 sem2
    generalize hs2 : S.phaseSync.pure (cy, s1.2) = s2 at *
    have hb : bodyFPure m cx cy B = binPure m (s1.1, s2.2) s2.1.blocks := by
      have : (cy.phases.getD []).isEmpty = false := by
        cases h : cy.phases.getD [] with
        | nil => exact absurd h hclean
        | cons _ _ => rfl
      simp only [bodyFPure, hs1, syncedPure, this, Bool.not_false, Bool.and_true, if_true, hs2]
    have ok1' : DictOK s2.2.length s1.1.blocks := ok1.mono (by rw [hY2]; simp)
    obtain ⟨_, _, sem, _⟩ := binPure_abs I d m s1.1 s2.2 s2.1.blocks ok1' ok2
    rw [hb, sem, sem2, hY2, semDict_append I d s1.2 Y2 ok1, sem1]

end
end SymmModel.Heap
