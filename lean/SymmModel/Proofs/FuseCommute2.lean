/-
  SymmModel.Proofs.FuseCommute2 — ONE group `g` of axes at arbitrary positions, in any order:
  geometry of `_fuse_core(g)` (the fused axis sits at `p = min g`, the other axes keep their order)
  and the element map in "free part / group part" form.  Namespace `SymmModel.TdotP`.
-/
import SymmModel.Proofs.FuseCommute1

namespace SymmModel
namespace TdotP
variable {R : Type}

/-- a non-empty group of pairwise distinct axes of `X` -/
structure OneOk (X : Arr R) (g : List Nat) : Prop where
  ne : g ≠ []
  nd : g.Nodup
  lt : ∀ x ∈ g, x < X.ndim

theorem freeAxes_succ_mid (p m : Nat) :
    freeAxes (p + 1 + m) [p] = List.range p ++ (List.range m).map (fun j => p + 1 + j) := by
  unfold freeAxes
  rw [List.range_add, List.range_add, List.filter_append, List.filter_append]
  have h1 : (List.range p).filter (fun ax => !([p] : List Nat).contains ax) = List.range p := by
    rw [List.filter_eq_self]
    intro a ha
    have := List.mem_range.mp ha
    simp; omega
  have h2 : ((List.range 1).map (p + ·)).filter (fun ax => !([p] : List Nat).contains ax) = [] := by
    simp [List.range_succ]
  have h3 : ((List.range m).map (p + 1 + ·)).filter (fun ax => !([p] : List Nat).contains ax)
      = (List.range m).map (fun j => p + 1 + j) := by
    rw [List.filter_eq_self]
    intro a ha
    obtain ⟨j, _, rfl⟩ := List.mem_map.mp ha
    simp; omega
  rw [h1, h2, h3, List.append_nil]

section One
variable {X : Arr R} {g : List Nat}

theorem OneOk.groupsOk (h : OneOk X g) : FuseP.GroupsOk [g] X.ndim := by
  refine ⟨by simp, ?_, ?_, ?_⟩
  · intro g' hg'
    simp only [List.mem_cons, List.not_mem_nil, or_false] at hg'
    rw [hg']; exact h.ne
  · intro ax hax
    simp only [List.flatten_cons, List.flatten_nil, List.append_nil] at hax
    exact h.lt ax hax
  · simp only [List.flatten_cons, List.flatten_nil, List.append_nil]
    exact h.nd

theorem one_pos_mem (h : OneOk X g) : (FuseP.giM X [g]).position ∈ g := by
  have := (FuseP.position_spec (FuseP.hokD h.groupsOk)).1
  simpa using this

theorem one_pos_le (h : OneOk X g) : ∀ x ∈ g, (FuseP.giM X [g]).position ≤ x := by
  intro x hx
  exact (FuseP.position_spec (FuseP.hokD h.groupsOk)).2 x (by simpa using hx)

theorem one_pos_lt (h : OneOk X g) : (FuseP.giM X [g]).position < X.ndim := h.lt _ (one_pos_mem h)

/-- the axes outside the group, in increasing order: those below the fused position, then the rest -/
theorem one_free (h : OneOk X g) :
    freeAxes X.ndim g = List.range (FuseP.giM X [g]).position ++ (FuseP.giM X [g]).axesAfter := by
  have hp := one_pos_lt h
  have hle := one_pos_le h
  have hb := FuseP.axesBefore_eq (FuseP.hokD h.groupsOk)
  have hd := FuseP.duals_length X
  generalize hP : (FuseP.giM X [g]).position = p at hp hle hb ⊢
  have hpos : (calcFuseGroupInfo [g] X.duals).position = p := hP
  have hafter : (FuseP.giM X [g]).axesAfter
      = ((List.range X.ndim).filter (fun ax => decide (p ≤ ax))).filter (fun ax => !g.contains ax) := by
    show (calcFuseGroupInfo [g] X.duals).axesAfter = _
    have : (calcFuseGroupInfo [g] X.duals).axesAfter
        = ((List.range X.duals.length).filter (fun ax => decide ((calcFuseGroupInfo [g] X.duals).position ≤ ax))).filter
            (fun ax => !([g] : List (List Nat)).flatten.contains ax) := rfl
    rw [this, hpos, hd]
    simp
  rw [hafter]
  have hn : X.ndim = p + (X.ndim - p) := by omega
  unfold freeAxes
  conv_lhs => rw [hn, List.range_add, List.filter_append]
  conv_rhs => rw [hn, List.range_add, List.filter_append]
  have h1 : (List.range p).filter (fun ax => !g.contains ax) = List.range p := by
    rw [List.filter_eq_self]
    intro a ha
    have ha' := List.mem_range.mp ha
    simp only [Bool.not_eq_true', List.contains_eq_mem, decide_eq_false_iff_not]
    intro hm; have := hle a hm; omega
  have h2 : (List.range p).filter (fun ax => decide (p ≤ ax)) = [] := by
    rw [List.filter_eq_nil_iff]
    intro a ha
    have := List.mem_range.mp ha
    simp; omega
  have h3 : ((List.range (X.ndim - p)).map (p + ·)).filter (fun ax => decide (p ≤ ax))
      = (List.range (X.ndim - p)).map (p + ·) := by
    rw [List.filter_eq_self]
    intro a ha
    obtain ⟨j, _, rfl⟩ := List.mem_map.mp ha
    simp
  rw [h1, h2, h3, List.nil_append]

theorem one_ndimM (_h : OneOk X g) :
    FuseP.ndimM X [g] = (FuseP.giM X [g]).position + 1 + (FuseP.giM X [g]).axesAfter.length := rfl

/-- the untouched index tables of the fused array are those of the original's free axes -/
theorem one_free_indices (h : OneOk X g) :
    permuted (FuseP.newIdxM X [g]) (freeAxes (FuseP.ndimM X [g]) [(FuseP.giM X [g]).position])
      = permuted X.indices (freeAxes X.ndim g) := by
  have hok := h.groupsOk
  have hl := FuseP.newIdxM_length hok
  rw [one_ndimM h, freeAxes_succ_mid, one_free h, ValidP.permuted_append, ValidP.permuted_append]
  have ean : X.indices.length = X.ndim := rfl
  congr 1
  · rw [permuted_eq_map _ _ (by intro x hx; rw [hl, one_ndimM h]; have := List.mem_range.mp hx; omega) default,
      permuted_eq_map _ _ (by intro x hx; rw [ean]; have := List.mem_range.mp hx; have := one_pos_lt h; omega)
        default]
    apply List.map_congr_left
    intro x hx
    exact FuseP.newIdxM_before hok (List.mem_range.mp hx)
  · rw [permuted_eq_map _ _ (by
        intro x hx
        obtain ⟨j, hj, rfl⟩ := List.mem_map.mp hx
        rw [hl, one_ndimM h]; have := List.mem_range.mp hj; omega) default,
      permuted_eq_map _ _ FuseP.afterM_lt default, List.map_map,
      FuseP.map_eq_range_map (FuseP.giM X [g]).axesAfter 0]
    apply List.map_congr_left
    intro j hj
    have := FuseP.newIdxM_after hok (List.mem_range.mp hj)
    simp only [List.length_cons, List.length_nil, Nat.zero_add] at this
    exact this

/-- reading two lists through the free axes: equal free parts mean equal entries below the
    fused position and equal entries behind it -/
theorem one_free_parts {α : Type} (h : OneOk X g) (d : α) {ns s : List α}
    (hnl : ns.length = FuseP.ndimM X [g]) (hs : s.length = X.ndim)
    (hfree : permuted ns (freeAxes (FuseP.ndimM X [g]) [(FuseP.giM X [g]).position])
      = permuted s (freeAxes X.ndim g)) :
    (∀ x, x < (FuseP.giM X [g]).position → ns.getD x d = s.getD x d)
    ∧ (∀ j, j < (FuseP.giM X [g]).axesAfter.length →
        ns.getD ((FuseP.giM X [g]).position + 1 + j) d = s.getD ((FuseP.giM X [g]).axesAfter.getD j 0) d) := by
  have ean : X.indices.length = X.ndim := rfl
  rw [one_ndimM h, freeAxes_succ_mid, one_free h, ValidP.permuted_append, ValidP.permuted_append] at hfree
  have hb1 : ∀ x ∈ List.range (FuseP.giM X [g]).position, x < ns.length := by
    intro x hx; rw [hnl, one_ndimM h]; have := List.mem_range.mp hx; omega
  have hb2 : ∀ x ∈ List.range (FuseP.giM X [g]).position, x < s.length := by
    intro x hx; rw [hs]; have := List.mem_range.mp hx; have := one_pos_lt h; omega
  have ha1 : ∀ x ∈ (List.range (FuseP.giM X [g]).axesAfter.length).map
      (fun j => (FuseP.giM X [g]).position + 1 + j), x < ns.length := by
    intro x hx
    obtain ⟨j, hj, rfl⟩ := List.mem_map.mp hx
    rw [hnl, one_ndimM h]; have := List.mem_range.mp hj; omega
  have ha2 : ∀ x ∈ (FuseP.giM X [g]).axesAfter, x < s.length := by
    intro x hx; rw [hs, ← ean]; exact FuseP.afterM_lt x hx
  obtain ⟨e1, e2⟩ := List.append_inj hfree (by rw [permuted_length _ _ hb1, permuted_length _ _ hb2])
  rw [permuted_eq_map _ _ hb1 d, permuted_eq_map _ _ hb2 d] at e1
  rw [permuted_eq_map _ _ ha1 d, permuted_eq_map _ _ ha2 d, List.map_map,
    FuseP.map_eq_range_map (FuseP.giM X [g]).axesAfter 0] at e2
  exact ⟨FuseP.range_map_inj e1, FuseP.range_map_inj e2⟩

/-- **element map of fusing ONE group at an arbitrary position.**  At every address `(ns, i)` of
    the fused array's table box: the entry on the fused axis decodes (through the fused index's own
    table) to the group part of `(s, offs)`, the other entries are the free part of `(s, offs)`;
    then the fused array holds `X`'s element at `(s, offs)` — stored or not. -/
theorem one_elem [Zero R] [Neg R] (hv : FuseP.ValidArr X) (hph : X.phases = []) (h : OneOk X g)
    {ns : Sector} {i shp : List Nat}
    (hshp : Arr.blockShape? (FuseP.newIdxM X [g]) ns = some shp) (hbox : inBox shp i = true)
    {s : Sector} {offs : List Nat} (hs : s.length = X.ndim) (ho : offs.length = X.ndim)
    (hdec : decAx X [g] 0 (ns.getD (FuseP.giM X [g]).position (0, 0)) (i.getD (FuseP.giM X [g]).position 0)
      = some (permuted s g, permuted offs g))
    (hfS : permuted ns (freeAxes (FuseP.ndimM X [g]) [(FuseP.giM X [g]).position])
      = permuted s (freeAxes X.ndim g))
    (hfO : permuted i (freeAxes (FuseP.ndimM X [g]) [(FuseP.giM X [g]).position])
      = permuted offs (freeAxes X.ndim g)) :
    (FuseP.fusedArrM X [g]).elem ns i = X.elem s offs := by
  have hok := h.groupsOk
  have hnl : ns.length = FuseP.ndimM X [g] := by
    rw [(blockShape?_length hshp).1, FuseP.newIdxM_length hok]
  have hil : i.length = FuseP.ndimM X [g] := by
    rw [inBox_length hbox, (blockShape?_length hshp).2, FuseP.newIdxM_length hok]
  obtain ⟨s1, s2⟩ := one_free_parts h ((0, 0) : Charge) hnl hs hfS
  obtain ⟨o1, o2⟩ := one_free_parts h (0 : Nat) hil ho hfO
  refine multi_elem hv hph hok hshp hbox hs ho ?_ (fun x hx => ⟨s1 x hx, o1 x hx⟩)
    (fun j hj => ⟨s2 j hj, o2 j hj⟩)
  intro g' gaxes hg'
  have hg0 : g' = 0 := by
    have := FuseP.getElem?_lt hg'
    simp at this; exact this
  subst hg0
  simp only [List.getElem?_cons_zero, Option.some.injEq] at hg'
  subst hg'
  exact hdec

end One

end TdotP
end SymmModel
