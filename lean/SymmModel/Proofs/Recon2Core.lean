/-
  SymmModel.Proofs.Recon2Core — `tensordot_fermionic(left, right, axes=([1],[0]))` (model
  `Arr.tensordotF`) of the two factors of a decomposition of the fermionic matrix `x`.

  Route: `RoutesP.tensordotF_eq_core` (blockwise `tensordot_fermionic` = label sort + the core
  contraction) and `RoutesP.coreT_frame` (sectors, index tables, block shapes of the core, and its
  value view = the graded contraction `GradedP.gradedContract` of the VALUE views of the operands).
  Here the graded contraction is evaluated for `leftF x L`, `rightF x L Rt`:
    * one stored sector pair per result sector (`storedPairs_factors`),
    * its graded sign is `-1` exactly when the bond is a ket on the left factor and the bond charge
      is odd (`gradedSign_factors`) — exactly the sectors on which `qr_fermionic`/`svd_fermionic`
      stored a pending `-1` on the right factor, so the two cancel, whichever operand
      `tensordot_fermionic` chooses to flip.
  Nothing here changes a model definition.
-/
import SymmModel.Props.C11All2
import SymmModel.Props.C06c

namespace SymmModel
namespace Recon2P
set_option linter.unusedSectionVars false
open LinalgLemmas ReconP TdotP GradedP RoutesP OddposP
open Lazy (sgnI)

/-! ### lists -/

theorem eraseDups_of_nodup {α : Type} [BEq α] [LawfulBEq α] (l : List α) (h : l.Nodup) :
    l.eraseDups = l := by
  induction l with
  | nil => simp
  | cons a l ih =>
    rw [List.nodup_cons] at h
    rw [List.eraseDups_cons]
    have : l.filter (fun b => !b == a) = l := by
      rw [List.filter_eq_self]
      intro b hb
      have : b ≠ a := fun e => h.1 (e ▸ hb)
      simp [this]
    rw [this, ih h.2]

theorem flatMap_pick {α β : Type} [DecidableEq α] (l : List α) (s : α) (f : α → β) (hnd : l.Nodup)
    (hs : s ∈ l) : l.flatMap (fun a => if a = s then [f a] else []) = [f s] := by
  induction l with
  | nil => cases hs
  | cons a l ih =>
    rw [List.nodup_cons] at hnd
    rw [List.flatMap_cons]
    by_cases e : a = s
    · subst e
      have : l.flatMap (fun b => if b = a then [f b] else []) = [] := by
        rw [List.flatMap_eq_nil_iff]
        intro b hb
        have : b ≠ a := fun e => hnd.1 (e ▸ hb)
        simp [this]
      simp [this]
    · have hs' : s ∈ l := by
        rcases List.mem_cons.mp hs with h | h
        · exact absurd h.symm e
        · exact h
      simp only [e, if_false, List.nil_append]
      exact ih hnd.2 hs'

theorem flatMap_miss {α β : Type} [DecidableEq α] (l : List α) (s : α) (f : α → β) (hs : s ∉ l) :
    l.flatMap (fun a => if a = s then [f a] else []) = [] := by
  rw [List.flatMap_eq_nil_iff]
  intro b hb
  have : b ≠ s := fun e => hs (e ▸ hb)
  simp [this]

theorem sum_map_eq_foldl {R : Type} [AddMonoid R] (f : Nat → R) (l : List Nat) :
    (l.map f).sum = l.foldl (fun acc t => acc + f t) 0 := by
  rw [List.sum_eq_foldl, List.foldl_map]

theorem allIdx_single (k : Nat) : allIdx [k] = (List.range k).map (fun t => [t]) := by
  simp only [allIdx, List.map_cons, List.map_nil]
  exact flatMap_single _ _

variable {R : Type}

/-! ### the sector pairs of `left · right` -/

section pairs
variable {x : Arr R} {L Rt : Blk R → Blk R}

theorem leftF_ndim : (leftF x L).ndim = 2 := rfl

theorem rightF_ndim : (rightF x L Rt).ndim = 2 := by
  simp [Arr.ndim, (rightF_fields (x := x) (L := L) (Rt := Rt)).2.2.1]

theorem rightF_sectors : (rightF x L Rt).sectors = x.sectors.map diagOf := by
  simp [Arr.sectors, (rightF_fields (x := x) (L := L) (Rt := Rt)).2.2.2.2.1, List.map_map,
    Function.comp_def, colOf]

/-- the aligned partners, among the diagonal sectors, of the sector `sa` of `x`, that make up the
    result sector `s`: the diagonal sector of `sa`'s column charge if `sa = s`, none otherwise -/
theorem partners (hv : x.validB = true) (h2 : x.ndim = 2) (s sa : Sector) (hsa : sa ∈ x.sectors) :
    (x.sectors.map diagOf).filter (fun sb => permuted sb [0] == permuted sa [1]
        && permuted sa [0] ++ permuted sb [1] == s)
      = if sa = s then [diagOf sa] else [] := by
  obtain ⟨i0, i1, hi⟩ := ndim_two h2
  obtain ⟨⟨_, b⟩, hm, rfl⟩ := List.mem_map.mp hsa
  obtain ⟨r, c, m, n, B⟩ := mat_block hv hi hm
  have hcols : (x.sectors.map colOf).Nodup := by
    have := colCharges_nodup hv h2
    simpa [Arr.sectors, List.map_map, Function.comp_def, colOf] using this
  rw [List.filter_map]
  simp only [B.hs] at hsa ⊢
  by_cases e : [r, c] = s
  · subst e
    rw [if_pos rfl]
    have hf : x.sectors.filter ((fun sb => permuted sb [0] == permuted [r, c] [1]
        && permuted [r, c] [0] ++ permuted sb [1] == [r, c]) ∘ diagOf) = [[r, c]] := by
      apply filter_key_eq_singleton x.sectors colOf hcols hsa
      intro q _
      simp only [Function.comp, diagOf]
      show ([colOf q] == [c] && [r, colOf q] == [r, c]) = true ↔ colOf q = colOf [r, c]
      have : colOf [r, c] = c := rfl
      rw [this]
      constructor
      · intro h
        simp only [Bool.and_eq_true, beq_iff_eq] at h
        exact (List.cons.inj h.1).1
      · intro h; rw [h]; simp
    rw [hf]; rfl
  · rw [if_neg e]
    rw [List.map_eq_nil_iff, List.filter_eq_nil_iff]
    intro q _
    simp only [Function.comp, diagOf]
    show ¬ (([colOf q] == [c] && [r, colOf q] == s) = true)
    intro h
    simp only [Bool.and_eq_true, beq_iff_eq] at h
    have hc : colOf q = c := (List.cons.inj h.1).1
    rw [hc] at h
    exact e h.2

theorem free_left : freeAxes (leftF x L).ndim [1] = [0] := by rw [leftF_ndim]; decide
theorem free_right : freeAxes (rightF x L Rt).ndim [0] = [1] := by rw [rightF_ndim]; decide

/-- result sectors of the contraction of the factors: the sectors of `x`, in order -/
theorem tdKeys_factors (hv : x.validB = true) (h2 : x.ndim = 2) :
    tdKeys (leftF x L).sectors (rightF x L Rt).sectors (freeAxes (leftF x L).ndim [1]) [1] [0]
        (freeAxes (rightF x L Rt).ndim [0]) = x.sectors := by
  obtain ⟨i0, i1, hi⟩ := ndim_two h2
  rw [free_left, free_right, leftF_sectors, rightF_sectors]
  unfold tdKeys
  conv => rhs; rw [← List.flatMap_singleton' x.sectors]
  apply List.flatMap_congr
  intro sa hsa
  have hp := partners hv h2 sa sa hsa
  obtain ⟨⟨_, b⟩, hm, rfl⟩ := List.mem_map.mp hsa
  obtain ⟨r, c, m, n, B⟩ := mat_block hv hi hm
  simp only [B.hs] at hp ⊢
  have hf : (x.sectors.map diagOf).filter (fun t => permuted t [0] == permuted [r, c] [1])
      = [diagOf [r, c]] := by
    simp only [if_true] at hp
    rw [← hp]
    apply List.filter_congr
    intro t ht
    obtain ⟨q, _, rfl⟩ := List.mem_map.mp ht
    by_cases hq : (permuted (diagOf q) [0] == permuted [r, c] [1]) = true
    · rw [hq, Bool.true_and]
      have : colOf q = c := by
        have h' : ([colOf q] == [c]) = true := hq
        exact (List.cons.inj (eq_of_beq h')).1
      show true = ([r] ++ [colOf q] == [r, c])
      rw [this]; simp
    · simp [hq]
  rw [hf]
  rfl

/-- the stored sector pairs that make up result sector `s` -/
theorem storedPairs_factors (hv : x.validB = true) (h2 : x.ndim = 2) (s : Sector) :
    storedPairs (leftF x L) (rightF x L Rt) (freeAxes (leftF x L).ndim [1]) [1] [0]
        (freeAxes (rightF x L Rt).ndim [0]) s
      = if s ∈ x.sectors then [(s, diagOf s)] else [] := by
  rw [free_left, free_right]
  unfold storedPairs
  rw [leftF_sectors, rightF_sectors]
  have hstep : x.sectors.flatMap (fun sa =>
      ((x.sectors.map diagOf).filter (fun sb => permuted sb [0] == permuted sa [1]
        && permuted sa [0] ++ permuted sb [1] == s)).map (fun sb => (sa, sb)))
      = x.sectors.flatMap (fun sa => if sa = s then [(sa, diagOf sa)] else []) := by
    apply List.flatMap_congr
    intro sa hsa
    rw [partners hv h2 s sa hsa]
    split <;> rfl
  rw [hstep]
  by_cases hs : s ∈ x.sectors
  · rw [if_pos hs, flatMap_pick x.sectors s (fun sa => (sa, diagOf sa)) (sectors_nodup hv) hs]
  · rw [if_neg hs, flatMap_miss x.sectors s (fun sa => (sa, diagOf sa)) hs]

end pairs

/-! ### admissibility, signs, value views -/

section main
variable {x : Arr R} {L Rt : Blk R → Blk R}

theorem adm_factors (hv : x.validB = true) (h2 : x.ndim = 2) (hf : x.fermi = true)
    (hL : FacShape L Rt) : Adm (leftF x L) (rightF x L Rt) [1] [0] := by
  obtain ⟨i0, i1, hi⟩ := ndim_two h2
  have hS := C11.bondSpec_factors hv h2 hL
  refine ⟨leftF_valid hv h2 hi hL, rightF_valid hv h2 hi hL, hf, hS.right_rest.2.1.trans hf,
    hS.right_rest.1.symm, ?_, by decide, by decide, ?_, ?_⟩
  · unfold ValidP.contractibleB
    rw [hS.left_indices, hS.right_indices]
    simp [hS.opposite.1, hS.opposite.2]
  · intro a ha; simp at ha; subst ha; rw [leftF_ndim]; decide
  · intro a ha; simp at ha; subst ha; rw [rightF_ndim]; decide

/-- the sign the fermionic rules attach to the pair (`x`-sector `[r, c]`, diagonal sector of `c`) -/
def bondSign (x : Arr R) (c : Charge) : Int :=
  if !(x.indices.getD 1 default).dual && x.sym.parity c then -1 else 1

theorem bondSign_pm (x : Arr R) (c : Charge) : bondSign x c = 1 ∨ bondSign x c = -1 := by
  unfold bondSign; split <;> simp

theorem bondSign_sq (x : Arr R) (c : Charge) : bondSign x c * bondSign x c = 1 := by
  unfold bondSign; split <;> rfl

theorem gradedSign_factors (h2 : x.ndim = 2) (r c : Charge) :
    gradedSign (leftF x L) (rightF x L Rt) [1] [0] [r, c] [c, c] = bondSign x c := by
  obtain ⟨i0, i1, hi⟩ := ndim_two h2
  unfold gradedSign
  rw [free_left, free_right]
  have e01 : ([0] ++ [1] : List Nat) = List.range 2 := rfl
  rw [e01, KoszulP.koszul_id', KoszulP.koszul_id']
  have hoc : oddContracted (leftF x L) [1] [r, c] * (oddContracted (leftF x L) [1] [r, c] - 1) / 2 = 0 := by
    unfold oddContracted
    show (([c].filter (leftF x L).sym.parity).length
      * (([c].filter (leftF x L).sym.parity).length - 1)) / 2 = 0
    cases hp : (leftF x L).sym.parity c <;> simp [List.filter_cons, hp]
  rw [hoc]
  have hd : ((leftF x L).indices.getD 1 default).dual = i1.dual := by
    show (bondIx x L).dual = _
    rw [bondIx_eq hi]
    rfl
  have hi1 : x.indices.getD 1 default = i1 := by simp [hi]
  unfold ketOdd bondSign
  rw [hi1]
  simp only [List.filter_cons, List.filter_nil, hd]
  have hs : (leftF x L).sym = x.sym := rfl
  rw [hs]
  show (1 : Int) * 1 * (-1) ^ 0 * (-1) ^ _ = _
  cases i1.dual <;> cases hp : x.sym.parity c <;> simp [hp]

variable [AddMonoid R] [Mul R] [Neg R] [SignRing R]

/-- value view of the left factor on a stored block -/
theorem leftF_elem (hv : x.validB = true) {s : Sector} {b : Blk R} (hm : (s, b) ∈ x.blocks)
    (off : List Nat) :
    (leftF x L).elem s off
      = sgnI (if alookup x.phases s == some (-1) then -1 else 1) ((L b).get off) := by
  have hnd : (leftF x L).sectors.Nodup := by rw [leftF_sectors]; exact sectors_nodup hv
  have hm' : (s, L b) ∈ (leftF x L).blocks := List.mem_map.mpr ⟨(s, b), hm, rfl⟩
  rw [elem_of_mem hnd hm' off]
  show (if alookup x.phases s == some (-1) then _ else _) = _
  unfold sgnI
  split <;> simp

/-- value view of the right factor on the diagonal sector of a stored block's column charge -/
theorem rightF_elem (hv : x.validB = true) (h2 : x.ndim = 2) (hf : x.fermi = true) {s : Sector}
    {b : Blk R} (hm : (s, b) ∈ x.blocks) (off : List Nat) :
    (rightF x L Rt).elem (diagOf s) off = sgnI (bondSign x (colOf s)) ((Rt b).get off) := by
  obtain ⟨i0, i1, hi⟩ := ndim_two h2
  have hnd : (rightF x L Rt).sectors.Nodup := by rw [rightF_sectors]; exact diag_nodup hv h2
  have hm' : (diagOf s, Rt b) ∈ (rightF x L Rt).blocks := by
    rw [rightF_fields.2.2.2.2.1]; exact List.mem_map.mpr ⟨(s, b), hm, rfl⟩
  have hi1 : x.indices.getD 1 default = i1 := by simp [hi]
  have hmem : diagOf s ∈ x.sectors.map diagOf :=
    List.mem_map.mpr ⟨s, List.mem_map.mpr ⟨(s, b), hm, rfl⟩, rfl⟩
  rw [elem_of_mem hnd hm' off, rightF_phases hv h2 hi, hf]
  unfold bondSign sgnI
  rw [hi1]
  cases hd : i1.dual
  · simp only [Bool.true_and, Bool.not_false, if_true]
    have := alookup_flagged (x.sectors.map (fun s => [colOf s, colOf s]))
      (fun s => x.sym.parity (s.getD 0 (0, 0))) (diagOf s)
    rw [this]
    simp only [hmem, decide_true, Bool.true_and, diagOf, List.getD_cons_zero]
    cases x.sym.parity (colOf s) <;> simp
  · simp [alookup]

/-- **the fermionic contraction of the two factors, blockwise.**  `x` a valid fermionic matrix with
    sorted labels, `L`, `Rt` shape-correct block maps.  `tensordot_fermionic(left, right, ([1],[0]))`
    in blockwise mode succeeds; the result has no pending sign, `x`'s labels, symmetry, kind,
    sectors (in order), the block shapes `x`'s index tables give, and on a stored block `(s, b)`
    the entry `± Σ_t L(b)[i,t]·Rt(b)[t,j]` with `x`'s pending sign on `s`. -/
theorem tdotF_factors (hv : x.validB = true) (h2 : x.ndim = 2) (hf : x.fermi = true)
    (hlab : SortedLabels x.oddpos) (hL : FacShape L Rt) :
    ∃ c, (leftF x L).tensordotF (rightF x L Rt) (.pair [1] [0]) .blockwise = .ok c
      ∧ c.phases = [] ∧ c.oddpos = x.oddpos ∧ c.sectors = x.sectors
      ∧ c.sym = x.sym ∧ c.fermi = x.fermi
      ∧ (∀ p ∈ c.blocks, p.2.shape = Arr.blockShapeD x.indices p.1)
      ∧ ∀ s b, (s, b) ∈ x.blocks → ∀ m n, b.shape = [m, n] → ∀ i j, i < m → j < n →
          c.elem s [i, j]
            = sgnI (if alookup x.phases s == some (-1) then -1 else 1)
                ((List.range (min m n)).foldl
                  (fun acc t => acc + (L b).get [i, t] * (Rt b).get [t, j]) 0) := by
  obtain ⟨i0, i1, hi⟩ := ndim_two h2
  have hA := adm_factors (L := L) (Rt := Rt) hv h2 hf hL
  have hcore := tensordotF_eq_core (leftF x L) (rightF x L Rt) [1] [0] hA
  have hF := coreT_frame (leftF x L) (rightF x L Rt) [1] [0] hA
  have hmerge : mergeOddpos (leftF x L).parity (leftF x L).oddpos (rightF x L Rt).oddpos
      = .ok (x.oddpos, 1) := by
    rw [rightF_fields.2.2.2.2.2]
    exact merge_left_sorted _ _ hlab
  rw [hmerge] at hcore
  have hidx : without (leftF x L).indices [1] ++ without (rightF x L Rt).indices [0] = x.indices := by
    have e1 : (leftF x L).indices = [i0, bondIx x L] := by
      show [x.indices.getD 0 default, bondIx x L] = _
      rw [hi]; rfl
    rw [rightF_fields.2.2.1, e1, hi]; rfl
  generalize coreT (leftF x L) (rightF x L Rt) [1] [0] = T at hF hcore
  have hsec : T.sectors = x.sectors := by
    rw [hF.sectors, tdKeys_factors hv h2, eraseDups_of_nodup _ (sectors_nodup hv)]
  have hfin : finish T (x.oddpos, 1) = { T with oddpos := x.oddpos } := by
    unfold finish
    simp only [show ((1 : Int) == -1) = false from rfl, Bool.false_eq_true, if_false]
  have hcore' : (leftF x L).tensordotF (rightF x L Rt) (.pair [1] [0]) .blockwise
      = .ok { T with oddpos := x.oddpos } := by
    rw [← hfin]; exact hcore
  refine ⟨_, hcore', hF.phases, rfl, hsec, hF.sym, hF.fermi, ?_, ?_⟩
  · intro p hp
    have := hF.shape p hp
    rw [hidx] at this
    exact this
  · intro s b hm m n hs i j hi' hj'
    obtain ⟨r, c, m', n', B⟩ := mat_block hv hi hm
    have hmn : m' = m ∧ n' = n := by
      have := B.hshape; rw [hs] at this
      exact ⟨(List.cons.inj this).1.symm, (List.cons.inj (List.cons.inj this).2).1.symm⟩
    obtain ⟨rfl, rfl⟩ := hmn
    obtain ⟨l1, _, l3, _⟩ := hL b m' n' B.hshape B.hwf
    have hbox : inBox (Arr.blockShapeD (without (leftF x L).indices [1]
        ++ without (rightF x L Rt).indices [0]) s) ([i] ++ [j]) = true := by
      rw [hidx]
      have := (((validB_iff x).mp hv).2.2.2.1 s b hm).2.2.1
      unfold Arr.blockShapeD
      rw [this, hs]
      exact (inBox_pair _ _ i j).mpr ⟨hi', hj'⟩
    have he := hF.elem s [i] [j] (by rw [free_left]; rfl) hbox
    show T.elem s ([i] ++ [j]) = _
    rw [he]
    unfold gradedContract
    have hsx : s ∈ x.sectors := List.mem_map.mpr ⟨(s, b), hm, rfl⟩
    rw [storedPairs_factors hv h2 s, if_pos hsx]
    simp only [List.map_cons, List.map_nil, List.sum_cons, List.sum_nil, add_zero]
    -- the one pair
    have hsd : diagOf s = [c, c] := by simp [diagOf, colOf, B.hs]
    have hcs : colOf s = c := by simp [colOf, B.hs]
    have hgs : gradedSign (leftF x L) (rightF x L Rt) [1] [0] s (diagOf s) = bondSign x c := by
      rw [hsd, B.hs]; exact gradedSign_factors h2 r c
    rw [hgs]
    -- the contraction of the pair
    have hAshape : Arr.blockShapeD (leftF x L).indices s = [m', min m' n'] := by
      have hvA := leftF_valid (L := L) (Rt := Rt) hv h2 hi hL
      have := (((validB_iff _).mp hvA).2.2.2.1 s (L b)
        (List.mem_map.mpr ⟨(s, b), hm, rfl⟩)).2.2.1
      unfold Arr.blockShapeD
      rw [this, l1]; rfl
    have hcp : contractPair (leftF x L) (rightF x L Rt) [1] [0] [i] [j] (s, diagOf s)
        = sgnI ((if alookup x.phases s == some (-1) then -1 else 1) * bondSign x c)
            ((List.range (min m' n')).foldl
              (fun acc t => acc + (L b).get [i, t] * (Rt b).get [t, j]) 0) := by
      unfold contractPair
      simp only [hAshape]
      show ((allIdx [min m' n']).map _).sum = _
      rw [allIdx_single, List.map_map, ← sum_map_eq_foldl,
        ← sgnI_sum ((if alookup x.phases s == some (-1) then -1 else 1) * bondSign x c)]
      congr 1
      apply List.map_congr_left
      intro t _
      simp only [Function.comp, contractTerm]
      rw [free_left, free_right, leftF_ndim, rightF_ndim]
      show (leftF x L).elem s [i, t] * (rightF x L Rt).elem (diagOf s) [t, j] = _
      rw [leftF_elem hv hm, rightF_elem hv h2 hf hm, hcs,
        sgnI_mul_mul (by split <;> simp) (bondSign_pm x c)]
    rw [hcp, sgnI_comp (bondSign_pm x c)
      (Lazy.mul_pm (by split <;> simp) (bondSign_pm x c))]
    congr 1
    rw [Int.mul_comm (bondSign x c), Int.mul_assoc, bondSign_sq, Int.mul_one]

end main

end Recon2P
end SymmModel
