/-
  SymmModel.Proofs.Fuse8Eq — both strategies agree, several groups: block by block.
-/
import SymmModel.Proofs.Fuse8Region
namespace SymmModel
namespace FuseP
set_option linter.unusedSectionVars false

variable {R : Type} [Zero R]

section
variable {a : Arr R} {groups : List (List Nat)}

theorem pieceShape_full (ns : Sector) (b : List Nat) (qs : List (Sector × Nat)) (hb : b.length = ndimM a groups)
    (hq : qs.length = groups.length) :
    pieceShape (lvFrom a groups ns 0 groups.length) b qs
      = (List.range (ndimM a groups)).map (fun ax =>
          if axMulti a groups ax then (qs.getD (ax - (giM a groups).position) ([], 0)).2 else b.getD ax 0) := by
  rw [pieceShape_lvFrom ns (ndimM a groups) groups.length 0 b qs hb hq (by simp only [ndimM]; omega)]
  apply List.map_congr_left
  intro ax _
  simp only [axMulti, Nat.add_zero, Nat.sub_zero]
  rfl

/-- the sizes of the choices -/
theorem choice_size (hv : ValidArr a) (hok : GroupsOk groups a.ndim) {sb0 : Sector × Blk R} (hsb0 : sb0 ∈ a.blocks)
    {qs : List (Sector × Nat)} (hqs : Choice (lvFrom a groups (planM a groups sb0).newSector 0 groups.length) qs)
    {g : Nat} (hg : g < groups.length) (hm : multiB groups g = true) :
    ∃ st, startOf (extM a groups (planM a groups sb0).newSector g) (qs.getD g ([], 0)).1
      = some (st, (qs.getD g ([], 0)).2) := by
  obtain ⟨gaxes, hgx, hlen⟩ := multiB_iff.1 hm
  have hmem := choice_mem (planM a groups sb0).newSector groups.length 0 qs hqs g hg (by rw [Nat.zero_add]; exact hm)
  rw [Nat.zero_add] at hmem
  exact startOf_of_mem_nodup (ext_facts hv hok hgx hlen hsb0).1 hmem

theorem bshM_same (hv : ValidArr a) (hok : GroupsOk groups a.ndim) {sb sb0 : Sector × Blk R} (hsb : sb ∈ a.blocks)
    (hsb0 : sb0 ∈ a.blocks) (hns : (planM a groups sb).newSector = (planM a groups sb0).newSector) :
    BshM a groups sb = BshM a groups sb0 := by
  have h1 := shape_storedM hv hok hsb
  have h2 := shape_storedM hv hok hsb0
  rw [hns, h2] at h1
  simpa using h1.symm

/-- **both strategies agree, block by block** -/
theorem insert_eq_concat_multi (hv : ValidArr a) (hok : GroupsOk groups a.ndim) (ns : Sector) :
    (alookup (fusedBlocksM a groups) ns = none ∧ alookup (concatBlocksM a groups) ns = none)
    ∨ ∃ B C, alookup (fusedBlocksM a groups) ns = some B ∧ alookup (concatBlocksM a groups) ns = some C
        ∧ B = C := by
  have hI := fusedBlocksM_inv hv hok
  have hG := groupedM_inv hv hok
  have hcl : ∀ ns, alookup (concatBlocksM a groups) ns
      = (alookup (groupedM a groups) ns).map (fun sub =>
          nest (leafM sub (zsM a groups ns)) (lvFrom a groups ns 0 groups.length) []) := by
    intro ns
    exact alookup_map_val (fun k v => nest (leafM v (zsM a groups k)) (lvFrom a groups k 0 groups.length) []) _ ns
  by_cases hk : ns ∈ a.blocks.map (fun sb => (planM a groups sb).newSector)
  · right
    obtain ⟨sb0, hsb0, rfl⟩ := List.mem_map.1 hk
    obtain ⟨B, hB, hBs⟩ := fusedBlockM_exists hv hok hsb0
    have hkG : (planM a groups sb0).newSector ∈ (groupedM a groups).map (·.1) := by
      rw [hG.keys]; simp only [List.map_map]; exact List.mem_map.2 ⟨sb0, hsb0, rfl⟩
    obtain ⟨sub, hsub⟩ := Option.isSome_iff_exists.1 (alookup_isSome_iff.2 hkG)
    refine ⟨B, _, hB, by rw [hcl, hsub]; rfl, ?_⟩
    have hbl : (BshM a groups sb0).length = ndimM a groups := BshM_length sb0
    have hsh : shapeOfM a groups (planM a groups sb0).newSector = BshM a groups sb0 := by
      simp [shapeOfM, shape_storedM hv hok hsb0]
    -- what the sub-dictionary holds
    have hsubmem : ∀ key b, alookup sub key = some b → ∃ sb ∈ a.blocks,
        (planM a groups sb).newSector = (planM a groups sb0).newSector ∧ (planM a groups sb).subsectors = key
        ∧ b = (sb.2.transposeK (giM a groups).perm).reshapeK (planM a groups sb).newShape := by
      intro key b hl
      have := (hG.sub _ sub hsub key b).1 hl
      obtain ⟨sb, hsb, he⟩ := List.mem_map.1 this
      simp only [toGItemM, Prod.mk.injEq] at he
      exact ⟨sb, hsb, he.1, he.2.1, he.2.2.symm⟩
    -- the levels fit the fused shape
    have hlv : LvOk (lvFrom a groups (planM a groups sb0).newSector 0 groups.length) (BshM a groups sb0) := by
      apply lvOk_lvFrom _ (ndimM a groups) groups.length 0 _ hbl (by simp only [ndimM]; omega)
      intro g _ hg hm
      rw [Nat.zero_add] at hg
      obtain ⟨gaxes, hgx, hlen⟩ := multiB_iff.1 hm
      obtain ⟨_, _, h3, h4⟩ := ext_facts hv hok hgx hlen hsb0
      refine ⟨?_, h4⟩
      rw [BshM_getD sb0 (by simp only [ndimM]; omega), axMulti_mid hg, hm, h3]
      simp
    -- the leaves have the piece shapes
    have hleaf : ∀ qs, Choice (lvFrom a groups (planM a groups sb0).newSector 0 groups.length) qs →
        (leafM sub (zsM a groups (planM a groups sb0).newSector) ([] ++ qs.map (·.1))).shape
          = pieceShape (lvFrom a groups (planM a groups sb0).newSector 0 groups.length) (BshM a groups sb0) qs := by
      intro qs hqs
      have hql : qs.length = groups.length := choice_length _ _ _ _ hqs
      rw [pieceShape_full _ _ _ hbl hql, List.nil_append]
      unfold leafM
      cases hl : alookup sub (qs.map (·.1)) with
      | some b =>
        obtain ⟨sb, hsb, hns, hss, rfl⟩ := hsubmem _ b hl
        show (planM a groups sb).newShape = _
        apply list_ext_getD 0 (by rw [planM_newShape_length hok]; simp)
        intro k hk
        rw [planM_newShape_length hok] at hk
        rw [getD_range_map _ _ _ _ hk]
        by_cases hma : axMulti a groups k = true
        · obtain ⟨g, hg, rfl, hm⟩ := axMulti_cases hma
          simp only [hma, if_true, Nat.add_sub_cancel_left]
          obtain ⟨gaxes, hgx, hlen⟩ := multiB_iff.1 hm
          obtain ⟨_, h2, _, _⟩ := ext_facts hv hok hgx hlen hsb
          obtain ⟨st, hst⟩ := choice_size hv hok hsb0 hqs hg hm
          have hssg : ssM (a := a) (groups := groups) sb g = (qs.getD g ([], 0)).1 := by
            simp only [ssM]; rw [hss, getD_map_fst]
          rw [hns, hssg, hst] at h2
          simp only [Option.some.injEq, Prod.mk.injEq] at h2
          exact h2.2.symm
        · have hma' : axMulti a groups k = false := by simpa using hma
          simp only [hma', Bool.false_eq_true, if_false]
          rw [← bshM_same hv hok hsb hsb0 hns, BshM_getD sb hk]
          simp only [hma', Bool.false_eq_true, if_false]
      | none =>
        show zsM a groups (planM a groups sb0).newSector (qs.map (·.1)) = _
        simp only [zsM]
        apply List.map_congr_left
        intro ax hax
        simp only [List.mem_range] at hax
        by_cases hma : axMulti a groups ax = true
        · obtain ⟨g, hg, rfl, hm⟩ := axMulti_cases hma
          simp only [hma, if_true, Nat.add_sub_cancel_left]
          obtain ⟨st, hst⟩ := choice_size hv hok hsb0 hqs hg hm
          rw [getD_map_fst, hst]
          rfl
        · have hma' : axMulti a groups ax = false := by simpa using hma
          simp only [hma', Bool.false_eq_true, if_false, hsh]
    obtain ⟨hCs, hCget⟩ := nest_spec (leafM sub (zsM a groups (planM a groups sb0).newSector))
      (lvFrom a groups (planM a groups sb0).newSector 0 groups.length) [] (BshM a groups sb0) hlv hleaf
    -- well-formedness
    have hleafwf : ∀ k, (leafM sub (zsM a groups (planM a groups sb0).newSector) k).wf = true := by
      intro k
      unfold leafM
      cases hl : alookup sub k with
      | some b =>
        obtain ⟨sb, hsb, _, _, rfl⟩ := hsubmem _ b hl
        exact srcM_wf hv hok hsb
      | none => exact ofFn_wf _ _
    apply blk_ext_of_get (insFold_wf _ _ _ (alookup_some_mem hB)) (nest_wf _ hleafwf _ _ _ hlv) (by rw [hBs, hCs])
    intro i hi
    rw [hBs] at hi
    obtain ⟨_, _, hget⟩ := hCget i hi
    rw [hget, List.nil_append]
    have hiS : inBox (shapeOfM a groups (planM a groups sb0).newSector) i = true := by rw [hsh]; exact hi
    unfold leafM
    cases hl : alookup sub ((decQ (lvFrom a groups (planM a groups sb0).newSector 0 groups.length) i).map (·.1)) with
    | some b =>
      obtain ⟨sb, hsb, hns, hss, rfl⟩ := hsubmem _ b hl
      have hi' : inBox (BshM a groups sb) i = true := by rw [bshM_same hv hok hsb hsb0 hns]; exact hi
      obtain ⟨_, l2, l3⟩ := region_link hv hok hsb hi'
      rw [hns] at l2 l3
      have hreg := l2.2 hss
      have hoff := l3 hreg
      have := hI.hit _ B hB (toItemM a groups sb) (List.mem_map.2 ⟨sb, hsb, rfl⟩) hns i hiS hreg
      rw [this]
      show ((sb.2.transposeK (giM a groups).perm).reshapeK (planM a groups sb).newShape).get
          (List.zipWith (· - ·) i (startsM a groups sb)) = _
      rw [hoff]
    | none =>
      show B.get i = (Blk.zeros _ : Blk R).get _
      rw [zeros_get]
      apply hI.miss _ B hB i hiS
      intro it hit hkey
      obtain ⟨sb, hsb, rfl⟩ := List.mem_map.1 hit
      have hns : (planM a groups sb).newSector = (planM a groups sb0).newSector := hkey
      have hi' : inBox (BshM a groups sb) i = true := by rw [bshM_same hv hok hsb hsb0 hns]; exact hi
      obtain ⟨_, l2, _⟩ := region_link hv hok hsb hi'
      rw [hns] at l2
      cases hreg : inRegion (toItemM a groups sb).2.1 (toItemM a groups sb).2.2.shape i with
      | false => rfl
      | true =>
        exfalso
        have hss := l2.1 hreg
        have hin : ((planM a groups sb0).newSector,
            (decQ (lvFrom a groups (planM a groups sb0).newSector 0 groups.length) i).map (·.1),
            (sb.2.transposeK (giM a groups).perm).reshapeK (planM a groups sb).newShape)
            ∈ a.blocks.map (toGItemM a groups) := by
          refine List.mem_map.2 ⟨sb, hsb, ?_⟩
          simp only [toGItemM, hns, hss]
        have := (hG.sub _ sub hsub _ _).2 hin
        rw [hl] at this; cases this
  · left
    constructor
    · rw [alookup_eq_none_iff, hI.keys, List.map_map]; exact hk
    · rw [hcl]
      have : alookup (groupedM a groups) ns = none := by
        rw [alookup_eq_none_iff, hG.keys, List.map_map]; exact hk
      rw [this]; rfl

end

end FuseP
end SymmModel
