/-
  SymmModel.Proofs.NetNorm2 — network form of the norm (property C10), continuation part 2:
  the four balanced bracketings with the halves in MIXED operand orders
  `(b̄·ā)·(a·b)`, `(a·b)·(b̄·ā)`, `(ā·b̄)·(b·a)`, `(b·a)·(ā·b̄)` with EVERY call in its own mode
  (`blockwise`, `fused`, `auto`).
-/
import SymmModel.Proofs.NetNorm1
namespace SymmModel.NormNet
open SymmModel SymmModel.Lazy SymmModel.Norm SymmModel.TdotP SymmModel.GradedP SymmModel.RoutesP
open SymmModel.AssocP SymmModel.Assoc3P
set_option linter.unusedSectionVars false

section util
variable {R : Type}

theorem without_length (a : Arr R) (xa : List Nat) :
    (without a.indices xa).length = (freeAxes a.ndim xa).length := by
  rw [without_eq_permuted_freeAxes]
  exact permuted_length _ _ (fun x hx => (mem_freeAxes.mp hx).1)

theorem nodup_keys_conj {L : List Index} (h : ∀ ix ∈ L, (ix.cm.map (·.1)).Nodup) :
    ∀ ix ∈ L.map Index.conj, (ix.cm.map (·.1)).Nodup := by
  intro ix hix
  obtain ⟨i, hi, rfl⟩ := List.mem_map.mp hix
  rw [Index.conj_cm]; exact h i hi

theorem nodup_keys_frame {a b : Arr R} (ha : a.validB = true) (hb : b.validB = true)
    (xa xb : List Nat) :
    ∀ ix ∈ without a.indices xa ++ without b.indices xb, (ix.cm.map (·.1)).Nodup := by
  intro ix hix
  rcases frame_mem hix with h | h
  · exact keys_nodup_of_validB ha _ h
  · exact keys_nodup_of_validB hb _ h

end util

section mixedM
variable {R : Type} [AddCommMonoid R] [Mul R] [Neg R] [Conj R] [NetLaws R]

/-- the conclusion of `network_norm_mixed_any_mode`: `K` the blockwise `a·b` (reference for
    `normSq`), the four halves in the modes `mK mKb mK' mKb'`, the four final calls in `md 0 … md 3` -/
def MixedM (a b : Arr R) (xa xb : List Nat) (mK mKb mK' mKb' : TdotMode) (md : Nat → TdotMode) :
    Prop :=
  ∃ K Km Kbm Km' Kbm',
    a.tensordotF b (.pair (xa.map Int.ofNat) (xb.map Int.ofNat)) .blockwise = .ok K
    ∧ a.tensordotF b (.pair (xa.map Int.ofNat) (xb.map Int.ofNat)) mK = .ok Km
    ∧ (braOf a xa).tensordotF (braOf b xb) (.pair (xa.map Int.ofNat) (xb.map Int.ofNat)) mKb = .ok Kbm
    ∧ b.tensordotF a (.pair (xb.map Int.ofNat) (xa.map Int.ofNat)) mK' = .ok Km'
    ∧ (braOf b xb).tensordotF (braOf a xa) (.pair (xb.map Int.ofNat) (xa.map Int.ofNat)) mKb'
        = .ok Kbm'
    -- (b̄·ā)·(a·b)
    ∧ (∃ r, Kbm'.tensordotF Km (.pair
          ((crossAx (freeAxes a.ndim xa).length (freeAxes b.ndim xb).length).map Int.ofNat)
          ((List.range K.ndim).map Int.ofNat)) (md 0) = .ok r
        ∧ r.ndim = 0 ∧ r.oddpos = [] ∧ r.elem [] [] = normSq K)
    -- (a·b)·(b̄·ā)
    ∧ (∃ r, Km.tensordotF Kbm' (.pair
          ((crossAx (freeAxes b.ndim xb).length (freeAxes a.ndim xa).length).map Int.ofNat)
          ((List.range K.ndim).map Int.ofNat)) (md 1) = .ok r
        ∧ r.ndim = 0 ∧ r.oddpos = [] ∧ r.elem [] [] = normSq K)
    -- (ā·b̄)·(b·a)
    ∧ (∃ r, Kbm.tensordotF Km' (.pair
          ((crossAx (freeAxes b.ndim xb).length (freeAxes a.ndim xa).length).map Int.ofNat)
          ((List.range K.ndim).map Int.ofNat)) (md 2) = .ok r
        ∧ r.ndim = 0 ∧ r.oddpos = [] ∧ r.elem [] [] = normSq K)
    -- (b·a)·(ā·b̄)
    ∧ (∃ r, Km'.tensordotF Kbm (.pair
          ((crossAx (freeAxes a.ndim xa).length (freeAxes b.ndim xb).length).map Int.ofNat)
          ((List.range K.ndim).map Int.ofNat)) (md 3) = .ok r
        ∧ r.ndim = 0 ∧ r.oddpos = [] ∧ r.elem [] [] = normSq K)

/-- **the mixed operand orders of the halves with every call in any mode** -/
theorem network_norm_mixedM (hmul : ∀ x y : R, x * y = y * x) (hz1 : ∀ x : R, 0 * x = 0)
    (a b : Arr R) (xa xb : List Nat)
    (ha : a.validB = true) (hb : b.validB = true) (hfa : a.fermi = true) (hfb : b.fermi = true)
    (hadm : ValidP.tdotAdmissibleB a b xa xb = true)
    (hoA : KetLabels a.oddpos) (hoB : KetLabels b.oddpos)
    (hd : (a.oddpos ++ b.oddpos).Pairwise (fun x y => x.1 ≠ y.1))
    (mK mKb mK' mKb' : TdotMode) (md : Nat → TdotMode) :
    MixedM a b xa xb mK mKb mK' mKb' md := by
  have hz2 : ∀ x : R, x * 0 = 0 := fun x => by rw [hmul, hz1]
  have h := Adm.of ha hb hfa hfb hadm
  have hB := braOf_adm h
  have hadm' := admB_swap ha hb hfa hfb hadm
  have h' := Adm.of hb ha hfb hfa hadm'
  have hB' := braOf_adm h'
  obtain ⟨K, Kb, K', Kb', TN, ⟨r1, e1, n1, o1, v1⟩, ⟨r2, e2, n2, o2, v2⟩, ⟨r3, e3, n3, o3, v3⟩,
    ⟨r4, e4, n4, o4, v4⟩⟩ := network_norm_mixed hmul a b xa xb ha hb hfa hfb hadm hoA hoB hd
  -- the halves in their modes
  obtain ⟨Km, eKm, HK, sK⟩ := half_of_call hz1 hz2 a b xa xb (AdmW.ofAdm h) mK K TN.eK
  obtain ⟨Kbm, eKbm, HKb, sKb⟩ :=
    half_of_call hz1 hz2 (braOf a xa) (braOf b xb) xa xb (AdmW.ofAdm hB) mKb Kb TN.eKb
  obtain ⟨Km', eKm', HK', sK'⟩ := half_of_call hz1 hz2 b a xb xa (AdmW.ofAdm h') mK' K' TN.eK'
  obtain ⟨Kbm', eKbm', HKb', sKb'⟩ :=
    half_of_call hz1 hz2 (braOf b xb) (braOf a xa) xb xa (AdmW.ofAdm hB') mKb' Kb' TN.eKb'
  have hwi : without (braOf a xa).indices xa ++ without (braOf b xb).indices xb
      = (without a.indices xa).map Index.conj ++ (without b.indices xb).map Index.conj := by
    rw [(braOf_frame a xa).2.2.1, (braOf_frame b xb).2.2.1, without_map, without_map]
  have hwi' : without (braOf b xb).indices xb ++ without (braOf a xa).indices xa
      = (without b.indices xb).map Index.conj ++ (without a.indices xa).map Index.conj := by
    rw [(braOf_frame a xa).2.2.1, (braOf_frame b xb).2.2.1, without_map, without_map]
  rw [hwi] at HKb
  rw [hwi'] at HKb'
  rw [(braOf_frame a xa).1] at sKb
  rw [(braOf_frame b xb).1] at sKb'
  -- lengths
  have lA := without_length a xa
  have lB := without_length b xb
  have hn : K.ndim = (freeAxes a.ndim xa).length + (freeAxes b.ndim xb).length := by
    have := HK.frY.length_eq
    rw [List.length_append, lA, lB] at this
    exact this
  have hn' : K.ndim = (freeAxes b.ndim xb).length + (freeAxes a.ndim xa).length := by omega
  -- key-nodup of the frames
  have nF := nodup_keys_frame ha hb xa xb
  have nF' := nodup_keys_frame hb ha xb xa
  have nFc : ∀ ix ∈ (without a.indices xa).map Index.conj ++ (without b.indices xb).map Index.conj,
      (ix.cm.map (·.1)).Nodup := by
    rw [← List.map_append]; exact nodup_keys_conj nF
  have nFc' : ∀ ix ∈ (without b.indices xb).map Index.conj ++ (without a.indices xa).map Index.conj,
      (ix.cm.map (·.1)).Nodup := by
    rw [← List.map_append]; exact nodup_keys_conj nF'
  refine ⟨K, Km, Kbm, Km', Kbm', TN.eK, eKm, eKbm, eKm', eKbm', ?_, ?_, ?_, ?_⟩
  · -- (b̄·ā)·(a·b): Z = Kb', X = K
    rw [hn, ← lA, ← lB] at e1 ⊢
    obtain ⟨rm, e, n, o, v⟩ := cross_call_any hz1 hz2 HKb' HK (by rw [sKb', sK, h.sym])
      (forall₂_opp_conj _) (forall₂_opp_conj _) nF r1 e1 n1 (md 0)
    exact ⟨rm, e, n, o.trans o1, v.trans v1⟩
  · -- (a·b)·(b̄·ā): Z = K, X = Kb'
    rw [hn', ← lA, ← lB, ← List.length_map (f := Index.conj) (as := without b.indices xb),
      ← List.length_map (f := Index.conj) (as := without a.indices xa)] at e2 ⊢
    obtain ⟨rm, e, n, o, v⟩ := cross_call_any hz1 hz2 HK HKb' (by rw [sKb', sK, h.sym])
      (forall₂_opp_conj' _) (forall₂_opp_conj' _) nFc' r2 e2 n2 (md 1)
    exact ⟨rm, e, n, o.trans o2, v.trans v2⟩
  · -- (ā·b̄)·(b·a): Z = Kb, X = K'
    rw [hn', ← lA, ← lB] at e3 ⊢
    obtain ⟨rm, e, n, o, v⟩ := cross_call_any hz1 hz2 HKb HK' (by rw [sKb, sK', h.sym])
      (forall₂_opp_conj _) (forall₂_opp_conj _) nF' r3 e3 n3 (md 2)
    exact ⟨rm, e, n, o.trans o3, v.trans v3⟩
  · -- (b·a)·(ā·b̄): Z = K', X = Kb
    rw [hn, ← lA, ← lB, ← List.length_map (f := Index.conj) (as := without b.indices xb),
      ← List.length_map (f := Index.conj) (as := without a.indices xa)] at e4 ⊢
    obtain ⟨rm, e, n, o, v⟩ := cross_call_any hz1 hz2 HK' HKb (by rw [sKb, sK', h.sym])
      (forall₂_opp_conj' _) (forall₂_opp_conj' _) nFc r4 e4 n4 (md 3)
    exact ⟨rm, e, n, o.trans o4, v.trans v4⟩

end mixedM

end SymmModel.NormNet
