/-
  SymmModel.Proofs.LinalgMore2 — fermionic `solve`: `a @ solve(a, b)` has `b`'s value view on the
  sectors `a` reaches (C11b `solve_solves_fermionic`).
-/
import SymmModel.Proofs.LinalgMore

namespace SymmModel
namespace LinalgLemmas

variable {R : Type}

/-! ### generalities -/

theorem tdot_blocks_congr [Zero R] [Add R] [Mul R] {a a' b b' : Arr R} (ha : a.blocks = a'.blocks)
    (hb : b.blocks = b'.blocks) (l xa xb r : List Nat) :
    (tensordotBlockwise a b l xa xb r).blocks = (tensordotBlockwise a' b' l xa xb r).blocks := by
  unfold tensordotBlockwise
  simp only [ha, hb]

theorem alookup_map_snd {κ β γ : Type} [BEq κ] [LawfulBEq κ] (l : List (κ × β))
    (f : κ × β → γ) (k : κ) :
    alookup (l.map (fun p => (p.1, f p))) k = (alookup l k).map (fun v => f (k, v)) := by
  induction l with
  | nil => rfl
  | cons p l ih =>
    obtain ⟨k1, v1⟩ := p
    simp only [List.map_cons, alookup]
    by_cases h : k1 = k
    · subst h; simp
    · have : (k1 == k) = false := by simp [h]
      simp only [this, Bool.false_eq_true, if_false, ih]

/-- `phase_sync` does not change the value view -/
theorem phaseSync_elem' [Zero R] [Neg R] (hn0 : -(0 : R) = 0) (a : Arr R) (s : Sector)
    (off : List Nat) : a.phaseSync.elem s off = a.elem s off := by
  have hb : a.phaseSync.blocks = a.blocks.map (fun p =>
      (p.1, if alookup a.phases p.1 == some (-1) then p.2.negK else p.2)) := by
    simp only [Arr.phaseSync]
    apply List.map_congr_left
    intro p _
    split <;> rfl
  unfold Arr.elem
  rw [hb, alookup_map_snd]
  cases alookup a.blocks s with
  | none => rfl
  | some b =>
    have hp : alookup a.phaseSync.phases s = none := rfl
    simp only [Option.map_some, hp]
    by_cases hc : (alookup a.phases s == some (-1)) = true
    · simp only [hc, if_true, negK_get hn0]
      rfl
    · simp only [hc, Bool.false_eq_true, if_false]
      rfl

theorem syncIf_elem [Zero R] [Neg R] (hn0 : -(0 : R) = 0) (a : Arr R) (s : Sector)
    (off : List Nat) : (syncIf a).elem s off = a.elem s off := by
  unfold syncIf
  split
  · exact phaseSync_elem' hn0 a s off
  · rfl

theorem syncB_elem [Zero R] [Neg R] (hn0 : -(0 : R) = 0) (a b : Arr R) (s : Sector)
    (off : List Nat) : (syncB a b).elem s off = b.elem s off := by
  unfold syncB
  split
  · exact phaseSync_elem' hn0 b s off
  · rfl

theorem syncIf_blocks_fermi [Neg R] (a : Arr R) (hf : a.fermi = true) :
    (syncIf a).blocks = a.phaseSync.blocks := by
  unfold syncIf
  split
  · rfl
  next h =>
    simp only [hf, Bool.true_and, Bool.not_eq_true', Bool.not_eq_false] at h
    exact (phaseSync_blocks_nil a (List.isEmpty_iff.mp h)).symm

theorem syncB_blocks_fermi [Neg R] (a b : Arr R) (hf : a.fermi = true) :
    (syncB a b).blocks = b.phaseSync.blocks := by
  unfold syncB
  split
  · rfl
  next h =>
    simp only [hf, Bool.true_and, Bool.not_eq_true', Bool.not_eq_false] at h
    exact (phaseSync_blocks_nil b (List.isEmpty_iff.mp h)).symm

theorem syncB_sectors [Neg R] (a b : Arr R) : (syncB a b).sectors = b.sectors := by
  unfold syncB
  split
  · exact phaseSync_sectors b
  · rfl

theorem solvesOn_congr [Zero R] [Add R] [Mul R] {K : Kernels R} {a a' b b' : Arr R}
    (ha : a.blocks = a'.blocks) (hb : b.blocks = b'.blocks) (h : K.SolvesOn a b) :
    K.SolvesOn a' b' := by
  intro s arr bb hm hl
  exact h s arr bb (ha ▸ hm) (hb ▸ hl)

/-! ### `solveA` and `matmulF` in closed form -/

theorem solveA_ok_eq [Neg R] {K : Kernels R} {a b x : Arr R} (hva : a.validB = true)
    (h : solveA K a b = .ok x) :
    a.ndim = 2 ∧ b.ndim = 1 ∧
    x = (if (syncIf a).fermi && ((syncIf a).indices.getD 1 default).conj.dual
          then (solveX K (syncIf a) (syncB (syncIf a) b)).phaseFlip [0]
          else solveX K (syncIf a) (syncB (syncIf a) b)) := by
  rw [solveA_eq_core] at h
  have hva' := syncIf_valid a hva
  obtain ⟨g1, g2, g3, g4, g5⟩ := syncB_fields (syncIf a) b
  unfold solveCore at h
  split at h
  · cases h
  next hnd =>
    split at h
    · cases h
    next =>
      simp only [Bool.or_eq_true, bne_iff_ne, ne_eq, not_or, Decidable.not_not] at hnd
      obtain ⟨h2, h1⟩ := hnd
      have h' := Except.ok.inj h
      rw [adict_of_nodup _ (solveBlocks_keys_nodup hva' h2)] at h'
      exact ⟨by rw [← syncIf_ndim a]; exact h2, by simpa [Arr.ndim, g3] using h1, h'.symm⟩

theorem matmulF_eq_21 [Zero R] [Add R] [Mul R] [Neg R] (a b : Arr R) (ha : a.ndim = 2)
    (j0 : Index) (hb : b.indices = [j0]) :
    Arr.matmulF a b =
      resolveCombinedOddpos a.phaseSync (if j0.dual then b.phaseFlip [0] else b).phaseSync
        (tensordotBlockwise a.phaseSync (if j0.dual then b.phaseFlip [0] else b).phaseSync
          [0] [1] [0] []) := by
  have hbn : b.ndim = 1 := by simp [Arr.ndim, hb]
  have h1 : a.phaseSync.ndim = 2 := ha
  have h2 : (if j0.dual then b.phaseFlip [0] else b).phaseSync.ndim = 1 := by
    show (if j0.dual then b.phaseFlip [0] else b).indices.length = 1
    split
    · rw [(phaseFlip_fields b [0]).2.2.1, hb]; rfl
    · rw [hb]; rfl
  unfold Arr.matmulF
  simp only [ha, hbn, hb, List.getElem?_cons_zero]
  have : matmulA a.phaseSync (if j0.dual then b.phaseFlip [0] else b).phaseSync
      = pure (tensordotBlockwise a.phaseSync (if j0.dual then b.phaseFlip [0] else b).phaseSync
          [0] [1] [0] []) := by
    unfold matmulA
    rw [h1, h2]
    rfl
  simp only [gt_iff_lt, Nat.lt_irrefl, decide_false, pure_bind, this]
  simp

theorem resolve_right (left right new : Arr R) (hl : left.oddpos = []) (hp : left.parity = false)
    (hr : right.oddpos.length ≤ 1) :
    resolveCombinedOddpos left right new = .ok { new with oddpos := right.oddpos } := by
  unfold resolveCombinedOddpos
  match h : right.oddpos, hr with
  | [], _ =>
    simp [hl]
    rfl
  | [a], _ =>
    simp [hl, hp, resolveScan]
    rfl

/-! ### the fermionic solve reconstruction -/

theorem solve_recon_fermi [Zero R] [Add R] [Mul R] [Neg R] (hn0 : -(0 : R) = 0) {K : Kernels R}
    (hK : K.ShapeOk) {a b x : Arr R} (hva : a.validB = true) (hvb : b.validB = true)
    (hfa : a.fermi = true) (hfb : b.fermi = true) (heven : a.parity = false)
    (hao : a.oddpos = []) (hbo : b.oddpos.length ≤ 1)
    (hS : K.SolvesOn a.phaseSync b.phaseSync) (h : solveA K a b = .ok x) :
    ∃ y, Arr.matmulF a x = .ok y ∧ y.oddpos = b.oddpos ∧
      ∀ s arr, (s, arr) ∈ a.blocks → [s.getD 0 (0, 0)] ∈ b.sectors →
        ∀ i, i < arr.shape.getD 0 0 →
          y.elem [s.getD 0 (0, 0)] [i] = b.elem [s.getD 0 (0, 0)] [i] := by
  obtain ⟨h2, h1, hx⟩ := solveA_ok_eq hva h
  obtain ⟨f1, f2, f3, f4, f5, f6⟩ := syncIf_fields a
  obtain ⟨g1, g2, g3, g4, g5⟩ := syncB_fields (syncIf a) b
  have hva' := syncIf_valid a hva
  have h2' : (syncIf a).ndim = 2 := by rw [syncIf_ndim]; exact h2
  have hfA : (syncIf a).fermi = true := f2.trans hfa
  have hBph : (syncB (syncIf a) b).phases = [] :=
    syncB_phases _ b hvb (by rw [f2, hfa, hfb])
  have hXph : (solveX K (syncIf a) (syncB (syncIf a) b)).phases = [] := hBph
  have hXnd : (solveX K (syncIf a) (syncB (syncIf a) b)).sectors.Nodup :=
    solveBlocks_keys_nodup hva' h2'
  have hxi : x.indices = [((syncIf a).indices.getD 1 default).conj] := by
    rw [hx]; split
    · rw [(phaseFlip_fields _ [0]).2.2.1]; rfl
    · rfl
  -- after `__matmul__`'s own flip the solution has no pending signs
  have hb1 : (if ((syncIf a).indices.getD 1 default).conj.dual then x.phaseFlip [0] else x).phases = []
      ∧ (if ((syncIf a).indices.getD 1 default).conj.dual then x.phaseFlip [0] else x).blocks
          = solveBlocks K (syncIf a) (syncB (syncIf a) b)
      ∧ (if ((syncIf a).indices.getD 1 default).conj.dual then x.phaseFlip [0] else x).oddpos
          = b.oddpos := by
    by_cases hd : ((syncIf a).indices.getD 1 default).conj.dual = true
    · have hx' : x = (solveX K (syncIf a) (syncB (syncIf a) b)).phaseFlip [0] := by
        rw [hx, if_pos (by rw [hfA, hd]; rfl)]
      rw [if_pos hd]
      refine ⟨?_, ?_, ?_⟩
      · rw [hx']; exact phaseFlip0_twice _ hXph hXnd
      · rw [(phaseFlip_fields _ [0]).2.2.2.2.1, hx', (phaseFlip_fields _ [0]).2.2.2.2.1]; rfl
      · rw [(phaseFlip_fields _ [0]).2.2.2.2.2, hx', (phaseFlip_fields _ [0]).2.2.2.2.2]; exact g5
    · have hx' : x = solveX K (syncIf a) (syncB (syncIf a) b) := by
        rw [hx, if_neg (by rw [hfA]; simpa using hd)]
      rw [if_neg hd, hx']
      exact ⟨hXph, rfl, g5⟩
  obtain ⟨hb1p, hb1b, hb1o⟩ := hb1
  rw [matmulF_eq_21 a x h2 _ hxi]
  have hb2b := (phaseSync_blocks_nil _ hb1p).trans hb1b
  have ha2b : a.phaseSync.blocks = (syncIf a).blocks := (syncIf_blocks_fermi a hfa).symm
  have hcb := (tdot_blocks_congr ha2b
      (hb2b.trans (show solveBlocks K (syncIf a) (syncB (syncIf a) b)
        = (solveX K (syncIf a) (syncB (syncIf a) b)).blocks from rfl)) [0] [1] [0] []).trans
    (solve_tdot_blocks (K := K) (b := syncB (syncIf a) b) hva' h2')
  have hb2o : (if ((syncIf a).indices.getD 1 default).conj.dual then x.phaseFlip [0]
      else x).phaseSync.oddpos.length ≤ 1 := by
    show (if ((syncIf a).indices.getD 1 default).conj.dual then x.phaseFlip [0] else x).oddpos.length ≤ 1
    rw [hb1o]; exact hbo
  rw [resolve_right _ _ _ (show a.phaseSync.oddpos = [] from hao)
    (show a.phaseSync.parity = false from heven) hb2o]
  refine ⟨_, rfl, hb1o, ?_⟩
  intro s arr hm hbs i hi
  -- the corresponding blocks of the synced operands
  obtain ⟨i0, i1, hidx⟩ := ndim_two h2'
  have hs' : s ∈ (syncIf a).sectors := by rw [f6]; exact List.mem_map.mpr ⟨(s, arr), hm, rfl⟩
  obtain ⟨⟨s', arr'⟩, hm', hs'e⟩ := List.mem_map.mp hs'
  have hs'e' : s' = s := hs'e
  subst hs'e'
  have hshape : arr'.shape = arr.shape := by
    have e1 := (((validB_iff _).mp hva').2.2.2.1 _ arr' hm').2.2.1
    have e2 := (((validB_iff _).mp hva).2.2.2.1 _ arr hm).2.2.1
    rw [f3] at e1
    exact Option.some.inj (e1.symm.trans e2)
  have hbsec : [s'.getD 0 (0, 0)] ∈ (syncB (syncIf a) b).sectors := by
    rw [syncB_sectors]; exact hbs
  obtain ⟨⟨_, bb⟩, hbm, hbe⟩ := List.mem_map.mp hbsec
  have hBnd := sectors_nodup (syncB_valid (syncIf a) b hvb)
  have hl : alookup (syncB (syncIf a) b).blocks [s'.getD 0 (0, 0)] = some bb := by
    apply alookup_of_mem_nodup hBnd
    rw [← hbe]; exact hbm
  obtain ⟨r, c, m, n, B⟩ := mat_block hva' hidx hm'
  have hSol : K.SolvesOn (syncIf a) (syncB (syncIf a) b) :=
    solvesOn_congr (syncIf_blocks_fermi a hfa).symm (syncB_blocks_fermi _ b hfA).symm hS
  have hi' : i < m := by rw [← hshape, B.hshape] at hi; exact hi
  have hval := hSol _ arr' bb hm' hl i (by rw [B.hshape]; exact hi')
  simp only [B.hshape, List.getD_cons_succ, List.getD_cons_zero] at hval
  have hsol := hK.solve arr' bb m n B.hshape B.hwf
  -- the block of the product
  have hkeys : (((syncIf a).blocks.filterMap (fun p =>
      (alookup (syncB (syncIf a) b).blocks [p.1.getD 0 (0, 0)]).map (fun bb =>
        ([p.1.getD 0 (0, 0)], p.2.tensordotK (K.solve p.2 bb) [1] [0])))).map (·.1)).Nodup := by
    apply nodup_filterMap_keys (syncIf a).blocks _ (fun q : Sector × Blk R => q.1)
      (fun p => [p.1.getD 0 (0, 0)])
    · have := rowCharges_nodup hva' h2'
      have h' := nodup_map_of_inj _ (fun c : Charge => [c]) this (fun a _ b _ e => (List.cons.inj e).1)
      simpa [Arr.sectors, List.map_map, Function.comp_def] using h'
    · intro p q hpq
      cases hl' : alookup (syncB (syncIf a) b).blocks [p.1.getD 0 (0, 0)] with
      | none => rw [hl'] at hpq; cases hpq
      | some bb' => rw [hl'] at hpq; cases hpq; rfl
  have hlook := alookup_of_mem_nodup hkeys
    (k := [s'.getD 0 (0, 0)])
    (v := arr'.tensordotK (K.solve arr' bb) [1] [0])
    (by rw [List.mem_filterMap]; exact ⟨(s', arr'), hm', by simp only [hl, Option.map_some]⟩)
  rw [← hcb] at hlook
  rw [← syncB_elem hn0 (syncIf a) b]
  simp only [Arr.elem, hlook, hl, hBph, alookup]
  have hyph : (tensordotBlockwise a.phaseSync
      (if ((syncIf a).indices.getD 1 default).conj.dual then x.phaseFlip [0] else x).phaseSync
      [0] [1] [0] []).phases = [] := rfl
  simp only [hyph, alookup]
  rw [← hval]
  simpa using tensordotK_matvec_get arr' (K.solve arr' bb) B.hshape hsol.1 hi'

end LinalgLemmas
end SymmModel
