/-
  SymmModel.Proofs.Reshape3f — the unbounded planner theorem of C07, part f: assembling the phases.
-/
import SymmModel.Proofs.Reshape3e
namespace SymmModel.Reshape3
open SymmModel SymmModel.Reshape SymmModel.C07

/-! ### dropping the expansion segments -/

def noX (S : List Seg) : List Seg := S.filter (fun a => !a.isX)

theorem noX_cons (a : Seg) (S : List Seg) :
    noX (a :: S) = if a.isX then noX S else a :: noX S := by
  simp only [noX, List.filter_cons]
  cases a.isX <;> simp

theorem flatL_noX (S : List Seg) : flatL (noX S) = flatL S := by
  induction S with
  | nil => rfl
  | cons a S ih => rw [noX_cons]; cases a <;> simp [Seg.isX, ih, Seg.lbl]

theorem flatE_noX (S : List Seg) : flatE (noX S) = flatE S := by
  induction S with
  | nil => rfl
  | cons a S ih => rw [noX_cons]; cases a <;> simp [Seg.isX, ih, Seg.ax]

theorem flatK_noX (S : List Seg) : flatK (noX S) = flatK S := by
  induction S with
  | nil => rfl
  | cons a S ih => rw [noX_cons]; cases a <;> simp [Seg.isX, ih, Seg.outK]

theorem uKeys_noX (S : List Seg) : uKeys (noX S) = uKeys S := by
  induction S with
  | nil => rfl
  | cons a S ih => rw [noX_cons]; cases a <;> simp [Seg.isX, ih, uKeys_cons, Seg.uKey]

theorem uLens_noX (S : List Seg) : uLens (noX S) = uLens S := by
  induction S with
  | nil => rfl
  | cons a S ih => rw [noX_cons]; cases a <;> simp [Seg.isX, ih, uLens_cons, Seg.uLen]

theorem gKeys_noX (S : List Seg) : gKeys (noX S) = gKeys S := by
  induction S with
  | nil => rfl
  | cons a S ih => rw [noX_cons]; cases a <;> simp [Seg.isX, ih, gKeys_cons, Seg.gKey]

theorem mem_noX {S : List Seg} {a : Seg} : a ∈ noX S ↔ a ∈ S ∧ a.isX = false := by
  simp [noX]

/-! ### after the unfuse phase only "o", "s", "g" segments are left -/

theorem unf_osg (S : List Seg) (h : ∀ a ∈ S, a.isX = false) : OSG (unf S) := by
  intro a ha
  simp only [unf, List.mem_flatMap] at ha
  obtain ⟨b, hb, hab⟩ := ha
  have hbx := h b hb
  cases b with
  | x => simp [Seg.isX] at hbx
  | u k d subs =>
    simp only [Seg.unf, List.mem_map] at hab
    obtain ⟨d', _, rfl⟩ := hab; rfl
  | o e => simp only [Seg.unf, List.mem_singleton] at hab; subst hab; rfl
  | s e => simp only [Seg.unf, List.mem_singleton] at hab; subst hab; rfl
  | g k es => simp only [Seg.unf, List.mem_singleton] at hab; subst hab; rfl

theorem mem_unf_g {S : List Seg} {k : Nat} {es : List E} (h : Seg.g k es ∈ unf S) : Seg.g k es ∈ S := by
  rcases mem_unf h with h | ⟨d, h⟩
  · exact h
  · cases h

theorem mem_unf_s {S : List Seg} {e : E} (h : Seg.s e ∈ unf S) : Seg.s e ∈ S := by
  rcases mem_unf h with h | ⟨d, h⟩
  · exact h
  · cases h

theorem flatK_all_o (S : List Seg) (h : OG S) (hg : ∀ k es, Seg.g k es ∉ S) :
    flatK S = SymShape.sizes (flatE S) := by
  induction S with
  | nil => rfl
  | cons a S ih =>
    have ha := h a (by simp)
    have := ih (fun b hb => h b (by simp [hb])) (fun k es hm => hg k es (by simp [hm]))
    cases a with
    | o e => simp [Seg.outK, Seg.ax, this, SymShape.sizes]
    | g k es => exact (hg k es (by simp)).elim
    | s e => simp [Seg.isOG] at ha
    | u _ _ _ => simp [Seg.isOG] at ha
    | x => simp [Seg.isOG] at ha

/-! ### the trailing dimensions -/

theorem flatL_replicate_x (n : Nat) : flatL (List.replicate n Seg.x) = [] := by
  induction n with
  | zero => rfl
  | succ n ih => simp [List.replicate_succ, Seg.lbl, ih]
theorem flatE_replicate_x (n : Nat) : flatE (List.replicate n Seg.x) = [] := by
  induction n with
  | zero => rfl
  | succ n ih => simp [List.replicate_succ, Seg.ax, ih]
theorem flatK_replicate_x (n : Nat) : flatK (List.replicate n Seg.x) = [] := by
  induction n with
  | zero => rfl
  | succ n ih => simp [List.replicate_succ, Seg.outK, ih]
theorem flatA_replicate_x (n : Nat) : flatA (List.replicate n Seg.x) = List.replicate n 1 := by
  induction n with
  | zero => rfl
  | succ n ih => simp [List.replicate_succ, Seg.outA, ih]
theorem flatA_map_s (ses : List E) : flatA (ses.map Seg.s) = [] := by
  induction ses with
  | nil => rfl
  | cons d r ih => simp [Seg.outA, Seg.outK, ih]
theorem uKeys_map_s (ses : List E) : uKeys (ses.map Seg.s) = [] := by
  induction ses with
  | nil => rfl
  | cons d r ih => simp [uKeys_cons, Seg.uKey, ih]
theorem uLens_map_s (ses : List E) : uLens (ses.map Seg.s) = [] := by
  induction ses with
  | nil => rfl
  | cons d r ih => simp [uLens_cons, Seg.uLen, ih]
theorem uKeys_replicate_x (n : Nat) : uKeys (List.replicate n Seg.x) = [] := by
  induction n with
  | zero => rfl
  | succ n ih => simp [List.replicate_succ, uKeys_cons, Seg.uKey, ih]
theorem uLens_replicate_x (n : Nat) : uLens (List.replicate n Seg.x) = [] := by
  induction n with
  | zero => rfl
  | succ n ih => simp [List.replicate_succ, uLens_cons, Seg.uLen, ih]
theorem gKeys_replicate_x (n : Nat) : gKeys (List.replicate n Seg.x) = [] := by
  induction n with
  | zero => rfl
  | succ n ih => simp [List.replicate_succ, gKeys_cons, Seg.gKey, ih]
theorem expPosFrom_map_s (c : Nat) (ses : List E) : expPosFrom c (ses.map Seg.s) = [] := by
  induction ses with
  | nil => rfl
  | cons d r ih => simp [expPosFrom, Seg.outK, ih]
theorem expPosFrom_replicate_x (c n : Nat) : expPosFrom c (List.replicate n Seg.x) = List.replicate n c := by
  induction n with
  | zero => rfl
  | succ n ih => simp [List.replicate_succ, expPosFrom, ih]

theorem eq_replicate_one {l : List Nat} (h : ∀ d ∈ l, d = 1) : l = List.replicate l.length 1 := by
  induction l with
  | nil => rfl
  | cons a l ih =>
    rw [List.length_cons, List.replicate_succ, h a (by simp), ← ih (fun d hd => h d (by simp [hd]))]

/-- **the unbounded planner theorem, general form**: for all shapes, targets and sub-sizes, a plan
    returned by `calc_reshape_args` is certified (`Plan.wfB`: it executes on the symbolic shape —
    axes in range, only fused axes unfused, every fuse call groups consecutive axes — and yields
    exactly `newshape`), provided the dimensions the first loop leaves over on either side all have
    size one (which the code assumes but does not check). -/
theorem planner_wf_of_trailing (shape newshape : List Nat) (subsizes : List (Option (List Nat)))
    (hlen : shape.length = subsizes.length)
    (t : List Nat × List (List (List Nat)) × List Nat)
    (h : calcReshapeArgs shape newshape subsizes = .ok t)
    (htrail : ∀ st, mainLoop shape newshape subsizes (shape.length + newshape.length) {} = .ok st →
      (∀ d ∈ shape.drop st.i, d = 1) ∧ (∀ d ∈ newshape.drop st.j, d = 1)) :
    (Plan.ofTriple t).wfB shape subsizes newshape = true := by
  unfold calcReshapeArgs at h
  split at h
  · cases h
  · rename_i st hst
    obtain ⟨ht1, ht2⟩ := htrail st hst
    obtain ⟨S, hinv, hstop⟩ := mainLoop_inv hlen _ _ _ _ (minv_init shape newshape subsizes) hst
    -- all segments, including the trailing ones
    obtain ⟨T, hT⟩ : ∃ T, T = (shape.zip subsizes).drop st.i := ⟨_, rfl⟩
    obtain ⟨SF, hSF⟩ : ∃ SF, SF = S ++ T.map Seg.s
        ++ List.replicate (newshape.length - st.j) Seg.x := ⟨_, rfl⟩
    have hzl : T.length = shape.length - st.i := by
      rw [hT]; simp [List.length_zip, ← hlen]
    have hTz : (shape.zip subsizes).take st.i ++ T = shape.zip subsizes := by
      rw [hT, List.take_append_drop]
    have hL : flatL SF = st.term ++ List.replicate (shape.length - st.i) Lbl.s := by
      rw [hSF]; simp [flatL_map_s, flatL_replicate_x, hinv.term, hzl]
    have hE : flatE SF = shape.zip subsizes := by
      rw [hSF]; simp [flatE_map_s, flatE_replicate_x, hinv.ax, hTz]
    have hK : flatK SF = flatK S := by
      rw [hSF]; simp [flatK_map_s, flatK_replicate_x]
    have hA : flatA SF = newshape := by
      rw [hSF]
      simp only [flatA_append, flatA_map_s, flatA_replicate_x, hinv.out, List.append_nil]
      have := eq_replicate_one ht2
      rw [List.length_drop] at this
      rw [← this, List.take_append_drop]
    have hX : expPosFrom 0 SF = st.axsExpand ++ List.replicate (newshape.length - st.j) st.k := by
      rw [hSF, expPosFrom_append, expPosFrom_append, expPosFrom_map_s, expPosFrom_replicate_x,
        ← hinv.exp, hinv.k]
      simp [flatK_map_s]
    have hUK : uKeys SF = uKeys S := by
      rw [hSF]; simp [uKeys_map_s, uKeys_replicate_x]
    have hUL : uLens SF = uLens S := by
      rw [hSF]; simp [uLens_map_s, uLens_replicate_x]
    have hGK : gKeys SF = gKeys S := by
      rw [hSF]; simp [gKeys_map_s, gKeys_replicate_x]
    have hGm : ∀ k es, Seg.g k es ∈ SF → Seg.g k es ∈ S := by
      intro k es hm
      rw [hSF] at hm
      simp only [List.mem_append, List.mem_map, List.mem_replicate] at hm
      rcases hm with (hm | ⟨_, _, hm⟩) | ⟨_, hm⟩
      · exact hm
      · cases hm
      · cases hm
    have hS1 : ∀ e, Seg.s e ∈ SF → e.1 = 1 := by
      intro e hm
      rw [hSF] at hm
      simp only [List.mem_append, List.mem_map, List.mem_replicate] at hm
      rcases hm with (hm | ⟨e', he', hm⟩) | ⟨_, hm⟩
      · exact hinv.sone e hm
      · injection hm with hm; subst hm
        apply ht1
        rw [hT] at he'
        have : e'.1 ∈ SymShape.sizes ((shape.zip subsizes).drop st.i) := List.mem_map.mpr ⟨e', he', rfl⟩
        have e2 := sizes_take_drop_zip hlen st.i (shape.length - st.i)
        rw [List.take_of_length_le (by rw [← hT, hzl]; exact Nat.le_refl _),
          List.take_of_length_le (by simp)] at e2
        rwa [e2] at this
      · cases hm
    have hSs : (st.anySingleton || Nat.blt 0 (shape.length - st.i)) = false → ∀ e, Seg.s e ∉ SF := by
      intro hf e hm
      simp only [Bool.or_eq_false_iff] at hf
      have h0 : shape.length - st.i = 0 := by
        by_cases h0 : shape.length - st.i = 0
        · exact h0
        · have : Nat.blt 0 (shape.length - st.i) = true := by
            simp [Nat.blt]; omega
          rw [this] at hf; simp at hf
      rw [hSF] at hm
      simp only [List.mem_append, List.mem_map, List.mem_replicate] at hm
      rcases hm with (hm | ⟨e', he', hm⟩) | ⟨_, hm⟩
      · exact hinv.anyS hf.1 e hm
      · have : T = [] := List.eq_nil_of_length_eq_zero (by rw [hzl]; exact h0)
        rw [this] at he'; simp at he'
      · cases hm
    -- without the expansions
    obtain ⟨S1, hS1def⟩ : ∃ S1, S1 = noX SF := ⟨_, rfl⟩
    have hS1x : ∀ a ∈ S1, a.isX = false := fun a ha => (mem_noX.mp (hS1def ▸ ha)).2
    obtain ⟨axsU, hu1, hu2⟩ := unfuse_phase S1 0 [] [] []
      (by rw [hS1def, uKeys_noX, uLens_noX, hUK, hUL]; exact hinv.uk)
      (by intro a ha; simp at ha) rfl hS1x
    simp only [List.nil_append] at hu1 hu2
    have hterm1 : st.term ++ List.replicate (shape.length - st.i) Lbl.s = flatL S1 := by
      rw [hS1def, flatL_noX, hL]
    have hus1 : st.unfuseSizes = uLens S1 := by rw [hS1def, uLens_noX, hUL]; exact hinv.us
    simp only [] at h
    rw [hterm1, hus1, hu1] at h
    simp only [] at h
    -- the segments after the unfuse phase
    obtain ⟨S2, hS2def⟩ : ∃ S2, S2 = unf S1 := ⟨_, rfl⟩
    rw [← hS2def] at h hu2
    have hO2 : OSG S2 := hS2def ▸ unf_osg S1 hS1x
    have hG2 : GOk st.fuseSizes S2 := by
      refine hinv.gok.congr ?_ ?_
      · rw [hS2def, gKeys_unf, hS1def, gKeys_noX, hGK]
      · intro k es hm
        rw [hS2def] at hm
        have := mem_unf_g hm
        rw [hS1def] at this
        exact hGm k es (mem_noX.mp this).1
    have h12 : SOne S2 := by
      intro e hm
      rw [hS2def] at hm
      have := mem_unf_s hm
      rw [hS1def] at this
      exact hS1 e (mem_noX.mp this).1
    have hK2 : flatK S2 = flatK S := by rw [hS2def, flatK_unf, hS1def, flatK_noX, hK]
    have hs2 : (st.anySingleton || Nat.blt 0 (shape.length - st.i)) = false → ∀ e, Seg.s e ∉ S2 := by
      intro hf e hm
      rw [hS2def] at hm
      have := mem_unf_s hm
      rw [hS1def] at this
      exact hSs hf e (mem_noX.mp this).1
    have hg2 : st.anyFused = false → ∀ k es, Seg.g k es ∉ S2 := by
      intro hf k es hm
      exact hinv.anyF hf k es (hG2.len k es hm |> fun _ => by
        rw [hS2def] at hm
        have := mem_unf_g hm
        rw [hS1def] at this
        exact hGm k es (mem_noX.mp this).1)
    -- the squeeze phase
    split at h
    · cases h
    · rename_i term3 fs3 hsq
      have hsq' : ∃ S3, term3 = flatL S3 ∧ OG S3 ∧ GOk fs3 S3 ∧ flatE S3 = flatE S2 ∧ flatK S3 = flatK S2
          ∧ ((st.anySingleton || Nat.blt 0 (shape.length - st.i)) = false → S3 = S2) := by
        by_cases hany : (st.anySingleton || Nat.blt 0 (shape.length - st.i)) = true
        · rw [if_pos hany] at hsq
          obtain ⟨P', h1', h2', h3', h4', h5'⟩ := squeezePhase_segs S2 _ _ hO2 hG2 h12 hsq
          exact ⟨P', h1', h2', h3', h4', h5', fun hf => by rw [hf] at hany; cases hany⟩
        · rw [if_neg hany] at hsq
          simp only [pure, Except.pure] at hsq
          injection hsq with hsq
          injection hsq with hq1 hq2
          have hf : (st.anySingleton || Nat.blt 0 (shape.length - st.i)) = false :=
            Bool.eq_false_iff.mpr hany
          refine ⟨S2, hq1.symm, ?_, hq2 ▸ hG2, rfl, rfl, fun _ => rfl⟩
          intro a ha
          have := hO2 a ha
          cases a with
          | s e => exact (hs2 hf e ha).elim
          | o e => rfl
          | g k es => rfl
          | u _ _ _ => simp [Seg.isOSG] at this
          | x => simp [Seg.isOSG] at this
      obtain ⟨S3, rfl, hO3, hG3, hE3, hK3, hsame⟩ := hsq'
      -- the fuse phase
      split at h
      · cases h
      · rename_i axsFuse hfu
        simp only [pure, Except.pure] at h
        injection h with h
        have hfu' : ∃ Z, foldOpt symFuse axsFuse (flatE S3) = some Z ∧ SymShape.sizes Z = flatK S3 := by
          by_cases hany : (st.anyFused || (st.anySingleton || Nat.blt 0 (shape.length - st.i))) = true
          · rw [if_pos hany] at hfu
            have := fuseLoop_segs fs3 (2 * (flatL S3).length + 2) [] [] S3 [] axsFuse hO3
              (fun k es hm => hG3.len k es hm) (by simp) (by simpa [cSegs, curOf] using hfu)
            obtain ⟨new, Z, r1, r2, r3⟩ := this
            simp only [List.nil_append] at r1; subst r1
            exact ⟨Z, by simpa [cSegs] using r2, by simpa [cSegs, SymShape.sizes] using r3⟩
          · rw [if_neg hany] at hfu
            simp only [pure, Except.pure] at hfu
            injection hfu with hfu; subst hfu
            have hf : (st.anyFused || (st.anySingleton || Nat.blt 0 (shape.length - st.i))) = false :=
              Bool.eq_false_iff.mpr hany
            simp only [Bool.or_eq_false_iff] at hf
            have hsf : (st.anySingleton || Nat.blt 0 (shape.length - st.i)) = false := by
              simp only [Bool.or_eq_false_iff]; exact hf.2
            have e3 := hsame hsf
            refine ⟨flatE S3, rfl, ?_⟩
            rw [flatK_all_o S3 hO3 (by rw [e3]; exact hg2 hf.1)]
        obtain ⟨Z, hz1, hz2⟩ := hfu'
        -- the expand phase
        obtain ⟨Y, hy1, hy2⟩ := expand_phase SF [] Z (by rw [hz2, hK3, hK2, hK])
        simp only [List.nil_append, List.length_nil] at hy1
        rw [wfB_iff]
        refine ⟨hlen, Y, ?_, by rw [hy2, hA]⟩
        rw [← h]
        simp only [Plan.exec, Plan.ofTriple]
        have hE1 : flatE S1 = shape.zip subsizes := by rw [hS1def, flatE_noX, hE]
        rw [← hE1, hu2]
        simp only []
        rw [← hE3, hz1]
        simp only []
        rw [← hX]
        exact hy1

end SymmModel.Reshape3
