/-
  SymmModel.Proofs.FuseMultiR1 — generic list lemmas for the general round trip: a list whose last
  `j` group positions have been expanded into segments; un-permuting a multi-index.
-/
import SymmModel.Proofs.FuseMultiU
namespace SymmModel
namespace FuseP
set_option linter.unusedSectionVars false

variable {R : Type}

/-! ### partially expanded lists -/

section PartG
variable {α : Type} (L : List α) (seg : Nat → List α) (pos k : Nat)

/-- the part behind the still-collapsed group positions: segments of the last `j` groups, then the
    back part of `L` -/
def tailG : Nat → List α
  | 0 => L.drop (pos + k)
  | j + 1 => seg (k - (j + 1)) ++ tailG j

/-- `L` with its last `j` group positions expanded -/
def partG (j : Nat) : List α := L.take (pos + k - j) ++ tailG L seg pos k j

theorem partG_zero : partG L seg pos k 0 = L := by
  simp [partG, tailG]

variable {L seg pos k}

theorem partG_succ {j : Nat} (hj : j < k) (hl : pos + k ≤ L.length) :
    partG L seg pos k (j + 1) = replaceWithSeq (partG L seg pos k j) (pos + (k - (j + 1))) (seg (k - (j + 1))) := by
  have hp : pos + k - j = pos + (k - (j + 1)) + 1 := by omega
  have hp' : pos + k - (j + 1) = pos + (k - (j + 1)) := by omega
  have hlen : (L.take (pos + (k - (j + 1)) + 1)).length = pos + (k - (j + 1)) + 1 := by
    rw [List.length_take]; omega
  simp only [partG, tailG, replaceWithSeq_split, hp', hp]
  have e1 : (L.take (pos + (k - (j + 1)) + 1) ++ tailG L seg pos k j).take (pos + (k - (j + 1)))
      = L.take (pos + (k - (j + 1))) := by
    rw [List.take_append_of_le_length (by rw [hlen]; omega), List.take_take, Nat.min_eq_left (by omega)]
  have e2 : (L.take (pos + (k - (j + 1)) + 1) ++ tailG L seg pos k j).drop (pos + (k - (j + 1)) + 1)
      = tailG L seg pos k j := List.drop_left' hlen
  rw [e1, e2, List.append_assoc]

theorem partG_length_take {j : Nat} (hj : j ≤ k) (hl : pos + k ≤ L.length) :
    (L.take (pos + k - j)).length = pos + k - j := by
  rw [List.length_take]; omega

theorem partG_getD_low {j x : Nat} (d : α) (hj : j ≤ k) (hl : pos + k ≤ L.length) (hx : x < pos + k - j) :
    (partG L seg pos k j).getD x d = L.getD x d := by
  simp only [partG]
  rw [getD_before _ _ _ _ (by rw [partG_length_take hj hl]; exact hx)]
  simp [List.getD_eq_getElem?_getD, hx]

theorem partG_take {j : Nat} (hj : j < k) (hl : pos + k ≤ L.length) :
    (partG L seg pos k j).take (pos + (k - (j + 1))) = L.take (pos + (k - (j + 1))) := by
  simp only [partG]
  rw [List.take_append_of_le_length (by rw [partG_length_take (Nat.le_of_lt hj) hl]; omega), List.take_take,
    Nat.min_eq_left (by omega)]

theorem partG_drop {j : Nat} (hj : j < k) (hl : pos + k ≤ L.length) :
    (partG L seg pos k j).drop (pos + (k - (j + 1)) + 1) = tailG L seg pos k j := by
  simp only [partG]
  have : pos + (k - (j + 1)) + 1 = (L.take (pos + k - j)).length := by
    rw [partG_length_take (Nat.le_of_lt hj) hl]; omega
  rw [this, List.drop_left']
  rfl

theorem partG_length {j : Nat} (hj : j ≤ k) (hl : pos + k ≤ L.length) :
    (partG L seg pos k j).length = pos + k - j + (tailG L seg pos k j).length := by
  simp only [partG, List.length_append, partG_length_take hj hl]

/-- an expansion by the one-element segment holding the current entry changes nothing -/
theorem partG_single {j : Nat} (d : α) (hj : j < k) (hl : pos + k ≤ L.length)
    (h : seg (k - (j + 1)) = [L.getD (pos + (k - (j + 1))) d]) :
    partG L seg pos k (j + 1) = partG L seg pos k j := by
  have hp : pos + k - j = pos + (k - (j + 1)) + 1 := by omega
  have hp' : pos + k - (j + 1) = pos + (k - (j + 1)) := by omega
  simp only [partG, tailG, hp', h, hp]
  have hlt : pos + (k - (j + 1)) < L.length := by omega
  simp only [List.getD_eq_getElem?_getD, List.getElem?_eq_getElem hlt, Option.getD_some]
  rw [← List.take_append_getElem hlt, List.append_assoc]

theorem tailG_closed {j : Nat} (hj : j ≤ k) :
    tailG L seg pos k j = ((List.range j).map (fun t => seg (k - j + t))).flatten ++ L.drop (pos + k) := by
  induction j with
  | zero => simp [tailG]
  | succ j ih =>
    simp only [tailG]
    have e : (List.range j).map (fun t => seg (k - j + t))
        = (List.range j).map ((fun t => seg (k - (j + 1) + t)) ∘ Nat.succ) := by
      apply List.map_congr_left
      intro t _
      simp only [Function.comp]
      congr 1; omega
    rw [ih (by omega), List.range_succ_eq_map, List.map_cons, List.map_map, List.flatten_cons, List.append_assoc, e]
    rfl

theorem partG_full : partG L seg pos k k
    = L.take pos ++ ((List.range k).map seg).flatten ++ L.drop (pos + k) := by
  simp only [partG, tailG_closed (Nat.le_refl k), Nat.add_sub_cancel, Nat.sub_self, Nat.zero_add,
    List.append_assoc]

end PartG

/-! ### boxes of partially expanded lists -/

theorem inBox_take {s i : List Nat} (h : inBox s i = true) (n : Nat) : inBox (s.take n) (i.take n) = true := by
  induction s generalizing i n with
  | nil => cases i <;> simp_all [inBox]
  | cons d ds ih =>
    cases i with
    | nil => simp [inBox] at h
    | cons x xs =>
      cases n with
      | zero => rfl
      | succ n =>
        simp only [inBox_cons] at h
        simp only [List.take_succ_cons, inBox_cons]
        exact ⟨h.1, ih h.2 n⟩

theorem inBox_drop {s i : List Nat} (h : inBox s i = true) (n : Nat) : inBox (s.drop n) (i.drop n) = true := by
  induction s generalizing i n with
  | nil => cases i <;> simp_all [inBox]
  | cons d ds ih =>
    cases i with
    | nil => simp [inBox] at h
    | cons x xs =>
      cases n with
      | zero => exact h
      | succ n =>
        simp only [inBox_cons] at h
        simp only [List.drop_succ_cons]
        exact ih h.2 n

theorem tailG_inBox {S I : List Nat} {ms og : Nat → List Nat} {pos k : Nat} (h : inBox S I = true)
    (hg : ∀ g, g < k → inBox (ms g) (og g) = true) {j : Nat} (hj : j ≤ k) :
    inBox (tailG S ms pos k j) (tailG I og pos k j) = true := by
  induction j with
  | zero => exact inBox_drop h _
  | succ j ih =>
    simp only [tailG]
    rw [inBox_append (inBox_length (hg _ (by omega))), hg _ (by omega), ih (by omega)]
    rfl

theorem partG_inBox {S I : List Nat} {ms og : Nat → List Nat} {pos k : Nat} (h : inBox S I = true)
    (hg : ∀ g, g < k → inBox (ms g) (og g) = true) {j : Nat} (hj : j ≤ k) :
    inBox (partG S ms pos k j) (partG I og pos k j) = true := by
  simp only [partG]
  rw [inBox_append (by simp [inBox_length h]), inBox_take h, tailG_inBox h hg hj]
  rfl

/-! ### un-permuting -/

theorem indexOf?_getElem_nodup {perm : List Nat} (hnd : perm.Nodup) {t : Nat} (ht : t < perm.length) :
    indexOf? perm perm[t] = some t := by
  induction perm generalizing t with
  | nil => simp at ht
  | cons x xs ih =>
    rw [List.nodup_cons] at hnd
    cases t with
    | zero => simp [indexOf?]
    | succ t =>
      simp only [List.getElem_cons_succ, indexOf?]
      have hlt : t < xs.length := by simpa using ht
      have hne : (x == xs[t]) = false := by
        cases hb : x == xs[t]
        · rfl
        · exact absurd (by rw [eq_of_beq hb]; exact List.getElem_mem hlt) hnd.1
      simp [hne, ih hnd.2 hlt]

/-- every multi-index of the transposed box is the permuted image of one of the original box -/
theorem exists_unpermute {perm shp J : List Nat} {n : Nat} (hnd : perm.Nodup) (hpl : perm.length = n)
    (hlt : ∀ p ∈ perm, p < n) (hcover : ∀ ax, ax < n → ax ∈ perm) (hs : shp.length = n)
    (hJ : inBox (permuted shp perm) J = true) :
    ∃ offs, offs.length = n ∧ permuted offs perm = J ∧ inBox shp offs = true := by
  have hJl : J.length = n := by
    rw [inBox_length hJ, permuted_length _ _ (by rw [hs]; exact hlt), hpl]
  have hJb := (inBox_iff.1 hJ).2
  rw [permuted_length _ _ (by rw [hs]; exact hlt), hpl] at hJb
  refine ⟨(List.range n).map (fun ax => J.getD ((indexOf? perm ax).getD 0) 0), by simp, ?_, ?_⟩
  · rw [permuted_eq_map _ 0 _ (by simpa using hlt)]
    apply List.ext_getElem (by simp [hpl, hJl])
    intro t h1 h2
    simp only [List.length_map] at h1
    simp only [List.getElem_map]
    rw [getD_range_map _ _ _ _ (hlt _ (List.getElem_mem h1)), indexOf?_getElem_nodup hnd h1]
    simp [List.getD_eq_getElem?_getD, List.getElem?_eq_getElem h2]
  · rw [inBox_iff]
    refine ⟨by simp [hs], ?_⟩
    intro ax hax
    rw [hs] at hax
    rw [getD_range_map _ _ _ _ hax]
    obtain ⟨t, ht1, ht2⟩ := indexOf?_of_mem (hcover ax hax)
    have htl := getElem?_lt ht2
    rw [ht1]
    simp only [Option.getD_some]
    have := hJb t (by omega)
    rw [permuted_eq_map _ 0 _ (by rw [hs]; exact hlt)] at this
    simp only [List.getD_eq_getElem?_getD, List.getElem?_map, ht2, Option.map_some, Option.getD_some] at this
    simpa [List.getD_eq_getElem?_getD] using this

theorem allZero_of_get [Zero R] {V : Blk R} (hw : V.wf = true) (h : ∀ J, inBox V.shape J = true → V.get J = 0) :
    AllZero V := by
  rw [← ofFn_get_self V hw]
  exact ofFn_allZero h

end FuseP
end SymmModel
