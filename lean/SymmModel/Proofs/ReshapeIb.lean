/-
  SymmModel.Proofs.ReshapeIb — the TOTAL element statement of the fermionic `reshape` along a plan
  with several fuse calls.  Every stored address `(ns, i)` of the result either
    * pulls back through all calls to a STORED address `(s, o)` of the input (`Pulled`, all
      intermediate addresses stored) and carries `± a.elem s o` (product of the fuse signs), or
    * lies in a zero-filled part of a fused block: the pull-back through the last calls reaches an
      array (the input or an intermediate one) that does not store the sector reached (`ZeroAt`);
      then the value is 0.
-/
import SymmModel.Proofs.ReshapeIa
namespace SymmModel.ReshapeI
open SymmModel SymmModel.Reshape SymmModel.C07 SymmModel.Reshape5 SymmModel.ReshapeH ReshapeP FuseP
open SymmModel.Lazy
set_option linter.unusedSectionVars false

variable {R : Type} [Zero R] [Neg R] [LawfulNeg R]

/-- `(s, o)` is a stored address: the sector has a block and the offsets lie in its box -/
def Stored (a : Arr R) (s : Sector) (o : List Nat) : Prop :=
  ∃ b, alookup a.blocks s = some b ∧ inBox b.shape o = true

/-- the calls of a plan, one after the other, each with the boxed one-call statement -/
def ElemChainB : Arr R → List (List (List Nat)) → Nat → Arr R → Prop
  | a, [], _, y => y = a
  | a, G :: rest, lb, y => ∃ P y1, CallOk G P lb a.ndim ∧ fuseDispatch a G = .ok y1
      ∧ y1.validB = true ∧ y1.fermi = true ∧ y1.ndim = a.ndim - G.flatten.length + G.length
      ∧ ElemStepB a y1 G P ∧ ElemChainB y1 rest (P + G.length) y

/-- the address `(ns, i)` of `y` lies in a zero-filled part: pulled back through the calls `rest'` of
    some split `calls = done ++ G :: rest'` (all intermediate addresses stored) and then through
    `G`, it reaches a sector that the array `G` was applied to does not store -/
def ZeroAt : Arr R → List (List (List Nat)) → Nat → Arr R → Sector → List Nat → Prop
  | _, [], _, _, _, _ => False
  | a, G :: rest, lb, y, ns, i => ∃ P y1, CallOk G P lb a.ndim ∧ fuseDispatch a G = .ok y1
      ∧ (ZeroAt y1 rest (P + G.length) y ns i
          ∨ ∃ s o σ, Pulled a (G :: rest) lb y ns i s o σ ∧ alookup a.blocks s = none)

theorem elem_chainB : ∀ (calls : List (List (List Nat))) (a : Arr R) (lb : Nat), a.validB = true →
    a.fermi = true → CallsOk calls lb a.ndim →
    ∃ y, calls.foldlM fuseDispatch a = .ok y ∧ y.validB = true ∧ y.fermi = true ∧ ElemChainB a calls lb y := by
  intro calls
  induction calls with
  | nil => intro a lb hv hf _; exact ⟨a, rfl, hv, hf, rfl⟩
  | cons G rest ih =>
    intro a lb hv hf hc
    obtain ⟨P, hc1, hc2⟩ := hc
    obtain ⟨y1, hy1, hv1, hf1, hnd, _⟩ := elem_step a G P lb hv hf hc1
    obtain ⟨y1', hy1', hel⟩ := forward_elem_call_box a G P lb hv hf hc1
    rw [hy1] at hy1'; injection hy1' with hy1'; subst hy1'
    rw [← hnd] at hc2
    obtain ⟨y, hy, hvy, hfy, hch⟩ := ih y1 (P + G.length) hv1 hf1 hc2
    exact ⟨y, by rw [List.foldlM_cons, hy1]; exact hy, hvy, hfy, P, y1, hc1, hy1, hv1, hf1, hnd, hel, hch⟩

theorem elem_none (a : Arr R) (s : Sector) (o : List Nat) (h : alookup a.blocks s = none) :
    a.elem s o = 0 := by
  simp [Arr.elem, h]

/-- **the total end-to-end statement** -/
theorem elemChainB_total : ∀ (calls : List (List (List Nat))) (a y : Arr R) (lb : Nat),
    ElemChainB a calls lb y → ∀ ns i, Stored y ns i →
    (∃ s o σ, Pulled a calls lb y ns i s o σ ∧ Stored a s o ∧ y.elem ns i = sgnI σ (a.elem s o))
    ∨ (ZeroAt a calls lb y ns i ∧ y.elem ns i = 0) := by
  intro calls
  induction calls with
  | nil =>
    intro a y lb hch ns i hst
    have : y = a := hch
    subst this
    exact Or.inl ⟨ns, i, 1, ⟨rfl, rfl, rfl⟩, hst, by simp⟩
  | cons G rest ih =>
    intro a y lb hch ns i hst
    obtain ⟨P, y1, hc, hy1, _, _, _, hel, hrest⟩ := hch
    rcases ih y1 y (P + G.length) hrest ns i hst with ⟨s1, o1, σ1, hpr, ⟨B1, hB1, hin⟩, hval1⟩ | ⟨hz, h0⟩
    · obtain ⟨segs, hsl, hsp, hKl, hJl, hval, hbox⟩ := hel s1 B1 hB1 o1 hin
      have hP : Pulled a (G :: rest) lb y ns i
          (s1.take P ++ (segs.map (·.1)).flatten ++ s1.drop (P + G.length))
          (o1.take P ++ (segs.map (·.2)).flatten ++ o1.drop (P + G.length))
          (σ1 * fuseSignT a G (s1.take P ++ (segs.map (·.1)).flatten ++ s1.drop (P + G.length))) :=
        ⟨P, y1, s1, o1, σ1, B1, segs, hc, hy1, hpr, hB1, hin, hsl, hsp, hKl, hJl, rfl, rfl, rfl⟩
      have hv : y.elem ns i = sgnI (σ1 * fuseSignT a G
            (s1.take P ++ (segs.map (·.1)).flatten ++ s1.drop (P + G.length)))
          (a.elem (s1.take P ++ (segs.map (·.1)).flatten ++ s1.drop (P + G.length))
            (o1.take P ++ (segs.map (·.2)).flatten ++ o1.drop (P + G.length))) := by
        rw [hval1, hval, sgnI_mul (pulled_pm rest y1 y _ ns i s1 o1 σ1 hpr) (fuseSignT_pm a G _)]
      cases hb : alookup a.blocks (s1.take P ++ (segs.map (·.1)).flatten ++ s1.drop (P + G.length)) with
      | some b => exact Or.inl ⟨_, _, _, hP, ⟨b, hb, hbox b hb⟩, hv⟩
      | none =>
        refine Or.inr ⟨⟨P, y1, hc, hy1, Or.inr ⟨_, _, _, hP, hb⟩⟩, ?_⟩
        rw [hv, elem_none a _ _ hb, sgnI_zero]
    · exact Or.inr ⟨⟨P, y1, hc, hy1, Or.inl hz⟩, h0⟩

/-- `Pulled` is a partial FUNCTION of the address of the result -/
theorem pulled_unique : ∀ (calls : List (List (List Nat))) (a y : Arr R) (lb : Nat) ns i s o σ s' o' σ',
    Pulled a calls lb y ns i s o σ → Pulled a calls lb y ns i s' o' σ' → s = s' ∧ o = o' ∧ σ = σ' := by
  intro calls
  induction calls with
  | nil =>
    intro a y lb ns i s o σ s' o' σ' h h'
    obtain ⟨rfl, rfl, rfl⟩ := h
    obtain ⟨rfl, rfl, rfl⟩ := h'
    exact ⟨rfl, rfl, rfl⟩
  | cons G rest ih =>
    intro a y lb ns i s o σ s' o' σ' h h'
    obtain ⟨P, y1, s1, o1, σ1, B1, segs, hc, hy1, hpr, _, _, hsl, hsp, _, _, hse, hoe, hσ⟩ := h
    obtain ⟨P', y1', s1', o1', σ1', B1', segs', hc', hy1', hpr', _, _, hsl', hsp', _, _, hse', hoe', hσ'⟩ := h'
    rw [hy1] at hy1'; injection hy1' with hy1'; subst hy1'
    have hPP : P = P' := by
      have h1 := hc.flat
      have h2 := hc'.flat
      rw [h1] at h2
      exact range'_inj_start (flatten_pos hc.ne hc.two) h2
    subst hPP
    obtain ⟨rfl, rfl, rfl⟩ := ih y1 y _ ns i s1 o1 σ1 s1' o1' σ1' hpr hpr'
    have hsegs : segs = segs' := splitAddr_segs_unique (f := fun g =>
      splitAddr (y1.indices.getD (P + g) default) (s1.getD (P + g) (0, 0)) (o1.getD (P + g) 0))
      hsl hsl' hsp hsp'
    subst hsegs
    subst hse; subst hse'; subst hoe; subst hoe'
    exact ⟨rfl, rfl, by rw [hσ, hσ']⟩

/-- the two cases of the total statement exclude each other -/
theorem zeroAt_not_pulled : ∀ (calls : List (List (List Nat))) (a y : Arr R) (lb : Nat) ns i,
    ZeroAt a calls lb y ns i → ∀ s o σ, Pulled a calls lb y ns i s o σ → alookup a.blocks s = none := by
  intro calls
  induction calls with
  | nil => intro a y lb ns i hz; exact hz.elim
  | cons G rest ih =>
    intro a y lb ns i hz s o σ hp
    obtain ⟨P, y1, hc, hy1, hz⟩ := hz
    rcases hz with hz | ⟨s', o', σ', hp', hnone⟩
    · obtain ⟨P', y1', s1, o1, σ1, B1, segs, hc', hy1', hpr, hB1, _⟩ := hp
      rw [hy1] at hy1'; injection hy1' with hy1'; subst hy1'
      have hPP : P = P' := by
        have h1 := hc.flat
        have h2 := hc'.flat
        rw [h1] at h2
        exact range'_inj_start (flatten_pos hc.ne hc.two) h2
      subst hPP
      have := ih y1 y _ ns i hz s1 o1 σ1 hpr
      rw [this] at hB1; cases hB1
    · obtain ⟨rfl, _, _⟩ := pulled_unique (G :: rest) a y lb ns i s o σ s' o' σ' hp hp'
      exact hnone

end SymmModel.ReshapeI
