/-
  SymmModel.Proofs.Fuse4Sign — the reversal part of the fermionic fuse sign factorises over the
  dual groups: the Koszul sign of the virtual permutation `vpermF` (reverse every dual group) is the
  product over the dual groups of `(-1)^(k(k-1)/2)`, `k` = number of odd charges on the group.
-/
import SymmModel.Proofs.Koszul
import SymmModel.Proofs.FuseFermi7
namespace SymmModel
namespace FuseP
set_option linter.unusedSectionVars false
open SymmModel.KoszulP

variable {R : Type}

/-- reversal sign of a block of axes: `(-1)^(k(k-1)/2)` for `k` odd entries -/
def revSign (par : List Bool) (g : List Nat) : Int := sgn (oddCount par g * (oddCount par g - 1) / 2)

/-- product of the reversal signs of the selected blocks -/
def revProd (par : List Bool) (sel : List Nat → Bool) : List (List Nat) → Int
  | [] => 1
  | g :: rest => (if sel g then revSign par g else 1) * revProd par sel rest

/-- reversing selected blocks of a permutation multiplies the Koszul sign by the product of the
    blocks' reversal signs -/
theorem koszul_reverse_blocks (par : List Bool) (sel : List Nat → Bool) (bl : List (List Nat)) (xs ys : List Nat)
    (n : Nat) (h : (xs ++ bl.flatten ++ ys).Perm (List.range n)) :
    koszul par (some (xs ++ (bl.map (fun g => if sel g then g.reverse else g)).flatten ++ ys))
      = koszul par (some (xs ++ bl.flatten ++ ys)) * revProd par sel bl := by
  induction bl generalizing xs with
  | nil => simp [revProd]
  | cons g rest ih =>
    simp only [List.map_cons, List.flatten_cons, revProd]
    have hperm' : (xs ++ (if sel g then g.reverse else g) ++ rest.flatten ++ ys).Perm (List.range n) := by
      refine List.Perm.trans ?_ h
      simp only [List.flatten_cons, List.append_assoc]
      apply List.Perm.append_left
      apply List.Perm.append_right
      split
      · exact List.reverse_perm g
      · exact List.Perm.refl _
    have h1 := ih (xs ++ (if sel g then g.reverse else g)) hperm'
    have e1 : xs ++ ((if sel g then g.reverse else g)
        ++ (rest.map (fun g => if sel g then g.reverse else g)).flatten) ++ ys
        = xs ++ (if sel g then g.reverse else g)
          ++ (rest.map (fun g => if sel g then g.reverse else g)).flatten ++ ys := by
      simp [List.append_assoc]
    rw [e1, h1]
    by_cases hs : sel g = true
    · simp only [hs, if_true]
      have h2 := koszul_reverse_block par xs g (rest.flatten ++ ys) n (by
        simpa [List.append_assoc] using h)
      have e2 : xs ++ g.reverse ++ rest.flatten ++ ys = xs ++ g.reverse ++ (rest.flatten ++ ys) := by
        simp [List.append_assoc]
      have e3 : xs ++ (g ++ rest.flatten) ++ ys = xs ++ g ++ (rest.flatten ++ ys) := by
        simp [List.append_assoc]
      rw [e2, h2, e3]
      simp only [revSign, Int.mul_assoc]
    · have hs' : sel g = false := by simpa using hs
      simp only [hs', Bool.false_eq_true, if_false, Int.one_mul]
      simp [List.append_assoc]

/-! ### `vpermF` is the identity with the dual groups reversed -/

theorem mem_unique_of_nodup_flatten {L : List (List Nat)} (h : L.flatten.Nodup) {g g' : List Nat}
    (hg : g ∈ L) (hg' : g' ∈ L) {ax : Nat} (h1 : ax ∈ g) (h2 : ax ∈ g') : g = g' := by
  induction L with
  | nil => cases hg
  | cons x xs ih =>
    simp only [List.flatten_cons, List.nodup_append] at h
    rcases List.mem_cons.1 hg with e1 | hg1
    · rcases List.mem_cons.1 hg' with e2 | hg2
      · rw [e1, e2]
      · subst e1
        exact absurd rfl (h.2.2 ax h1 ax (List.mem_flatten.2 ⟨g', hg2, h2⟩))
    · rcases List.mem_cons.1 hg' with e2 | hg2
      · subst e2
        exact absurd rfl (h.2.2 ax h2 ax (List.mem_flatten.2 ⟨g, hg1, h1⟩))
      · exact ih h.2.1 hg1 hg2

theorem find?_dual {L : List (List Nat)} (hnd : L.flatten.Nodup) (dual : List Nat → Bool) {g : List Nat}
    (hg : g ∈ L) {ax : Nat} (hax : ax ∈ g) :
    (L.filter dual).find? (fun g' => g'.contains ax) = if dual g then some g else none := by
  split
  · rename_i hd
    cases hf : (L.filter dual).find? (fun g' => g'.contains ax) with
    | none =>
      rw [List.find?_eq_none] at hf
      exact absurd (by simpa using hax) (hf g (List.mem_filter.2 ⟨hg, hd⟩))
    | some g' =>
      have hm := List.mem_of_find?_eq_some hf
      have hc := List.find?_some hf
      simp only [List.contains_eq_mem, decide_eq_true_eq] at hc
      rw [mem_unique_of_nodup_flatten hnd (List.mem_filter.1 hm).1 hg hc hax]
  · rename_i hd
    rw [List.find?_eq_none]
    intro g' hg' hc
    simp only [List.contains_eq_mem, decide_eq_true_eq] at hc
    have := mem_unique_of_nodup_flatten hnd (List.mem_filter.1 hg').1 hg hc hax
    subst this
    exact hd (List.mem_filter.1 hg').2

theorem map_reverse_index {g : List Nat} (hnd : g.Nodup) :
    g.map (fun ax => match indexOf? g ax with
      | some k => g.reverse.getD k ax
      | none => ax) = g.reverse := by
  apply List.ext_getElem (by simp)
  intro k h1 h2
  simp only [List.length_map] at h1
  simp only [List.getElem_map, indexOf?_getElem_nodup hnd h1]
  simp only [List.length_reverse] at h2
  simp [List.getD_eq_getElem?_getD, List.getElem?_eq_getElem (show k < g.reverse.length by simpa using h1)]

/-- the function tabulated by `vpermF` -/
def vfun (D : List (List Nat)) (ax : Nat) : Nat :=
  match D.find? (fun g => g.contains ax) with
  | some g => match indexOf? g ax with
              | some k => g.reverse.getD k ax
              | none => ax
  | none => ax

theorem vfun_block {L : List (List Nat)} (hnd : L.flatten.Nodup) (dual : List Nat → Bool) {g : List Nat}
    (hg : g ∈ L) : g.map (vfun (L.filter dual)) = if dual g then g.reverse else g := by
  have hgn : g.Nodup := (List.nodup_flatten.1 hnd).1 g hg
  have : g.map (vfun (L.filter dual)) = g.map (fun ax => if dual g then
      (match indexOf? g ax with
        | some k => g.reverse.getD k ax
        | none => ax) else ax) := by
    apply List.map_congr_left
    intro ax hax
    simp only [vfun, find?_dual hnd dual hg hax]
    by_cases hd : dual g = true
    · simp only [hd, if_true]
    · simp only [hd, Bool.false_eq_true, if_false]
  rw [this]
  split
  · exact map_reverse_index hgn
  · simp

theorem vfun_outside {L : List (List Nat)} (dual : List Nat → Bool) {ax : Nat} (h : ax ∉ L.flatten) :
    vfun (L.filter dual) ax = ax := by
  have : (L.filter dual).find? (fun g => g.contains ax) = none := by
    rw [List.find?_eq_none]
    intro g hg hc
    simp only [List.contains_eq_mem, decide_eq_true_eq] at hc
    exact h (List.mem_flatten.2 ⟨g, (List.mem_filter.1 hg).1, hc⟩)
  simp only [vfun, this]

/-- a permutation of `0 … n-1` given as (front) ++ (consecutive blocks) ++ (back), mapped by
    `vfun`: the selected blocks are reversed, the rest is untouched -/
theorem map_vfun_blocks {L : List (List Nat)} (hnd : L.flatten.Nodup) (dual : List Nat → Bool) (xs ys : List Nat)
    (hx : ∀ x ∈ xs, x ∉ L.flatten) (hy : ∀ y ∈ ys, y ∉ L.flatten) :
    (xs ++ L.flatten ++ ys).map (vfun (L.filter dual))
      = xs ++ (L.map (fun g => if dual g then g.reverse else g)).flatten ++ ys := by
  rw [List.map_append, List.map_append, List.map_flatten]
  congr 1
  · congr 1
    · conv_rhs => rw [← List.map_id xs]
      exact List.map_congr_left (fun x hxm => vfun_outside dual (hx x hxm))
    · congr 1
      apply List.map_congr_left
      intro g hg
      exact vfun_block hnd dual hg
  · conv_rhs => rw [← List.map_id ys]
    exact List.map_congr_left (fun y hym => vfun_outside dual (hy y hym))

end FuseP
end SymmModel
