/-
  SymmModel.Proofs.ReshapeJb — the element BIJECTION of the abelian `reshape` along a plan of fuse calls
  (`ElemBijA`: total, onto, injective, functional, the two cases exclusive; values EQUAL, no sign), for
  both fuse strategies, and the "only if" half: every stored block of the result contains a whole
  stored block of the input (`src_chain_A`).  `Pulled` / `ZeroAt` / `Stored` are those of the fermionic
  development (ReshapeHd / ReshapeIb); the sign component `σ` of `Pulled` plays no role here.
-/
import SymmModel.Proofs.ReshapeJa
namespace SymmModel.ReshapeJ
open SymmModel SymmModel.Reshape SymmModel.C07 SymmModel.Reshape5 SymmModel.ReshapeH SymmModel.ReshapeI
open ReshapeP FuseP SymmModel.Lazy
set_option linter.unusedSectionVars false

variable {R : Type} [Zero R] [Neg R] [LawfulNeg R]

/-- the calls of a plan, one after the other, each with the one-call statements (abelian) -/
def ElemChainA : Arr R → List (List (List Nat)) → Nat → Arr R → Prop
  | a, [], _, y => y = a
  | a, G :: rest, lb, y => ∃ P y1, CallOk G P lb a.ndim ∧ fuseDispatch a G = .ok y1
      ∧ a.validB = true ∧ y1.validB = true ∧ y1.fermi = false
      ∧ y1.ndim = a.ndim - G.flatten.length + G.length
      ∧ ElemStepA a y1 G P ∧ OntoStepA a y1 G P ∧ SrcStepA a y1 G P ∧ ElemChainA y1 rest (P + G.length) y

/-- **every plan of fuse calls on a valid abelian array succeeds — with either strategy, same result —
    and the chain of one-call statements holds** -/
theorem elem_chainA : ∀ (calls : List (List (List Nat))) (a : Arr R) (lb : Nat), a.validB = true →
    a.fermi = false → CallsOk calls lb a.ndim →
    ∃ y, calls.foldlM fuseDispatch a = .ok y
      ∧ (∀ (m : FuseMode) (e : Bool), calls.foldlM (fun x G => fuseA x G m e) a = .ok y)
      ∧ y.validB = true ∧ y.fermi = false ∧ ElemChainA a calls lb y := by
  intro calls
  induction calls with
  | nil => intro a lb hv hf _; exact ⟨a, rfl, fun _ _ => rfl, hv, hf, rfl⟩
  | cons G rest ih =>
    intro a lb hv hf hc
    obtain ⟨P, hc1, hc2⟩ := hc
    obtain ⟨hy1, hall, hv1, hf1, hnd⟩ := fuse_call_A a G P lb hv hf hc1
    rw [← hnd] at hc2
    obtain ⟨y, hy, hym, hvy, hfy, hch⟩ := ih (fusedArrM a G) (P + G.length) hv1 hf1 hc2
    refine ⟨y, by rw [List.foldlM_cons, hy1]; exact hy, ?_, hvy, hfy, P, fusedArrM a G, hc1, hy1, hv, hv1, hf1,
      hnd, elem_call_A a G P lb hv hf hc1, onto_call_A a G P lb hv hc1, src_call_A a G P lb hv hc1, hch⟩
    intro m e
    rw [List.foldlM_cons, hall m e]
    exact hym m e

/-- **total**: every stored address of the result pulls back to a stored address of the input with
    the SAME value, or is zero-filled -/
theorem elemChainA_total : ∀ (calls : List (List (List Nat))) (a y : Arr R) (lb : Nat),
    ElemChainA a calls lb y → ∀ ns i, Stored y ns i →
    (∃ s o σ, Pulled a calls lb y ns i s o σ ∧ Stored a s o ∧ y.elem ns i = a.elem s o)
    ∨ (ZeroAt a calls lb y ns i ∧ y.elem ns i = 0) := by
  intro calls
  induction calls with
  | nil =>
    intro a y lb hch ns i hst
    have : y = a := hch
    subst this
    exact Or.inl ⟨ns, i, 1, ⟨rfl, rfl, rfl⟩, hst, rfl⟩
  | cons G rest ih =>
    intro a y lb hch ns i hst
    obtain ⟨P, y1, hc, hy1, _, _, _, _, hel, _, _, hrest⟩ := hch
    rcases ih y1 y (P + G.length) hrest ns i hst with ⟨s1, o1, σ1, hpr, ⟨B1, hB1, hin⟩, hval1⟩ | ⟨hz, h0⟩
    · obtain ⟨segs, hsl, hsp, hKl, hJl, hval, hbox⟩ := hel s1 B1 hB1 o1 hin
      have hP : Pulled a (G :: rest) lb y ns i
          (s1.take P ++ (segs.map (·.1)).flatten ++ s1.drop (P + G.length))
          (o1.take P ++ (segs.map (·.2)).flatten ++ o1.drop (P + G.length))
          (σ1 * fuseSignT a G (s1.take P ++ (segs.map (·.1)).flatten ++ s1.drop (P + G.length))) :=
        ⟨P, y1, s1, o1, σ1, B1, segs, hc, hy1, hpr, hB1, hin, hsl, hsp, hKl, hJl, rfl, rfl, rfl⟩
      have hv : y.elem ns i = a.elem (s1.take P ++ (segs.map (·.1)).flatten ++ s1.drop (P + G.length))
            (o1.take P ++ (segs.map (·.2)).flatten ++ o1.drop (P + G.length)) := by
        rw [hval1, hval]
      cases hb : alookup a.blocks (s1.take P ++ (segs.map (·.1)).flatten ++ s1.drop (P + G.length)) with
      | some b => exact Or.inl ⟨_, _, _, hP, ⟨b, hb, hbox b hb⟩, hv⟩
      | none =>
        refine Or.inr ⟨⟨P, y1, hc, hy1, Or.inr ⟨_, _, _, hP, hb⟩⟩, ?_⟩
        rw [hv, elem_none a _ _ hb]
    · exact Or.inr ⟨⟨P, y1, hc, hy1, Or.inl hz⟩, h0⟩

/-- **onto, block form**: every stored block `(s, b)` of the input lies in ONE stored block of the result -/
theorem onto_chain_A : ∀ (calls : List (List (List Nat))) (a y : Arr R) (lb : Nat),
    ElemChainA a calls lb y → ∀ s b, alookup a.blocks s = some b →
    ∃ ns B, alookup y.blocks ns = some B ∧ ∀ o, inBox b.shape o = true →
      ∃ i σ, inBox B.shape i = true ∧ Pulled a calls lb y ns i s o σ := by
  intro calls
  induction calls with
  | nil =>
    intro a y lb hch s b hb
    have : y = a := hch
    subst this
    exact ⟨s, b, hb, fun o ho => ⟨o, 1, ho, rfl, rfl, rfl⟩⟩
  | cons G rest ih =>
    intro a y lb hch s b hb
    obtain ⟨P, y1, hc, hy1, hv, _, _, _, _, honto, _, hrest⟩ := hch
    obtain ⟨s1, B1, hB1, hall1⟩ := honto s b hb
    obtain ⟨ns, B, hB, hall⟩ := ih y1 y (P + G.length) hrest s1 B1 hB1
    refine ⟨ns, B, hB, ?_⟩
    intro o ho
    obtain ⟨o1, segs, hin, hsl, hsp, hs, hoe⟩ := hall1 o ho
    obtain ⟨i, σ1, hi, hpr⟩ := hall o1 hin
    have hsl' : s.length = a.ndim := ((validArr_of_validB hv).blk (s, b) (Lazy.alookup_mem hb)).1
    have hbl : b.shape.length = a.ndim := ShapeLen.of_valid hv (s, b) (Lazy.alookup_mem hb)
    have hol : o.length = a.ndim := by rw [inBox_length ho, hbl]
    exact ⟨i, _, hi, P, y1, s1, o1, σ1, B1, segs, hc, hy1, hpr, hB1, hin, hsl, hsp, hsl', hol, hs, hoe, rfl⟩

/-- **the "only if" half**: every stored block of the result contains a whole stored block of the input
    — a stored block of a fused array is never entirely zero-filled (unless the source block it comes
    from has no address at all, i.e. a zero extent) -/
theorem src_chain_A : ∀ (calls : List (List (List Nat))) (a y : Arr R) (lb : Nat),
    ElemChainA a calls lb y → ∀ ns B, alookup y.blocks ns = some B →
    ∃ s b, alookup a.blocks s = some b ∧ ∀ o, inBox b.shape o = true →
      ∃ i σ, inBox B.shape i = true ∧ Pulled a calls lb y ns i s o σ := by
  intro calls
  induction calls with
  | nil =>
    intro a y lb hch ns B hB
    have : y = a := hch
    subst this
    exact ⟨ns, B, hB, fun o ho => ⟨o, 1, ho, rfl, rfl, rfl⟩⟩
  | cons G rest ih =>
    intro a y lb hch ns B hB
    obtain ⟨P, y1, hc, hy1, hv, _, _, _, _, _, hsrc, hrest⟩ := hch
    obtain ⟨s1, B1, hB1, hall⟩ := ih y1 y (P + G.length) hrest ns B hB
    obtain ⟨s, b, hb, hall1⟩ := hsrc s1 B1 hB1
    refine ⟨s, b, hb, ?_⟩
    intro o ho
    obtain ⟨o1, segs, hin, hsl, hsp, hs, hoe⟩ := hall1 o ho
    obtain ⟨i, σ1, hi, hpr⟩ := hall o1 hin
    have hsl' : s.length = a.ndim := ((validArr_of_validB hv).blk (s, b) (Lazy.alookup_mem hb)).1
    have hbl : b.shape.length = a.ndim := ShapeLen.of_valid hv (s, b) (Lazy.alookup_mem hb)
    have hol : o.length = a.ndim := by rw [inBox_length ho, hbl]
    exact ⟨i, _, hi, P, y1, s1, o1, σ1, B1, segs, hc, hy1, hpr, hB1, hin, hsl, hsp, hsl', hol, hs, hoe, rfl⟩

/-- **the pull-back is injective on stored addresses** -/
theorem pulled_inj_A : ∀ (calls : List (List (List Nat))) (a y : Arr R) (lb : Nat),
    ElemChainA a calls lb y → ∀ ns i ns' i' s o σ σ', Stored y ns i → Stored y ns' i' →
    Pulled a calls lb y ns i s o σ → Pulled a calls lb y ns' i' s o σ' → ns = ns' ∧ i = i' := by
  intro calls
  induction calls with
  | nil =>
    intro a y lb _ ns i ns' i' s o σ σ' _ _ h h'
    obtain ⟨rfl, rfl, _⟩ := h
    obtain ⟨rfl, rfl, _⟩ := h'
    exact ⟨rfl, rfl⟩
  | cons G rest ih =>
    intro a y lb hch ns i ns' i' s o σ σ' hst hst' h h'
    obtain ⟨P0, y0, hc0, hy0, _, hv0, _, hnd0, _, _, _, hrest⟩ := hch
    obtain ⟨P, y1, s1, o1, σ1, B1, segs, hc, hy1, hpr, hB1, hin, hsl, hsp, _, _, hse, hoe, _⟩ := h
    obtain ⟨P', y1', s1', o1', σ1', B1', segs', hc', hy1', hpr', hB1', hin', hsl', hsp', _, _, hse', hoe', _⟩ := h'
    rw [hy0] at hy1 hy1'
    injection hy1 with hy1; subst hy1
    injection hy1' with hy1'; subst hy1'
    have hPP : ∀ {Q lbq}, CallOk G Q lbq a.ndim → P0 = Q := by
      intro Q lbq hq
      have h1 := hc0.flat
      have h2 := hq.flat
      rw [h1] at h2
      exact range'_inj_start (flatten_pos hc0.ne hc0.two) h2
    have e1 := hPP hc
    have e2 := hPP hc'
    subst e1; subst e2
    have hle : P0 + G.length ≤ y0.ndim := by
      have := hc0.le
      have h3 : G.length ≤ G.flatten.length := length_le_flatten G hc0.two
      omega
    obtain ⟨es, eo⟩ := inj_call y0 hv0 G P0 hle s1 s1' o1 o1' B1 B1' hB1 hin hB1' hin' segs segs' hsl hsl'
      hsp hsp' (by rw [← hse, ← hse']) (by rw [← hoe, ← hoe'])
    subst es; subst eo
    exact ih y0 y _ hrest ns i ns' i' s1 o1 σ1 σ1' hst hst' hpr hpr'

/-- the element statement of a plan of fuse calls on an abelian array in its final form -/
structure ElemBijA (a : Arr R) (calls : List (List (List Nat))) (y : Arr R) : Prop where
  /-- every stored address of the result: the value of exactly one stored source element, or a
      zero-filled address with value 0 -/
  total : ∀ ns i, Stored y ns i →
    (∃ s o σ, Pulled a calls 0 y ns i s o σ ∧ Stored a s o ∧ y.elem ns i = a.elem s o)
    ∨ (ZeroAt a calls 0 y ns i ∧ y.elem ns i = 0)
  /-- every stored source element appears -/
  onto : ∀ s o, Stored a s o →
    ∃ ns i σ, Stored y ns i ∧ Pulled a calls 0 y ns i s o σ ∧ y.elem ns i = a.elem s o
  /-- … exactly once -/
  inj : ∀ ns i ns' i' s o σ σ', Stored y ns i → Stored y ns' i' → Pulled a calls 0 y ns i s o σ →
    Pulled a calls 0 y ns' i' s o σ' → ns = ns' ∧ i = i'
  /-- the pulled-back address is determined by the address of the result -/
  func : ∀ ns i s o σ s' o' σ', Pulled a calls 0 y ns i s o σ → Pulled a calls 0 y ns i s' o' σ' →
    s = s' ∧ o = o' ∧ σ = σ'
  /-- a zero-filled address has no stored source element -/
  excl : ∀ ns i, ZeroAt a calls 0 y ns i → ∀ s o σ, Pulled a calls 0 y ns i s o σ → ¬ Stored a s o
  /-- every stored block of the input lies, as a whole, in one stored block of the result -/
  blockInto : ∀ s b, alookup a.blocks s = some b →
    ∃ ns B, alookup y.blocks ns = some B ∧ ∀ o, inBox b.shape o = true →
      ∃ i σ, inBox B.shape i = true ∧ Pulled a calls 0 y ns i s o σ
  /-- every stored block of the result contains a whole stored block of the input -/
  blockFrom : ∀ ns B, alookup y.blocks ns = some B →
    ∃ s b, alookup a.blocks s = some b ∧ ∀ o, inBox b.shape o = true →
      ∃ i σ, inBox B.shape i = true ∧ Pulled a calls 0 y ns i s o σ

theorem elemBijA_calls (a : Arr R) (calls : List (List (List Nat))) (hv : a.validB = true)
    (hf : a.fermi = false) (hc : CallsOk calls 0 a.ndim) :
    ∃ y, calls.foldlM fuseDispatch a = .ok y
      ∧ (∀ (m : FuseMode) (e : Bool), calls.foldlM (fun x G => fuseA x G m e) a = .ok y)
      ∧ y.validB = true ∧ y.fermi = false ∧ ElemBijA a calls y := by
  obtain ⟨y, hy, hym, hvy, hfy, hch⟩ := elem_chainA calls a 0 hv hf hc
  have hexcl : ∀ ns i, ZeroAt a calls 0 y ns i → ∀ s o σ, Pulled a calls 0 y ns i s o σ → ¬ Stored a s o := by
    intro ns i hz s o σ hp ⟨b, hb, _⟩
    rw [zeroAt_not_pulled calls a y 0 ns i hz s o σ hp] at hb
    cases hb
  refine ⟨y, hy, hym, hvy, hfy, elemChainA_total calls a y 0 hch, ?_, pulled_inj_A calls a y 0 hch,
    pulled_unique calls a y 0, hexcl, onto_chain_A calls a y 0 hch, src_chain_A calls a y 0 hch⟩
  intro s o ⟨b, hb, ho⟩
  obtain ⟨ns, B, hB, hall⟩ := onto_chain_A calls a y 0 hch s b hb
  obtain ⟨i, σ, hi, hp⟩ := hall o ho
  have hsy : Stored y ns i := ⟨B, hB, hi⟩
  refine ⟨ns, i, σ, hsy, hp, ?_⟩
  rcases elemChainA_total calls a y 0 hch ns i hsy with ⟨s', o', σ', hp', _, hval⟩ | ⟨hz, _⟩
  · obtain ⟨rfl, rfl, rfl⟩ := pulled_unique calls a y 0 ns i s o σ s' o' σ' hp hp'
    exact hval
  · exact (hexcl ns i hz s o σ hp ⟨b, hb, ho⟩).elim

/-- **abelian `reshape` to a merge / squeeze target: the element bijection** (the plan consists of
    fuse calls only; either strategy gives the same array) -/
theorem forward_items_bij_A (a : Arr R) (hv : a.validB = true) (hf : a.fermi = false) (items : List Item)
    (hshape : a.shape = shapeOf items) (hok : ItemsOk items) (hne : targetOf items ≠ [])
    (hpos : ∀ d ∈ a.shape, 0 < d) (hnw1 : noWinVisB a.shape (targetOf items) a.subsizes = true) :
    ∃ t y, calcReshapeArgs a.shape (targetOf items) a.subsizes = .ok t ∧ t.1 = [] ∧ t.2.2 = []
      ∧ reshapeArr a ((targetOf items).map Int.ofNat) = .ok y
      ∧ (∀ (m : FuseMode) (e : Bool), t.2.1.foldlM (fun x G => fuseA x G m e) a = .ok y)
      ∧ y.validB = true ∧ y.fermi = false ∧ ElemBijA a t.2.1 y := by
  obtain ⟨t, h3, hteq, hc⟩ := planner_calls_items_vis a items hshape hok hne hpos hnw1
  obtain ⟨y, hy, hym, hvy, hfy, hb⟩ := elemBijA_calls a t.2.1 hv hf hc
  refine ⟨t, y, h3, by rw [hteq], by rw [hteq], ?_, hym, hvy, hfy, hb⟩
  rw [reshapeArr_eq a _ _ (targetOf items) t (findFullReshape_nat _ _) (mapM_toNat _) h3, hteq,
    applyPlan_calls]
  exact hy

end SymmModel.ReshapeJ
