/-
  SymmModel.Proofs.TwoStepM3 — renaming the letters of an einsum equation.
  * `einsumA_rename`   `einsumA a (lhs.map f) (rhs.map f) = einsumA a lhs rhs` for an INJECTIVE renaming `f`
                       (the abelian einsum only compares labels for equality);
  * `einsumF_rename`   the same for `einsumF` and a STRICTLY INCREASING renaming `f` (`einsumF` sorts the axes
                       by (output position, LABEL, bra first), so the transposition it performs depends on
                       the order of the traced labels).
  Namespace `SymmModel.TwoStepP`.
-/
import SymmModel.Proofs.TwoStepOrder
import SymmModel.Proofs.TwoStepGeom
import SymmModel.Proofs.TwoStepInter

namespace SymmModel
namespace TwoStepP
open TdotP
open Lazy (einOrder einOperand)
set_option linter.unusedSectionVars false

variable {R : Type}

section inj
variable {f : Nat → Nat} (hf : ∀ x y, f x = f y → x = y)
include hf

theorem beq_map_inj (x q : Nat) : (f x == f q) = (x == q) := by
  by_cases h : x = q
  · subst h; simp
  · have : f x ≠ f q := fun e => h (hf _ _ e)
    simp [h, this]

theorem indexOf?_map_inj (l : List Nat) (q : Nat) : indexOf? (l.map f) (f q) = indexOf? l q := by
  induction l with
  | nil => rfl
  | cons x xs ih =>
    simp only [List.map_cons, indexOf?]
    rw [beq_map_inj hf, ih]

theorem contains_map_inj (l : List Nat) (q : Nat) : (l.map f).contains (f q) = l.contains q := by
  induction l with
  | nil => rfl
  | cons x xs ih =>
    simp only [List.map_cons, List.contains_cons]
    rw [ih, beq_map_inj hf]

theorem eraseDups_map_inj : ∀ (n : Nat) (l : List Nat), l.length ≤ n →
    (l.map f).eraseDups = l.eraseDups.map f := by
  intro n
  induction n with
  | zero =>
    intro l hl
    have : l = [] := List.eq_nil_of_length_eq_zero (by omega)
    subst this; rfl
  | succ n ih =>
    intro l hl
    cases l with
    | nil => rfl
    | cons a as =>
      rw [List.map_cons, List.eraseDups_cons, List.eraseDups_cons, List.map_cons, List.filter_map]
      have e : ((fun b => !b == f a) ∘ f) = (fun b => !b == a) := by
        funext b; simp only [Function.comp]; rw [beq_map_inj hf]
      rw [e, ih _ (by
        have := List.length_filter_le (fun b => !b == a) as
        simp only [List.length_cons] at hl; omega)]

theorem einTraced_rename (lhs rhs : List Nat) :
    einTraced (lhs.map f) (rhs.map f) = (einTraced lhs rhs).map f := by
  unfold einTraced
  rw [List.filter_map]
  have e : ((fun q => !(rhs.map f).contains q) ∘ f) = (fun q => !rhs.contains q) := by
    funext q; simp only [Function.comp]; rw [contains_map_inj hf]
  rw [e, eraseDups_map_inj hf _ _ (Nat.le_refl _)]

theorem zipIdx_map' (l : List Nat) (k : Nat) :
    (l.map f).zipIdx k = (l.zipIdx k).map (fun p => (f p.1, p.2)) := by
  induction l generalizing k with
  | nil => rfl
  | cons x xs ih => simp only [List.map_cons, List.zipIdx_cons, ih]

theorem einTracedPos_rename (lhs rhs : List Nat) :
    einTracedPos (lhs.map f) (rhs.map f) = einTracedPos lhs rhs := by
  unfold einTracedPos
  rw [einTraced_rename hf, List.map_map]
  apply List.map_congr_left
  intro q _
  simp only [Function.comp]
  rw [zipIdx_map' hf, List.filter_map, List.map_map]
  have e : ((fun p : Nat × Nat => p.1 == f q) ∘ fun p : Nat × Nat => (f p.1, p.2))
      = (fun p : Nat × Nat => p.1 == q) := by
    funext p; simp only [Function.comp]; rw [beq_map_inj hf]
  rw [e]
  rfl

theorem einPerm?_rename (lhs rhs : List Nat) :
    einPerm? (lhs.map f) (rhs.map f) = einPerm? lhs rhs := by
  unfold einPerm?
  induction rhs with
  | nil => rfl
  | cons q qs ih =>
    simp only [List.map_cons, List.mapM_cons, indexOf?_map_inj hf]
    rw [ih]

theorem einSize_rename (shape lhs : List Nat) (q : Nat) :
    einSize shape (lhs.map f) (f q) = einSize shape lhs q := by
  unfold einSize
  rw [indexOf?_map_inj hf]

theorem einIdx_rename (lhs rhs i t : List Nat) :
    einIdx (lhs.map f) (rhs.map f) i t = einIdx lhs rhs i t := by
  unfold einIdx
  rw [List.map_map]
  apply List.map_congr_left
  intro q _
  simp only [Function.comp]
  rw [indexOf?_map_inj hf rhs q, einTraced_rename hf, indexOf?_map_inj hf _ q]

theorem einsumK_rename [Zero R] [Add R] (b : Blk R) (lhs rhs : List Nat) :
    b.einsumK (lhs.map f) (rhs.map f) = b.einsumK lhs rhs := by
  have s1 : (rhs.map f).map (einSize b.shape (lhs.map f)) = rhs.map (einSize b.shape lhs) := by
    rw [List.map_map]; apply List.map_congr_left; intro q _; exact einSize_rename hf _ _ _
  have s2 : (einTraced (lhs.map f) (rhs.map f)).map (einSize b.shape (lhs.map f))
      = (einTraced lhs rhs).map (einSize b.shape lhs) := by
    rw [einTraced_rename hf, List.map_map]; apply List.map_congr_left; intro q _
    exact einSize_rename hf _ _ _
  show Blk.ofFn ((rhs.map f).map (einSize b.shape (lhs.map f))) (fun i =>
      (allIdx ((einTraced (lhs.map f) (rhs.map f)).map (einSize b.shape (lhs.map f)))).foldl
        (fun acc t => acc + b.get (einIdx (lhs.map f) (rhs.map f) i t)) 0)
    = Blk.ofFn (rhs.map (einSize b.shape lhs)) (fun i =>
      (allIdx ((einTraced lhs rhs).map (einSize b.shape lhs))).foldl
        (fun acc t => acc + b.get (einIdx lhs rhs i t)) 0)
  rw [s1, s2]
  simp only [einIdx_rename hf]

end inj

/-- `einsumA` with the label-dependent parts as parameters -/
def einsumACore [Zero R] [Add R] (a : Arr R) (permE : Except Err (List Nat)) (traced : List (List Nat))
    (K : Blk R → Blk R) : Except Err (Arr R) := do
  let perm ← permE
  if traced.any (fun js => js.length != 2) then throw Err.value
  let newBlocks := a.blocks.foldl (fun (acc : List (Sector × Blk R)) (sb : Sector × Blk R) =>
    let (sector, array) := sb
    if traced.all (fun js => sector[js.getD 0 0]? == sector[js.getD 1 0]?) then
      let ns := permuted sector perm
      let na := K array
      match alookup acc ns with
      | some cur => ainsert acc ns (Blk.zipWith (· + ·) cur na)
      | none => acc ++ [(ns, na)]
    else acc) []
  pure { a with indices := permuted a.indices perm, blocks := newBlocks }

theorem einsumA_core [Zero R] [Add R] (a : Arr R) (lhs rhs : List Nat) :
    einsumA a lhs rhs
      = einsumACore a (einPerm? lhs rhs) (einTracedPos lhs rhs) (fun b => b.einsumK lhs rhs) := rfl

/-- **einsumA_rename.** -/
theorem einsumA_rename [Zero R] [Add R] {f : Nat → Nat} (hf : ∀ x y, f x = f y → x = y)
    (a : Arr R) (lhs rhs : List Nat) :
    einsumA a (lhs.map f) (rhs.map f) = einsumA a lhs rhs := by
  rw [einsumA_core, einsumA_core, einPerm?_rename hf, einTracedPos_rename hf]
  congr 1
  funext b
  exact einsumK_rename hf b lhs rhs

/-! ### the fermionic einsum: strictly increasing renamings -/

theorem mem_insertSorted {α : Type} (lt : α → α → Bool) (a x : α) (l : List α) :
    x ∈ insertSorted lt a l ↔ x = a ∨ x ∈ l := by
  induction l with
  | nil => simp [insertSorted]
  | cons b bs ih =>
    unfold insertSorted
    split
    · simp only [List.mem_cons, ih]
      constructor
      · rintro (h | h | h)
        · exact Or.inr (Or.inl h)
        · exact Or.inl h
        · exact Or.inr (Or.inr h)
      · rintro (h | h | h)
        · exact Or.inr (Or.inl h)
        · exact Or.inl h
        · exact Or.inr (Or.inr h)
    · simp only [List.mem_cons]

theorem mem_isort {α : Type} (lt : α → α → Bool) (x : α) (l : List α) : x ∈ isort lt l ↔ x ∈ l := by
  induction l with
  | nil => simp [isort]
  | cons a as ih => unfold isort; rw [mem_insertSorted, ih, List.mem_cons]

theorem insertSorted_congr {α : Type} (lt lt' : α → α → Bool) (a : α) (l : List α)
    (h : ∀ b ∈ l, lt b a = lt' b a) : insertSorted lt a l = insertSorted lt' a l := by
  induction l with
  | nil => rfl
  | cons b bs ih =>
    unfold insertSorted
    rw [h b (List.mem_cons_self ..), ih (fun c hc => h c (List.mem_cons_of_mem _ hc))]

theorem isort_congr {α : Type} (lt lt' : α → α → Bool) (l : List α)
    (h : ∀ x ∈ l, ∀ y ∈ l, lt x y = lt' x y) : isort lt l = isort lt' l := by
  induction l with
  | nil => rfl
  | cons a as ih =>
    unfold isort
    rw [ih (fun x hx y hy => h x (List.mem_cons_of_mem _ hx) y (List.mem_cons_of_mem _ hy))]
    apply insertSorted_congr
    intro b hb
    exact h b (List.mem_cons_of_mem _ ((mem_isort _ _ _).mp hb)) a (List.mem_cons_self ..)

section mono
variable {f : Nat → Nat} (hm : ∀ x y, x < y → f x < f y)
include hm

theorem mono_inj : ∀ x y, f x = f y → x = y := by
  intro x y h
  rcases Nat.lt_trichotomy x y with h1 | h1 | h1
  · have := hm _ _ h1; omega
  · exact h1
  · have := hm _ _ h1; omega

theorem mono_lt (x y : Nat) : decide (f x < f y) = decide (x < y) := by
  by_cases h : x < y
  · simp [h, hm _ _ h]
  · have : ¬ f x < f y := by
      intro h'
      rcases Nat.lt_or_ge y x with h1 | h1
      · have := hm _ _ h1; omega
      · have : x = y := by omega
        subst this; omega
    simp [h, this]

theorem einOrder_rename [Zero R] [Neg R] (a : Arr R) (lhs rhs : List Nat) (hl : lhs.length = a.ndim) :
    einOrder a (lhs.map f) (rhs.map f) = einOrder a lhs rhs := by
  rw [einOrder_eq_isort, einOrder_eq_isort]
  apply isort_congr
  intro i hi j hj
  have hi' : i < lhs.length := by rw [hl]; exact List.mem_range.mp hi
  have hj' : j < lhs.length := by rw [hl]; exact List.mem_range.mp hj
  have hinj := mono_inj hm
  unfold ekey
  simp only [getD_map' f lhs i 0 0 hi', getD_map' f lhs j 0 0 hj', indexOf?_map_inj hinj]
  unfold klt
  simp only [mono_lt hm, beq_map_inj hinj]

end mono

/-- **einsumF_rename.** -/
theorem einsumF_rename [Zero R] [Add R] [Neg R] {f : Nat → Nat} (hm : ∀ x y, x < y → f x < f y)
    (a : Arr R) (lhs rhs : List Nat) :
    a.einsumF (lhs.map f) (rhs.map f) = a.einsumF lhs rhs := by
  rw [Lazy.einsumF_eq, Lazy.einsumF_eq, List.length_map]
  by_cases hl : lhs.length = a.ndim
  · have : (lhs.length != a.ndim) = false := by simp [hl]
    simp only [this, Bool.false_eq_true, if_false]
    unfold einOperand
    rw [einOrder_rename hm a lhs rhs hl, permuted_map', einsumA_rename (mono_inj hm)]
  · have : (lhs.length != a.ndim) = true := by simp [hl]
    simp only [this, if_true]

end TwoStepP
end SymmModel
