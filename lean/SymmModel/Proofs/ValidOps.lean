/-
  SymmModel.Proofs.ValidOps — validity is preserved by the structural operations:
  transpose, conj, dagger, the phase operations, expand_dims, squeeze, sync_charges,
  drop_misaligned, multiply_diagonal, blockwise arithmetic.  (Property C01, items 1–4, 6.)
-/
import SymmModel.Proofs.ValidLemmas

namespace SymmModel
namespace ValidP
open Sym

variable {R : Type}

/-- the clauses of validity that do not mention signs -/
structure Core (a : Arr R) : Prop where
  idx : ∀ i ∈ a.indices, Index.wfB a.sym i = true
  chg : a.sym.valid a.charge = true
  nodup : (a.blocks.map (·.1)).Nodup
  blk : ∀ sb ∈ a.blocks, BlockOk a.sym a.indices a.charge sb

theorem Valid.core {a : Arr R} (h : Valid a) : Core a := ⟨h.idx, h.chg, h.nodup, h.blk⟩

theorem Valid.of {a : Arr R} (h : Core a)
    (hs : SignsOk a.sym a.fermi a.indices a.charge a.phases a.oddpos) : Valid a :=
  ⟨h.idx, h.chg, h.nodup, h.blk, hs⟩

theorem Valid.secOk {a : Arr R} (h : Valid a) {s : Sector} (hs : s ∈ a.sectors) :
    SecOk a.sym a.indices a.charge s := by
  obtain ⟨sb, hsb, rfl⟩ := List.mem_map.mp hs
  exact (h.blk sb hsb).1

theorem Core.secOk {a : Arr R} (h : Core a) {s : Sector} (hs : s ∈ a.sectors) :
    SecOk a.sym a.indices a.charge s := by
  obtain ⟨sb, hsb, rfl⟩ := List.mem_map.mp hs
  exact (h.blk sb hsb).1

theorem foldl_inv {α β : Type} (P : β → Prop) (f : β → α → β) (l : List α) (b : β) (hb : P b)
    (hf : ∀ b x, x ∈ l → P b → P (f b x)) : P (l.foldl f b) := by
  induction l generalizing b with
  | nil => exact hb
  | cons x xs ih =>
    exact ih (f b x) (hf b x (by simp) hb) (fun b y hy hP => hf b y (by simp [hy]) hP)

theorem keys_map_of {β γ : Type} (l : List (Sector × β)) (f : Sector × β → Sector × γ)
    (hf : ∀ x ∈ l, (f x).1 = x.1) :
    (l.map f).map (fun x : Sector × γ => x.1) = l.map (fun x : Sector × β => x.1) := by
  rw [List.map_map]
  exact List.map_congr_left (fun x hx => hf x hx)

/-! ## the pending-sign table -/

section Phases
variable {sym : Sym} {idx : List Index} {ch : Charge}

theorem phasesOk_nil : PhasesOk sym idx ch [] := ⟨by simp, by simp⟩

theorem phasesOk_ainsert {ph : List (Sector × Int)} {s : Sector} {p : Int}
    (h : PhasesOk sym idx ch ph) (hs : SecOk sym idx ch s) (hp : p = 1 ∨ p = -1) :
    PhasesOk sym idx ch (ainsert ph s p) := by
  refine ⟨ainsert_keys_nodup _ _ h.1, ?_⟩
  intro sp hsp
  rcases mem_ainsert hsp with rfl | hm
  · exact ⟨hs, hp⟩
  · exact h.2 sp hm

theorem phasesOk_aerase {ph : List (Sector × Int)} (s : Sector)
    (h : PhasesOk sym idx ch ph) : PhasesOk sym idx ch (aerase ph s) :=
  ⟨aerase_keys_nodup _ h.1, fun sp hsp => h.2 sp (mem_aerase hsp)⟩

theorem phasesOk_setPhase {ph : List (Sector × Int)} {s : Sector} {p : Int}
    (h : PhasesOk sym idx ch ph) (hs : SecOk sym idx ch s) (hp : p = 1 ∨ p = -1) :
    PhasesOk sym idx ch (Arr.setPhase ph s p) := by
  unfold Arr.setPhase
  split
  · exact phasesOk_aerase s h
  · exact phasesOk_ainsert h hs hp

theorem phasesOk_getD {ph : List (Sector × Int)} (h : PhasesOk sym idx ch ph) (s : Sector) :
    (alookup ph s).getD 1 = 1 ∨ (alookup ph s).getD 1 = -1 := by
  cases hl : alookup ph s with
  | none => exact Or.inl rfl
  | some p => exact (h.2 (s, p) (alookup_some_mem hl)).2

theorem koszul_pm (par : List Bool) (perm : Option (List Nat)) :
    koszul par perm = 1 ∨ koszul par perm = -1 := by
  unfold koszul; split <;> simp

theorem pm_mul {x y : Int} (hx : x = 1 ∨ x = -1) (hy : y = 1 ∨ y = -1) :
    x * y = 1 ∨ x * y = -1 := by
  rcases hx with rfl | rfl <;> rcases hy with rfl | rfl <;> simp

theorem pm_neg {x : Int} (hx : x = 1 ∨ x = -1) : -x = 1 ∨ -x = -1 := by
  rcases hx with rfl | rfl <;> simp

theorem phasesOk_adict_map {ph : List (Sector × Int)} {idx' : List Index} {ch' : Charge}
    (f : Sector → Sector) (h : PhasesOk sym idx ch ph)
    (hf : ∀ s, SecOk sym idx ch s → SecOk sym idx' ch' (f s)) :
    PhasesOk sym idx' ch' (adict (ph.map (fun sp => (f sp.1, sp.2)))) := by
  refine ⟨adict_keys_nodup _, ?_⟩
  intro sp hsp
  obtain ⟨sp0, h0, rfl⟩ := List.mem_map.mp (mem_adict hsp)
  exact ⟨hf _ (h.2 sp0 h0).1, (h.2 sp0 h0).2⟩

theorem phasesOk_retarget {ph : List (Sector × Int)} {idx' : List Index} {ch' : Charge}
    (h : PhasesOk sym idx ch ph)
    (hf : ∀ s, SecOk sym idx ch s → SecOk sym idx' ch' s) : PhasesOk sym idx' ch' ph :=
  ⟨h.1, fun sp hsp => ⟨hf _ (h.2 sp hsp).1, (h.2 sp hsp).2⟩⟩

end Phases

/-- an update of the sign table of a fermionic array -/
theorem valid_setPhases {a : Arr R} (hv : Valid a) (hf : a.fermi = true)
    (ph : List (Sector × Int)) (hph : PhasesOk a.sym a.indices a.charge ph) :
    Valid { a with phases := ph } := by
  refine ⟨hv.idx, hv.chg, hv.nodup, hv.blk, ?_⟩
  have := hv.sgn
  unfold SignsOk at this ⊢
  simp only [hf, if_true] at this ⊢
  exact ⟨hph, this.2⟩

theorem valid_phasesOk {a : Arr R} (hv : Valid a) (hf : a.fermi = true) :
    PhasesOk a.sym a.indices a.charge a.phases := by
  have := hv.sgn
  unfold SignsOk at this
  simp only [hf, if_true] at this
  exact this.1

theorem phaseFlip_valid (a : Arr R) (axs : List Nat) (hv : Valid a) (hf : a.fermi = true) :
    Valid (a.phaseFlip axs) := by
  unfold Arr.phaseFlip
  split
  · exact hv
  · apply valid_setPhases hv hf
    apply foldl_inv (PhasesOk a.sym a.indices a.charge)
    · exact valid_phasesOk hv hf
    · intro ph s hs hph
      simp only
      split
      · split
        · exact phasesOk_aerase s hph
        · exact phasesOk_ainsert hph (hv.secOk hs) (pm_neg (phasesOk_getD hph s))
      · exact hph

theorem phaseTranspose_valid (a : Arr R) (axes : Option (List Nat)) (hv : Valid a)
    (hf : a.fermi = true) : Valid (a.phaseTranspose axes) := by
  unfold Arr.phaseTranspose
  apply valid_setPhases hv hf
  apply foldl_inv (PhasesOk a.sym a.indices a.charge)
  · exact valid_phasesOk hv hf
  · intro ph s hs hph
    exact phasesOk_setPhase hph (hv.secOk hs) (pm_mul (phasesOk_getD hph s) (koszul_pm _ _))

theorem phaseSector_valid (a : Arr R) (sector : Sector) (hv : Valid a) (hf : a.fermi = true)
    (hs : SecOk a.sym a.indices a.charge sector) : Valid (a.phaseSector sector) := by
  unfold Arr.phaseSector
  apply valid_setPhases hv hf
  split
  · exact phasesOk_ainsert (phasesOk_aerase _ (valid_phasesOk hv hf)) hs (Or.inr rfl)
  · exact phasesOk_aerase _ (valid_phasesOk hv hf)

theorem phaseGlobal_valid (a : Arr R) (hv : Valid a) (hf : a.fermi = true) :
    Valid a.phaseGlobal := by
  unfold Arr.phaseGlobal
  apply valid_setPhases hv hf
  apply foldl_inv (PhasesOk a.sym a.indices a.charge)
  · exact valid_phasesOk hv hf
  · intro ph s hs hph
    simp only
    split
    · exact phasesOk_ainsert (phasesOk_aerase _ hph) (hv.secOk hs) (Or.inr rfl)
    · exact phasesOk_aerase _ hph

theorem negK_wf [Neg R] (b : Blk R) (h : b.wf = true) : b.negK.wf = true := map_wf _ b h

theorem phaseSync_valid [Neg R] (a : Arr R) (hv : Valid a) : Valid a.phaseSync := by
  unfold Arr.phaseSync
  refine ⟨hv.idx, hv.chg, ?_, ?_, ?_⟩
  · show (List.map (fun x : Sector × Blk R => x.1) (a.blocks.map _)).Nodup
    rw [keys_map_of]
    · exact hv.nodup
    · rintro ⟨s, b⟩ _
      simp only
      split <;> rfl
  · intro sb hsb
    obtain ⟨sb0, h0, rfl⟩ := List.mem_map.mp hsb
    obtain ⟨h1, h2, h3⟩ := hv.blk sb0 h0
    simp only
    split
    · exact ⟨h1, h2, negK_wf _ h3⟩
    · exact ⟨h1, h2, h3⟩
  · have := hv.sgn
    unfold SignsOk at this ⊢
    split
    · rename_i hf
      simp only [show a.fermi = true from hf, if_true] at this
      exact ⟨phasesOk_nil, this.2⟩
    · rename_i hf
      simp only [show ¬ a.fermi = true from hf, if_false] at this
      exact ⟨rfl, this.2⟩

/-! ## transpose -/

theorem transposeA_core [Zero R] (a : Arr R) (axes : List Nat) (hv : Core a)
    (hp : Arr.isPerm axes a.ndim = true) : Core (a.transposeA axes) := by
  have hperm := isPerm_perm hp
  refine ⟨fun i hi => hv.idx i (mem_permuted hi), hv.chg, adict_keys_nodup _, ?_⟩
  intro sb hsb
  obtain ⟨sb0, h0, rfl⟩ := List.mem_map.mp (mem_adict hsb)
  obtain ⟨h1, h2, _⟩ := hv.blk sb0 h0
  refine ⟨?_, ?_, ofFn_wf _ _⟩
  · exact secOk_natT (natT_permuted axes)
      (fun l hl => permuted_perm (by rw [hl]; exact hperm)) h1
  · exact blockShape?_natT (natT_permuted axes) h2

theorem secOk_permuted {sym : Sym} {idx : List Index} {ch : Charge} {s : Sector} {axes : List Nat}
    (hp : Arr.isPerm axes idx.length = true) (h : SecOk sym idx ch s) :
    SecOk sym (permuted idx axes) ch (permuted s axes) :=
  secOk_natT (natT_permuted axes)
    (fun l hl => permuted_perm (by rw [hl]; exact isPerm_perm hp)) h

theorem transposeA_valid [Zero R] (a : Arr R) (axes : List Nat) (hv : Valid a)
    (hf : a.fermi = false) (hp : Arr.isPerm axes a.ndim = true) : Valid (a.transposeA axes) := by
  refine Valid.of (transposeA_core a axes hv.core hp) ?_
  have := hv.sgn
  unfold SignsOk at this ⊢
  simp only [hf, Bool.false_eq_true, if_false] at this
  show if a.fermi = true then _ else _
  simp only [hf, Bool.false_eq_true, if_false]
  exact this

theorem transposeF_valid [Zero R] (a : Arr R) (axes : List Nat) (phase : Bool) (hv : Valid a)
    (hf : a.fermi = true) (hp : Arr.isPerm axes a.ndim = true) :
    Valid (a.transposeF axes phase) := by
  unfold Arr.transposeF
  generalize hnp : (if phase = true then _ else _ : List (Sector × Int)) = newPhases
  have hcore : Core ({ a with phases := newPhases } : Arr R) := ⟨hv.idx, hv.chg, hv.nodup, hv.blk⟩
  refine Valid.of (transposeA_core _ axes hcore hp) ?_
  have hs := hv.sgn
  unfold SignsOk at hs ⊢
  simp only [hf, if_true] at hs
  show if a.fermi = true then _ else _
  simp only [hf, if_true]
  refine ⟨?_, hs.2⟩
  show PhasesOk a.sym (permuted a.indices axes) a.charge newPhases
  subst hnp
  split
  · refine ⟨adict_keys_nodup _, ?_⟩
    intro sp hsp
    obtain ⟨s, hs1, hs2⟩ := List.mem_filterMap.mp (mem_adict hsp)
    simp only at hs2
    split at hs2
    · cases hs2
      exact ⟨secOk_permuted hp (hv.secOk hs1), Or.inr rfl⟩
    · cases hs2
  · exact phasesOk_adict_map _ hs.1 (fun s h => secOk_permuted hp h)

/-! ## conj / dagger -/

theorem conjK_wf [Conj R] (b : Blk R) (h : b.wf = true) : b.conjK.wf = true := map_wf _ b h

theorem map_keys_eq {β γ : Type} (l : List (Sector × β)) (g : β → γ) :
    (l.map (fun x => (x.1, g x.2))).map (·.1) = l.map (·.1) := by
  rw [List.map_map]; rfl

theorem conj_core [Conj R] (a : Arr R) (hv : Core a) (ph : List (Sector × Int))
    (op : List (Int × Bool)) :
    Core ({ a with blocks := a.blocks.map (fun (s, b) => (s, b.conjK)),
                   phases := ph,
                   indices := a.indices.map Index.conj,
                   charge := a.sym.sign a.charge true,
                   oddpos := op } : Arr R) := by
  refine ⟨?_, sign_valid' _ _ _ hv.chg, ?_, ?_⟩
  · intro i hi
    obtain ⟨i0, h0, rfl⟩ := List.mem_map.mp hi
    exact conj_wfB _ _ (hv.idx i0 h0)
  · show (List.map (·.1) (a.blocks.map (fun x : Sector × Blk R => (x.1, x.2.conjK)))).Nodup
    rw [map_keys_eq]; exact hv.nodup
  · intro sb hsb
    obtain ⟨sb0, h0, rfl⟩ := List.mem_map.mp hsb
    obtain ⟨h1, h2, h3⟩ := hv.blk sb0 h0
    exact ⟨secOk_conj h1, by rw [blockShape?_conj]; exact h2, conjK_wf _ h3⟩

theorem conjA_valid [Conj R] (a : Arr R) (hv : Valid a) (hf : a.fermi = false) :
    Valid a.conjA := by
  refine Valid.of (conj_core a hv.core a.phases a.oddpos) ?_
  have := hv.sgn
  unfold SignsOk at this ⊢
  simp only [hf, Bool.false_eq_true, if_false] at this
  show if a.fermi = true then _ else _
  simp only [hf, Bool.false_eq_true, if_false]
  exact this

theorem oddposDag_length (o : List (Int × Bool)) : (Arr.oddposDag o).length = o.length := by
  simp [Arr.oddposDag]

/-- the sign table `FermionicArray.conj` computes (copy of the model text) -/
def conjPhases (a : Arr R) (phasePerm phaseDual : Bool) : List (Sector × Int) :=
  let newIdx := a.indices.map Index.conj
  let axsConj := (newIdx.zipIdx.filter (fun p => !p.1.dual)).map (·.2)
  if phasePerm || phaseDual then
    a.sectors.foldl (fun ph s =>
      let par := a.parities s
      let p0 := (alookup ph s).getD 1
      let p1 := if phasePerm then p0 * koszul par none else p0
      let p2 := if phaseDual && (axsConj.filter (fun ax => par.getD ax false)).length % 2 == 1
                then -p1 else p1
      Arr.setPhase ph s p2) a.phases
  else a.phases

/-- the array `conj` builds before the optional global phase -/
def conjNew [Conj R] (a : Arr R) (phasePerm phaseDual : Bool) : Arr R :=
  { a with blocks := a.blocks.map (fun (s, b) => (s, b.conjK)),
           phases := conjPhases a phasePerm phaseDual,
           indices := a.indices.map Index.conj,
           charge := a.sym.sign a.charge true,
           oddpos := Arr.oddposDag a.oddpos }

theorem conjF_eq [Conj R] (a : Arr R) (phasePerm phaseDual : Bool) :
    a.conjF phasePerm phaseDual =
      if phasePerm && (conjNew a phasePerm phaseDual).parity
          && (conjNew a phasePerm phaseDual).oddpos.length % 2 == 1
      then (conjNew a phasePerm phaseDual).phaseGlobal else conjNew a phasePerm phaseDual := rfl

theorem conjF_valid [Conj R] (a : Arr R) (phasePerm phaseDual : Bool) (hv : Valid a)
    (hf : a.fermi = true) : Valid (a.conjF phasePerm phaseDual) := by
  rw [conjF_eq]
  have hs := hv.sgn
  unfold SignsOk at hs
  simp only [hf, if_true] at hs
  have hsec : ∀ s, SecOk a.sym a.indices a.charge s →
      SecOk a.sym (a.indices.map Index.conj) (a.sym.sign a.charge true) s := fun s h => secOk_conj h
  have hphases : PhasesOk a.sym (a.indices.map Index.conj) (a.sym.sign a.charge true)
      (conjPhases a phasePerm phaseDual) := by
    unfold conjPhases
    simp only
    split
    · apply foldl_inv (PhasesOk a.sym (a.indices.map Index.conj) (a.sym.sign a.charge true))
      · exact phasesOk_retarget hs.1 hsec
      · intro ph s hsm hph
        apply phasesOk_setPhase hph (hsec s (hv.secOk hsm))
        have h0 := phasesOk_getD hph s
        have h1 : (if phasePerm = true then (alookup ph s).getD 1 * koszul (a.parities s) none
            else (alookup ph s).getD 1) = 1 ∨ (if phasePerm = true then
              (alookup ph s).getD 1 * koszul (a.parities s) none
            else (alookup ph s).getD 1) = -1 := by
          split
          · exact pm_mul h0 (koszul_pm _ _)
          · exact h0
        split
        · exact pm_neg h1
        · exact h1
    · exact phasesOk_retarget hs.1 hsec
  have hnew : Valid (conjNew a phasePerm phaseDual) := by
    refine Valid.of (conj_core a hv.core _ _) ?_
    unfold SignsOk
    show if a.fermi = true then _ else _
    simp only [hf, if_true]
    refine ⟨hphases, ?_⟩
    show ((Arr.oddposDag a.oddpos).length % 2 == 1) = a.sym.parity (a.sym.sign a.charge true)
    rw [oddposDag_length, parity_sign']; exact hs.2
  split
  · exact phaseGlobal_valid _ hnew hf
  · exact hnew

theorem permuted_reversed {α : Type} (l : List α) :
    permuted l (Arr.reversedAxes l.length) = l.reverse := by
  unfold permuted Arr.reversedAxes
  rw [List.filterMap_reverse]
  congr 1
  exact permuted_range l

theorem secOk_reverse {sym : Sym} {idx : List Index} {ch : Charge} {s : Sector}
    (h : SecOk sym idx ch s) : SecOk sym idx.reverse ch s.reverse :=
  secOk_natT natT_reverse (fun l _ => List.reverse_perm l) h

/-- the array `dagger` builds before the optional global phase (copy of the model text) -/
def daggerNew [Zero R] [Conj R] (a : Arr R) : Arr R :=
  { a with blocks := a.blocks.map (fun (s, b) => (s.reverse, (b.conjK).transposeK (Arr.reversedAxes a.ndim))),
           phases := a.blocks.filterMap (fun (s, _) =>
             if a.getPhase s == -1 then some (s.reverse, (-1 : Int)) else none),
           indices := a.indices.reverse.map Index.conj,
           charge := a.sym.sign a.charge true,
           oddpos := Arr.oddposDag a.oddpos }

def daggerMid [Zero R] [Conj R] (a : Arr R) : Arr R :=
  if (daggerNew a).parity && (daggerNew a).oddpos.length % 2 == 1 then (daggerNew a).phaseGlobal
  else daggerNew a

theorem daggerF_eq [Zero R] [Conj R] (a : Arr R) (phaseDual : Bool) :
    a.daggerF phaseDual =
      if phaseDual then
        (daggerMid a).phaseFlip
          (((a.indices.reverse.map Index.conj).zipIdx.filter (fun p => !p.1.dual)).map (·.2))
      else daggerMid a := rfl

theorem daggerNew_valid [Zero R] [Conj R] (a : Arr R) (hv : Valid a) (hf : a.fermi = true) :
    Valid (daggerNew a) := by
  have hs := hv.sgn
  unfold SignsOk at hs
  simp only [hf, if_true] at hs
  have hsec : ∀ s, SecOk a.sym a.indices a.charge s →
      SecOk a.sym (a.indices.reverse.map Index.conj) (a.sym.sign a.charge true) s.reverse :=
    fun s h => secOk_conj (secOk_reverse h)
  unfold daggerNew
  refine ⟨?_, sign_valid' _ _ _ hv.chg, ?_, ?_, ?_⟩
  · intro i hi
    obtain ⟨i0, h0, rfl⟩ := List.mem_map.mp hi
    exact conj_wfB _ _ (hv.idx i0 (List.mem_reverse.mp h0))
  · show (List.map (fun x : Sector × Blk R => x.1) (a.blocks.map _)).Nodup
    rw [List.map_map]
    have : ((fun x : Sector × Blk R => x.1) ∘ fun x : Sector × Blk R =>
        match x with
        | (s, b) => (s.reverse, (b.conjK).transposeK (Arr.reversedAxes a.ndim)))
        = List.reverse ∘ (fun x : Sector × Blk R => x.1) := by
      funext x; obtain ⟨s, b⟩ := x; rfl
    rw [this, ← List.map_map]
    exact List.Nodup.map List.reverse_injective hv.nodup
  · intro sb hsb
    obtain ⟨⟨s, b⟩, h0, rfl⟩ := List.mem_map.mp hsb
    obtain ⟨h1, h2, h3⟩ := hv.blk (s, b) h0
    refine ⟨hsec _ h1, ?_, ofFn_wf _ _⟩
    show Arr.blockShape? (a.indices.reverse.map Index.conj) s.reverse
      = some (permuted b.conjK.shape (Arr.reversedAxes a.ndim))
    rw [blockShape?_conj]
    have hl : b.conjK.shape.length = a.ndim := (blockShape?_length h2).1
    rw [← hl, permuted_reversed]
    exact blockShape?_natT natT_reverse h2
  · unfold SignsOk
    show if a.fermi = true then _ else _
    simp only [hf, if_true]
    refine ⟨⟨?_, ?_⟩, ?_⟩
    · have : (a.blocks.filterMap (fun x : Sector × Blk R =>
          match x with
          | (s, _) => if a.getPhase s == -1 then some (s.reverse, (-1 : Int)) else none)).map
            (fun x : Sector × Int => x.1)
          = (a.blocks.map (fun x : Sector × Blk R => x.1)).filterMap (fun s =>
              if a.getPhase s == -1 then some s.reverse else none) := by
        rw [List.map_filterMap, List.filterMap_map]
        congr 1
        funext x
        obtain ⟨s, b⟩ := x
        simp only [Function.comp]
        split <;> rfl
      show (List.map (fun x : Sector × Int => x.1) (a.blocks.filterMap _)).Nodup
      rw [this]
      apply List.Nodup.filterMap _ hv.nodup
      intro s s' t h1 h2
      split at h1 <;> split at h2 <;> simp at h1 h2
      exact List.reverse_injective (h1.trans h2.symm)
    · intro sp hsp
      obtain ⟨⟨s, b⟩, h0, h1⟩ := List.mem_filterMap.mp hsp
      simp only at h1
      split at h1
      · cases h1
        exact ⟨hsec _ (hv.blk (s, b) h0).1, Or.inr rfl⟩
      · cases h1
    · show ((Arr.oddposDag a.oddpos).length % 2 == 1) = a.sym.parity (a.sym.sign a.charge true)
      rw [oddposDag_length, parity_sign']; exact hs.2

theorem daggerF_valid [Zero R] [Conj R] (a : Arr R) (phaseDual : Bool) (hv : Valid a)
    (hf : a.fermi = true) : Valid (a.daggerF phaseDual) := by
  rw [daggerF_eq]
  have hnew := daggerNew_valid a hv hf
  have hmid : Valid (daggerMid a) ∧ (daggerMid a).fermi = true := by
    unfold daggerMid
    split
    · exact ⟨phaseGlobal_valid _ hnew hf, hf⟩
    · exact ⟨hnew, hf⟩
  split
  · exact phaseFlip_valid _ _ hmid.1 hmid.2
  · exact hmid.1

end ValidP
end SymmModel
