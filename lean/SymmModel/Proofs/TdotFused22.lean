/-
  SymmModel.Proofs.TdotFused22 — the fused strategy with NO contracted axes when one operand has
  rank 0 (a scalar array): that operand is not fused; the other is fused into a vector, multiplied
  and unfused again.  Namespace `SymmModel.TdotP`.
-/
import SymmModel.Proofs.TdotFused21

namespace SymmModel
namespace TdotP
variable {R : Type}

theorem ndim_zero_of_free_nil {n : Nat} (h : freeAxes n [] = []) : n = 0 := by
  rw [freeAxes_nil] at h
  have := congrArg List.length h
  simpa using this

/-- rank-0 array times fused vector -/
def cfSV [Zero R] [Add R] [Mul R] (A B : Arr R) : Arr R :=
  tensordotBlockwise A (FuseP.fusedArrM B [freeAxes B.ndim []]) [] [] [] [0]

/-- fused vector times rank-0 array -/
def cfVS [Zero R] [Add R] [Mul R] (A B : Arr R) : Arr R :=
  tensordotBlockwise (FuseP.fusedArrM A [freeAxes A.ndim []]) B [0] [] [] []

/-- **no contracted axes, left operand of rank 0, aligned operands.** -/
theorem Ctx0.outer_sv [AddCommMonoid R] [Mul R] [Neg R]
    (hz1 : ∀ x : R, 0 * x = 0) (hz2 : ∀ x : R, x * 0 = 0) {A B : Arr R}
    (h : Ctx0 A B [] []) (hL : freeAxes A.ndim [] = []) (hneR : freeAxes B.ndim [] ≠ []) :
    ∃ c, (if ((freeAxes B.ndim []).length != 1) = true then unfuseA (cfSV A B) 0
          else pure (cfSV A B)) = .ok c
      ∧ c.validB = true
      ∧ c.sym = A.sym ∧ c.fermi = false ∧ c.charge = A.sym.combine [A.charge, B.charge]
      ∧ c.phases = [] ∧ c.oddpos = A.oddpos
      ∧ c.indices.length = (freeAxes A.ndim []).length + (freeAxes B.ndim []).length
      ∧ (∀ K V, alookup c.blocks K = some V → ∀ J, inBox V.shape J = true →
          V.get J = (tensordotBlockwise A B (freeAxes A.ndim []) [] [] (freeAxes B.ndim [])).elem K J)
      ∧ (∀ s ∈ (tensordotBlockwise A B (freeAxes A.ndim []) [] [] (freeAxes B.ndim [])).sectors,
          s ∈ c.sectors)
      ∧ List.Forall₂ SizeLe c.indices (permuted A.indices (freeAxes A.ndim [])
            ++ permuted B.indices (freeAxes B.ndim [])) := by
  have hA0 : A.ndim = 0 := ndim_zero_of_free_nil hL
  have hAi : A.indices = [] := List.eq_nil_of_length_eq_zero hA0
  have hpB := solo_all hneR
  have hokB := hpB.groupsOk
  have gB0 : ([freeAxes B.ndim []] : List (List Nat))[0]? = some (freeAxes B.ndim []) := rfl
  have hvbf := fused_solo_validB h.vB h.fB hpB
  have iB : (FuseP.fusedArrM B [freeAxes B.ndim []]).indices = [FuseP.ixM B [freeAxes B.ndim []] 0] :=
    solo_newIdx hpB
  have e2 : (FuseP.fusedArrM B [freeAxes B.ndim []]).ndim = 1 := by
    show (FuseP.fusedArrM B [freeAxes B.ndim []]).indices.length = 1; rw [iB]; rfl
  have ebn : B.indices.length = B.ndim := rfl
  have hvcf : (cfSV A B).validB = true := by
    have := ValidP.tensordotBlockwise_valid A (FuseP.fusedArrM B [freeAxes B.ndim []]) [] []
      ((ValidP.validB_iff _).mp h.vA) ((ValidP.validB_iff _).mp hvbf) h.sym h.fA
      (by unfold ValidP.oppositeDualsB; simp) (by simp) (by simp) (by simp) (by simp)
    rw [e2, without_range, without_range, hL, freeAxes_1_nil] at this
    exact (ValidP.validB_iff _).mpr this
  obtain ⟨t1, t2, t3, t4, t5⟩ := tensordotBlockwise_fields A
    (FuseP.fusedArrM B [freeAxes B.ndim []]) [] [] [] [0]
  obtain ⟨_, _, w3, _, _⟩ := fusedArrM_fields B [freeAxes B.ndim []]
  have k3 : (cfSV A B).charge = A.sym.combine [A.charge, B.charge] := by
    unfold cfSV; rw [t3, w3]
  have hfcf : (cfSV A B).fermi = false := t2.trans h.fA
  have hpcf : (cfSV A B).phases = [] := t4.trans h.phA
  have hdcf : allDistinct (cfSV A B).sectors = true := Arr.allDistinct_of_validB hvcf
  have hidx : (cfSV A B).indices =
      [dropTo (FuseP.ixM B [freeAxes B.ndim []] 0) ((cfSV A B).sectors.filterMap (fun s => s[0]?))] := by
    unfold cfSV
    rw [tensordotBlockwise_indices, without_nil, without_nil, hAi, iB]
    rfl
  have hblock : ∀ {ns : Sector} {Bx : Blk R}, (ns, Bx) ∈ (cfSV A B).blocks →
      ∃ cR dR, ns = [cR] ∧ cR ∈ (cfSV A B).sectors.filterMap (fun s => s[0]?)
        ∧ (FuseP.ixM B [freeAxes B.ndim []] 0).sizeOf? cR = some dR ∧ Bx.shape = [dR] := by
    intro ns Bx hm
    have hsh := Arr.shapesOk_of_validB hvcf (ns, Bx) hm
    have hsec : ns ∈ (cfSV A B).sectors := List.mem_map.mpr ⟨_, hm, rfl⟩
    rw [hidx] at hsh
    obtain ⟨hl, _⟩ := blockShape?_length hsh
    match ns, hl with
    | [cR], _ =>
      have hcR : cR ∈ (cfSV A B).sectors.filterMap (fun s => s[0]?) :=
        List.mem_filterMap.mpr ⟨_, hsec, rfl⟩
      simp only [Arr.blockShape?_cons, Arr.blockShape?_nil_nil, dropTo_sizeOf? _ _ hcR] at hsh
      cases hzR : (FuseP.ixM B [freeAxes B.ndim []] 0).sizeOf? cR with
      | none => simp [hzR] at hsh
      | some dR =>
        simp only [hzR, Option.bind_some, Option.map_some, Option.some.injEq] at hsh
        exact ⟨cR, dR, rfl, hcR, hzR, hsh.symm⟩
  have hcore : ∀ {cR : Charge} {iR dR : Nat} {Rs : Sector} {oR : List Nat},
      decAx B [freeAxes B.ndim []] 0 cR iR = some (Rs, oR) →
      (FuseP.ixM B [freeAxes B.ndim []] 0).sizeOf? cR = some dR → iR < dR →
      (cfSV A B).elem [cR] [iR] =
        (tensordotBlockwise A B (freeAxes A.ndim []) [] [] (freeAxes B.ndim [])).elem ([] ++ Rs) ([] ++ oR) := by
    intro cR iR dR Rs oR hdR hzR hiR
    obtain ⟨eB, shpR, hshpR, hboxR⟩ := solo_all_elem h.vaB h.phB hneR hdR hzR hiR
    have hRl : Rs.length = B.ndim := (blockShape?_length hshpR).1
    have hoRl : oR.length = B.ndim := (inBox_length hboxR).trans (blockShape?_length hshpR).2
    rw [tensordot_outer' hz1 hz2 A B h.phA h.phB (Arr.allDistinct_of_validB h.vA)
      (Arr.allDistinct_of_validB h.vB) (Arr.shapesOk_of_validB h.vA) (Arr.shapesOk_of_validB h.vB)
      [] Rs [] oR (by rw [hA0]; rfl) hRl (by rw [hA0]; rfl) hoRl (by
        rw [hAi, List.nil_append, List.nil_append, List.nil_append, Arr.blockShapeD, hshpR]
        exact hboxR)]
    rw [← eB]
    have := tensordot_outer' hz1 hz2 A (FuseP.fusedArrM B [freeAxes B.ndim []]) h.phA h.phB
      (Arr.allDistinct_of_validB h.vA) (Arr.allDistinct_of_validB hvbf)
      (Arr.shapesOk_of_validB h.vA) (Arr.shapesOk_of_validB hvbf)
      [] [cR] [] [iR] (by rw [hA0]; rfl) (by rw [e2]; rfl) (by rw [hA0]; rfl) (by rw [e2]; rfl) (by
        rw [hAi, iB]
        simp only [List.nil_append, Arr.blockShapeD, Arr.blockShape?_cons,
          Arr.blockShape?_nil_nil, hzR, Option.bind_some, Option.map_some, Option.getD_some, inBox,
          hiR, decide_true, Bool.and_self])
    rw [e2, hL, freeAxes_1_nil] at this
    exact this
  generalize hS0 : (cfSV A B).sectors.filterMap (fun s => s[0]?) = S0 at hidx hblock
  have hix0 : (cfSV A B).indices[0]? = some (dropTo (FuseP.ixM B [freeAxes B.ndim []] 0) S0) := by
    rw [hidx]; rfl
  have hm0 : ((freeAxes B.ndim []).length != 1) = true →
      (dropTo (FuseP.ixM B [freeAxes B.ndim []] 0) S0).sub.isSome = true := by
    intro hm
    rw [dropTo_sub _ _ (FuseP.ixM_sub hokB gB0 (by simpa using hm))]; rfl
  obtain ⟨c, hc_ok, hcv, hcf, hc1, hc2, hc3, hc4, hcidx, hback, hfwd⟩ :=
    stage (cfSV A B) 0 ((freeAxes B.ndim []).length != 1) _ hvcf hfcf hix0 hm0
  have hci : c.indices =
      (if ((freeAxes B.ndim []).length != 1) = true then
          ((dropTo (FuseP.ixM B [freeAxes B.ndim []] 0) S0).sub.map (·.1)).getD []
        else [dropTo (FuseP.ixM B [freeAxes B.ndim []] 0) S0]) := by
    rw [hcidx, hidx]
    simp only [List.take_zero, List.drop_succ_cons, List.drop_zero, List.nil_append, List.append_nil]
  have hleg := leg_sizeLe hokB gB0 S0
  refine ⟨c, hc_ok, hcv, by rw [hc1]; exact t1, hcf, by rw [hc2]; exact k3, by rw [hc3]; exact hpcf,
    by rw [hc4]; exact t5, ?_, ?_, ?_, ?_⟩
  · have := hleg.length_eq
    rw [hci, this, hL, permuted_length _ _ (by simpa [ebn] using mem_freeAxes_lt)]
    simp
  · intro K2 V2 hl2 J2 hJ2
    obtain ⟨ns, Bx, segR, nR, hmem, hK2, hsegR, _, hget⟩ := hback K2 V2 hl2
    obtain ⟨cR, dR, rfl, hcR, hzR, hBxs⟩ := hblock hmem
    simp only [List.take_zero, List.nil_append, List.drop_succ_cons, List.append_nil,
      List.drop_nil] at hK2
    subst hK2
    obtain ⟨iR, hdecR, hg, hbox⟩ := hget J2 hJ2
    simp only [List.take_zero, List.nil_append, Nat.zero_add, List.drop_zero, List.getD_cons_zero,
      List.singleton_append] at hdecR hg hbox
    rw [hBxs] at hbox
    have hl := inBox_length hbox
    simp only [List.length_cons, List.length_nil] at hl
    have hrest : J2.drop nR = [] := by
      apply List.eq_nil_of_length_eq_zero; omega
    rw [hrest] at hbox hg
    simp only [inBox, Bool.and_eq_true, decide_eq_true_eq, and_true] at hbox
    have hoR : J2.take nR = J2 := by
      have := List.take_append_drop nR J2
      rw [hrest, List.append_nil] at this; exact this
    rw [hoR] at hdecR
    rw [decIx_dropTo gB0 S0 hcR] at hdecR
    have := hcore hdecR hzR hbox
    rw [List.nil_append, List.nil_append] at this
    rw [hg, ← this]
    exact (Arr.elem_of_mem hdcf hpcf hmem [iR]).symm
  · intro s hs
    rw [tensordotBlockwise_sectors_eq, List.mem_eraseDups, mem_tdKeys] at hs
    obtain ⟨x, hx, y', hy', _, rfl⟩ := hs
    obtain ⟨sb, hsb, rfl⟩ := List.mem_map.mp hy'
    have hsec : [FuseP.cM (a := B) (groups := [freeAxes B.ndim []]) sb 0] ∈ (cfSV A B).sectors := by
      unfold cfSV
      rw [tensordotBlockwise_sectors_eq, List.mem_eraseDups, mem_tdKeys]
      obtain ⟨Bb, hBb, _⟩ := FuseP.fusedBlockM_exists h.vaB hokB hsb
      rw [solo_newSector hpB] at hBb
      exact ⟨_, hx, _, List.mem_map.mpr ⟨_, alookup_mem hBb, rfl⟩, rfl, by simp [permuted]⟩
    obtain ⟨⟨ns, Bx⟩, hmem, hnse⟩ := List.mem_map.mp hsec
    simp only at hnse
    subst hnse
    have hcR : FuseP.cM (a := B) (groups := [freeAxes B.ndim []]) sb 0 ∈ S0 := by
      rw [← hS0]; exact List.mem_filterMap.mpr ⟨_, hsec, rfl⟩
    have h2 := hfwd _ Bx hmem (permuted sb.1 (freeAxes B.ndim []))
      (by simpa using segOf_stored h.vaB hokB gB0 hsb S0 hcR)
    rw [hL]
    simpa [permuted] using h2
  · rw [hci, hL]
    have e : permuted A.indices [] = [] := rfl
    rw [e, List.nil_append]; exact hleg

/-- **no contracted axes, right operand of rank 0, aligned operands.** -/
theorem Ctx0.outer_vs [AddCommMonoid R] [Mul R] [Neg R]
    (hz1 : ∀ x : R, 0 * x = 0) (hz2 : ∀ x : R, x * 0 = 0) {A B : Arr R}
    (h : Ctx0 A B [] []) (hneL : freeAxes A.ndim [] ≠ []) (hR : freeAxes B.ndim [] = []) :
    ∃ c, (if ((freeAxes A.ndim []).length != 1) = true then unfuseA (cfVS A B) 0
          else pure (cfVS A B)) = .ok c
      ∧ c.validB = true
      ∧ c.sym = A.sym ∧ c.fermi = false ∧ c.charge = A.sym.combine [A.charge, B.charge]
      ∧ c.phases = [] ∧ c.oddpos = A.oddpos
      ∧ c.indices.length = (freeAxes A.ndim []).length + (freeAxes B.ndim []).length
      ∧ (∀ K V, alookup c.blocks K = some V → ∀ J, inBox V.shape J = true →
          V.get J = (tensordotBlockwise A B (freeAxes A.ndim []) [] [] (freeAxes B.ndim [])).elem K J)
      ∧ (∀ s ∈ (tensordotBlockwise A B (freeAxes A.ndim []) [] [] (freeAxes B.ndim [])).sectors,
          s ∈ c.sectors)
      ∧ List.Forall₂ SizeLe c.indices (permuted A.indices (freeAxes A.ndim [])
            ++ permuted B.indices (freeAxes B.ndim [])) := by
  have hB0 : B.ndim = 0 := ndim_zero_of_free_nil hR
  have hBi : B.indices = [] := List.eq_nil_of_length_eq_zero hB0
  have hpA := solo_all hneL
  have hokA := hpA.groupsOk
  have gA0 : ([freeAxes A.ndim []] : List (List Nat))[0]? = some (freeAxes A.ndim []) := rfl
  have hvaf := fused_solo_validB h.vA h.fA hpA
  have iA : (FuseP.fusedArrM A [freeAxes A.ndim []]).indices = [FuseP.ixM A [freeAxes A.ndim []] 0] :=
    solo_newIdx hpA
  have e1 : (FuseP.fusedArrM A [freeAxes A.ndim []]).ndim = 1 := by
    show (FuseP.fusedArrM A [freeAxes A.ndim []]).indices.length = 1; rw [iA]; rfl
  have ean : A.indices.length = A.ndim := rfl
  have hvcf : (cfVS A B).validB = true := by
    have := ValidP.tensordotBlockwise_valid (FuseP.fusedArrM A [freeAxes A.ndim []]) B [] []
      ((ValidP.validB_iff _).mp hvaf) ((ValidP.validB_iff _).mp h.vB) h.sym h.fA
      (by unfold ValidP.oppositeDualsB; simp) (by simp) (by simp) (by simp) (by simp)
    rw [e1, without_range, without_range, hR, freeAxes_1_nil] at this
    exact (ValidP.validB_iff _).mpr this
  obtain ⟨t1, t2, t3, t4, t5⟩ := tensordotBlockwise_fields
    (FuseP.fusedArrM A [freeAxes A.ndim []]) B [0] [] [] []
  obtain ⟨u1, u2, u3, u4, u5⟩ := fusedArrM_fields A [freeAxes A.ndim []]
  have k1 : (cfVS A B).sym = A.sym := t1.trans u1
  have k3 : (cfVS A B).charge = A.sym.combine [A.charge, B.charge] := by
    unfold cfVS; rw [t3, u1, u3]
  have k5 : (cfVS A B).oddpos = A.oddpos := t5.trans u5
  have hfcf : (cfVS A B).fermi = false := (t2.trans u2).trans h.fA
  have hpcf : (cfVS A B).phases = [] := (t4.trans u4).trans h.phA
  have hdcf : allDistinct (cfVS A B).sectors = true := Arr.allDistinct_of_validB hvcf
  have hidx : (cfVS A B).indices =
      [dropTo (FuseP.ixM A [freeAxes A.ndim []] 0) ((cfVS A B).sectors.filterMap (fun s => s[0]?))] := by
    unfold cfVS
    rw [tensordotBlockwise_indices, without_nil, without_nil, hBi, iA]
    rfl
  have hblock : ∀ {ns : Sector} {Bx : Blk R}, (ns, Bx) ∈ (cfVS A B).blocks →
      ∃ cL dL, ns = [cL] ∧ cL ∈ (cfVS A B).sectors.filterMap (fun s => s[0]?)
        ∧ (FuseP.ixM A [freeAxes A.ndim []] 0).sizeOf? cL = some dL ∧ Bx.shape = [dL] := by
    intro ns Bx hm
    have hsh := Arr.shapesOk_of_validB hvcf (ns, Bx) hm
    have hsec : ns ∈ (cfVS A B).sectors := List.mem_map.mpr ⟨_, hm, rfl⟩
    rw [hidx] at hsh
    obtain ⟨hl, _⟩ := blockShape?_length hsh
    match ns, hl with
    | [cL], _ =>
      have hcL : cL ∈ (cfVS A B).sectors.filterMap (fun s => s[0]?) :=
        List.mem_filterMap.mpr ⟨_, hsec, rfl⟩
      simp only [Arr.blockShape?_cons, Arr.blockShape?_nil_nil, dropTo_sizeOf? _ _ hcL] at hsh
      cases hzL : (FuseP.ixM A [freeAxes A.ndim []] 0).sizeOf? cL with
      | none => simp [hzL] at hsh
      | some dL =>
        simp only [hzL, Option.bind_some, Option.map_some, Option.some.injEq] at hsh
        exact ⟨cL, dL, rfl, hcL, hzL, hsh.symm⟩
  have hcore : ∀ {cL : Charge} {iL dL : Nat} {Ls : Sector} {oL : List Nat},
      decAx A [freeAxes A.ndim []] 0 cL iL = some (Ls, oL) →
      (FuseP.ixM A [freeAxes A.ndim []] 0).sizeOf? cL = some dL → iL < dL →
      (cfVS A B).elem [cL] [iL] =
        (tensordotBlockwise A B (freeAxes A.ndim []) [] [] (freeAxes B.ndim [])).elem (Ls ++ []) (oL ++ []) := by
    intro cL iL dL Ls oL hdL hzL hiL
    obtain ⟨eA, shpL, hshpL, hboxL⟩ := solo_all_elem h.vaA h.phA hneL hdL hzL hiL
    have hLl : Ls.length = A.ndim := (blockShape?_length hshpL).1
    have hoLl : oL.length = A.ndim := (inBox_length hboxL).trans (blockShape?_length hshpL).2
    rw [tensordot_outer' hz1 hz2 A B h.phA h.phB (Arr.allDistinct_of_validB h.vA)
      (Arr.allDistinct_of_validB h.vB) (Arr.shapesOk_of_validB h.vA) (Arr.shapesOk_of_validB h.vB)
      Ls [] oL [] hLl (by rw [hB0]; rfl) hoLl (by rw [hB0]; rfl) (by
        rw [hBi, List.append_nil, List.append_nil, List.append_nil, Arr.blockShapeD, hshpL]
        exact hboxL)]
    rw [← eA]
    have := tensordot_outer' hz1 hz2 (FuseP.fusedArrM A [freeAxes A.ndim []]) B h.phA h.phB
      (Arr.allDistinct_of_validB hvaf) (Arr.allDistinct_of_validB h.vB)
      (Arr.shapesOk_of_validB hvaf) (Arr.shapesOk_of_validB h.vB)
      [cL] [] [iL] [] (by rw [e1]; rfl) (by rw [hB0]; rfl) (by rw [e1]; rfl) (by rw [hB0]; rfl) (by
        rw [hBi, iA]
        simp only [List.append_nil, Arr.blockShapeD, Arr.blockShape?_cons,
          Arr.blockShape?_nil_nil, hzL, Option.bind_some, Option.map_some, Option.getD_some, inBox,
          hiL, decide_true, Bool.and_self])
    rw [e1, hR, freeAxes_1_nil] at this
    exact this
  generalize hS0 : (cfVS A B).sectors.filterMap (fun s => s[0]?) = S0 at hidx hblock
  have hix0 : (cfVS A B).indices[0]? = some (dropTo (FuseP.ixM A [freeAxes A.ndim []] 0) S0) := by
    rw [hidx]; rfl
  have hm0 : ((freeAxes A.ndim []).length != 1) = true →
      (dropTo (FuseP.ixM A [freeAxes A.ndim []] 0) S0).sub.isSome = true := by
    intro hm
    rw [dropTo_sub _ _ (FuseP.ixM_sub hokA gA0 (by simpa using hm))]; rfl
  obtain ⟨c, hc_ok, hcv, hcf, hc1, hc2, hc3, hc4, hcidx, hback, hfwd⟩ :=
    stage (cfVS A B) 0 ((freeAxes A.ndim []).length != 1) _ hvcf hfcf hix0 hm0
  have hci : c.indices =
      (if ((freeAxes A.ndim []).length != 1) = true then
          ((dropTo (FuseP.ixM A [freeAxes A.ndim []] 0) S0).sub.map (·.1)).getD []
        else [dropTo (FuseP.ixM A [freeAxes A.ndim []] 0) S0]) := by
    rw [hcidx, hidx]
    simp only [List.take_zero, List.drop_succ_cons, List.drop_zero, List.nil_append, List.append_nil]
  have hleg := leg_sizeLe hokA gA0 S0
  refine ⟨c, hc_ok, hcv, by rw [hc1]; exact k1, hcf, by rw [hc2]; exact k3, by rw [hc3]; exact hpcf,
    by rw [hc4]; exact k5, ?_, ?_, ?_, ?_⟩
  · have := hleg.length_eq
    rw [hci, this, hR, permuted_length _ _ (by simpa [ean] using mem_freeAxes_lt)]
    rfl
  · intro K2 V2 hl2 J2 hJ2
    obtain ⟨ns, Bx, segL, nL, hmem, hK2, hsegL, _, hget⟩ := hback K2 V2 hl2
    obtain ⟨cL, dL, rfl, hcL, hzL, hBxs⟩ := hblock hmem
    simp only [List.take_zero, List.nil_append, List.drop_succ_cons, List.append_nil,
      List.drop_nil] at hK2
    subst hK2
    obtain ⟨iL, hdecL, hg, hbox⟩ := hget J2 hJ2
    simp only [List.take_zero, List.nil_append, Nat.zero_add, List.drop_zero, List.getD_cons_zero,
      List.singleton_append] at hdecL hg hbox
    rw [hBxs] at hbox
    have hl := inBox_length hbox
    simp only [List.length_cons, List.length_nil] at hl
    have hrest : J2.drop nL = [] := by
      apply List.eq_nil_of_length_eq_zero; omega
    rw [hrest] at hbox hg
    simp only [inBox, Bool.and_eq_true, decide_eq_true_eq, and_true] at hbox
    have hoL : J2.take nL = J2 := by
      have := List.take_append_drop nL J2
      rw [hrest, List.append_nil] at this; exact this
    rw [hoL] at hdecL
    rw [decIx_dropTo gA0 S0 hcL] at hdecL
    have := hcore hdecL hzL hbox
    rw [List.append_nil, List.append_nil] at this
    rw [hg, ← this]
    exact (Arr.elem_of_mem hdcf hpcf hmem [iL]).symm
  · intro s hs
    rw [tensordotBlockwise_sectors_eq, List.mem_eraseDups, mem_tdKeys] at hs
    obtain ⟨x, hx, y', hy', _, rfl⟩ := hs
    obtain ⟨sa, hsa, rfl⟩ := List.mem_map.mp hx
    have hsec : [FuseP.cM (a := A) (groups := [freeAxes A.ndim []]) sa 0] ∈ (cfVS A B).sectors := by
      unfold cfVS
      rw [tensordotBlockwise_sectors_eq, List.mem_eraseDups, mem_tdKeys]
      obtain ⟨Ba, hBa, _⟩ := FuseP.fusedBlockM_exists h.vaA hokA hsa
      rw [solo_newSector hpA] at hBa
      exact ⟨_, List.mem_map.mpr ⟨_, alookup_mem hBa, rfl⟩, _, hy', rfl, by simp [permuted]⟩
    obtain ⟨⟨ns, Bx⟩, hmem, hnse⟩ := List.mem_map.mp hsec
    simp only at hnse
    subst hnse
    have hcL : FuseP.cM (a := A) (groups := [freeAxes A.ndim []]) sa 0 ∈ S0 := by
      rw [← hS0]; exact List.mem_filterMap.mpr ⟨_, hsec, rfl⟩
    have h2 := hfwd _ Bx hmem (permuted sa.1 (freeAxes A.ndim []))
      (by simpa using segOf_stored h.vaA hokA gA0 hsa S0 hcL)
    rw [hR]
    simpa [permuted] using h2
  · rw [hci, hR]
    have e : permuted B.indices [] = [] := rfl
    rw [e, List.append_nil]; exact hleg

end TdotP
end SymmModel
