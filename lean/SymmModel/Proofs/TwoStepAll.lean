/-
  SymmModel.Proofs.TwoStepAll — "several pairs at once or one after another" (C04): the statements of
  TwoStepFinal / TwoStepFrame from the hypotheses of the property theorem.  Namespace `SymmModel.TwoStepP`.
-/
import SymmModel.Proofs.TwoStepFrame
import SymmModel.Proofs.ValidMore2Einsum

namespace SymmModel
namespace TwoStepP
open TdotP GradedP RoutesP AssocP KoszulP Assoc3P
open Lazy (sgnI)
set_option linter.unusedSectionVars false

variable {R : Type} [AddCommMonoid R] [Mul R] [Neg R] [SignRing R]

/-- the two calls of the property give the shared context -/
theorem two_step_ctx {a b c c' : Arr R} {xa xb ya yb : List Nat}
    (ha : a.validB = true) (hb : b.validB = true) (hfa : a.fermi = true) (hfb : b.fermi = true)
    (g1 : tdotAdmissibleCommonB a b xa xb = true)
    (g2 : tdotAdmissibleCommonB a b (xa ++ ya) (xb ++ yb) = true)
    (h1 : a.tensordotF b (.pair (xa.map Int.ofNat) (xb.map Int.ofNat)) .blockwise = .ok c)
    (h3 : a.tensordotF b (.pair ((xa ++ ya).map Int.ofNat) ((xb ++ yb).map Int.ofNat)) .blockwise
      = .ok c') :
    ∃ ph, Ctx a b c xa xb ya yb ph ∧ Inter a b (xa ++ ya) (xb ++ yb) c' ph ∧ c.oddpos = c'.oddpos := by
  have W1 := AdmW.of ha hb hfa hfb g1
  have W2 := AdmW.of ha hb hfa hfb g2
  obtain ⟨r, hm, o1, I⟩ := inter_norm W1 h1
  obtain ⟨r', hm', o2, I'⟩ := inter_norm W2 h3
  rw [hm] at hm'
  obtain rfl := Except.ok.inj hm'
  exact ⟨_, ⟨W1, W2, I⟩, I', o1.trans o2.symm⟩

/-- the frame of the single-array einsum -/
theorem einsumF_frame' {c e : Arr R} {lhs rhs : List Nat}
    (h : c.einsumF lhs rhs = .ok e) :
    e.oddpos = c.oddpos ∧ e.charge = c.charge ∧ e.sym = c.sym ∧ e.fermi = c.fermi := by
  rw [Lazy.einsumF_eq] at h
  split at h
  · cases h
  · obtain ⟨perm, _, _, rfl⟩ := ValidP.einsumA_ok h
    exact ⟨rfl, rfl, rfl, rfl⟩

/-- **everything about the two-step result** -/
theorem two_step_all (a b c e c' : Arr R) (xa xb ya yb : List Nat)
    (ha : a.validB = true) (hb : b.validB = true) (hfa : a.fermi = true) (hfb : b.fermi = true)
    (g1 : tdotAdmissibleCommonB a b xa xb = true)
    (g2 : tdotAdmissibleCommonB a b (xa ++ ya) (xb ++ yb) = true)
    (h1 : a.tensordotF b (.pair (xa.map Int.ofNat) (xb.map Int.ofNat)) .blockwise = .ok c)
    (h2 : c.einsumF (tsLhs a.ndim b.ndim xa xb ya yb) (tsRhs a.ndim b.ndim xa xb ya yb) = .ok e)
    (h3 : a.tensordotF b (.pair ((xa ++ ya).map Int.ofNat) ((xb ++ yb).map Int.ofNat)) .blockwise
      = .ok c') :
    e.oddpos = c'.oddpos ∧ e.charge = c'.charge ∧ e.sym = c'.sym ∧ e.fermi = c'.fermi
    ∧ e.ndim = c'.ndim
    ∧ (∀ s, s ∈ e.sectors ↔ s ∈ c'.sectors)
    ∧ (∀ s ∈ c'.sectors, Arr.blockShapeD e.indices s = Arr.blockShapeD c'.indices s)
    ∧ (∀ s ∈ c'.sectors, ∀ o, inBox (Arr.blockShapeD c'.indices s) o = true → e.elem s o = c'.elem s o)
    ∧ (∀ s, s ∉ c'.sectors → ∀ o, e.elem s o = 0 ∧ c'.elem s o = 0)
    ∧ (∀ j, j < c'.ndim → ∃ ix : Index,
        Pruned (e.indices.getD j default) ix ∧ Pruned (c'.indices.getD j default) ix) := by
  obtain ⟨ph, C, I', ho⟩ := two_step_ctx ha hb hfa hfb g1 g2 h1 h3
  obtain ⟨f1, f2, f3, f4⟩ := einsumF_frame' h2
  refine ⟨f1.trans ho, by rw [f2, C.I.charge, I'.charge], by rw [f3, C.I.sym, I'.sym],
    by rw [f4, C.I.fermi, I'.fermi], two_step_ndim C I' h2, two_step_sectors C I' h2,
    fun s hs => (two_step_shape C I' h2 s hs).1, ?_, ?_, two_step_legs C I' h2⟩
  · intro s hs o ho'
    have hsh := (two_step_shape C I' h2 s hs).2
    obtain ⟨shp, _, e2, e3, _⟩ := shape_of_mem (Arr.shapesOk_of_validB I'.valid) hs
    have hol : o.length = c'.ndim := by rw [inBox_length ho', e2, e3]
    have hn : (freeAxes a.ndim (xa ++ ya)).length ≤ o.length := by rw [hol, I'.ndim]; omega
    have := two_step_elem a b c e c' xa xb ya yb ha hb hfa hfb g1 g2 h1 h2 h3 s
      (o.take (freeAxes a.ndim (xa ++ ya)).length) (o.drop (freeAxes a.ndim (xa ++ ya)).length)
      (by rw [List.length_take]; omega) (by rw [List.take_append_drop, ← hsh]; exact ho')
    rwa [List.take_append_drop] at this
  · intro s hs o
    exact ⟨Arr.elem_of_not_mem (fun h => hs ((two_step_sectors C I' h2 s).mp h)) o,
      Arr.elem_of_not_mem hs o⟩

end TwoStepP
end SymmModel
