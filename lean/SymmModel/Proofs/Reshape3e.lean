/-
  SymmModel.Proofs.Reshape3e — the unbounded planner theorem of C07, part e: the fuse phase.
  `fuseLoop` collects adjacent groups into one `fuse(*groups)` call; executing the calls on the
  symbolic shape multiplies out every `g` segment and leaves the other axes alone.
-/
import SymmModel.Proofs.Reshape3d
namespace SymmModel.Reshape3
open SymmModel SymmModel.Reshape SymmModel.C07

/-- `current_groups` for the pending groups `C`, the first starting at axis `p` -/
def curOf : Nat → List (Nat × List E) → List (List Nat)
  | _, [] => []
  | p, c :: C => List.range' p c.2.length :: curOf (p + c.2.length) C

def cSegs (C : List (Nat × List E)) : List Seg := C.map (fun c => Seg.g c.1 c.2)

theorem cSegs_append (A B : List (Nat × List E)) : cSegs (A ++ B) = cSegs A ++ cSegs B := by
  simp [cSegs]

theorem curOf_append : ∀ (A B : List (Nat × List E)) (p : Nat),
    curOf p (A ++ B) = curOf p A ++ curOf (p + (flatE (cSegs A)).length) B := by
  intro A
  induction A with
  | nil => intro B p; simp [curOf, cSegs]
  | cons a A ih =>
    intro B p
    simp only [List.cons_append, curOf, ih, cSegs, List.map_cons, flatE_cons, Seg.ax,
      List.length_append, Nat.add_assoc]

theorem curOf_length (p : Nat) (C : List (Nat × List E)) : (curOf p C).length = C.length := by
  induction C generalizing p with
  | nil => rfl
  | cons c C ih => simp [curOf, ih]

theorem curOf_sum : ∀ (C : List (Nat × List E)) (p : Nat),
    sumN ((curOf p C).map List.length) = (flatE (cSegs C)).length := by
  intro C
  induction C with
  | nil => intro p; rfl
  | cons c C ih => intro p; simp [curOf, sumN, ih, cSegs, Seg.ax]

theorem range'_append' (p m n : Nat) : List.range' p m ++ List.range' (p + m) n = List.range' p (m + n) := by
  induction m generalizing p with
  | zero => simp
  | succ m ih =>
    have : m + 1 + n = (m + n) + 1 := by omega
    rw [this, List.range'_succ, List.range'_succ, List.cons_append]
    have e : p + (m + 1) = p + 1 + m := by omega
    rw [e, ih]

theorem curOf_flatten : ∀ (C : List (Nat × List E)) (p : Nat),
    (curOf p C).flatten = List.range' p (flatE (cSegs C)).length := by
  intro C
  induction C with
  | nil => intro p; simp [curOf, cSegs]
  | cons c C ih =>
    intro p
    simp only [curOf, List.flatten_cons, ih, cSegs, List.map_cons, flatE_cons, Seg.ax,
      List.length_append]
    exact range'_append' _ _ _

theorem flatL_cSegs_length (C : List (Nat × List E)) :
    (flatL (cSegs C)).length = (flatE (cSegs C)).length := flatL_length _

/-- the sizes of the fused groups -/
theorem curOf_sizes : ∀ (C : List (Nat × List E)) (pre rest : SymShape),
    SymShape.sizes ((curOf pre.length C).map (symGroup (pre ++ flatE (cSegs C) ++ rest)))
      = flatK (cSegs C) := by
  intro C
  induction C with
  | nil => intro pre rest; rfl
  | cons c C ih =>
    intro pre rest
    simp only [curOf, List.map_cons, cSegs, flatK_cons, Seg.outK, flatE_cons, Seg.ax]
    have e : pre ++ (c.2 ++ flatE (List.map (fun c => Seg.g c.1 c.2) C)) ++ rest
        = (pre ++ c.2) ++ flatE (cSegs C) ++ rest := by simp [cSegs]
    have e2 : pre.length + c.2.length = (pre ++ c.2).length := by simp
    simp only [SymShape.sizes, List.map_cons, List.singleton_append] at ih ⊢
    rw [e, e2, ih (pre ++ c.2) rest]
    have e3 : ((pre ++ c.2 ++ flatE (cSegs C) ++ rest).drop pre.length).take c.2.length = c.2 := by
      rw [List.append_assoc, List.append_assoc, List.drop_left' rfl, List.take_left' rfl]
    rw [symGroup_size, range'_map_getD _ _ _ (by simp), e3]
    rfl

theorem curOf_all_nonempty (C : List (Nat × List E)) (p : Nat) (h : ∀ c ∈ C, 1 ≤ c.2.length) :
    (curOf p C).all (fun g => !g.isEmpty) = true := by
  induction C generalizing p with
  | nil => rfl
  | cons c C ih =>
    simp only [curOf, List.all_cons, Bool.and_eq_true]
    refine ⟨?_, ih _ (fun c hc => h c (by simp [hc]))⟩
    have := h c (by simp)
    cases hc : c.2 with
    | nil => rw [hc] at this; simp at this
    | cons a b => simp [List.range'_succ]

/-- one `fuse(*current_groups)` call on the symbolic shape -/
theorem symFuse_cur (P : SymShape) (C : List (Nat × List E)) (rest : SymShape) (hC : C ≠ [])
    (h : ∀ c ∈ C, 1 ≤ c.2.length) :
    symFuse (P ++ flatE (cSegs C) ++ rest) (curOf P.length C)
      = some (P ++ (curOf P.length C).map (symGroup (P ++ flatE (cSegs C) ++ rest)) ++ rest) := by
  unfold symFuse
  simp only [curOf_flatten]
  have hpos : 1 ≤ (flatE (cSegs C)).length := by
    cases C with
    | nil => exact (hC rfl).elim
    | cons c C => have := h c (by simp); simp [cSegs, Seg.ax]; omega
  obtain ⟨n, hn⟩ : ∃ n, (flatE (cSegs C)).length = n + 1 := ⟨_, (Nat.sub_add_cancel hpos).symm⟩
  rw [hn, List.range'_succ]
  simp only [curOf_all_nonempty C _ h, Bool.true_and, List.length_cons, List.length_range']
  rw [← List.range'_succ, beqNats_refl]
  have hle : Nat.ble (P.length + (n + 1)) (P ++ flatE (cSegs C) ++ rest).length = true := by
    apply Nat.ble_eq_true_of_le; simp [hn]
  simp only [hle, Bool.true_and, if_true]
  congr 2
  · simp
  · rw [← hn]; simp [List.drop_append]

/-- **the fuse phase**: invariant of `fuseLoop` -/
theorem fuseLoop_segs (fs : List Nat) : ∀ (fuel : Nat) (P : SymShape) (C : List (Nat × List E))
    (Q : List Seg) (acc res : List (List (List Nat))),
    OG Q → (∀ k es, Seg.g k es ∈ Q → fs[k]? = some es.length ∧ 1 ≤ es.length) →
    (∀ c ∈ C, 1 ≤ c.2.length) →
    fuseLoop fs fuel (P.length + (flatE (cSegs C)).length)
      (List.replicate P.length Lbl.o ++ flatL (cSegs C) ++ flatL Q) (curOf P.length C) acc = .ok res →
    ∃ new Z, res = acc ++ new
      ∧ foldOpt symFuse new (P ++ flatE (cSegs C) ++ flatE Q) = some Z
      ∧ SymShape.sizes Z = SymShape.sizes P ++ flatK (cSegs C) ++ flatK Q := by
  intro fuel
  induction fuel with
  | zero => intro P C Q acc res _ _ _ h; simp [fuseLoop, throw, throwThe, MonadExceptOf.throw] at h
  | succ fuel ih =>
    intro P C Q acc res hQ hfs hC h
    have hi : P.length + (flatE (cSegs C)).length
        = (List.replicate P.length Lbl.o ++ flatL (cSegs C)).length := by
      simp [flatL_cSegs_length]
    -- closing the pending groups
    have close : C ≠ [] → ∀ rest : SymShape,
        symFuse (P ++ flatE (cSegs C) ++ rest) (curOf P.length C)
          = some (P ++ (curOf P.length C).map (symGroup (P ++ flatE (cSegs C) ++ rest)) ++ rest)
        ∧ SymShape.sizes ((curOf P.length C).map (symGroup (P ++ flatE (cSegs C) ++ rest)))
          = flatK (cSegs C) :=
      fun hne rest => ⟨symFuse_cur P C rest hne hC, curOf_sizes C P rest⟩
    cases Q with
    | nil =>
      have hnone : (List.replicate P.length Lbl.o ++ flatL (cSegs C) ++ flatL [])[P.length + (flatE (cSegs C)).length]?
          = none := by
        rw [hi]; simp
      simp only [fuseLoop, hnone, pure, Except.pure] at h
      injection h with h
      cases C with
      | nil =>
        simp only [curOf, List.isEmpty_nil, if_true] at h
        exact ⟨[], P, by simp [← h], by simp [foldOpt, cSegs], by simp [cSegs]⟩
      | cons c C' =>
        obtain ⟨h1, h2⟩ := close (by simp) []
        simp only [curOf, List.isEmpty_cons, Bool.false_eq_true, if_false] at h
        refine ⟨[curOf P.length (c :: C')], P ++ (curOf P.length (c :: C')).map
          (symGroup (P ++ flatE (cSegs (c :: C')) ++ [])) ++ [], by rw [← h]; rfl, ?_, ?_⟩
        · simp only [foldOpt, flatE_nil]
          rw [h1]
        · simp only [List.append_nil] at h2
          simp only [List.append_nil, sizes_append, flatK_nil]
          rw [h2]
    | cons X Q' =>
      have hQ' : OG Q' := fun a ha => hQ a (by simp [ha])
      have hfs' : ∀ k es, Seg.g k es ∈ Q' → fs[k]? = some es.length ∧ 1 ≤ es.length :=
        fun k es hm => hfs k es (by simp [hm])
      have hX := hQ X (by simp)
      cases X with
      | s e => simp [Seg.isOG] at hX
      | u _ _ _ => simp [Seg.isOG] at hX
      | x => simp [Seg.isOG] at hX
      | o e =>
        have hcur : (List.replicate P.length Lbl.o ++ flatL (cSegs C) ++ flatL (Seg.o e :: Q'))[P.length + (flatE (cSegs C)).length]?
            = some Lbl.o := by
          rw [hi, List.getElem?_append_right (Nat.le_refl _)]; simp [Seg.lbl]
        simp only [fuseLoop, hcur] at h
        cases C with
        | nil =>
          simp only [curOf, List.isEmpty_nil, Bool.not_true, Bool.false_eq_true, if_false] at h
          have e1 : P.length + (flatE (cSegs [])).length + 1 = (P ++ [e]).length + (flatE (cSegs [])).length := by
            simp [cSegs]
          have e2 : List.replicate P.length Lbl.o ++ flatL (cSegs []) ++ flatL (Seg.o e :: Q')
              = List.replicate (P ++ [e]).length Lbl.o ++ flatL (cSegs []) ++ flatL Q' := by
            simp [cSegs, Seg.lbl, List.replicate_succ']
          rw [e1, e2] at h
          obtain ⟨new, Z, h1, h2, h3⟩ := ih (P ++ [e]) [] Q' acc res hQ' hfs' (by simp) h
          refine ⟨new, Z, h1, ?_, ?_⟩
          · simpa [cSegs, Seg.ax] using h2
          · simpa [cSegs, Seg.outK, sizes_append, SymShape.sizes] using h3
        | cons c C' =>
          obtain ⟨h1, h2⟩ := close (by simp) (flatE (Seg.o e :: Q'))
          generalize hCC : c :: C' = CC at *
          have hne : (curOf P.length CC).isEmpty = false := by rw [← hCC]; rfl
          simp only [hne, Bool.not_false, if_true] at h
          rw [curOf_sum, curOf_length] at h
          have e0 : P.length + (flatE (cSegs CC)).length - (flatE (cSegs CC)).length = P.length := by omega
          rw [e0] at h
          obtain ⟨G, hG⟩ : ∃ G, G = (curOf P.length CC).map
            (symGroup (P ++ flatE (cSegs CC) ++ flatE (Seg.o e :: Q'))) := ⟨_, rfl⟩
          rw [← hG] at h1 h2
          have hGl : G.length = CC.length := by simp [hG, curOf_length]
          have e1 : P.length + CC.length = (P ++ G).length + (flatE (cSegs [])).length := by
            simp [cSegs, hGl]
          have e2 : (List.replicate P.length Lbl.o ++ flatL (cSegs CC) ++ flatL (Seg.o e :: Q')).take P.length
                ++ List.replicate CC.length Lbl.o
                ++ (List.replicate P.length Lbl.o ++ flatL (cSegs CC) ++ flatL (Seg.o e :: Q')).drop
                    (P.length + (flatE (cSegs CC)).length)
              = List.replicate (P ++ G).length Lbl.o ++ flatL (cSegs []) ++ flatL (Seg.o e :: Q') := by
            rw [hi, List.drop_left' rfl, List.append_assoc (List.replicate P.length Lbl.o),
              List.take_left' (by simp)]
            simp [cSegs, hGl, List.replicate_append_replicate]
          rw [e1, e2] at h
          have hcur0 : curOf (P ++ G).length [] = [] := rfl
          rw [← hcur0] at h
          obtain ⟨new, Z, r1, r2, r3⟩ := ih (P ++ G) [] (Seg.o e :: Q') _ res hQ hfs (by simp) h
          refine ⟨curOf P.length CC :: new, Z, by rw [r1]; simp, ?_, ?_⟩
          · simp only [foldOpt]
            rw [h1]
            simpa [cSegs] using r2
          · rw [r3, sizes_append, h2]; simp [cSegs]
      | g k es =>
        obtain ⟨hk, hes⟩ := hfs k es (by simp)
        have hcur : (List.replicate P.length Lbl.o ++ flatL (cSegs C) ++ flatL (Seg.g k es :: Q'))[P.length + (flatE (cSegs C)).length]?
            = some (Lbl.g k) := by
          rw [hi, List.getElem?_append_right (Nat.le_refl _)]
          cases es with
          | nil => simp at hes
          | cons a b => simp [Seg.lbl, List.replicate_succ]
        simp only [fuseLoop, hcur, hk] at h
        have e1 : P.length + (flatE (cSegs C)).length + es.length
            = P.length + (flatE (cSegs (C ++ [(k, es)]))).length := by
          simp [cSegs, Seg.ax]; omega
        have e2 : List.replicate P.length Lbl.o ++ flatL (cSegs C) ++ flatL (Seg.g k es :: Q')
            = List.replicate P.length Lbl.o ++ flatL (cSegs (C ++ [(k, es)])) ++ flatL Q' := by
          simp [cSegs]
        have e3 : curOf P.length C ++ [List.range' (P.length + (flatE (cSegs C)).length) es.length]
            = curOf P.length (C ++ [(k, es)]) := by
          rw [curOf_append]; simp [curOf]
        rw [e1, e2, e3] at h
        obtain ⟨new, Z, r1, r2, r3⟩ := ih P (C ++ [(k, es)]) Q' acc res hQ' hfs'
          (by
            intro c hc
            rcases List.mem_append.mp hc with hc | hc
            · exact hC c hc
            · rw [List.mem_singleton.mp hc]; exact hes) h
        refine ⟨new, Z, r1, ?_, ?_⟩
        · simpa [cSegs_append, cSegs] using r2
        · simpa [cSegs_append, cSegs] using r3

end SymmModel.Reshape3
