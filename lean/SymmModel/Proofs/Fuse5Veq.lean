/-
  SymmModel.Proofs.Fuse5Veq — equality of value views (`VEq`): same frame and the same value at
  every address, whatever is stored; `unfuseF` (and `unfuse`) respect it.
-/
import SymmModel.Proofs.Fuse5Val
namespace SymmModel
namespace FuseP
set_option linter.unusedSectionVars false
open SymmModel.Lazy

variable {R : Type} [Zero R] [Neg R] [LawfulNeg R]

/-- equal value views: same symmetry / kind / indices (with all tables) / charge / labels and the
    same value at every address.  Stored all-zero blocks are not observed. -/
structure VEq (a b : Arr R) : Prop where
  sym : a.sym = b.sym
  fermi : a.fermi = b.fermi
  indices : a.indices = b.indices
  charge : a.charge = b.charge
  oddpos : a.oddpos = b.oddpos
  elem : ∀ s off, a.elem s off = b.elem s off

theorem VEq.refl (a : Arr R) : VEq a a := ⟨rfl, rfl, rfl, rfl, rfl, fun _ _ => rfl⟩
theorem VEq.symm {a b : Arr R} (h : VEq a b) : VEq b a :=
  ⟨h.sym.symm, h.fermi.symm, h.indices.symm, h.charge.symm, h.oddpos.symm, fun s o => (h.elem s o).symm⟩
theorem VEq.trans {a b c : Arr R} (h : VEq a b) (h' : VEq b c) : VEq a c :=
  ⟨h.sym.trans h'.sym, h.fermi.trans h'.fermi, h.indices.trans h'.indices, h.charge.trans h'.charge,
   h.oddpos.trans h'.oddpos, fun s o => (h.elem s o).trans (h'.elem s o)⟩

theorem ObsEq.toVEq {a b : Arr R} (h : ObsEq a b) : VEq a b :=
  ⟨h.sym, h.fermi, h.indices, h.charge, h.oddpos, h.elem⟩

/-- the stored block with its pending sign multiplied in -/
theorem syncBlk_get (a : Arr R) (s : Sector) (b : Blk R) (off : List Nat) :
    (syncBlk a s b).get off = sgnI (phOf a.phases s) (b.get off) := by
  unfold syncBlk sgnI
  split
  · exact Blk.get_negK b off
  · rfl

theorem syncBlk_shape (a : Arr R) (s : Sector) (b : Blk R) : (syncBlk a s b).shape = b.shape := by
  unfold syncBlk; split <;> rfl

theorem syncBlk_wf (a : Arr R) (s : Sector) (b : Blk R) (h : b.wf = true) : (syncBlk a s b).wf = true := by
  unfold syncBlk; split
  · exact ValidP.negK_wf b h
  · exact h

/-- for valid arrays with the same indices, agreement of the values on the boxes is agreement
    everywhere -/
theorem elem_ext_of_inBox {a b : Arr R} (hva : ValidArr a) (hvb : ValidArr b) (hi : a.indices = b.indices)
    (h : ∀ s shp, Arr.blockShape? a.indices s = some shp → ∀ off, inBox shp off = true →
      a.elem s off = b.elem s off) :
    ∀ s off, a.elem s off = b.elem s off := by
  intro s off
  rw [elem_eq, elem_eq]
  cases ha : alookup a.blocks s with
  | none =>
    cases hb : alookup b.blocks s with
    | none => rfl
    | some Bb =>
      simp only
      have hsh := (hvb.blk _ (alookup_some_mem hb)).2.1
      have hz : AllZero (syncBlk b s Bb) := by
        apply allZero_of_get (syncBlk_wf b s Bb (hvb.blk _ (alookup_some_mem hb)).2.2)
        intro J hJ
        rw [syncBlk_shape] at hJ
        have := h s Bb.shape (by rw [hi]; exact hsh) J hJ
        rw [elem_eq, elem_eq, ha, hb] at this
        rw [syncBlk_get]; exact this.symm
      rw [← syncBlk_get]; exact (get_of_allZero hz off).symm
  | some Ba =>
    have hsha := (hva.blk _ (alookup_some_mem ha)).2.1
    simp only
    cases hb : alookup b.blocks s with
    | none =>
      simp only
      have hz : AllZero (syncBlk a s Ba) := by
        apply allZero_of_get (syncBlk_wf a s Ba (hva.blk _ (alookup_some_mem ha)).2.2)
        intro J hJ
        rw [syncBlk_shape] at hJ
        have := h s Ba.shape hsha J hJ
        rw [elem_eq, elem_eq, ha, hb] at this
        rw [syncBlk_get]; exact this
      rw [← syncBlk_get]; exact get_of_allZero hz off
    | some Bb =>
      simp only
      have hshb := (hvb.blk _ (alookup_some_mem hb)).2.1
      rw [← hi, hsha] at hshb
      simp only [Option.some.injEq] at hshb
      have heq : syncBlk a s Ba = syncBlk b s Bb := by
        apply blk_ext_of_get (syncBlk_wf a s Ba (hva.blk _ (alookup_some_mem ha)).2.2)
          (syncBlk_wf b s Bb (hvb.blk _ (alookup_some_mem hb)).2.2)
          (by rw [syncBlk_shape, syncBlk_shape, hshb])
        intro J hJ
        rw [syncBlk_shape] at hJ
        have := h s Ba.shape hsha J hJ
        rw [elem_eq, elem_eq, ha, hb] at this
        rw [syncBlk_get, syncBlk_get]; exact this
      rw [← syncBlk_get, ← syncBlk_get, heq]

/-- `unfuseF` keeps symmetry, charge and labels -/
theorem unfuseF_frame (a : Arr R) (p : Nat) {ix : Index} {subs : List Index} {exts : Extents}
    (hv : a.validB = true) (hix : a.indices[p]? = some ix) (hsub : ix.sub = some (subs, exts)) {y : Arr R}
    (hy : Arr.unfuseF a p = .ok y) : y.sym = a.sym ∧ y.charge = a.charge ∧ y.oddpos = a.oddpos := by
  have hVs := ValidP.phaseSync_valid a ((ValidP.validB_iff a).1 hv)
  have hvs : ValidArr a.phaseSync := validArr_of_core hVs.core
  have hixs : a.phaseSync.indices[p]? = some ix := hix
  obtain ⟨new, hnew, _, hs2, _, hc2, _, ho2, _⟩ := unfuseU hvs hixs hsub
  have hyeq := unfuseF_eq a p hix hsub hnew
  rw [hy] at hyeq
  simp only [Except.ok.injEq] at hyeq
  rw [hyeq]
  split
  · refine ⟨?_, ?_, ?_⟩
    · show (new.phaseFlip _).sym = _
      rw [(ValidP.phaseFlip_fields _ _).2.1]; exact hs2
    · show (new.phaseFlip _).charge = _
      rw [(ValidP.phaseFlip_fields _ _).2.2.1]; exact hc2
    · show (new.phaseFlip _).oddpos = _
      rw [(ValidP.phaseFlip_fields _ _).2.2.2.1]; exact ho2
  · exact ⟨hs2, hc2, ho2⟩

/-- **value view of `unfuseF`** -/
theorem unfuseF_val (a : Arr R) (p : Nat) (ix : Index) (subs : List Index) (exts : Extents)
    (hv : a.validB = true) (hix : a.indices[p]? = some ix) (hsub : ix.sub = some (subs, exts)) :
    ∃ y, Arr.unfuseF a p = .ok y ∧ y.indices = replaceWithSeq a.indices p subs
      ∧ ∀ K shpK, Arr.blockShape? y.indices K = some shpK → ∀ J, inBox shpK J = true →
          y.elem K J = unfVal a.sym ix subs exts p (unfuseSign a ix subs p) a.elem K J := by
  obtain ⟨y, hy, hyidx, hA, hB⟩ := unfuseF_elemM a p ix subs exts hv hix hsub
  exact ⟨y, hy, hyidx, fun K shpK hK J hJ =>
    val_of_cert (unfuseSign a ix subs p) (validArr_of_validB hv) hix hsub hyidx hA hB hK hJ⟩

theorem unfVal_congr {sym : Sym} {ix : Index} {subs : List Index} {exts : Extents} {p : Nat}
    {sgn : Sector → Int} {v v' : Sector → List Nat → R} (h : ∀ s o, v s o = v' s o) (K : Sector) (J : List Nat) :
    unfVal sym ix subs exts p sgn v K J = unfVal sym ix subs exts p sgn v' K J := by
  have : v = v' := funext (fun s => funext (fun o => h s o))
  rw [this]

/-- **`unfuseF` respects equality of value views** -/
theorem unfuseF_veq {a b : Arr R} (h : VEq a b) (hva : a.validB = true) (hvb : b.validB = true)
    (hfa : a.fermi = true) {p : Nat} {ix : Index} {subs : List Index} {exts : Extents}
    (hix : a.indices[p]? = some ix) (hsub : ix.sub = some (subs, exts)) :
    ∃ y y', Arr.unfuseF a p = .ok y ∧ Arr.unfuseF b p = .ok y' ∧ VEq y y' := by
  have hfb : b.fermi = true := by rw [← h.fermi]; exact hfa
  have hixb : b.indices[p]? = some ix := by rw [← h.indices]; exact hix
  obtain ⟨y, hy, hyi, hyv⟩ := unfuseF_val a p ix subs exts hva hix hsub
  obtain ⟨y', hy', hyi', hyv'⟩ := unfuseF_val b p ix subs exts hvb hixb hsub
  obtain ⟨hVy, hfy⟩ := ValidP.unfuseF_valid' a y p ((ValidP.validB_iff a).1 hva) hfa hy
  obtain ⟨hVy', hfy'⟩ := ValidP.unfuseF_valid' b y' p ((ValidP.validB_iff b).1 hvb) hfb hy'
  have hii : y.indices = y'.indices := by rw [hyi, hyi', h.indices]
  have hfr : y.sym = a.sym ∧ y.charge = a.charge ∧ y.oddpos = a.oddpos ∧ y'.sym = b.sym
      ∧ y'.charge = b.charge ∧ y'.oddpos = b.oddpos := by
    have f1 := unfuseF_frame a p hva hix hsub hy
    have f2 := unfuseF_frame b p hvb hixb hsub hy'
    exact ⟨f1.1, f1.2.1, f1.2.2, f2.1, f2.2.1, f2.2.2⟩
  refine ⟨y, y', hy, hy', ⟨by rw [hfr.1, hfr.2.2.2.1, h.sym], by rw [hfy, hfy'], hii,
    by rw [hfr.2.1, hfr.2.2.2.2.1, h.charge], by rw [hfr.2.2.1, hfr.2.2.2.2.2, h.oddpos], ?_⟩⟩
  apply elem_ext_of_inBox (validArr_of_core hVy.core) (validArr_of_core hVy'.core) hii
  intro K shpK hK J hJ
  rw [hyv K shpK hK J hJ, hyv' K shpK (by rw [← hii]; exact hK) J hJ, ← h.sym]
  have hs : unfuseSign a ix subs p = unfuseSign b ix subs p := by
    funext K'
    have hnd : a.ndim = b.ndim := by show a.indices.length = b.indices.length; rw [h.indices]
    simp only [unfuseSign, h.sym, hnd]
  rw [hs]
  exact unfVal_congr h.elem K J

end FuseP
end SymmModel
