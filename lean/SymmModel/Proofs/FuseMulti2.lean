/-
  SymmModel.Proofs.FuseMulti2 — fusing an arbitrary list of groups with the insert strategy:
  shape of the fused blocks, the start offsets, `fuseInsert` as an `insFold`, regions.
-/
import SymmModel.Proofs.FuseMulti1
namespace SymmModel
namespace FuseP
set_option linter.unusedSectionVars false

variable {R : Type}

theorem blockShape?_pointwise {idx : List Index} {s : Sector} {shp : List Nat}
    (h1 : idx.length = s.length) (h2 : shp.length = s.length)
    (h : ∀ ax, ax < s.length → (idx.getD ax default).sizeOf? (s.getD ax (0, 0)) = some (shp.getD ax 0)) :
    Arr.blockShape? idx s = some shp := by
  rw [blockShape?_some_iff]
  refine ⟨h1, ?_⟩
  apply List.ext_getElem
  · simp [h1, h2]
  · intro k hk1 hk2
    simp only [List.length_zipWith, h1, Nat.min_self] at hk1
    have := h k hk1
    simp only [List.getD_eq_getElem?_getD, List.getElem?_eq_getElem (show k < idx.length by omega),
      List.getElem?_eq_getElem hk1, List.getElem?_eq_getElem (show k < shp.length by omega),
      Option.getD_some] at this
    simp [this]

theorem rangeMap_getD {f : Nat → Nat} {n k : Nat} (hk : k < n) : ((List.range n).map f).getD k 0 = f k := by
  simp [List.getD_eq_getElem?_getD, List.getElem?_map, List.getElem?_range hk]

section Multi
variable {a : Arr R} {groups : List (List Nat)}

theorem cM_single (hok : GroupsOk groups a.ndim) {g : Nat} {gaxes : List Nat} (hg : groups[g]? = some gaxes)
    (hlen : gaxes.length = 1) (sb : Sector × Blk R) :
    cM (a := a) (groups := groups) sb g = sb.1.getD (gaxes.headD 0) (0, 0) := by
  simp only [cM, planM]
  rw [planOf_newSector_getD _ _ _ _ _ _ (hokD hok) hg]
  simp [midOf, hlen]

theorem dM_single (hok : GroupsOk groups a.ndim) {g : Nat} {gaxes : List Nat} (hg : groups[g]? = some gaxes)
    (hlen : gaxes.length = 1) (sb : Sector × Blk R) :
    dM (a := a) (groups := groups) sb g = sb.2.shape.getD (gaxes.headD 0) 0 := by
  simp only [dM, planM]
  rw [planOf_newShape_getD _ _ _ _ _ _ (hokD hok) hg]
  simp [midOf, hlen]

theorem single_head_lt (hok : GroupsOk groups a.ndim) {g : Nat} {gaxes : List Nat} (hg : groups[g]? = some gaxes)
    (hlen : gaxes.length = 1) : gaxes.headD 0 < a.indices.length := by
  apply groupM_lt hok hg
  match gaxes, hlen with
  | [ax], _ => simp

variable (a groups) in
/-- new axis `ax` carries a freshly fused index -/
def axMulti (ax : Nat) : Bool :=
  decide ((giM a groups).position ≤ ax) && decide (ax < (giM a groups).position + groups.length)
    && multiB groups (ax - (giM a groups).position)

variable (a groups) in
/-- size the index of group `g` gives to the charge a stored sector has there -/
def DM (sb : Sector × Blk R) (g : Nat) : Nat :=
  ((ixM a groups g).sizeOf? (cM (a := a) (groups := groups) sb g)).getD 0

variable (a groups) in
/-- shape of the fused block a stored sector lands in -/
def BshM (sb : Sector × Blk R) : List Nat :=
  (List.range (ndimM a groups)).map (fun ax =>
    if axMulti a groups ax then DM a groups sb (ax - (giM a groups).position)
    else (planM a groups sb).newShape.getD ax 0)

theorem BshM_length (sb : Sector × Blk R) : (BshM a groups sb).length = ndimM a groups := by simp [BshM]

theorem axMulti_before {k : Nat} (hk : k < (giM a groups).position) : axMulti a groups k = false := by
  simp only [axMulti]; have : ¬ ((giM a groups).position ≤ k) := by omega
  simp [this]

theorem axMulti_after {j : Nat} : axMulti a groups ((giM a groups).position + groups.length + j) = false := by
  simp only [axMulti]
  have : ¬ ((giM a groups).position + groups.length + j < (giM a groups).position + groups.length) := by omega
  simp [this]

theorem axMulti_mid {g : Nat} (hg : g < groups.length) :
    axMulti a groups ((giM a groups).position + g) = multiB groups g := by
  simp only [axMulti]
  have h1 : (giM a groups).position ≤ (giM a groups).position + g := by omega
  have h2 : (giM a groups).position + g < (giM a groups).position + groups.length := by omega
  simp [h1, h2]

/-- **shape of the fused block of a stored sector** -/
theorem shape_storedM (hv : ValidArr a) (hok : GroupsOk groups a.ndim) {sb : Sector × Blk R}
    (hsb : sb ∈ a.blocks) :
    Arr.blockShape? (newIdxM a groups) (planM a groups sb).newSector = some (BshM a groups sb) := by
  have hshp := (hv.blk sb hsb).2.1
  apply blockShape?_pointwise
  · rw [newIdxM_length hok, planM_newSector_length hok]
  · rw [BshM_length, planM_newSector_length hok]
  · intro ax hax
    rw [planM_newSector_length hok] at hax
    simp only [BshM]
    rw [rangeMap_getD hax]
    rcases axis_cases ax hax with h | ⟨g, hg, rfl⟩ | ⟨j, hj, rfl⟩
    · rw [axMulti_before h, newIdxM_before hok h]
      simp only [Bool.false_eq_true, if_false, planM]
      rw [planOf_newSector_before _ _ _ _ _ _ (hokD hok) h, planOf_newShape_before _ _ _ _ (hokD hok) h]
      have hlt : ax < a.indices.length := by
        have := position_lt (hokD hok); rw [duals_length] at this; exact Nat.lt_trans h this
      obtain ⟨ix, c, _, _, h3, h4, h5⟩ := blockShape?_get hshp hlt
      rw [h4, h5, h3]
    · rw [axMulti_mid hg]
      have hgg : groups[g]? = some groups[g] := List.getElem?_eq_getElem hg
      by_cases hlen : groups[g].length = 1
      · have hm : multiB groups g = false := by simp [multiB, hgg, hlen]
        simp only [hm, Bool.false_eq_true, if_false]
        have h1 := ixM_single (a := a) hok hgg hlen
        have h2 := cM_single (a := a) hok hgg hlen sb
        have h3 := dM_single (a := a) hok hgg hlen sb
        simp only [ixM, cM, dM] at h1 h2 h3
        rw [h1, h2, h3]
        obtain ⟨ix, c, _, _, e3, e4, e5⟩ := blockShape?_get hshp (single_head_lt hok hgg hlen)
        rw [e4, e5, e3]
      · have hm : multiB groups g = true := by simp [multiB, hgg, hlen]
        simp only [hm, if_true, Nat.add_sub_cancel_left]
        obtain ⟨e, D, st, _, _, h3, _⟩ := stored_in_tableM hv hok hgg hlen hsb
        simp only [DM, h3, Option.getD_some]
        exact h3
    · rw [axMulti_after, newIdxM_after hok hj]
      simp only [Bool.false_eq_true, if_false, planM]
      rw [planOf_newSector_after _ _ _ _ _ _ (hokD hok) hj, planOf_newShape_after _ _ _ _ (hokD hok) hj]
      obtain ⟨ix, c, _, _, h3, h4, h5⟩ := blockShape?_get hshp (afterM_lt _ (afterM_getD_mem hj))
      rw [h4, h5, h3]

/-! ### start offsets and items -/

variable (a groups) in
/-- start of the region of a stored block along new axis `ax` -/
def startM (sb : Sector × Blk R) (ax : Nat) : Nat :=
  if axMulti a groups ax then
    ((startOf ((alookup (extsM a groups (ax - (giM a groups).position))
        (cM (a := a) (groups := groups) sb (ax - (giM a groups).position))).getD [])
      (ssM (a := a) (groups := groups) sb (ax - (giM a groups).position))).getD (0, 0)).1
  else 0

variable (a groups) in
def startsM (sb : Sector × Blk R) : List Nat := (List.range (ndimM a groups)).map (startM a groups sb)

variable (a groups) in
def toItemM [Zero R] (sb : Sector × Blk R) : Item R :=
  ((planM a groups sb).newSector, startsM a groups sb,
   (sb.2.transposeK (giM a groups).perm).reshapeK (planM a groups sb).newShape)

variable (a groups) in
def shapeOfM (ns : Sector) : List Nat := (Arr.blockShape? (newIdxM a groups) ns).getD []

theorem mem_singlets {duals : List Bool} {g : Nat} :
    g ∈ (calcFuseGroupInfo groups duals).singlets ↔ ∃ gx, groups[g]? = some gx ∧ gx.length = 1 := by
  simp only [calcFuseGroupInfo, List.mem_map, List.mem_filter, List.mem_zipIdx_iff_getElem?, beq_iff_eq]
  constructor
  · rintro ⟨p, ⟨h1, h2⟩, rfl⟩; exact ⟨p.1, h1, h2⟩
  · rintro ⟨gx, h1, h2⟩; exact ⟨(gx, g), ⟨h1, h2⟩, rfl⟩

theorem not_singlet_eq_multi {duals : List Bool} {g : Nat} (hg : g < groups.length) :
    (!(calcFuseGroupInfo groups duals).singlets.contains g) = multiB groups g := by
  have hgg : groups[g]? = some groups[g] := List.getElem?_eq_getElem hg
  by_cases hlen : groups[g].length = 1
  · have h1 : g ∈ (calcFuseGroupInfo groups duals).singlets := mem_singlets.2 ⟨_, hgg, hlen⟩
    simp [multiB, hgg, hlen, h1]
  · have h1 : g ∉ (calcFuseGroupInfo groups duals).singlets := by
      intro h; obtain ⟨gx, e1, e2⟩ := mem_singlets.1 h
      rw [hgg] at e1; simp only [Option.some.injEq] at e1; subst e1; exact hlen e2
    simp [multiB, hgg, hlen, h1]

theorem alookup_blockmapM (hv : ValidArr a) {sb : Sector × Blk R} (hsb : sb ∈ a.blocks) :
    alookup (blockmapOf a groups) sb.1 = some (planM a groups sb) := by
  apply alookup_of_mem_nodup
  · simp only [blockmapOf, List.map_map]; exact hv.nodup
  · exact List.mem_map.2 ⟨sb, hsb, rfl⟩

/-- the start offsets `_fuse_blocks_via_insert` computes for a stored block -/
theorem starts_multi (hv : ValidArr a) (hok : GroupsOk groups a.ndim) {sb : Sector × Blk R}
    (hsb : sb ∈ a.blocks) :
    (List.range (newIdxM a groups).length).mapM (fun ax =>
      if (giM a groups).position ≤ ax && ax < (giM a groups).position + (giM a groups).numGroups
          && !(giM a groups).singlets.contains (ax - (giM a groups).position) then
        match extentStart? ((newIdxM a groups).getD ax default) ((planM a groups sb).newSector.getD ax (0, 0))
                ((planM a groups sb).subsectors.getD (ax - (giM a groups).position) []) with
        | some (st, _) => (pure st : Except Err Nat)
        | none => throw Err.key
      else pure 0)
    = .ok (startsM a groups sb) := by
  rw [newIdxM_length hok]
  apply mapM_ok_of_forall
  intro ax hax
  simp only [List.mem_range] at hax
  rw [numGroups_eq]
  by_cases hc : (giM a groups).position ≤ ax ∧ ax < (giM a groups).position + groups.length
  · obtain ⟨g, rfl⟩ : ∃ g, ax = (giM a groups).position + g := ⟨ax - (giM a groups).position, by omega⟩
    have hg : g < groups.length := by omega
    have hgg : groups[g]? = some groups[g] := List.getElem?_eq_getElem hg
    have h1 : (giM a groups).position ≤ (giM a groups).position + g := by omega
    simp only [h1, hc.2, decide_true, Bool.true_and, Nat.add_sub_cancel_left, not_singlet_eq_multi hg,
      startM, axMulti_mid hg]
    by_cases hm : multiB groups g = true
    · obtain ⟨gx, e1, hlen⟩ := multiB_iff.1 hm
      rw [hgg] at e1; simp only [Option.some.injEq] at e1; subst e1
      obtain ⟨e, D, st, t1, t2, _, _⟩ := stored_in_tableM hv hok hgg hlen hsb
      simp only [hm, if_true]
      have hx := extentStart?_eq (ixM_sub (a := a) hok hgg hlen) t1
        (ssM (a := a) (groups := groups) sb g)
      simp only [ixM, cM, ssM] at hx t1 t2
      rw [hx, t2]
      simp only [ssM, cM, t1, Option.getD_some, t2]
      rfl
    · simp only [hm, Bool.false_eq_true, if_false]; rfl
  · have : ((decide ((giM a groups).position ≤ ax) && decide (ax < (giM a groups).position + groups.length)
        && !(giM a groups).singlets.contains (ax - (giM a groups).position)) = true) = False := by
      simp only [Bool.and_eq_true, decide_eq_true_eq, eq_iff_iff, iff_false]
      intro h; exact hc h.1
    have h2 : axMulti a groups ax = false := by
      simp only [axMulti]
      by_cases hd1 : (giM a groups).position ≤ ax
      · by_cases hd2 : ax < (giM a groups).position + groups.length
        · exact absurd ⟨hd1, hd2⟩ hc
        · simp [hd2]
      · simp [hd1]
    simp only [this, if_false, startM, h2, Bool.false_eq_true]
    rfl

/-- **`fuseInsert` as a pure fold**, arbitrary groups -/
theorem fuseInsert_multi_eq [Zero R] (hv : ValidArr a) (hok : GroupsOk groups a.ndim) :
    fuseInsert a.blocks (fuseInfoOf a groups)
      = .ok (insFold (shapeOfM a groups) (a.blocks.map (toItemM a groups))) := by
  unfold fuseInsert insFold
  rw [List.foldl_map]
  apply foldlM_ok
  intro acc sb hsb
  obtain ⟨s, b⟩ := sb
  simp only []
  have hfi : (fuseInfoOf a groups).blockmap = blockmapOf a groups := rfl
  have hgi : (fuseInfoOf a groups).gi = giM a groups := rfl
  have hni : (fuseInfoOf a groups).newIndices = newIdxM a groups := rfl
  rw [hfi, alookup_blockmapM hv hsb, hni, hgi]
  simp only [bind, Except.bind, pure, Except.pure]
  have hst := starts_multi hv hok hsb
  simp only [pure, Except.pure] at hst
  erw [hst]
  simp only [insStep, toItemM]
  cases hl : alookup acc (planM a groups (s, b)).newSector with
  | some t => rfl
  | none =>
    simp only [shape_storedM hv hok hsb, shapeOfM, Option.getD_some, Option.getD_none]

end Multi

end FuseP
end SymmModel
