/-
  SymmModel.Proofs.TdotFused7 — the two optional `unfuse` steps composed with `fused_core`:
  value view and stored sectors of the fused strategy's result for arbitrary non-empty left,
  contracted and right groups.  Namespace `SymmModel.TdotP`.
-/
import SymmModel.Proofs.TdotFused6

namespace SymmModel
namespace TdotP
variable {R : Type}

/-- the two optional `unfuse` calls at the end of `_tensordot_via_fused` -/
def unfuseTail [Zero R] (x : Arr R) (mL mR : Bool) : Except Err (Arr R) := do
  let y ← (if mR then unfuseA x 1 else pure x)
  if mL then unfuseA y 0 else pure y

theorem list_len2' {α : Type} {l : List α} (h : l.length = 2) : ∃ x y, l = [x, y] := by
  match l, h with
  | [x, y], _ => exact ⟨x, y, rfl⟩

theorem cf_fields [Zero R] [Add R] [Mul R] (A B : Arr R) (xa xb : List Nat) :
    (cfOf A B xa xb).sym = A.sym ∧ (cfOf A B xa xb).fermi = A.fermi
    ∧ (cfOf A B xa xb).charge = A.sym.combine [A.charge, B.charge]
    ∧ (cfOf A B xa xb).phases = A.phases ∧ (cfOf A B xa xb).oddpos = A.oddpos := by
  obtain ⟨t1, t2, t3, t4, t5⟩ := tensordotBlockwise_fields
    (FuseP.fusedArrM A [freeAxes A.ndim xa, xa]) (FuseP.fusedArrM B [xb, freeAxes B.ndim xb]) [0] [1] [0] [1]
  obtain ⟨u1, u2, u3, u4, u5⟩ := fusedArrM_fields A [freeAxes A.ndim xa, xa]
  obtain ⟨_, _, w3, _, _⟩ := fusedArrM_fields B [xb, freeAxes B.ndim xb]
  unfold cfOf
  exact ⟨t1.trans u1, t2.trans u2, by rw [t3, u1, u3, w3], t4.trans u4, t5.trans u5⟩

/-- **tail of the fused strategy.**  Unfusing the product of the fused matrices (right leg, then
    left leg, each only if its group has more than one axis) succeeds; every entry of every stored
    block of the result is the blockwise contraction's element at that address, and every sector
    the blockwise contraction stores is stored. -/
theorem FusedCtx.tail [AddCommMonoid R] [Mul R] [Neg R]
    (hz1 : ∀ x : R, 0 * x = 0) (hz2 : ∀ x : R, x * 0 = 0) {A B : Arr R} {xa xb : List Nat}
    (h : FusedCtx A B xa xb) :
    ∃ c, unfuseTail (cfOf A B xa xb) ((freeAxes A.ndim xa).length != 1)
          ((freeAxes B.ndim xb).length != 1) = .ok c
      ∧ c.validB = true
      ∧ c.sym = A.sym ∧ c.fermi = false ∧ c.charge = A.sym.combine [A.charge, B.charge]
      ∧ c.phases = [] ∧ c.oddpos = A.oddpos
      ∧ c.indices.length = (freeAxes A.ndim xa).length + (freeAxes B.ndim xb).length
      ∧ (∀ K V, alookup c.blocks K = some V → ∀ J, inBox V.shape J = true →
          V.get J = (tensordotBlockwise A B (freeAxes A.ndim xa) xa xb (freeAxes B.ndim xb)).elem K J)
      ∧ (∀ s ∈ (tensordotBlockwise A B (freeAxes A.ndim xa) xa xb (freeAxes B.ndim xb)).sectors,
          s ∈ c.sectors) := by
  have hokA := h.pairA.groupsOk
  have hokB := h.pairB.groupsOk
  have gA0 : ([freeAxes A.ndim xa, xa] : List (List Nat))[0]? = some (freeAxes A.ndim xa) := rfl
  have gB1 : ([xb, freeAxes B.ndim xb] : List (List Nat))[1]? = some (freeAxes B.ndim xb) := rfl
  have hvcf := h.cf_validB
  obtain ⟨k1, k2, k3, k4, k5⟩ := cf_fields A B xa xb
  have hfcf : (cfOf A B xa xb).fermi = false := k2.trans h.fA
  have hpcf : (cfOf A B xa xb).phases = [] := k4.trans h.phA
  have hidx := h.cf_indices
  generalize hS0 : (cfOf A B xa xb).sectors.filterMap (fun s => s[0]?) = S0 at hidx
  generalize hS1 : (cfOf A B xa xb).sectors.filterMap (fun s => s[1]?) = S1 at hidx
  -- stage R
  have hix1 : (cfOf A B xa xb).indices[1]? = some (dropTo (FuseP.ixM B [xb, freeAxes B.ndim xb] 1) S1) := by
    rw [hidx]; rfl
  have hm1 : ((freeAxes B.ndim xb).length != 1) = true →
      (dropTo (FuseP.ixM B [xb, freeAxes B.ndim xb] 1) S1).sub.isSome = true := by
    intro hm
    rw [dropTo_sub _ _ (FuseP.ixM_sub hokB gB1 (by simpa using hm))]; rfl
  obtain ⟨y, hy_ok, hyv, hyf, hy1, hy2, hy3, hy4, hyidx, hback1, hfwd1⟩ :=
    stage (cfOf A B xa xb) 1 ((freeAxes B.ndim xb).length != 1) _ hvcf hfcf hix1 hm1
  -- stage L
  have hix0 : y.indices[0]? = some (dropTo (FuseP.ixM A [freeAxes A.ndim xa, xa] 0) S0) := by
    rw [hyidx, hidx]
    simp only [List.take_succ_cons, List.take_zero, List.cons_append, List.nil_append,
      List.getElem?_cons_zero]
  have hm0 : ((freeAxes A.ndim xa).length != 1) = true →
      (dropTo (FuseP.ixM A [freeAxes A.ndim xa, xa] 0) S0).sub.isSome = true := by
    intro hm
    rw [dropTo_sub _ _ (FuseP.ixM_sub hokA gA0 (by simpa using hm))]; rfl
  obtain ⟨c, hc_ok, hcv, hcf, hc1, hc2, hc3, hc4, hcidx, hback2, hfwd2⟩ :=
    stage y 0 ((freeAxes A.ndim xa).length != 1) _ hyv hyf hix0 hm0
  have hdy : allDistinct y.sectors = true := Arr.allDistinct_of_validB hyv
  have hdcf : allDistinct (cfOf A B xa xb).sectors = true := Arr.allDistinct_of_validB hvcf
  refine ⟨c, ?_, hcv, ?_, hcf, ?_, ?_, ?_, ?_, ?_, ?_⟩
  · unfold unfuseTail
    rw [hy_ok]
    exact hc_ok
  · rw [hc1, hy1]; exact k1
  · rw [hc2, hy2]; exact k3
  · rw [hc3, hy3]; exact hpcf
  · rw [hc4, hy4]; exact k5
  · -- rank
    have hlenR : (if ((freeAxes B.ndim xb).length != 1) = true then
          (Option.map (fun x => x.fst) (dropTo (FuseP.ixM B [xb, freeAxes B.ndim xb] 1) S1).sub).getD []
        else [dropTo (FuseP.ixM B [xb, freeAxes B.ndim xb] 1) S1]).length = (freeAxes B.ndim xb).length := by
      by_cases hm : ((freeAxes B.ndim xb).length != 1) = true
      · rw [if_pos hm, dropTo_sub _ _ (FuseP.ixM_sub hokB gB1 (by simpa using hm))]
        simp
      · rw [if_neg hm]
        have : (freeAxes B.ndim xb).length = 1 := by simpa using hm
        simp [this]
    have hlenL : (if ((freeAxes A.ndim xa).length != 1) = true then
          (Option.map (fun x => x.fst) (dropTo (FuseP.ixM A [freeAxes A.ndim xa, xa] 0) S0).sub).getD []
        else [dropTo (FuseP.ixM A [freeAxes A.ndim xa, xa] 0) S0]).length = (freeAxes A.ndim xa).length := by
      by_cases hm : ((freeAxes A.ndim xa).length != 1) = true
      · rw [if_pos hm, dropTo_sub _ _ (FuseP.ixM_sub hokA gA0 (by simpa using hm))]
        simp
      · rw [if_neg hm]
        have : (freeAxes A.ndim xa).length = 1 := by simpa using hm
        simp [this]
    have hyl : y.indices.length = 1 + (freeAxes B.ndim xb).length := by
      rw [hyidx, List.length_append, List.length_append, hlenR, hidx]
      simp
    rw [hcidx, List.length_append, List.length_append, hlenL, List.length_drop, hyl]
    simp
  · -- values
    intro K2 V2 hl2 J2 hJ2
    obtain ⟨ns', By, segL, nL, hmem', hK2, hsegL, _, hget2⟩ := hback2 K2 V2 hl2
    have hly : alookup y.blocks ns' = some By := alookup_of_mem hdy hmem'
    obtain ⟨ns, Bx, segR, nR, hmem, hns', hsegR, _, hget1⟩ := hback1 ns' By hly
    obtain ⟨cL, cR, dL, dR, rfl, hcL, hcR, hzL, hzR, hBxs⟩ := h.cf_block hmem
    rw [hS0] at hcL
    rw [hS1] at hcR
    simp only [List.take_succ_cons, List.take_zero, List.drop_succ_cons, List.drop_nil,
      List.append_nil, List.singleton_append] at hns'
    subst hns'
    simp only [List.take_zero, List.nil_append, List.drop_succ_cons, List.drop_zero] at hK2
    subst hK2
    obtain ⟨iL, hdecL, hg2, hbox2⟩ := hget2 J2 hJ2
    simp only [List.take_zero, List.nil_append, Nat.zero_add, List.drop_zero, List.getD_cons_zero,
      List.singleton_append] at hdecL hg2 hbox2
    obtain ⟨iR, hdecR, hg1, hbox1⟩ := hget1 _ hbox2
    simp only [List.take_succ_cons, List.take_zero, List.drop_succ_cons, List.drop_zero,
      List.getD_cons_succ, List.getD_cons_zero, List.cons_append,
      List.nil_append] at hdecR hg1 hbox1
    -- the rest of the index is empty
    have edrop : List.drop (1 + nR) (iL :: List.drop nL J2) = (J2.drop nL).drop nR := by
      rw [Nat.add_comm, List.drop_succ_cons]
    rw [edrop] at hbox1 hg1
    rw [hBxs] at hbox1
    have hl := inBox_length hbox1
    simp only [List.length_cons, List.length_nil] at hl
    have hrest : (J2.drop nL).drop nR = [] := by
      apply List.eq_nil_of_length_eq_zero; omega
    rw [hrest] at hbox1 hg1
    simp only [inBox, Bool.and_eq_true, decide_eq_true_eq, and_true] at hbox1
    have hoR : (J2.drop nL).take nR = J2.drop nL := by
      have := List.take_append_drop nR (J2.drop nL)
      rw [hrest, List.append_nil] at this; exact this
    rw [hoR] at hdecR
    -- decoders of the fused operands
    rw [decIx_dropTo gA0 S0 hcL] at hdecL
    rw [decIx_dropTo gB1 S1 hcR] at hdecR
    have hcore := fused_core hz1 hz2 h hdecL hdecR hzL hbox1.1 hzR hbox1.2
    rw [List.take_append_drop] at hcore
    rw [hg2, hg1, ← hcore]
    show Bx.get [iL, iR] = (cfOf A B xa xb).elem [cL, cR] [iL, iR]
    exact (Arr.elem_of_mem hdcf hpcf hmem [iL, iR]).symm
  · -- stored sectors
    intro s hs
    rw [tensordotBlockwise_sectors_eq, List.mem_eraseDups, mem_tdKeys] at hs
    obtain ⟨x, hx, y', hy', hxy, rfl⟩ := hs
    obtain ⟨sa, hsa, rfl⟩ := List.mem_map.mp hx
    obtain ⟨sb, hsb, rfl⟩ := List.mem_map.mp hy'
    have hsec := h.cf_sector hsa hsb hxy.symm
    obtain ⟨⟨ns, Bx⟩, hmem, hnse⟩ := List.mem_map.mp hsec
    simp only at hnse
    subst hnse
    have hcL : FuseP.cM (a := A) (groups := [freeAxes A.ndim xa, xa]) sa 0 ∈ S0 := by
      rw [← hS0]; exact List.mem_filterMap.mpr ⟨_, hsec, rfl⟩
    have hcR : FuseP.cM (a := B) (groups := [xb, freeAxes B.ndim xb]) sb 1 ∈ S1 := by
      rw [← hS1]; exact List.mem_filterMap.mpr ⟨_, hsec, rfl⟩
    have h1 := hfwd1 _ Bx hmem (permuted sb.1 (freeAxes B.ndim xb))
      (by simpa using segOf_stored h.vaB hokB gB1 hsb S1 hcR)
    simp only [List.take_succ_cons, List.take_zero, List.drop_succ_cons, List.drop_nil,
      List.append_nil, List.singleton_append] at h1
    obtain ⟨⟨ns', By⟩, hmem', hns'⟩ := List.mem_map.mp h1
    simp only at hns'
    subst hns'
    have h2 := hfwd2 _ By hmem' (permuted sa.1 (freeAxes A.ndim xa))
      (by simpa using segOf_stored h.vaA hokA gA0 hsa S0 hcL)
    simpa using h2

theorem tensordotBlockwise_rank [Zero R] [Add R] [Mul R] (a b : Arr R) (xa xb : List Nat) :
    (tensordotBlockwise a b (freeAxes a.ndim xa) xa xb (freeAxes b.ndim xb)).indices.length =
      (freeAxes a.ndim xa).length + (freeAxes b.ndim xb).length := by
  rw [tensordotBlockwise_indices, dropUnused_length, List.length_append, without_length, without_length]
  rfl

/-- **fused = blockwise**, all three groups non-empty (any number of axes in each).  Valid abelian
    operands with matching contracted legs and at least one aligned block: `tensordotViaFused`
    succeeds with a valid result that has the fields and the rank of the blockwise result, stores
    every sector the blockwise result stores, and whose every stored entry equals the blockwise
    result's element at that address — so a stored sector the blockwise result lacks is an
    all-zero block (on its box). -/
theorem viaFused_general [AddCommMonoid R] [Mul R] [Neg R]
    (hz1 : ∀ x : R, 0 * x = 0) (hz2 : ∀ x : R, x * 0 = 0) (a b : Arr R) (xa xb : List Nat)
    (ha : a.validB = true) (hb : b.validB = true) (hfa : a.fermi = false) (hfb : b.fermi = false)
    (hsym : a.sym = b.sym) (hc : ValidP.contractibleB a b xa xb = true)
    (hnA : xa.Nodup) (hnB : xb.Nodup) (hA : ∀ x ∈ xa, x < a.ndim) (hB : ∀ x ∈ xb, x < b.ndim)
    (hneK : xa ≠ []) (hneL : freeAxes a.ndim xa ≠ []) (hneR : freeAxes b.ndim xb ≠ [])
    (hbl : ((dropMisaligned a b xa xb).1.blocks.isEmpty || (dropMisaligned a b xa xb).2.blocks.isEmpty) = false) :
    ∃ c, tensordotViaFused a b (freeAxes a.ndim xa) xa xb (freeAxes b.ndim xb) = .ok c
      ∧ c.validB = true
      ∧ c.sym = a.sym ∧ c.fermi = a.fermi ∧ c.charge = a.sym.combine [a.charge, b.charge]
      ∧ c.phases = a.phases ∧ c.oddpos = a.oddpos
      ∧ c.indices.length =
          (tensordotBlockwise a b (freeAxes a.ndim xa) xa xb (freeAxes b.ndim xb)).indices.length
      ∧ (∀ s ∈ (tensordotBlockwise a b (freeAxes a.ndim xa) xa xb (freeAxes b.ndim xb)).sectors,
          s ∈ c.sectors)
      ∧ (∀ K V, alookup c.blocks K = some V → ∀ J, inBox V.shape J = true →
          c.elem K J =
            (tensordotBlockwise a b (freeAxes a.ndim xa) xa xb (freeAxes b.ndim xb)).elem K J) := by
  obtain ⟨n1, n2⟩ := dropMisaligned_ndim a b xa xb
  have h := ctx_of_dropMisaligned a b xa xb ha hb hfa hfb hsym hc hnA hnB hA hB hneK hneL hneR
  obtain ⟨c, hc_ok, hcv, f1, f2, f3, f4, f5, hrank, hval, hsec⟩ := h.tail hz1 hz2
  have hfA := FuseP.fuseCore_multi_eq h.vaA h.pairA.groupsOk
  have hfB := FuseP.fuseCore_multi_eq h.vaB h.pairB.groupsOk
  rw [n1] at hfA
  rw [n2] at hfB
  rw [n1, n2] at hval hsec hrank
  unfold cfOf at hc_ok
  rw [n1, n2] at hc_ok
  have hflow := tensordotViaFused_nonempty a b (freeAxes a.ndim xa) xa xb (freeAxes b.ndim xb)
    hneL hneK h.neKb hneR hbl _ _ hfA hfB
  obtain ⟨d1, d2, d3, d4, d5, d6⟩ := dropMisaligned_fields a b xa xb
  have hblk := tensordotBlockwise_blocks_dropMisaligned a b (freeAxes a.ndim xa) xa xb (freeAxes b.ndim xb)
  have hpa : a.phases = [] := phases_nil_of_validB ha hfa
  refine ⟨c, hflow.trans hc_ok, hcv, f1.trans d1, f2.trans hfa.symm, ?_, f4.trans hpa.symm, f5.trans d5,
    ?_, ?_, ?_⟩
  · rw [f3, d1, d3, d6]
  · rw [hrank, tensordotBlockwise_rank]
  · intro s hs
    apply hsec
    rw [Arr.sectors, hblk]; exact hs
  · intro K V hl J hJ
    rw [Arr.elem_of_phases_nil f4, hl]
    show V.get J = _
    rw [hval K V hl J hJ]
    exact Arr.elem_congr hblk rfl K J

end TdotP
end SymmModel
