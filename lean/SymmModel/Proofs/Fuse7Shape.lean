/-
  SymmModel.Proofs.Fuse7Shape — the leaf shape of a list of choices, explicitly: the fused shape with
  the size of the chosen sub-sector on every multi-axis group axis.
-/
import SymmModel.Proofs.Fuse7Rec
namespace SymmModel
namespace FuseP
set_option linter.unusedSectionVars false

variable {R : Type} [Zero R]

section
variable {a : Arr R} {groups : List (List Nat)}

theorem choice_length (ns : Sector) : ∀ (fuel g : Nat) (qs : List (Sector × Nat)),
    Choice (lvFrom a groups ns g fuel) qs → qs.length = fuel := by
  intro fuel
  induction fuel with
  | zero => intro g qs h; simp only [lvFrom, Choice] at h; rw [h]; rfl
  | succ f ih =>
    intro g qs h
    simp only [lvFrom, lvlM] at h
    split at h
    · obtain ⟨q, qs', rfl, _, h'⟩ := h
      simp [ih (g + 1) qs' h']
    · obtain ⟨q, qs', rfl, _, h'⟩ := h
      simp [ih (g + 1) qs' h']

/-- **explicit leaf shape** -/
theorem pieceShape_lvFrom (ns : Sector) (N : Nat) : ∀ (fuel g : Nat) (b : List Nat) (qs : List (Sector × Nat)),
    b.length = N → qs.length = fuel → (giM a groups).position + g + fuel ≤ N →
    pieceShape (lvFrom a groups ns g fuel) b qs
      = (List.range N).map (fun ax =>
          if (decide ((giM a groups).position + g ≤ ax) && decide (ax < (giM a groups).position + g + fuel)
              && multiB groups (ax - (giM a groups).position)) = true
          then (qs.getD (ax - (giM a groups).position - g) ([], 0)).2 else b.getD ax 0) := by
  intro fuel
  induction fuel with
  | zero =>
    intro g b qs hb hq _
    have hcond : ∀ ax, (decide ((giM a groups).position + g ≤ ax) && decide (ax < (giM a groups).position + g + 0)
        && multiB groups (ax - (giM a groups).position)) = false := by
      intro ax
      by_cases h : (giM a groups).position + g ≤ ax
      · have : ¬ ax < (giM a groups).position + g + 0 := by omega
        simp [this]
      · simp [h]
    simp only [lvFrom, pieceShape, hcond, Bool.false_eq_true, if_false]
    rw [← hb]
    have := map_eq_range_map b 0 id
    simp only [List.map_id, id] at this
    exact this
  | succ f ih =>
    intro g b qs hb hq hN
    cases qs with
    | nil => simp at hq
    | cons q qs' =>
      have hq' : qs'.length = f := by simpa using hq
      have hstep : ∀ b', b'.length = N → pieceShape (lvFrom a groups ns (g + 1) f) b' qs'
          = (List.range N).map (fun ax =>
            if (decide ((giM a groups).position + (g + 1) ≤ ax)
                && decide (ax < (giM a groups).position + (g + 1) + f)
                && multiB groups (ax - (giM a groups).position)) = true
            then (qs'.getD (ax - (giM a groups).position - (g + 1)) ([], 0)).2 else b'.getD ax 0) :=
        fun b' hb' => ih (g + 1) b' qs' hb' hq' (by omega)
      cases hm : multiB groups g with
      | true =>
        have hl : lvFrom a groups ns g (f + 1)
            = .multi ((giM a groups).position + g) (extM a groups ns g) :: lvFrom a groups ns (g + 1) f := by
          simp only [lvFrom, lvlM, hm, if_true]
        rw [hl]
        simp only [pieceShape]
        rw [hstep _ (by simp [hb])]
        apply List.map_congr_left
        intro ax hax
        simp only [List.mem_range] at hax
        by_cases he : ax = (giM a groups).position + g
        · subst he
          have c1 : ¬ ((giM a groups).position + (g + 1) ≤ (giM a groups).position + g) := by omega
          simp only [c1, decide_false, Bool.false_and, Bool.false_eq_true, if_false, Nat.le_refl, decide_true,
            Bool.true_and, Nat.add_sub_cancel_left, hm, Bool.and_true, Nat.sub_self, List.getD_cons_zero]
          have c2 : (giM a groups).position + g < (giM a groups).position + g + (f + 1) := by omega
          simp only [c2, decide_true, if_true]
          exact getD_set_self b _ _ (by omega)
        · have hset : (b.set ((giM a groups).position + g) q.2).getD ax 0 = b.getD ax 0 := by
            simp only [List.getD_eq_getElem?_getD, List.getElem?_set]
            simp [Ne.symm he]
          rw [hset]
          by_cases hge : (giM a groups).position + (g + 1) ≤ ax
          · have e1 : (giM a groups).position + g ≤ ax := by omega
            have e2 : (ax < (giM a groups).position + (g + 1) + f) ↔ (ax < (giM a groups).position + g + (f + 1)) := by
              omega
            have e3 : ax - (giM a groups).position - g = (ax - (giM a groups).position - (g + 1)) + 1 := by omega
            simp only [hge, e1, decide_true, Bool.true_and, e2, e3, List.getD_cons_succ]
          · have e1 : ¬ ((giM a groups).position + g ≤ ax) := by omega
            simp only [hge, e1, decide_false, Bool.false_and, Bool.false_eq_true, if_false]
      | false =>
        have hl : lvFrom a groups ns g (f + 1)
            = .single [ns.getD ((giM a groups).position + g) (0, 0)] :: lvFrom a groups ns (g + 1) f := by
          simp only [lvFrom, lvlM, hm, Bool.false_eq_true, if_false]
        rw [hl]
        simp only [pieceShape]
        rw [hstep b hb]
        apply List.map_congr_left
        intro ax hax
        by_cases he : ax = (giM a groups).position + g
        · subst he
          have c1 : ¬ ((giM a groups).position + (g + 1) ≤ (giM a groups).position + g) := by omega
          simp only [c1, decide_false, Bool.false_and, Bool.false_eq_true, if_false, Nat.add_sub_cancel_left, hm,
            Bool.and_false]
        · by_cases hge : (giM a groups).position + (g + 1) ≤ ax
          · have e1 : (giM a groups).position + g ≤ ax := by omega
            have e2 : (ax < (giM a groups).position + (g + 1) + f) ↔ (ax < (giM a groups).position + g + (f + 1)) := by
              omega
            have e3 : ax - (giM a groups).position - g = (ax - (giM a groups).position - (g + 1)) + 1 := by omega
            simp only [hge, e1, decide_true, Bool.true_and, e2, e3, List.getD_cons_succ]
          · have e1 : ¬ ((giM a groups).position + g ≤ ax) := by omega
            simp only [hge, e1, decide_false, Bool.false_and, Bool.false_eq_true, if_false]

end

end FuseP
end SymmModel
