/-
  SymmModel.Proofs.Reshape3d — the unbounded planner theorem of C07, part d: the squeeze phase on
  segments.  Every "s" segment is merged into the group of its left neighbour (the leading ones
  into their right neighbour); the old axes are untouched (`flatE`), and because squeezed axes have
  size one the post-fuse shape is untouched too (`flatK`).
-/
import SymmModel.Proofs.Reshape3c
namespace SymmModel.Reshape3
open SymmModel SymmModel.Reshape SymmModel.C07

def Seg.isOG : Seg → Bool
  | .o _ => true
  | .g _ _ => true
  | _ => false

def Seg.isOSG : Seg → Bool
  | .o _ => true
  | .g _ _ => true
  | .s _ => true
  | _ => false

def OG (S : List Seg) : Prop := ∀ a ∈ S, a.isOG = true
def OSG (S : List Seg) : Prop := ∀ a ∈ S, a.isOSG = true
def SOne (S : List Seg) : Prop := ∀ e, Seg.s e ∈ S → e.1 = 1

theorem OG.append {A B : List Seg} (hA : OG A) (hB : OG B) : OG (A ++ B) := by
  intro a ha
  rcases List.mem_append.mp ha with h | h
  · exact hA a h
  · exact hB a h

/-- the maximal run of "s" segments at the front -/
def spanS : List Seg → List E × List Seg
  | .s e :: r => (e :: (spanS r).1, (spanS r).2)
  | l => ([], l)

theorem spanS_eq : ∀ Q : List Seg, Q = (spanS Q).1.map Seg.s ++ (spanS Q).2
    ∧ ∀ e r, (spanS Q).2 ≠ Seg.s e :: r := by
  intro Q
  induction Q with
  | nil => simp [spanS]
  | cons a Q ih =>
    cases a with
    | s e => simp only [spanS, List.map_cons, List.cons_append]; exact ⟨by rw [← ih.1], ih.2⟩
    | o e => simp [spanS]
    | u k d subs => simp [spanS]
    | g k es => simp [spanS]
    | x => simp [spanS]

theorem flatL_map_s (ses : List E) : flatL (ses.map Seg.s) = List.replicate ses.length Lbl.s := by
  induction ses with
  | nil => rfl
  | cons d r ih => simp [Seg.lbl, ih, List.replicate_succ]

theorem flatE_map_s (ses : List E) : flatE (ses.map Seg.s) = ses := by
  induction ses with
  | nil => rfl
  | cons d r ih => simp [Seg.ax, ih]

theorem flatK_map_s (ses : List E) : flatK (ses.map Seg.s) = [] := by
  induction ses with
  | nil => rfl
  | cons d r ih => simp [Seg.outK, ih]

theorem gKeys_map_s (ses : List E) : gKeys (ses.map Seg.s) = [] := by
  induction ses with
  | nil => rfl
  | cons d r ih => simp [gKeys_cons, Seg.gKey, ih]

theorem prod_sizes_ones (ses : List E) (h : ∀ e ∈ ses, e.1 = 1) : prod (SymShape.sizes ses) = 1 := by
  induction ses with
  | nil => rfl
  | cons e r ih =>
    simp only [SymShape.sizes, List.map_cons, prod] at ih ⊢
    rw [h e (by simp), ih (fun e he => h e (by simp [he]))]

/-! ### `GOk` under the updates of the squeeze phase -/

theorem GOk.congr {fs : List Nat} {S S' : List Seg} (h : GOk fs S) (hk : gKeys S' = gKeys S)
    (hm : ∀ k es, Seg.g k es ∈ S' → Seg.g k es ∈ S) : GOk fs S' :=
  ⟨fun k es he => h.len k es (hm k es he), by rw [hk]; exact h.nodup⟩

theorem gKeys_mid (A : List Seg) (a : Seg) (B : List Seg) :
    gKeys (A ++ a :: B) = gKeys A ++ a.gKey.toList ++ gKeys B := by
  rw [gKeys_append, gKeys_cons]; simp

theorem GOk.bump_mid {fs fs' : List Nat} {A B : List Seg} {k n : Nat} {es es' : List E}
    (h : GOk fs (A ++ Seg.g k es :: B)) (hb : Bumped fs fs' k n) (hl : es'.length = es.length + n) :
    GOk fs' (A ++ Seg.g k es' :: B) where
  len := by
    intro k' es'' he
    have hold := h.len k es (by simp)
    rcases List.mem_append.mp he with he | he
    · have hne : k' ≠ k := by
        have hnd := h.nodup
        rw [gKeys_mid, List.append_assoc, List.nodup_append] at hnd
        have := hnd.2.2 k' (mem_gKeys.mpr ⟨_, he⟩) k (by simp [Seg.gKey])
        exact this
      rw [hb.other k' hne]
      exact h.len k' es'' (by simp [he])
    · rcases List.mem_cons.mp he with he | he
      · injection he with h1 h2
        subst h1; subst h2
        rw [hb.at_k, hold.1, hl]
        exact ⟨rfl, by omega⟩
      · have hne : k' ≠ k := by
          have hnd := h.nodup
          rw [gKeys_mid, List.nodup_append] at hnd
          have := hnd.2.2 k (by simp [Seg.gKey]) k' (mem_gKeys.mpr ⟨_, he⟩)
          exact fun e => this e.symm
        rw [hb.other k' hne]
        exact h.len k' es'' (by simp [he])
  nodup := by
    have := h.nodup
    rw [gKeys_mid] at this ⊢
    exact this

theorem GOk.new_mid {fs : List Nat} {A B : List Seg} {e : E}
    (h : GOk fs (A ++ Seg.o e :: B)) : GOk (fs ++ [1]) (A ++ Seg.g fs.length [e] :: B) where
  len := by
    intro k' es'' he
    have old : ∀ k es, Seg.g k es ∈ A ++ Seg.o e :: B → (fs ++ [1])[k]? = some es.length ∧ 1 ≤ es.length := by
      intro k es hm
      obtain ⟨h1, h2⟩ := h.len k es hm
      have hk := (List.getElem?_eq_some_iff.mp h1).1
      exact ⟨by rw [List.getElem?_append_left hk]; exact h1, h2⟩
    rcases List.mem_append.mp he with he | he
    · exact old _ _ (by simp [he])
    · rcases List.mem_cons.mp he with he | he
      · injection he with h1 h2
        subst h1; subst h2
        simp
      · exact old _ _ (by simp [he])
  nodup := by
    have hnd := h.nodup
    rw [gKeys_mid] at hnd ⊢
    simp only [Seg.gKey, Option.toList, List.append_nil] at hnd ⊢
    rw [List.append_assoc, List.singleton_append]
    refine (List.perm_middle.nodup_iff).mpr ?_
    rw [List.nodup_cons]
    refine ⟨?_, hnd⟩
    intro hm
    have : fs.length ∈ gKeys (A ++ Seg.o e :: B) := by
      rw [gKeys_mid]; simpa [Seg.gKey] using hm
    exact Nat.lt_irrefl _ (h.key_lt this)

/-! ### the loop `sqLoop` on segments -/

/-- what the squeeze phase guarantees about its result `r = (term, fuse_sizes)` -/
def SqConcl (S : List Seg) (r : List Lbl × List Nat) : Prop :=
  ∃ P', r.1 = flatL P' ∧ OG P' ∧ GOk r.2 P' ∧ flatE P' = flatE S ∧ flatK P' = flatK S

theorem og_lbl_notS {X : Seg} (h : X.isOG = true) : ∀ l ∈ X.lbl, l.isS = false := by
  intro l hl
  cases X <;> simp [Seg.isOG] at h
  · simp [Seg.lbl] at hl; subst hl; rfl
  · simp only [Seg.lbl] at hl; rw [(List.mem_replicate.mp hl).2]; rfl

def SqClaim (n : Nat) : Prop :=
  ∀ Q : List Seg, Q.length ≤ n → ∀ (fuel : Nat) (P : List Seg) (fs : List Nat) (g : Option Nat)
    (r : List Lbl × List Nat), OG P → P ≠ [] → OSG Q → GOk fs (P ++ Q) → SOne Q →
    sqLoop fuel (flatL P).length (flatL P ++ flatL Q) fs g = .ok r → SqConcl (P ++ Q) r

theorem sq_nil (fuel d : Nat) (P : List Seg) (fs : List Nat) (g : Option Nat)
    (r : List Lbl × List Nat) (hP : OG P) (hg : GOk fs P)
    (h : sqLoop fuel ((flatL P).length + d) (flatL P) fs g = .ok r) : SqConcl P r := by
  cases fuel with
  | zero => simp [sqLoop, throw, throwThe, MonadExceptOf.throw] at h
  | succ fuel =>
    have : (flatL P)[(flatL P).length + d]? = none := by simp
    simp only [sqLoop, this, pure, Except.pure] at h
    injection h with h; subst h
    exact ⟨P, rfl, hP, hg, rfl, rfl⟩

theorem sq_enter {n : Nat} (ih : SqClaim n) (X : Seg) (R : List Seg) (hR : R.length ≤ n)
    (hX : X.isOG = true) (d : Nat) (hd : d ≤ X.lbl.length) (fuel : Nat) (P : List Seg)
    (fs : List Nat) (g : Option Nat) (r : List Lbl × List Nat) (hP : OG P) (hOR : OSG R)
    (hg : GOk fs (P ++ X :: R)) (h1 : SOne R)
    (h : sqLoop fuel ((flatL P).length + d) (flatL P ++ flatL (X :: R)) fs g = .ok r) :
    SqConcl (P ++ X :: R) r := by
  obtain ⟨f', _, h'⟩ := sqLoop_skip (X.lbl.length - d) fuel _ _ fs g r (by
    intro p hp1 hp2
    have hp : p - (flatL P).length < X.lbl.length := by omega
    refine ⟨X.lbl[p - (flatL P).length], ?_, og_lbl_notS hX _ (List.getElem_mem hp)⟩
    rw [flatL_cons, List.getElem?_append_right (by omega), List.getElem?_append_left hp]
    exact List.getElem?_eq_getElem hp) h
  have e1 : (flatL P).length + d + (X.lbl.length - d) = (flatL (P ++ [X])).length := by
    simp [flatL_append]; omega
  have e2 : flatL P ++ flatL (X :: R) = flatL (P ++ [X]) ++ flatL R := by simp
  rw [e1, e2] at h'
  have e3 : P ++ X :: R = (P ++ [X]) ++ R := by simp
  rw [e3] at hg ⊢
  exact ih R hR f' (P ++ [X]) fs g r
    (hP.append (fun a ha => by rw [List.mem_singleton.mp ha]; exact hX))
    (by simp) hOR hg h1 h'

theorem sq_step {n : Nat} (ih : SqClaim n) : SqClaim (n + 1) := by
  intro Q hQ fuel P fs g r hP hPne hOQ hg h1 h
  cases Q with
  | nil =>
    simp only [flatL_nil, List.append_nil] at h hg ⊢
    exact sq_nil fuel 0 P fs g r hP hg h
  | cons X R =>
    have hR : R.length ≤ n := by simp at hQ; omega
    have hOR : OSG R := fun a ha => hOQ a (by simp [ha])
    have h1R : SOne R := fun e he => h1 e (by simp [he])
    have hXo := hOQ X (by simp)
    by_cases hX : X.isOG = true
    · exact sq_enter ih X R hR hX 0 (Nat.zero_le _) fuel P fs g r hP hOR hg h1R h
    · -- an "s" segment
      cases X with
      | o e => simp [Seg.isOG] at hX
      | g k es => simp [Seg.isOG] at hX
      | u k d subs => simp [Seg.isOSG] at hXo
      | x => simp [Seg.isOSG] at hXo
      | s e0 =>
      obtain ⟨hsp, hnos⟩ := spanS_eq (Seg.s e0 :: R)
      generalize hses : (spanS (Seg.s e0 :: R)).1 = ses at hsp
      generalize hQ2 : (spanS (Seg.s e0 :: R)).2 = Q2 at hsp hnos
      have hses1 : ses.length = (ses.length - 1) + 1 := by
        have : ses ≠ [] := by rw [← hses]; simp [spanS]
        have := List.length_pos_iff.mpr this
        omega
      have hQ2len : Q2.length ≤ n := by
        have := congrArg List.length hsp
        simp only [List.length_cons, List.length_append, List.length_map] at this
        omega
      have hOQ2 : OSG Q2 := fun a ha => hOQ a (by rw [hsp]; simp [ha])
      have h1Q2 : SOne Q2 := fun e he => h1 e (by rw [hsp]; simp [he])
      have hses_one : ∀ e ∈ ses, e.1 = 1 := fun e he => h1 e (by
        rw [hsp]; exact List.mem_append_left _ (List.mem_map.mpr ⟨e, he, rfl⟩))
      rw [hsp] at h hg ⊢
      -- the first label of Q2 is not "s"
      have hT2 : ∀ l T2', flatL Q2 = l :: T2' → l.isS = false := by
        intro l T2' hl
        cases Q2 with
        | nil => simp at hl
        | cons Y Q3 =>
          have hY := hOQ2 Y (by simp)
          have hYog : Y.isOG = true := by
            cases Y <;> simp [Seg.isOSG, Seg.isOG] at hY ⊢
            exact hnos _ _ rfl
          have hYne : Y.lbl ≠ [] := by
            cases Y <;> simp [Seg.isOG] at hYog
            · simp [Seg.lbl]
            · rename_i k es
              have hpos := (hg.len k es (by simp)).2
              simp only [Seg.lbl]
              intro hc
              have hc' := congrArg List.length hc
              simp only [List.length_replicate, List.length_nil] at hc'; omega
          rw [flatL_cons] at hl
          cases hYl : Y.lbl with
          | nil => exact (hYne hYl).elim
          | cons l0 rest =>
            rw [hYl] at hl
            injection hl with hl _
            subst hl
            exact og_lbl_notS hYog _ (by rw [hYl]; simp)
      cases fuel with
      | zero => simp [sqLoop, throw, throwThe, MonadExceptOf.throw] at h
      | succ fuel =>
      -- split off the last processed segment
      obtain ⟨P0, last, rfl⟩ : ∃ P0 last, P = P0 ++ [last] :=
        ⟨P.dropLast, P.getLast hPne, (List.dropLast_concat_getLast hPne).symm⟩
      have hlast := hP last (by simp)
      have hP0 : OG P0 := fun a ha => hP a (by simp [ha])
      have hcur : (flatL (P0 ++ [last]) ++ flatL (ses.map Seg.s ++ Q2))[(flatL (P0 ++ [last])).length]?
          = some Lbl.s := by
        rw [List.getElem?_append_right (Nat.le_refl _), flatL_append, flatL_map_s, hses1]
        simp [List.replicate_succ]
      simp only [sqLoop, hcur, Lbl.isS, if_true] at h
      -- the unified state after choosing the group
      have key : ∃ (k : Nat) (es : List E) (fs' : List Nat) (g' : Option Nat) (term' : List Lbl),
          g' = some k ∧ term' = flatL (P0 ++ [Seg.g k es]) ++ flatL (ses.map Seg.s ++ Q2)
          ∧ GOk fs' (P0 ++ Seg.g k es :: (ses.map Seg.s ++ Q2))
          ∧ flatE (P0 ++ [Seg.g k es]) = flatE (P0 ++ [last])
          ∧ flatK (P0 ++ [Seg.g k es]) = flatK (P0 ++ [last])
          ∧ (flatL (P0 ++ [Seg.g k es])).length = (flatL (P0 ++ [last])).length
          ∧ (match absorb g' (term'.length + 1) (flatL (P0 ++ [last])).length term' fs' with
              | .error e => throw e
              | .ok (i', term'', fs'') => sqLoop fuel (i' + 1) term'' fs'' g') = Except.ok r := by
        cases last with
        | s e => simp [Seg.isOG] at hlast
        | u k d subs => simp [Seg.isOG] at hlast
        | x => simp [Seg.isOG] at hlast
        | g k es =>
          have hes := (hg.len k es (by simp)).2
          have hleft : (flatL (P0 ++ [Seg.g k es]) ++ flatL (ses.map Seg.s ++ Q2))[(flatL (P0 ++ [Seg.g k es])).length - 1]?
              = some (Lbl.g k) := by
            have hl : (flatL (P0 ++ [Seg.g k es])).length - 1 < (flatL (P0 ++ [Seg.g k es])).length := by
              simp [Seg.lbl]; omega
            rw [List.getElem?_append_left hl]
            simp only [flatL_append, flatL_cons, flatL_nil, Seg.lbl, List.append_nil]
            rw [List.getElem?_append_right (by simp; omega)]
            rw [List.getElem?_replicate]
            simp; omega
          rw [hleft] at h
          simp only [] at h
          refine ⟨k, es, fs, some k, _, rfl, rfl, by simpa using hg, rfl, rfl, rfl, h⟩
        | o e =>
          have hleft : (flatL (P0 ++ [Seg.o e]) ++ flatL (ses.map Seg.s ++ Q2))[(flatL (P0 ++ [Seg.o e])).length - 1]?
              = some Lbl.o := by
            simp [Seg.lbl]
          rw [hleft] at h
          simp only [] at h
          have hset : (flatL (P0 ++ [Seg.o e]) ++ flatL (ses.map Seg.s ++ Q2)).set
              ((flatL (P0 ++ [Seg.o e])).length - 1) (Lbl.g fs.length)
              = flatL (P0 ++ [Seg.g fs.length [e]]) ++ flatL (ses.map Seg.s ++ Q2) := by
            have : (flatL (P0 ++ [Seg.o e])).length - 1 = (flatL P0).length := by simp [Seg.lbl]
            rw [this]
            simp only [flatL_append, flatL_cons, flatL_nil, Seg.lbl, List.append_nil,
              List.append_assoc, List.singleton_append, List.length_cons, List.length_nil,
              List.replicate_succ, List.replicate_zero]
            exact set_append_cons _ _ _ _
          rw [hset] at h
          refine ⟨fs.length, [e], fs ++ [1], some fs.length, _, rfl, rfl, ?_, ?_, ?_, ?_, h⟩
          · have := hg; simp only [List.append_assoc, List.singleton_append] at this
            exact this.new_mid
          · simp [Seg.ax]
          · simp [Seg.outK, SymShape.sizes, prod]
          · simp [Seg.lbl]
      obtain ⟨k, es, fs', g', term', hg', hterm', hgok', hE', hK', hlen', h⟩ := key
      subst hg' hterm'
      split at h
      · cases h
      · rename_i i' term'' fs'' habs
        have e1 : flatL (P0 ++ [Seg.g k es]) ++ flatL (ses.map Seg.s ++ Q2)
            = flatL (P0 ++ [Seg.g k es]) ++ List.replicate ((ses.length - 1) + 1) Lbl.s ++ flatL Q2 := by
          rw [flatL_append (ses.map Seg.s), flatL_map_s, ← hses1]; simp
        rw [← hlen', e1] at habs
        obtain ⟨fsB, hr, hB⟩ := absorb_spec k _ _ _ _ _ _ hT2 habs
        simp only [Prod.mk.injEq] at hr
        obtain ⟨rfl, rfl, rfl⟩ := hr
        rw [← hses1] at hB h
        -- the merged segment
        have hgok2 : GOk fs'' (P0 ++ Seg.g k (es ++ ses) :: Q2) := by
          have h2 := hgok'.bump_mid hB (es' := es ++ ses) (by simp)
          refine h2.congr ?_ ?_
          · simp [gKeys_cons, gKeys_append, gKeys_map_s]
          · intro k' es' hm
            simp only [List.mem_append, List.mem_cons, List.mem_map] at hm ⊢
            rcases hm with hm | hm | hm
            · exact Or.inl hm
            · exact Or.inr (Or.inl hm)
            · exact Or.inr (Or.inr (Or.inr hm))
        have hterm2 : flatL (P0 ++ [Seg.g k es]) ++ List.replicate ses.length (Lbl.g k) ++ flatL Q2
            = flatL (P0 ++ [Seg.g k (es ++ ses)]) ++ flatL Q2 := by
          simp [Seg.lbl, List.replicate_append_replicate]
        have hi2 : (flatL (P0 ++ [Seg.g k es])).length + ses.length
            = (flatL (P0 ++ [Seg.g k (es ++ ses)])).length := by
          simp [Seg.lbl]; omega
        rw [hterm2, hi2] at h
        have hPn : OG (P0 ++ [Seg.g k (es ++ ses)]) :=
          hP0.append (fun a ha => by rw [List.mem_singleton.mp ha]; rfl)
        have hEfin : flatE (P0 ++ [Seg.g k (es ++ ses)]) ++ flatE Q2
            = flatE (P0 ++ [last] ++ (ses.map Seg.s ++ Q2)) := by
          rw [flatE_append (P0 ++ [last]), ← hE']
          simp [Seg.ax, flatE_map_s]
        have hKfin : flatK (P0 ++ [Seg.g k (es ++ ses)]) ++ flatK Q2
            = flatK (P0 ++ [last] ++ (ses.map Seg.s ++ Q2)) := by
          rw [flatK_append (P0 ++ [last]), ← hK']
          simp [Seg.outK, flatK_map_s, sizes_append, C07.prod_append, prod_sizes_ones ses hses_one]
        have fin : SqConcl ((P0 ++ [Seg.g k (es ++ ses)]) ++ Q2) r → SqConcl (P0 ++ [last] ++ (ses.map Seg.s ++ Q2)) r := by
          rintro ⟨P', h1', h2', h3', h4', h5'⟩
          refine ⟨P', h1', h2', h3', ?_, ?_⟩
          · rw [h4', flatE_append, hEfin]
          · rw [h5', flatK_append, hKfin]
        apply fin
        cases Q2 with
        | nil =>
          simp only [flatL_nil, List.append_nil] at h hgok2 ⊢
          have hgok3 : GOk fs'' (P0 ++ [Seg.g k (es ++ ses)]) := hgok2
          exact sq_nil fuel 1 _ fs'' (some k) r hPn hgok3 h
        | cons Y Q3 =>
          have hY := hOQ2 Y (by simp)
          have hYog : Y.isOG = true := by
            cases Y <;> simp [Seg.isOSG, Seg.isOG] at hY ⊢
            exact hnos _ _ rfl
          have hYlen : 1 ≤ Y.lbl.length := by
            cases Y with
            | o e => simp [Seg.lbl]
            | g k2 es2 =>
              have := (hgok2.len k2 es2 (by simp)).2
              simpa [Seg.lbl] using this
            | s e => exact absurd rfl (hnos _ _)
            | u _ _ _ => simp [Seg.isOSG] at hY
            | x => simp [Seg.isOSG] at hY
          have e3 : P0 ++ [Seg.g k (es ++ ses)] ++ Y :: Q3 = (P0 ++ [Seg.g k (es ++ ses)]) ++ Y :: Q3 := rfl
          refine sq_enter ih Y Q3 (by simp at hQ2len; omega) hYog 1 hYlen fuel _ fs'' (some k) r hPn
            (fun a ha => hOQ2 a (by simp [ha])) (by simpa using hgok2)
            (fun e he => h1Q2 e (by simp [he])) h

theorem sqClaim : ∀ n, SqClaim n := by
  intro n
  induction n with
  | zero =>
    intro Q hQ fuel P fs g r hP _ _ hg _ h
    have : Q = [] := List.length_eq_zero_iff.mp (by omega)
    subst this
    simp only [flatL_nil, List.append_nil] at h hg ⊢
    exact sq_nil fuel 0 P fs g r hP hg h
  | succ n ih => exact sq_step ih

/-- **the squeeze phase** (`if any_singleton:` block) on segments -/
theorem squeezePhase_segs (S : List Seg) (fs : List Nat) (r : List Lbl × List Nat) (hO : OSG S)
    (hg : GOk fs S) (h1 : SOne S) (h : squeezePhase (flatL S) fs = .ok r) : SqConcl S r := by
  cases S with
  | nil => simp [squeezePhase, throw, throwThe, MonadExceptOf.throw] at h
  | cons X R =>
    have hOR : OSG R := fun a ha => hO a (by simp [ha])
    have h1R : SOne R := fun e he => h1 e (by simp [he])
    have hXo := hO X (by simp)
    by_cases hX : X.isOG = true
    · have hXl : ∃ l rest, X.lbl = l :: rest := by
        cases X with
        | o e => exact ⟨_, _, rfl⟩
        | g k es =>
          have := (hg.len k es (by simp)).2
          cases es with
          | nil => simp at this
          | cons e es => exact ⟨Lbl.g k, List.replicate es.length (Lbl.g k), by simp [Seg.lbl, List.replicate_succ]⟩
        | s e => simp [Seg.isOG] at hX
        | u _ _ _ => simp [Seg.isOG] at hX
        | x => simp [Seg.isOG] at hX
      obtain ⟨l, rest, hl⟩ := hXl
      have hls : l.isS = false := og_lbl_notS hX l (by rw [hl]; simp)
      have h0 : (flatL (X :: R))[0]? = some l := by simp [hl]
      simp only [squeezePhase, h0, hls, Bool.false_eq_true, if_false] at h
      have := sq_enter (sqClaim R.length) X R (Nat.le_refl _) hX 1 (by rw [hl]; simp) _ [] fs none r
        (fun a ha => by simp at ha) hOR (by simpa using hg) h1R (by simpa using h)
      simpa using this
    · cases X with
      | o e => simp [Seg.isOG] at hX
      | g k es => simp [Seg.isOG] at hX
      | u k d subs => simp [Seg.isOSG] at hXo
      | x => simp [Seg.isOSG] at hXo
      | s e0 =>
      obtain ⟨hsp, hnos⟩ := spanS_eq (Seg.s e0 :: R)
      generalize hses : (spanS (Seg.s e0 :: R)).1 = ses at hsp
      generalize hQ2 : (spanS (Seg.s e0 :: R)).2 = Q2 at hsp hnos
      have hses1 : ses.length = (ses.length - 1) + 1 := by
        have : ses ≠ [] := by rw [← hses]; simp [spanS]
        have := List.length_pos_iff.mpr this
        omega
      have hOQ2 : OSG Q2 := fun a ha => hO a (by rw [hsp]; simp [ha])
      have h1Q2 : SOne Q2 := fun e he => h1 e (by rw [hsp]; simp [he])
      have hses_one : ∀ e ∈ ses, e.1 = 1 := fun e he => h1 e (by
        rw [hsp]; exact List.mem_append_left _ (List.mem_map.mpr ⟨e, he, rfl⟩))
      rw [hsp] at h hg ⊢
      have hT2 : ∀ l T2', flatL Q2 = l :: T2' → l.isS = false := by
        intro l T2' hl
        cases Q2 with
        | nil => simp at hl
        | cons Y Q3 =>
          have hY := hOQ2 Y (by simp)
          have hYog : Y.isOG = true := by
            cases Y <;> simp [Seg.isOSG, Seg.isOG] at hY ⊢
            exact hnos _ _ rfl
          rw [flatL_cons] at hl
          cases hYl : Y.lbl with
          | nil =>
            exfalso
            cases Y with
            | o e => simp [Seg.lbl] at hYl
            | g k es =>
              have hpos := (hg.len k es (by simp)).2
              have hc' := congrArg List.length hYl
              simp only [Seg.lbl, List.length_replicate, List.length_nil] at hc'; omega
            | s e => simp [Seg.isOG] at hYog
            | u _ _ _ => simp [Seg.isOG] at hYog
            | x => simp [Seg.isOG] at hYog
          | cons l0 rest =>
            rw [hYl] at hl
            injection hl with hl _
            subst hl
            exact og_lbl_notS hYog _ (by rw [hYl]; simp)
      have eterm : flatL (ses.map Seg.s ++ Q2)
          = [] ++ Lbl.s :: List.replicate (ses.length - 1) Lbl.s ++ flatL Q2 := by
        rw [flatL_append, flatL_map_s]
        conv => lhs; rw [hses1]
        simp [List.replicate_succ]
      have h0 : (flatL (ses.map Seg.s ++ Q2))[0]? = some Lbl.s := by rw [eterm]; simp
      simp only [squeezePhase, h0, Lbl.isS, if_true] at h
      split at h
      · cases h
      · rename_i i l hskip
        rw [eterm] at hskip
        obtain ⟨l', T2', hfl, hr⟩ := skipS_spec _ _ [] _ _ hT2 hskip
        simp only [List.length_nil, Nat.zero_add, Prod.mk.injEq] at hr
        obtain ⟨rfl, rfl⟩ := hr
        have hi : 1 + (ses.length - 1) = ses.length := by omega
        rw [hi] at h
        cases Q2 with
        | nil => simp at hfl
        | cons Y Q3 =>
        have hY := hOQ2 Y (by simp)
        have hOQ3 : OSG Q3 := fun a ha => hOQ2 a (by simp [ha])
        have h1Q3 : SOne Q3 := fun e he => h1Q2 e (by simp [he])
        have key : ∃ (k : Nat) (es : List E) (fs' : List Nat),
            GOk fs' (ses.map Seg.s ++ Seg.g k es :: Q3)
            ∧ flatE [Seg.g k es] = flatE [Y] ∧ flatK [Seg.g k es] = flatK [Y]
            ∧ (match markLeft k ses.length 0 (flatL (ses.map Seg.s ++ Seg.g k es :: Q3)) fs' with
                | .error e => throw e
                | .ok (term'', fs'') => sqLoop (term''.length + 1) (ses.length + 1) term'' fs'' (some k))
              = Except.ok r := by
          cases Y with
          | s e => exact absurd rfl (hnos _ _)
          | u _ _ _ => simp [Seg.isOSG] at hY
          | x => simp [Seg.isOSG] at hY
          | g k es =>
            have hpos := (hg.len k es (by simp)).2
            have : l = Lbl.g k := by
              cases es with
              | nil => simp at hpos
              | cons e es =>
                simp [Seg.lbl, List.replicate_succ] at hfl
                exact hfl.1.symm
            subst this
            simp only [useG, pure, Except.pure] at h
            exact ⟨k, es, fs, hg, rfl, rfl, h⟩
          | o e =>
            have : l = Lbl.o := by
              simp [Seg.lbl] at hfl
              exact hfl.1.symm
            subst this
            simp only [useG, pure, Except.pure] at h
            have hset : (flatL (ses.map Seg.s ++ Seg.o e :: Q3)).set ses.length (Lbl.g fs.length)
                = flatL (ses.map Seg.s ++ Seg.g fs.length [e] :: Q3) := by
              have hl : ses.length = (flatL (ses.map Seg.s)).length := by simp [flatL_map_s]
              rw [flatL_append, flatL_append]
              conv => lhs; rw [hl]
              simp only [flatL_cons, Seg.lbl, List.singleton_append, List.length_cons, List.length_nil,
                List.replicate_succ, List.replicate_zero]
              exact set_append_cons _ _ _ _
            rw [hset] at h
            exact ⟨fs.length, [e], fs ++ [1], hg.new_mid, by simp [Seg.ax],
              by simp [Seg.outK, SymShape.sizes, prod], h⟩
        obtain ⟨k, es, fs', hgok', hE', hK', h⟩ := key
        split at h
        · cases h
        · rename_i term'' fs'' hmark
          have em : flatL (ses.map Seg.s ++ Seg.g k es :: Q3)
              = [] ++ List.replicate ses.length Lbl.s ++ flatL (Seg.g k es :: Q3) := by
            rw [flatL_append, flatL_map_s]; simp
          rw [em] at hmark
          have hmark' : markLeft k (List.replicate ses.length Lbl.s).length ([] : List Lbl).length
              ([] ++ List.replicate ses.length Lbl.s ++ flatL (Seg.g k es :: Q3)) fs'
              = .ok (term'', fs'') := by
            rw [List.length_replicate]; exact hmark
          have hklt : k < fs'.length := hgok'.key_lt (by
            rw [gKeys_append]; exact List.mem_append_right _ (by simp [gKeys_cons, Seg.gKey]))
          obtain ⟨fsB, hr, hB⟩ := markLeft_spec k _ [] _ fs' _ hklt hmark'
          simp only [Prod.mk.injEq, List.length_replicate] at hr hB
          obtain ⟨rfl, rfl⟩ := hr
          have hpos := (hgok'.len k es (by simp)).2
          have hterm2 : [] ++ List.replicate ses.length (Lbl.g k) ++ flatL (Seg.g k es :: Q3)
              = flatL [] ++ flatL (Seg.g k (ses ++ es) :: Q3) := by
            simp only [flatL_nil, List.nil_append, flatL_cons, Seg.lbl, List.length_append]
            rw [← List.append_assoc, List.replicate_append_replicate]
          rw [hterm2] at h
          have hgok2 : GOk fs'' ([] ++ Seg.g k (ses ++ es) :: Q3) := by
            have h2 := hgok'.bump_mid hB (es' := ses ++ es) (by simp; omega)
            refine h2.congr ?_ ?_
            · simp [gKeys_cons, gKeys_append, gKeys_map_s]
            · intro k' es' hm
              simp only [List.nil_append, List.mem_append, List.mem_cons, List.mem_map] at hm ⊢
              rcases hm with hm | hm
              · exact Or.inr (Or.inl hm)
              · exact Or.inr (Or.inr hm)
          have hfin := sq_enter (sqClaim Q3.length) (Seg.g k (ses ++ es)) Q3 (Nat.le_refl _) rfl
            (ses.length + 1) (by simp [Seg.lbl]; omega) _ [] fs'' (some k) r
            (fun a ha => by simp at ha) hOQ3 hgok2 h1Q3 (by simpa using h)
          obtain ⟨P', h1', h2', h3', h4', h5'⟩ := hfin
          refine ⟨P', h1', h2', h3', ?_, ?_⟩
          · rw [h4']
            have := congrArg (· ++ flatE Q3) hE'
            simp only [flatE_cons, flatE_nil, List.append_nil] at this
            simp only [List.nil_append, flatE_append, flatE_cons, flatE_map_s, ← this]
            simp [Seg.ax]
          · rw [h5']
            have := congrArg (· ++ flatK Q3) hK'
            simp only [flatK_cons, flatK_nil, List.append_nil] at this
            simp only [List.nil_append, flatK_append, flatK_cons, flatK_map_s, ← this]
            simp [Seg.outK, sizes_append, C07.prod_append, prod_sizes_ones ses hses_one]

end SymmModel.Reshape3
