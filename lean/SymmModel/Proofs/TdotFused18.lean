/-
  SymmModel.Proofs.TdotFused18 — the fused strategy when the LEFT operand is contracted
  completely (vector · matrix shape: left group empty, contraction and right group non-empty).
  Namespace `SymmModel.TdotP`.
-/
import SymmModel.Proofs.TdotFused17

namespace SymmModel
namespace TdotP
variable {R : Type}

/-- the product of the fused vector and the fused matrix -/
def cfVM [Zero R] [Add R] [Mul R] (A B : Arr R) (xa xb : List Nat) : Arr R :=
  tensordotBlockwise (FuseP.fusedArrM A [xa]) (FuseP.fusedArrM B [xb, freeAxes B.ndim xb]) [] [0] [0] [1]

/-- **left operand contracted completely, aligned operands.** -/
theorem Ctx0.vm [AddCommMonoid R] [Mul R] [Neg R]
    (hz1 : ∀ x : R, 0 * x = 0) (hz2 : ∀ x : R, x * 0 = 0) {A B : Arr R} {xa xb : List Nat}
    (h : Ctx0 A B xa xb) (hneK : xa ≠ []) (hL : freeAxes A.ndim xa = [])
    (hneR : freeAxes B.ndim xb ≠ []) :
    ∃ c, (if ((freeAxes B.ndim xb).length != 1) = true then unfuseA (cfVM A B xa xb) 0
          else pure (cfVM A B xa xb)) = .ok c
      ∧ c.validB = true
      ∧ c.sym = A.sym ∧ c.fermi = false ∧ c.charge = A.sym.combine [A.charge, B.charge]
      ∧ c.phases = [] ∧ c.oddpos = A.oddpos
      ∧ c.indices.length = (freeAxes A.ndim xa).length + (freeAxes B.ndim xb).length
      ∧ (∀ K V, alookup c.blocks K = some V → ∀ J, inBox V.shape J = true →
          V.get J = (tensordotBlockwise A B (freeAxes A.ndim xa) xa xb (freeAxes B.ndim xb)).elem K J)
      ∧ (∀ s ∈ (tensordotBlockwise A B (freeAxes A.ndim xa) xa xb (freeAxes B.ndim xb)).sectors,
          s ∈ c.sectors)
      ∧ List.Forall₂ SizeLe c.indices (permuted A.indices (freeAxes A.ndim xa)
            ++ permuted B.indices (freeAxes B.ndim xb)) := by
  have hneKb : xb ≠ [] := by
    intro e; have := h.len; rw [e] at this; exact hneK (List.eq_nil_of_length_eq_zero this)
  have hpA := solo_of_free_nil h.nA h.rA hneK hL
  have hpB := pair_of_free' h.nB h.rB hneKb hneR
  have hokA := hpA.groupsOk
  have hokB := hpB.groupsOk
  have gA : ([xa] : List (List Nat))[0]? = some xa := rfl
  have gB : ([xb, freeAxes B.ndim xb] : List (List Nat))[0]? = some xb := rfl
  have gB1 : ([xb, freeAxes B.ndim xb] : List (List Nat))[1]? = some (freeAxes B.ndim xb) := rfl
  have hvaf := fused_solo_validB h.vA h.fA hpA
  have hvbf := fused_pair_validB h.vB h.fB hpB
  have iA : (FuseP.fusedArrM A [xa]).indices = [FuseP.ixM A [xa] 0] := solo_newIdx hpA
  have iB : (FuseP.fusedArrM B [xb, freeAxes B.ndim xb]).indices
      = [FuseP.ixM B [xb, freeAxes B.ndim xb] 0, FuseP.ixM B [xb, freeAxes B.ndim xb] 1] := pair_newIdx hpB
  have e1 : (FuseP.fusedArrM A [xa]).ndim = 1 := by
    show (FuseP.fusedArrM A [xa]).indices.length = 1; rw [iA]; rfl
  have e2 : (FuseP.fusedArrM B [xb, freeAxes B.ndim xb]).ndim = 2 := by
    show (FuseP.fusedArrM B [xb, freeAxes B.ndim xb]).indices.length = 2; rw [iB]; rfl
  have bm := h.bond_match hokA hokB gA gB
  have ean : A.indices.length = A.ndim := rfl
  have ebn : B.indices.length = B.ndim := rfl
  -- validity of the product
  have hvcf : (cfVM A B xa xb).validB = true := by
    have := ValidP.tensordotBlockwise_valid (FuseP.fusedArrM A [xa])
      (FuseP.fusedArrM B [xb, freeAxes B.ndim xb]) [0] [0]
      ((ValidP.validB_iff _).mp hvaf) ((ValidP.validB_iff _).mp hvbf) h.sym h.fA
      (by
        unfold ValidP.oppositeDualsB
        simp only [List.length_cons, List.length_nil, BEq.rfl, List.zip_cons_cons, List.zip_nil_right,
          List.all_cons, List.all_nil, Bool.and_true, Bool.true_and, bne_iff_ne, ne_eq]
        rw [iA, iB]
        simp only [List.getD_cons_zero]
        rw [bm.2.2]
        cases (FuseP.ixM B [xb, freeAxes B.ndim xb] 0).dual <;> simp)
      (by simp) (by simp) (by simp [e1]) (by simp [e2])
    rw [e1, e2, without_range, without_range, freeAxes_1_0, freeAxes_2_0] at this
    exact (ValidP.validB_iff _).mpr this
  obtain ⟨t1, t2, t3, t4, t5⟩ := tensordotBlockwise_fields
    (FuseP.fusedArrM A [xa]) (FuseP.fusedArrM B [xb, freeAxes B.ndim xb]) [] [0] [0] [1]
  obtain ⟨u1, u2, u3, u4, u5⟩ := fusedArrM_fields A [xa]
  obtain ⟨_, _, w3, _, _⟩ := fusedArrM_fields B [xb, freeAxes B.ndim xb]
  have k1 : (cfVM A B xa xb).sym = A.sym := t1.trans u1
  have k3 : (cfVM A B xa xb).charge = A.sym.combine [A.charge, B.charge] := by
    unfold cfVM; rw [t3, u1, u3, w3]
  have k5 : (cfVM A B xa xb).oddpos = A.oddpos := t5.trans u5
  have hfcf : (cfVM A B xa xb).fermi = false := (t2.trans u2).trans h.fA
  have hpcf : (cfVM A B xa xb).phases = [] := (t4.trans u4).trans h.phA
  have hdcf : allDistinct (cfVM A B xa xb).sectors = true := Arr.allDistinct_of_validB hvcf
  have hidx : (cfVM A B xa xb).indices =
      [dropTo (FuseP.ixM B [xb, freeAxes B.ndim xb] 1)
        ((cfVM A B xa xb).sectors.filterMap (fun s => s[0]?))] := by
    unfold cfVM
    rw [tensordotBlockwise_indices]
    have e1 : without (FuseP.fusedArrM A [xa]).indices [0] = [] := by rw [iA]; rfl
    have e2 : without (FuseP.fusedArrM B [xb, freeAxes B.ndim xb]).indices [0]
        = [FuseP.ixM B [xb, freeAxes B.ndim xb] 1] := by rw [iB]; rfl
    rw [e1, e2]
    rfl
  -- stored blocks of the product
  have hblock : ∀ {ns : Sector} {Bx : Blk R}, (ns, Bx) ∈ (cfVM A B xa xb).blocks →
      ∃ cR dR, ns = [cR] ∧ cR ∈ (cfVM A B xa xb).sectors.filterMap (fun s => s[0]?)
        ∧ (FuseP.ixM B [xb, freeAxes B.ndim xb] 1).sizeOf? cR = some dR ∧ Bx.shape = [dR] := by
    intro ns Bx hm
    have hsh := Arr.shapesOk_of_validB hvcf (ns, Bx) hm
    have hsec : ns ∈ (cfVM A B xa xb).sectors := List.mem_map.mpr ⟨_, hm, rfl⟩
    rw [hidx] at hsh
    obtain ⟨hl, _⟩ := blockShape?_length hsh
    match ns, hl with
    | [cR], _ =>
      have hcR : cR ∈ (cfVM A B xa xb).sectors.filterMap (fun s => s[0]?) :=
        List.mem_filterMap.mpr ⟨_, hsec, rfl⟩
      simp only [Arr.blockShape?_cons, Arr.blockShape?_nil_nil, dropTo_sizeOf? _ _ hcR] at hsh
      cases hzR : (FuseP.ixM B [xb, freeAxes B.ndim xb] 1).sizeOf? cR with
      | none => simp [hzR] at hsh
      | some dR =>
        simp only [hzR, Option.bind_some, Option.map_some, Option.some.injEq] at hsh
        exact ⟨cR, dR, rfl, hcR, hzR, hsh.symm⟩
  -- the core
  have hcore : ∀ {cR : Charge} {iR dR : Nat} {Rs : Sector} {oR : List Nat},
      decAx B [xb, freeAxes B.ndim xb] 1 cR iR = some (Rs, oR) →
      (FuseP.ixM B [xb, freeAxes B.ndim xb] 1).sizeOf? cR = some dR → iR < dR →
      (cfVM A B xa xb).elem [cR] [iR] =
        (tensordotBlockwise A B (freeAxes A.ndim xa) xa xb (freeAxes B.ndim xb)).elem ([] ++ Rs) ([] ++ oR) := by
    intro cR iR dR Rs oR hdR hzR hiR
    obtain ⟨shpR, hshpR, hboxR⟩ := decAx_facts h.vaB hokB gB1 hdR hzR hiR
    have hRlen : Rs.length = (freeAxes B.ndim xb).length := by
      rw [(blockShape?_length hshpR).1, permuted_length _ _ (by simpa [ebn] using mem_freeAxes_lt)]
    have hoRlen : oR.length = (freeAxes B.ndim xb).length := by
      rw [inBox_length hboxR, (blockShape?_length hshpR).2,
        permuted_length _ _ (by simpa [ebn] using mem_freeAxes_lt)]
    have hshpL : Arr.blockShape? (permuted A.indices (freeAxes A.ndim xa)) [] = some [] := by
      rw [hL]; rfl
    unfold cfVM
    rw [vm_elem hz1 hz2 (FuseP.fusedArrM A [xa]) (FuseP.fusedArrM B [xb, freeAxes B.ndim xb]) _ _ _
      iA iB h.phA h.phB (Arr.allDistinct_of_validB hvaf) (Arr.allDistinct_of_validB hvbf)
      (Arr.shapesOk_of_validB hvaf) (Arr.shapesOk_of_validB hvbf)
      (cm_keys_nodup (ixM_wfB h.vaA hokA gA)) hzR hiR]
    refine core_generic hz1 hz2 h hokA hokB gA gB (Ls := []) (Rs := Rs) (oL := []) (oR := oR)
      hshpL (by rfl) hshpR hboxR
      (fun c k => (FuseP.fusedArrM A [xa]).elem [c] [k])
      (fun c k => (FuseP.fusedArrM B [xb, freeAxes B.ndim xb]).elem [c, cR] [k, iR]) ?_ ?_
    · intro c D k K ok hsz hkD hdec
      obtain ⟨shpK, hshpK, hboxK⟩ := decAx_facts h.vaA hokA gA hdec hsz hkD
      have hKlen : K.length = xa.length := by
        rw [(blockShape?_length hshpK).1, permuted_length _ _ (by simpa [ean] using h.rA)]
      have hoklen : ok.length = xa.length := by
        rw [inBox_length hboxK, (blockShape?_length hshpK).2,
          permuted_length _ _ (by simpa [ean] using h.rA)]
      exact solo_elem h.vaA h.phA hpA hdec hsz hkD (mergeSec_length _ _ _ _) (mergeIdx_length _ _ _ _ _ _)
        (permuted_mergeSec_axes h.nA h.rA hKlen) (permuted_mergeIdx_axes _ h.nA h.rA hoklen)
    · intro c D k K ok hsz hkD hdec
      obtain ⟨shpK, hshpK, hboxK⟩ := decAx_facts h.vaB hokB gB hdec hsz hkD
      have hKlen : K.length = xb.length := by
        rw [(blockShape?_length hshpK).1, permuted_length _ _ (by simpa [ebn] using h.rB)]
      have hoklen : ok.length = xb.length := by
        rw [inBox_length hboxK, (blockShape?_length hshpK).2,
          permuted_length _ _ (by simpa [ebn] using h.rB)]
      exact pair_elem h.vaB h.phB hpB hdec hdR hsz hkD hzR hiR
        (mergeSec_length _ _ _ _) (mergeIdx_length _ _ _ _ _ _)
        (permuted_mergeSec_axes h.nB h.rB hKlen) (permuted_mergeSec_free hRlen)
        (permuted_mergeIdx_axes _ h.nB h.rB hoklen)
        (permuted_mergeIdx_free _ (freeAxes_nodup _ _) mem_freeAxes_lt
          (fun _ hx => (mem_freeAxes.mp hx).2) hoRlen)
  -- the unfuse stage
  generalize hS0 : (cfVM A B xa xb).sectors.filterMap (fun s => s[0]?) = S0 at hidx hblock
  have hix0 : (cfVM A B xa xb).indices[0]? = some (dropTo (FuseP.ixM B [xb, freeAxes B.ndim xb] 1) S0) := by
    rw [hidx]; rfl
  have hm0 : ((freeAxes B.ndim xb).length != 1) = true →
      (dropTo (FuseP.ixM B [xb, freeAxes B.ndim xb] 1) S0).sub.isSome = true := by
    intro hm
    rw [dropTo_sub _ _ (FuseP.ixM_sub hokB gB1 (by simpa using hm))]; rfl
  obtain ⟨c, hc_ok, hcv, hcf, hc1, hc2, hc3, hc4, hcidx, hback, hfwd⟩ :=
    stage (cfVM A B xa xb) 0 ((freeAxes B.ndim xb).length != 1) _ hvcf hfcf hix0 hm0
  have hci : c.indices =
      (if ((freeAxes B.ndim xb).length != 1) = true then
          ((dropTo (FuseP.ixM B [xb, freeAxes B.ndim xb] 1) S0).sub.map (·.1)).getD []
        else [dropTo (FuseP.ixM B [xb, freeAxes B.ndim xb] 1) S0]) := by
    rw [hcidx, hidx]
    simp only [List.take_zero, List.drop_succ_cons, List.drop_zero, List.nil_append, List.append_nil]
  have hleg := leg_sizeLe hokB gB1 S0
  refine ⟨c, hc_ok, hcv, by rw [hc1]; exact k1, hcf, by rw [hc2]; exact k3, by rw [hc3]; exact hpcf,
    by rw [hc4]; exact k5, ?_, ?_, ?_, ?_⟩
  · -- rank
    have := hleg.length_eq
    rw [hci, this, hL, permuted_length _ _ (by simpa [ebn] using mem_freeAxes_lt)]
    simp
  · -- values
    intro K2 V2 hl2 J2 hJ2
    obtain ⟨ns, Bx, segR, nR, hmem, hK2, hsegR, _, hget⟩ := hback K2 V2 hl2
    obtain ⟨cR, dR, rfl, hcR, hzR, hBxs⟩ := hblock hmem
    simp only [List.take_zero, List.nil_append, List.drop_succ_cons, List.append_nil,
      List.drop_nil] at hK2
    subst hK2
    obtain ⟨iR, hdecR, hg, hbox⟩ := hget J2 hJ2
    simp only [List.take_zero, List.nil_append, Nat.zero_add, List.drop_zero, List.getD_cons_zero,
      List.singleton_append] at hdecR hg hbox
    rw [hBxs] at hbox
    have hl := inBox_length hbox
    simp only [List.length_cons, List.length_nil] at hl
    have hrest : J2.drop nR = [] := by
      apply List.eq_nil_of_length_eq_zero; omega
    rw [hrest] at hbox hg
    simp only [inBox, Bool.and_eq_true, decide_eq_true_eq, and_true] at hbox
    have hoR : J2.take nR = J2 := by
      have := List.take_append_drop nR J2
      rw [hrest, List.append_nil] at this; exact this
    rw [hoR] at hdecR
    rw [decIx_dropTo gB1 S0 hcR] at hdecR
    have := hcore hdecR hzR hbox
    rw [List.nil_append, List.nil_append] at this
    rw [hg, ← this]
    exact (Arr.elem_of_mem hdcf hpcf hmem [iR]).symm
  · -- stored sectors
    intro s hs
    rw [tensordotBlockwise_sectors_eq, List.mem_eraseDups, mem_tdKeys] at hs
    obtain ⟨x, hx, y', hy', hxy, rfl⟩ := hs
    obtain ⟨sa, hsa, rfl⟩ := List.mem_map.mp hx
    obtain ⟨sb, hsb, rfl⟩ := List.mem_map.mp hy'
    have hsec : [FuseP.cM (a := B) (groups := [xb, freeAxes B.ndim xb]) sb 1] ∈ (cfVM A B xa xb).sectors := by
      unfold cfVM
      rw [tensordotBlockwise_sectors_eq, List.mem_eraseDups, mem_tdKeys]
      obtain ⟨Ba, hBa, _⟩ := FuseP.fusedBlockM_exists h.vaA hokA hsa
      obtain ⟨Bb, hBb, _⟩ := FuseP.fusedBlockM_exists h.vaB hokB hsb
      rw [solo_newSector hpA] at hBa
      rw [pair_newSector hpB] at hBb
      refine ⟨_, List.mem_map.mpr ⟨_, alookup_mem hBa, rfl⟩, _, List.mem_map.mpr ⟨_, alookup_mem hBb, rfl⟩,
        ?_, ?_⟩
      · simp only [permuted, List.filterMap_cons, List.filterMap_nil, List.getElem?_cons_zero]
        rw [h.bond_charge hokA hokB gA gB hsa hsb hxy.symm]
      · simp [permuted]
    obtain ⟨⟨ns, Bx⟩, hmem, hnse⟩ := List.mem_map.mp hsec
    simp only at hnse
    subst hnse
    have hcR : FuseP.cM (a := B) (groups := [xb, freeAxes B.ndim xb]) sb 1 ∈ S0 := by
      rw [← hS0]; exact List.mem_filterMap.mpr ⟨_, hsec, rfl⟩
    have h2 := hfwd _ Bx hmem (permuted sb.1 (freeAxes B.ndim xb))
      (by simpa using segOf_stored h.vaB hokB gB1 hsb S0 hcR)
    rw [hL]
    simpa [permuted] using h2
  · -- index tables
    rw [hci, hL]
    have e : permuted A.indices [] = [] := rfl
    rw [e, List.nil_append]; exact hleg

end TdotP
end SymmModel
