/-
  SymmModel.Proofs.LinalgMore3 — fermionic `eigh` reconstruction:
  `ev.multiply_diagonal(w, 1) @ ev.dagger() = a` (C11b `eigh_reconstructs_fermionic`).
-/
import SymmModel.Proofs.LinalgMore2
import Mathlib.Tactic.Ring
import Mathlib.Algebra.Ring.Rat

namespace SymmModel

/-- sign laws of the scalars used by the fermionic eigh reconstruction -/
class SignLaws (R : Type) [Zero R] [Mul R] [Neg R] : Prop where
  neg_zero : -(0 : R) = 0
  neg_neg : ∀ a : R, - -a = a
  neg_mul : ∀ a b : R, (-a) * b = -(a * b)
  mul_neg : ∀ a b : R, a * (-b) = -(a * b)

instance : SignLaws Int where
  neg_zero := rfl
  neg_neg := Int.neg_neg
  neg_mul := Int.neg_mul
  mul_neg := Int.mul_neg

instance : SignLaws GRat where
  neg_zero := by
    show GRat.mk (-0) (-0) = GRat.mk 0 0
    simp
  neg_neg a := by
    show GRat.mk (- -a.re) (- -a.im) = a
    cases a; simp
  neg_mul a b := by
    show GRat.mk (-a.re * b.re - -a.im * b.im) (-a.re * b.im + -a.im * b.re)
      = GRat.mk (-(a.re * b.re - a.im * b.im)) (-(a.re * b.im + a.im * b.re))
    congr 1 <;> ring
  mul_neg a b := by
    show GRat.mk (a.re * -b.re - a.im * -b.im) (a.re * -b.im + a.im * -b.re)
      = GRat.mk (-(a.re * b.re - a.im * b.im)) (-(a.re * b.im + a.im * b.re))
    congr 1 <;> ring

namespace LinalgLemmas

variable {R : Type}

theorem alookup_flagged (l : List Sector) (P : Sector → Bool) (s : Sector) :
    (alookup ((l.filter P).map (fun s => (s, (-1 : Int)))) s == some (-1)) = (decide (s ∈ l) && P s) := by
  induction l with
  | nil => simp [alookup]
  | cons a l ih =>
    by_cases hP : P a = true
    · simp only [List.filter_cons, hP, if_true, List.map_cons, alookup]
      by_cases e : a = s
      · subst e; simp [hP]
      · have : (a == s) = false := by simp [e]
        simp only [this, Bool.false_eq_true, if_false, ih, List.mem_cons]
        have : ¬ s = a := fun h => e h.symm
        simp [this]
    · simp only [List.filter_cons, hP, Bool.false_eq_true, if_false, ih, List.mem_cons]
      by_cases e : s = a
      · subst e; simp [hP]
      · simp [e]

theorem multiplyDiagonal_blocks' [Zero R] [Mul R] {x : Arr R} (hv : x.validB = true)
    (h2 : x.ndim = 2) (fU fS : Sector × Blk R → Blk R) (u : Arr R) (sv : BVec R)
    (hu : u.blocks = x.blocks.map (fun p => (p.1, fU p)))
    (hs : sv.blocks = x.blocks.map (fun p => (colOf p.1, fS p))) :
    (multiplyDiagonal u sv 1).blocks
      = x.blocks.map (fun p => (p.1, (fU p).mulAxisK (fS p) 1)) := by
  have hcols : ((x.blocks.map (fun p => (colOf p.1, fS p))).map (·.1)).Nodup := by
    have := colCharges_nodup hv h2
    simpa [Arr.sectors, List.map_map, Function.comp_def, colOf] using this
  unfold multiplyDiagonal
  simp only []
  rw [hu, hs, List.filterMap_map]
  conv => rhs; rw [← List.filterMap_eq_map]
  apply List.filterMap_congr
  intro p hp
  have hl : alookup (x.blocks.map (fun p => (colOf p.1, fS p))) (colOf p.1) = some (fS p) :=
    alookup_of_mem_nodup hcols (List.mem_map.mpr ⟨p, hp, rfl⟩)
  simp only [Function.comp, colOf] at hl ⊢
  rw [hl]

/-- `FermionicArray.dagger()` of an array without pending signs and labels, even charge -/
theorem daggerF_plain [Zero R] [Conj R] (e : Arr R) (hp : e.phases = []) (ho : e.oddpos = []) :
    (e.daggerF).blocks = e.blocks.map (fun p =>
        (p.1.reverse, (p.2.conjK).transposeK (Arr.reversedAxes e.ndim)))
    ∧ (e.daggerF).phases = [] ∧ (e.daggerF).oddpos = []
    ∧ (e.daggerF).indices = e.indices.reverse.map Index.conj := by
  have hph : e.blocks.filterMap (fun (p : Sector × Blk R) =>
      if e.getPhase p.1 == -1 then some (p.1.reverse, (-1 : Int)) else none) = [] := by
    rw [List.filterMap_eq_nil_iff]
    intro p _
    simp [Arr.getPhase, hp, alookup]
  have h01 : ((0 : Nat) == 1) = false := rfl
  unfold Arr.daggerF
  simp only [ho, Arr.oddposDag, List.reverse_nil, List.map_nil, List.length_nil, Nat.zero_mod,
    h01, Bool.and_false, Bool.false_eq_true, if_false]
  exact ⟨trivial, hph, trivial, trivial⟩

/-! ### the fermionic eigh reconstruction -/

theorem eighInput_syncIf [Neg R] {a : Arr R} (H : EighInput a) : EighInput (syncIf a) := by
  obtain ⟨f1, f2, f3, f4, f5, f6⟩ := syncIf_fields a
  exact ⟨syncIf_valid a H.hv, by rw [syncIf_ndim]; exact H.h2, by rw [f4, f1]; exact H.hc,
    by rw [f3]; exact H.hopp, by rw [f3]; exact H.hcm⟩

theorem addrOf_syncIf [Neg R] {a : Arr R} (hv : a.validB = true) {s : Sector} {off : List Nat}
    (h : AddrOf a s off) : AddrOf (syncIf a) s off := by
  obtain ⟨_, _, f3, _, _, f6⟩ := syncIf_fields a
  rcases h with h | ⟨b, hm, hbox⟩
  · exact Or.inl (by rw [f6]; exact h)
  · right
    have hs' : s ∈ (syncIf a).sectors := by rw [f6]; exact List.mem_map.mpr ⟨(s, b), hm, rfl⟩
    obtain ⟨⟨s', b'⟩, hm', e⟩ := List.mem_map.mp hs'
    have e' : s' = s := e
    subst e'
    have e1 := (((validB_iff _).mp (syncIf_valid a hv)).2.2.2.1 _ b' hm').2.2.1
    have e2 := (((validB_iff _).mp hv).2.2.2.1 _ b hm).2.2.1
    rw [f3] at e1
    have : b'.shape = b.shape := Option.some.inj (e1.symm.trans e2)
    exact ⟨b', hm', by rw [this]; exact hbox⟩

theorem signed_term [Zero R] [Mul R] [Neg R] [SignLaws R] (σ : Bool) (x w c : R) :
    (x * (if σ then -w else w)) * (if σ then -c else c) = (x * w) * c := by
  cases σ with
  | false => rfl
  | true =>
    simp only [if_true]
    rw [SignLaws.mul_neg, SignLaws.mul_neg, SignLaws.neg_mul, SignLaws.neg_neg]

theorem eigh_recon_fermi [Zero R] [Add R] [Mul R] [Neg R] [Conj R] [SignLaws R]
    (hc0 : Conj.conj (0 : R) = 0) {K : Kernels R} (hK : K.ShapeOk) {a : Arr R} (H : EighInput a)
    (hf : a.fermi = true) (ho : a.oddpos = [])
    (hE : ∀ p ∈ a.phaseSync.blocks, K.EighBlock p.2) :
    ∃ w ev y, eighA K a = .ok (w, ev) ∧ Arr.matmulF (multiplyDiagonal ev w 1) ev.daggerF = .ok y
      ∧ y.oddpos = [] ∧ ∀ s off, AddrOf a s off → y.elem s off = a.elem s off := by
  have HA := eighInput_syncIf H
  obtain ⟨f1, f2, f3, f4, f5, f6⟩ := syncIf_fields a
  obtain ⟨i0, i1, hi⟩ := ndim_two HA.h2
  have hi1 : (syncIf a).indices.getD 1 default = i1 := by rw [hi]; rfl
  have hAph : (syncIf a).phases = [] := syncIf_phases a H.hv
  have hAo : (syncIf a).oddpos = [] := f5.trans ho
  have hfA : (syncIf a).fermi = true := f2.trans hf
  have hcore := eighCore_eq K HA
  -- name the pieces
  generalize hW : (⟨let ev := (syncIf a).blocks.map (fun p => (colOf p.1, (K.eigh p.2).1))
        if (syncIf a).fermi && !((syncIf a).indices.getD 1 default).dual then
          ev.map (fun q => if (syncIf a).sym.parity q.1 then (q.1, q.2.negK) else (q.1, q.2))
        else ev⟩ : BVec R) = W at hcore
  generalize hEV : ({ syncIf a with blocks := (syncIf a).blocks.map (fun p => (p.1, (K.eigh p.2).2)) }
      : Arr R) = EV at hcore
  have hEVb : EV.blocks = (syncIf a).blocks.map (fun p => (p.1, (K.eigh p.2).2)) := by rw [← hEV]
  have hEVp : EV.phases = [] := by rw [← hEV]; exact hAph
  have hEVo : EV.oddpos = [] := by rw [← hEV]; exact hAo
  have hEVi : EV.indices = [i0, i1] := by rw [← hEV]; exact hi
  have hEVn : EV.ndim = 2 := by simp [Arr.ndim, hEVi]
  -- eigenvalues with the sign `eigh_fermionic` applies
  have hWb : W.blocks = (syncIf a).blocks.map (fun p => (colOf p.1,
      if (!i1.dual && (syncIf a).sym.parity (colOf p.1)) then (K.eigh p.2).1.negK
      else (K.eigh p.2).1)) := by
    rw [← hW]
    simp only [hfA, hi1, Bool.true_and]
    by_cases hd : i1.dual = true
    · simp [hd]
    · simp only [hd, Bool.not_false, Bool.true_and, if_true, List.map_map, Function.comp_def]
      apply List.map_congr_left
      intro p _
      split <;> rfl
  -- left operand
  have hLb := multiplyDiagonal_blocks' HA.hv HA.h2 (fun p => (K.eigh p.2).2)
    (fun p => if (!i1.dual && (syncIf a).sym.parity (colOf p.1)) then (K.eigh p.2).1.negK
      else (K.eigh p.2).1) EV W hEVb hWb
  have hLp : (multiplyDiagonal EV W 1).phases = [] := hEVp
  have hLo : (multiplyDiagonal EV W 1).oddpos = [] := hEVo
  have hLn : (multiplyDiagonal EV W 1).ndim = 2 := hEVn
  -- right operand
  obtain ⟨hDb, hDp, hDo, hDi⟩ := daggerF_plain EV hEVp hEVo
  have hDi' : EV.daggerF.indices = [i1.conj, i0.conj] := by rw [hDi, hEVi]; rfl
  have hDb' : EV.daggerF.blocks = (syncIf a).blocks.map (fun p =>
      ([colOf p.1, colOf p.1], ((K.eigh p.2).2.conjK).transposeK [1, 0])) := by
    rw [hDb, hEVb, List.map_map, hEVn]
    apply List.map_congr_left
    intro p hp
    obtain ⟨c, m, hs, _⟩ := eigh_block HA (s := p.1) (b := p.2) hp
    simp only [Function.comp, hs]
    rfl
  have hDnd : EV.daggerF.sectors.Nodup := by
    have := colCharges_nodup HA.hv HA.h2
    have h' := nodup_map_of_inj _ (fun c : Charge => [c, c]) this (fun a _ b _ e => (List.cons.inj e).1)
    simpa [Arr.sectors, hDb', List.map_map, Function.comp_def, colOf] using h'
  have hB2b : (if i1.conj.dual then EV.daggerF.phaseFlip [0] else EV.daggerF).phaseSync.blocks
      = (syncIf a).blocks.map (fun p => ([colOf p.1, colOf p.1],
          if (!i1.dual && (syncIf a).sym.parity (colOf p.1))
          then (((K.eigh p.2).2.conjK).transposeK [1, 0]).negK
          else ((K.eigh p.2).2.conjK).transposeK [1, 0])) := by
    by_cases hd : i1.conj.dual = true
    · rw [if_pos hd]
      have hfb : (EV.daggerF.phaseFlip [0]).blocks = (syncIf a).blocks.map (fun p =>
          ([colOf p.1, colOf p.1], ((K.eigh p.2).2.conjK).transposeK [1, 0])) := by
        rw [(phaseFlip_fields _ [0]).2.2.2.2.1, hDb']
      rw [phaseSync_blocks_map _ (syncIf a).blocks (fun p => [colOf p.1, colOf p.1])
        (fun p => ((K.eigh p.2).2.conjK).transposeK [1, 0]) hfb]
      apply List.map_congr_left
      intro p hp
      rw [phaseFlip0_phases _ hDp hDnd, alookup_flagged]
      have hmem : [colOf p.1, colOf p.1] ∈ EV.daggerF.sectors := by
        simp only [Arr.sectors, hDb', List.map_map, List.mem_map, Function.comp]
        exact ⟨p, hp, rfl⟩
      have hd' : i1.dual = false := by
        rw [conj_dual] at hd; simpa using hd
      have hsym : EV.daggerF.sym = (syncIf a).sym := by
        unfold Arr.daggerF
        simp only [hEVo, Arr.oddposDag, List.reverse_nil, List.map_nil, List.length_nil,
          Nat.zero_mod, show ((0 : Nat) == 1) = false from rfl, Bool.and_false, Bool.false_eq_true,
          if_false]
        rw [← hEV]
      simp only [hmem, decide_true, Bool.true_and, List.getD_cons_zero, hd', Bool.not_false, hsym]
    · rw [if_neg hd, phaseSync_blocks_nil _ hDp, hDb']
      have hd' : i1.dual = true := by
        rw [conj_dual] at hd; simpa using hd
      simp [hd']
  have hB2o : (if i1.conj.dual then EV.daggerF.phaseFlip [0] else EV.daggerF).phaseSync.oddpos = [] := by
    show (if i1.conj.dual then EV.daggerF.phaseFlip [0] else EV.daggerF).oddpos = []
    split
    · rw [(phaseFlip_fields _ [0]).2.2.2.2.2]; exact hDo
    · exact hDo
  have hA2b := (phaseSync_blocks_nil _ hLp).trans hLb
  have hcb := tdot_blocks_aligned HA.hv HA.h2
    (fun p => (K.eigh p.2).2.mulAxisK
      (if (!i1.dual && (syncIf a).sym.parity (colOf p.1)) then (K.eigh p.2).1.negK
       else (K.eigh p.2).1) 1)
    (fun p => if (!i1.dual && (syncIf a).sym.parity (colOf p.1))
      then (((K.eigh p.2).2.conjK).transposeK [1, 0]).negK
      else ((K.eigh p.2).2.conjK).transposeK [1, 0]) _ _ hA2b hB2b
  have hm : Arr.matmulF (multiplyDiagonal EV W 1) EV.daggerF = .ok
      { tensordotBlockwise (multiplyDiagonal EV W 1).phaseSync
          (if i1.conj.dual then EV.daggerF.phaseFlip [0] else EV.daggerF).phaseSync [0] [1] [0] [1]
        with oddpos := (multiplyDiagonal EV W 1).phaseSync.oddpos } := by
    rw [matmulF_eq _ _ hLn _ _ hDi',
      resolve_short _ _ _ hB2o (by show (multiplyDiagonal EV W 1).oddpos.length ≤ 1; rw [hLo]; simp)]
  refine ⟨W, EV, _, by rw [eighA_eq_core]; exact hcore, hm, hLo, ?_⟩
  · intro s off ha
    rw [← syncIf_elem SignLaws.neg_zero a s off]
    apply elem_of_blocks_map HA.hv HA.h2 _ _ hcb rfl hAph _ s off (addrOf_syncIf H.hv ha)
    intro p hp i j hi' hj'
    obtain ⟨c, m, hs, hsh, hwf, _⟩ := eigh_block HA (s := p.1) (b := p.2) hp
    simp only [hsh, List.getD_cons_zero, List.getD_cons_succ] at hi' hj'
    obtain ⟨a1, _, a3, _⟩ := hK.eigh p.2 m hsh hwf
    have hEp : K.EighBlock p.2 := hE p (by rw [← syncIf_blocks_fermi a hf]; exact hp)
    rw [tensordotK_matmul_get _ _ (by rw [mulAxisK_shape]; exact a3)
      (show (if (!i1.dual && (syncIf a).sym.parity (colOf p.1)) = true
          then (((K.eigh p.2).2.conjK).transposeK [1, 0]).negK
          else ((K.eigh p.2).2.conjK).transposeK [1, 0]).shape = [m, m] by
        split
        · rw [negK_shape]; exact transposeK10_shape _ (by rw [conjK_shape]; exact a3)
        · exact transposeK10_shape _ (by rw [conjK_shape]; exact a3)) hi' hj',
      ← hEp m hsh i j hi' hj']
    apply foldl_ext'
    intro acc t ht
    have ht' := List.mem_range.mp ht
    rw [mulAxisK_get _ _ a3 hi' ht']
    have hWt : (if (!i1.dual && (syncIf a).sym.parity (colOf p.1)) = true then (K.eigh p.2).1.negK
        else (K.eigh p.2).1).get [t]
        = if (!i1.dual && (syncIf a).sym.parity (colOf p.1)) then - (K.eigh p.2).1.get [t]
          else (K.eigh p.2).1.get [t] := by
      split
      · rw [negK_get SignLaws.neg_zero]
      · rfl
    have hCt : (if (!i1.dual && (syncIf a).sym.parity (colOf p.1)) = true
          then (((K.eigh p.2).2.conjK).transposeK [1, 0]).negK
          else ((K.eigh p.2).2.conjK).transposeK [1, 0]).get [t, j]
        = if (!i1.dual && (syncIf a).sym.parity (colOf p.1))
          then - Conj.conj ((K.eigh p.2).2.get [j, t]) else Conj.conj ((K.eigh p.2).2.get [j, t]) := by
      split
      · rw [negK_get SignLaws.neg_zero, transposeK10_get _ (by rw [conjK_shape]; exact a3) ht' hj',
          conjK_get hc0]
      · rw [transposeK10_get _ (by rw [conjK_shape]; exact a3) ht' hj', conjK_get hc0]
    rw [hWt, hCt, signed_term]

end LinalgLemmas
end SymmModel
