/-
  SymmModel.Proofs.Reshape5e — the abelian fuse call is a `FuseOK` call.
-/
import SymmModel.Proofs.Reshape5d

namespace SymmModel
namespace Reshape5
open C07 ReshapeP FuseP
set_option linter.unusedSectionVars false

variable {R : Type} [Zero R] [Neg R] [Lazy.LawfulNeg R]

theorem hind_A : ∀ (x : Arr R) (p : Nat) (y : Arr R), unfuseA x p = .ok y →
    ∃ ix subs exts, x.indices[p]? = some ix ∧ ix.sub = some (subs, exts) := by
  intro x p y h
  obtain ⟨ix, subs, exts, h1, h2, _⟩ := ReshapeP.unfuseA_indices x y p h
  exact ⟨ix, subs, exts, h1, h2⟩

theorem hdisp_A : ∀ (x : Arr R) (p : Nat), (x.validB = true ∧ x.fermi = false) →
    unfuseDispatch x p = unfuseA x p := by
  intro x p h
  simp [unfuseDispatch, h.2]

/-- a chain of unfuse steps keeps symmetry, kind, charge and labels -/
theorem chain_fields {unf : Arr R → Nat → Except Err (Arr R)} {Good : Arr R → Prop}
    {sg : Sym → Index → List Index → Sector → Int} (H : StepOK unf Good sg)
    (hind : ∀ x p y, unf x p = .ok y → ∃ ix subs exts, x.indices[p]? = some ix ∧ ix.sub = some (subs, exts)) :
    ∀ (ps : List Nat) (x z : Arr R), Good x → ps.foldlM unf x = .ok z →
      Good z ∧ z.sym = x.sym ∧ z.fermi = x.fermi ∧ z.charge = x.charge ∧ z.oddpos = x.oddpos := by
  intro ps
  induction ps with
  | nil =>
    intro x z hx hz
    simp only [List.foldlM_nil, pure, Except.pure, Except.ok.injEq] at hz
    subst hz; exact ⟨hx, rfl, rfl, rfl, rfl⟩
  | cons p ps ih =>
    intro x z hx hz
    rw [List.foldlM_cons] at hz
    cases hu : unf x p with
    | error e => rw [hu] at hz; cases hz
    | ok y =>
      rw [hu] at hz
      obtain ⟨ix, subs, exts, hix, hsub⟩ := hind x p y hu
      obtain ⟨y1, h1, gy, _, ys, yf, yc, yo, _⟩ := H.step x p ix subs exts hx hix hsub
      rw [hu] at h1; injection h1 with h1; subst h1
      obtain ⟨gz, a1, a2, a3, a4⟩ := ih y z gy hz
      exact ⟨gz, a1.trans ys, a2.trans yf, a3.trans yc, a4.trans yo⟩

theorem phases_nil_of_valid {x : Arr R} (hv : x.validB = true) (hf : x.fermi = false) : x.phases = [] := by
  have := ((ValidP.validB_iff x).1 hv).sgn
  unfold ValidP.SignsOk at this
  simp only [hf, Bool.false_eq_true, if_false] at this
  exact this.1

/-- **the abelian fuse call** -/
theorem fuseOK_A : FuseOK (R := R) (fun y G => fuseA y G) unfuseA
    (fun a => a.validB = true ∧ a.fermi = false) where
  fuse := by
    intro y G P ⟨hv, hf⟩ hne h2 hflat hle
    have hok := groupsOk_of_call hne h2 hflat hle
    have hgok : groupsOkB G y.ndim = true := groupsOk_iff.2 hok
    have hNpos := flatten_pos hne h2
    have hva := validArr_of_validB hv
    have hdl := FuseP.duals_length y
    obtain ⟨hb, _, hperm⟩ := ValidP.groupInfo_consecutive (groups := G) (duals := y.duals)
      (p := P) (n := G.flatten.length) hflat hNpos (by rw [hdl]; exact hle)
    rw [hdl] at hperm
    have hpos : (calcFuseGroupInfo G y.duals).position = P := by
      obtain ⟨_, _, _, _, _, hb', _⟩ := C05.calcFuseGroupInfo_perm G y.duals (by rw [hdl]; exact hgok)
      have := congrArg List.length (hb'.symm.trans hb)
      simpa using this
    obtain ⟨y', z, hy', hz, hzi, hst, hex⟩ := C05.unfuse_fuse_blocks y G hv hgok
    rw [hpos] at hz
    rw [hperm] at hzi hst hex
    have hyA : fuseA y G = .ok y' := by
      rw [C05.fuseA_eq_fuseCore y G .insert true y.ndim hgok]; exact hy'
    have hy'v : y'.validB = true := C01.fuseCore_valid y y' G hv hf (fuseAdmissible_of_groupsOk hgok) hy'
    have hyeq : y' = fusedArrM y G := by
      have := fuseCore_multi_eq hva hok
      rw [hy'] at this; exact Except.ok.inj this
    have hy'f : y'.fermi = false := by rw [hyeq]; exact hf
    have hidx := ReshapeP.fuse_indices (x := y) (groups := G) (p := P) hv hok hflat hle hy'
    -- the chain
    have hz' : ((List.range G.length).map (fun g => P + g)).reverse.foldlM unfuseA y' = .ok z := by
      rw [← groups_chain unfuseA G P y' h2]; exact hz
    obtain ⟨gz, zs, zf, zc, zo⟩ := chain_fields (stepOK_A (R := R)) hind_A _ y' z ⟨hy'v, hy'f⟩ hz'
    have hzph : z.phases = [] := phases_nil_of_valid gz.1 gz.2
    have hyph : y.phases = [] := phases_nil_of_valid hv hf
    have hfld : y'.sym = y.sym ∧ y'.charge = y.charge ∧ y'.oddpos = y.oddpos := by
      rw [hyeq]; exact ⟨rfl, rfl, rfl⟩
    have hpr : ∀ s b, (s, b) ∈ y.blocks → permuted s (List.range y.ndim) = s
        ∧ b.transposeK (List.range y.ndim) = b := by
      intro s b hsb
      have hbk := hva.blk (s, b) hsb
      have hbl : b.shape.length = y.ndim := by rw [Arr.blockShape?_shape_length hbk.2.1]; rfl
      exact ⟨by rw [← hbk.1]; exact Lazy.permuted_range s, Norm.transposeK_id b hbl hbk.2.2⟩
    have hzy : VEq z y := by
      refine ⟨by rw [zs, hfld.1], by rw [zf, hy'f, hf], by rw [hzi]; exact Lazy.permuted_range y.indices,
        by rw [zc, hfld.2.1], by rw [zo, hfld.2.2], ?_⟩
      intro K J
      rw [Reshape4.elem_no_phases z hzph, Reshape4.elem_no_phases y hyph]
      cases hyK : alookup y.blocks K with
      | some b =>
        have hm := FuseP.alookup_some_mem hyK
        obtain ⟨e1, e2⟩ := hpr K b hm
        have := hst K b hm
        rw [e1, e2] at this
        rw [this]
      | none =>
        cases hzK : alookup z.blocks K with
        | none => rfl
        | some V =>
          rcases hex K V hzK with ⟨s, b, hsb, rfl⟩ | hz0
          · rw [(hpr s b hsb).1, FuseP.alookup_of_mem_nodup hva.nodup hsb] at hyK; cases hyK
          · exact FuseP.get_of_allZero hz0 J
    refine ⟨y', newMidOf y G, z, hyA, ⟨hy'v, hy'f⟩, hidx, newMidOf_length _ _,
      fun i g hg => newMidOf_sub y G h2 i g hg, hz', gz, hzy⟩

end Reshape5
end SymmModel
