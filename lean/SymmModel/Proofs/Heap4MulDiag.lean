/-
  SymmModel.Proofs.Heap4MulDiag — `multiply_diagonal(v, axis, inplace=True)`: the heap script
  (`S.multiplyDiagonal`: per block, store `block * v_block` or delete the block) denotes the value
  model's `multiplyDiagonal` (`Model/Tdot.lean`: a `filterMap` over the blocks) (property C14).
-/
import SymmModel.Proofs.Heap4Sync
namespace SymmModel.Heap

/-- the effects of `multiply_diagonal` on an array with content `c`, `vb` = the vector's block dict -/
def mdActs (chargeOf : Key → Key) (c : Content) (vb : Dict) : List SAct :=
  c.blocks.map fun e =>
    match vb.get? (chargeOf e.1) with
    | some b => SAct.kern e.1 tMul [e.2.toNat, b.toNat]
    | none => SAct.pop e.1

theorem multiplyDiagonal_pureV (chargeOf : Key → Key) (ov : View) (c : Content) (T : Bufs) :
    (S.multiplyDiagonal chargeOf).pureV ov (c, T) =
      ((mdActs chargeOf c (ov.getD 0 .none).toContent.blocks).foldl (fun s a => a.mut.pure s) ((c, T), [])).1 := by
  have hmap : (mdActs chargeOf c (ov.getD 0 .none).toContent.blocks).map SAct.mut =
      ((c.blocks.map fun e =>
        match (ov.getD 0 .none).toContent.blocks.get? (chargeOf e.1) with
        | some b => Act.bKern e.1 tMul [e.2.toNat, b.toNat]
        | none => Act.bPop e.1).map (Mut.act 0)) := by
    simp only [mdActs, List.map_map]
    apply List.map_congr_left
    intro e _
    simp only [Function.comp_def]
    split <;> rfl
  have h1 : (mdActs chargeOf c (ov.getD 0 .none).toContent.blocks).foldl (fun s a => a.mut.pure s) ((c, T), []) =
      ((mdActs chargeOf c (ov.getD 0 .none).toContent.blocks).map SAct.mut).foldl (fun s m => m.pure s)
        ((c, T), []) := by rw [List.foldl_map]
  rw [h1, hmap, foldl_act_mut]
  simp only [S.multiplyDiagonal, Script.pureV]
  rfl

theorem mdActs_ok {n : Nat} {chargeOf : Key → Key} {c : Content} {vb : Dict} (hc : DictOK n c.blocks)
    (hv : DictOK n vb) : ∀ a ∈ mdActs chargeOf c vb, a.ok n := by
  intro a ha
  simp only [mdActs, List.mem_map] at ha
  obtain ⟨e, he, rfl⟩ := ha
  split
  · rename_i b hb
    intro a' ha'
    simp only [List.mem_cons, List.not_mem_nil, or_false] at ha'
    rcases ha' with rfl | rfl
    · exact hc e he
    · obtain ⟨e', he', rfl⟩ := dict_get?_mem hb
      exact hv e' he'
  · trivial

theorem flatMap_eq_map {α β : Type} (l : List α) (g : α → β) (G' : α → List β) (h : ∀ e ∈ l, G' e = [g e]) :
    l.flatMap G' = l.map g := by
  induction l with
  | nil => rfl
  | cons a r ih =>
    simp only [List.flatMap_cons, List.map_cons]
    rw [h a (List.mem_cons_self ..), ih (fun e he => h e (List.mem_cons_of_mem _ he))]
    rfl

section sem
variable {V : Type} (I : Nat → List V → V) (d : V)

/-- `multiply_diagonal` on dicts of values -/
def mdSem (chargeOf : Key → Key) (xs vs : SDict V) : SDict V :=
  xs.filterMap fun e =>
    match SD.get? vs (chargeOf e.1) with
    | some w => some (e.1, I tMul [e.2, w])
    | none => none

/-- **`multiply_diagonal` at the level of values** -/
theorem multiplyDiagonal_abs (chargeOf : Key → Key) (c : Content) (T : Bufs) (vb : Dict)
    (hc : DictOK T.length c.blocks) (hv : DictOK T.length vb) (hn : (c.blocks.map (·.1)).Nodup) :
    let r := ((mdActs chargeOf c vb).foldl (fun s a => a.mut.pure s) ((c, T), ([] : Dict))).1
    semDict I d r.2 r.1.blocks = mdSem I chargeOf (semDict I d T c.blocks) (semDict I d T vb) ∧
    r.1.indices = c.indices ∧ r.1.charge = c.charge ∧ r.1.oddpos = c.oddpos ∧ r.1.phases = c.phases := by
  intro r
  obtain ⟨_, _, _, h4, h5, h6, h7, h8⟩ := sacts_abs I d T (mdActs chargeOf c vb) (mdActs_ok hc hv) c [] []
    (by simpa using hc) (by intro e he; cases he)
  simp only [List.append_nil] at h4 h5 h6 h7 h8
  have hph : (mdActs chargeOf c vb).foldl SAct.ph c.phases = c.phases := by
    have nop : ∀ (l : List (Key × Val)) (p : Option Dict),
        (l.map fun e => match vb.get? (chargeOf e.1) with
          | some b => SAct.kern e.1 tMul [e.2.toNat, b.toNat] | none => SAct.pop e.1).foldl SAct.ph p = p := by
      intro l
      induction l with
      | nil => intro p; rfl
      | cons e r ih =>
        intro p
        simp only [List.map_cons, List.foldl_cons]
        have : SAct.ph p (match vb.get? (chargeOf e.1) with
          | some b => SAct.kern e.1 tMul [e.2.toNat, b.toNat] | none => SAct.pop e.1) = p := by
          split <;> rfl
        rw [this]; exact ih p
    exact nop c.blocks c.phases
  refine ⟨?_, h5, h6, h7, by rw [h8, hph]⟩
  -- the denoted effects: one `set` or `pop` per left entry
  let xs := semDict I d T c.blocks
  let vs := semDict I d T vb
  let G : Key × V → List (SStep V) := fun e =>
    match SD.get? vs (chargeOf e.1) with
    | some w => [SStep.set e.1 (I tMul [e.2, w])]
    | none => [SStep.pop e.1]
  let ψ : Key × V → Option (Key × V) := fun e =>
    match SD.get? vs (chargeOf e.1) with
    | some w => some (e.1, I tMul [e.2, w])
    | none => none
  have hG : ∀ e : Key × V, GoodStep G ψ (fun _ t => t) e := by
    intro e
    obtain ⟨k, v⟩ := e
    cases hg : SD.get? vs (chargeOf k) with
    | none =>
      refine ⟨?_, by intro e' he'; simp [ψ, hg] at he'⟩
      intro A C t hA hC
      simp only [G, ψ, hg, List.foldl_cons, List.foldl_nil, SStep.run, sd_pop_mid A C k v hA hC]
      simp
    | some w =>
      refine ⟨?_, by intro e' he'; simp [ψ, hg] at he'; subst he'; rfl⟩
      intro A C t hA _
      simp only [G, ψ, hg, List.foldl_cons, List.foldl_nil, SStep.run, sd_set_mid A C k v _ hA]
      simp
  have hsteps : xs.flatMap G = (mdActs chargeOf c vb).map (SAct.toS I d T) := by
    simp only [mdActs, xs, semDict, mapV, List.map_map, List.flatMap_map]
    apply flatMap_eq_map
    intro e _
    have hget : SD.get? vs (chargeOf e.1) = (vb.get? (chargeOf e.1)).map fun b => look I d T b.toNat :=
      get?_mapV _ vb _
    simp only [G, Function.comp_def, hget]
    cases vb.get? (chargeOf e.1) <;> rfl
  have hxn : (keysOf ([] ++ xs)).Nodup := by
    simp only [List.nil_append, xs, keysOf_semDict]; exact hn
  have hpass := pass_fold G ψ (fun _ t => t) xs [] (semDict I d T []) (fun e _ => hG e) hxn
  simp only [List.nil_append] at hpass
  have h4' := h4
  rw [← List.foldl_map (f := SAct.toS I d T) (g := fun s a => SStep.run a s), ← hsteps, hpass] at h4'
  have := congrArg Prod.fst h4'
  simp only at this
  rw [this]
  rfl

end sem

/-! ### the value model's `multiplyDiagonal` -/

section enc
variable {R : Type} [Zero R] [Mul R] (enc : Sector → Key) (encC : Charge → Key)
  (I : Nat → List (Blk R) → Blk R)

/-- a value-model block vector with its charge keys encoded -/
def encV (bl : List (Charge × Blk R)) : SDict (Blk R) := bl.map fun e => (encC e.1, e.2)

def InjOnC (Sc : List Charge) : Prop := ∀ s ∈ Sc, ∀ t ∈ Sc, encC s = encC t → s = t

omit [Zero R] [Mul R] in
theorem get?_encV {Sc : List Charge} (hinj : InjOnC encC Sc) (l : List (Charge × Blk R))
    (hl : ∀ e ∈ l, e.1 ∈ Sc) {ch : Charge} (hs : ch ∈ Sc) : SD.get? (encV encC l) (encC ch) = alookup l ch := by
  rw [← alookup_eq_get?]
  induction l with
  | nil => rfl
  | cons e r ih =>
    obtain ⟨t, v⟩ := e
    have ht : t ∈ Sc := hl (t, v) (List.mem_cons_self ..)
    have hb : (encC t == encC ch) = (t == ch) := by
      by_cases h : t = ch
      · simp [h]
      · have : encC t ≠ encC ch := fun e => h (hinj t ht ch hs e)
        rw [beq_eq_false_iff_ne.mpr this, beq_eq_false_iff_ne.mpr h]
    simp only [encV, List.map_cons, alookup, hb]
    split
    · rfl
    · exact ih (fun e he => hl e (List.mem_cons_of_mem _ he))

/-- **`mdSem` is the value model's `multiplyDiagonal`** under the encodings of sectors and charges -/
theorem mdSem_enc (chargeOf : Key → Key) (axis : Nat) (hmul : ∀ b w, I tMul [b, w] = b.mulAxisK w axis)
    (A : Arr R) (v : BVec R) (hch : ∀ e ∈ A.blocks, chargeOf (enc e.1) = encC (e.1.getD axis (0, 0)))
    {Sc : List Charge} (hinj : InjOnC encC Sc) (hv : ∀ e ∈ v.blocks, e.1 ∈ Sc)
    (hlook : ∀ e ∈ A.blocks, e.1.getD axis (0, 0) ∈ Sc) :
    mdSem I chargeOf (encB enc A.blocks) (encV encC v.blocks) = encB enc (multiplyDiagonal A v axis).blocks := by
  simp only [mdSem, encB, multiplyDiagonal, List.filterMap_map, List.map_filterMap]
  apply filterMap_congr_mem
  intro e he
  obtain ⟨s, b⟩ := e
  have h1 := hch (s, b) he
  have h2 := get?_encV encC hinj v.blocks hv (hlook (s, b) he)
  simp only at h1 h2
  simp only [Function.comp_def, h1, h2]
  cases alookup v.blocks (s.getD axis (0, 0)) with
  | none => rfl
  | some w => simp [hmul]

end enc
end SymmModel.Heap
