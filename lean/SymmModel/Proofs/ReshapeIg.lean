/-
  SymmModel.Proofs.ReshapeIg — the way back under the diagonal window condition.  On the way back the
  planner visits an old (kept) fused axis exactly once, at the target position of that axis itself
  (`visits_back`); so instead of `noWinB a.shape a.subsizes` (no sub-sizes equal to ANY window) it
  suffices that no fused axis' sub-sizes equal the window of the shape that starts AT THAT AXIS
  (`noSelfWinB`, the condition `selfWin = false` of C07g).
-/
import SymmModel.Proofs.ReshapeId
namespace SymmModel.ReshapeI
open SymmModel SymmModel.Reshape SymmModel.C07 SymmModel.Reshape3 SymmModel.Reshape5 SymmModel.ReshapeH
open ReshapeP FuseP
set_option linter.unusedSectionVars false

/-- no fused axis carries sub-sizes equal to the window of the shape starting at that axis -/
def noSelfWinB (shape : List Nat) (subsizes : List (Option (List Nat))) : Bool :=
  (List.range subsizes.length).all (fun j => (unfuseMatch shape j (subsizes.getD j none)).isNone)

theorem noSelfWin_spec {shape : List Nat} {subsizes : List (Option (List Nat))}
    (h : noSelfWinB shape subsizes = true) {j : Nat} {sub : Option (List Nat)} (hj : subsizes[j]? = some sub) :
    unfuseMatch shape j sub = none := by
  simp only [noSelfWinB, List.all_eq_true, List.mem_range, Option.isNone_iff_eq_none] at h
  have := h j (List.getElem?_eq_some_iff.mp hj).1
  rwa [List.getD_eq_getElem?_getD, hj] at this

/-- `noWinB` (any window) implies the diagonal condition -/
theorem noSelfWin_of_noWin {shape : List Nat} {subsizes : List (Option (List Nat))}
    (hlen : shape.length = subsizes.length) (h : noWinB shape subsizes = true) :
    noSelfWinB shape subsizes = true := by
  simp only [noSelfWinB, List.all_eq_true, List.mem_range, Option.isNone_iff_eq_none]
  intro j hj
  have hm : subsizes.getD j none ∈ subsizes := by
    rw [List.getD_eq_getElem?_getD, List.getElem?_eq_getElem hj]
    exact List.getElem_mem hj
  exact noWin_spec h hm (by omega)

/-- **the pairs visited on the way back**: every axis of the intermediate shape, at the target
    position where its own expansion starts -/
theorem visits_back (st : SymShape) :
    ∀ (fuel : Nat) (rest pre : SymShape), st = pre ++ rest → FusedOk rest →
      ∀ p ∈ visits (SymShape.sizes st) (tgt st) (SymShape.subs st) fuel pre.length (tgt pre).length,
        ∃ pre' e rest', st = pre' ++ e :: rest' ∧ p = (pre'.length, (tgt pre').length) := by
  intro fuel
  induction fuel with
  | zero => intro rest pre _ _ p hp; simp [visits] at hp
  | succ f ih =>
    intro rest pre hs hok p hp
    cases rest with
    | nil =>
      have : st = pre := by simp [hs]
      subst this
      have : (SymShape.sizes st)[st.length]? = none := by simp [SymShape.sizes]
      simp [visits, this] at hp
    | cons e rest =>
      have hs' : st = (pre ++ [e]) ++ rest := by simp [hs]
      have hokr : FusedOk rest := fun e' he' => hok e' (by simp [he'])
      have g1 := sizes_getElem pre e rest
      have g3 := subs_getElem pre e rest
      rw [← hs] at g1 g3
      obtain ⟨d, o⟩ := e
      cases o with
      | none =>
        have g2 : (tgt st)[(tgt pre).length]? = some d := by
          rw [hs]; simp [tgt1]
        simp only [visits, g1, g2, g3, unfuseMatch, Nat.beq_refl, if_true, List.mem_cons] at hp
        rcases hp with rfl | hp
        · exact ⟨pre, _, rest, hs, rfl⟩
        · have := ih rest (pre ++ [(d, none)]) hs' hokr p
          simp only [List.length_append, List.length_cons, List.length_nil, tgt_append, tgt_cons,
            tgt_nil, tgt1, List.append_nil, Nat.zero_add] at this
          exact this hp
      | some subs =>
        have hne : subs ≠ [] := hok (d, some subs) (by simp) subs rfl
        obtain ⟨m0, mid', rfl⟩ := List.exists_cons_of_ne_nil hne
        have g2 : (tgt st)[(tgt pre).length]? = some m0 := by
          rw [hs]; simp [tgt1]
        have hwin : ((tgt st).drop (tgt pre).length).take (m0 :: mid').length = m0 :: mid' := by
          rw [hs]
          simp only [tgt_append, tgt_cons, tgt1]
          rw [List.drop_left' rfl, List.take_left' rfl]
        have g4 : unfuseMatch (tgt st) (tgt pre).length (some (m0 :: mid')) = some (m0 :: mid') := by
          simp only [unfuseMatch, hwin, beqNats_refl, if_true]
        simp only [visits, g1, g2, g3, g4, List.mem_cons] at hp
        rcases hp with rfl | hp
        · exact ⟨pre, _, rest, hs, rfl⟩
        · have := ih rest (pre ++ [(d, some (m0 :: mid'))]) hs' hokr p
          simp only [List.length_append, List.length_cons, List.length_nil, tgt_append, tgt_cons,
            tgt_nil, tgt1, List.append_nil, Nat.zero_add] at this
          exact this hp

variable {R : Type}

/-- **the plan of the way back** under the diagonal condition -/
theorem back_plan_marked_diag (y a : Arr R) (segs : List (Index × Bool)) (hidx : y.indices = segs.map (·.1))
    (hexp : segs.flatMap expM = a.indices) (hok : ∀ s ∈ segs, SegOk s)
    (hnw : noSelfWinB a.shape a.subsizes = true) :
    calcReshapeArgs y.shape a.shape y.subsizes = .ok (l2rAxes (newPL segs 0) 0, [], []) := by
  have h1 := back_plan_multi (symH segs) (fusedOk_symH segs hok)
  have hsz : SymShape.sizes (symH segs) = y.shape := by rw [sizes_symH, ← hidx]; rfl
  have htg : tgt (symH segs) = a.shape := by rw [tgt_symH segs hok, hexp]; rfl
  have hba := backAxes_symH segs 0 0 hok
  simp only [Nat.add_zero] at hba
  rw [hsz, htg, hba] at h1
  rw [← h1]
  have e1 : y.subsizes = segs.map (fun s => s.1.sub.map (fun se => se.1.map Index.sizeTotal)) := by
    simp only [Arr.subsizes, hidx, List.map_map]; rfl
  have e2 : SymShape.subs (symH segs)
      = segs.map (fun s => if s.2 then s.1.sub.map (fun se => se.1.map Index.sizeTotal) else none) := by
    simp only [SymShape.subs, symH, List.map_map]; rfl
  unfold calcReshapeArgs
  rw [mainLoop_agree y.shape a.shape y.subsizes (SymShape.subs (symH segs)) (by rw [e1, e2]; simp) _ {}]
  intro p hp
  rw [← hsz, ← htg] at hp
  have hp' : p ∈ visits (SymShape.sizes (symH segs)) (tgt (symH segs)) (SymShape.subs (symH segs))
      ((SymShape.sizes (symH segs)).length + (tgt (symH segs)).length) ([] : SymShape).length
      (tgt ([] : SymShape)).length := hp
  obtain ⟨pre', e, rest', hst, rfl⟩ := visits_back (symH segs) _ (symH segs) [] rfl
    (fusedOk_symH segs hok) p hp'
  unfold symH at hst
  obtain ⟨l1, l2, hsegs, hl1, hl2⟩ := List.map_eq_append_iff.mp hst
  obtain ⟨s, l3, rfl, hs, hl3⟩ := List.map_eq_cons_iff.mp hl2
  have hpl : pre'.length = l1.length := by rw [← hl1]; simp
  have hpre : pre' = symH l1 := hl1.symm
  simp only []
  rw [e1, e2, hpl, hsegs]
  simp only [List.getD_eq_getElem?_getD, List.map_append, List.map_cons]
  rw [show l1.length = (l1.map (fun s : Index × Bool =>
      s.1.sub.map (fun se => se.1.map Index.sizeTotal))).length by simp, getElem?_mid]
  rw [show (l1.map (fun s : Index × Bool =>
      s.1.sub.map (fun se => se.1.map Index.sizeTotal))).length = (l1.map (fun s : Index × Bool =>
      if s.2 then s.1.sub.map (fun se => se.1.map Index.sizeTotal) else none)).length by simp, getElem?_mid]
  simp only [Option.getD_some]
  obtain ⟨ix, m⟩ := s
  cases m with
  | true => rfl
  | false =>
    simp only [Bool.false_eq_true, if_false]
    have hok1 : ∀ s ∈ l1, SegOk s := fun s hs => hok s (by rw [hsegs]; simp [hs])
    have hj : (tgt pre').length = (l1.flatMap expM).length := by
      rw [hpre, tgt_symH l1 hok1]; simp
    have hai : a.indices = l1.flatMap expM ++ ix :: l3.flatMap expM := by
      rw [← hexp, hsegs]
      simp [expM]
    have hsub : a.subsizes[(tgt pre').length]?
        = some (ix.sub.map (fun se => se.1.map Index.sizeTotal)) := by
      rw [hj]
      simp only [Arr.subsizes, hai, List.map_append, List.map_cons]
      rw [show (l1.flatMap expM).length = ((l1.flatMap expM).map (fun ix : Index =>
        ix.sub.map (fun s => s.1.map Index.sizeTotal))).length by simp, getElem?_mid]
    rw [noSelfWin_spec hnw hsub]
    rfl

variable [Zero R] [Neg R] [Lazy.LawfulNeg R]
variable {fuse : Arr R → List (List Nat) → Except Err (Arr R)}
  {unf : Arr R → Nat → Except Err (Arr R)} {Good : Arr R → Prop}
  {sg : Sym → Index → List Index → Sector → Int}

/-- `reshape` back under the diagonal condition (as `ReshapeH.back_of_invH`) -/
theorem back_of_invH_diag (H : StepOK unf Good sg)
    (hdisp : ∀ x p, Good x → unfuseDispatch x p = unf x p)
    (hind : ∀ x p y, unf x p = .ok y → ∃ ix subs exts, x.indices[p]? = some ix ∧ ix.sub = some (subs, exts))
    {a y : Arr R} {lb : Nat} {segs : List (Index × Bool)} (hI : InvH unf Good a y lb segs)
    (hnw : noSelfWinB a.shape a.subsizes = true) :
    ∃ z, reshapeArr y (a.shape.map Int.ofNat) = .ok z ∧ Good z ∧ VEq z a := by
  obtain ⟨zr, hzr, _, hvzr⟩ := hI.chain
  obtain ⟨zl, zr', hl, hr, gzl, _, hv⟩ := l2r_r2l H (newPL segs 0) 0 y hI.good
    (newPL_sorted _ _) (by simpa using newPL_fusedAtL y segs hI.idx hI.ok)
  simp only [Nat.add_zero] at hr
  rw [hzr] at hr; injection hr with hr; subst hr
  refine ⟨zl, ?_, gzl, hv.trans hvzr⟩
  rw [reshapeArr_eq y _ _ a.shape _ (findFullReshape_nat a.shape y.size) (mapM_toNat a.shape)
    (back_plan_marked_diag y a segs hI.idx hI.exp hI.ok hnw)]
  simp only [applyPlan, List.foldlM_nil, bind, Except.bind, pure, Except.pure]
  have key : ∀ (ps : List Nat) (x : Arr R), Good x → ps.foldlM unfuseDispatch x = ps.foldlM unf x := by
    intro ps
    induction ps with
    | nil => intro x _; rfl
    | cons p ps ih =>
      intro x hx
      rw [List.foldlM_cons, List.foldlM_cons, hdisp x p hx]
      cases hu : unf x p with
      | error e => rfl
      | ok x1 =>
        obtain ⟨ix, subs, exts, hix, hsub⟩ := hind x p x1 hu
        obtain ⟨x2, h2, g2, _⟩ := H.step x p ix subs exts hx hix hsub
        rw [hu] at h2; injection h2 with h2; subst h2
        exact ih x1 g2
  rw [key _ y hI.good, hl]

/-- there and back from `CallsOk`, fused axes allowed, diagonal condition -/
theorem roundtrip_fused_generic_diag (H : StepOK unf Good sg) (F : FuseOK fuse unf Good)
    (hind : ∀ x p y, unf x p = .ok y → ∃ ix subs exts, x.indices[p]? = some ix ∧ ix.sub = some (subs, exts))
    (hfd : ∀ x G, Good x → fuseDispatch x G = fuse x G)
    (hdisp : ∀ x p, Good x → unfuseDispatch x p = unf x p)
    (a : Arr R) (hg : Good a) (hnw : noSelfWinB a.shape a.subsizes = true)
    (calls : List (List (List Nat))) (hc : CallsOk calls 0 a.ndim) :
    ∃ y z, applyPlan a ([], calls, []) = .ok y ∧ reshapeArr y (a.shape.map Int.ofNat) = .ok z
      ∧ Good z ∧ VEq z a := by
  obtain ⟨y, lb, segs, hy, hI⟩ := invH_calls H F hind hfd a calls a 0 _ (invH_init a hg) hc
  obtain ⟨z, hz, gz, hv⟩ := back_of_invH_diag H hdisp hind hI hnw
  refine ⟨y, z, ?_, hz, gz, hv⟩
  simp only [applyPlan, List.foldlM_nil, bind, Except.bind, pure, Except.pure]
  rw [hy]

end SymmModel.ReshapeI
