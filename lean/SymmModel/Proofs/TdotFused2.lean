/-
  SymmModel.Proofs.TdotFused2 — an operand fused into two groups that cover all its axes
  (the call form of `tensordotViaFused`): every element of the fused matrix is the original's
  element at the decoded address, zero blocks included.  Namespace `SymmModel.TdotP`.
-/
import SymmModel.Proofs.TdotFused1

namespace SymmModel
namespace TdotP
variable {R : Type}

/-- two non-empty groups that together list every axis exactly once -/
structure PairOk (A : Arr R) (g1 g2 : List Nat) : Prop where
  ne1 : g1 ≠ []
  ne2 : g2 ≠ []
  perm : (g1 ++ g2).Perm (List.range A.ndim)

section Pair
variable {A : Arr R} {g1 g2 : List Nat}

theorem PairOk.groupsOk (h : PairOk A g1 g2) : FuseP.GroupsOk [g1, g2] A.ndim := by
  refine ⟨by simp, ?_, ?_, ?_⟩
  · intro g hg
    simp only [List.mem_cons, List.not_mem_nil, or_false] at hg
    rcases hg with rfl | rfl
    · exact h.ne1
    · exact h.ne2
  · intro ax hax
    simp only [List.flatten_cons, List.flatten_nil, List.append_nil] at hax
    exact List.mem_range.mp (h.perm.subset hax)
  · simp only [List.flatten_cons, List.flatten_nil, List.append_nil]
    exact h.perm.nodup_iff.mpr List.nodup_range

theorem PairOk.ndim_pos (h : PairOk A g1 g2) : 0 < A.ndim := by
  cases hg : g1 with
  | nil => exact absurd hg h.ne1
  | cons x xs =>
    have : x ∈ List.range A.ndim := h.perm.subset (by simp [hg])
    have := List.mem_range.mp this
    omega

theorem PairOk.mem_flatten (h : PairOk A g1 g2) {ax : Nat} (hax : ax < A.ndim) :
    ax ∈ [g1, g2].flatten := by
  simp only [List.flatten_cons, List.flatten_nil, List.append_nil]
  exact h.perm.symm.subset (List.mem_range.mpr hax)

theorem pair_position (h : PairOk A g1 g2) : (FuseP.giM A [g1, g2]).position = 0 := by
  have hok := FuseP.hokD h.groupsOk
  exact Nat.eq_zero_of_le_zero ((FuseP.position_spec hok).2 0 (h.mem_flatten h.ndim_pos))

theorem pair_after (h : PairOk A g1 g2) : (FuseP.giM A [g1, g2]).axesAfter = [] := by
  rw [List.eq_nil_iff_forall_not_mem]
  intro ax hax
  obtain ⟨h1, _, h3⟩ := FuseP.mem_axesAfter.mp hax
  rw [FuseP.duals_length] at h1
  exact h3 (h.mem_flatten h1)

theorem pair_before (h : PairOk A g1 g2) : (FuseP.giM A [g1, g2]).axesBefore = [] := by
  rw [FuseP.axesBefore_eq (FuseP.hokD h.groupsOk), pair_position h]; rfl

theorem pair_perm (h : PairOk A g1 g2) : (FuseP.giM A [g1, g2]).perm = g1 ++ g2 := by
  rw [FuseP.perm_eq, pair_before h, pair_after h]; simp

theorem pair_ndimM (h : PairOk A g1 g2) : FuseP.ndimM A [g1, g2] = 2 := by
  simp [FuseP.ndimM, pair_position h, pair_after h]

theorem list_len2 {α : Type} (l : List α) (d : α) (h : l.length = 2) : l = [l.getD 0 d, l.getD 1 d] := by
  match l, h with
  | [x, y], _ => rfl

theorem pair_newIdx (h : PairOk A g1 g2) :
    FuseP.newIdxM A [g1, g2] = [FuseP.ixM A [g1, g2] 0, FuseP.ixM A [g1, g2] 1] := by
  have hl : (FuseP.newIdxM A [g1, g2]).length = 2 := by
    rw [FuseP.newIdxM_length h.groupsOk, pair_ndimM h]
  rw [list_len2 _ default hl]
  simp only [FuseP.ixM, pair_position h, Nat.zero_add]

theorem pair_newSector (h : PairOk A g1 g2) (sb : Sector × Blk R) :
    (FuseP.planM A [g1, g2] sb).newSector =
      [FuseP.cM (a := A) (groups := [g1, g2]) sb 0, FuseP.cM (a := A) (groups := [g1, g2]) sb 1] := by
  rw [FuseP.nsM_parts h.groupsOk, pair_position h, pair_after h]
  rfl

/-- decoding of one axis of the fused array: a single-axis group keeps charge and offset, a
    multi-axis group reads them from the fused index's own table -/
def decAx (A : Arr R) (G : List (List Nat)) (g : Nat) (c : Charge) (i : Nat) : Option (Sector × List Nat) :=
  if FuseP.multiB G g then FuseP.splitAddr (FuseP.ixM A G g) c i else some ([c], [i])

/-- the fused charge of a stored sector on group `g` is the one its sub-sector decodes from -/
theorem cM_of_dec (hv : FuseP.ValidArr A) {G : List (List Nat)} (hok : FuseP.GroupsOk G A.ndim) {g : Nat}
    {gaxes : List Nat} (hg : G[g]? = some gaxes) {c : Charge} {i : Nat} {S : Sector} {O : List Nat}
    (hdec : decAx A G g c i = some (S, O)) {sb : Sector × Blk R} (hl : sb.1.length = A.ndim)
    (hS : permuted sb.1 gaxes = S) : FuseP.cM (a := A) (groups := G) sb g = c := by
  have hlt : ∀ x ∈ gaxes, x < sb.1.length := by
    intro x hx; rw [hl]; exact FuseP.groupM_lt hok hg x hx
  have hss : FuseP.ssM (a := A) (groups := G) sb g = S := by
    rw [FuseP.ssM_eq hg, ← hS, permuted_eq_map _ _ hlt (0, 0)]
  by_cases hlen : gaxes.length = 1
  · have hm : FuseP.multiB G g = false := by simp [FuseP.multiB, hg, hlen]
    simp only [decAx, hm, Bool.false_eq_true, if_false, Option.some.injEq, Prod.mk.injEq] at hdec
    rw [FuseP.cM_single hok hg hlen]
    match gaxes, hlen with
    | [ax], _ =>
      have h0 : ax < sb.1.length := hlt ax (by simp)
      rw [← hdec.1] at hS
      simp only [permuted, List.filterMap_cons, List.getElem?_eq_getElem h0, List.filterMap_nil,
        List.cons.injEq, and_true] at hS
      simp [List.getD_eq_getElem?_getD, List.getElem?_eq_getElem h0, hS]
  · have hm : FuseP.multiB G g = true := FuseP.multiB_iff.2 ⟨_, hg, hlen⟩
    simp only [decAx, hm, if_true] at hdec
    obtain ⟨_, subs, exts, shp, hsub, _, _, hcomb⟩ :=
      FuseP.joinAddr_splitAddr (FuseP.ixM_wf hv hok hg hlen) hdec
    rw [FuseP.ixM_sub hok hg hlen] at hsub
    simp only [Option.some.injEq, Prod.mk.injEq] at hsub
    rw [FuseP.cM_eq_combine hok hg hlen, hss, ← hcomb, FuseP.ixM_dual hok hg hlen, hsub.1]

theorem segM_of_dec {G : List (List Nat)} {g : Nat} {ns : Sector} {i : List Nat} {S : Sector}
    {O : List Nat}
    (hdec : decAx A G g (ns.getD ((FuseP.giM A G).position + g) (0, 0))
      (i.getD ((FuseP.giM A G).position + g) 0) = some (S, O)) :
    FuseP.segM A G ns i g = (S, O) := by
  unfold decAx at hdec
  unfold FuseP.segM
  split
  · rename_i hm; rw [if_pos hm] at hdec; rw [hdec]; rfl
  · rename_i hm; rw [if_neg hm] at hdec
    simpa using hdec

/-- **element map of a two-group fuse.**  `A` fused into the two groups `[g1, g2]` that cover all
    its axes is a matrix; its element at `([c1,c2],[i1,i2])` (each offset inside the size of its
    charge) is `A`'s element at the address whose `g1`-part / `g2`-part are the decoded
    sub-charges and sub-offsets — also when the fused sector is not stored (both are zero). -/
theorem pair_elem [Zero R] [Neg R] (hv : FuseP.ValidArr A) (hph : A.phases = []) (hp : PairOk A g1 g2)
    {c1 c2 : Charge} {i1 i2 : Nat} {S1 S2 : Sector} {O1 O2 : List Nat} {d1 d2 : Nat}
    (h1 : decAx A [g1, g2] 0 c1 i1 = some (S1, O1)) (h2 : decAx A [g1, g2] 1 c2 i2 = some (S2, O2))
    (hz1 : (FuseP.ixM A [g1, g2] 0).sizeOf? c1 = some d1) (hi1 : i1 < d1)
    (hz2 : (FuseP.ixM A [g1, g2] 1).sizeOf? c2 = some d2) (hi2 : i2 < d2)
    {s : Sector} {offs : List Nat} (hs : s.length = A.ndim) (ho : offs.length = A.ndim)
    (hs1 : permuted s g1 = S1) (hs2 : permuted s g2 = S2)
    (ho1 : permuted offs g1 = O1) (ho2 : permuted offs g2 = O2) :
    (FuseP.fusedArrM A [g1, g2]).elem [c1, c2] [i1, i2] = A.elem s offs := by
  have hok := hp.groupsOk
  have hpos := pair_position hp
  have e0 : ([g1, g2] : List (List Nat))[0]? = some g1 := rfl
  have e1 : ([g1, g2] : List (List Nat))[1]? = some g2 := rfl
  rw [Arr.elem_of_phases_nil (show (FuseP.fusedArrM A [g1, g2]).phases = [] from hph),
    Arr.elem_of_phases_nil hph]
  show (match alookup (FuseP.fusedBlocksM A [g1, g2]) [c1, c2] with
    | none => 0
    | some blk => blk.get [i1, i2]) = _
  cases hB : alookup (FuseP.fusedBlocksM A [g1, g2]) [c1, c2] with
  | some B =>
    simp only []
    obtain ⟨sb0, hsb0, hns0, hBs⟩ := FuseP.fusedBlockM_info hv hok hB
    -- the block has shape `[d1, d2]`
    have hshape := FuseP.shape_storedM hv hok hsb0
    rw [hns0, pair_newIdx hp, Arr.blockShape?_cons, Arr.blockShape?_cons, hz1, hz2,
      Arr.blockShape?_nil_nil] at hshape
    simp only [Option.bind_some, Option.map_some, Option.some.injEq] at hshape
    have hi : inBox B.shape [i1, i2] = true := by
      rw [hBs, ← hshape]; simp [inBox, hi1, hi2]
    obtain ⟨_, hget⟩ := FuseP.fused_getM hv hok hB hi
    have hseg0 : FuseP.segM A [g1, g2] [c1, c2] [i1, i2] 0 = (S1, O1) :=
      segM_of_dec (by rw [hpos]; exact h1)
    have hseg1 : FuseP.segM A [g1, g2] [c1, c2] [i1, i2] 1 = (S2, O2) :=
      segM_of_dec (by rw [hpos]; exact h2)
    have hK : permuted s (FuseP.giM A [g1, g2]).perm = FuseP.expandK A [g1, g2] [c1, c2] [i1, i2] := by
      rw [pair_perm hp]
      simp only [FuseP.expandK, hpos, List.take_zero, List.nil_append, List.length_cons, List.length_nil,
        List.range_succ, List.range_zero, List.map_append, List.map_cons, List.map_nil, hseg0, hseg1,
        List.append_nil, List.drop_succ_cons, List.drop_nil, Nat.zero_add]
      rw [permuted, List.filterMap_append, ← permuted, ← permuted, hs1, hs2]
      simp
    have hJ : permuted offs (FuseP.giM A [g1, g2]).perm = FuseP.expandJ A [g1, g2] [c1, c2] [i1, i2] := by
      rw [pair_perm hp]
      simp only [FuseP.expandJ, hpos, List.take_zero, List.nil_append, List.length_cons, List.length_nil,
        List.range_succ, List.range_zero, List.map_append, List.map_cons, List.map_nil, hseg0, hseg1,
        List.append_nil, List.drop_succ_cons, List.drop_nil, Nat.zero_add]
      rw [permuted, List.filterMap_append, ← permuted, ← permuted, ho1, ho2]
      simp
    rw [(hget s offs hs ho hK hJ).1]
    cases alookup A.blocks s <;> rfl
  | none =>
    simp only []
    cases hb : alookup A.blocks s with
    | none => rfl
    | some b =>
      exfalso
      have hsb : (s, b) ∈ A.blocks := alookup_mem hb
      obtain ⟨B, hB', _⟩ := FuseP.fusedBlockM_exists hv hok hsb
      rw [pair_newSector hp, cM_of_dec hv hok e0 h1 hs hs1, cM_of_dec hv hok e1 h2 hs hs2, hB] at hB'
      cases hB'

end Pair

/-! ### summing over the positions of a fused bond = summing over its sub-sectors and offsets -/

theorem sum_splitOffset [AddMonoid R] (ext : Extent) (G : Option (Sector × Nat) → R) :
    ((List.range (sumN (ext.map (·.2)))).map (fun o => G (FuseP.splitOffset ext o))).sum =
      (ext.map (fun sd => ((List.range sd.2).map (fun r => G (some (sd.1, r)))).sum)).sum := by
  induction ext with
  | nil => simp [sumN]
  | cons kd rest ih =>
    obtain ⟨k, d⟩ := kd
    simp only [List.map_cons, sumN, List.sum_cons]
    rw [List.range_add, List.map_append, List.sum_append, List.map_map, ← ih]
    congr 1
    · apply sum_map_congr
      intro q hq
      have : q < d := List.mem_range.mp hq
      simp [FuseP.splitOffset, this]
    · apply sum_map_congr
      intro q _
      have : ¬ (d + q < d) := by omega
      simp [FuseP.splitOffset, this]

theorem allIdx_single (d : Nat) : allIdx [d] = (List.range d).map (fun k => [k]) := by
  simp only [allIdx, List.map_cons, List.map_nil]
  induction (List.range d) with
  | nil => rfl
  | cons x xs ih => simp [List.flatMap_cons, ih]

/-- what `Index.wfB` says about the extent of a charge of the chargemap -/
theorem cm_extent {sym : Sym} {ix : Index} (hw : Index.wfB sym ix = true) {subs : List Index}
    {exts : Extents} (hs : ix.sub = some (subs, exts)) {c : Charge} {D : Nat} (hcd : (c, D) ∈ ix.cm) :
    ∃ ext, alookup exts c = some ext ∧ FuseP.ExtentOk sym ix.dual subs c D ext := by
  obtain ⟨cm, d, sub⟩ := ix
  simp only [Index.sub] at hs
  subst hs
  rw [ValidP.wfB_some] at hw
  obtain ⟨ext, he, hok⟩ := hw.2.2.2.1 (c, D) hcd
  exact ⟨ext, he, FuseP.extentOk_iff.1 hok⟩

section Bond
variable {A : Arr R} {G : List (List Nat)}

/-- the extent of charge `c` in the table of an index (`[]` if there is none) -/
def extOf (ix : Index) (c : Charge) : Extent :=
  match ix.sub with
  | some (_, exts) => (alookup exts c).getD []
  | none => []

/-- all sub-sectors of the contracted group `g`, in table order: for a single-axis group the
    charges of the index, for a multi-axis group the sub-sectors of every extent -/
def bondKs (A : Arr R) (G : List (List Nat)) (g : Nat) : List Sector :=
  if FuseP.multiB G g then
    (FuseP.ixM A G g).cm.flatMap (fun cd => (extOf (FuseP.ixM A G g) cd.1).map (·.1))
  else (FuseP.ixM A G g).cm.map (fun cd => [cd.1])

/-- **bond sum.**  Summing a function of the decoded address over all (charge, position) of the
    index of group `g` = summing it over all sub-sectors of the group and all offsets in the
    sub-sector's box. -/
theorem sum_decAx [AddMonoid R] (hv : FuseP.ValidArr A) (hok : FuseP.GroupsOk G A.ndim) {g : Nat}
    {gaxes : List Nat} (hg : G[g]? = some gaxes) (H : Sector → List Nat → R) :
    ((FuseP.ixM A G g).cm.map (fun cd => ((List.range cd.2).map (fun k =>
        match decAx A G g cd.1 k with
        | some (K, ok) => H K ok
        | none => 0)).sum)).sum =
      ((bondKs A G g).map (fun K =>
        ((allIdx (Arr.blockShapeD (permuted A.indices gaxes) K)).map (H K)).sum)).sum := by
  have hlt : ∀ x ∈ gaxes, x < A.indices.length := FuseP.groupM_lt hok hg
  by_cases hlen : gaxes.length = 1
  · -- single-axis group
    have hm : FuseP.multiB G g = false := by simp [FuseP.multiB, hg, hlen]
    have hix := FuseP.ixM_single (a := A) hok hg hlen
    simp only [bondKs, decAx, hm, Bool.false_eq_true, if_false, List.map_map]
    apply sum_map_congr
    rintro ⟨c, D⟩ hcd
    simp only [Function.comp]
    match gaxes, hlen, hlt, hix with
    | [ax], _, hlt, hix =>
      have h0 : ax < A.indices.length := hlt ax (by simp)
      have hnd : ((A.indices.getD ax default).cm.map (·.1)).Nodup :=
        ValidP.sortedCharges_nodup (ValidP.wfB_cmOk (hv.idx _ (by
          rw [List.getD_eq_getElem?_getD, List.getElem?_eq_getElem h0]; exact List.getElem_mem _))).1
      simp only [List.headD_cons] at hix
      rw [hix] at hcd
      have hsz : (A.indices.getD ax default).sizeOf? c = some D := alookup_of_mem_nodup hnd hcd
      have : Arr.blockShapeD (permuted A.indices [ax]) [c] = [D] := by
        simp only [permuted, List.filterMap_cons, List.getElem?_eq_getElem h0, List.filterMap_nil,
          Arr.blockShapeD, Arr.blockShape?_cons, Arr.blockShape?_nil_nil]
        rw [List.getD_eq_getElem?_getD, List.getElem?_eq_getElem h0] at hsz
        simp only [Option.getD_some] at hsz
        rw [hsz]; rfl
      rw [this, allIdx_single, List.map_map]
      rfl
  · -- multi-axis group
    have hm : FuseP.multiB G g = true := FuseP.multiB_iff.2 ⟨_, hg, hlen⟩
    have hsub := FuseP.ixM_sub (a := A) hok hg hlen
    have hw := FuseP.ixM_wf hv hok hg hlen
    have hsubs : gaxes.map (fun ax => A.indices.getD ax default) = permuted A.indices gaxes :=
      (permuted_eq_map _ _ hlt default).symm
    simp only [bondKs, hm, if_true]
    rw [sum_map_flatMap]
    apply sum_map_congr
    rintro ⟨c, D⟩ hcd
    have hnd : ((FuseP.ixM A G g).cm.map (·.1)).Nodup :=
      ValidP.sortedCharges_nodup (ValidP.wfB_cmOk hw).1
    have hsz : alookup (FuseP.ixM A G g).cm c = some D := alookup_of_mem_nodup hnd hcd
    obtain ⟨ext, he, hext⟩ := cm_extent hw hsub hcd
    have heo : extOf (FuseP.ixM A G g) c = ext := by simp [extOf, hsub, he]
    simp only [heo, List.map_map]
    rw [← hext.total]
    let G' : Option (Sector × Nat) → R := fun x =>
      match x with
      | some (ss, r) =>
        (match Arr.blockShape? (gaxes.map (fun ax => A.indices.getD ax default)) ss with
          | some shp => H ss (unravel shp r)
          | none => 0)
      | none => 0
    have e1 : ∀ k, (match decAx A G g c k with
        | some (K, ok) => H K ok
        | none => 0) = G' (FuseP.splitOffset ext k) := by
      intro k
      simp only [decAx, hm, if_true, FuseP.splitAddr, hsub, he, G']
      cases FuseP.splitOffset ext k with
      | none => rfl
      | some q =>
        obtain ⟨ss, r⟩ := q
        simp only []
        cases Arr.blockShape? (gaxes.map (fun ax => A.indices.getD ax default)) ss <;> rfl
    simp only [e1]
    rw [sum_splitOffset]
    apply sum_map_congr
    rintro ⟨ss, d⟩ hsd
    obtain ⟨_, ⟨shp, hshp, hprod⟩, _⟩ := hext.entry ss d hsd
    simp only [Function.comp, G', hshp]
    rw [← hsubs, Arr.blockShapeD, hshp]
    simp only [Option.getD_some]
    rw [allIdx_eq_map_unravel, List.map_map, hprod]
    rfl

theorem cm_keys_nodup {sym : Sym} {ix : Index} (hw : Index.wfB sym ix = true) :
    (ix.cm.map (·.1)).Nodup := ValidP.sortedCharges_nodup (ValidP.wfB_cmOk hw).1

theorem index_getD_wf (hv : FuseP.ValidArr A) {ax : Nat} (h : ax < A.indices.length) :
    Index.wfB A.sym (A.indices.getD ax default) = true :=
  hv.idx _ (by rw [List.getD_eq_getElem?_getD, List.getElem?_eq_getElem h]; exact List.getElem_mem _)

theorem bondKs_length (hv : FuseP.ValidArr A) (hok : FuseP.GroupsOk G A.ndim) {g : Nat}
    {gaxes : List Nat} (hg : G[g]? = some gaxes) :
    ∀ K ∈ bondKs A G g, K.length = gaxes.length := by
  intro K hK
  by_cases hlen : gaxes.length = 1
  · have hm : FuseP.multiB G g = false := by simp [FuseP.multiB, hg, hlen]
    simp only [bondKs, hm, Bool.false_eq_true, if_false, List.mem_map] at hK
    obtain ⟨cd, _, rfl⟩ := hK
    simp [hlen]
  · have hm : FuseP.multiB G g = true := FuseP.multiB_iff.2 ⟨_, hg, hlen⟩
    have hsub := FuseP.ixM_sub (a := A) hok hg hlen
    have hw := FuseP.ixM_wf hv hok hg hlen
    simp only [bondKs, hm, if_true, List.mem_flatMap, List.mem_map] at hK
    obtain ⟨⟨c, D⟩, hcd, ⟨ss, d⟩, hsd, rfl⟩ := hK
    obtain ⟨ext, he, hext⟩ := cm_extent hw hsub hcd
    have heo : extOf (FuseP.ixM A G g) c = ext := by simp [extOf, hsub, he]
    rw [heo] at hsd
    simpa using (hext.entry ss d hsd).1

theorem bondKs_nodup (hv : FuseP.ValidArr A) (hok : FuseP.GroupsOk G A.ndim) {g : Nat}
    {gaxes : List Nat} (hg : G[g]? = some gaxes) : (bondKs A G g).Nodup := by
  have hlt : ∀ x ∈ gaxes, x < A.indices.length := FuseP.groupM_lt hok hg
  by_cases hlen : gaxes.length = 1
  · have hm : FuseP.multiB G g = false := by simp [FuseP.multiB, hg, hlen]
    have hix := FuseP.ixM_single (a := A) hok hg hlen
    have hnd : ((FuseP.ixM A G g).cm.map (·.1)).Nodup := by
      rw [hix]; exact cm_keys_nodup (index_getD_wf hv (FuseP.single_head_lt hok hg hlen))
    simp only [bondKs, hm, Bool.false_eq_true, if_false]
    have : (FuseP.ixM A G g).cm.map (fun cd => [cd.1]) =
        ((FuseP.ixM A G g).cm.map (·.1)).map (fun c => [c]) := by rw [List.map_map]; rfl
    rw [this]
    exact hnd.map (fun x y h => by simpa using h)
  · have hm : FuseP.multiB G g = true := FuseP.multiB_iff.2 ⟨_, hg, hlen⟩
    have hsub := FuseP.ixM_sub (a := A) hok hg hlen
    have hw := FuseP.ixM_wf hv hok hg hlen
    have hnd := cm_keys_nodup hw
    simp only [bondKs, hm, if_true]
    rw [List.nodup_flatMap]
    constructor
    · rintro ⟨c, D⟩ hcd
      obtain ⟨ext, he, hext⟩ := cm_extent hw hsub hcd
      have heo : extOf (FuseP.ixM A G g) c = ext := by simp [extOf, hsub, he]
      rw [heo]; exact hext.nodup
    · refine List.Pairwise.imp_of_mem ?_ (List.Nodup.of_map _ hnd)
      rintro ⟨c, D⟩ ⟨c', D'⟩ hcd hcd' hne
      simp only [Function.onFun, List.disjoint_left, List.mem_map, not_exists, not_and]
      rintro K ⟨⟨ss, d⟩, hsd, rfl⟩ ⟨ss', d'⟩ hsd' hss
      simp only at hss
      obtain ⟨ext, he, hext⟩ := cm_extent hw hsub hcd
      obtain ⟨ext', he', hext'⟩ := cm_extent hw hsub hcd'
      have heo : extOf (FuseP.ixM A G g) c = ext := by simp [extOf, hsub, he]
      have heo' : extOf (FuseP.ixM A G g) c' = ext' := by simp [extOf, hsub, he']
      rw [heo] at hsd
      rw [heo'] at hsd'
      have h1 := (hext.entry ss d hsd).2.2
      have h2 := (hext'.entry ss' d' hsd').2.2
      rw [hss, h1] at h2
      subst h2
      have e1 := alookup_of_mem_nodup hnd hcd
      have e2 := alookup_of_mem_nodup hnd hcd'
      rw [e1] at e2
      exact hne (by rw [Option.some.inj e2])

theorem bondKs_cover (hv : FuseP.ValidArr A) (hok : FuseP.GroupsOk G A.ndim) {g : Nat}
    {gaxes : List Nat} (hg : G[g]? = some gaxes) :
    ∀ sb ∈ A.blocks, permuted sb.1 gaxes ∈ bondKs A G g := by
  intro sb hsb
  have hlt : ∀ x ∈ gaxes, x < A.indices.length := FuseP.groupM_lt hok hg
  have hsl : sb.1.length = A.indices.length := (hv.blk sb hsb).1
  have hss : FuseP.ssM (a := A) (groups := G) sb g = permuted sb.1 gaxes := by
    rw [FuseP.ssM_eq hg, permuted_eq_map _ _ (by rw [hsl]; exact hlt) (0, 0)]
  by_cases hlen : gaxes.length = 1
  · have hm : FuseP.multiB G g = false := by simp [FuseP.multiB, hg, hlen]
    have hix := FuseP.ixM_single (a := A) hok hg hlen
    simp only [bondKs, hm, Bool.false_eq_true, if_false, List.mem_map]
    match gaxes, hlen, hlt, hix with
    | [ax], _, hlt, hix =>
      have h0 : ax < A.indices.length := hlt ax (by simp)
      obtain ⟨ix, c, h1, h2, h3, h4, h5⟩ := FuseP.blockShape?_get (hv.blk sb hsb).2.1 h0
      simp only [List.headD_cons] at hix
      refine ⟨(c, sb.2.shape.getD ax 0), ?_, ?_⟩
      · rw [hix, h4]; exact alookup_mem h3
      · simp [permuted, h2]
  · have hm : FuseP.multiB G g = true := FuseP.multiB_iff.2 ⟨_, hg, hlen⟩
    have hsub := FuseP.ixM_sub (a := A) hok hg hlen
    obtain ⟨e, D, st, h1, h2, h3, _⟩ := FuseP.stored_in_tableM hv hok hg hlen hsb
    simp only [bondKs, hm, if_true, List.mem_flatMap, List.mem_map]
    refine ⟨(FuseP.cM (a := A) (groups := G) sb g, D), alookup_mem h3, ?_⟩
    have heo : extOf (FuseP.ixM A G g) (FuseP.cM (a := A) (groups := G) sb g) = e := by
      simp [extOf, hsub, h1]
    rw [heo, ← hss]
    exact ⟨_, FuseP.startOf_mem h2, rfl⟩

/-- what a decoded address knows: its sub-sector has a block shape on the group's indices and
    the sub-offsets lie in that box -/
theorem decAx_facts (hv : FuseP.ValidArr A) (hok : FuseP.GroupsOk G A.ndim) {g : Nat}
    {gaxes : List Nat} (hg : G[g]? = some gaxes) {c : Charge} {i : Nat} {S : Sector} {O : List Nat}
    (hdec : decAx A G g c i = some (S, O)) {d : Nat}
    (hsz : (FuseP.ixM A G g).sizeOf? c = some d) (hi : i < d) :
    ∃ shp, Arr.blockShape? (permuted A.indices gaxes) S = some shp ∧ inBox shp O = true := by
  have hlt : ∀ x ∈ gaxes, x < A.indices.length := FuseP.groupM_lt hok hg
  by_cases hlen : gaxes.length = 1
  · have hm : FuseP.multiB G g = false := by simp [FuseP.multiB, hg, hlen]
    have hix := FuseP.ixM_single (a := A) hok hg hlen
    simp only [decAx, hm, Bool.false_eq_true, if_false, Option.some.injEq, Prod.mk.injEq] at hdec
    obtain ⟨rfl, rfl⟩ := hdec
    match gaxes, hlen, hlt, hix with
    | [ax], _, hlt, hix =>
      have h0 : ax < A.indices.length := hlt ax (by simp)
      simp only [List.headD_cons] at hix
      rw [hix, List.getD_eq_getElem?_getD, List.getElem?_eq_getElem h0] at hsz
      simp only [Option.getD_some] at hsz
      refine ⟨[d], ?_, by simp [inBox, hi]⟩
      simp only [permuted, List.filterMap_cons, List.getElem?_eq_getElem h0, List.filterMap_nil,
        Arr.blockShape?_cons, Arr.blockShape?_nil_nil, hsz]
      rfl
  · have hm : FuseP.multiB G g = true := FuseP.multiB_iff.2 ⟨_, hg, hlen⟩
    simp only [decAx, hm, if_true] at hdec
    obtain ⟨_, subs, exts, shp, hsub, hshp, hbox, _⟩ :=
      FuseP.joinAddr_splitAddr (FuseP.ixM_wf hv hok hg hlen) hdec
    rw [FuseP.ixM_sub hok hg hlen] at hsub
    simp only [Option.some.injEq, Prod.mk.injEq] at hsub
    refine ⟨shp, ?_, hbox⟩
    rw [permuted_eq_map _ _ hlt default, hsub.1]; exact hshp

end Bond

end TdotP
end SymmModel
