/-
  SymmModel.Proofs.NetNorm8 — network form of the norm (property C10), continuation part 8:
  three-tensor chains, further routes: the ket half and the bra half each in EITHER bracketing
  (`(a·b)·c` / `a·(b·c)`, `(ā·b̄)·c̄` / `ā·(b̄·c̄)`), both operand orders of the final call — eight routes,
  all equal to `Σ|K₃|²` (`Assoc3P.chain_eqv_w` = S7 for chains under the weak guard, congruence
  `Assoc3P.tdotF_congr` of the final contraction).
-/
import SymmModel.Proofs.NetNorm7
namespace SymmModel.NormNet
open SymmModel SymmModel.Lazy SymmModel.Norm SymmModel.TdotP SymmModel.GradedP SymmModel.RoutesP
open SymmModel.AssocP SymmModel.Assoc3P
set_option linter.unusedSectionVars false

section tools
variable {R : Type} [AddCommMonoid R] [Mul R] [Neg R] [SignRing R] [AssocLaws R]

/-- both bracketings of a chain `A – B – C` under the weak guard, with the validity of the
    right-nested result -/
theorem chain_both (A B C : Arr R) (xa xb1 xb2 xc : List Nat)
    (WAB : AdmW A B xa xb1) (WBC : AdmW B C xb2 xc) (hnB : (xb1 ++ xb2).Nodup)
    (hd : OddposP.LabelsDistinct (A.oddpos ++ B.oddpos ++ C.oddpos)) :
    ∃ AB BC c1 c2 : Arr R,
      A.tensordotF B (.pair (xa.map Int.ofNat) (xb1.map Int.ofNat)) .blockwise = .ok AB
      ∧ AB.tensordotF C (.pair ((AssocP.axesAB A.ndim B.ndim xa xb1 xb2).map Int.ofNat)
          (xc.map Int.ofNat)) .blockwise = .ok c1
      ∧ B.tensordotF C (.pair (xb2.map Int.ofNat) (xc.map Int.ofNat)) .blockwise = .ok BC
      ∧ A.tensordotF BC (.pair (xa.map Int.ofNat)
          ((AssocP.axesBC B.ndim xb1 xb2).map Int.ofNat)) .blockwise = .ok c2
      ∧ Eqv c2 c1 ∧ c2.validB = true := by
  obtain ⟨AB, BC, c1, c2, e1, e2, e3, e4, he⟩ := chain_eqv_w A B C xa xb1 xb2 xc WAB WBC hnB
    (Assoc2P.labelRoutes_of_distinct _ _ _ _ _ hd)
  have hM : Mid B.ndim xb1 xb2 := Mid.of hnB (by
    intro i hi
    rcases List.mem_append.mp hi with h | h
    · exact WAB.ltB i h
    · exact WBC.ltA i h)
  have h_bc : OddposP.LabelsDistinct (B.oddpos ++ C.oddpos) :=
    dist_of hd _ (List.Perm.refl _) (by rw [List.append_assoc]; exact List.sublist_append_right _ _)
  obtain ⟨BC', _, eBC, IBC, pBC⟩ := call_pack B C xb2 xc WBC h_bc
  obtain rfl : BC' = BC := by rw [e3] at eBC; exact (Except.ok.inj eBC).symm
  have W' := admW_after_right IBC WAB hM
  have h_abc : OddposP.LabelsDistinct (A.oddpos ++ BC'.oddpos) := by
    have hd' : OddposP.LabelsDistinct (A.oddpos ++ (B.oddpos ++ C.oddpos)) := by
      rw [← List.append_assoc]; exact hd
    exact OddposP.LabelsDistinct.perm hd' (List.Perm.append_left _ pBC.symm)
  obtain ⟨Z, _, eZ, IZ, _⟩ := call_pack A BC' xa _ W' h_abc
  obtain rfl : Z = c2 := by rw [e4] at eZ; exact (Except.ok.inj eZ).symm
  exact ⟨AB, BC', c1, Z, e1, e2, e3, e4, he, IZ.valid⟩

/-- the final full contraction with `Eqv` copies of the two halves -/
theorem full_congr {P Q X Y r : Arr R} (n : Nat)
    (A : AdmW P Q (List.range n) (List.range n)) (E1 : Eqv X P) (E2 : Eqv Y Q)
    (vX : X.validB = true) (vY : Y.validB = true)
    (e : P.tensordotF Q (allAxes n) .blockwise = .ok r) (hn : r.ndim = 0) :
    ∃ r', X.tensordotF Y (allAxes n) .blockwise = .ok r'
      ∧ r'.ndim = 0 ∧ r'.oddpos = r.oddpos ∧ r'.elem [] [] = r.elem [] [] := by
  obtain ⟨Z', eZ', hZ⟩ := Assoc3P.tdotF_congr A E1.symm E2.symm vX vY r e
  have hri : r.indices = [] := List.eq_nil_of_length_eq_zero hn
  exact ⟨Z', eZ', by rw [← hZ.ndim]; exact hn, hZ.oddpos.symm,
    (hZ.elem [] [] (fun _ => by rw [hri]; rfl)).symm⟩

end tools

section routes
variable {R : Type} [AddCommMonoid R] [Mul R] [Neg R] [Conj R] [NetLaws R] [AssocLaws R]

/-- labels of the three bra tensors are distinct -/
theorem bra_labels_distinct3 {oA oB oC : List (Int × Bool)}
    (hd : ((oA ++ oB) ++ oC).Pairwise (fun x y => x.1 ≠ y.1)) :
    ((Arr.oddposDag oA ++ Arr.oddposDag oB) ++ Arr.oddposDag oC).Pairwise (fun x y => x.1 ≠ y.1) := by
  have h1 : ((oB ++ oA) ++ oC).Pairwise (fun x y => x.1 ≠ y.1) :=
    OddposP.LabelsDistinct.perm (l := (oA ++ oB) ++ oC) hd
      (List.Perm.append_right _ List.perm_append_comm)
  have := bra_labels_distinct h1
  rwa [oddposDag_append] at this

/-- the conclusion of `network_norm_chain3_routes` -/
def Chain3Routes (a b c : Arr R) (xa xb1 xb2 xc : List Nat) : Prop :=
  ∃ K2 Kb2 K3 Kb3 BC BCb K3r Kb3r,
    a.tensordotF b (.pair (xa.map Int.ofNat) (xb1.map Int.ofNat)) .blockwise = .ok K2
    ∧ (braOf a xa).tensordotF (braOf b (xb1 ++ xb2))
        (.pair (xa.map Int.ofNat) (xb1.map Int.ofNat)) .blockwise = .ok Kb2
    ∧ K2.tensordotF c (.pair ((AssocP.axesAB a.ndim b.ndim xa xb1 xb2).map Int.ofNat)
        (xc.map Int.ofNat)) .blockwise = .ok K3
    ∧ Kb2.tensordotF (braOf c xc) (.pair ((AssocP.axesAB a.ndim b.ndim xa xb1 xb2).map Int.ofNat)
        (xc.map Int.ofNat)) .blockwise = .ok Kb3
    -- the right-nested halves
    ∧ b.tensordotF c (.pair (xb2.map Int.ofNat) (xc.map Int.ofNat)) .blockwise = .ok BC
    ∧ a.tensordotF BC (.pair (xa.map Int.ofNat)
        ((AssocP.axesBC b.ndim xb1 xb2).map Int.ofNat)) .blockwise = .ok K3r
    ∧ (braOf b (xb1 ++ xb2)).tensordotF (braOf c xc)
        (.pair (xb2.map Int.ofNat) (xc.map Int.ofNat)) .blockwise = .ok BCb
    ∧ (braOf a xa).tensordotF BCb (.pair (xa.map Int.ofNat)
        ((AssocP.axesBC b.ndim xb1 xb2).map Int.ofNat)) .blockwise = .ok Kb3r
    ∧ Eqv K3r K3 ∧ Eqv Kb3r Kb3
    -- the eight routes
    ∧ ∀ X Y : Arr R, (X = Kb3 ∨ X = Kb3r) → (Y = K3 ∨ Y = K3r) →
        (∃ r, X.tensordotF Y (allAxes K3.ndim) .blockwise = .ok r
          ∧ r.ndim = 0 ∧ r.oddpos = [] ∧ r.elem [] [] = normSq K3)
        ∧ (∃ r, Y.tensordotF X (allAxes K3.ndim) .blockwise = .ok r
          ∧ r.ndim = 0 ∧ r.oddpos = [] ∧ r.elem [] [] = normSq' K3)

/-- **three-tensor chain: eight routes** -/
theorem network_norm_chain3_routes (a b c : Arr R) (xa xb1 xb2 xc : List Nat)
    (ha : a.validB = true) (hb : b.validB = true) (hc : c.validB = true)
    (hfa : a.fermi = true) (hfb : b.fermi = true) (hfc : c.fermi = true)
    (hadm1 : tdotAdmissibleCommonB a b xa xb1 = true)
    (hadm2 : tdotAdmissibleCommonB b c xb2 xc = true)
    (hnd : (xb1 ++ xb2).Nodup)
    (hoA : KetLabels a.oddpos) (hoB : KetLabels b.oddpos) (hoC : KetLabels c.oddpos)
    (hd : ((a.oddpos ++ b.oddpos) ++ c.oddpos).Pairwise (fun x y => x.1 ≠ y.1)) :
    Chain3Routes a b c xa xb1 xb2 xc := by
  obtain ⟨K2, Kb2, K3, Kb3, eK2, eKb2, eK3, eKb3, hobs1, hobs2, hnd3, hperm, hK3v, hK3f, hKb3v,
    hKb3f, ⟨r, e1, n1, o1, v1⟩, ⟨r', e2, n2, o2, v2⟩⟩ :=
    network_norm_chain3 a b c xa xb1 xb2 xc ha hb hc hfa hfb hfc hadm1 hadm2 hnd hoA hoB hoC hd
  have W1 := AdmW.of ha hb hfa hfb hadm1
  have Wbc := AdmW.of hb hc hfb hfc hadm2
  -- ket chain
  obtain ⟨AB, BC, c1, K3r, f1, f2, f3, f4, hE, vK3r⟩ := chain_both a b c xa xb1 xb2 xc W1 Wbc hnd hd
  obtain rfl : AB = K2 := by rw [eK2] at f1; exact (Except.ok.inj f1).symm
  obtain rfl : c1 = K3 := by rw [eK3] at f2; exact (Except.ok.inj f2).symm
  -- bra chain
  have hdb : OddposP.LabelsDistinct ((braOf a xa).oddpos ++ (braOf b (xb1 ++ xb2)).oddpos
      ++ (braOf c xc).oddpos) := by
    rw [(braOf_frame a xa).2.2.2.2.1, (braOf_frame b (xb1 ++ xb2)).2.2.2.2.1,
      (braOf_frame c xc).2.2.2.2.1]
    exact bra_labels_distinct3 hd
  obtain ⟨ABb, BCb, c1b, Kb3r, g1, g2, g3, g4, hEb, vKb3r⟩ :=
    chain_both (braOf a xa) (braOf b (xb1 ++ xb2)) (braOf c xc) xa xb1 xb2 xc
      (braOf_admW' W1 xa (xb1 ++ xb2)) (braOf_admW' Wbc (xb1 ++ xb2) xc) hnd hdb
  simp only [braOf_ndim] at g2 g4
  obtain rfl : ABb = Kb2 := by rw [eKb2] at g1; exact (Except.ok.inj g1).symm
  obtain rfl : c1b = Kb3 := by rw [eKb3] at g2; exact (Except.ok.inj g2).symm
  -- guards between the left-nested halves
  obtain ⟨A1, A2⟩ := adm_full hK3v hK3f hKb3v hKb3f
    (hobs2.sym.trans (conjF_frame c1 true true).1)
    (hobs2.indices.trans (conjF_frame c1 true true).2.2.1)
  refine ⟨AB, ABb, c1, c1b, BC, BCb, K3r, Kb3r, eK2, eKb2, eK3, eKb3, f3, f4, g3, g4, hE, hEb, ?_⟩
  intro X Y hX hY
  have EX : Eqv X c1b ∧ X.validB = true := by
    rcases hX with rfl | rfl
    · exact ⟨Eqv.refl _, hKb3v⟩
    · exact ⟨hEb, vKb3r⟩
  have EY : Eqv Y c1 ∧ Y.validB = true := by
    rcases hY with rfl | rfl
    · exact ⟨Eqv.refl _, hK3v⟩
    · exact ⟨hE, vK3r⟩
  constructor
  · obtain ⟨r1, q1, q2, q3, q4⟩ := full_congr c1.ndim (AdmW.ofAdm A1) EX.1 EY.1 EX.2 EY.2 e1 n1
    exact ⟨r1, q1, q2, q3.trans o1, q4.trans v1⟩
  · obtain ⟨r1, q1, q2, q3, q4⟩ := full_congr c1.ndim (AdmW.ofAdm A2) EY.1 EX.1 EY.2 EX.2 e2 n2
    exact ⟨r1, q1, q2, q3.trans o2, q4.trans v2⟩

end routes

end SymmModel.NormNet
