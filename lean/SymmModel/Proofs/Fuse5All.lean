/-
  SymmModel.Proofs.Fuse5All — `unfuseAllF` on an array whose fused axes are exactly the multi-axis
  groups at `pos + g` is `unfuseGroupsF`: the scan of `unfuse_all` (last axis first, looking at the
  CURRENT index at every axis) takes the same decisions as the group list, because an unfuse step at
  axis `ax` changes no index before `ax`.
-/
import SymmModel.Proofs.Fuse5Veq
import SymmModel.Props.C05d
namespace SymmModel
namespace FuseP
set_option linter.unusedSectionVars false
open SymmModel.Lazy

variable {R : Type} [Zero R] [Neg R] [LawfulNeg R]

/-- one step of the scan of `unfuse_all` -/
def stepAllF (x : Arr R) (ax : Nat) : Except Err (Arr R) :=
  match x.indices[ax]? with
  | some ix => if ix.sub.isSome then Arr.unfuseF x ax else pure x
  | none => pure x

theorem unfuseAllF_eq (a : Arr R) : Arr.unfuseAllF a = (List.range a.ndim).reverse.foldlM stepAllF a := rfl

theorem foldlM_pure {ε α β : Type} (f : β → α → Except ε β) (l : List α)
    (h : ∀ ax ∈ l, ∀ x, f x ax = .ok x) (x : β) : l.foldlM f x = .ok x :=
  foldlM_skip f l x (fun ax hax => h ax hax x)

/-- the scan with the decisions read off the current indices = the scan with the decisions fixed
    beforehand, when these agree on the ORIGINAL array and the axes are visited in decreasing order -/
theorem scan_eq_dec (dec : Nat → Bool) (axs : List Nat) (hsorted : axs.Pairwise (· > ·)) (x : Arr R)
    (hv : x.validB = true) (hf : x.fermi = true)
    (hdec : ∀ ax ∈ axs, ∃ ix, x.indices[ax]? = some ix ∧ ix.sub.isSome = dec ax) :
    axs.foldlM stepAllF x = axs.foldlM (fun x ax => if dec ax then Arr.unfuseF x ax else pure x) x := by
  induction axs generalizing x with
  | nil => rfl
  | cons ax rest ih =>
    obtain ⟨hlt, hrest⟩ := List.pairwise_cons.1 hsorted
    obtain ⟨ix, hix, hd⟩ := hdec ax (by simp)
    rw [List.foldlM_cons, List.foldlM_cons]
    have hstep : stepAllF x ax = (if dec ax then Arr.unfuseF x ax else pure x) := by
      simp only [stepAllF, hix, hd]
    rw [hstep]
    cases hda : dec ax with
    | false =>
      simp only [Bool.false_eq_true, if_false]
      exact ih hrest x hv hf (fun ax' hax' => hdec ax' (List.mem_cons_of_mem _ hax'))
    | true =>
      simp only [if_true]
      rw [hda] at hd
      obtain ⟨q, hq⟩ := Option.isSome_iff_exists.1 hd
      obtain ⟨subs, exts⟩ := q
      obtain ⟨y, hy, hyi, _⟩ := unfuseF_val x ax ix subs exts hv hix hq
      obtain ⟨hVy, hfy⟩ := ValidP.unfuseF_valid' x y ax ((ValidP.validB_iff x).1 hv) hf hy
      rw [hy]
      show rest.foldlM stepAllF y = rest.foldlM _ y
      apply ih hrest y ((ValidP.validB_iff y).2 hVy) hfy
      intro ax' hax'
      obtain ⟨ix', hix', hd'⟩ := hdec ax' (List.mem_cons_of_mem _ hax')
      refine ⟨ix', ?_, hd'⟩
      have hl : ax' < ax := hlt ax' hax'
      have hp : ax < x.indices.length := getElem?_lt hix
      rw [hyi, replaceWithSeq_split, List.append_assoc,
        List.getElem?_append_left (by rw [List.length_take]; omega), List.getElem?_take_of_lt hl]
      exact hix'

/-- **`unfuseAllF` = `unfuseGroupsF`** when the fused axes of `y` are exactly the multi-axis groups -/
theorem unfuseAllF_eq_groups (groups : List (List Nat)) (pos : Nat) (y : Arr R)
    (hv : y.validB = true) (hf : y.fermi = true) (hn : pos + groups.length ≤ y.ndim)
    (hidx : ∀ ax ix, y.indices[ax]? = some ix →
      ix.sub.isSome = (decide (pos ≤ ax) && multiB groups (ax - pos))) :
    Arr.unfuseAllF y = C05.unfuseGroupsF groups pos y := by
  rw [unfuseAllF_eq]
  have hsorted : (List.range y.ndim).reverse.Pairwise (· > ·) := by
    rw [List.pairwise_reverse]; exact List.pairwise_lt_range
  rw [scan_eq_dec (fun ax => decide (pos ≤ ax) && multiB groups (ax - pos)) _ hsorted y hv hf]
  · -- split the range
    obtain ⟨k, hk⟩ : ∃ k, y.ndim = pos + (groups.length + k) := ⟨y.ndim - pos - groups.length, by omega⟩
    rw [hk, List.range_add, List.reverse_append, List.foldlM_append, List.range_add, List.map_append,
      List.reverse_append, List.foldlM_append]
    -- back axes: skipped
    rw [foldlM_pure _ (((List.range k).map (fun x => groups.length + x)).map (fun x => pos + x)).reverse]
    · simp only [bind, Except.bind]
      have hfront : ∀ z : Arr R, (List.range pos).reverse.foldlM
          (fun x ax => if (decide (pos ≤ ax) && multiB groups (ax - pos)) = true then Arr.unfuseF x ax else pure x) z
          = .ok z := by
        intro z
        apply foldlM_pure
        intro ax hax x
        simp only [List.mem_reverse, List.mem_range] at hax
        have : decide (pos ≤ ax) = false := by simp; omega
        simp [this]; rfl
      simp only [hfront]
      have hmid : ((List.range groups.length).map (fun x => pos + x)).reverse.foldlM
          (fun x ax => if (decide (pos ≤ ax) && multiB groups (ax - pos)) = true then Arr.unfuseF x ax else pure x) y
          = C05.unfuseGroupsF groups pos y := by
        unfold C05.unfuseGroupsF
        rw [← List.map_reverse, List.foldlM_map]
        congr 1
        funext x g
        simp
      rw [hmid]
      cases C05.unfuseGroupsF groups pos y <;> rfl
    · intro ax hax x
      simp only [List.mem_reverse, List.mem_map, List.mem_range] at hax
      obtain ⟨_, ⟨j, _, rfl⟩, rfl⟩ := hax
      have : multiB groups (groups.length + j) = false := by
        simp only [multiB]
        rw [List.getElem?_eq_none (by omega)]
      simp [this]; rfl
  · intro ax hax
    simp only [List.mem_reverse, List.mem_range] at hax
    have hlt : ax < y.indices.length := hax
    exact ⟨y.indices[ax], List.getElem?_eq_getElem hlt, hidx ax _ (List.getElem?_eq_getElem hlt)⟩

end FuseP
end SymmModel
