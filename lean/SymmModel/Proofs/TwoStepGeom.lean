/-
  SymmModel.Proofs.TwoStepGeom — "several pairs at once or one after another" (C04), list geometry:
  where the remaining legs `ya`, `yb` sit in the intermediate `c`, what reading `c`-shaped lists
  (sectors, shapes, index tables, offsets) through `tsRhs` / `tsPA` / `tsPB` gives, and the
  intermediate offset assembled from the output offset and the traced offset.
  Namespace `SymmModel.TwoStepP`.
-/
import SymmModel.Proofs.TwoStepSum

namespace SymmModel
namespace TwoStepP
open TdotP GradedP RoutesP AssocP KoszulP
set_option linter.unusedSectionVars false

/-! ### positions -/

theorem filterMap_eq_map_getD {x : List Nat} (f : Nat → Option Nat) (h : ∀ y ∈ x, (f y).isSome) :
    x.filterMap f = x.map (fun y => (f y).getD 0) := by
  induction x with
  | nil => rfl
  | cons y ys ih =>
    have hy := h y (by simp)
    cases hf : f y with
    | none => rw [hf] at hy; cases hy
    | some j =>
      rw [List.filterMap_cons, hf, List.map_cons, hf, ih (fun z hz => h z (List.mem_cons_of_mem _ hz))]
      rfl

theorem positions_eq_map (l x : List Nat) (hx : ∀ y ∈ x, y ∈ l) :
    positions l x = x.map (posIn l) := by
  unfold positions posIn
  apply filterMap_eq_map_getD
  intro y hy
  cases h : indexOf? l y with
  | none => exact absurd (hx y hy) (indexOf?_eq_none_iff.mp h)
  | some j => rfl

section mid
variable {na nb : Nat} {xa ya xb yb : List Nat} (hA : Mid na xa ya) (hB : Mid nb xb yb)

theorem tsPA_eq (hA : Mid na xa ya) : tsPA na xa ya = positions (freeAxes na xa) ya := by
  unfold tsPA; rw [positions_eq_map _ _ hA.sub]

theorem tsPB_eq (hB : Mid nb xb yb) :
    tsPB na nb xa xb yb = (positions (freeAxes nb xb) yb).map ((freeAxes na xa).length + ·) := by
  unfold tsPB; rw [positions_eq_map _ _ hB.sub, List.map_map]; rfl

/-- the untraced positions: those of `a`'s remaining free legs, then those of `b`'s -/
theorem tsRhs_eq (hA : Mid na xa ya) (hB : Mid nb xb yb) :
    tsRhs na nb xa xb ya yb
      = freeAxes (freeAxes na xa).length (positions (freeAxes na xa) ya)
        ++ (freeAxes (freeAxes nb xb).length (positions (freeAxes nb xb) yb)).map
            ((freeAxes na xa).length + ·) := by
  unfold tsRhs tsN
  rw [tsPA_eq hA, tsPB_eq hB, List.range_add, List.filter_append, List.filter_map]
  unfold freeAxes
  congr 1
  · apply List.filter_congr
    intro p hp
    have hp' := List.mem_range.mp hp
    have : ((positions ((List.range nb).filter (fun ax => !xb.contains ax)) yb).map
        (((List.range na).filter (fun ax => !xa.contains ax)).length + ·)).contains p = false := by
      rw [List.contains_eq_mem, decide_eq_false_iff_not]
      intro hm
      obtain ⟨q, _, hq⟩ := List.mem_map.mp hm
      omega
    rw [this]; simp
  · congr 1
    apply List.filter_congr
    intro q _
    have h1 : (positions ((List.range na).filter (fun ax => !xa.contains ax)) ya).contains
        (((List.range na).filter (fun ax => !xa.contains ax)).length + q) = false := by
      rw [List.contains_eq_mem, decide_eq_false_iff_not]
      intro hm
      have := hA.pos_lt _ hm
      unfold freeAxes at this
      omega
    simp only [Function.comp, h1, Bool.not_false, Bool.true_and]
    congr 1
    simp only [List.contains_eq_mem, List.mem_map, Nat.add_left_cancel_iff, exists_eq_right]

variable {α : Type}

/-- reading a `c`-shaped list through `tsRhs` -/
theorem permuted_tsRhs (hA : Mid na xa ya) (hB : Mid nb xb yb) (z z' : List α)
    (hz : z.length = na) (hz' : z'.length = nb) :
    permuted (permuted z (freeAxes na xa) ++ permuted z' (freeAxes nb xb)) (tsRhs na nb xa xb ya yb)
      = permuted z (freeAxes na (xa ++ ya)) ++ permuted z' (freeAxes nb (xb ++ yb)) := by
  have hl : (permuted z (freeAxes na xa)).length = (freeAxes na xa).length :=
    TdotP.permuted_length _ _ (by rw [hz]; exact hA.flt)
  rw [tsRhs_eq hA hB, ValidP.permuted_append,
    permuted_append_of_lt _ _ _ (by rw [hl]; intro i hi; exact (mem_freeAxes.mp hi).1),
    ← hl, permuted_append_map_add, hl, hA.read_free z hz, hB.read_free z' hz']

/-- reading a `c`-shaped list at the positions of `a`'s remaining legs -/
theorem permuted_tsPA (hA : Mid na xa ya) (z : List α) (v : List α) (hz : z.length = na) :
    permuted (permuted z (freeAxes na xa) ++ v) (tsPA na xa ya) = permuted z ya := by
  have hl : (permuted z (freeAxes na xa)).length = (freeAxes na xa).length :=
    TdotP.permuted_length _ _ (by rw [hz]; exact hA.flt)
  rw [tsPA_eq hA, permuted_append_of_lt _ _ _ (by rw [hl]; exact hA.pos_lt), hA.read_ax z hz]

/-- … and of `b`'s -/
theorem permuted_tsPB (hB : Mid nb xb yb) (u : List α) (z' : List α) (hu : u.length = (freeAxes na xa).length)
    (hz' : z'.length = nb) :
    permuted (u ++ permuted z' (freeAxes nb xb)) (tsPB na nb xa xb yb) = permuted z' yb := by
  rw [tsPB_eq hB, ← hu, permuted_append_map_add, hB.read_ax z' hz']

end mid

/-! ### the assembled offset, read back -/

theorem asmSide_eq_map (F y F' t f : List Nat) :
    asmSide F y F' t f = F.map (fun ax => match indexOf? y ax with
      | some i => t.getD i 0
      | none => match indexOf? F' ax with
        | some j => f.getD j 0
        | none => 0) := rfl

theorem permuted_map' {α β : Type} (g : α → β) (l : List α) (p : List Nat) :
    permuted (l.map g) p = (permuted l p).map g := by
  unfold permuted
  rw [List.map_filterMap]
  apply List.filterMap_congr
  intro j _
  rw [List.getElem?_map]

/-- the remaining legs receive the traced offset -/
theorem permuted_asmSide_y (F y F' t f : List Nat) (P : List Nat) (hP : permuted F P = y)
    (hy : y.Nodup) (ht : t.length = y.length) :
    permuted (asmSide F y F' t f) P = t := by
  rw [asmSide_eq_map, permuted_map', hP]
  apply List.ext_getElem
  · simp [ht]
  · intro i h1 h2
    simp only [List.getElem_map]
    have hi : i < y.length := by simpa using h1
    rw [indexOf?_getElem hy hi]
    simp [List.getD_eq_getElem?_getD, List.getElem?_eq_getElem h2]

/-- the other free legs receive the output offset -/
theorem permuted_asmSide_free (F y F' t f : List Nat) (Q : List Nat) (hQ : permuted F Q = F')
    (hF' : F'.Nodup) (hd : ∀ ax ∈ F', ax ∉ y) (hf : f.length = F'.length) :
    permuted (asmSide F y F' t f) Q = f := by
  rw [asmSide_eq_map, permuted_map', hQ]
  apply List.ext_getElem
  · simp [hf]
  · intro i h1 h2
    simp only [List.getElem_map]
    have hi : i < F'.length := by simpa using h1
    rw [indexOf?_eq_none_iff.mpr (hd _ (List.getElem_mem hi)), indexOf?_getElem hF' hi]
    simp [List.getD_eq_getElem?_getD, List.getElem?_eq_getElem h2]

section addr
variable {na nb : Nat} {xa ya xb yb : List Nat}

/-- **the intermediate offset read through `tsRhs`** is the output offset -/
theorem permuted_asm_tsRhs (hA : Mid na xa ya) (hB : Mid nb xb yb) (t fL fR : List Nat)
    (hfL : fL.length = (freeAxes na (xa ++ ya)).length)
    (hfR : fR.length = (freeAxes nb (xb ++ yb)).length) :
    permuted (asmSide (freeAxes na xa) ya (freeAxes na (xa ++ ya)) t fL
        ++ asmSide (freeAxes nb xb) yb (freeAxes nb (xb ++ yb)) t fR) (tsRhs na nb xa xb ya yb)
      = fL ++ fR := by
  rw [tsRhs_eq hA hB, ValidP.permuted_append,
    permuted_append_of_lt _ _ _ (by
      rw [asmSide_length]; intro i hi; exact (mem_freeAxes.mp hi).1)]
  have e2 := permuted_append_map_add (asmSide (freeAxes na xa) ya (freeAxes na (xa ++ ya)) t fL)
    (asmSide (freeAxes nb xb) yb (freeAxes nb (xb ++ yb)) t fR)
    (freeAxes (freeAxes nb xb).length (positions (freeAxes nb xb) yb))
  rw [asmSide_length] at e2
  rw [e2]
  congr 1
  · exact permuted_asmSide_free _ _ _ _ _ _ hA.free_spec (freeAxes_nodup _ _)
      (fun ax h => fun h' => (mem_freeAxes.mp h).2 (List.mem_append_right _ h')) hfL
  · exact permuted_asmSide_free _ _ _ _ _ _ hB.free_spec (freeAxes_nodup _ _)
      (fun ax h => fun h' => (mem_freeAxes.mp h).2 (List.mem_append_right _ h')) hfR

theorem permuted_asm_tsPA (hA : Mid na xa ya) (t fL : List Nat) (v : List Nat)
    (ht : t.length = ya.length) :
    permuted (asmSide (freeAxes na xa) ya (freeAxes na (xa ++ ya)) t fL ++ v) (tsPA na xa ya) = t := by
  rw [tsPA_eq hA, permuted_append_of_lt _ _ _ (by rw [asmSide_length]; exact hA.pos_lt)]
  exact permuted_asmSide_y _ _ _ _ _ _ hA.pos_spec hA.n2 ht

theorem permuted_asm_tsPB (hB : Mid nb xb yb) (t fR : List Nat) (u : List Nat)
    (hu : u.length = (freeAxes na xa).length) (ht : t.length = yb.length) :
    permuted (u ++ asmSide (freeAxes nb xb) yb (freeAxes nb (xb ++ yb)) t fR)
      (tsPB na nb xa xb yb) = t := by
  rw [tsPB_eq hB, ← hu, permuted_append_map_add]
  exact permuted_asmSide_y _ _ _ _ _ _ hB.pos_spec hB.n2 ht

end addr

/-! ### `srcIdx` undoes `permuted` -/

theorem permuted_srcIdx (n : Nat) (p i : List Nat) (hp : p.Perm (List.range n)) (hi : i.length = n) :
    permuted (Lazy.srcIdx n p i) p = i := by
  have hnd : p.Nodup := hp.nodup_iff.mpr List.nodup_range
  have hlen : p.length = n := by simpa using hp.length_eq
  have hlt : ∀ x ∈ p, x < (Lazy.srcIdx n p i).length := by
    intro x hx
    simp only [Lazy.srcIdx, List.length_map, List.length_range]
    exact perm_range_mem_lt hp x hx
  rw [TdotP.permuted_eq_map _ _ hlt 0]
  apply List.ext_getElem
  · simp [hlen, hi]
  · intro k h1 h2
    have hk : k < p.length := by simpa using h1
    have hpk : p[k] < n := perm_range_mem_lt hp _ (List.getElem_mem hk)
    simp only [List.getElem_map, Lazy.srcIdx]
    rw [List.getD_eq_getElem?_getD, List.getElem?_map, List.getElem?_range hpk]
    simp only [Option.map_some, Option.getD_some]
    rw [indexOf?_getElem hnd hk]
    simp [List.getD_eq_getElem?_getD, List.getElem?_eq_getElem h2]

end TwoStepP
end SymmModel
