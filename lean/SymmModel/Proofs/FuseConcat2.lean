/-
  SymmModel.Proofs.FuseConcat2 — `fuseConcat` for one multi-axis group as a pure function.
-/
import SymmModel.Proofs.FuseConcat
namespace SymmModel
namespace FuseP
set_option linter.unusedSectionVars false

variable {R : Type}

theorem zipIdx_map_fst {α β : Type} (l : List α) (f : α → β) :
    l.zipIdx.map (fun p => f p.1) = l.map f := by
  apply List.ext_getElem?
  intro k
  simp only [List.getElem?_map, List.getElem?_zipIdx]
  cases l[k]? <;> rfl

section One
variable (a : Arr R) (gaxes : List Nat) [Zero R]

def toGItem (sb : Sector × Blk R) : GItem R :=
  (nsOf a gaxes sb.1, [ssOf gaxes sb.1],
   (sb.2.transposeK (gi1 a gaxes).perm).reshapeK (newShapeOf a gaxes sb.2.shape))

def grouped1 : List (Sector × List (List Sector × Blk R)) := grpFold (a.blocks.map (toGItem a gaxes))

/-- the extent of the fused charge of a new sector -/
def extOfNs (ns : Sector) : Extent :=
  (alookup (exts1 a gaxes) (ns.getD (gi1 a gaxes).position (0, 0))).getD []

/-- the blocks concatenated for a new sector: in extent order, zeros for missing sub-blocks -/
def arraysOf (ns : Sector) (sub : List (List Sector × Blk R)) : List (Blk R) :=
  (extOfNs a gaxes ns).map (fun q => match alookup sub [q.1] with
    | some b => b
    | none => Blk.zeros ((shapeOf1 a gaxes ns).set (gi1 a gaxes).position q.2))

def concatBlocks : List (Sector × Blk R) :=
  (grouped1 a gaxes).map (fun p => (p.1, Blk.concatK (arraysOf a gaxes p.1 p.2) (gi1 a gaxes).position))

variable {a gaxes}

theorem gitems_distinct (hv : ValidArr a) (hok : GroupsOk [gaxes] a.ndim) :
    (a.blocks.map (toGItem a gaxes)).Pairwise GDistinct := by
  rw [List.pairwise_map]
  have hnd : a.blocks.Pairwise (fun x y => x.1 ≠ y.1) := by
    have := hv.nodup
    rwa [List.Nodup, List.pairwise_map] at this
  apply List.Pairwise.imp_of_mem _ hnd
  intro x y hx hy hne ⟨h1, h2⟩
  apply hne
  have h2' : ssOf gaxes x.1 = ssOf gaxes y.1 := by
    simp only [toGItem, List.cons.injEq, and_true] at h2; exact h2
  exact sector_of_ns_ss hok (hv.blk x hx).1 (hv.blk y hy).1 h1 h2'

theorem grouped1_inv (hv : ValidArr a) (hok : GroupsOk [gaxes] a.ndim) :
    GrpInv (a.blocks.map (toGItem a gaxes)) (grouped1 a gaxes) :=
  grpFold_inv _ (gitems_distinct hv hok)

/-- sizes of the untouched axes, read through the new sector -/
theorem size_before (hv : ValidArr a) (hok : GroupsOk [gaxes] a.ndim) {sb0 : Sector × Blk R}
    (hsb0 : sb0 ∈ a.blocks) {ax k : Nat} (h : (ax, k) ∈ (gi1 a gaxes).axesBefore.zipIdx) :
    (a.indices.getD ax default).sizeOf? ((nsOf a gaxes sb0.1).getD k (0, 0)) = some (sb0.2.shape.getD ax 0) := by
  have hm := List.mem_zipIdx h
  simp only [Nat.zero_add, Nat.sub_zero] at hm
  have hax : ax ∈ (gi1 a gaxes).axesBefore := by rw [hm.2.2]; exact List.getElem_mem _
  obtain ⟨ix, c, _, _, h3, h4, h5⟩ := blockShape?_get (hv.blk sb0 hsb0).2.1 (before_lt hok ax hax)
  have : (nsOf a gaxes sb0.1).getD k (0, 0) = sb0.1.getD ax (0, 0) := by
    simp only [nsOf, List.append_assoc]
    rw [getD_before _ _ _ _ (by simp [preOf]; exact hm.2.1)]
    simp [preOf, List.getD_eq_getElem?_getD, List.getElem?_map, List.getElem?_eq_getElem hm.2.1, hm.2.2]
  rw [this, h4, h5, h3]

theorem size_after (hv : ValidArr a) (hok : GroupsOk [gaxes] a.ndim) {sb0 : Sector × Blk R}
    (hsb0 : sb0 ∈ a.blocks) {ax k : Nat} (h : (ax, k) ∈ (gi1 a gaxes).axesAfter.zipIdx) :
    (a.indices.getD ax default).sizeOf? ((nsOf a gaxes sb0.1).getD ((gi1 a gaxes).position + 1 + k) (0, 0))
      = some (sb0.2.shape.getD ax 0) := by
  have hm := List.mem_zipIdx h
  simp only [Nat.zero_add, Nat.sub_zero] at hm
  have hax : ax ∈ (gi1 a gaxes).axesAfter := by rw [hm.2.2]; exact List.getElem_mem _
  obtain ⟨ix, c, _, _, h3, h4, h5⟩ := blockShape?_get (hv.blk sb0 hsb0).2.1 (after_lt ax hax)
  have : (nsOf a gaxes sb0.1).getD ((gi1 a gaxes).position + 1 + k) (0, 0) = sb0.1.getD ax (0, 0) := by
    simp only [nsOf]
    have hl : (preOf a gaxes sb0.1 ++ [cOf a gaxes sb0.1]).length = (gi1 a gaxes).position + 1 := by
      simp [preOf_length hok]
    rw [← hl, getD_after]
    simp [postOf, List.getD_eq_getElem?_getD, List.getElem?_map, List.getElem?_eq_getElem hm.2.1, hm.2.2]
  rw [this, h4, h5, h3]

theorem fusedShape_set (hv : ValidArr a) (hok : GroupsOk [gaxes] a.ndim) (hlen : gaxes.length ≠ 1)
    {sb0 : Sector × Blk R} (hsb0 : sb0 ∈ a.blocks) (d : Nat) :
    shPre a gaxes sb0.2.shape ++ [d] ++ shPost a gaxes sb0.2.shape
      = (shapeOf1 a gaxes (nsOf a gaxes sb0.1)).set (gi1 a gaxes).position d := by
  simp only [shapeOf1, shapeOf1_stored hv hok hlen hsb0, Option.getD_some]
  rw [← shPre_length hok sb0.2.shape, set_mid]

theorem fuseConcat_one_eq (hv : ValidArr a) (hok : GroupsOk [gaxes] a.ndim) (hlen : gaxes.length ≠ 1) :
    fuseConcat a.indices a.blocks (fuseInfoOf a [gaxes]) = .ok (concatBlocks a gaxes) := by
  unfold fuseConcat
  have hfi : (fuseInfoOf a [gaxes]).blockmap = blockmapOf a [gaxes] := rfl
  have hgi : (fuseInfoOf a [gaxes]).gi = gi1 a gaxes := rfl
  rw [foldlM_ok _ (fun acc sb => grpStep acc (toGItem a gaxes sb))]
  · simp only [bind, Except.bind]
    rw [← List.foldl_map (f := toGItem a gaxes) (g := grpStep)]
    show List.mapM _ (grouped1 a gaxes) = _
    apply mapM_ok_of_forall
    intro p hp
    obtain ⟨ns, sub⟩ := p
    simp only [hgi, numGroups_eq, List.length_cons, List.length_nil, Nat.zero_add, newIndices_one hok hlen]
    rw [recurseConcat]
    simp only [singlets_one hlen, hgi, numGroups_eq, List.contains_nil, Bool.false_eq_true, if_false,
      newIndices_one hok hlen, Nat.add_zero, newIndices1_getD_pos hok, fix1_sub]
    -- the new sector comes from a stored block
    have hinv := grouped1_inv hv hok
    have hk : ns ∈ (a.blocks.map (toGItem a gaxes)).map (·.1) :=
      (hinv.keys ns).1 (List.mem_map.2 ⟨_, hp, rfl⟩)
    simp only [List.map_map, List.mem_map, Function.comp] at hk
    obtain ⟨sb0, hsb0, hns⟩ := hk
    have hns' : nsOf a gaxes sb0.1 = ns := hns
    subst hns'
    obtain ⟨e, D, st0, h1, _, _, _⟩ := stored_in_table hv hok hlen hsb0
    obtain ⟨_, _, hext⟩ := fix1_extent hv hok hlen h1
    have h1u := h1
    unfold exts1 at h1u
    rw [nsOf_getD_pos hok, h1u]
    simp only [pure, Except.pure, bind, Except.bind]
    rw [mapM_ok_of_forall _ (fun q : Sector × Nat => match alookup sub [q.1] with
      | some b => b
      | none => Blk.zeros ((shapeOf1 a gaxes (nsOf a gaxes sb0.1)).set (gi1 a gaxes).position q.2)) e]
    · simp only [arraysOf, extOfNs, nsOf_getD_pos hok, h1, Option.getD_some]
    · intro q hq
      obtain ⟨ss, d⟩ := q
      obtain ⟨st, hst⟩ := startOf_of_mem_nodup hext.nodup hq
      simp only [List.length_cons, List.length_nil, Nat.zero_add, BEq.rfl, if_true, List.nil_append]
      cases hl : alookup sub [ss] with
      | some b => rfl
      | none =>
        simp only []
        rw [mapM_ok_of_forall _ (fun p : Nat × Nat => sb0.2.shape.getD p.1 0) (gi1 a gaxes).axesBefore.zipIdx]
        · simp only []
          rw [mapM_ok_of_forall _ (fun p : Nat × Nat => sb0.2.shape.getD p.1 0) (gi1 a gaxes).axesAfter.zipIdx]
          · simp only [List.zipIdx_cons, List.zipIdx_nil, List.mapM_cons, List.mapM_nil, Nat.add_zero,
              newIndices1_getD_pos hok, nsOf_getD_pos hok, extentStart?_eq fix1_sub h1u, hst, bind,
              Except.bind, pure, Except.pure]
            have := fusedShape_set hv hok hlen hsb0 d
            simp only [shPre, shPost] at this
            rw [zipIdx_map_fst (gi1 a gaxes).axesBefore (fun ax => sb0.2.shape.getD ax 0),
              zipIdx_map_fst (gi1 a gaxes).axesAfter (fun ax => sb0.2.shape.getD ax 0), this]
          · intro p hp'
            obtain ⟨ax, k⟩ := p
            simp only [size_after hv hok hsb0 hp']
        · intro p hp'
          obtain ⟨ax, k⟩ := p
          simp only [size_before hv hok hsb0 hp']
  · intro acc sb hsb
    obtain ⟨s, b⟩ := sb
    simp only []
    rw [hfi, alookup_blockmap hv hlen hsb, hgi]
    rfl

end One

end FuseP
end SymmModel
