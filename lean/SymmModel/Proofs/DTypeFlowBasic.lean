/-
  SymmModel.Proofs.DTypeFlowBasic — list / dict / Except lemmas for the dtype-flow theorems (C20b).
-/
import SymmModel.Model.DTypeFlow
namespace SymmModel.DFlow
open SymmModel DType

/-- every payload of an association list is `d` -/
def Uni {κ : Type} (d : DType) (l : List (κ × DType)) : Prop := ∀ p ∈ l, p.2 = d

/-- `x` is `d` or the real part of `d` (same precision, not more complex than `d`) -/
def Within (d x : DType) : Prop := x = d ∨ x = d.realPart

/-- every payload is within `d` -/
def UniW {κ : Type} (d : DType) (l : List (κ × DType)) : Prop := ∀ p ∈ l, Within d p.2

/-! ### dtype algebra -/

theorem promote_self' (d : DType) : promote d d = d := by cases d <;> rfl
theorem promote_real_right (d : DType) : promote d d.realPart = d := by cases d <;> rfl
theorem promote_real_left (d : DType) : promote d.realPart d = d := by cases d <;> rfl
theorem realPart_idem' (d : DType) : d.realPart.realPart = d.realPart := by cases d <;> rfl

theorem within_self (d : DType) : Within d d := Or.inl rfl
theorem within_real (d : DType) : Within d d.realPart := Or.inr rfl

theorem within_promote {d x y : DType} (hx : Within d x) (hy : Within d y) : Within d (promote x y) := by
  rcases hx with rfl | rfl <;> rcases hy with rfl | rfl
  · exact Or.inl (promote_self' _)
  · exact Or.inl (promote_real_right _)
  · exact Or.inl (promote_real_left _)
  · exact Or.inr (promote_self' _)

theorem promote_within_right {d x : DType} (hx : Within d x) : promote d x = d := by
  rcases hx with rfl | rfl
  · exact promote_self' _
  · exact promote_real_right _

theorem promote_within_left {d x : DType} (hx : Within d x) : promote x d = d := by
  rcases hx with rfl | rfl
  · exact promote_self' _
  · exact promote_real_left _

theorem within_realPart {d x : DType} (hx : Within d x) : Within d x.realPart := by
  rcases hx with rfl | rfl
  · exact Or.inr rfl
  · exact Or.inr (realPart_idem' _)

theorem castFlags_self (d : DType) : castFlags d d = Flags.none := by cases d <;> rfl
theorem castInto_eq (a b : DType) : castInto a b = a := rfl

theorem flags_or_none (f : Flags) : f.or Flags.none = f := by
  cases f; simp [Flags.or, Flags.none]
theorem flags_none_or (f : Flags) : Flags.none.or f = f := by
  cases f; simp [Flags.or, Flags.none]

/-- folding `promote` over a list all of whose entries are `d`, starting from `d` -/
theorem foldl_promote_const (d : DType) (l : List DType) (h : ∀ x ∈ l, x = d) :
    l.foldl promote d = d := by
  induction l with
  | nil => rfl
  | cons x xs ih =>
    have hx : x = d := h x (by simp)
    subst hx
    simp only [List.foldl_cons, promote_self']
    exact ih (fun y hy => h y (by simp [hy]))

theorem foldl_promote_within (d : DType) (l : List DType) (h : ∀ x ∈ l, Within d x) :
    ∀ acc, Within d acc → Within d (l.foldl promote acc) := by
  induction l with
  | nil => intro acc ha; exact ha
  | cons x xs ih =>
    intro acc ha
    simp only [List.foldl_cons]
    exact ih (fun y hy => h y (by simp [hy])) _ (within_promote ha (h x (by simp)))

theorem concatD_const {d : DType} {l : List DType} {r : DType} (h : ∀ x ∈ l, x = d)
    (hr : concatD l = .ok r) : r = d := by
  cases l with
  | nil => simp [concatD] at hr
  | cons x xs =>
    have hx : x = d := h x (by simp)
    subst hx
    simp only [concatD, pure, Except.pure] at hr
    injection hr with hr
    rw [← hr]
    exact foldl_promote_const x xs (fun y hy => h y (by simp [hy]))

theorem concatD_within {d : DType} {l : List DType} {r : DType} (h : ∀ x ∈ l, Within d x)
    (hr : concatD l = .ok r) : Within d r := by
  cases l with
  | nil => simp [concatD] at hr
  | cons x xs =>
    simp only [concatD, pure, Except.pure] at hr
    injection hr with hr
    rw [← hr]
    exact foldl_promote_within d xs (fun y hy => h y (by simp [hy])) x (h x (by simp))

/-! ### Except -/

theorem bind_ok_iff {ε α β : Type} {x : Except ε α} {f : α → Except ε β} {b : β} :
    (x >>= f) = .ok b ↔ ∃ a, x = .ok a ∧ f a = .ok b := by
  cases x with
  | error e => constructor
               · intro h; cases h
               · rintro ⟨a, h, _⟩; cases h
  | ok a => constructor
            · intro h; exact ⟨a, rfl, h⟩
            · rintro ⟨a', h, hf⟩; cases h; exact hf

theorem foldlM_inv {ε α β : Type} (P : β → Prop) (f : β → α → Except ε β) :
    ∀ (l : List α) (init r : β), (∀ b a b', P b → a ∈ l → f b a = .ok b' → P b') → P init →
      l.foldlM f init = .ok r → P r := by
  intro l
  induction l with
  | nil => intro init r _ hi h; simp [List.foldlM, pure, Except.pure] at h; cases h; exact hi
  | cons a as ih =>
    intro init r hstep hi h
    simp only [List.foldlM_cons] at h
    obtain ⟨b, hb, hrest⟩ := bind_ok_iff.mp h
    exact ih b r (fun b0 a0 b' hp ha hf => hstep b0 a0 b' hp (by simp [ha]) hf)
      (hstep init a b hi (by simp) hb) hrest

theorem mapM_ok_mem {ε α β : Type} (f : α → Except ε β) :
    ∀ (l : List α) (r : List β), l.mapM f = .ok r → ∀ y ∈ r, ∃ x ∈ l, f x = .ok y := by
  intro l
  induction l with
  | nil => intro r h y hy; simp [List.mapM_nil, pure, Except.pure] at h; cases h; cases hy
  | cons a as ih =>
    intro r h y hy
    simp only [List.mapM_cons] at h
    obtain ⟨b, hb, h2⟩ := bind_ok_iff.mp h
    obtain ⟨bs, hbs, h3⟩ := bind_ok_iff.mp h2
    simp only [pure, Except.pure] at h3
    injection h3 with h3
    subst h3
    rcases List.mem_cons.mp hy with rfl | hy'
    · exact ⟨a, by simp, hb⟩
    · obtain ⟨x, hx, hfx⟩ := ih bs hbs y hy'
      exact ⟨x, by simp [hx], hfx⟩

/-! ### association lists -/

section
variable {κ : Type} [BEq κ]

theorem alookup_mem {β : Type} {l : List (κ × β)} {k : κ} {v : β} (h : alookup l k = some v) :
    ∃ k', (k', v) ∈ l := by
  induction l with
  | nil => simp [alookup] at h
  | cons p ps ih =>
    obtain ⟨k0, v0⟩ := p
    simp only [alookup] at h
    split at h
    · injection h with h; subst h; exact ⟨k0, by simp⟩
    · obtain ⟨k', hk⟩ := ih h; exact ⟨k', by simp [hk]⟩

theorem uni_alookup {d : DType} {l : List (κ × DType)} {k : κ} {v : DType} (hl : Uni d l)
    (h : alookup l k = some v) : v = d := by
  obtain ⟨k', hk⟩ := alookup_mem h
  exact hl (k', v) hk

theorem uniW_alookup {d : DType} {l : List (κ × DType)} {k : κ} {v : DType} (hl : UniW d l)
    (h : alookup l k = some v) : Within d v := by
  obtain ⟨k', hk⟩ := alookup_mem h
  exact hl (k', v) hk

theorem mem_ainsert {β : Type} {l : List (κ × β)} {k : κ} {v : β} {p : κ × β}
    (h : p ∈ ainsert l k v) : p ∈ l ∨ p.2 = v := by
  induction l with
  | nil => simp [ainsert] at h; right; rw [h]
  | cons q qs ih =>
    obtain ⟨k0, v0⟩ := q
    simp only [ainsert] at h
    split at h
    · rcases List.mem_cons.mp h with rfl | h'
      · right; rfl
      · left; simp [h']
    · rcases List.mem_cons.mp h with rfl | h'
      · left; simp
      · rcases ih h' with h'' | h''
        · left; simp [h'']
        · right; exact h''

theorem uni_ainsert {d : DType} {l : List (κ × DType)} {k : κ} {v : DType} (hl : Uni d l) (hv : v = d) :
    Uni d (ainsert l k v) := by
  intro p hp
  rcases mem_ainsert hp with h | h
  · exact hl p h
  · rw [h, hv]

theorem uniW_ainsert {d : DType} {l : List (κ × DType)} {k : κ} {v : DType} (hl : UniW d l)
    (hv : Within d v) : UniW d (ainsert l k v) := by
  intro p hp
  rcases mem_ainsert hp with h | h
  · exact hl p h
  · rw [h]; exact hv

theorem uni_foldl_ainsert {d : DType} (ps : List (κ × DType)) :
    ∀ acc : List (κ × DType), Uni d acc → Uni d ps →
      Uni d (ps.foldl (fun acc p => ainsert acc p.1 p.2) acc) := by
  induction ps with
  | nil => intro acc ha _; exact ha
  | cons p ps ih =>
    intro acc ha hp
    simp only [List.foldl_cons]
    exact ih _ (uni_ainsert ha (hp p (by simp))) (fun q hq => hp q (by simp [hq]))

theorem uni_adict {d : DType} {ps : List (κ × DType)} (h : Uni d ps) : Uni d (adict ps) :=
  uni_foldl_ainsert ps [] (fun _ hp => by cases hp) h

theorem uniW_foldl_ainsert {d : DType} (ps : List (κ × DType)) :
    ∀ acc : List (κ × DType), UniW d acc → UniW d ps →
      UniW d (ps.foldl (fun acc p => ainsert acc p.1 p.2) acc) := by
  induction ps with
  | nil => intro acc ha _; exact ha
  | cons p ps ih =>
    intro acc ha hp
    simp only [List.foldl_cons]
    exact ih _ (uniW_ainsert ha (hp p (by simp))) (fun q hq => hp q (by simp [hq]))

theorem uniW_adict {d : DType} {ps : List (κ × DType)} (h : UniW d ps) : UniW d (adict ps) :=
  uniW_foldl_ainsert ps [] (fun _ hp => by cases hp) h

end

theorem uni_nil {κ : Type} (d : DType) : Uni d ([] : List (κ × DType)) := fun _ h => by cases h

theorem uni_map_key {κ κ' : Type} {d : DType} {l : List (κ × DType)} (f : κ × DType → κ')
    (h : Uni d l) : Uni d (l.map (fun p => (f p, p.2))) := by
  intro p hp
  obtain ⟨q, hq, rfl⟩ := List.mem_map.mp hp
  exact h q hq

theorem uni_filter {κ : Type} {d : DType} {l : List (κ × DType)} (f : κ × DType → Bool)
    (h : Uni d l) : Uni d (l.filter f) := fun p hp => h p (List.mem_filter.mp hp).1

theorem uniW_filter {κ : Type} {d : DType} {l : List (κ × DType)} (f : κ × DType → Bool)
    (h : UniW d l) : UniW d (l.filter f) := fun p hp => h p (List.mem_filter.mp hp).1

theorem uni_append {κ : Type} {d : DType} {l m : List (κ × DType)} (h : Uni d l) (h' : Uni d m) :
    Uni d (l ++ m) := by
  intro p hp
  rcases List.mem_append.mp hp with hp | hp
  · exact h p hp
  · exact h' p hp

theorem uni_to_uniW {κ : Type} {d : DType} {l : List (κ × DType)} (h : Uni d l) : UniW d l :=
  fun p hp => Or.inl (h p hp)

/-- `get_any_array()` of a uniform array with at least one block -/
theorem ex_of_uni {d : DType} {a : DArr} (h : Uni d a.blocks) (hne : a.blocks ≠ []) : a.ex = d := by
  unfold DArr.ex
  cases hb : a.blocks with
  | nil => exact absurd hb hne
  | cons p ps =>
    obtain ⟨s, e⟩ := p
    have : (s, e) ∈ a.blocks := by rw [hb]; simp
    exact h (s, e) this

end SymmModel.DFlow
