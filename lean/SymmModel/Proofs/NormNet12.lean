/-
  SymmModel.Proofs.NormNet12 — network form of the norm (property C10), part 12:
  the decidable "no pruning" guard `netFullB` (every charge of every dangling leg occurs in a stored
  sector of `a·b`), and the six covered bracketings of the norm network in one statement.
-/
import SymmModel.Proofs.NormNet11
namespace SymmModel.NormNet
open SymmModel SymmModel.Lazy SymmModel.Norm SymmModel.TdotP SymmModel.GradedP SymmModel.RoutesP
open SymmModel.AssocP
set_option linter.unusedSectionVars false

/-! ## no pruning -/
section noprune

/-- every charge listed by an index table of `W` occurs at that position in some sector of `S` -/
def noPruneB (W : List Index) (S : List Sector) : Bool :=
  W.zipIdx.all (fun p => p.1.charges.all (fun c => (S.filterMap (fun s => s[p.2]?)).contains c))

theorem dropUnused_of_noPrune (W : List Index) (S : List Sector) (h : noPruneB W S = true) :
    dropUnused W S = W := by
  rw [dropUnused_eq]
  have : ∀ p ∈ W.zipIdx, dropTo p.1 (S.filterMap (fun s => s[p.2]?)) = p.1 := by
    intro p hp
    unfold noPruneB at h
    have h1 := List.all_eq_true.mp h p hp
    unfold dropTo
    have : p.1.charges.filter (fun c => !(S.filterMap (fun s => s[p.2]?)).contains c) = [] := by
      rw [List.filter_eq_nil_iff]
      intro c hc
      have := List.all_eq_true.mp h1 c hc
      rw [this]; decide
    simp only [this, List.isEmpty_nil, if_true]
  rw [List.map_congr_left this]
  simp [List.zipIdx_map_fst]

variable {R : Type}

/-- **the guard of the sequential routes**: the index tables of `a·b` are not pruned — every
    charge of every dangling leg of `a` and `b` occurs in a sector key of the contraction -/
def netFullB (a b : Arr R) (xa xb : List Nat) : Bool :=
  noPruneB (without a.indices xa ++ without b.indices xb)
    (tdKeys a.sectors b.sectors (freeAxes a.ndim xa) xa xb (freeAxes b.ndim xb))

theorem noPruneB_eraseDups (W : List Index) (S : List Sector) :
    noPruneB W S.eraseDups = noPruneB W S := by
  unfold noPruneB
  apply List.all_congr rfl
  intro p
  apply List.all_congr rfl
  intro c
  rw [Bool.eq_iff_iff]
  simp only [List.contains_iff_mem, List.mem_filterMap, List.mem_eraseDups]

end noprune

section frame
variable {R : Type} [AddMonoid R] [Mul R] [Neg R] [SignRing R]

theorem tdot_indices {a b K : Arr R} {xa xb : List Nat} (h : Adm a b xa xb)
    (eK : a.tensordotF b (.pair (xa.map Int.ofNat) (xb.map Int.ofNat)) .blockwise = .ok K)
    (hf : netFullB a b xa xb = true) :
    K.indices = without a.indices xa ++ without b.indices xb := by
  have e := tensordotF_eq_core a b xa xb h
  rw [eK] at e
  have F := coreT_frame a b xa xb h
  cases hm : OddposP.mergeOddpos a.parity a.oddpos b.oddpos with
  | error err => rw [hm] at e; cases e
  | ok r =>
    rw [hm] at e
    have e' : K = finish (coreT a b xa xb) r := Except.ok.inj e
    obtain ⟨_, _, k3, _, _, _⟩ := finish_frame (coreT a b xa xb) r
    rw [e', k3, F.indices, F.sectors]
    apply dropUnused_of_noPrune
    rw [noPruneB_eraseDups]; exact hf

end frame

section final
variable {R : Type} [AddCommMonoid R] [Mul R] [Neg R] [Conj R] [NetLaws R] [AssocLaws R]

/-- the covered bracketings of the norm network of `a`, `b` (see `network_norm_bracketings`) -/
def Bracketings (a b : Arr R) (xa xb : List Nat) : Prop :=
    ∃ K Kb, a.tensordotF b (.pair (xa.map Int.ofNat) (xb.map Int.ofNat)) .blockwise = .ok K
      ∧ (braOf a xa).tensordotF (braOf b xb) (.pair (xa.map Int.ofNat) (xb.map Int.ofNat)) .blockwise
          = .ok Kb
      -- balanced
      ∧ (∃ r r', r.ndim = 0 ∧ r.oddpos = [] ∧ r.elem [] [] = normSq K
          ∧ r'.ndim = 0 ∧ r'.oddpos = [] ∧ r'.elem [] [] = normSq' K
          ∧ ∀ π : List Nat, π.Perm (List.range K.ndim) →
              Kb.tensordotF K (.pair (π.map Int.ofNat) (π.map Int.ofNat)) .blockwise = .ok r
              ∧ K.tensordotF Kb (.pair (π.map Int.ofNat) (π.map Int.ofNat)) .blockwise = .ok r')
      -- sequential
      ∧ (netFullB a b xa xb = true →
        (∃ T c, Kb.tensordotF a (.pair ((List.range (freeAxes a.ndim xa).length).map Int.ofNat)
              ((freeAxes a.ndim xa).map Int.ofNat)) .blockwise = .ok T
          ∧ T.tensordotF b (.pair ((axesTW a.ndim b.ndim xa xb).map Int.ofNat)
              ((freeAxes b.ndim xb ++ xb).map Int.ofNat)) .blockwise = .ok c
          ∧ c.ndim = 0 ∧ c.oddpos = [] ∧ c.elem [] [] = normSq K)
        ∧ (∃ T c, (braOf b xb).tensordotF K (.pair ((freeAxes b.ndim xb).map Int.ofNat)
              (((List.range (freeAxes b.ndim xb).length).map ((freeAxes a.ndim xa).length + ·)).map
                Int.ofNat)) .blockwise = .ok T
          ∧ (braOf a xa).tensordotF T (.pair ((xa ++ freeAxes a.ndim xa).map Int.ofNat)
              ((axesTWr a.ndim b.ndim xa xb).map Int.ofNat)) .blockwise = .ok c
          ∧ c.ndim = 0 ∧ c.oddpos = [] ∧ c.elem [] [] = normSq K)
        ∧ (∃ T c, K.tensordotF (braOf a xa) (.pair ((List.range (freeAxes a.ndim xa).length).map Int.ofNat)
              ((freeAxes a.ndim xa).map Int.ofNat)) .blockwise = .ok T
          ∧ T.tensordotF (braOf b xb) (.pair ((axesTW a.ndim b.ndim xa xb).map Int.ofNat)
              ((freeAxes b.ndim xb ++ xb).map Int.ofNat)) .blockwise = .ok c
          ∧ c.ndim = 0 ∧ c.oddpos = [] ∧ c.elem [] [] = normSq' K)
        ∧ (∃ T c, b.tensordotF Kb (.pair ((freeAxes b.ndim xb).map Int.ofNat)
              (((List.range (freeAxes b.ndim xb).length).map ((freeAxes a.ndim xa).length + ·)).map
                Int.ofNat)) .blockwise = .ok T
          ∧ a.tensordotF T (.pair ((xa ++ freeAxes a.ndim xa).map Int.ofNat)
              ((axesTWr a.ndim b.ndim xa xb).map Int.ofNat)) .blockwise = .ok c
          ∧ c.ndim = 0 ∧ c.oddpos = [] ∧ c.elem [] [] = normSq' K))

/-- **the covered bracketings of the norm network `{a, b, ā, b̄}`** in one statement.
    Balanced: `(ā·b̄)·(a·b) = normSq K`, `(a·b)·(ā·b̄) = normSq' K`, final leg pairs in any order.
    Sequential, under the guard `netFullB`: `((ā·b̄)·a)·b = ā·(b̄·(a·b)) = normSq K`,
    `((a·b)·ā)·b̄ = a·(b·(ā·b̄)) = normSq' K`.  All results have rank 0 and no labels. -/
theorem network_norm_bracketings (a b : Arr R) (xa xb : List Nat)
    (ha : a.validB = true) (hb : b.validB = true) (hfa : a.fermi = true) (hfb : b.fermi = true)
    (hadm : ValidP.tdotAdmissibleB a b xa xb = true)
    (hoA : OneKet a.oddpos) (hoB : OneKet b.oddpos)
    (hd : (a.oddpos ++ b.oddpos).Pairwise (fun x y => x.1 ≠ y.1)) :
    Bracketings a b xa xb := by
  unfold Bracketings
  obtain ⟨K, Kb, eK, eKb, hseq⟩ := network_norm_sequential a b xa xb ha hb hfa hfb hadm hoA hoB hd
  obtain ⟨K', Kb', r, r', eK', eKb', h2, h3, h4, g2, g3, g4, hπ⟩ :=
    network_norm_halves_any_order a b xa xb ha hb hfa hfb hadm hoA.ketLabels hoB.ketLabels hd
  obtain rfl : K' = K := by rw [eK] at eK'; exact (Except.ok.inj eK').symm
  obtain rfl : Kb' = Kb := by rw [eKb] at eKb'; exact (Except.ok.inj eKb').symm
  refine ⟨K', Kb', eK, eKb, ⟨r, r', h2, h3, h4, g2, g3, g4, hπ⟩, ?_⟩
  intro hf
  exact hseq (tdot_indices (Adm.of ha hb hfa hfb hadm) eK hf)

end final

end SymmModel.NormNet
