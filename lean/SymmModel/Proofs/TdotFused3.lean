/-
  SymmModel.Proofs.TdotFused3 — the fused strategy of the contraction (`tensordotViaFused`) has
  the value view of the blockwise contraction: core argument.  Namespace `SymmModel.TdotP`.

  * `matrix_elem`: blockwise product of two rank-2 arrays, entry by entry, as a double sum over the
    charges and the positions of the bond index;
  * `fused_core`: that double sum over the fused bond, decoded through the common table of the two
    fused bond indices, is the blockwise double sum of the original operands.
-/
import SymmModel.Proofs.TdotFused2

namespace SymmModel
namespace TdotP
variable {R : Type}

/-! ### matrix × matrix -/

theorem freeAxes_2_1 : freeAxes 2 [1] = [0] := by decide
theorem freeAxes_2_0 : freeAxes 2 [0] = [1] := by decide

/-- blockwise product of two rank-2 arrays: the element at `([cL,cR],[iL,iR])` is the sum over the
    charges `c` of `X`'s second index and the positions `k` inside `c` of
    `X[(cL,c),(iL,k)] · Y[(c,cR),(k,iR)]` (absent sectors contribute zero) -/
theorem matrix_elem [AddCommMonoid R] [Mul R] [Neg R]
    (hz1 : ∀ x : R, 0 * x = 0) (hz2 : ∀ x : R, x * 0 = 0) (X Y : Arr R) (x0 xK yK y1 : Index)
    (hXi : X.indices = [x0, xK]) (hYi : Y.indices = [yK, y1])
    (hpX : X.phases = []) (hpY : Y.phases = [])
    (hdX : allDistinct X.sectors = true) (hdY : allDistinct Y.sectors = true)
    (hsX : X.shapesOk) (hsY : Y.shapesOk) (hndK : (xK.cm.map (·.1)).Nodup)
    {cL cR : Charge} {iL iR dL dR : Nat}
    (hzL : x0.sizeOf? cL = some dL) (hiL : iL < dL) (hzR : y1.sizeOf? cR = some dR) (hiR : iR < dR) :
    (tensordotBlockwise X Y [0] [1] [0] [1]).elem [cL, cR] [iL, iR] =
      (xK.cm.map (fun cd => ((List.range cd.2).map (fun k =>
        X.elem [cL, cd.1] [iL, k] * Y.elem [cd.1, cR] [k, iR])).sum)).sum := by
  have hX2 : X.ndim = 2 := by simp [Arr.ndim, hXi]
  have hY2 : Y.ndim = 2 := by simp [Arr.ndim, hYi]
  have hcover : ∀ sa ∈ X.sectors, permuted sa [1] ∈ xK.cm.map (fun cd => [cd.1]) := by
    intro sa hsa
    obtain ⟨p, hp, rfl⟩ := List.mem_map.mp hsa
    have hsh := hsX p hp
    rw [hXi] at hsh
    match hps : p.1, charges_of_blockShape? hsh with
    | [c1, c2], .cons _ (.cons hc2 .nil) =>
      obtain ⟨cd, hcd, rfl⟩ := List.mem_map.mp hc2
      exact List.mem_map.mpr ⟨cd, hcd, by simp [permuted]⟩
  have hbox : inBox (Arr.blockShapeD (without X.indices [1] ++ without Y.indices [0]) ([cL] ++ [cR]))
      [iL, iR] = true := by
    have e1 : without X.indices [1] = [x0] := by rw [hXi]; rfl
    have e2 : without Y.indices [0] = [y1] := by rw [hYi]; rfl
    rw [e1, e2]
    simp only [List.cons_append, List.nil_append, Arr.blockShapeD, Arr.blockShape?_cons,
      Arr.blockShape?_nil_nil, hzL, hzR, Option.bind_some, Option.map_some, Option.getD_some, inBox,
      hiL, hiR, decide_true, Bool.and_self]
  have h := tensordotBlockwise_elem_dense' hz1 hz2 X Y [1] [0] hpX hpY hdX hdY hsX hsY
    (by simp) (by simp [hX2]) (by simp) (by simp [hY2]) rfl
    (xK.cm.map (fun cd => [cd.1]))
    (by
      have : xK.cm.map (fun cd => [cd.1]) = (xK.cm.map (·.1)).map (fun c => [c]) := by
        rw [List.map_map]; rfl
      rw [this]; exact hndK.map (fun x y h => by simpa using h))
    (by intro K hK; obtain ⟨cd, _, rfl⟩ := List.mem_map.mp hK; rfl)
    hcover [cL] [cR] (by rw [hX2, freeAxes_2_1]; rfl) (by rw [hY2, freeAxes_2_0]; rfl) [iL, iR] hbox
  rw [hX2, hY2, freeAxes_2_1, freeAxes_2_0] at h
  rw [show ([cL, cR] : Sector) = [cL] ++ [cR] from rfl, h, List.map_map]
  apply sum_map_congr
  rintro ⟨c, D⟩ hcd
  have hzK : xK.sizeOf? c = some D := alookup_of_mem_nodup hndK hcd
  have hshape : Arr.blockShapeD X.indices [cL, c] = [dL, D] := by
    rw [hXi]
    simp only [Arr.blockShapeD, Arr.blockShape?_cons, Arr.blockShape?_nil_nil, hzL, hzK,
      Option.bind_some, Option.map_some, Option.getD_some]
  have e1 : mergeSec 2 [1] [c] [cL] = [cL, c] := by
    simp [mergeSec, mergeIdx, freeAxes_2_1, indexOf?, List.range_succ]
  have e2 : mergeSec 2 [0] [c] [cR] = [c, cR] := by
    simp [mergeSec, mergeIdx, freeAxes_2_0, indexOf?, List.range_succ]
  simp only [Function.comp, contractPair, e1, e2, hshape, List.take_succ_cons, List.take_zero,
    List.drop_succ_cons, List.drop_zero, List.length_cons, List.length_nil]
  have e3 : permuted [dL, D] [1] = [D] := rfl
  rw [e3, allIdx_single, List.map_map]
  apply sum_map_congr
  intro k _
  simp only [Function.comp, contractTerm, hX2, hY2, freeAxes_2_1, freeAxes_2_0]
  have e4 : mergeIdx 0 2 [1] [0] [k] [iL] = [iL, k] := by
    simp [mergeIdx, indexOf?, List.range_succ]
  have e5 : mergeIdx 0 2 [0] [1] [k] [iR] = [k, iR] := by
    simp [mergeIdx, indexOf?, List.range_succ]
  rw [e4, e5]

/-! ### the two aligned operands -/

/-- the situation after `dropMisaligned`: two valid abelian arrays of the same symmetry whose
    contracted legs have equal charge tables and opposite directions and which store the same set
    of contracted sub-sectors; contracted, left and right groups non-empty -/
structure FusedCtx (A B : Arr R) (xa xb : List Nat) : Prop where
  vA : A.validB = true
  vB : B.validB = true
  fA : A.fermi = false
  fB : B.fermi = false
  sym : A.sym = B.sym
  nA : xa.Nodup
  nB : xb.Nodup
  rA : ∀ x ∈ xa, x < A.ndim
  rB : ∀ x ∈ xb, x < B.ndim
  len : xa.length = xb.length
  neK : xa ≠ []
  neL : freeAxes A.ndim xa ≠ []
  neR : freeAxes B.ndim xb ≠ []
  cm : (xa.map (fun ax => A.indices.getD ax default)).map Index.cm
      = (xb.map (fun ax => B.indices.getD ax default)).map Index.cm
  dual : (xb.map (fun ax => B.indices.getD ax default)).map Index.dual
      = (xa.map (fun ax => A.indices.getD ax default)).map (fun ix => !ix.dual)
  keys : ∀ K, K ∈ A.blocks.map (fun sb => xa.map (fun ax => sb.1.getD ax (0, 0))) ↔
      K ∈ B.blocks.map (fun sb => xb.map (fun ax => sb.1.getD ax (0, 0)))

namespace FusedCtx
variable {A B : Arr R} {xa xb : List Nat} (h : FusedCtx A B xa xb)
include h

theorem neKb : xb ≠ [] := by
  intro e; have := h.len; rw [e] at this; exact h.neK (List.eq_nil_of_length_eq_zero this)

theorem pairA : PairOk A (freeAxes A.ndim xa) xa :=
  ⟨h.neL, h.neK, by
    have := ValidP.without_append_perm h.nA h.rA
    rwa [without_range] at this⟩

theorem pairB : PairOk B xb (freeAxes B.ndim xb) :=
  ⟨h.neKb, h.neR, by
    have := ValidP.without_append_perm h.nB h.rB
    rw [without_range] at this
    exact List.perm_append_comm.trans this⟩

theorem vaA : FuseP.ValidArr A := FuseP.validArr_of_validB h.vA
theorem vaB : FuseP.ValidArr B := FuseP.validArr_of_validB h.vB
theorem phA : A.phases = [] := phases_nil_of_validB h.vA h.fA
theorem phB : B.phases = [] := phases_nil_of_validB h.vB h.fB

end FusedCtx

theorem fused_pair_validB [Zero R] {A : Arr R} {g1 g2 : List Nat} (hv : A.validB = true)
    (hf : A.fermi = false) (hp : PairOk A g1 g2) : (FuseP.fusedArrM A [g1, g2]).validB = true := by
  refine ValidP.fuseCore_insert_validB A _ [g1, g2] hv hf ?_
    (FuseP.fuseCore_multi_eq (FuseP.validArr_of_validB hv) hp.groupsOk)
  have hok := hp.groupsOk
  simp only [ValidP.fuseAdmissibleB, Bool.and_eq_true, List.all_eq_true, decide_eq_true_eq]
  exact ⟨allDistinct_iff_nodup.mpr hok.nodup, hok.lt⟩

theorem decAx_total {A : Arr R} {G : List (List Nat)} (hv : FuseP.ValidArr A)
    (hok : FuseP.GroupsOk G A.ndim) {g : Nat} {gaxes : List Nat} (hg : G[g]? = some gaxes)
    {c : Charge} {D k : Nat} (hsz : (FuseP.ixM A G g).sizeOf? c = some D) (hk : k < D) :
    ∃ K ok, decAx A G g c k = some (K, ok) := by
  by_cases hlen : gaxes.length = 1
  · have hm : FuseP.multiB G g = false := by simp [FuseP.multiB, hg, hlen]
    exact ⟨[c], [k], by simp [decAx, hm]⟩
  · have hm : FuseP.multiB G g = true := FuseP.multiB_iff.2 ⟨_, hg, hlen⟩
    obtain ⟨K, ok, hs⟩ := FuseP.splitAddr_total (FuseP.ixM_wf hv hok hg hlen)
      (FuseP.ixM_sub hok hg hlen) hsz hk
    exact ⟨K, ok, by simp [decAx, hm, hs]⟩

namespace FusedCtx
variable {A B : Arr R} {xa xb : List Nat} (h : FusedCtx A B xa xb)
include h

omit h in
theorem gA (_h : FusedCtx A B xa xb) : ([freeAxes A.ndim xa, xa] : List (List Nat))[1]? = some xa := rfl
omit h in
theorem gB (_h : FusedCtx A B xa xb) : ([xb, freeAxes B.ndim xb] : List (List Nat))[0]? = some xb := rfl

/-- **the two fused bond indices match**: equal charge tables, and for a multi-axis bond equal
    extents; opposite directions -/
theorem bond_match :
    (FuseP.ixM A [freeAxes A.ndim xa, xa] 1).cm = (FuseP.ixM B [xb, freeAxes B.ndim xb] 0).cm
    ∧ (xa.length ≠ 1 → FuseP.extsM A [freeAxes A.ndim xa, xa] 1 = FuseP.extsM B [xb, freeAxes B.ndim xb] 0)
    ∧ (FuseP.ixM A [freeAxes A.ndim xa, xa] 1).dual = !(FuseP.ixM B [xb, freeAxes B.ndim xb] 0).dual := by
  have hokA := h.pairA.groupsOk
  have hokB := h.pairB.groupsOk
  by_cases hlen : xa.length = 1
  · have hlenB : xb.length = 1 := by rw [← h.len]; exact hlen
    rw [FuseP.ixM_single hokA h.gA hlen, FuseP.ixM_single hokB h.gB hlenB]
    have hcm := h.cm
    have hdual := h.dual
    match xa, xb, hlen, hlenB, hcm, hdual with
    | [i], [j], _, _, hcm, hdual =>
      simp only [List.map_cons, List.map_nil, List.cons.injEq, and_true] at hcm hdual
      refine ⟨hcm, fun hne => absurd rfl hne, ?_⟩
      simp only [List.headD_cons]
      rw [hdual]; simp
  · obtain ⟨h1, h2, h3⟩ := fused_tables_match h.vaA h.vaB h.sym hokA hokB h.gA h.gB hlen h.len
      h.cm h.dual h.keys
    exact ⟨h1, fun _ => h2, h3⟩

/-- decoding a bond position gives the same (sub-sector, sub-offsets) on both operands -/
theorem decAx_bond (c : Charge) (k : Nat) :
    decAx B [xb, freeAxes B.ndim xb] 0 c k = decAx A [freeAxes A.ndim xa, xa] 1 c k := by
  have hokA := h.pairA.groupsOk
  have hokB := h.pairB.groupsOk
  by_cases hlen : xa.length = 1
  · have hlenB : xb.length = 1 := by rw [← h.len]; exact hlen
    have hmA : FuseP.multiB [freeAxes A.ndim xa, xa] 1 = false := by simp [FuseP.multiB, hlen]
    have hmB : FuseP.multiB [xb, freeAxes B.ndim xb] 0 = false := by simp [FuseP.multiB, hlenB]
    simp [decAx, hmA, hmB]
  · have hlenB : xb.length ≠ 1 := by rw [← h.len]; exact hlen
    have hmA : FuseP.multiB [freeAxes A.ndim xa, xa] 1 = true := FuseP.multiB_iff.2 ⟨_, h.gA, hlen⟩
    have hmB : FuseP.multiB [xb, freeAxes B.ndim xb] 0 = true := FuseP.multiB_iff.2 ⟨_, h.gB, hlenB⟩
    have hsA := FuseP.ixM_sub (a := A) hokA h.gA hlen
    have hsB := FuseP.ixM_sub (a := B) hokB h.gB hlenB
    have hex := h.bond_match.2.1 hlen
    simp only [decAx, hmA, hmB, if_true, FuseP.splitAddr, hsA, hsB, hex]
    cases alookup (FuseP.extsM B [xb, freeAxes B.ndim xb] 0) c with
    | none => rfl
    | some ext =>
      simp only []
      cases FuseP.splitOffset ext k with
      | none => rfl
      | some q =>
        simp only []
        rw [blockShape?_congr_cm h.cm q.1]

end FusedCtx

/-- the contracted box of a sector assembled from a contracted part `K` and a free part `L` that
    both have block shapes on their index groups -/
theorem contracted_box {A : Arr R} {xa : List Nat} (hxa : xa.Nodup) (hxa' : ∀ x ∈ xa, x < A.ndim)
    {K L : Sector} {shpK shpL : List Nat}
    (hK : Arr.blockShape? (permuted A.indices xa) K = some shpK)
    (hL : Arr.blockShape? (permuted A.indices (freeAxes A.ndim xa)) L = some shpL) :
    permuted (Arr.blockShapeD A.indices (mergeSec A.ndim xa K L)) xa = shpK := by
  have ean : A.indices.length = A.ndim := rfl
  have hKlen : K.length = xa.length := by
    rw [(blockShape?_length hK).1, permuted_length _ _ (by simpa [ean] using hxa')]
  have hLlen : L.length = (freeAxes A.ndim xa).length := by
    rw [(blockShape?_length hL).1, permuted_length _ _ (by simpa [ean] using mem_freeAxes_lt)]
  have hSch : List.Forall₂ (fun c (ix : Index) => c ∈ ix.charges) (mergeSec A.ndim xa K L) A.indices := by
    apply forall₂_of_parts (n := A.ndim) (xa := xa) (l := freeAxes A.ndim xa)
      (mergeSec_length _ _ _ _) ean hxa' mem_freeAxes_lt
    · intro y hy
      by_cases hm : y ∈ xa
      · exact Or.inl hm
      · exact Or.inr (mem_freeAxes.mpr ⟨hy, hm⟩)
    · rw [permuted_mergeSec_axes hxa hxa' hKlen]; exact charges_of_blockShape? hK
    · rw [permuted_mergeSec_free hLlen]; exact charges_of_blockShape? hL
  obtain ⟨shpS, hshpS⟩ := blockShape?_of_charges hSch
  have := blockShape?_permuted hshpS xa (by simpa [ean] using hxa')
  rw [permuted_mergeSec_axes hxa hxa' hKlen, hK] at this
  rw [Arr.blockShapeD, hshpS]
  exact (Option.some.inj this).symm

/-- every sub-sector of the bond table has a block shape on the group's indices -/
theorem bondKs_shape {A : Arr R} {G : List (List Nat)} (hv : FuseP.ValidArr A)
    (hok : FuseP.GroupsOk G A.ndim) {g : Nat} {gaxes : List Nat} (hg : G[g]? = some gaxes)
    {K : Sector} (hK : K ∈ bondKs A G g) :
    ∃ shp, Arr.blockShape? (permuted A.indices gaxes) K = some shp := by
  have hlt : ∀ x ∈ gaxes, x < A.indices.length := FuseP.groupM_lt hok hg
  by_cases hlen : gaxes.length = 1
  · have hm : FuseP.multiB G g = false := by simp [FuseP.multiB, hg, hlen]
    have hix := FuseP.ixM_single (a := A) hok hg hlen
    simp only [bondKs, hm, Bool.false_eq_true, if_false, List.mem_map] at hK
    obtain ⟨⟨c, D⟩, hcd, rfl⟩ := hK
    match gaxes, hlen, hlt, hix with
    | [ax], _, hlt, hix =>
      have h0 : ax < A.indices.length := hlt ax (by simp)
      simp only [List.headD_cons] at hix
      rw [hix] at hcd
      have hsz : (A.indices.getD ax default).sizeOf? c = some D :=
        alookup_of_mem_nodup (cm_keys_nodup (index_getD_wf hv h0)) hcd
      rw [List.getD_eq_getElem?_getD, List.getElem?_eq_getElem h0] at hsz
      simp only [Option.getD_some] at hsz
      refine ⟨[D], ?_⟩
      simp only [permuted, List.filterMap_cons, List.getElem?_eq_getElem h0, List.filterMap_nil,
        Arr.blockShape?_cons, Arr.blockShape?_nil_nil, hsz]
      rfl
  · have hm : FuseP.multiB G g = true := FuseP.multiB_iff.2 ⟨_, hg, hlen⟩
    have hsub := FuseP.ixM_sub (a := A) hok hg hlen
    have hw := FuseP.ixM_wf hv hok hg hlen
    simp only [bondKs, hm, if_true, List.mem_flatMap, List.mem_map] at hK
    obtain ⟨⟨c, D⟩, hcd, ⟨ss, d⟩, hsd, rfl⟩ := hK
    obtain ⟨ext, he, hext⟩ := cm_extent hw hsub hcd
    have heo : extOf (FuseP.ixM A G g) c = ext := by simp [extOf, hsub, he]
    rw [heo] at hsd
    obtain ⟨_, ⟨shp, hshp, _⟩, _⟩ := hext.entry ss d hsd
    exact ⟨shp, by rw [permuted_eq_map _ _ hlt default]; exact hshp⟩

/-- **core of the fused strategy.**  The product of the two fused matrices, at a position whose
    row decodes to `(Ls, oL)` and whose column decodes to `(Rs, oR)`, is the blockwise contraction
    of the original operands at `(Ls ++ Rs, oL ++ oR)`. -/
theorem fused_core [AddCommMonoid R] [Mul R] [Neg R]
    (hz1 : ∀ x : R, 0 * x = 0) (hz2 : ∀ x : R, x * 0 = 0) {A B : Arr R} {xa xb : List Nat}
    (h : FusedCtx A B xa xb) {cL cR : Charge} {iL iR dL dR : Nat} {Ls Rs : Sector} {oL oR : List Nat}
    (hdL : decAx A [freeAxes A.ndim xa, xa] 0 cL iL = some (Ls, oL))
    (hdR : decAx B [xb, freeAxes B.ndim xb] 1 cR iR = some (Rs, oR))
    (hzL : (FuseP.ixM A [freeAxes A.ndim xa, xa] 0).sizeOf? cL = some dL) (hiL : iL < dL)
    (hzR : (FuseP.ixM B [xb, freeAxes B.ndim xb] 1).sizeOf? cR = some dR) (hiR : iR < dR) :
    (tensordotBlockwise (FuseP.fusedArrM A [freeAxes A.ndim xa, xa])
        (FuseP.fusedArrM B [xb, freeAxes B.ndim xb]) [0] [1] [0] [1]).elem [cL, cR] [iL, iR] =
      (tensordotBlockwise A B (freeAxes A.ndim xa) xa xb (freeAxes B.ndim xb)).elem (Ls ++ Rs) (oL ++ oR) := by
  have hpA := h.pairA
  have hpB := h.pairB
  have hokA := hpA.groupsOk
  have hokB := hpB.groupsOk
  have hvA := h.vaA
  have hvB := h.vaB
  have gA0 : ([freeAxes A.ndim xa, xa] : List (List Nat))[0]? = some (freeAxes A.ndim xa) := rfl
  have gB1 : ([xb, freeAxes B.ndim xb] : List (List Nat))[1]? = some (freeAxes B.ndim xb) := rfl
  have ean : A.indices.length = A.ndim := rfl
  have ebn : B.indices.length = B.ndim := rfl
  -- the fused operands
  have hvaf := fused_pair_validB h.vA h.fA hpA
  have hvbf := fused_pair_validB h.vB h.fB hpB
  have hwK : Index.wfB A.sym (FuseP.ixM A [freeAxes A.ndim xa, xa] 1) = true := by
    have := (FuseP.validArr_of_validB hvaf).idx (FuseP.ixM A [freeAxes A.ndim xa, xa] 1)
      (by show _ ∈ FuseP.newIdxM A _; rw [pair_newIdx hpA]; simp)
    exact this
  have hndK := cm_keys_nodup hwK
  -- free parts
  obtain ⟨shpL, hshpL, hboxL⟩ := decAx_facts hvA hokA gA0 hdL hzL hiL
  obtain ⟨shpR, hshpR, hboxR⟩ := decAx_facts hvB hokB gB1 hdR hzR hiR
  have hLlen : Ls.length = (freeAxes A.ndim xa).length := by
    rw [(blockShape?_length hshpL).1, permuted_length _ _ (by simpa [ean] using mem_freeAxes_lt)]
  have hRlen : Rs.length = (freeAxes B.ndim xb).length := by
    rw [(blockShape?_length hshpR).1, permuted_length _ _ (by simpa [ebn] using mem_freeAxes_lt)]
  have hoLlen : oL.length = (freeAxes A.ndim xa).length := by
    rw [inBox_length hboxL, (blockShape?_length hshpL).2,
      permuted_length _ _ (by simpa [ean] using mem_freeAxes_lt)]
  have hoRlen : oR.length = (freeAxes B.ndim xb).length := by
    rw [inBox_length hboxR, (blockShape?_length hshpR).2,
      permuted_length _ _ (by simpa [ebn] using mem_freeAxes_lt)]
  -- step 1: the matrix product as a double sum over the bond
  rw [matrix_elem hz1 hz2 (FuseP.fusedArrM A [freeAxes A.ndim xa, xa])
    (FuseP.fusedArrM B [xb, freeAxes B.ndim xb]) _ _ _ _ (pair_newIdx hpA) (pair_newIdx hpB) h.phA h.phB
    (Arr.allDistinct_of_validB hvaf) (Arr.allDistinct_of_validB hvbf)
    (Arr.shapesOk_of_validB hvaf) (Arr.shapesOk_of_validB hvbf) hndK hzL hiL hzR hiR]
  -- step 2: every term is a product of original elements at the decoded address
  let H : Sector → List Nat → R := fun K ok =>
    A.elem (mergeSec A.ndim xa K Ls) (mergeIdx 0 A.ndim xa (freeAxes A.ndim xa) ok oL) *
    B.elem (mergeSec B.ndim xb K Rs) (mergeIdx 0 B.ndim xb (freeAxes B.ndim xb) ok oR)
  have hterm : ∀ cd ∈ (FuseP.ixM A [freeAxes A.ndim xa, xa] 1).cm, ∀ k ∈ List.range cd.2,
      (FuseP.fusedArrM A [freeAxes A.ndim xa, xa]).elem [cL, cd.1] [iL, k] *
        (FuseP.fusedArrM B [xb, freeAxes B.ndim xb]).elem [cd.1, cR] [k, iR] =
      (match decAx A [freeAxes A.ndim xa, xa] 1 cd.1 k with
        | some (K, ok) => H K ok
        | none => 0) := by
    rintro ⟨c, D⟩ hcd k hk
    have hkD : k < D := List.mem_range.mp hk
    have hszA : (FuseP.ixM A [freeAxes A.ndim xa, xa] 1).sizeOf? c = some D :=
      alookup_of_mem_nodup hndK hcd
    have hszB : (FuseP.ixM B [xb, freeAxes B.ndim xb] 0).sizeOf? c = some D := by
      rw [Index.sizeOf?, ← h.bond_match.1]; exact hszA
    obtain ⟨K, ok, hdec⟩ := decAx_total hvA hokA h.gA hszA hkD
    obtain ⟨shpK, hshpK, hboxK⟩ := decAx_facts hvA hokA h.gA hdec hszA hkD
    have hKlen : K.length = xa.length := by
      rw [(blockShape?_length hshpK).1, permuted_length _ _ (by simpa [ean] using h.rA)]
    have hoklen : ok.length = xa.length := by
      rw [inBox_length hboxK, (blockShape?_length hshpK).2,
        permuted_length _ _ (by simpa [ean] using h.rA)]
    have hdecB : decAx B [xb, freeAxes B.ndim xb] 0 c k = some (K, ok) := by
      rw [h.decAx_bond]; exact hdec
    simp only [hdec]
    rw [pair_elem hvA h.phA hpA hdL hdec hzL hiL hszA hkD
        (s := mergeSec A.ndim xa K Ls) (offs := mergeIdx 0 A.ndim xa (freeAxes A.ndim xa) ok oL)
        (mergeSec_length _ _ _ _) (mergeIdx_length _ _ _ _ _ _)
        (permuted_mergeSec_free hLlen) (permuted_mergeSec_axes h.nA h.rA hKlen)
        (permuted_mergeIdx_free _ (freeAxes_nodup _ _) mem_freeAxes_lt
          (fun _ hx => (mem_freeAxes.mp hx).2) hoLlen)
        (permuted_mergeIdx_axes _ h.nA h.rA hoklen),
      pair_elem hvB h.phB hpB hdecB hdR hszB hkD hzR hiR
        (s := mergeSec B.ndim xb K Rs) (offs := mergeIdx 0 B.ndim xb (freeAxes B.ndim xb) ok oR)
        (mergeSec_length _ _ _ _) (mergeIdx_length _ _ _ _ _ _)
        (permuted_mergeSec_axes h.nB h.rB (hKlen.trans h.len)) (permuted_mergeSec_free hRlen)
        (permuted_mergeIdx_axes _ h.nB h.rB (hoklen.trans h.len))
        (permuted_mergeIdx_free _ (freeAxes_nodup _ _) mem_freeAxes_lt
          (fun _ hx => (mem_freeAxes.mp hx).2) hoRlen)]
  rw [sum_map_congr (fun cd hcd => sum_map_congr (hterm cd hcd))]
  -- step 3: positions of the bond ↦ sub-sectors and offsets
  refine Eq.trans (Eq.trans (by rfl) (sum_decAx hvA hokA h.gA H)) ?_
  -- step 4: this is the blockwise double sum
  have hboxC : inBox (Arr.blockShapeD (without A.indices xa ++ without B.indices xb) (Ls ++ Rs))
      (oL ++ oR) = true := by
    rw [without_eq_permuted_freeAxes, without_eq_permuted_freeAxes, Arr.blockShapeD, ean, ebn,
      blockShape?_append hshpL hshpR]
    simp only [Option.getD_some]
    rw [inBox_append (inBox_length hboxL), hboxL, hboxR]; rfl
  rw [tensordotBlockwise_elem_dense' hz1 hz2 A B xa xb h.phA h.phB (Arr.allDistinct_of_validB h.vA)
    (Arr.allDistinct_of_validB h.vB) (Arr.shapesOk_of_validB h.vA) (Arr.shapesOk_of_validB h.vB)
    h.nA h.rA h.nB h.rB h.len (bondKs A [freeAxes A.ndim xa, xa] 1) (bondKs_nodup hvA hokA h.gA)
    (bondKs_length hvA hokA h.gA)
    (fun sa hsa => by
      obtain ⟨p, hp, rfl⟩ := List.mem_map.mp hsa
      exact bondKs_cover hvA hokA h.gA p hp)
    Ls Rs hLlen hRlen (oL ++ oR) hboxC]
  have etake : (oL ++ oR).take (freeAxes A.ndim xa).length = oL := by rw [← hoLlen]; simp
  have edrop : (oL ++ oR).drop (freeAxes A.ndim xa).length = oR := by rw [← hoLlen]; simp
  rw [etake, edrop]
  apply sum_map_congr
  intro K hK
  obtain ⟨shpK, hshpK⟩ := bondKs_shape hvA hokA h.gA hK
  simp only [contractPair, contractTerm, H]
  rw [contracted_box h.nA h.rA hshpK hshpL, Arr.blockShapeD, hshpK]
  rfl

end TdotP
end SymmModel
