/-
  SymmModel.Proofs.Fuse7Nest — the nested concatenation of `_fuse_blocks_via_concat`, abstractly:
  a list of levels (single-axis group: one key; multi-axis group: an extent, concatenated along an
  axis), a leaf per key list.  `nest_spec`: shape of the result and its entry at every address.
-/
import SymmModel.Proofs.FuseConcat3
namespace SymmModel
namespace FuseP
set_option linter.unusedSectionVars false

variable {R : Type} [Zero R]

inductive Lvl where
  | single (k : Sector)
  | multi (ax : Nat) (ext : Extent)

/-- the nested concatenation -/
def nest (leaf : List Sector → Blk R) : List Lvl → List Sector → Blk R
  | [], key => leaf key
  | .single k :: r, key => nest leaf r (key ++ [k])
  | .multi ax ext :: r, key => Blk.concatK (ext.map (fun q => nest leaf r (key ++ [q.1]))) ax

/-- the choices (key, size) an address makes at every level -/
def decQ : List Lvl → List Nat → List (Sector × Nat)
  | [], _ => []
  | .single k :: r, i => (k, 0) :: decQ r i
  | .multi ax ext :: r, i =>
    match Blk.locatePiece (ext.map (·.2)) (i.getD ax 0) with
    | some (k, o) => match ext[k]? with
      | some q => q :: decQ r (i.set ax o)
      | none => []
    | none => []

/-- the address inside the leaf -/
def decOff : List Lvl → List Nat → List Nat
  | [], i => i
  | .single _ :: r, i => decOff r i
  | .multi ax ext :: r, i =>
    match Blk.locatePiece (ext.map (·.2)) (i.getD ax 0) with
    | some (_, o) => decOff r (i.set ax o)
    | none => i

/-- a list of choices fits the levels -/
def Choice : List Lvl → List (Sector × Nat) → Prop
  | [], qs => qs = []
  | .single k :: r, qs => ∃ q qs', qs = q :: qs' ∧ q.1 = k ∧ Choice r qs'
  | .multi _ ext :: r, qs => ∃ q qs', qs = q :: qs' ∧ q ∈ ext ∧ Choice r qs'

/-- shape of the leaf of a list of choices -/
def pieceShape : List Lvl → List Nat → List (Sector × Nat) → List Nat
  | .multi ax _ :: r, b, q :: qs => pieceShape r (b.set ax q.2) qs
  | .single _ :: r, b, _ :: qs => pieceShape r b qs
  | _, b, _ => b

/-- the levels fit the shape `base`: multi axes inside, sizes add up, extents non-empty, axes distinct -/
def LvOk : List Lvl → List Nat → Prop
  | [], _ => True
  | .single _ :: r, b => LvOk r b
  | .multi ax ext :: r, b => ax < b.length ∧ b.getD ax 0 = sumN (ext.map (·.2)) ∧ ext ≠ []
      ∧ (∀ d, LvOk r (b.set ax d))

theorem locatePiece_spec {sizes : List Nat} {p k o : Nat} (h : Blk.locatePiece sizes p = some (k, o)) :
    ∃ d, sizes[k]? = some d ∧ o < d := by
  induction sizes generalizing p k with
  | nil => simp [Blk.locatePiece] at h
  | cons d ds ih =>
    simp only [Blk.locatePiece] at h
    split at h
    · rename_i hp
      simp only [Option.some.injEq, Prod.mk.injEq] at h
      obtain ⟨rfl, rfl⟩ := h
      exact ⟨d, rfl, hp⟩
    · cases hq : Blk.locatePiece ds (p - d) with
      | none => simp [hq] at h
      | some q =>
        obtain ⟨k', o'⟩ := q
        simp only [hq, Option.map_some, Option.some.injEq, Prod.mk.injEq] at h
        obtain ⟨rfl, rfl⟩ := h
        obtain ⟨d', h1, h2⟩ := ih hq
        exact ⟨d', by simpa using h1, h2⟩

theorem getD_set_self (l : List Nat) (p v : Nat) (hp : p < l.length) : (l.set p v).getD p 0 = v := by
  simp [List.getD_eq_getElem?_getD, List.getElem?_set, hp]

theorem set_getD_self (l : List Nat) (p : Nat) : l.set p (l.getD p 0) = l := by
  apply List.ext_getElem?
  intro k
  rw [List.getElem?_set]
  split
  · rename_i h; subst h
    split
    · rename_i hk; simp [List.getD_eq_getElem?_getD, List.getElem?_eq_getElem hk]
    · rename_i hk; simp [List.getElem?_eq_none (Nat.le_of_not_lt hk)]
  · rfl

theorem inBox_set {s i : List Nat} {p o d : Nat} (h : inBox s i = true) (hp : p < s.length) (ho : o < d) :
    inBox (s.set p d) (i.set p o) = true := by
  rw [inBox_iff] at h ⊢
  refine ⟨by simp [h.1], ?_⟩
  intro k hk
  simp only [List.length_set] at hk
  simp only [List.getD_eq_getElem?_getD, List.getElem?_set]
  by_cases hkp : p = k
  · subst hkp
    simp [hp, h.1 ▸ hp, ho]
  · simp only [hkp, if_false]
    have := h.2 k hk
    simpa [List.getD_eq_getElem?_getD] using this

/-- **shape and entries of the nested concatenation** -/
theorem nest_spec (leaf : List Sector → Blk R) : ∀ (lv : List Lvl) (key : List Sector) (base : List Nat),
    LvOk lv base →
    (∀ qs, Choice lv qs → (leaf (key ++ qs.map (·.1))).shape = pieceShape lv base qs) →
    (nest leaf lv key).shape = base
    ∧ ∀ i, inBox base i = true →
        Choice lv (decQ lv i) ∧ inBox (pieceShape lv base (decQ lv i)) (decOff lv i) = true
        ∧ (nest leaf lv key).get i = (leaf (key ++ (decQ lv i).map (·.1))).get (decOff lv i) := by
  intro lv
  induction lv with
  | nil =>
    intro key base _ hleaf
    have := hleaf [] rfl
    simp only [List.map_nil, List.append_nil, pieceShape] at this
    refine ⟨this, fun i hi => ⟨rfl, hi, ?_⟩⟩
    simp [nest, decQ, decOff]
  | cons l r ih =>
    intro key base hok hleaf
    cases l with
    | single k =>
      have hleaf' : ∀ qs, Choice r qs → (leaf ((key ++ [k]) ++ qs.map (·.1))).shape = pieceShape r base qs := by
        intro qs hqs
        have := hleaf ((k, 0) :: qs) ⟨(k, 0), qs, rfl, rfl, hqs⟩
        simpa [pieceShape] using this
      obtain ⟨h1, h2⟩ := ih (key ++ [k]) base hok hleaf'
      refine ⟨h1, fun i hi => ?_⟩
      obtain ⟨c1, c2, c3⟩ := h2 i hi
      refine ⟨⟨(k, 0), decQ r i, rfl, rfl, c1⟩, c2, ?_⟩
      simp only [nest, decQ, decOff, List.map_cons]
      rw [c3]; simp
    | multi ax ext =>
      obtain ⟨hax, hsum, hne, hrest⟩ := hok
      -- every piece
      have hpiece : ∀ q ∈ ext, (nest leaf r (key ++ [q.1])).shape = base.set ax q.2
          ∧ ∀ i, inBox (base.set ax q.2) i = true →
            Choice r (decQ r i) ∧ inBox (pieceShape r (base.set ax q.2) (decQ r i)) (decOff r i) = true
            ∧ (nest leaf r (key ++ [q.1])).get i = (leaf ((key ++ [q.1]) ++ (decQ r i).map (·.1))).get (decOff r i) := by
        intro q hq
        apply ih (key ++ [q.1]) (base.set ax q.2) (hrest q.2)
        intro qs hqs
        have := hleaf (q :: qs) ⟨q, qs, rfl, hq, hqs⟩
        simpa [pieceShape] using this
      have hsizes : (ext.map (fun q => nest leaf r (key ++ [q.1]))).map (fun b => b.shape.getD ax 0) = ext.map (·.2) := by
        rw [List.map_map]
        apply List.map_congr_left
        intro q hq
        simp only [Function.comp, (hpiece q hq).1]
        exact getD_set_self base ax q.2 hax
      obtain ⟨q0, rest, hext⟩ : ∃ q0 rest, ext = q0 :: rest := by
        cases ext with
        | nil => exact absurd rfl hne
        | cons q0 rest => exact ⟨q0, rest, rfl⟩
      have harr : ext.map (fun q => nest leaf r (key ++ [q.1]))
          = nest leaf r (key ++ [q0.1]) :: rest.map (fun q => nest leaf r (key ++ [q.1])) := by
        rw [hext]; rfl
      have hq0 : q0 ∈ ext := by rw [hext]; simp
      have hshape : (nest leaf (.multi ax ext :: r) key).shape = base := by
        show (Blk.concatK (ext.map (fun q => nest leaf r (key ++ [q.1]))) ax).shape = base
        rw [harr, concatK_shape, ← harr, hsizes, (hpiece q0 hq0).1, ← hsum, List.set_set, set_getD_self]
      refine ⟨hshape, fun i hi => ?_⟩
      have hib := (inBox_iff.1 hi).2 ax hax
      rw [hsum] at hib
      obtain ⟨k, o, hloc⟩ := locatePiece_some hib
      obtain ⟨d, hd, hod⟩ := locatePiece_spec hloc
      rw [List.getElem?_map] at hd
      cases hq : ext[k]? with
      | none => rw [hq] at hd; cases hd
      | some q =>
        rw [hq] at hd
        simp only [Option.map_some, Option.some.injEq] at hd
        have hqm : q ∈ ext := getElem?_mem' hq
        have hiq : inBox (base.set ax q.2) (i.set ax o) = true := inBox_set hi hax (by rw [hd]; exact hod)
        obtain ⟨_, hp2⟩ := hpiece q hqm
        obtain ⟨c1, c2, c3⟩ := hp2 (i.set ax o) hiq
        have hdq : decQ (.multi ax ext :: r) i = q :: decQ r (i.set ax o) := by
          simp only [decQ, hloc, hq]
        have hdo : decOff (.multi ax ext :: r) i = decOff r (i.set ax o) := by
          simp only [decOff, hloc]
        rw [hdq, hdo]
        refine ⟨⟨q, _, rfl, hqm, c1⟩, by simpa [pieceShape] using c2, ?_⟩
        show (Blk.concatK (ext.map (fun q => nest leaf r (key ++ [q.1]))) ax).get i = _
        have hget : (Blk.concatK (ext.map (fun q => nest leaf r (key ++ [q.1]))) ax).get i
            = (nest leaf r (key ++ [q.1])).get (i.set ax o) := by
          rw [harr, concatK_get _ _ _ (by
            rw [← harr, hsizes, (hpiece q0 hq0).1, ← hsum, List.set_set, set_getD_self]; exact hi)]
          rw [← harr, hsizes, hloc]
          simp only
          rw [List.getElem?_map, hq]
          rfl
        rw [hget, c3]
        simp

end FuseP
end SymmModel
