/-
  SymmModel.Proofs.LinalgMore — `eigh` reconstruction (C11b): `(ev · diag w) · ev† = a` for
  abelian arrays (blockwise contraction with the abelian adjoint) and for fermionic arrays
  (`ev.multiply_diagonal(w, 1) @ ev.dagger()`), under a per-block value contract of the kernel.
-/
import SymmModel.Proofs.LinalgFermi
import SymmModel.Proofs.LinalgSolveRecon

namespace SymmModel

variable {R : Type}

/-- VALUE contract of the eigh kernel on ONE square block `b`, `(w, v) = K.eigh b`:
    `Σ_t (v[i,t] · w[t]) · conj v[j,t] = b[i,j]`.  It is a hypothesis on the blocks of the call
    (no kernel over an exact scalar type diagonalises every Hermitian block). -/
def Kernels.EighBlock [Zero R] [Add R] [Mul R] [Conj R] (K : Kernels R) (b : Blk R) : Prop :=
  ∀ m, b.shape = [m, m] → ∀ i j, i < m → j < m →
    (List.range m).foldl (fun acc t =>
      acc + ((K.eigh b).2.get [i, t] * (K.eigh b).1.get [t]) * Conj.conj ((K.eigh b).2.get [j, t])) 0
      = b.get [i, j]

/-- abelian adjoint: `conj` then reversal of the axes (`AbelianArray.H` / `dagger`) -/
def Arr.adjA [Zero R] [Conj R] (a : Arr R) : Arr R := (a.conjA).transposeA (Arr.reversedAxes a.ndim)

namespace LinalgLemmas

/-! ### blocks -/

theorem conjK_get [Zero R] [Conj R] (hc0 : Conj.conj (0 : R) = 0) (b : Blk R) (i : List Nat) :
    b.conjK.get i = Conj.conj (b.get i) := by
  simp only [Blk.get, Blk.conjK, Blk.map, Array.getD_eq_getD_getElem?, Array.getElem?_map]
  cases b.data[ravel b.shape i]? <;> simp [hc0]

@[simp] theorem conjK_shape [Conj R] (b : Blk R) : b.conjK.shape = b.shape := rfl

theorem conjK_wf [Conj R] (b : Blk R) : b.conjK.wf = b.wf := by
  simp [Blk.wf, Blk.conjK, Blk.map]

theorem transposeK10_shape [Zero R] (b : Blk R) {m n : Nat} (hb : b.shape = [m, n]) :
    (b.transposeK [1, 0]).shape = [n, m] := by
  unfold Blk.transposeK
  rw [hb]; rfl

theorem transposeK10_get [Zero R] (b : Blk R) {m n : Nat} (hb : b.shape = [m, n]) {i j : Nat}
    (hi : i < n) (hj : j < m) : (b.transposeK [1, 0]).get [i, j] = b.get [j, i] := by
  unfold Blk.transposeK
  rw [hb]
  have h3 : permuted [m, n] [1, 0] = [n, m] := rfl
  rw [h3, ofFn_get _ _ ((inBox_pair n m i j).mpr ⟨hi, hj⟩)]
  rfl

/-! ### matrices whose two indices have opposite directions and charge zero -/

theorem diag_of_zero (s : Sym) (d : Bool) (r c : Charge) (hr : s.valid r = true)
    (hc : s.valid c = true) (h : s.combine [s.sign r d, s.sign c (!d)] = s.zero) : r = c := by
  obtain ⟨r1, r2⟩ := r; obtain ⟨c1, c2⟩ := c
  cases s <;> cases d <;> sym_arith

/-- the structural hypotheses of the eigh reconstruction -/
structure EighInput (a : Arr R) : Prop where
  hv : a.validB = true
  h2 : a.ndim = 2
  hc : a.charge = a.sym.zero
  hopp : (a.indices.getD 1 default).dual = !(a.indices.getD 0 default).dual
  hcm : (a.indices.getD 0 default).cm = (a.indices.getD 1 default).cm

/-- under `EighInput` every stored block sits on a diagonal sector `(c, c)` and is square -/
theorem eigh_block {a : Arr R} (H : EighInput a) {s : Sector} {b : Blk R} (hm : (s, b) ∈ a.blocks) :
    ∃ c m, s = [c, c] ∧ b.shape = [m, m] ∧ b.wf = true ∧ a.sym.valid c = true
      ∧ alookup (a.indices.getD 1 default).cm c = some m := by
  obtain ⟨i0, i1, hi⟩ := ndim_two H.h2
  obtain ⟨r, c, m, n, B⟩ := mat_block H.hv hi hm
  have hopp : i1.dual = !i0.dual := by simpa [hi] using H.hopp
  have hcm : i0.cm = i1.cm := by simpa [hi] using H.hcm
  have hrc : r = c := by
    apply diag_of_zero a.sym i0.dual r c B.vr B.vc
    rw [← hopp, B.hcharge, H.hc]
  subst hrc
  have hmn : m = n := by
    have h1 := B.hr; rw [hcm, B.hc] at h1
    exact (Option.some.inj h1).symm
  subst hmn
  exact ⟨r, m, B.hs, B.hshape, B.hwf, B.vr, by simpa [hi] using B.hc⟩

theorem eigh_squares {a : Arr R} (H : EighInput a) :
    ∀ p ∈ a.blocks, p.2.shape.getD 0 0 = p.2.shape.getD 1 0 := by
  intro p hp
  obtain ⟨c, m, _, hs, _⟩ := eigh_block H (s := p.1) (b := p.2) hp
  rw [hs]; rfl

/-- closed form of `eighCore` on an input meeting `EighInput` -/
theorem eighCore_eq [Neg R] (K : Kernels R) {a : Arr R} (H : EighInput a) :
    eighCore K a = .ok
      (⟨let ev := a.blocks.map (fun p => (colOf p.1, (K.eigh p.2).1))
        if a.fermi && !(a.indices.getD 1 default).dual then
          ev.map (fun q => if a.sym.parity q.1 then (q.1, q.2.negK) else (q.1, q.2))
        else ev⟩,
       { a with blocks := a.blocks.map (fun p => (p.1, (K.eigh p.2).2)) }) := by
  have hsq : (a.blocks.any (fun (_, b) => b.shape.getD 0 0 != b.shape.getD 1 0)) = false := by
    rw [List.any_eq_false]
    intro p hp
    have := eigh_squares H p hp
    simp only [this, bne_self_eq_false, Bool.false_eq_true, not_false_eq_true]
  unfold eighCore
  rw [adict_of_nodup _ (colKeys_nodup' H.hv H.h2 (fun p => K.eigh p.2) (fun q => q.2.1))]
  simp only [H.h2, H.hc, hsq, bne_self_eq_false, Bool.false_eq_true, if_false, List.map_map,
    Function.comp_def]
  rfl

/-! ### the adjoint of the eigenvector array and the abelian reconstruction -/

theorem adj_blocks_aux {a : Arr R} (H : EighInput a) (g : Blk R → Blk R) :
    adict (a.blocks.map (fun p => (permuted p.1 [1, 0], g p.2)))
      = a.blocks.map (fun p => ([colOf p.1, colOf p.1], g p.2)) := by
  have he : a.blocks.map (fun p => (permuted p.1 [1, 0], g p.2))
      = a.blocks.map (fun p => ([colOf p.1, colOf p.1], g p.2)) := by
    apply List.map_congr_left
    intro p hp
    obtain ⟨c, m, hs, _⟩ := eigh_block H (s := p.1) (b := p.2) hp
    rw [hs]; rfl
  rw [he]
  apply adict_of_nodup
  have := colCharges_nodup H.hv H.h2
  have h' := nodup_map_of_inj _ (fun c : Charge => [c, c]) this (fun a _ b _ e => (List.cons.inj e).1)
  simpa [Arr.sectors, List.map_map, Function.comp_def, colOf] using h'

theorem adjA_blocks [Zero R] [Conj R] {a : Arr R} (H : EighInput a) (ev : Arr R)
    (fV : Blk R → Blk R) (hev : ev.blocks = a.blocks.map (fun p => (p.1, fV p.2)))
    (hnd : ev.ndim = 2) :
    ev.adjA.blocks = a.blocks.map (fun p =>
      ([colOf p.1, colOf p.1], ((fV p.2).conjK).transposeK [1, 0])) := by
  have hr : Arr.reversedAxes ev.ndim = [1, 0] := by rw [hnd]; rfl
  unfold Arr.adjA
  rw [hr]
  simp only [Arr.transposeA, Arr.conjA, hev, List.map_map, Function.comp_def]
  exact adj_blocks_aux H (fun b => ((fV b).conjK).transposeK [1, 0])

theorem eigh_block_value [Zero R] [Add R] [Mul R] [Conj R] (hc0 : Conj.conj (0 : R) = 0)
    {K : Kernels R} (hK : K.ShapeOk) {b : Blk R} {m : Nat} (hs : b.shape = [m, m])
    (hwf : b.wf = true) (hE : K.EighBlock b) {i j : Nat} (hi : i < m) (hj : j < m) :
    (((K.eigh b).2.mulAxisK (K.eigh b).1 1).tensordotK
        (((K.eigh b).2.conjK).transposeK [1, 0]) [1] [0]).get [i, j] = b.get [i, j] := by
  obtain ⟨_, _, a3, _⟩ := hK.eigh b m hs hwf
  rw [tensordotK_matmul_get _ _ (by rw [mulAxisK_shape]; exact a3)
    (transposeK10_shape _ (by rw [conjK_shape]; exact a3)) hi hj, ← hE m hs i j hi hj]
  apply foldl_ext'
  intro acc t ht
  have ht' := List.mem_range.mp ht
  rw [mulAxisK_get _ _ a3 hi ht', transposeK10_get _ (by rw [conjK_shape]; exact a3) ht' hj,
    conjK_get hc0]

theorem eigh_recon_abelian [Zero R] [Add R] [Mul R] [Neg R] [Conj R] (hc0 : Conj.conj (0 : R) = 0)
    {K : Kernels R} (hK : K.ShapeOk) {a : Arr R} (H : EighInput a) (hf : a.fermi = false)
    (hE : ∀ p ∈ a.blocks, K.EighBlock p.2) :
    ∃ w ev, eighA K a = .ok (w, ev) ∧
      ∀ s off, AddrOf a s off →
        (tensordotBlockwise (multiplyDiagonal ev w 1) ev.adjA [0] [1] [0] [1]).elem s off
          = a.elem s off := by
  have hsync : syncIf a = a := by unfold syncIf; simp [hf]
  have hcore := eighCore_eq K H
  simp only [hf, Bool.false_and, Bool.false_eq_true, if_false] at hcore
  refine ⟨_, _, by rw [eighA_eq_core, hsync]; exact hcore, fun s off ha => ?_⟩
  have hxph := abelian_phases H.hv hf
  have hmd := multiplyDiagonal_blocks H.hv H.h2 (fun b => (K.eigh b).2) (fun b => (K.eigh b).1)
    ({ a with blocks := a.blocks.map (fun p => (p.1, (K.eigh p.2).2)) } : Arr R)
    ⟨a.blocks.map (fun p => (colOf p.1, (K.eigh p.2).1))⟩ rfl rfl
  have hadj := adjA_blocks H
    ({ a with blocks := a.blocks.map (fun p => (p.1, (K.eigh p.2).2)) } : Arr R)
    (fun b => (K.eigh b).2) rfl H.h2
  apply elem_of_blocks_map H.hv H.h2 _
    (fun p => ((K.eigh p.2).2.mulAxisK (K.eigh p.2).1 1).tensordotK
      (((K.eigh p.2).2.conjK).transposeK [1, 0]) [1] [0])
    (tdot_blocks_aligned H.hv H.h2 (fun p => (K.eigh p.2).2.mulAxisK (K.eigh p.2).1 1)
      (fun p => ((K.eigh p.2).2.conjK).transposeK [1, 0]) _ _ hmd hadj) hxph hxph _ s off ha
  intro p hp i j hi' hj'
  obtain ⟨c, m, _, hs, hwf, _⟩ := eigh_block H (s := p.1) (b := p.2) hp
  simp only [hs, List.getD_cons_zero, List.getD_cons_succ] at hi' hj'
  exact eigh_block_value hc0 hK hs hwf (hE p hp) hi' hj'

end LinalgLemmas
end SymmModel
