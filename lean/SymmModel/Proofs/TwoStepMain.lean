/-
  SymmModel.Proofs.TwoStepMain — "several pairs at once or one after another" (C04), VALUES:
  `tensordotF` over `xa ~ xb` followed by the single-array `einsumF` that traces the images of
  `ya ~ yb` gives, at every address, the value of `tensordotF` over `xa ++ ya ~ xb ++ yb`.
  Namespace `SymmModel.TwoStepP`.
-/
import SymmModel.Proofs.TwoStepSec
import SymmModel.Proofs.TwoStepSign

namespace SymmModel
namespace TwoStepP
open TdotP GradedP RoutesP AssocP KoszulP Assoc3P
open Lazy (sgnI einOrder einOperand transposedElem)
set_option linter.unusedSectionVars false

variable {R : Type} [AddCommMonoid R] [Mul R] [Neg R] [SignRing R]

section main
variable (a b : Arr R) (xa xb ya yb : List Nat)

local notation "NN" => tsN a.ndim b.ndim xa xb
local notation "LHS" => tsLhs a.ndim b.ndim xa xb ya yb
local notation "RHS" => tsRhs a.ndim b.ndim xa xb ya yb
local notation "ORD" => tsOrder a b.ndim xa xb ya yb
local notation "LHS'" => (dblFront (tsN a.ndim b.ndim xa xb) ya.length ++ tsRhs a.ndim b.ndim xa xb ya yb)
set_option quotPrecheck false in
local notation "PERM2" => ((List.range (tsRhs a.ndim b.ndim xa xb ya yb).length).map (2 * ya.length + ·))
local notation "FA" => freeAxes a.ndim xa
local notation "FB" => freeAxes b.ndim xb
local notation "FA'" => freeAxes a.ndim (xa ++ ya)
local notation "FB'" => freeAxes b.ndim (xb ++ yb)

variable {a b xa xb ya yb}
variable {c : Arr R} {ph : Int}

/-- the hypotheses shared by the lemmas below -/
structure Ctx (a b c : Arr R) (xa xb ya yb : List Nat) (ph : Int) : Prop where
  W1 : AdmW a b xa xb
  W2 : AdmW a b (xa ++ ya) (xb ++ yb)
  I : Inter a b xa xb c ph

namespace Ctx
variable (C : Ctx a b c xa xb ya yb ph)
include C

theorem hA : Mid a.ndim xa ya := Mid.of C.W2.nA C.W2.ltA
theorem hB : Mid b.ndim xb yb := Mid.of C.W2.nB C.W2.ltB
theorem hlx : xa.length = xb.length := C.W1.len
theorem hly : ya.length = yb.length := by
  have := C.W2.len; rw [List.length_append, List.length_append] at this; have := C.hlx; omega

theorem ordPerm : (ORD).Perm (List.range NN) :=
  tsOrder_permH a b.ndim xa xb ya yb C.W2.nA C.W2.ltA C.W2.nB C.W2.ltB C.hly

theorem ordEq : einOrder c LHS RHS = ORD :=
  einOrder_eq_tsOrder a c b.ndim xa xb ya yb C.W2.nA C.W2.ltA C.W2.nB C.W2.ltB C.hly C.I.ndim
    (dual_PA C.I C.hA)
    (fun i hi => by rw [dual_PB C.I C.hB i (C.hly ▸ hi), dual_y C.W2 C.hlx i hi])

theorem lhsEq : permuted LHS (einOrder c LHS RHS) = LHS' := by
  rw [C.ordEq]
  exact permuted_tsLhs_tsOrder a b.ndim xa xb ya yb C.W2.nA C.W2.ltA C.W2.nB C.W2.ltB C.hly

theorem rhsLen : 2 * ya.length + (RHS).length = NN :=
  tsRhs_length a b.ndim xa xb ya yb C.W2.nA C.W2.ltA C.W2.nB C.W2.ltB C.hly

theorem ordLt (n : Nat) (hn : n = NN) : ∀ i ∈ ORD, i < n := by
  subst hn; exact perm_range_mem_lt C.ordPerm

theorem ordLen : (ORD).length = NN := by simpa using C.ordPerm.length_eq

theorem permOrd2 : permuted ORD PERM2 = RHS := by
  have h := permuted_shift_range ORD (2 * ya.length) (by rw [C.ordLen, ← C.rhsLen]; omega)
  have e : (ORD).length - 2 * ya.length = (RHS).length := by rw [C.ordLen, ← C.rhsLen]; omega
  rw [e, tsOrder_drop] at h
  exact h

theorem opIdx : (einOperand c LHS RHS).indices = permuted c.indices ORD := by
  show (c.transposeF (einOrder c LHS RHS)).indices = _
  rw [(Lazy.transposeF_frame c _).2.2.1, C.ordEq]

/-! #### a stored sector pair aligned on the first pairs -/

variable {sa sb : Sector} (hsa : sa ∈ a.sectors) (hsb : sb ∈ b.sectors)
include hsa hsb

theorem lenA : sa.length = a.ndim := (shape_of_mem (Arr.shapesOk_of_validB C.W1.va) hsa).choose_spec.2.2.2
theorem lenB : sb.length = b.ndim := (shape_of_mem (Arr.shapesOk_of_validB C.W1.vb) hsb).choose_spec.2.2.2

theorem lenS : (permuted sa FA ++ permuted sb FB).length = NN := by
  rw [List.length_append, TdotP.permuted_length _ _ (by rw [C.lenA hsa hsb]; exact C.hA.flt),
    TdotP.permuted_length _ _ (by rw [C.lenB hsa hsb]; exact C.hB.flt)]
  rfl

theorem alignIff : permuted sb (xb ++ yb) = permuted sa (xa ++ ya)
    ↔ permuted sb xb = permuted sa xa ∧ permuted sb yb = permuted sa ya :=
  aligned_split sa sb xa ya xb yb (by rw [C.lenA hsa hsb]; exact C.W1.ltA)
    (by rw [C.lenB hsa hsb]; exact C.W1.ltB) C.hlx

/-- the trace test of the einsum = alignment on the remaining pairs -/
theorem keepIff : einKeep LHS' RHS (permuted (permuted sa FA ++ permuted sb FB) ORD) = true
    ↔ permuted sb yb = permuted sa ya := by
  rw [einKeep_tsOrder a b.ndim xa xb ya yb _ C.W2.nA C.W2.ltA C.W2.nB C.W2.ltB C.hly (C.lenS hsa hsb),
    permuted_tsPA C.hA sa _ (C.lenA hsa hsb),
    permuted_tsPB C.hB _ sb (TdotP.permuted_length _ _ (by rw [C.lenA hsa hsb]; exact C.hA.flt))
      (C.lenB hsa hsb)]
  exact eq_comm

/-- the kept part of the intermediate sector -/
theorem keptPart : permuted (permuted (permuted sa FA ++ permuted sb FB) ORD) PERM2
    = permuted sa FA' ++ permuted sb FB' := by
  rw [KoszulP.permuted_permuted _ _ _ (C.ordLt _ (C.lenS hsa hsb))]
  unfold compose
  rw [C.permOrd2, permuted_tsRhs C.hA C.hB sa sb (C.lenA hsa hsb) (C.lenB hsa hsb)]

variable (hal : permuted sb (xb ++ yb) = permuted sa (xa ++ ya))
include hal

theorem alX : permuted sb xb = permuted sa xa := ((C.alignIff hsa hsb).mp hal).1

/-- block shape of the operand of the abelian einsum -/
theorem opShape :
    Arr.blockShapeD (einOperand c LHS RHS).indices (permuted (permuted sa FA ++ permuted sb FB) ORD)
      = dbl (permuted (Arr.blockShapeD a.indices sa) ya) ya.length
        ++ (permuted (Arr.blockShapeD a.indices sa) FA' ++ permuted (Arr.blockShapeD b.indices sb) FB') := by
  have h := C.I.shape (Arr.shapesOk_of_validB C.W1.va) (Arr.shapesOk_of_validB C.W1.vb) hsa hsb
    (C.alX hsa hsb hal)
  have h' := blockShape?_permuted h ORD (C.ordLt _ C.I.ndim)
  rw [C.opIdx, Arr.blockShapeD, h', (shape_ord C.W2 C.hlx C.hly hsa hsb hal).2.2]
  rfl

theorem outShape :
    Arr.blockShapeD (without a.indices (xa ++ ya) ++ without b.indices (xb ++ yb))
        (permuted sa FA' ++ permuted sb FB')
      = permuted (Arr.blockShapeD a.indices sa) FA' ++ permuted (Arr.blockShapeD b.indices sb) FB' := by
  obtain ⟨shpA, hA1, hA2, _, _⟩ := shape_of_mem (Arr.shapesOk_of_validB C.W1.va) hsa
  obtain ⟨shpB, hB1, hB2, _, _⟩ := shape_of_mem (Arr.shapesOk_of_validB C.W1.vb) hsb
  have e := blockShape?_append
    (blockShape?_permuted hA1 FA' (fun x hx => (mem_freeAxes.mp hx).1))
    (blockShape?_permuted hB1 FB' (fun x hx => (mem_freeAxes.mp hx).1))
  rw [Arr.blockShapeD, without_eq_permuted_freeAxes, without_eq_permuted_freeAxes, hA2, hB2]
  show (Arr.blockShape? (permuted a.indices FA' ++ permuted b.indices FB')
    (permuted sa FA' ++ permuted sb FB')).getD [] = _
  rw [e]
  rfl

/-- the box of the traced offsets -/
theorem tracedBox :
    (einTraced LHS' RHS).map (einSize (Arr.blockShapeD (einOperand c LHS RHS).indices
        (permuted (permuted sa FA ++ permuted sb FB) ORD)) LHS')
      = permuted (Arr.blockShapeD a.indices sa) ya := by
  rw [einSize_traced_canon (tsRhs_lt _ _ _ _ _ _), C.opShape hsa hsb hal]
  have hV := (shape_ord C.W2 C.hlx C.hly hsa hsb hal).2.1
  conv => rhs; rw [list_eq_map_getD (permuted (Arr.blockShapeD a.indices sa) ya), hV]
  apply List.map_congr_left
  intro i hi
  have hi := List.mem_range.mp hi
  rw [List.getD_eq_getElem?_getD, List.getElem?_append_left (by rw [dbl_length]; omega),
    ← List.getD_eq_getElem?_getD, dbl_getD _ _ _ (by omega)]
  congr 1; omega

/-- the box of the output offsets -/
theorem outBox :
    (RHS).map (einSize (Arr.blockShapeD (einOperand c LHS RHS).indices
        (permuted (permuted sa FA ++ permuted sb FB) ORD)) LHS')
      = Arr.blockShapeD (without a.indices (xa ++ ya) ++ without b.indices (xb ++ yb))
          (permuted sa FA' ++ permuted sb FB') := by
  have hl : (permuted (Arr.blockShapeD a.indices sa) FA' ++ permuted (Arr.blockShapeD b.indices sb) FB').length
      = (RHS).length := by
    have h1 := (shape_ord C.W2 C.hlx C.hly hsa hsb hal).1
    have h2 := congrArg List.length (shape_ord C.W2 C.hlx C.hly hsa hsb hal).2.2
    rw [KoszulP.length_permuted _ _ (C.ordLt _ h1), C.ordLen, List.length_append, dbl_length] at h2
    have := C.rhsLen
    omega
  rw [einSize_rhs_canon_drop (tsRhs_lt _ _ _ _ _ _) (tsRhs_nodup _ _ _ _ _ _) _ (by
      rw [C.opShape hsa hsb hal, List.length_append, dbl_length, hl]),
    C.opShape hsa hsb hal, C.outShape hsa hsb hal,
    List.drop_left' (dbl_length _ _)]

/-- **one term of the einsum**: the transposed value at the einsum offset is the graded contraction
    over the first pairs at the assembled offset -/
theorem term (t fL fR : List Nat)
    (ht : t ∈ allIdx (permuted (Arr.blockShapeD a.indices sa) ya))
    (hfL : fL.length = (FA').length)
    (hbox : inBox (Arr.blockShapeD (without a.indices (xa ++ ya) ++ without b.indices (xb ++ yb))
      (permuted sa FA' ++ permuted sb FB')) (fL ++ fR) = true) :
    transposedElem c ORD (permuted sa FA ++ permuted sb FB) (einIdx LHS' RHS (fL ++ fR) t)
      = sgnI ph (gradedContract a b xa xb (permuted sa FA ++ permuted sb FB)
          (asmSide FA ya FA' t fL) (asmSide FB yb FB' t fR)) := by
  have hsA := Arr.shapesOk_of_validB C.W1.va
  have hsB := Arr.shapesOk_of_validB C.W1.vb
  obtain ⟨hZ, hV, hZo⟩ := shape_ord C.W2 C.hlx C.hly hsa hsb hal
  have htb : inBox (permuted (Arr.blockShapeD a.indices sa) ya) t = true := mem_allIdx_iff.mp ht
  have htl : t.length = ya.length := by rw [inBox_length htb, hV]
  rw [C.outShape hsa hsb hal] at hbox
  have hfLR : (fL ++ fR).length = (RHS).length := by
    rw [inBox_length hbox]
    have h2 := congrArg List.length hZo
    rw [KoszulP.length_permuted _ _ (C.ordLt _ hZ), C.ordLen, List.length_append, dbl_length] at h2
    have := C.rhsLen
    omega
  have hfR : fR.length = (FB').length := by
    have h1 := inBox_length hbox
    rw [List.length_append, List.length_append,
      TdotP.permuted_length _ _ (by
        rw [(shape_of_mem hsA hsa).choose_spec.2.1, (shape_of_mem hsA hsa).choose_spec.2.2.1]
        intro x hx; exact (mem_freeAxes.mp hx).1),
      TdotP.permuted_length _ _ (by
        rw [(shape_of_mem hsB hsb).choose_spec.2.1, (shape_of_mem hsB hsb).choose_spec.2.2.1]
        intro x hx; exact (mem_freeAxes.mp hx).1)] at h1
    omega
  obtain ⟨hml, hmo⟩ := asm_ord a C.W2.nA C.W2.ltA C.W2.nB C.W2.ltB C.hly t fL fR htl hfL hfR
  -- the einsum offset
  have hidx : einIdx LHS' RHS (fL ++ fR) t = dbl t ya.length ++ (fL ++ fR) :=
    einIdx_canon (tsRhs_lt _ _ _ _ _ _) (tsRhs_nodup _ _ _ _ _ _) (fL ++ fR) t hfLR
  -- boxes
  have hboxO : inBox (permuted (permuted (Arr.blockShapeD a.indices sa) FA
        ++ permuted (Arr.blockShapeD b.indices sb) FB) ORD) (dbl t ya.length ++ (fL ++ fR)) = true := by
    rw [hZo, TdotP.inBox_append (by rw [dbl_length, dbl_length]), inBox_dbl _ _ _ hV htb, hbox]
    rfl
  have hboxM : inBox (permuted (Arr.blockShapeD a.indices sa) FA
        ++ permuted (Arr.blockShapeD b.indices sb) FB)
      (asmSide FA ya FA' t fL ++ asmSide FB yb FB' t fR) = true :=
    inBox_of_permuted _ _ ORD NN C.ordPerm hZ hml (by rw [hmo]; exact hboxO)
  -- the stored block
  have hcs := C.I.shape hsA hsB hsa hsb (C.alX hsa hsb hal)
  have hmem : (permuted sa FA ++ permuted sb FB) ∈ c.sectors :=
    C.I.mem_sectors.mpr ⟨sa, hsa, sb, hsb, C.alX hsa hsb hal, rfl⟩
  obtain ⟨p, hp, hp1⟩ := List.mem_map.mp hmem
  have hlk : alookup c.blocks (permuted sa FA ++ permuted sb FB) = some p.2 := by
    rw [← hp1]
    exact alookup_of_mem (Arr.allDistinct_of_validB C.I.valid) hp
  have hshp : p.2.shape = permuted (Arr.blockShapeD a.indices sa) FA
      ++ permuted (Arr.blockShapeD b.indices sb) FB := by
    have := Arr.shapesOk_of_validB C.I.valid p hp
    rw [hp1, hcs] at this
    exact (Option.some.inj this).symm
  rw [hidx, Lazy.transposedElem_inBox c ORD _ p.2 hlk _ (by rw [hshp]; exact hboxO), hshp, hZ]
  have hsrc : Lazy.srcIdx NN ORD (dbl t ya.length ++ (fL ++ fR))
      = asmSide FA ya FA' t fL ++ asmSide FB yb FB' t fR := by
    apply KoszulP.permuted_injective _ _ ORD NN C.ordPerm (by simp [Lazy.srcIdx]) hml
    rw [permuted_srcIdx NN ORD _ C.ordPerm (by
      rw [List.length_append, dbl_length, hfLR]; exact C.rhsLen), hmo]
  rw [hsrc]
  exact C.I.elem _ _ _ (asmSide_length _ _ _ _ _) (by
    rw [Arr.blockShapeD, C.I.shapeU hsA hsB hsa hsb (C.alX hsa hsb hal)]; exact hboxM)

end Ctx

end main

end TwoStepP
end SymmModel
