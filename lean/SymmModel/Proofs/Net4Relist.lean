/-
  SymmModel.Proofs.Net4Relist — S4 of property C04 (order in which the contracted axis pairs are
  listed) under the WEAK guard `contractibleCommonB`, i.e. applicable to intermediate results of a
  network contraction.  Same statement and proof as `RoutesP.tdotF_axes_perm_eq` with `Adm` replaced
  by `AdmW`.  Namespace `SymmModel.Net4P`.
-/
import SymmModel.Proofs.Assoc5Swap

namespace SymmModel
namespace Net4P
open TdotP GradedP RoutesP KoszulP AssocP Assoc3P
set_option linter.unusedSectionVars false

variable {R : Type}

theorem commonB_relist {a b : Arr R} {xa xb π : List Nat}
    (hc : contractibleCommonB a b xa xb = true) (hπ : π.Perm (List.range xa.length)) :
    contractibleCommonB a b (permuted xa π) (permuted xb π) = true := by
  have hlen := commonB_len hc
  have hπb : π.Perm (List.range xb.length) := hlen ▸ hπ
  unfold contractibleCommonB at hc ⊢
  simp only [Bool.and_eq_true, beq_iff_eq, List.all_eq_true] at hc ⊢
  refine ⟨by rw [permuted_length_perm xa π hπ, permuted_length_perm xb π hπb, hlen], ?_⟩
  intro p hp
  apply hc.2 p
  obtain ⟨j, hj, rfl⟩ := List.mem_iff_getElem.mp hp
  simp only [List.length_zip] at hj
  have hj1 : j < (permuted xa π).length := by omega
  have hj2 : j < (permuted xb π).length := by omega
  rw [List.getElem_zip]
  have hπlt := mem_lt_of_perm hπ
  have hjπ : j < π.length := by rw [permuted_length_perm xa π hπ] at hj1; rw [hπ.length_eq]; simpa using hj1
  have hi : π[j] < xa.length := hπlt _ (List.getElem_mem hjπ)
  have e1 : (permuted xa π)[j] = xa[π[j]] := by
    have := permuted_getElem? xa π hπlt j
    rw [List.getElem?_eq_getElem hj1, List.getElem?_eq_getElem hjπ] at this
    simp only [Option.bind_some, List.getElem?_eq_getElem hi] at this
    exact Option.some.inj this
  have e2 : (permuted xb π)[j] = xb[π[j]]'(hlen ▸ hi) := by
    have := permuted_getElem? xb π (mem_lt_of_perm hπb) j
    rw [List.getElem?_eq_getElem hj2, List.getElem?_eq_getElem hjπ] at this
    simp only [Option.bind_some, List.getElem?_eq_getElem (hlen ▸ hi)] at this
    exact Option.some.inj this
  rw [e1, e2, List.mem_iff_getElem]
  exact ⟨π[j], by simp only [List.length_zip]; omega, by rw [List.getElem_zip]⟩

/-! ### every permutation of a list is a re-listing along a permutation of positions -/

theorem permuted_map {α β : Type} (f : α → β) (l : List α) (π : List Nat) :
    (permuted l π).map f = permuted (l.map f) π := by
  unfold permuted
  rw [List.map_filterMap]
  congr 1
  funext p
  simp [List.getElem?_map]

theorem exists_relist {α : Type} {l' l : List α} (h : l'.Perm l) :
    ∃ π, π.Perm (List.range l.length) ∧ permuted l π = l' := by
  induction h with
  | nil => exact ⟨[], by simp, rfl⟩
  | @cons a l1 l2 _ ih =>
    obtain ⟨π, hπ, e⟩ := ih
    refine ⟨0 :: π.map (· + 1), ?_, ?_⟩
    · rw [List.length_cons, List.range_succ_eq_map]
      exact (hπ.map _).cons 0
    · unfold permuted at e ⊢
      simp only [List.filterMap_cons, List.getElem?_cons_zero, List.filterMap_map]
      congr 1
  | swap a b l =>
    refine ⟨1 :: 0 :: (List.range l.length).map (· + 2), ?_, ?_⟩
    · simp only [List.length_cons, List.range_succ_eq_map, List.map_cons, List.map_map]
      refine (List.Perm.swap _ _ _).trans ?_
      simp [Function.comp_def]
    · have := ValidP.permuted_range l
      unfold permuted at this ⊢
      simp only [List.filterMap_cons, List.filterMap_map]
      simp only [List.getElem?_cons_succ, List.getElem?_cons_zero]
      congr 2
  | @trans l1 l2 l3 h1 h2 ih1 ih2 =>
    obtain ⟨π1, hπ1, e1⟩ := ih1
    obtain ⟨π2, hπ2, e2⟩ := ih2
    have hl : l2.length = π2.length := by rw [hπ2.length_eq, List.length_range]; exact h2.length_eq
    refine ⟨permuted π2 π1, ?_, ?_⟩
    · exact (permuted_perm π2 π1 (hl ▸ hπ1)).trans hπ2
    · rw [permuted_permuted_ax l3 π2 π1 (mem_lt_of_perm hπ2), e2, e1]

section
variable [AddCommMonoid R] [Mul R] [Neg R] [SignRing R]

theorem AdmW.relist {a b : Arr R} {xa xb π : List Nat} (h : AdmW a b xa xb)
    (hπ : π.Perm (List.range xa.length)) : AdmW a b (permuted xa π) (permuted xb π) := by
  have hπb : π.Perm (List.range xb.length) := h.len ▸ hπ
  exact ⟨h.va, h.vb, h.fa, h.fb, h.sym, commonB_relist h.con hπ,
    (relist_ok h.nA h.ltA hπ).1, (relist_ok h.nB h.ltB hπb).1,
    (relist_ok h.nA h.ltA hπ).2.1, (relist_ok h.nB h.ltB hπb).2.1⟩

/-- **S4 under the weak guard.**  Listing the contracted axis pairs in another order gives the
    IDENTICAL result. -/
theorem tdotF_axes_perm_w (a b : Arr R) (xa xb π : List Nat) (h : AdmW a b xa xb)
    (hπ : π.Perm (List.range xa.length)) :
    tdF a b (permuted xa π) (permuted xb π) = tdF a b xa xb := by
  have h' := AdmW.relist h hπ
  have hsa := Arr.shapesOk_of_validB h.va
  have hsb := Arr.shapesOk_of_validB h.vb
  unfold tdF
  rw [tensordotF_eq_core_w a b _ _ h', tensordotF_eq_core_w a b xa xb h]
  congr 2
  exact coreFrame_unique a b xa xb _ _ _ _ hsa hsb (coreT_frame_w a b xa xb h) (coreT_frame_w a b _ _ h')
    (relist_ok h.nA h.ltA hπ).2.2.2 (relist_ok h.nB h.ltB (h.len ▸ hπ)).2.2.2
    (tdKeys_relist a b xa xb π hsa hsb h.nA h.ltA h.nB h.ltB h.len hπ)
    (fun s oL oR => gradedContract_relist a b xa xb π h.sym hsa hsb h.nA h.ltA h.nB h.ltB h.len hπ s oL oR)

/-- S4 for two listings `x1 ++ x2` and `x2 ++ x1` (and, by iteration, any block order) -/
theorem tdotF_axes_comm_w (a b : Arr R) (x1 x2 y1 y2 : List Nat) (hl : x1.length = y1.length)
    (h : AdmW a b (x1 ++ x2) (y1 ++ y2)) :
    tdF a b (x2 ++ x1) (y2 ++ y1) = tdF a b (x1 ++ x2) (y1 ++ y2) := by
  have hl2 : x2.length = y2.length := by
    have := h.len
    rw [List.length_append, List.length_append] at this
    omega
  have key := tdotF_axes_perm_w a b (x1 ++ x2) (y1 ++ y2)
    ((List.range x2.length).map (x1.length + ·) ++ List.range x1.length) h (by
      rw [List.length_append, List.range_add]
      exact List.perm_append_comm)
  have e1 := Assoc5P.permuted_rotB x1 x2
  have e2 := Assoc5P.permuted_rotB y1 y2
  unfold Assoc5P.rotB at e1 e2
  rw [← hl, ← hl2] at e2
  rw [e1, e2] at key
  exact key

/-- **S4, general form**: any two listings of the same set of axis PAIRS give the identical
    result -/
theorem tdotF_axes_pairs_w (a b : Arr R) (xa xb xa' xb' : List Nat) (h : AdmW a b xa xb)
    (hl : xa'.length = xb'.length) (hp : (xa'.zip xb').Perm (xa.zip xb)) :
    tdF a b xa' xb' = tdF a b xa xb := by
  obtain ⟨π, hπ, e⟩ := exists_relist hp
  have hlen := h.len
  rw [List.length_zip, ← hlen, Nat.min_self] at hπ
  have e1 : permuted xa π = xa' := by
    have := congrArg (List.map Prod.fst) e
    rw [permuted_map, List.map_fst_zip (by omega), List.map_fst_zip (by omega)] at this
    exact this
  have e2 : permuted xb π = xb' := by
    have := congrArg (List.map Prod.snd) e
    rw [permuted_map, List.map_snd_zip (by omega), List.map_snd_zip (by omega)] at this
    exact this
  rw [← e1, ← e2]
  exact tdotF_axes_perm_w a b xa xb π h hπ

/-- S4 for exchanging the two middle blocks of a four-block listing -/
theorem tdotF_axes_mid_w (a b : Arr R) (u1 u2 u3 u4 v1 v2 v3 v4 : List Nat)
    (l1 : u1.length = v1.length) (l2 : u2.length = v2.length) (l3 : u3.length = v3.length)
    (l4 : u4.length = v4.length)
    (h : AdmW a b (u1 ++ (u2 ++ (u3 ++ u4))) (v1 ++ (v2 ++ (v3 ++ v4)))) :
    tdF a b (u1 ++ (u3 ++ (u2 ++ u4))) (v1 ++ (v3 ++ (v2 ++ v4)))
      = tdF a b (u1 ++ (u2 ++ (u3 ++ u4))) (v1 ++ (v2 ++ (v3 ++ v4))) := by
  apply tdotF_axes_pairs_w a b _ _ _ _ h
  · simp only [List.length_append]; omega
  · rw [List.zip_append l1, List.zip_append l3, List.zip_append l2, List.zip_append l1,
      List.zip_append l2, List.zip_append l3]
    refine List.Perm.append_left _ ?_
    rw [← List.append_assoc, ← List.append_assoc]
    exact List.Perm.append_right _ List.perm_append_comm

end

end Net4P
end SymmModel
