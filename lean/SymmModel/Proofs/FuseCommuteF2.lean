/-
  SymmModel.Proofs.FuseCommuteF2 — C06, first clause, fermionic: a group of ADJACENT legs IN ORDER
  (`AdjOk`: the permutation of `_fuse_core` is the identity).  The operand of `_fuse_core` inside
  `FermionicArray.fuse` is then the array itself with every sector multiplied by the fuse sign,
  and the fuse sign is explicit: for a dual group `(-1)^(odd non-dual legs) · (-1)^(m(m-1)/2)`,
  `m` = number of odd charges of the group; `+1` for a non-dual group.
  Namespace `SymmModel.TdotP`.
-/
import SymmModel.Proofs.FuseCommuteF1

namespace SymmModel
namespace TdotP
open SymmModel.KoszulP SymmModel.Lazy SymmModel.GradedP
variable {R : Type}
set_option linter.unusedSectionVars false

/-- a non-empty group of distinct axes whose `_fuse_core` permutation `before ++ g ++ after` is the
    identity: the legs of `g` are adjacent and in increasing order -/
structure AdjOk (X : Arr R) (g : List Nat) : Prop where
  one : OneOk X g
  idp : (FuseP.giM X [g]).perm = List.range X.ndim

/-- consecutive axes `p, p+1, …, p+k-1` form such a group -/
theorem adjOk_consecutive (X : Arr R) (p k : Nat) (hk : 1 ≤ k) (hpk : p + k ≤ X.ndim) :
    AdjOk X ((List.range k).map (fun j => p + j)) := by
  have hone : OneOk X ((List.range k).map (fun j => p + j)) := by
    refine ⟨?_, ?_, ?_⟩
    · intro e
      have := congrArg List.length e
      simp at this; omega
    · exact (List.nodup_range).map_on (by intro x _ y _ e; omega)
    · intro x hx
      obtain ⟨j, hj, rfl⟩ := List.mem_map.mp hx
      have := List.mem_range.mp hj; omega
  refine ⟨hone, ?_⟩
  generalize hg : (List.range k).map (fun j => p + j) = g at hone ⊢
  have hperm := one_perm hone
  have hpp := one_perm_perm hone
  have hfree := one_free hone
  -- the position is `p`
  have hP : (FuseP.giM X [g]).position = p := by
    have h1 := one_pos_mem hone
    have h2 := one_pos_le hone (p + 0) (by rw [← hg]; exact List.mem_map.mpr ⟨0, List.mem_range.mpr (by omega), rfl⟩)
    generalize (FuseP.giM X [g]).position = P at h1 h2 ⊢
    rw [← hg] at h1
    obtain ⟨j, _, hj⟩ := List.mem_map.mp h1
    omega
  -- sorted permutation of `range n` is `range n`
  have hsorted : (FuseP.giM X [g]).perm.Pairwise (· < ·) := by
    rw [hperm, hP]
    have hfs : (freeAxes X.ndim g).Pairwise (· < ·) := by
      unfold freeAxes; exact List.Pairwise.filter _ List.pairwise_lt_range
    rw [hfree, hP] at hfs
    have hafter := (List.pairwise_append.mp hfs).2.1
    have hga : ∀ x ∈ (FuseP.giM X [g]).axesAfter, p + k ≤ x := by
      intro x hx
      have hxf : x ∈ freeAxes X.ndim g := by rw [hfree]; exact List.mem_append_right _ hx
      have hng : x ∉ g := by
        unfold freeAxes at hxf
        have := (List.mem_filter.mp hxf).2
        simpa using this
      have hpx : p ≤ x := by
        by_cases hp0 : p = 0
        · omega
        · have := (List.pairwise_append.mp hfs).2.2 (p - 1) (List.mem_range.mpr (by omega)) x hx
          omega
      by_cases hlt : x < p + k
      · exfalso; apply hng; rw [← hg]
        exact List.mem_map.mpr ⟨x - p, List.mem_range.mpr (by omega), by omega⟩
      · omega
    rw [List.append_assoc, List.pairwise_append]
    refine ⟨List.pairwise_lt_range, ?_, ?_⟩
    · rw [List.pairwise_append]
      refine ⟨?_, hafter, ?_⟩
      · rw [← hg, List.pairwise_map]
        exact List.Pairwise.imp (by intro a b h; omega) List.pairwise_lt_range
      · intro x hx y hy
        rw [← hg] at hx
        obtain ⟨j, hj, rfl⟩ := List.mem_map.mp hx
        have := List.mem_range.mp hj
        have := hga y hy; omega
    · intro x hx y hy
      have := List.mem_range.mp hx
      rcases List.mem_append.mp hy with hy | hy
      · rw [← hg] at hy
        obtain ⟨j, _, rfl⟩ := List.mem_map.mp hy; omega
      · have := hga y hy; omega
  exact List.Perm.eq_of_pairwise (le := (· < ·)) (by intro a b _ _ h1 h2; omega) hsorted
    List.pairwise_lt_range hpp

section Adj
variable [Zero R] [Neg R] {X : Arr R} {g : List Nat}

theorem adj_newGroupsF (h : AdjOk X g) : FuseP.newGroupsF [g] X.duals = [g] := by
  unfold FuseP.newGroupsF
  simp only [List.map_cons, List.map_nil, List.cons.injEq, and_true]
  have hp : (calcFuseGroupInfo [g] X.duals).perm = List.range X.ndim := h.idp
  rw [hp]
  conv_rhs => rw [← List.map_id g]
  apply List.map_congr_left
  intro ax hax
  rw [Norm.indexOf?_range X.ndim ax (h.one.lt ax hax)]
  rfl

theorem adj_trIndices (h : AdjOk X g) :
    (X.transposeF (calcFuseGroupInfo [g] X.duals).perm).indices = X.indices := by
  have hp : (calcFuseGroupInfo [g] X.duals).perm = List.range X.ndim := h.idp
  rw [(Lazy.transposeF_frame X _).2.2.1, hp]
  exact Lazy.permuted_range X.indices

theorem adj_dualGroupsF (h : AdjOk X g) :
    FuseP.dualGroupsF X [g] = if (X.indices.getD (g.headD 0) default).dual then [g] else [] := by
  unfold FuseP.dualGroupsF
  rw [adj_newGroupsF h, adj_trIndices h]
  simp only [List.filter_cons, List.filter_nil]

theorem adj_axesFlipF (h : AdjOk X g) :
    FuseP.axesFlipF X [g]
      = if (X.indices.getD (g.headD 0) default).dual
        then g.filter (fun ax => !(X.indices.getD ax default).dual) else [] := by
  unfold FuseP.axesFlipF
  rw [adj_dualGroupsF h, adj_trIndices h]
  split <;> simp

/-- **the fermionic fuse sign of a group of adjacent legs in order** -/
theorem adj_fuseSignT (h : AdjOk X g) (S : Sector) :
    FuseP.fuseSignT X [g] S
      = if (X.indices.getD (g.headD 0) default).dual
        then sgn (ketOdd X g S)
          * sgn (oddCount (S.map X.sym.parity) g * (oddCount (S.map X.sym.parity) g - 1) / 2)
        else 1 := by
  unfold FuseP.fuseSignT
  rw [adj_axesFlipF h, adj_dualGroupsF h]
  by_cases hd : (X.indices.getD (g.headD 0) default).dual = true
  · simp only [hd, if_true, List.isEmpty_cons, Bool.false_eq_true, if_false]
    rw [flipSign_eq_pow, ← sgn_eq_pow, FuseP.koszul_vpermF X [g] h.one.groupsOk, adj_newGroupsF h]
    have hsel : FuseP.dualSel X [g] g = true := by
      unfold FuseP.dualSel
      rw [adj_trIndices h]; exact hd
    simp only [FuseP.revProd, hsel, if_true, Int.mul_one]
    rfl
  · have hd' : (X.indices.getD (g.headD 0) default).dual = false := by simpa using hd
    simp only [hd', Bool.false_eq_true, if_false, List.isEmpty_nil, if_true, Int.mul_one]
    unfold Lazy.flipSign Lazy.flipOdd
    simp

end Adj

/-- the operand of `_fuse_core` inside the fermionic fuse of a group of adjacent legs in order:
    the array itself, every stored sector multiplied by the fuse sign -/
theorem signAdj_adj [Zero R] [Neg R] [LawfulNeg R] (a : Arr R) {g : List Nat} (hv : a.validB = true)
    (hf : a.fermi = true) (h : AdjOk a g) :
    (FuseP.signAdj a [g]).indices = a.indices
    ∧ (FuseP.signAdj a [g]).sym = a.sym
    ∧ (FuseP.signAdj a [g]).sectors = a.sectors
    ∧ (FuseP.signAdj a [g]).phases = []
    ∧ (FuseP.signAdj a [g]).validB = true
    ∧ (FuseP.signAdj a [g]).fermi = a.fermi
    ∧ (FuseP.signAdj a [g]).charge = a.charge
    ∧ (FuseP.signAdj a [g]).oddpos = a.oddpos
    ∧ ∀ S J, (FuseP.signAdj a [g]).elem S J = sgnI (FuseP.fuseSignT a [g] S) (a.elem S J) := by
  have hok := h.one.groupsOk
  have hp : (calcFuseGroupInfo [g] a.duals).perm = List.range a.ndim := h.idp
  obtain ⟨f1, f2, f3, f4, f5, f6⟩ := FuseP.signAdj_fields a [g]
  have hobs := Norm.transposeF_id_obsEq (Lazy.Full.of_valid hv hf) (Lazy.ShapeLen.of_valid hv)
  have hsecT : (a.transposeF (calcFuseGroupInfo [g] a.duals).perm).sectors = a.sectors := by
    rw [hp, ← Lazy.skel_sectors, ← Lazy.skel_sectors, hobs.skel]
  refine ⟨?_, f3, ?_, f1, (ValidP.validB_iff _).2 (FuseP.signAdj_valid a _ hv hf hok), f4, f5, f6, ?_⟩
  · rw [f2, hp]; exact Lazy.permuted_range a.indices
  · unfold FuseP.signAdj
    rw [Lazy.phaseSync_sectors]
    split
    · show ((a.transposeF _).phaseFlip _).blocks.map (·.1) = _
      rw [Lazy.phaseFlip_blocks]; exact hsecT
    · show ((a.transposeF _).phaseFlip _).blocks.map (·.1) = _
      rw [Lazy.phaseFlip_blocks]; exact hsecT
  · intro S J
    rw [FuseP.signAdj_elem]
    congr 1
    rw [hp]
    exact hobs.elem S J

end TdotP
end SymmModel
