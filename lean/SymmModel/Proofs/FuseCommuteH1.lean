/-
  SymmModel.Proofs.FuseCommuteH1 — renumbering of axes through `_fuse_core` of ONE group `g` at an
  arbitrary position: `shiftAxes X g x` is where the axis `x ∉ g` of `X` sits in `fuse(X, [g])`
  (the fused leg sits at `bondPos X g = min g`, the other legs keep their order), and the geometry
  of merged addresses (`mergeIdx`) before / after the fuse.  Namespace `SymmModel.TdotP`.
-/
import SymmModel.Proofs.FuseCommute4

namespace SymmModel
namespace TdotP
variable {R : Type}

/-- entries at corresponding positions of two equal `permuted` lists -/
theorem getD_of_permuted_eq {α : Type} {V' V : List α} {l' l : List Nat} (d : α)
    (h : permuted V' l' = permuted V l) (hl' : ∀ y ∈ l', y < V'.length) (hl : ∀ y ∈ l, y < V.length)
    (hlen : l'.length = l.length) (j : Nat) (hj : j < l.length) :
    V'.getD (l'.getD j 0) d = V.getD (l.getD j 0) d := by
  rw [permuted_eq_map _ _ hl' d, permuted_eq_map _ _ hl d] at h
  have hj' : j < l'.length := hlen ▸ hj
  have := congrArg (fun L => L[j]?) h
  simp only [List.getElem?_map, List.getElem?_eq_getElem hj', List.getElem?_eq_getElem hj, Option.map_some,
    Option.some.injEq] at this
  rw [List.getD_eq_getElem?_getD (l := l'), List.getD_eq_getElem?_getD (l := l), List.getElem?_eq_getElem hj',
    List.getElem?_eq_getElem hj]
  exact this

theorem getD_of_permuted_eq_mem {α : Type} {V W : List α} {l : List Nat} (d : α)
    (h : permuted V l = permuted W l) (hV : ∀ y ∈ l, y < V.length) (hW : ∀ y ∈ l, y < W.length)
    {x : Nat} (hx : x ∈ l) : V.getD x d = W.getD x d := by
  obtain ⟨j, hj, rfl⟩ := List.mem_iff_getElem.mp hx
  have := getD_of_permuted_eq d h hV hW rfl j hj
  rw [List.getD_eq_getElem?_getD (l := l), List.getElem?_eq_getElem hj] at this
  exact this

theorem permuted_eq_of_getD {α : Type} {V' V : List α} {l' l : List Nat} (d : α)
    (hl' : ∀ y ∈ l', y < V'.length) (hl : ∀ y ∈ l, y < V.length) (hlen : l'.length = l.length)
    (h : ∀ j, j < l.length → V'.getD (l'.getD j 0) d = V.getD (l.getD j 0) d) :
    permuted V' l' = permuted V l := by
  rw [permuted_eq_map _ _ hl' d, permuted_eq_map _ _ hl d]
  apply List.ext_getElem (by simp [hlen])
  intro j h1 h2
  simp only [List.length_map] at h1 h2
  have := h j h2
  rw [List.getD_eq_getElem?_getD (l := l'), List.getD_eq_getElem?_getD (l := l), List.getElem?_eq_getElem h1,
    List.getElem?_eq_getElem h2] at this
  simpa using this

/-- **shiftAxes**: position in `fuse(X, [g])` of the axis `x ∉ g` of `X`: the `j`-th axis outside
    the group goes to the `j`-th position other than the fused one. -/
def shiftAxes (X : Arr R) (g : List Nat) (x : Nat) : Nat :=
  (freeAxes (FuseP.ndimM X [g]) [(FuseP.giM X [g]).position]).getD ((freeAxes X.ndim g).idxOf x) 0

section One
variable {X : Arr R} {g : List Nat}

theorem shiftAxes_at (_h : OneOk X g) {j : Nat} (hj : j < (freeAxes X.ndim g).length) :
    shiftAxes X g ((freeAxes X.ndim g).getD j 0)
      = (freeAxes (FuseP.ndimM X [g]) [(FuseP.giM X [g]).position]).getD j 0 := by
  unfold shiftAxes
  rw [List.getD_eq_getElem?_getD (l := freeAxes X.ndim g), List.getElem?_eq_getElem hj]
  simp only [Option.getD_some]
  rw [(freeAxes_nodup _ _).idxOf_getElem]

theorem shiftAxes_spec (h : OneOk X g) {x : Nat} (hx : x < X.ndim ∧ x ∉ g) :
    ∃ j, j < (freeAxes X.ndim g).length ∧ (freeAxes X.ndim g).getD j 0 = x
      ∧ shiftAxes X g x = (freeAxes (FuseP.ndimM X [g]) [(FuseP.giM X [g]).position]).getD j 0 := by
  have hm : x ∈ freeAxes X.ndim g := mem_freeAxes.mpr hx
  obtain ⟨j, hj, e⟩ := List.mem_iff_getElem.mp hm
  have e' : (freeAxes X.ndim g).getD j 0 = x := by
    rw [List.getD_eq_getElem?_getD, List.getElem?_eq_getElem hj]; exact e
  refine ⟨j, hj, e', ?_⟩
  rw [← e']; exact shiftAxes_at h hj

theorem shiftAxes_mem (h : OneOk X g) {x : Nat} (hx : x < X.ndim ∧ x ∉ g) :
    shiftAxes X g x ∈ freeAxes (FuseP.ndimM X [g]) [(FuseP.giM X [g]).position] := by
  obtain ⟨j, hj, _, e⟩ := shiftAxes_spec h hx
  rw [e]
  have hj' : j < (freeAxes (FuseP.ndimM X [g]) [(FuseP.giM X [g]).position]).length := by
    rw [one_free_length h]; exact hj
  rw [List.getD_eq_getElem?_getD, List.getElem?_eq_getElem hj']
  exact List.getElem_mem hj'

theorem shiftAxes_lt (h : OneOk X g) {x : Nat} (hx : x < X.ndim ∧ x ∉ g) :
    shiftAxes X g x < FuseP.ndimM X [g] := (mem_freeAxes.mp (shiftAxes_mem h hx)).1

theorem shiftAxes_ne_pos (h : OneOk X g) {x : Nat} (hx : x < X.ndim ∧ x ∉ g) :
    shiftAxes X g x ≠ (FuseP.giM X [g]).position := by
  have := (mem_freeAxes.mp (shiftAxes_mem h hx)).2
  simpa using this

theorem shiftAxes_inj (h : OneOk X g) {x y : Nat} (hx : x < X.ndim ∧ x ∉ g) (hy : y < X.ndim ∧ y ∉ g)
    (e : shiftAxes X g x = shiftAxes X g y) : x = y := by
  obtain ⟨j, hj, ej, e1⟩ := shiftAxes_spec h hx
  obtain ⟨k, hk, ek, e2⟩ := shiftAxes_spec h hy
  have hj' : j < (freeAxes (FuseP.ndimM X [g]) [(FuseP.giM X [g]).position]).length := by
    rw [one_free_length h]; exact hj
  have hk' : k < (freeAxes (FuseP.ndimM X [g]) [(FuseP.giM X [g]).position]).length := by
    rw [one_free_length h]; exact hk
  rw [e1, e2, List.getD_eq_getElem?_getD, List.getD_eq_getElem?_getD, List.getElem?_eq_getElem hj',
    List.getElem?_eq_getElem hk'] at e
  simp only [Option.getD_some] at e
  have := (List.Nodup.getElem_inj_iff (freeAxes_nodup _ _)).mp e
  subst this
  rw [← ej, ← ek]

/-- reading through the shifted axes -/
theorem permuted_shift {α : Type} (h : OneOk X g) (d : α) {V' V : List α}
    (hV' : V'.length = FuseP.ndimM X [g]) (hV : V.length = X.ndim)
    (hf : permuted V' (freeAxes (FuseP.ndimM X [g]) [(FuseP.giM X [g]).position])
      = permuted V (freeAxes X.ndim g))
    (l : List Nat) (hl : ∀ x ∈ l, x < X.ndim ∧ x ∉ g) :
    permuted V' (l.map (shiftAxes X g)) = permuted V l := by
  apply permuted_eq_of_getD d
  · intro y hy
    obtain ⟨x, hx, rfl⟩ := List.mem_map.mp hy
    rw [hV']; exact shiftAxes_lt h (hl x hx)
  · intro x hx; rw [hV]; exact (hl x hx).1
  · simp
  · intro t ht
    have hxm : l[t] ∈ l := List.getElem_mem ht
    obtain ⟨j, hj, ej, e1⟩ := shiftAxes_spec h (hl _ hxm)
    have e3 : (l.map (shiftAxes X g)).getD t 0 = shiftAxes X g l[t] := by
      rw [List.getD_eq_getElem?_getD, List.getElem?_map, List.getElem?_eq_getElem ht]; rfl
    have e4 : l.getD t 0 = l[t] := by
      rw [List.getD_eq_getElem?_getD, List.getElem?_eq_getElem ht]; rfl
    rw [e3, e4, e1, ← ej]
    exact getD_of_permuted_eq d hf
      (by intro y hy; rw [hV']; exact (mem_freeAxes.mp hy).1)
      (by intro y hy; rw [hV]; exact (mem_freeAxes.mp hy).1) (one_free_length h) j hj

/-- converse of `one_free_parts` -/
theorem one_free_parts_conv {α : Type} (h : OneOk X g) (d : α) {ns s : List α}
    (hnl : ns.length = FuseP.ndimM X [g]) (hs : s.length = X.ndim)
    (h1 : ∀ x, x < (FuseP.giM X [g]).position → ns.getD x d = s.getD x d)
    (h2 : ∀ j, j < (FuseP.giM X [g]).axesAfter.length →
        ns.getD ((FuseP.giM X [g]).position + 1 + j) d = s.getD ((FuseP.giM X [g]).axesAfter.getD j 0) d) :
    permuted ns (freeAxes (FuseP.ndimM X [g]) [(FuseP.giM X [g]).position])
      = permuted s (freeAxes X.ndim g) := by
  have ean : X.indices.length = X.ndim := rfl
  have hb1 : ∀ x ∈ List.range (FuseP.giM X [g]).position, x < ns.length := by
    intro x hx; rw [hnl, one_ndimM h]; have := List.mem_range.mp hx; omega
  have hb2 : ∀ x ∈ List.range (FuseP.giM X [g]).position, x < s.length := by
    intro x hx; rw [hs]; have := List.mem_range.mp hx; have := one_pos_lt h; omega
  have ha1 : ∀ x ∈ (List.range (FuseP.giM X [g]).axesAfter.length).map
      (fun j => (FuseP.giM X [g]).position + 1 + j), x < ns.length := by
    intro x hx
    obtain ⟨j, hj, rfl⟩ := List.mem_map.mp hx
    rw [hnl, one_ndimM h]; have := List.mem_range.mp hj; omega
  have ha2 : ∀ x ∈ (FuseP.giM X [g]).axesAfter, x < s.length := by
    intro x hx; rw [hs, ← ean]; exact FuseP.afterM_lt x hx
  rw [one_ndimM h, freeAxes_succ_mid, one_free h, ValidP.permuted_append, ValidP.permuted_append,
    permuted_eq_map _ _ hb1 d, permuted_eq_map _ _ hb2 d, permuted_eq_map _ _ ha1 d, permuted_eq_map _ _ ha2 d,
    List.map_map, FuseP.map_eq_range_map (FuseP.giM X [g]).axesAfter 0]
  congr 1
  · apply List.map_congr_left; intro x hx; exact h1 x (List.mem_range.mp hx)
  · apply List.map_congr_left; intro j hj; exact h2 j (List.mem_range.mp hj)

/-- the untouched charges of a stored sector of the fused array are those of the original -/
theorem one_newSector_free (h : OneOk X g) (sb : Sector × Blk R) (hsl : sb.1.length = X.ndim) :
    permuted (FuseP.planM X [g] sb).newSector (freeAxes (FuseP.ndimM X [g]) [(FuseP.giM X [g]).position])
      = permuted sb.1 (freeAxes X.ndim g) := by
  have hok := h.groupsOk
  apply one_free_parts_conv h ((0, 0) : Charge) (FuseP.planM_newSector_length hok sb) hsl
  · intro x hx
    rw [FuseP.nsM_parts hok sb, List.getD_eq_getElem?_getD, List.append_assoc,
      List.getElem?_append_left (by simpa using hx)]
    simp [hx]
  · intro j hj
    rw [FuseP.nsM_parts hok sb, List.getD_eq_getElem?_getD,
      List.getElem?_append_right (by simp)]
    simp only [List.length_append, List.length_map, List.length_range, List.length_cons, List.length_nil]
    have e : (FuseP.giM X [g]).position + 1 + j - ((FuseP.giM X [g]).position + (0 + 1)) = j := by omega
    rw [e]
    simp [hj]

end One

/-- **merged addresses before / after the fuse.**  `xa`: axes of `X` outside the group `g`
    (the contracted ones); `V`, `V'`: full-length lists for `X` / `fuse(X, [g])` with equal
    untouched parts.  Overwriting the `xa`-slots of `V` and the shifted slots of `V'` with the same
    `kv` gives lists that again have equal untouched parts, the same entry on the fused axis as
    `V'`, and the same group part as `V`. -/
theorem merged_free {α : Type} (d : α) {X : Arr R} {g xa : List Nat} (h : OneOk X g)
    (hdisj : ∀ x ∈ xa, x ∉ g) (hnA : xa.Nodup) (hA : ∀ x ∈ xa, x < X.ndim)
    {kv : List α} (hkv : kv.length = xa.length) {V' V : List α}
    (hV' : V'.length = FuseP.ndimM X [g]) (hV : V.length = X.ndim)
    (hf : permuted V' (freeAxes (FuseP.ndimM X [g]) [(FuseP.giM X [g]).position])
      = permuted V (freeAxes X.ndim g)) :
    permuted (mergeIdx d (FuseP.ndimM X [g]) (xa.map (shiftAxes X g))
          (freeAxes (FuseP.ndimM X [g]) (xa.map (shiftAxes X g))) kv
          (permuted V' (freeAxes (FuseP.ndimM X [g]) (xa.map (shiftAxes X g)))))
        (freeAxes (FuseP.ndimM X [g]) [(FuseP.giM X [g]).position])
      = permuted (mergeIdx d X.ndim xa (freeAxes X.ndim xa) kv (permuted V (freeAxes X.ndim xa)))
          (freeAxes X.ndim g)
    ∧ (mergeIdx d (FuseP.ndimM X [g]) (xa.map (shiftAxes X g))
          (freeAxes (FuseP.ndimM X [g]) (xa.map (shiftAxes X g))) kv
          (permuted V' (freeAxes (FuseP.ndimM X [g]) (xa.map (shiftAxes X g))))).getD
            (FuseP.giM X [g]).position d = V'.getD (FuseP.giM X [g]).position d
    ∧ permuted (mergeIdx d X.ndim xa (freeAxes X.ndim xa) kv (permuted V (freeAxes X.ndim xa))) g
      = permuted V g := by
  have hxaF : ∀ x ∈ xa, x < X.ndim ∧ x ∉ g := fun x hx => ⟨hA x hx, hdisj x hx⟩
  have hnA' : (xa.map (shiftAxes X g)).Nodup :=
    hnA.map_on (fun x hx y hy e => shiftAxes_inj h (hxaF x hx) (hxaF y hy) e)
  have hA' : ∀ x ∈ xa.map (shiftAxes X g), x < FuseP.ndimM X [g] := by
    intro y hy; obtain ⟨x, hx, rfl⟩ := List.mem_map.mp hy; exact shiftAxes_lt h (hxaF x hx)
  generalize hM' : mergeIdx d (FuseP.ndimM X [g]) (xa.map (shiftAxes X g))
      (freeAxes (FuseP.ndimM X [g]) (xa.map (shiftAxes X g))) kv
      (permuted V' (freeAxes (FuseP.ndimM X [g]) (xa.map (shiftAxes X g)))) = M'
  generalize hM : mergeIdx d X.ndim xa (freeAxes X.ndim xa) kv (permuted V (freeAxes X.ndim xa)) = M
  have hM'l : M'.length = FuseP.ndimM X [g] := by rw [← hM']; exact mergeIdx_length _ _ _ _ _ _
  have hMl : M.length = X.ndim := by rw [← hM]; exact mergeIdx_length _ _ _ _ _ _
  have pA' : permuted M' (xa.map (shiftAxes X g)) = kv := by
    rw [← hM']; exact permuted_mergeIdx_axes d hnA' hA' (by rw [List.length_map]; exact hkv)
  have pA : permuted M xa = kv := by rw [← hM]; exact permuted_mergeIdx_axes d hnA hA hkv
  have pF' : permuted M' (freeAxes (FuseP.ndimM X [g]) (xa.map (shiftAxes X g)))
      = permuted V' (freeAxes (FuseP.ndimM X [g]) (xa.map (shiftAxes X g))) := by
    rw [← hM']
    exact permuted_mergeIdx_free d (freeAxes_nodup _ _) mem_freeAxes_lt (fun _ hx => (mem_freeAxes.mp hx).2)
      (permuted_length _ _ (by intro x hx; rw [hV']; exact (mem_freeAxes.mp hx).1))
  have pF : permuted M (freeAxes X.ndim xa) = permuted V (freeAxes X.ndim xa) := by
    rw [← hM]
    exact permuted_mergeIdx_free d (freeAxes_nodup _ _) mem_freeAxes_lt (fun _ hx => (mem_freeAxes.mp hx).2)
      (permuted_length _ _ (by intro x hx; rw [hV]; exact (mem_freeAxes.mp hx).1))
  have bF' : ∀ (W : List α), W.length = FuseP.ndimM X [g] →
      ∀ y ∈ freeAxes (FuseP.ndimM X [g]) (xa.map (shiftAxes X g)), y < W.length := by
    intro W hW y hy; rw [hW]; exact (mem_freeAxes.mp hy).1
  have bF : ∀ (W : List α), W.length = X.ndim → ∀ y ∈ freeAxes X.ndim xa, y < W.length := by
    intro W hW y hy; rw [hW]; exact (mem_freeAxes.mp hy).1
  refine ⟨?_, ?_, ?_⟩
  · apply permuted_eq_of_getD d
    · intro y hy; rw [hM'l]; exact (mem_freeAxes.mp hy).1
    · intro y hy; rw [hMl]; exact (mem_freeAxes.mp hy).1
    · exact one_free_length h
    · intro j hj
      have hxm : (freeAxes X.ndim g).getD j 0 ∈ freeAxes X.ndim g := by
        rw [List.getD_eq_getElem?_getD, List.getElem?_eq_getElem hj]; exact List.getElem_mem hj
      generalize hx0 : (freeAxes X.ndim g).getD j 0 = x at hxm
      have hxg := mem_freeAxes.mp hxm
      have hsh : (freeAxes (FuseP.ndimM X [g]) [(FuseP.giM X [g]).position]).getD j 0 = shiftAxes X g x := by
        rw [← hx0]; exact (shiftAxes_at h hj).symm
      rw [hsh]
      by_cases hx : x ∈ xa
      · obtain ⟨t, ht, rfl⟩ := List.mem_iff_getElem.mp hx
        have := getD_of_permuted_eq d (pA'.trans pA.symm)
          (by intro y hy; rw [hM'l]; exact hA' y hy) (by intro y hy; rw [hMl]; exact hA y hy)
          (by simp) t ht
        rw [List.getD_eq_getElem?_getD (l := xa.map _), List.getElem?_map, List.getElem?_eq_getElem ht,
          List.getD_eq_getElem?_getD (l := xa), List.getElem?_eq_getElem ht] at this
        exact this
      · have hxFA : x ∈ freeAxes X.ndim xa := mem_freeAxes.mpr ⟨hxg.1, hx⟩
        have hyFA : shiftAxes X g x ∈ freeAxes (FuseP.ndimM X [g]) (xa.map (shiftAxes X g)) := by
          refine mem_freeAxes.mpr ⟨shiftAxes_lt h hxg, ?_⟩
          intro hm
          obtain ⟨x2, hx2, e⟩ := List.mem_map.mp hm
          exact hx (shiftAxes_inj h (hxaF x2 hx2) hxg e ▸ hx2)
        rw [getD_of_permuted_eq_mem d pF' (bF' M' hM'l) (bF' V' hV') hyFA,
          getD_of_permuted_eq_mem d pF (bF M hMl) (bF V hV) hxFA, ← hsh, ← hx0]
        exact getD_of_permuted_eq d hf
          (by intro y hy; rw [hV']; exact (mem_freeAxes.mp hy).1)
          (by intro y hy; rw [hV]; exact (mem_freeAxes.mp hy).1) (one_free_length h) j hj
  · have hp : (FuseP.giM X [g]).position ∈ freeAxes (FuseP.ndimM X [g]) (xa.map (shiftAxes X g)) := by
      refine mem_freeAxes.mpr ⟨one_pos_lt_ndimM h, ?_⟩
      intro hm
      obtain ⟨x2, hx2, e⟩ := List.mem_map.mp hm
      exact shiftAxes_ne_pos h (hxaF x2 hx2) e
    exact getD_of_permuted_eq_mem d pF' (bF' M' hM'l) (bF' V' hV') hp
  · apply permuted_eq_of_getD d
    · intro y hy; rw [hMl]; exact h.lt y hy
    · intro y hy; rw [hV]; exact h.lt y hy
    · rfl
    · intro j hj
      have hxm : g.getD j 0 ∈ g := by
        rw [List.getD_eq_getElem?_getD, List.getElem?_eq_getElem hj]; exact List.getElem_mem hj
      have hxFA : g.getD j 0 ∈ freeAxes X.ndim xa :=
        mem_freeAxes.mpr ⟨h.lt _ hxm, fun hc => hdisj _ hc hxm⟩
      exact getD_of_permuted_eq_mem d pF (bF M hMl) (bF V hV) hxFA

end TdotP
end SymmModel
