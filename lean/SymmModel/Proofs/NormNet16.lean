/-
  SymmModel.Proofs.NormNet16 — network form of the norm (property C10), part 16:
  `normSq (b·a) = normSq (a·b)` for commutative scalars (S5 of C04 plus a re-ordering of the double
  sum over sectors and offsets).
-/
import SymmModel.Proofs.NormNet15
import SymmModel.Proofs.Routes4
import SymmModel.Proofs.FermiAction2
namespace SymmModel.NormNet
open SymmModel SymmModel.Lazy SymmModel.Norm SymmModel.TdotP SymmModel.GradedP SymmModel.RoutesP
set_option linter.unusedSectionVars false

/-! ## rotation of a list -/
section rot
variable {α : Type}

/-- move the first `m` entries to the end -/
def rotL (m : Nat) (l : List α) : List α := l.drop m ++ l.take m

theorem rotL_append (u v : List α) : rotL u.length (u ++ v) = v ++ u := by
  unfold rotL; simp

/-- the rotation as an axes permutation -/
def rotAx (m k : Nat) : List Nat := (List.range k).map (m + ·) ++ List.range m

theorem rotAx_perm (m k : Nat) : (rotAx m k).Perm (List.range (m + k)) := by
  unfold rotAx
  rw [← range_split]
  exact List.perm_append_comm

theorem permuted_rotAx (u v : List α) : permuted (u ++ v) (rotAx u.length v.length) = v ++ u := by
  unfold rotAx
  rw [ValidP.permuted_append]
  have h1 := FermiActP.permuted_append_right u v
  rw [drop_range_eq_map _ _ (Nat.le_add_right _ _), Nat.add_sub_cancel_left] at h1
  rw [h1, FermiActP.permuted_append_left]

theorem rotL_inj {m : Nat} {l l' : List α} (_hl : m ≤ l.length) (hl' : l'.length = l.length)
    (h : rotL m l = rotL m l') : l = l' := by
  unfold rotL at h
  have h1 : (l.drop m).length = (l'.drop m).length := by simp [hl']
  have := List.append_inj h h1
  rw [← List.take_append_drop m l, ← List.take_append_drop m l', this.1, this.2]

end rot

/-! ## the frame of a contraction result -/
section frame
variable {R : Type} [AddMonoid R] [Mul R] [Neg R] [SignRing R]

theorem tdot_sectors {a b K : Arr R} {xa xb : List Nat} (h : Adm a b xa xb)
    (eK : a.tensordotF b (.pair (xa.map Int.ofNat) (xb.map Int.ofNat)) .blockwise = .ok K) :
    K.sectors = (tdKeys a.sectors b.sectors (freeAxes a.ndim xa) xa xb (freeAxes b.ndim xb)).eraseDups
      ∧ K.indices = dropUnused (without a.indices xa ++ without b.indices xb) K.sectors := by
  have e := tensordotF_eq_core a b xa xb h
  rw [eK] at e
  have F := coreT_frame a b xa xb h
  cases hm : OddposP.mergeOddpos a.parity a.oddpos b.oddpos with
  | error err => rw [hm] at e; cases e
  | ok r =>
    rw [hm] at e
    have e' : K = finish (coreT a b xa xb) r := Except.ok.inj e
    obtain ⟨_, _, k3, _, k5, _⟩ := finish_frame (coreT a b xa xb) r
    have hs : K.sectors = (coreT a b xa xb).sectors := by rw [e']; unfold Arr.sectors; rw [k5]
    exact ⟨by rw [hs, F.sectors], by rw [hs, e', k3, F.indices]⟩

omit [AddMonoid R] [Mul R] [Neg R] [SignRing R] in
/-- a key of the result: its two free parts, their lengths and block shapes -/
theorem key_split {a b : Arr R} {xa xb : List Nat} (hsa : a.shapesOk) (hsb : b.shapesOk) {s : Sector}
    (hs : s ∈ tdKeys a.sectors b.sectors (freeAxes a.ndim xa) xa xb (freeAxes b.ndim xb)) :
    ∃ x ∈ a.sectors, ∃ y ∈ b.sectors, permuted x xa = permuted y xb
      ∧ s = permuted x (freeAxes a.ndim xa) ++ permuted y (freeAxes b.ndim xb)
      ∧ (permuted x (freeAxes a.ndim xa)).length = (freeAxes a.ndim xa).length
      ∧ (permuted y (freeAxes b.ndim xb)).length = (freeAxes b.ndim xb).length
      ∧ ∃ shA shB, Arr.blockShape? (without a.indices xa) (permuted x (freeAxes a.ndim xa)) = some shA
        ∧ Arr.blockShape? (without b.indices xb) (permuted y (freeAxes b.ndim xb)) = some shB
        ∧ shA.length = (freeAxes a.ndim xa).length ∧ shB.length = (freeAxes b.ndim xb).length := by
  obtain ⟨x, hx, y, hy, hal, rfl⟩ := mem_tdKeys.mp hs
  obtain ⟨shpA, hA1, _, hA3, hA4⟩ := shape_of_mem hsa hx
  obtain ⟨shpB, hB1, _, hB3, hB4⟩ := shape_of_mem hsb hy
  have hl : ∀ z ∈ freeAxes a.ndim xa, z < a.ndim := fun z hz => (mem_freeAxes.mp hz).1
  have hr : ∀ z ∈ freeAxes b.ndim xb, z < b.ndim := fun z hz => (mem_freeAxes.mp hz).1
  refine ⟨x, hx, y, hy, hal, rfl, permuted_length _ _ (by rw [hA4]; exact hl),
    permuted_length _ _ (by rw [hB4]; exact hr), permuted shpA (freeAxes a.ndim xa),
    permuted shpB (freeAxes b.ndim xb), ?_, ?_, permuted_length _ _ (by rw [hA3]; exact hl),
    permuted_length _ _ (by rw [hB3]; exact hr)⟩
  · rw [without_eq_permuted_freeAxes]; exact blockShape?_permuted hA1 _ hl
  · rw [without_eq_permuted_freeAxes]; exact blockShape?_permuted hB1 _ hr

end frame

/-! ## the sectors of `b·a` are the rotated sectors of `a·b` -/
section sectors
variable {R : Type}

theorem keys_swap {a b : Arr R} {xa xb : List Nat} (hsa : a.shapesOk) (hsb : b.shapesOk) (s' : Sector) :
    s' ∈ tdKeys b.sectors a.sectors (freeAxes b.ndim xb) xb xa (freeAxes a.ndim xa)
      ↔ ∃ s ∈ tdKeys a.sectors b.sectors (freeAxes a.ndim xa) xa xb (freeAxes b.ndim xb),
          rotL (freeAxes a.ndim xa).length s = s' := by
  constructor
  · intro hs
    obtain ⟨y, hy, x, hx, hal, rfl, _, hlx, _⟩ := key_split hsb hsa hs
    refine ⟨permuted x (freeAxes a.ndim xa) ++ permuted y (freeAxes b.ndim xb),
      mem_tdKeys.mpr ⟨x, hx, y, hy, hal.symm, rfl⟩, ?_⟩
    rw [← hlx, rotL_append]
  · rintro ⟨s, hs, rfl⟩
    obtain ⟨x, hx, y, hy, hal, rfl, hlx, _, _⟩ := key_split hsa hsb hs
    rw [← hlx, rotL_append]
    exact mem_tdKeys.mpr ⟨y, hy, x, hx, hal.symm, rfl⟩

end sectors

section sums
variable {R : Type} [AddCommMonoid R]

theorem sum_map_perm {α : Type} {l l' : List α} (h : l.Perm l') (f : α → R) :
    (l.map f).sum = (l'.map f).sum := (h.map f).sum_eq

end sums

/-! ## `normSq (b·a) = normSq (a·b)` -/
section main
variable {R : Type} [AddCommMonoid R] [Mul R] [Neg R] [Conj R] [NetLaws R]

theorem conj_sq_sgnI {σ : Int} (hσ : σ = 1 ∨ σ = -1) (x : R) :
    Conj.conj (sgnI σ x) * sgnI σ x = Conj.conj x * x := by
  rw [conj_sgnI, sgnI_mul_sgnI hσ hσ]
  rcases hσ with rfl | rfl <;> simp

/-- **the squared norm does not depend on the operand order of the contraction** (commutative
    scalars, pairwise-distinct labels: the scope of S5) -/
theorem normSq_swap (hmul : ∀ x y : R, x * y = y * x) (a b K K' : Arr R) (xa xb : List Nat)
    (h : Adm a b xa xb) (hd : (a.oddpos ++ b.oddpos).Pairwise (fun x y => x.1 ≠ y.1))
    (eK : a.tensordotF b (.pair (xa.map Int.ofNat) (xb.map Int.ofNat)) .blockwise = .ok K)
    (eK' : b.tensordotF a (.pair (xb.map Int.ofNat) (xa.map Int.ofNat)) .blockwise = .ok K') :
    normSq K' = normSq K := by
  obtain ⟨c', e', _, _, _, _, hel⟩ := RoutesP.tdotF_swap a b K xa xb hmul h hd eK
  obtain rfl : c' = K' := by rw [eK'] at e'; exact (Except.ok.inj e').symm
  have hsa := Arr.shapesOk_of_validB h.va
  have hsb := Arr.shapesOk_of_validB h.vb
  obtain ⟨hS, hI⟩ := tdot_sectors h eK
  obtain ⟨hS', hI'⟩ := tdot_sectors h.swap eK'
  have hmemK : ∀ s, s ∈ K.sectors ↔
      s ∈ tdKeys a.sectors b.sectors (freeAxes a.ndim xa) xa xb (freeAxes b.ndim xb) := by
    intro s; rw [hS]; exact List.mem_eraseDups
  have hmemK' : ∀ s, s ∈ c'.sectors ↔
      s ∈ tdKeys b.sectors a.sectors (freeAxes b.ndim xb) xb xa (freeAxes a.ndim xa) := by
    intro s; rw [hS']; exact List.mem_eraseDups
  have hlenK : ∀ s ∈ K.sectors,
      s.length = (freeAxes a.ndim xa).length + (freeAxes b.ndim xb).length := by
    intro s hs
    obtain ⟨x, _, y, _, _, rfl, l1, l2, _⟩ := key_split hsa hsb ((hmemK s).mp hs)
    rw [List.length_append, l1, l2]
  have hperm : c'.sectors.Perm (K.sectors.map (rotL (freeAxes a.ndim xa).length)) := by
    refine (List.perm_ext_iff_of_nodup ?_ ?_).mpr ?_
    · rw [hS']; exact nodup_eraseDups _
    · refine List.Nodup.map_on ?_ (by rw [hS]; exact nodup_eraseDups _)
      intro x hx y hy hxy
      exact rotL_inj (by rw [hlenK x hx]; omega) (by rw [hlenK x hx, hlenK y hy]) hxy
    · intro s'
      rw [hmemK', keys_swap hsa hsb, List.mem_map]
      constructor
      · rintro ⟨s, hs, rfl⟩; exact ⟨s, (hmemK s).mpr hs, rfl⟩
      · rintro ⟨s, hs, rfl⟩; exact ⟨s, (hmemK s).mp hs, rfl⟩
  unfold normSq
  rw [sum_map_perm hperm, List.map_map]
  congr 1
  apply List.map_congr_left
  intro s hs
  obtain ⟨x, hx, y, hy, hal, rfl, l1, l2, shA, shB, hA, hB, lA, lB⟩ :=
    key_split hsa hsb ((hmemK s).mp hs)
  have hrot : rotL (freeAxes a.ndim xa).length
      (permuted x (freeAxes a.ndim xa) ++ permuted y (freeAxes b.ndim xb))
      = permuted y (freeAxes b.ndim xb) ++ permuted x (freeAxes a.ndim xa) := by
    rw [← l1, rotL_append]
  have hs' : permuted y (freeAxes b.ndim xb) ++ permuted x (freeAxes a.ndim xa) ∈ c'.sectors := by
    rw [← hrot]; exact hperm.mem_iff.mpr (List.mem_map.mpr ⟨_, hs, rfl⟩)
  have shW : Arr.blockShapeD (without a.indices xa ++ without b.indices xb)
      (permuted x (freeAxes a.ndim xa) ++ permuted y (freeAxes b.ndim xb)) = shA ++ shB := by
    unfold Arr.blockShapeD; rw [blockShape?_append hA hB]; rfl
  have shK : Arr.blockShapeD K.indices
      (permuted x (freeAxes a.ndim xa) ++ permuted y (freeAxes b.ndim xb)) = shA ++ shB := by
    rw [← shW]; unfold Arr.blockShapeD; rw [hI, ValidP.dropUnused_blockShape _ _ _ hs]
  have shK' : Arr.blockShapeD c'.indices
      (permuted y (freeAxes b.ndim xb) ++ permuted x (freeAxes a.ndim xa)) = shB ++ shA := by
    unfold Arr.blockShapeD
    rw [hI', ValidP.dropUnused_blockShape _ _ _ hs', blockShape?_append hB hA]; rfl
  simp only [Function.comp]
  rw [hrot, shK, shK']
  have hpr : shB ++ shA = permuted (shA ++ shB) (rotAx shA.length shB.length) :=
    (permuted_rotAx shA shB).symm
  rw [hpr, sum_map_perm (allIdx_permuted_perm (shA ++ shB) (rotAx shA.length shB.length)
    (by rw [List.length_append]; exact rotAx_perm _ _)), List.map_map]
  congr 1
  apply List.map_congr_left
  intro o ho
  have hbox := mem_allIdx_iff.mp ho
  have hol : o.length = shA.length + shB.length := by
    rw [inBox_length hbox, List.length_append]
  have hsplit : o = o.take shA.length ++ o.drop shA.length := (List.take_append_drop _ _).symm
  have htl : (o.take shA.length).length = shA.length := by rw [List.length_take]; omega
  have hdl : (o.drop shA.length).length = shB.length := by rw [List.length_drop]; omega
  have hpo : permuted o (rotAx shA.length shB.length) = o.drop shA.length ++ o.take shA.length := by
    have := permuted_rotAx (o.take shA.length) (o.drop shA.length)
    rw [htl, hdl, ← hsplit] at this
    exact this
  simp only [Function.comp]
  rw [hpo]
  have hE := hel (permuted x (freeAxes a.ndim xa)) (permuted y (freeAxes b.ndim xb))
    (o.take shA.length) (o.drop shA.length) l1 l2 (by rw [htl, lA]) (by rw [hdl, lB])
    (by rw [shW, ← hsplit]; exact hbox)
  rw [hE, ← hsplit]
  exact conj_sq_sgnI (koszul_pm _ _) _

end main

end SymmModel.NormNet
