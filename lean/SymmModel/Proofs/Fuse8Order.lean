/-
  SymmModel.Proofs.Fuse8Order — both strategies build their dict in the same order (first appearance
  of the new sector), so block-by-block equality is equality of the dicts.
-/
import SymmModel.Proofs.Fuse8Eq
namespace SymmModel
namespace FuseP
set_option linter.unusedSectionVars false

variable {R : Type} [Zero R]

/-- insertion order of keys -/
def addKey (ks : List Sector) (k : Sector) : List Sector := if k ∈ ks then ks else ks ++ [k]

theorem ainsert_keys {β : Type} (l : List (Sector × β)) (k : Sector) (v : β) :
    (ainsert l k v).map (·.1) = addKey (l.map (·.1)) k := by
  unfold addKey
  split
  · rename_i h; exact ainsert_keys_of_mem v h
  · rename_i h; rw [ainsert_of_not_mem v h]; simp

theorem insFold_keys (shapeOf : Sector → List Nat) (items : List (Item R)) (acc : List (Sector × Blk R)) :
    (items.foldl (insStep shapeOf) acc).map (·.1) = (items.map (·.1)).foldl addKey (acc.map (·.1)) := by
  induction items generalizing acc with
  | nil => rfl
  | cons it items ih =>
    simp only [List.foldl_cons, List.map_cons]
    rw [ih, insStep, ainsert_keys]

theorem grpFold_keys (items : List (GItem R)) (acc : List (Sector × List (List Sector × Blk R))) :
    (items.foldl grpStep acc).map (·.1) = (items.map (·.1)).foldl addKey (acc.map (·.1)) := by
  induction items generalizing acc with
  | nil => rfl
  | cons it items ih =>
    simp only [List.foldl_cons, List.map_cons]
    rw [ih, grpStep, ainsert_keys]

/-- dicts with the same keys in the same order, each once, and the same values are equal -/
theorem dict_ext {β : Type} {l1 l2 : List (Sector × β)} (hk : l1.map (·.1) = l2.map (·.1))
    (hnd : (l1.map (·.1)).Nodup) (h : ∀ k, alookup l1 k = alookup l2 k) : l1 = l2 := by
  have hlen : l1.length = l2.length := by simpa using congrArg List.length hk
  apply List.ext_getElem hlen
  intro j h1 h2
  have hkj : l1[j].1 = l2[j].1 := by
    have e1 : (l1.map (·.1))[j]? = some l1[j].1 := by simp [List.getElem?_eq_getElem h1]
    have e2 : (l2.map (·.1))[j]? = some l2[j].1 := by simp [List.getElem?_eq_getElem h2]
    rw [hk, e2] at e1
    simpa using e1.symm
  have a1 : alookup l1 l1[j].1 = some l1[j].2 := alookup_of_mem_nodup hnd (List.getElem_mem h1)
  have a2 : alookup l2 l2[j].1 = some l2[j].2 :=
    alookup_of_mem_nodup (by rw [← hk]; exact hnd) (List.getElem_mem h2)
  rw [h, hkj, a2] at a1
  simp only [Option.some.injEq] at a1
  exact Prod.ext hkj a1.symm

section
variable {a : Arr R} {groups : List (List Nat)}

/-- **both strategies give the same dict** -/
theorem concatBlocksM_eq (hv : ValidArr a) (hok : GroupsOk groups a.ndim) :
    concatBlocksM a groups = fusedBlocksM a groups := by
  have hI := fusedBlocksM_inv hv hok
  have hkeys : (concatBlocksM a groups).map (·.1) = (fusedBlocksM a groups).map (·.1) := by
    have h1 : (concatBlocksM a groups).map (·.1) = (groupedM a groups).map (·.1) := by
      simp [concatBlocksM, List.map_map, Function.comp]
    rw [h1]
    unfold groupedM grpFold fusedBlocksM insFold
    rw [grpFold_keys, insFold_keys, List.map_map, List.map_map]
    rfl
  apply dict_ext hkeys (by rw [hkeys]; exact hI.nodup)
  intro ns
  rcases insert_eq_concat_multi hv hok ns with ⟨h1, h2⟩ | ⟨B, C, h1, h2, rfl⟩
  · rw [h1, h2]
  · rw [h1, h2]

end

end FuseP
end SymmModel
