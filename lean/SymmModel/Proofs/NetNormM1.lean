/-
  SymmModel.Proofs.NetNormM1 — network form of the norm (property C10), mirror images of the
  ket-bra-first bracketings, part 1: S5 (exchange of the operands) for operands whose labels are NOT
  distinct.  `Assoc4P.tdotF_swap_w` / `Assoc5P.swap_eqv` use the distinctness of the labels only through
  `mergeOddpos_swap` (both label merges succeed, give the same list, and their signs differ by the sign of
  the two parities); here these three facts are hypotheses (`swap_gen_w`, `swap_eqv_gen`), and they are
  proved for the pair `(a, ā)` (`merge_ket_bra`, `merge_bra_ket`: nested conjugate pairs annihilate in
  either order, with explicit signs).
-/
import SymmModel.Proofs.NetNormL3

namespace SymmModel.NormNet
open SymmModel SymmModel.Lazy SymmModel.Norm SymmModel.TdotP SymmModel.GradedP SymmModel.RoutesP
open SymmModel.KoszulP
open SymmModel.AssocP SymmModel.Assoc3P SymmModel.Assoc4P SymmModel.Assoc5P SymmModel.Net4P
open SymmModel.OddposP (mergeOddpos)
set_option linter.unusedSectionVars false

/-! ## the two merges of `w` with its conjugate -/

section labels

/-- the sign `resolve_combined_oddpos` starts with -/
def ph0 (p : Bool) (n : Nat) : Int := if p && n % 2 == 1 then -1 else 1

theorem ph0_pm (p : Bool) (n : Nat) : ph0 p n = 1 ∨ ph0 p n = -1 := by
  unfold ph0; split <;> simp

theorem merge_fuel (n : Nat) : 2 * n + 2 ≤ (n + n) * (n + n) + 2 * (n + n) + 4 := by
  have : n ≤ (n + n) * (n + n) := by
    calc n ≤ n + n := by omega
      _ ≤ (n + n) * (n + n) := Nat.le_mul_self _
  omega

/-- bra first: `w̄ ++ w` annihilates, the sign is the starting sign -/
theorem merge_bra_ket (p : Bool) (w : List (Int × Bool)) (hk : KetLabels w)
    (hd : w.Pairwise (fun x y => x.1 ≠ y.1)) :
    mergeOddpos p (Arr.oddposDag w) w = .ok ([], ph0 p w.length) := by
  have hs := oddposDag_sorted_of_nondual w hk.1 hk.2
  unfold OddposP.mergeOddpos
  rw [resolveScan_nested w hs hd _ _ (by
    simp only [List.length_append, oddposDag_length]; exact merge_fuel _),
    nestSign_nondual w hk.1, Int.mul_one]
  rfl

/-- ket first: `w ++ w̄` annihilates, the sign is the starting sign times `(-1)^|w|` -/
theorem merge_ket_bra (p : Bool) (w : List (Int × Bool)) (hk : KetLabels w)
    (hd : w.Pairwise (fun x y => x.1 ≠ y.1)) :
    mergeOddpos p w (Arr.oddposDag w)
      = .ok ([], ph0 p w.length * (if w.length % 2 = 1 then -1 else 1)) := by
  have hdd := oddposDag_distinct w hd
  have hs : (Arr.oddposDag (Arr.oddposDag w)).Pairwise (fun a b => oddLt a b = true) := by
    rw [oddposDag_involutive]; exact hk.2
  unfold OddposP.mergeOddpos
  have key := resolveScan_nested (Arr.oddposDag w) hs hdd
    (if p && (Arr.oddposDag w).length % 2 == 1 then -1 else 1)
    ((w ++ Arr.oddposDag w).length * (w ++ Arr.oddposDag w).length
      + 2 * (w ++ Arr.oddposDag w).length + 4) (by
    simp only [List.length_append, oddposDag_length]; exact merge_fuel _)
  rw [oddposDag_involutive] at key
  rw [key, nestSign_dual _ (oddposDag_all_dual w hk.1), oddposDag_length]
  rfl

/-- the signs of the two merges differ by the sign of the squared parity -/
theorem merge_mirror_sign (p : Bool) (n : Nat) (h : (n % 2 == 1) = p) :
    ph0 p n = ph0 p n * (if n % 2 = 1 then -1 else 1) * sgn (p.toNat * p.toNat) := by
  subst h
  unfold ph0 sgn
  rcases Nat.mod_two_eq_zero_or_one n with e | e <;> simp [e]

end labels

/-! ## S5 with the label merges as hypotheses -/

section swap
variable {R : Type} [AddCommMonoid R] [Mul R] [Neg R] [SignRing R]

/-- **S5, labels not necessarily distinct.**  Both label merges succeed with the same list and
    `sba = sab · sgn(parity a · parity b)`: the value of `b·a` at the address with the two free parts
    exchanged is the value of `a·b` times the Koszul sign of the rotation. -/
theorem swap_gen_w (a b c : Arr R) (xa xb : List Nat) (hmul : ∀ x y : R, x * y = y * x)
    (h : AdmW a b xa xb) (out : List (Int × Bool)) (sab sba : Int)
    (m1 : mergeOddpos a.parity a.oddpos b.oddpos = .ok (out, sab))
    (m2 : mergeOddpos b.parity b.oddpos a.oddpos = .ok (out, sba))
    (hsab : sab = 1 ∨ sab = -1)
    (m3 : sba = sab * sgn (a.parity.toNat * b.parity.toNat))
    (hc : a.tensordotF b (.pair (xa.map Int.ofNat) (xb.map Int.ofNat)) .blockwise = .ok c) :
    ∃ c', b.tensordotF a (.pair (xb.map Int.ofNat) (xa.map Int.ofNat)) .blockwise = .ok c'
      ∧ c'.oddpos = c.oddpos ∧ c'.charge = c.charge ∧ c'.sym = c.sym ∧ c'.fermi = c.fermi
      ∧ ∀ (L Rr : Sector) (oL oR : List Nat), L.length = (freeAxes a.ndim xa).length →
          Rr.length = (freeAxes b.ndim xb).length → oL.length = (freeAxes a.ndim xa).length →
          oR.length = (freeAxes b.ndim xb).length →
          inBox (Arr.blockShapeD (without a.indices xa ++ without b.indices xb) (L ++ Rr))
            (oL ++ oR) = true →
          c'.elem (Rr ++ L) (oR ++ oL)
            = sgnI (koszul ((L ++ Rr).map a.sym.parity)
                (some ((List.range Rr.length).map (L.length + ·) ++ List.range L.length)))
                (c.elem (L ++ Rr) (oL ++ oR)) := by
  have h' := admW_swap h
  rw [tensordotF_eq_core_w a b xa xb h] at hc
  rw [tensordotF_eq_core_w b a xb xa h']
  rw [m1] at hc
  rw [m2]
  simp only [Except.map, Except.ok.injEq] at hc ⊢
  subst hc
  have F := coreT_frame_w a b xa xb h
  have F' := coreT_frame_w b a xb xa h'
  have hsign : ∀ (T : Arr R) (r : List (Int × Bool) × Int), Lazy.SignOk T → ∀ s o,
      (finish T r).elem s o = sgnI r.2 (T.elem s o) := by
    intro T r hTs s o
    show (if (r.2 == -1) = true then T.phaseGlobal else T).elem s o = _
    by_cases hph : r.2 = -1
    · rw [hph]
      simp only [beq_self_eq_true, if_true]
      rw [Lazy.phaseGlobal_elem _ hTs, Lazy.sgnI_neg_one]
    · have : (r.2 == -1) = false := by simpa using hph
      simp only [this, Bool.false_eq_true, if_false]
      unfold sgnI
      rw [if_neg hph]
  have hok : ∀ (a0 b0 : Arr R) (x0 y0 : List Nat), CoreFrame a0 b0 x0 y0 (coreT a0 b0 x0 y0) →
      Lazy.SignOk (coreT a0 b0 x0 y0) := by
    intro a0 b0 x0 y0 F0
    refine ⟨by rw [F0.sectors]; exact nodup_eraseDups _, ?_⟩
    rw [F0.phases]; exact Lazy.PhOk.nil
  have hfield : ∀ (T : Arr R) (r : List (Int × Bool) × Int),
      (finish T r).charge = T.charge ∧ (finish T r).sym = T.sym ∧ (finish T r).fermi = T.fermi := by
    intro T r
    unfold finish
    split <;> exact ⟨rfl, rfl, rfl⟩
  refine ⟨_, rfl, rfl, ?_, ?_, ?_, ?_⟩
  · rw [(hfield _ _).1, (hfield _ _).1, F.charge, F'.charge, ← h.sym]
    exact C17.combine_comm a.sym b.charge a.charge
  · rw [(hfield _ _).2.1, (hfield _ _).2.1, F.sym, F'.sym, h.sym]
  · rw [(hfield _ _).2.2, (hfield _ _).2.2, F.fermi, F'.fermi, h.fa, h.fb]
  · intro L Rr oL oR hL hR hoL hoR ho
    have ho' := box_swap a b xa xb L Rr hL hR oL oR hoL hoR ho
    rw [hsign _ _ (hok _ _ _ _ F'), hsign _ _ (hok _ _ _ _ F), F'.elem _ _ _ hoR ho',
      F.elem _ _ _ hoL ho, gradedContract_swap_w a b xa xb hmul h L Rr hL oL oR]
    have hrot : koszul ((L ++ Rr).map a.sym.parity)
        (some ((List.range Rr.length).map (L.length + ·) ++ List.range L.length))
        = sgn (oddIn a.sym L * oddIn a.sym Rr) := by
      have := koszul_rot (L.map a.sym.parity) (Rr.map a.sym.parity)
      rw [List.length_map, List.length_map, oddIn_eq_filter, oddIn_eq_filter, ← List.map_append] at this
      exact this
    rw [hrot]
    simp only []
    rw [m3]
    rw [sgnI_comp (Lazy.mul_pm hsab (sgn_cases _)) (sgn_cases _),
      sgnI_comp (sgn_cases _) hsab]
    congr 1
    rw [Int.mul_assoc, ← sgn_add, Int.mul_comm]
    congr 1
    apply sgn_congr
    generalize a.parity.toNat * b.parity.toNat = P
    generalize oddIn a.sym L * oddIn a.sym Rr = Q
    omega

end swap

section eqv
variable {R : Type} [AddCommMonoid R] [Mul R] [Neg R] [SignRing R] [AssocLaws R]

/-- **S5 as an equivalence, labels not necessarily distinct**: `b·a`, rotated back by `transposeF`, is
    `Eqv` to `a·b` -/
theorem swap_eqv_gen (hmul : ∀ x y : R, x * y = y * x) {a b : Arr R} {xa xb : List Nat}
    (W : AdmW a b xa xb) (out : List (Int × Bool)) (sab sba : Int)
    (m1 : mergeOddpos a.parity a.oddpos b.oddpos = .ok (out, sab))
    (m2 : mergeOddpos b.parity b.oddpos a.oddpos = .ok (out, sba))
    (hsab : sab = 1 ∨ sab = -1) (hsba : sba = 1 ∨ sba = -1)
    (m3 : sba = sab * sgn (a.parity.toNat * b.parity.toNat)) (c : Arr R)
    (hc : tdF a b xa xb = .ok c) :
    ∃ c', tdF b a xb xa = .ok c' ∧ c'.validB = true
      ∧ (c'.transposeF (rotB (freeAxes b.ndim xb).length (freeAxes a.ndim xa).length)).validB = true
      ∧ Eqv (c'.transposeF (rotB (freeAxes b.ndim xb).length (freeAxes a.ndim xa).length)) c := by
  have hsa := Arr.shapesOk_of_validB W.va
  have hsb := Arr.shapesOk_of_validB W.vb
  obtain ⟨eZ, I, _⟩ := inter_of_call_w a b xa xb W (out, sab) m1 hsab
  have hc' := hc
  unfold tdF at hc'
  rw [eZ] at hc'
  obtain rfl := Except.ok.inj hc'
  have W' := admW_swap W
  obtain ⟨ec', I', _⟩ := inter_of_call_w b a xb xa W' (out, sba) m2 hsba
  obtain ⟨c'', e'', q1, q2, q3, q4, q5⟩ := swap_gen_w a b _ xa xb hmul W out sab sba m1 m2 hsab m3 hc
  rw [ec'] at e''
  obtain rfl := Except.ok.inj e''
  generalize hZ : finish (coreT a b xa xb) (out, sab) = Z at *
  generalize hZ' : finish (coreT b a xb xa) (out, sba) = c' at *
  set nL := (freeAxes a.ndim xa).length with hnL
  set nR := (freeAxes b.ndim xb).length with hnR
  have hperm : Arr.isPerm (rotB nR nL) c'.ndim = true := by rw [I'.ndim]; exact rotB_isPerm nR nL
  have T := transOf_transposeF c' (rotB nR nL) I'.valid I'.fermi hperm
  have hval : (c'.transposeF (rotB nR nL)).validB = true :=
    (ValidP.validB_iff _).mpr (ValidP.transposeF_valid c' _ true ((ValidP.validB_iff c').mp I'.valid)
      I'.fermi hperm)
  have corr := swap_sectors I I' hsa hsb
  have hidx : (c'.transposeF (rotB nR nL)).indices = Z.indices := by
    rw [T.indices]; exact swap_indices I I' hsa hsb
  have hsec : ∀ s, s ∈ (c'.transposeF (rotB nR nL)).sectors ↔ s ∈ Z.sectors := by
    intro s
    rw [T.sectors, List.mem_map]
    constructor
    · rintro ⟨s', hs', rfl⟩
      obtain ⟨L, Rr, hL, hR, rfl, hs⟩ := (corr s').mp hs'
      have := permuted_rotB Rr L
      rw [hR, hL] at this
      rw [this]; exact hs
    · intro hs
      obtain ⟨sa, hA, sb, hB, hal, es⟩ := I.mem_sectors.mp hs
      have hL : (permuted sa (freeAxes a.ndim xa)).length = nL := permuted_length _ _ (by
        intro x hx; rw [Arr.sector_length hsa hA]; exact (mem_freeAxes.mp hx).1)
      have hR : (permuted sb (freeAxes b.ndim xb)).length = nR := permuted_length _ _ (by
        intro x hx; rw [Arr.sector_length hsb hB]; exact (mem_freeAxes.mp hx).1)
      refine ⟨permuted sb (freeAxes b.ndim xb) ++ permuted sa (freeAxes a.ndim xa),
        (corr _).mpr ⟨_, _, hL, hR, rfl, by rw [← es]; exact hs⟩, ?_⟩
      have := permuted_rotB (permuted sb (freeAxes b.ndim xb)) (permuted sa (freeAxes a.ndim xa))
      rw [hR, hL] at this
      rw [this, es]
  refine ⟨c', ec', I'.valid, hval, ⟨by rw [T.sym, q3], I'.fermi.trans I.fermi.symm, q2, q1, hidx, hsec, ?_⟩⟩
  intro s o ho
  by_cases hs : s ∈ (c'.transposeF (rotB nR nL)).sectors
  · have hbox := ho hs
    have hsZ := (hsec s).mp hs
    obtain ⟨sa, hA, sb, hB, hal, es⟩ := I.mem_sectors.mp hsZ
    subst es
    have hL : (permuted sa (freeAxes a.ndim xa)).length = nL := permuted_length _ _ (by
      intro x hx; rw [Arr.sector_length hsa hA]; exact (mem_freeAxes.mp hx).1)
    have hR : (permuted sb (freeAxes b.ndim xb)).length = nR := permuted_length _ _ (by
      intro x hx; rw [Arr.sector_length hsb hB]; exact (mem_freeAxes.mp hx).1)
    obtain ⟨shpA, hA1, hA2, hA3, hA4⟩ := shape_of_mem hsa hA
    obtain ⟨shpB, hB1, hB2, hB3, hB4⟩ := shape_of_mem hsb hB
    have hFA : (permuted (Arr.blockShapeD a.indices sa) (freeAxes a.ndim xa)).length = nL :=
      permuted_length _ _ (by intro x hx; rw [hA2, hA3]; exact (mem_freeAxes.mp hx).1)
    have hFB : (permuted (Arr.blockShapeD b.indices sb) (freeAxes b.ndim xb)).length = nR :=
      permuted_length _ _ (by intro x hx; rw [hB2, hB3]; exact (mem_freeAxes.mp hx).1)
    rw [hidx, Arr.blockShapeD, I.shape hsa hsb hA hB hal] at hbox
    change inBox (permuted (Arr.blockShapeD a.indices sa) (freeAxes a.ndim xa)
      ++ permuted (Arr.blockShapeD b.indices sb) (freeAxes b.ndim xb)) o = true at hbox
    have hol := inBox_length hbox
    rw [List.length_append, hFA, hFB] at hol
    have hsplit : o = o.take nL ++ o.drop nL := (List.take_append_drop _ _).symm
    have htl : (o.take nL).length = nL := by rw [List.length_take]; omega
    have hdl : (o.drop nL).length = nR := by rw [List.length_drop]; omega
    rw [hsplit, inBox_append (by rw [htl, hFA]), Bool.and_eq_true] at hbox
    obtain ⟨bL, bR⟩ := hbox
    have hswap := q5 _ _ (o.take nL) (o.drop nL) hL hR htl hdl (by
      rw [Arr.blockShapeD, I.shapeU hsa hsb hA hB hal]
      change inBox (_ ++ _) _ = true
      rw [inBox_append (by rw [htl, hFA]), bL, bR]; rfl)
    have hs' : permuted sb (freeAxes b.ndim xb) ++ permuted sa (freeAxes a.ndim xa) ∈ c'.sectors :=
      (corr _).mpr ⟨_, _, hL, hR, rfl, hsZ⟩
    have hT := T.elem _ hs' (o.drop nL ++ o.take nL) (by
      rw [Arr.blockShapeD, I'.shape hsb hsa hB hA hal.symm]
      change inBox (_ ++ _) _ = true
      rw [inBox_append (by rw [hdl, hFB]), bR, bL]; rfl)
    have r1 := permuted_rotB (permuted sb (freeAxes b.ndim xb)) (permuted sa (freeAxes a.ndim xa))
    rw [hR, hL] at r1
    have r2 := permuted_rotB (o.drop nL) (o.take nL)
    rw [hdl, htl] at r2
    rw [r1, r2, hswap] at hT
    rw [← hsplit] at hT
    rw [hT]
    have k1 := koszul_rot ((permuted sa (freeAxes a.ndim xa)).map a.sym.parity)
      ((permuted sb (freeAxes b.ndim xb)).map a.sym.parity)
    rw [List.length_map, List.length_map, ← List.map_append] at k1
    have k2 := koszul_rot ((permuted sb (freeAxes b.ndim xb)).map a.sym.parity)
      ((permuted sa (freeAxes a.ndim xa)).map a.sym.parity)
    rw [List.length_map, List.length_map, ← List.map_append, hR, hL] at k2
    have hpar : c'.parities (permuted sb (freeAxes b.ndim xb) ++ permuted sa (freeAxes a.ndim xa))
        = (permuted sb (freeAxes b.ndim xb) ++ permuted sa (freeAxes a.ndim xa)).map a.sym.parity := by
      unfold Arr.parities; rw [q3, I.sym]
    have hrot : rotB nR nL = (List.range nL).map (nR + ·) ++ List.range nR := rfl
    rw [hpar, hrot, k2, k1, sgnI_comp (sgn_cases _) (sgn_cases _), ← sgn_add]
    have : sgn ((List.filter id (List.map a.sym.parity (permuted sb (freeAxes b.ndim xb)))).length
        * (List.filter id (List.map a.sym.parity (permuted sa (freeAxes a.ndim xa)))).length
        + (List.filter id (List.map a.sym.parity (permuted sa (freeAxes a.ndim xa)))).length
        * (List.filter id (List.map a.sym.parity (permuted sb (freeAxes b.ndim xb)))).length) = 1 := by
      rw [Nat.mul_comm, ← Nat.two_mul]
      unfold sgn; simp
    rw [this, Lazy.sgnI_one]
  · rw [Arr.elem_of_not_mem hs, Arr.elem_of_not_mem (fun h => hs ((hsec s).mpr h))]

end eqv

end SymmModel.NormNet
