/-
  SymmModel.Proofs.Recon2Solve — `a @ solve(a, b)` when the EVEN matrix `a` itself carries labels.
  `solve_fermionic` gives the solution the labels of `b` only, so the product carries the sorted
  merge of the labels of `a` and `b` and the label-sort sign.  The proof is
  `ReconP.solve_recon_fermi_labels` with the label step replaced by the general merge.
  Namespace `SymmModel.Recon2P`.
-/
import SymmModel.Proofs.ReconSolve

namespace SymmModel
namespace Recon2P
open LinalgLemmas ReconP OddposP

variable {R : Type}

theorem solve_recon_fermi_labelled [Zero R] [Add R] [Mul R] [Neg R] [Lazy.LawfulNeg R] {K : Kernels R}
    (hK : K.ShapeOk) {a b x : Arr R} (hva : a.validB = true) (hvb : b.validB = true)
    (hfa : a.fermi = true) (hfb : b.fermi = true) (hd : LabelsDistinct (a.oddpos ++ b.oddpos))
    (hS : K.SolvesOn a.phaseSync b.phaseSync) (h : solveA K a b = .ok x) :
    ∃ y out ph, Arr.matmulF a x = .ok y
      ∧ mergeOddpos a.parity a.oddpos b.oddpos = .ok (out, ph)
      ∧ y.oddpos = out ∧ out.Perm (a.oddpos ++ b.oddpos) ∧ OddSorted out ∧
      ∀ s arr, (s, arr) ∈ a.blocks → [s.getD 0 (0, 0)] ∈ b.sectors →
        ∀ i, i < arr.shape.getD 0 0 →
          y.elem [s.getD 0 (0, 0)] [i] = Lazy.sgnI ph (b.elem [s.getD 0 (0, 0)] [i]) := by
  have hn0 : -(0 : R) = 0 := Lazy.LawfulNeg.neg_zero
  obtain ⟨h2, h1, hx⟩ := solveA_ok_eq hva h
  obtain ⟨f1, f2, f3, f4, f5, f6⟩ := syncIf_fields a
  obtain ⟨g1, g2, g3, g4, g5⟩ := syncB_fields (syncIf a) b
  have hva' := syncIf_valid a hva
  have h2' : (syncIf a).ndim = 2 := by rw [syncIf_ndim]; exact h2
  have hfA : (syncIf a).fermi = true := f2.trans hfa
  have hBph : (syncB (syncIf a) b).phases = [] :=
    syncB_phases _ b hvb (by rw [f2, hfa, hfb])
  have hXph : (solveX K (syncIf a) (syncB (syncIf a) b)).phases = [] := hBph
  have hXnd : (solveX K (syncIf a) (syncB (syncIf a) b)).sectors.Nodup :=
    solveBlocks_keys_nodup hva' h2'
  have hxi : x.indices = [((syncIf a).indices.getD 1 default).conj] := by
    rw [hx]; split
    · rw [(phaseFlip_fields _ [0]).2.2.1]; rfl
    · rfl
  -- after `__matmul__`'s own flip the solution has no pending signs
  have hb1 : (if ((syncIf a).indices.getD 1 default).conj.dual then x.phaseFlip [0] else x).phases = []
      ∧ (if ((syncIf a).indices.getD 1 default).conj.dual then x.phaseFlip [0] else x).blocks
          = solveBlocks K (syncIf a) (syncB (syncIf a) b)
      ∧ (if ((syncIf a).indices.getD 1 default).conj.dual then x.phaseFlip [0] else x).oddpos
          = b.oddpos := by
    by_cases hd : ((syncIf a).indices.getD 1 default).conj.dual = true
    · have hx' : x = (solveX K (syncIf a) (syncB (syncIf a) b)).phaseFlip [0] := by
        rw [hx, if_pos (by rw [hfA, hd]; rfl)]
      rw [if_pos hd]
      refine ⟨?_, ?_, ?_⟩
      · rw [hx']; exact phaseFlip0_twice _ hXph hXnd
      · rw [(phaseFlip_fields _ [0]).2.2.2.2.1, hx', (phaseFlip_fields _ [0]).2.2.2.2.1]; rfl
      · rw [(phaseFlip_fields _ [0]).2.2.2.2.2, hx', (phaseFlip_fields _ [0]).2.2.2.2.2]; exact g5
    · have hx' : x = solveX K (syncIf a) (syncB (syncIf a) b) := by
        rw [hx, if_neg (by rw [hfA]; simpa using hd)]
      rw [if_neg hd, hx']
      exact ⟨hXph, rfl, g5⟩
  obtain ⟨hb1p, hb1b, hb1o⟩ := hb1
  rw [matmulF_eq_21 a x h2 _ hxi]
  have hb2b := (phaseSync_blocks_nil _ hb1p).trans hb1b
  have ha2b : a.phaseSync.blocks = (syncIf a).blocks := (syncIf_blocks_fermi a hfa).symm
  have hcb := (tdot_blocks_congr ha2b
      (hb2b.trans (show solveBlocks K (syncIf a) (syncB (syncIf a) b)
        = (solveX K (syncIf a) (syncB (syncIf a) b)).blocks from rfl)) [0] [1] [0] []).trans
    (solve_tdot_blocks (K := K) (b := syncB (syncIf a) b) hva' h2')
  obtain ⟨out, hperm, hsorted, hmg⟩ := mergeOddpos_spec a.parity a.oddpos b.oddpos hd
  generalize hT : tensordotBlockwise a.phaseSync
      (if ((syncIf a).indices.getD 1 default).conj.dual then x.phaseFlip [0] else x).phaseSync
      [0] [1] [0] [] = T at hcb
  have hTph : T.phases = [] := by rw [← hT]; rfl
  have hTkeys : T.sectors.Nodup := by
    show (T.blocks.map (·.1)).Nodup
    rw [hcb]
    apply nodup_filterMap_keys (syncIf a).blocks _ (fun q : Sector × Blk R => q.1)
      (fun p => [p.1.getD 0 (0, 0)])
    · have := rowCharges_nodup hva' h2'
      have h' := nodup_map_of_inj _ (fun c : Charge => [c]) this (fun a _ b _ e => (List.cons.inj e).1)
      simpa [Arr.sectors, List.map_map, Function.comp_def] using h'
    · intro p q hpq
      cases hl' : alookup (syncB (syncIf a) b).blocks [p.1.getD 0 (0, 0)] with
      | none => rw [hl'] at hpq; cases hpq
      | some bb' => rw [hl'] at hpq; cases hpq; rfl
  have hTok : Lazy.SignOk T := ⟨hTkeys, by rw [hTph]; exact Lazy.PhOk.nil⟩
  rw [resolveCombinedOddpos_eq]
  have hx2o : (if ((syncIf a).indices.getD 1 default).conj.dual then x.phaseFlip [0]
      else x).phaseSync.oddpos = b.oddpos := hb1o
  rw [hx2o, show a.phaseSync.parity = a.parity from rfl, show a.phaseSync.oddpos = a.oddpos from rfl, hmg]
  refine ⟨_, out, _, rfl, rfl, rfl, hperm, hsorted, ?_⟩
  suffices hTval : ∀ s arr, (s, arr) ∈ a.blocks → [s.getD 0 (0, 0)] ∈ b.sectors →
      ∀ i, i < arr.shape.getD 0 0 → T.elem [s.getD 0 (0, 0)] [i] = b.elem [s.getD 0 (0, 0)] [i] by
    intro s arr hm hbs i hi
    generalize KoszulP.sgn (a.parity.toNat * b.oddpos.length + KoszulP.invR oddR (a.oddpos ++ b.oddpos)) = ph
    show (if ph == -1 then T.phaseGlobal else T).elem _ _ = _
    by_cases hph : ph = -1
    · subst hph
      simp only [beq_self_eq_true, if_true]
      rw [Lazy.phaseGlobal_elem T hTok, hTval s arr hm hbs i hi, Lazy.sgnI_neg_one]
    · have : (ph == -1) = false := by simpa using hph
      simp only [this, Bool.false_eq_true, if_false]
      rw [hTval s arr hm hbs i hi]
      unfold Lazy.sgnI
      rw [if_neg hph]
  intro s arr hm hbs i hi
  -- the corresponding blocks of the synced operands
  obtain ⟨i0, i1, hidx⟩ := ndim_two h2'
  have hs' : s ∈ (syncIf a).sectors := by rw [f6]; exact List.mem_map.mpr ⟨(s, arr), hm, rfl⟩
  obtain ⟨⟨s', arr'⟩, hm', hs'e⟩ := List.mem_map.mp hs'
  have hs'e' : s' = s := hs'e
  subst hs'e'
  have hshape : arr'.shape = arr.shape := by
    have e1 := (((validB_iff _).mp hva').2.2.2.1 _ arr' hm').2.2.1
    have e2 := (((validB_iff _).mp hva).2.2.2.1 _ arr hm).2.2.1
    rw [f3] at e1
    exact Option.some.inj (e1.symm.trans e2)
  have hbsec : [s'.getD 0 (0, 0)] ∈ (syncB (syncIf a) b).sectors := by
    rw [syncB_sectors]; exact hbs
  obtain ⟨⟨_, bb⟩, hbm, hbe⟩ := List.mem_map.mp hbsec
  have hBnd := sectors_nodup (syncB_valid (syncIf a) b hvb)
  have hl : alookup (syncB (syncIf a) b).blocks [s'.getD 0 (0, 0)] = some bb := by
    apply alookup_of_mem_nodup hBnd
    rw [← hbe]; exact hbm
  obtain ⟨r, c, m, n, B⟩ := mat_block hva' hidx hm'
  have hSol : K.SolvesOn (syncIf a) (syncB (syncIf a) b) :=
    solvesOn_congr (syncIf_blocks_fermi a hfa).symm (syncB_blocks_fermi _ b hfA).symm hS
  have hi' : i < m := by rw [← hshape, B.hshape] at hi; exact hi
  have hval := hSol _ arr' bb hm' hl i (by rw [B.hshape]; exact hi')
  simp only [B.hshape, List.getD_cons_succ, List.getD_cons_zero] at hval
  have hsol := hK.solve arr' bb m n B.hshape B.hwf
  -- the block of the product
  have hkeys : (((syncIf a).blocks.filterMap (fun p =>
      (alookup (syncB (syncIf a) b).blocks [p.1.getD 0 (0, 0)]).map (fun bb =>
        ([p.1.getD 0 (0, 0)], p.2.tensordotK (K.solve p.2 bb) [1] [0])))).map (·.1)).Nodup := by
    apply nodup_filterMap_keys (syncIf a).blocks _ (fun q : Sector × Blk R => q.1)
      (fun p => [p.1.getD 0 (0, 0)])
    · have := rowCharges_nodup hva' h2'
      have h' := nodup_map_of_inj _ (fun c : Charge => [c]) this (fun a _ b _ e => (List.cons.inj e).1)
      simpa [Arr.sectors, List.map_map, Function.comp_def] using h'
    · intro p q hpq
      cases hl' : alookup (syncB (syncIf a) b).blocks [p.1.getD 0 (0, 0)] with
      | none => rw [hl'] at hpq; cases hpq
      | some bb' => rw [hl'] at hpq; cases hpq; rfl
  have hlook := alookup_of_mem_nodup hkeys
    (k := [s'.getD 0 (0, 0)])
    (v := arr'.tensordotK (K.solve arr' bb) [1] [0])
    (by rw [List.mem_filterMap]; exact ⟨(s', arr'), hm', by simp only [hl, Option.map_some]⟩)
  rw [← hcb] at hlook
  rw [← syncB_elem hn0 (syncIf a) b]
  simp only [Arr.elem, hlook, hl, hBph, hTph, alookup]
  rw [← hval]
  simpa using tensordotK_matvec_get arr' (K.solve arr' bb) B.hshape hsol.1 hi'

end Recon2P
end SymmModel
