/-
  SymmModel.Proofs.ReshapeJa — ONE abelian fuse call of a `reshape` plan, element by element, no signs.
  For a valid abelian array `a` and a call `G` at position `P` (`CallOk`):
    * `fuse_call_A`       the call succeeds with EITHER strategy (insert / concat, any `expand_empty`)
                          and returns the same valid abelian array `fusedArrM a G`
    * `ElemStepA`         every stored element of the result is the element of `a` at the split
                          address (lengths, box of the source block when the source sector is stored)
    * `OntoStepA`         every stored BLOCK `(s, b)` of `a` lies in ONE stored block `ns` of the result:
                          every address of `b` is the split address of an address of that block
    * `SrcStepA`          every stored block `ns` of the result contains a whole stored source block
                          (the "only if" half: a stored fused sector has a stored source sector)
-/
import SymmModel.Proofs.ReshapeIh
import SymmModel.Proofs.FuseCommute1
namespace SymmModel.ReshapeJ
open SymmModel SymmModel.Reshape SymmModel.C07 SymmModel.Reshape5 SymmModel.ReshapeH SymmModel.ReshapeI
open ReshapeP FuseP SymmModel.Lazy
set_option linter.unusedSectionVars false

variable {R : Type} [Zero R] [Neg R] [LawfulNeg R]

/-- abelian arrays carry no pending signs: `elem` reads the block -/
theorem elem_plain (x : Arr R) (hph : x.phases = []) (S : Sector) (J : List Nat) :
    x.elem S J = (match alookup x.blocks S with
      | some b => b.get J
      | none => 0) := by
  simp only [Arr.elem, hph, alookup]
  cases alookup x.blocks S <;> simp

theorem phases_of_abelian (a : Arr R) (hv : a.validB = true) (hf : a.fermi = false) : a.phases = [] := by
  simp only [Arr.validB, hf, Bool.false_eq_true, if_false, Bool.and_eq_true, List.isEmpty_iff] at hv
  exact hv.2.1

/-- the plan data of a call on consecutive axes: position `P`, identity permutation -/
theorem call_plan (a : Arr R) (G : List (List Nat)) (P lb : Nat) (hc : CallOk G P lb a.ndim) :
    GroupsOk G a.ndim ∧ (giM a G).position = P ∧ (giM a G).perm = List.range a.ndim := by
  have hok := groupsOk_of_call hc.ne hc.two hc.flat hc.le
  have hgok : C05.groupsOkB G a.ndim = true := groupsOk_iff.2 hok
  have hdl := FuseP.duals_length a
  obtain ⟨hb, _, hperm⟩ := ValidP.groupInfo_consecutive (groups := G) (duals := a.duals)
    (p := P) (n := G.flatten.length) hc.flat (flatten_pos hc.ne hc.two) (by rw [hdl]; exact hc.le)
  rw [hdl] at hperm
  have hpos : (calcFuseGroupInfo G a.duals).position = P := by
    obtain ⟨_, _, _, _, _, hb', _⟩ := C05.calcFuseGroupInfo_perm G a.duals (by rw [hdl]; exact hgok)
    have := congrArg List.length (hb'.symm.trans hb)
    simpa using this
  exact ⟨hok, hpos, hperm⟩

/-- **the call succeeds with either strategy and returns the same valid abelian array** -/
theorem fuse_call_A (a : Arr R) (G : List (List Nat)) (P lb : Nat) (hv : a.validB = true)
    (hf : a.fermi = false) (hc : CallOk G P lb a.ndim) :
    fuseDispatch a G = .ok (fusedArrM a G)
    ∧ (∀ (m : FuseMode) (e : Bool), fuseA a G m e = .ok (fusedArrM a G))
    ∧ (fusedArrM a G).validB = true ∧ (fusedArrM a G).fermi = false
    ∧ (fusedArrM a G).ndim = a.ndim - G.flatten.length + G.length := by
  obtain ⟨hok, _, _⟩ := call_plan a G P lb hc
  have hgok : C05.groupsOkB G a.ndim = true := groupsOk_iff.2 hok
  have hva := validArr_of_validB hv
  have hcore := fuseCore_multi_eq hva hok
  have hins : ∀ e : Bool, fuseA a G .insert e = .ok (fusedArrM a G) := by
    intro e; rw [C05.fuseA_eq_fuseCore a G .insert e a.ndim hgok]; exact hcore
  have hfil : G.filter (fun g => !g.isEmpty) = G := by
    rw [List.filter_eq_self]
    intro g hg
    have := hok.gne g hg
    cases g <;> simp_all
  have hall : ∀ (m : FuseMode) (e : Bool), fuseA a G m e = .ok (fusedArrM a G) := by
    intro m e
    cases m with
    | insert => exact hins e
    | concat =>
      rw [C05.fuseA_concat_eq_insert a G e hv (by rw [hfil]; exact hgok)]
      exact hins e
  obtain ⟨y', mids, w, h1, g1, hidx, hml, _, _, _, _⟩ :=
    (fuseOK_A (R := R)).fuse a G P ⟨hv, hf⟩ hc.ne hc.two hc.flat hc.le
  have h1' : fuseA a G = .ok y' := h1
  rw [hins true] at h1'
  injection h1' with h1'; subst h1'
  refine ⟨by simp only [fuseDispatch, hf, Bool.false_eq_true, if_false]; exact hins true, hall, g1.1, g1.2, ?_⟩
  have hnd : a.indices.length = a.ndim := rfl
  have hle := hc.le
  have := congrArg List.length hidx
  have hAy : (a.indices.take P).length = P := by rw [List.length_take]; omega
  simp only [List.length_append, hAy, hml, List.length_drop] at this
  have h1 : (fusedArrM a G).indices.length = (fusedArrM a G).ndim := rfl
  omega

/-- the one-call statement, abelian: every stored element of `y` is the element of `a` at the split
    address (no sign); the split address has `a.ndim` components and lies in the box of the source
    block when `a` stores the source sector -/
def ElemStepA (a y : Arr R) (G : List (List Nat)) (P : Nat) : Prop :=
  ∀ ns B, alookup y.blocks ns = some B → ∀ i, inBox B.shape i = true →
    ∃ segs : List (Sector × List Nat), segs.length = G.length
      ∧ (∀ g gaxes, G[g]? = some gaxes →
          splitAddr (y.indices.getD (P + g) default) (ns.getD (P + g) (0, 0)) (i.getD (P + g) 0) = segs[g]?)
      ∧ (ns.take P ++ (segs.map (·.1)).flatten ++ ns.drop (P + G.length)).length = a.ndim
      ∧ (i.take P ++ (segs.map (·.2)).flatten ++ i.drop (P + G.length)).length = a.ndim
      ∧ y.elem ns i = a.elem (ns.take P ++ (segs.map (·.1)).flatten ++ ns.drop (P + G.length))
            (i.take P ++ (segs.map (·.2)).flatten ++ i.drop (P + G.length))
      ∧ ∀ b, alookup a.blocks (ns.take P ++ (segs.map (·.1)).flatten ++ ns.drop (P + G.length)) = some b →
          inBox b.shape (i.take P ++ (segs.map (·.2)).flatten ++ i.drop (P + G.length)) = true

theorem expandK_eq (a : Arr R) (G : List (List Nat)) (P : Nat) (hpos : (giM a G).position = P)
    (ns : Sector) (i : List Nat) :
    expandK a G ns i = ns.take P ++ (((List.range G.length).map (segM a G ns i)).map (·.1)).flatten
      ++ ns.drop (P + G.length) := by
  simp only [expandK, hpos, List.map_map]
  rfl

theorem expandJ_eq (a : Arr R) (G : List (List Nat)) (P : Nat) (hpos : (giM a G).position = P)
    (ns : Sector) (i : List Nat) :
    expandJ a G ns i = i.take P ++ (((List.range G.length).map (segM a G ns i)).map (·.2)).flatten
      ++ i.drop (P + G.length) := by
  simp only [expandJ, hpos, List.map_map]
  rfl

theorem segs_split (a : Arr R) (G : List (List Nat)) (P lb : Nat) (hc : CallOk G P lb a.ndim)
    (hpos : (giM a G).position = P) (ns : Sector) (i : List Nat)
    (h1 : ∀ g, g < G.length → multiB G g = true →
      splitAddr (ixM a G g) (ns.getD ((giM a G).position + g) (0, 0)) (i.getD ((giM a G).position + g) 0)
        = some (segM a G ns i g)) :
    ∀ g gaxes, G[g]? = some gaxes →
      splitAddr ((fusedArrM a G).indices.getD (P + g) default) (ns.getD (P + g) (0, 0)) (i.getD (P + g) 0)
        = ((List.range G.length).map (segM a G ns i))[g]? := by
  intro g gaxes hgg
  have hgl := getElem?_lt hgg
  have h2 := hc.two gaxes (List.mem_of_getElem? hgg)
  have hm : multiB G g = true := multiB_iff.2 ⟨_, hgg, by omega⟩
  rw [List.getElem?_map, List.getElem?_range hgl]
  have := h1 g hgl hm
  rw [hpos] at this
  show splitAddr ((newIdxM a G).getD _ default) _ _ = _
  have hix : (newIdxM a G).getD (P + g) default = ixM a G g := by
    simp only [ixM]; rw [hpos]
  rw [hix]; exact this

theorem elem_call_A (a : Arr R) (G : List (List Nat)) (P lb : Nat)
    (hv : a.validB = true) (hf : a.fermi = false) (hc : CallOk G P lb a.ndim) :
    ElemStepA a (fusedArrM a G) G P := by
  obtain ⟨hok, hpos, hperm⟩ := call_plan a G P lb hc
  have hva := validArr_of_validB hv
  have hph := phases_of_abelian a hv hf
  intro ns B hB i hi
  have hB' : alookup (fusedBlocksM a G) ns = some B := hB
  obtain ⟨h1, h2⟩ := fused_getM hva hok hB' hi
  obtain ⟨sb0, hsb0, hns0, hBs⟩ := fusedBlockM_info hva hok hB'
  have hnsl : ns.length = ndimM a G := by rw [← hns0]; exact planM_newSector_length hok sb0
  have hil : i.length = ndimM a G := by rw [inBox_length hi, hBs, BshM_length]
  obtain ⟨hKl, hJl⟩ := expandK_length hva hok hnsl hil h1
  have eK := expandK_eq a G P hpos ns i
  have eJ := expandJ_eq a G P hpos ns i
  have pK : permuted (expandK a G ns i) (giM a G).perm = expandK a G ns i := by
    rw [hperm, ← hKl]; exact Lazy.permuted_range _
  have pJ : permuted (expandJ a G ns i) (giM a G).perm = expandJ a G ns i := by
    rw [hperm, ← hJl]; exact Lazy.permuted_range _
  obtain ⟨hget, hbox⟩ := h2 _ _ hKl hJl pK pJ
  refine ⟨(List.range G.length).map (segM a G ns i), by simp, segs_split a G P lb hc hpos ns i h1,
    by rw [← eK]; exact hKl, by rw [← eJ]; exact hJl, ?_, ?_⟩
  · rw [← eK, ← eJ, elem_plain a hph, elem_plain (fusedArrM a G) (by show a.phases = []; exact hph)]
    simp only [fusedArrM, hB']
    exact hget
  · intro b hb
    rw [← eK] at hb
    have := hbox b hb
    rw [pJ, hperm] at this
    have hbl : b.shape.length = a.ndim := ShapeLen.of_valid hv (_, b) (Lazy.alookup_mem hb)
    rw [← hbl, Lazy.permuted_range, eJ] at this
    exact this

/-- one call, onto, block form: every stored block `(s, b)` of `a` lies in one stored block of `y` -/
def OntoStepA (a y : Arr R) (G : List (List Nat)) (P : Nat) : Prop :=
  ∀ s b, alookup a.blocks s = some b →
    ∃ ns B, alookup y.blocks ns = some B ∧ ∀ offs, inBox b.shape offs = true →
      ∃ i, ∃ segs : List (Sector × List Nat), inBox B.shape i = true
        ∧ segs.length = G.length
        ∧ (∀ g gaxes, G[g]? = some gaxes →
            splitAddr (y.indices.getD (P + g) default) (ns.getD (P + g) (0, 0)) (i.getD (P + g) 0) = segs[g]?)
        ∧ s = ns.take P ++ (segs.map (·.1)).flatten ++ ns.drop (P + G.length)
        ∧ offs = i.take P ++ (segs.map (·.2)).flatten ++ i.drop (P + G.length)

/-- the block `ns` of the fused array that the stored block `sb` goes to, with the whole of `sb` in it -/
theorem block_into (a : Arr R) (G : List (List Nat)) (P lb : Nat)
    (hv : a.validB = true) (hc : CallOk G P lb a.ndim) (s : Sector) (b : Blk R)
    (hbs : alookup a.blocks s = some b) (B : Blk R)
    (hB : alookup (fusedArrM a G).blocks (planM a G (s, b)).newSector = some B) :
    ∀ offs, inBox b.shape offs = true →
      ∃ i, ∃ segs : List (Sector × List Nat), inBox B.shape i = true
        ∧ segs.length = G.length
        ∧ (∀ g gaxes, G[g]? = some gaxes →
            splitAddr ((fusedArrM a G).indices.getD (P + g) default)
              ((planM a G (s, b)).newSector.getD (P + g) (0, 0)) (i.getD (P + g) 0) = segs[g]?)
        ∧ s = (planM a G (s, b)).newSector.take P ++ (segs.map (·.1)).flatten
              ++ (planM a G (s, b)).newSector.drop (P + G.length)
        ∧ offs = i.take P ++ (segs.map (·.2)).flatten ++ i.drop (P + G.length) := by
  obtain ⟨hok, hpos, hperm⟩ := call_plan a G P lb hc
  have hva := validArr_of_validB hv
  intro offs ho
  have hsl : s.length = a.ndim := (hva.blk (s, b) (Lazy.alookup_mem hbs)).1
  have hbl : b.shape.length = a.ndim := ShapeLen.of_valid hv (s, b) (Lazy.alookup_mem hbs)
  have hol : offs.length = a.ndim := by rw [inBox_length ho, hbl]
  have e1 : permuted s (List.range a.ndim) = s := by rw [← hsl]; exact Lazy.permuted_range s
  have e3 : permuted offs (List.range a.ndim) = offs := by rw [← hol]; exact Lazy.permuted_range _
  obtain ⟨B', hB', hiB, _, hK, hJ⟩ := fused_ontoM hva hok (sb := (s, b)) (Lazy.alookup_mem hbs)
    (offs := offs) ho
  have hBB : B' = B := by
    have : alookup (fusedArrM a G).blocks (planM a G (s, b)).newSector = some B' := hB'
    rw [hB] at this; injection this with this; exact this.symm
  subst hBB
  rw [hperm] at hK hJ
  simp only [e1] at hK
  rw [e3] at hJ
  obtain ⟨h1, _⟩ := fused_getM hva hok hB' hiB
  refine ⟨_, (List.range G.length).map (segM a G _ _), hiB, by simp,
    segs_split a G P lb hc hpos _ _ h1, ?_, ?_⟩
  · rw [← expandK_eq a G P hpos]; exact hK
  · rw [← expandJ_eq a G P hpos]; exact hJ

theorem onto_call_A (a : Arr R) (G : List (List Nat)) (P lb : Nat)
    (hv : a.validB = true) (hc : CallOk G P lb a.ndim) :
    OntoStepA a (fusedArrM a G) G P := by
  obtain ⟨hok, _, _⟩ := call_plan a G P lb hc
  have hva := validArr_of_validB hv
  intro s b hbs
  have hbl : b.shape.length = a.ndim := ShapeLen.of_valid hv (s, b) (Lazy.alookup_mem hbs)
  -- the block exists whether or not `b` has an address: use `fusedBlocksM_inv`-free route through
  -- `fused_ontoM` needs an address; so take the block from the key list instead
  obtain ⟨B, hB, _⟩ := fusedBlockM_exists hva hok (Lazy.alookup_mem hbs)
  exact ⟨_, B, hB, block_into a G P lb hv hc s b hbs B hB⟩

/-- one call, the "only if" half: every stored block of `y` contains a whole stored block of `a` -/
def SrcStepA (a y : Arr R) (G : List (List Nat)) (P : Nat) : Prop :=
  ∀ ns B, alookup y.blocks ns = some B →
    ∃ s b, alookup a.blocks s = some b ∧ ∀ offs, inBox b.shape offs = true →
      ∃ i, ∃ segs : List (Sector × List Nat), inBox B.shape i = true
        ∧ segs.length = G.length
        ∧ (∀ g gaxes, G[g]? = some gaxes →
            splitAddr (y.indices.getD (P + g) default) (ns.getD (P + g) (0, 0)) (i.getD (P + g) 0) = segs[g]?)
        ∧ s = ns.take P ++ (segs.map (·.1)).flatten ++ ns.drop (P + G.length)
        ∧ offs = i.take P ++ (segs.map (·.2)).flatten ++ i.drop (P + G.length)

theorem src_call_A (a : Arr R) (G : List (List Nat)) (P lb : Nat)
    (hv : a.validB = true) (hc : CallOk G P lb a.ndim) :
    SrcStepA a (fusedArrM a G) G P := by
  obtain ⟨hok, _, _⟩ := call_plan a G P lb hc
  have hva := validArr_of_validB hv
  intro ns B hB
  have hB' : alookup (fusedBlocksM a G) ns = some B := hB
  obtain ⟨sb0, hsb0, hns0, _⟩ := fusedBlockM_info hva hok hB'
  obtain ⟨s, b⟩ := sb0
  have hbs : alookup a.blocks s = some b := ValidP.alookup_of_mem_nodup hva.nodup hsb0
  subst hns0
  exact ⟨s, b, hbs, block_into a G P lb hv hc s b hbs B hB⟩

end SymmModel.ReshapeJ
