/-
  SymmModel.Proofs.NetNormK2 — network form of the norm (property C10), ket-bra-first bracketings,
  part 2: the labels.  `ā·a` carries no label (`merge_nested`: nested conjugate pairs annihilate);
  the label routes of the triangles `(ā·a, b̄, b)` (`labelRoutes_X`, any sorted ket lists) and
  `(b̄, ā, a)` (`ketBraLabelsB`: a decidable check, `ketBraLabelsB_oneKet`: it holds for at most one ket
  label per tensor).
-/
import SymmModel.Proofs.NetNormK1

namespace SymmModel.NormNet
open SymmModel SymmModel.Lazy SymmModel.Norm SymmModel.TdotP SymmModel.GradedP SymmModel.RoutesP
open SymmModel.AssocP SymmModel.Assoc3P
open SymmModel.OddposP (mergeOddpos)
set_option linter.unusedSectionVars false

section labels

/-- nested conjugate pairs annihilate: the labels of `w̄·w` -/
theorem merge_nested (p : Bool) (w : List (Int × Bool)) (hk : KetLabels w)
    (hd : w.Pairwise (fun x y => x.1 ≠ y.1)) :
    ∃ s, mergeOddpos p (Arr.oddposDag w) w = .ok ([], s) ∧ (s = 1 ∨ s = -1) := by
  have hs := oddposDag_sorted_of_nondual w hk.1 hk.2
  refine ⟨(if p && w.length % 2 == 1 then (-1 : Int) else 1) * nestSign w, ?_, ?_⟩
  · unfold OddposP.mergeOddpos
    rw [resolveScan_nested w hs hd _ _ (by
      simp only [List.length_append, oddposDag_length]
      generalize w.length = n
      have : n ≤ (n + n) * (n + n) := by
        calc n ≤ n + n := by omega
          _ ≤ (n + n) * (n + n) := Nat.le_mul_self _
      omega)]
  · rcases nestSign_pm w with h | h <;> rw [h] <;> split <;> simp

/-- merging nothing with a sorted list -/
theorem merge_nil_left (l : List (Int × Bool)) (hs : l.Pairwise (fun x y => oddLt x y = true))
    (hd : l.Pairwise (fun x y => x.1 ≠ y.1)) :
    mergeOddpos false [] l = .ok (l, 1) := by
  obtain ⟨out, p1, s1, m1⟩ := OddposP.mergeOddpos_spec false [] l (show OddposP.LabelsDistinct ([] ++ l) from hd)
  have : out = l := OddposP.oddSorted_unique s1 hs (by simpa using p1)
  subst this
  rw [m1]
  simp only [List.nil_append, OddposP.invR_oddR_sorted _ hs, Bool.toNat_false, Nat.zero_mul,
    Nat.add_zero]
  rfl

/-- merging a sorted list with nothing -/
theorem merge_nil_right (p : Bool) (l : List (Int × Bool))
    (hs : l.Pairwise (fun x y => oddLt x y = true)) (hd : l.Pairwise (fun x y => x.1 ≠ y.1)) :
    mergeOddpos p l [] = .ok (l, 1) := by
  obtain ⟨out, p1, s1, m1⟩ := OddposP.mergeOddpos_spec p l []
    (show OddposP.LabelsDistinct (l ++ []) by rw [List.append_nil]; exact hd)
  have : out = l := OddposP.oddSorted_unique s1 hs (by simpa using p1)
  subst this
  rw [m1]
  simp only [List.append_nil, OddposP.invR_oddR_sorted _ hs, List.length_nil, Nat.mul_zero,
    Nat.add_zero]
  rfl

/-- the label routes of the triangle `(X, b̄, b)` for a piece `X` without labels -/
theorem labelRoutes_X (pb : Bool) (oB : List (Int × Bool)) (hk : KetLabels oB)
    (hd : oB.Pairwise (fun x y => x.1 ≠ y.1)) :
    Assoc2P.LabelRoutes false pb [] (Arr.oddposDag oB) oB := by
  have hs := oddposDag_sorted_of_nondual oB hk.1 hk.2
  have hdd := oddposDag_distinct oB hd
  obtain ⟨s, m, q⟩ := merge_nested pb oB hk hd
  refine ⟨Arr.oddposDag oB, 1, [], s, [], s, 1, merge_nil_left _ hs hdd, ?_, m, rfl, ?_, Or.inl rfl, q,
    q, Or.inl rfl⟩
  · rw [Bool.false_xor]; exact m
  · rw [Int.one_mul, Int.mul_one]

/-- the label check of the triangle `(b̄, ā, a)` (S7 for `(b̄·ā)·a = b̄·(ā·a)`) -/
def ketBraLabelsB (pA pB : Bool) (oA oB : List (Int × Bool)) : Bool :=
  C04.labelRoutesB pB pA (Arr.oddposDag oB) (Arr.oddposDag oA) oA

theorem ketBraLabelsB_spec {pA pB : Bool} {oA oB : List (Int × Bool)}
    (h : ketBraLabelsB pA pB oA oB = true) :
    Assoc2P.LabelRoutes pB pA (Arr.oddposDag oB) (Arr.oddposDag oA) oA :=
  (C04.labelRoutes_iff _ _ _ _ _).mpr h

/-- at most one ket label per tensor: the check holds for `(a, b)` or for `(b, a)` (for two labels:
    for the pair whose FIRST tensor carries the smaller label; for the other order the two routes
    `(b̄·ā)·a` and `b̄·(ā·a)` end with DIFFERENT label lists, `ketBraLabelsB_order`) -/
theorem ketBraLabelsB_oneKet (oA oB : List (Int × Bool)) (hA : OneKet oA) (hB : OneKet oB)
    (hd : (oA ++ oB).Pairwise (fun x y => x.1 ≠ y.1)) :
    ketBraLabelsB (oA.length % 2 == 1) (oB.length % 2 == 1) oA oB = true
    ∨ ketBraLabelsB (oB.length % 2 == 1) (oA.length % 2 == 1) oB oA = true := by
  unfold ketBraLabelsB
  rcases hA with rfl | ⟨x, rfl⟩ <;> rcases hB with rfl | ⟨y, rfl⟩
  · left; decide
  · left
    simp [C04.labelRoutesB, OddposP.mergeOddpos, resolveScan, pure, Except.pure, Arr.oddposDag]
  · left
    simp [C04.labelRoutesB, OddposP.mergeOddpos, resolveScan, pure, Except.pure, Arr.oddposDag]
  · have hne : x ≠ y := by simpa using hd
    have h1 : ¬ y = x := fun e => hne e.symm
    by_cases h : x < y
    · left
      have h3 : ¬ y < x := by omega
      simp [C04.labelRoutesB, OddposP.mergeOddpos, resolveScan, oddLt, pure, Except.pure,
        Arr.oddposDag, h1, hne, h, h3]
    · right
      have h3 : y < x := by omega
      simp [C04.labelRoutesB, OddposP.mergeOddpos, resolveScan, oddLt, pure, Except.pure,
        Arr.oddposDag, h1, hne, h, h3]

/-- the order matters: with the larger label on the first tensor the check fails -/
theorem ketBraLabelsB_order :
    ketBraLabelsB true true [(1, false)] [(3, false)] = true
    ∧ ketBraLabelsB true true [(3, false)] [(1, false)] = false := by decide

end labels

end SymmModel.NormNet
