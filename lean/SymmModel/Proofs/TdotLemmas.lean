/-
  SymmModel.Proofs.TdotLemmas — structure of `tensordotBlockwise` / `dropMisaligned`
  (layers L4/L5 of DESIGN §3.6 for C02 and C06).  Namespace `SymmModel.TdotP`; only
  `SymmModel.Arr.shapesOk` and `SymmModel.Arr.blockShapeD` are root-level (for dot notation).

  Contents: the pairing loop as `accum` over `tdTerms`; result sectors; `dropMisaligned`
  (what it keeps, idempotence); `dropUnused` algebra (`dropTo`); aligning first does not change
  the blockwise contraction (blocks and index tables); block shapes from index tables
  (`blockShape?` under `permuted`/`++`); the value of the result at block level
  (`tensordotBlockwise_get`) and at address level (`tensordotBlockwise_elem_pairs`); full
  contraction; `parseAxes` / `tensordotA` in blockwise mode; `matmulA` for matrices.
-/
import SymmModel.Model.Tdot
import SymmModel.Model.Valid
import SymmModel.Proofs.Accum

namespace SymmModel
namespace TdotP
variable {R : Type}

instance : LawfulBEq Sector := inferInstance

/-! ### the pairing loop -/

/-- aligned pairs of stored blocks in the order `_tensordot_blockwise` visits them
    (a's blocks outer, b's blocks inner), with the result sector of each pair -/
def tdPairs (a b : Arr R) (l xa xb r : List Nat) : List (Sector × Blk R × Blk R) :=
  a.blocks.flatMap (fun (sa, ba) =>
    (b.blocks.filter (fun (sb, _) => permuted sb xb == permuted sa xa)).map (fun (sb, bb) =>
      (permuted sa l ++ permuted sb r, ba, bb)))

/-- the `(result sector, tensordot of the pair)` list that is accumulated -/
def tdTerms [Zero R] [Add R] [Mul R] (a b : Arr R) (l xa xb r : List Nat) : List (Sector × Blk R) :=
  (tdPairs a b l xa xb r).map (fun p => (p.1, p.2.1.tensordotK p.2.2 xa xb))

theorem tensordotBlockwise_blocks [Zero R] [Add R] [Mul R] (a b : Arr R) (l xa xb r : List Nat) :
    (tensordotBlockwise a b l xa xb r).blocks =
      accum (Blk.zipWith (· + ·)) (tdTerms a b l xa xb r) := by
  unfold tensordotBlockwise tdTerms accum
  rw [List.foldl_map]
  show List.foldl _ [] (tdPairs a b l xa xb r) = _
  congr 1
  funext acc x
  obtain ⟨s, ba, bb⟩ := x
  simp only [accStep]
  cases alookup acc s <;> rfl

theorem tensordotBlockwise_charge' [Zero R] [Add R] [Mul R] (a b : Arr R) (l xa xb r : List Nat) :
    (tensordotBlockwise a b l xa xb r).charge = a.sym.combine [a.charge, b.charge] := rfl

theorem tensordotBlockwise_indices [Zero R] [Add R] [Mul R] (a b : Arr R) (l xa xb r : List Nat) :
    (tensordotBlockwise a b l xa xb r).indices =
      dropUnused (without a.indices xa ++ without b.indices xb)
        (tensordotBlockwise a b l xa xb r).sectors := rfl

theorem mem_tdPairs {a b : Arr R} {l xa xb r : List Nat} {s : Sector} {ba bb : Blk R} :
    (s, ba, bb) ∈ tdPairs a b l xa xb r ↔
      ∃ sa sb, (sa, ba) ∈ a.blocks ∧ (sb, bb) ∈ b.blocks ∧ permuted sb xb = permuted sa xa ∧
        s = permuted sa l ++ permuted sb r := by
  simp only [tdPairs, List.mem_flatMap, List.mem_map, List.mem_filter, Prod.exists, Prod.mk.injEq,
    beq_iff_eq]
  constructor
  · rintro ⟨sa, ba', hA, sb, bb', ⟨hB, hm⟩, rfl, rfl, rfl⟩
    exact ⟨sa, sb, hA, hB, hm, rfl⟩
  · rintro ⟨sa, sb, hA, hB, hm, rfl⟩
    exact ⟨sa, ba, hA, sb, bb, ⟨hB, hm⟩, rfl, rfl, rfl⟩

/-- result sectors of the aligned pairs, in visiting order (with repetitions) -/
def tdKeys (sa sb : List Sector) (l xa xb r : List Nat) : List Sector :=
  sa.flatMap (fun s => (sb.filter (fun t => permuted t xb == permuted s xa)).map
    (fun t => permuted s l ++ permuted t r))

theorem akeys_tdTerms [Zero R] [Add R] [Mul R] (a b : Arr R) (l xa xb r : List Nat) :
    akeys (tdTerms a b l xa xb r) = tdKeys a.sectors b.sectors l xa xb r := by
  simp only [akeys, tdTerms, tdPairs, tdKeys, Arr.sectors, List.map_map, List.map_flatMap,
    List.flatMap_map, List.filter_map]
  rfl

theorem mem_tdKeys {sa sb : List Sector} {l xa xb r : List Nat} {s : Sector} :
    s ∈ tdKeys sa sb l xa xb r ↔
      ∃ x ∈ sa, ∃ y ∈ sb, permuted x xa = permuted y xb ∧ s = permuted x l ++ permuted y r := by
  simp only [tdKeys, List.mem_flatMap, List.mem_map, List.mem_filter, beq_iff_eq]
  constructor
  · rintro ⟨x, hx, y, ⟨hy, hm⟩, rfl⟩; exact ⟨x, hx, y, hy, hm.symm, rfl⟩
  · rintro ⟨x, hx, y, hy, hm, rfl⟩; exact ⟨x, hx, y, ⟨hy, hm.symm⟩, rfl⟩

/-- the result's sector list: distinct keys of the aligned pairs in first-appearance order -/
theorem tensordotBlockwise_sectors_eq [Zero R] [Add R] [Mul R] (a b : Arr R) (l xa xb r : List Nat) :
    (tensordotBlockwise a b l xa xb r).sectors = (tdKeys a.sectors b.sectors l xa xb r).eraseDups := by
  rw [Arr.sectors, tensordotBlockwise_blocks]
  exact (akeys_accum _ _).trans (by rw [akeys_tdTerms])

/-! ### `dropMisaligned` -/

theorem flatMap_filter_of_nil {α β : Type} (p : α → Bool) (f : α → List β) (l : List α)
    (h : ∀ x ∈ l, p x = false → f x = []) : (l.filter p).flatMap f = l.flatMap f := by
  induction l with
  | nil => rfl
  | cons x xs ih =>
    have ih' := ih (fun y hy => h y (List.mem_cons_of_mem _ hy))
    rw [List.filter_cons]
    cases hp : p x with
    | true => simp [ih']
    | false => simp [ih', h x (by simp) hp]

theorem flatMap_congr_mem {α β : Type} {f g : α → List β} {l : List α}
    (h : ∀ x ∈ l, f x = g x) : l.flatMap f = l.flatMap g := by
  induction l with
  | nil => rfl
  | cons x xs ih =>
    rw [List.flatMap_cons, List.flatMap_cons, h x (by simp),
      ih (fun y hy => h y (List.mem_cons_of_mem _ hy))]

/-- contracted parts of the stored sectors -/
def subKeys (a : Arr R) (axes : List Nat) : List Sector := a.sectors.map (fun s => permuted s axes)

theorem mem_subKeys_of_mem {a : Arr R} {axes : List Nat} {p : Sector × Blk R} (h : p ∈ a.blocks) :
    permuted p.1 axes ∈ subKeys a axes :=
  List.mem_map.mpr ⟨p.1, List.mem_map.mpr ⟨p, h, rfl⟩, rfl⟩

/-- kept blocks of `a`: those whose contracted part occurs among `b`'s contracted parts -/
theorem dropMisaligned_fst_blocks (a b : Arr R) (xa xb : List Nat) :
    (dropMisaligned a b xa xb).1.blocks =
      a.blocks.filter (fun p => (subKeys b xb).contains (permuted p.1 xa)) := by
  show a.blocks.filter _ = _
  apply List.filter_congr
  intro p hp
  have := mem_subKeys_of_mem (axes := xa) hp
  simp only [subKeys] at this ⊢
  simp [List.contains_eq_mem, List.mem_filter, this]

/-- kept blocks of `b`: those whose contracted part occurs among `a`'s contracted parts -/
theorem dropMisaligned_snd_blocks (a b : Arr R) (xa xb : List Nat) :
    (dropMisaligned a b xa xb).2.blocks =
      b.blocks.filter (fun p => (subKeys a xa).contains (permuted p.1 xb)) := by
  show b.blocks.filter _ = _
  apply List.filter_congr
  intro p hp
  have := mem_subKeys_of_mem (axes := xb) hp
  simp only [subKeys] at this ⊢
  simp only [List.contains_eq_mem, List.mem_filter, decide_eq_true_eq]
  simp only [this, and_true]

theorem dropMisaligned_fst_indices (a b : Arr R) (xa xb : List Nat) :
    (dropMisaligned a b xa xb).1.indices = dropUnused a.indices (dropMisaligned a b xa xb).1.sectors := rfl

theorem dropMisaligned_snd_indices (a b : Arr R) (xa xb : List Nat) :
    (dropMisaligned a b xa xb).2.indices = dropUnused b.indices (dropMisaligned a b xa xb).2.sectors := rfl

/-- the aligned operands produce exactly the same list of aligned pairs -/
theorem tdPairs_dropMisaligned (a b : Arr R) (l xa xb r : List Nat) :
    tdPairs (dropMisaligned a b xa xb).1 (dropMisaligned a b xa xb).2 l xa xb r =
      tdPairs a b l xa xb r := by
  unfold tdPairs
  rw [dropMisaligned_fst_blocks, dropMisaligned_snd_blocks]
  rw [flatMap_filter_of_nil]
  · apply flatMap_congr_mem
    rintro ⟨sa, ba⟩ hpa
    simp only [List.filter_filter]
    congr 1
    apply List.filter_congr
    rintro ⟨sb, bb⟩ _
    by_cases hm : permuted sb xb = permuted sa xa
    · have := mem_subKeys_of_mem (axes := xa) hpa
      simp [hm, this]
    · simp [hm]
  · rintro ⟨sa, ba⟩ _ hnot
    simp only [List.map_eq_nil_iff, List.filter_eq_nil_iff, List.mem_filter, beq_iff_eq, and_imp,
      Prod.forall]
    intro sb bb hpb _ hm
    have := mem_subKeys_of_mem (axes := xb) hpb
    simp only [hm] at this
    simp [this] at hnot

/-! ### `dropUnused` -/

/-- per-index action of `dropUnused`: drop the charges of `ix` that are not in `present` -/
def dropTo (ix : Index) (present : List Charge) : Index :=
  let drop := ix.charges.filter (fun c => !present.contains c)
  if drop.isEmpty then ix else ix.dropCharges drop

theorem dropUnused_eq (ixs : List Index) (S : List Sector) :
    dropUnused ixs S = ixs.zipIdx.map (fun p => dropTo p.1 (S.filterMap (fun s => s[p.2]?))) := rfl

theorem dropUnused_length (ixs : List Index) (S : List Sector) : (dropUnused ixs S).length = ixs.length := by
  simp [dropUnused_eq]

theorem dropUnused_getElem? (ixs : List Index) (S : List Sector) (i : Nat) :
    (dropUnused ixs S)[i]? = ixs[i]?.map (fun ix => dropTo ix (S.filterMap (fun s => s[i]?))) := by
  rw [dropUnused_eq, List.getElem?_map, List.getElem?_zipIdx]
  cases ixs[i]? <;> simp

theorem Index.dropCharges_nil (ix : Index) : ix.dropCharges [] = ix := by
  obtain ⟨c, d, s⟩ := ix
  simp only [Index.dropCharges, List.contains_nil, Bool.not_false, List.filter_true]
  congr 1
  cases s <;> simp

theorem dropTo_eq_dropCharges (ix : Index) (S : List Charge) :
    dropTo ix S = ix.dropCharges (ix.charges.filter (fun c => !S.contains c)) := by
  unfold dropTo
  by_cases h : (ix.charges.filter (fun c => !S.contains c)).isEmpty
  · simp only [h, if_true]
    rw [List.isEmpty_iff.mp h, Index.dropCharges_nil]
  · simp only [h, Bool.false_eq_true, if_false]

theorem Index.dropCharges_congr (ix : Index) {d1 d2 : List Charge} (h : ∀ c, c ∈ d1 ↔ c ∈ d2) :
    ix.dropCharges d1 = ix.dropCharges d2 := by
  have e : ∀ c : Charge, d1.contains c = d2.contains c := by
    intro c; rw [Bool.eq_iff_iff]; simpa using h c
  obtain ⟨c, d, s⟩ := ix
  simp only [Index.dropCharges, e]

theorem Index.dropCharges_dropCharges (ix : Index) (d1 d2 : List Charge) :
    (ix.dropCharges d1).dropCharges d2 = ix.dropCharges (d1 ++ d2) := by
  obtain ⟨c, d, s⟩ := ix
  simp only [Index.dropCharges, List.filter_filter, List.contains_append, Bool.not_or]
  congr 1
  · apply List.filter_congr; intro x _; rw [Bool.and_comm]
  · cases s with
    | none => rfl
    | some se =>
      simp only [Option.map_some, List.filter_filter]
      congr 2
      apply List.filter_congr; intro x _; rw [Bool.and_comm]

theorem Index.charges_dropCharges (ix : Index) (d : List Charge) :
    (ix.dropCharges d).charges = ix.charges.filter (fun c => !d.contains c) := by
  obtain ⟨c, dd, s⟩ := ix
  simp only [Index.dropCharges, Index.charges, Index.cm, List.filter_map]
  rfl

/-- dropping to `S` and then to a subset `S'` of `S` is dropping to `S'` -/
theorem dropTo_dropTo (ix : Index) {S S' : List Charge} (h : ∀ c ∈ ix.charges, c ∈ S' → c ∈ S) :
    dropTo (dropTo ix S) S' = dropTo ix S' := by
  rw [dropTo_eq_dropCharges, dropTo_eq_dropCharges ix S, Index.dropCharges_dropCharges,
    dropTo_eq_dropCharges, Index.charges_dropCharges]
  apply Index.dropCharges_congr
  intro c
  simp only [List.mem_append, List.mem_filter, List.contains_eq_mem,
    decide_eq_false_iff_not, Bool.not_eq_eq_eq_not, Bool.not_true,
    not_and, Decidable.not_not]
  constructor
  · rintro (⟨hc, hS⟩ | ⟨⟨hc, _⟩, hS'⟩)
    · exact ⟨hc, fun h' => hS (h c hc h')⟩
    · exact ⟨hc, hS'⟩
  · rintro ⟨hc, hS'⟩
    by_cases hS : c ∈ S
    · exact Or.inr ⟨⟨hc, fun _ => hS⟩, hS'⟩
    · exact Or.inl ⟨hc, hS⟩

theorem dropTo_congr (ix : Index) {S S' : List Charge} (h : ∀ c ∈ ix.charges, c ∈ S ↔ c ∈ S') :
    dropTo ix S = dropTo ix S' := by
  rw [dropTo_eq_dropCharges, dropTo_eq_dropCharges]
  congr 1
  apply List.filter_congr
  intro c hc
  have := h c hc
  simp only [List.contains_eq_mem]
  rw [Bool.eq_iff_iff]; simp [this]

/-! ### aligning first does not change the blockwise contraction -/

theorem mem_freeAxes_lt {n : Nat} {axes : List Nat} : ∀ x ∈ freeAxes n axes, x < n :=
  fun _ hx => (mem_freeAxes.mp hx).1

theorem without_getElem? {α : Type} (X : List α) (axes : List Nat) (i : Nat) :
    (without X axes)[i]? = (freeAxes X.length axes)[i]?.bind (fun j => X[j]?) := by
  rw [without_eq_permuted_freeAxes, permuted_getElem? _ _ mem_freeAxes_lt]

theorem without_length {α : Type} (X : List α) (axes : List Nat) :
    (without X axes).length = (freeAxes X.length axes).length := by
  rw [without_eq_permuted_freeAxes, permuted_length _ _ mem_freeAxes_lt]

theorem mem_sectors_dropMisaligned_fst {a b : Arr R} {xa xb : List Nat} {x : Sector}
    (hx : x ∈ a.sectors) (hk : permuted x xa ∈ subKeys b xb) :
    x ∈ (dropMisaligned a b xa xb).1.sectors := by
  obtain ⟨p, hp, rfl⟩ := List.mem_map.mp hx
  rw [Arr.sectors, dropMisaligned_fst_blocks]
  exact List.mem_map.mpr ⟨p, List.mem_filter.mpr ⟨hp, by simpa using hk⟩, rfl⟩

theorem mem_sectors_dropMisaligned_snd {a b : Arr R} {xa xb : List Nat} {y : Sector}
    (hy : y ∈ b.sectors) (hk : permuted y xb ∈ subKeys a xa) :
    y ∈ (dropMisaligned a b xa xb).2.sectors := by
  obtain ⟨p, hp, rfl⟩ := List.mem_map.mp hy
  rw [Arr.sectors, dropMisaligned_snd_blocks]
  exact List.mem_map.mpr ⟨p, List.mem_filter.mpr ⟨hp, by simpa using hk⟩, rfl⟩

theorem Arr.ext' {x y : Arr R} (h1 : x.sym = y.sym) (h2 : x.fermi = y.fermi) (h3 : x.indices = y.indices)
    (h4 : x.charge = y.charge) (h5 : x.blocks = y.blocks) (h6 : x.phases = y.phases)
    (h7 : x.oddpos = y.oddpos) : x = y := by
  cases x; cases y; simp_all

theorem tensordotBlockwise_blocks_dropMisaligned [Zero R] [Add R] [Mul R] (a b : Arr R)
    (l xa xb r : List Nat) :
    (tensordotBlockwise (dropMisaligned a b xa xb).1 (dropMisaligned a b xa xb).2 l xa xb r).blocks =
      (tensordotBlockwise a b l xa xb r).blocks := by
  rw [tensordotBlockwise_blocks, tensordotBlockwise_blocks, tdTerms, tdTerms, tdPairs_dropMisaligned]

/-- **index tables after aligning.**  With `l`, `r` the free axes and every stored sector of full
    length, the aligned operands give the same result index tables. -/
theorem tensordotBlockwise_indices_dropMisaligned [Zero R] [Add R] [Mul R] (a b : Arr R)
    (xa xb : List Nat)
    (hla : ∀ s ∈ a.sectors, s.length = a.ndim) (hlb : ∀ s ∈ b.sectors, s.length = b.ndim) :
    (tensordotBlockwise (dropMisaligned a b xa xb).1 (dropMisaligned a b xa xb).2
        (freeAxes a.ndim xa) xa xb (freeAxes b.ndim xb)).indices =
      (tensordotBlockwise a b (freeAxes a.ndim xa) xa xb (freeAxes b.ndim xb)).indices := by
  have hblocks := tensordotBlockwise_blocks_dropMisaligned a b (freeAxes a.ndim xa) xa xb
    (freeAxes b.ndim xb)
  rw [tensordotBlockwise_indices, tensordotBlockwise_indices, Arr.sectors, hblocks, ← Arr.sectors]
  generalize hkeys : (tensordotBlockwise a b (freeAxes a.ndim xa) xa xb (freeAxes b.ndim xb)).sectors = keys
  rw [dropMisaligned_fst_indices, dropMisaligned_snd_indices]
  generalize hSa : (dropMisaligned a b xa xb).1.sectors = Sa
  generalize hSb : (dropMisaligned a b xa xb).2.sectors = Sb
  have hkmem : ∀ s ∈ keys, ∃ x ∈ a.sectors, ∃ y ∈ b.sectors, permuted x xa = permuted y xb ∧
      s = permuted x (freeAxes a.ndim xa) ++ permuted y (freeAxes b.ndim xb) := by
    intro s hs
    rw [← hkeys, tensordotBlockwise_sectors_eq, List.mem_eraseDups] at hs
    exact mem_tdKeys.mp hs
  have hlenA : (without (dropUnused a.indices Sa) xa).length = (freeAxes a.ndim xa).length := by
    rw [without_length, dropUnused_length]; rfl
  have hlenA' : (without a.indices xa).length = (freeAxes a.ndim xa).length := without_length _ _
  apply List.ext_getElem?
  intro i
  rw [dropUnused_getElem?, dropUnused_getElem?]
  by_cases hi : i < (freeAxes a.ndim xa).length
  · rw [List.getElem?_append_left (by omega), List.getElem?_append_left (by omega),
      without_getElem?, without_getElem?, dropUnused_length]
    have hj : (freeAxes a.indices.length xa)[i]? = some (freeAxes a.ndim xa)[i] :=
      List.getElem?_eq_getElem hi
    have hjlt : (freeAxes a.ndim xa)[i] < a.indices.length := mem_freeAxes_lt _ (List.getElem_mem hi)
    rw [hj, Option.bind_some, Option.bind_some, dropUnused_getElem?, List.getElem?_eq_getElem hjlt]
    simp only [Option.map_some, Option.some.injEq]
    apply dropTo_dropTo
    intro c _ hc
    obtain ⟨s, hs, hsc⟩ := List.mem_filterMap.mp hc
    obtain ⟨x, hx, y, hy, hm, rfl⟩ := hkmem s hs
    have hxl : (permuted x (freeAxes a.ndim xa)).length = (freeAxes a.ndim xa).length :=
      permuted_length _ _ (by rw [hla x hx]; exact mem_freeAxes_lt)
    rw [List.getElem?_append_left (by omega),
      permuted_getElem? _ _ (by rw [hla x hx]; exact mem_freeAxes_lt),
      List.getElem?_eq_getElem hi, Option.bind_some] at hsc
    refine List.mem_filterMap.mpr ⟨x, ?_, hsc⟩
    rw [← hSa]
    exact mem_sectors_dropMisaligned_fst hx (hm ▸ List.mem_map.mpr ⟨y, hy, rfl⟩)
  · rw [List.getElem?_append_right (by omega), List.getElem?_append_right (by omega),
      without_getElem?, without_getElem?, dropUnused_length, hlenA, hlenA']
    generalize hi' : i - (freeAxes a.ndim xa).length = i'
    by_cases hi2 : i' < (freeAxes b.ndim xb).length
    · have hj : (freeAxes b.indices.length xb)[i']? = some (freeAxes b.ndim xb)[i'] :=
        List.getElem?_eq_getElem hi2
      have hjlt : (freeAxes b.ndim xb)[i'] < b.indices.length := mem_freeAxes_lt _ (List.getElem_mem hi2)
      rw [hj, Option.bind_some, Option.bind_some, dropUnused_getElem?, List.getElem?_eq_getElem hjlt]
      simp only [Option.map_some, Option.some.injEq]
      apply dropTo_dropTo
      intro c _ hc
      obtain ⟨s, hs, hsc⟩ := List.mem_filterMap.mp hc
      obtain ⟨x, hx, y, hy, hm, rfl⟩ := hkmem s hs
      have hxl : (permuted x (freeAxes a.ndim xa)).length = (freeAxes a.ndim xa).length :=
        permuted_length _ _ (by rw [hla x hx]; exact mem_freeAxes_lt)
      rw [List.getElem?_append_right (by omega), hxl, hi',
        permuted_getElem? _ _ (by rw [hlb y hy]; exact mem_freeAxes_lt),
        List.getElem?_eq_getElem hi2, Option.bind_some] at hsc
      refine List.mem_filterMap.mpr ⟨y, ?_, hsc⟩
      rw [← hSb]
      exact mem_sectors_dropMisaligned_snd hy (hm ▸ List.mem_map.mpr ⟨x, hx, rfl⟩)
    · have hj : (freeAxes b.indices.length xb)[i']? = none := List.getElem?_eq_none (by
        show (freeAxes b.ndim xb).length ≤ i'; omega)
      rw [hj]; rfl

/-- **align_irrelevant (full form).** -/
theorem tensordotBlockwise_dropMisaligned [Zero R] [Add R] [Mul R] (a b : Arr R) (xa xb : List Nat)
    (hla : ∀ s ∈ a.sectors, s.length = a.ndim) (hlb : ∀ s ∈ b.sectors, s.length = b.ndim) :
    tensordotBlockwise (dropMisaligned a b xa xb).1 (dropMisaligned a b xa xb).2
        (freeAxes a.ndim xa) xa xb (freeAxes b.ndim xb) =
      tensordotBlockwise a b (freeAxes a.ndim xa) xa xb (freeAxes b.ndim xb) :=
  Arr.ext' rfl rfl (tensordotBlockwise_indices_dropMisaligned a b xa xb hla hlb) rfl
    (tensordotBlockwise_blocks_dropMisaligned a b _ xa xb _) rfl rfl

/-! ### `dropMisaligned` is idempotent -/

theorem dropUnused_dropUnused (ixs : List Index) (S : List Sector) :
    dropUnused (dropUnused ixs S) S = dropUnused ixs S := by
  apply List.ext_getElem?
  intro i
  rw [dropUnused_getElem?, dropUnused_getElem?]
  cases ixs[i]? with
  | none => rfl
  | some ix => simp only [Option.map_some]; rw [dropTo_dropTo]; intro c _ h; exact h

theorem dropMisaligned_blocks_idem (a b : Arr R) (xa xb : List Nat) :
    (dropMisaligned (dropMisaligned a b xa xb).1 (dropMisaligned a b xa xb).2 xa xb).1.blocks =
        (dropMisaligned a b xa xb).1.blocks ∧
    (dropMisaligned (dropMisaligned a b xa xb).1 (dropMisaligned a b xa xb).2 xa xb).2.blocks =
        (dropMisaligned a b xa xb).2.blocks := by
  constructor
  · rw [dropMisaligned_fst_blocks _ _ xa xb, List.filter_eq_self]
    intro p hp
    rw [dropMisaligned_fst_blocks] at hp
    obtain ⟨hp1, hp2⟩ := List.mem_filter.mp hp
    simp only [List.contains_eq_mem, decide_eq_true_eq] at hp2 ⊢
    obtain ⟨y, hy, hyk⟩ := List.mem_map.mp hp2
    refine List.mem_map.mpr ⟨y, mem_sectors_dropMisaligned_snd hy ?_, hyk⟩
    rw [hyk]; exact mem_subKeys_of_mem hp1
  · rw [dropMisaligned_snd_blocks _ _ xa xb, List.filter_eq_self]
    intro p hp
    rw [dropMisaligned_snd_blocks] at hp
    obtain ⟨hp1, hp2⟩ := List.mem_filter.mp hp
    simp only [List.contains_eq_mem, decide_eq_true_eq] at hp2 ⊢
    obtain ⟨x, hx, hxk⟩ := List.mem_map.mp hp2
    refine List.mem_map.mpr ⟨x, mem_sectors_dropMisaligned_fst hx ?_, hxk⟩
    rw [hxk]; exact mem_subKeys_of_mem hp1

theorem dropMisaligned_idem (a b : Arr R) (xa xb : List Nat) :
    dropMisaligned (dropMisaligned a b xa xb).1 (dropMisaligned a b xa xb).2 xa xb =
      dropMisaligned a b xa xb := by
  obtain ⟨h1, h2⟩ := dropMisaligned_blocks_idem a b xa xb
  apply Prod.ext
  · refine Arr.ext' rfl rfl ?_ rfl h1 rfl rfl
    rw [dropMisaligned_fst_indices, Arr.sectors, h1, ← Arr.sectors, dropMisaligned_fst_indices,
      dropUnused_dropUnused]
  · refine Arr.ext' rfl rfl ?_ rfl h2 rfl rfl
    rw [dropMisaligned_snd_indices, Arr.sectors, h2, ← Arr.sectors, dropMisaligned_snd_indices,
      dropUnused_dropUnused]

/-! ### block shapes from the index tables -/

theorem mapM_id_eq_some {α : Type} (l : List (Option α)) (r : List α) :
    l.mapM id = some r ↔ l = r.map some := by
  induction l generalizing r with
  | nil => cases r <;> simp
  | cons x xs ih =>
    rw [List.mapM_cons]
    cases x with
    | none => cases r <;> simp
    | some v =>
      cases h : xs.mapM id with
      | none =>
        cases r with
        | nil => simp
        | cons y ys =>
          simp only [id, Option.bind_eq_bind, Option.bind_none, Option.bind_some, List.map_cons,
            List.cons.injEq, false_iff, not_and, reduceCtorEq]
          intro _ hxs
          have := (ih ys).mpr hxs
          rw [h] at this; cases this
      | some vs =>
        have := (ih vs).mp h
        cases r with
        | nil => simp
        | cons y ys =>
          simp only [id, Option.bind_eq_bind, Option.bind_some, Option.pure_def, Option.some.injEq,
            List.cons.injEq, List.map_cons]
          constructor
          · rintro ⟨rfl, rfl⟩; exact ⟨rfl, this⟩
          · rintro ⟨rfl, hxs⟩
            have := (ih ys).mpr hxs
            rw [h] at this
            simpa using this

theorem blockShape?_eq_some_iff (ixs : List Index) (s : Sector) (shp : List Nat) :
    Arr.blockShape? ixs s = some shp ↔
      ixs.length = s.length ∧
      List.zipWith (fun (ix : Index) c => ix.sizeOf? c) ixs s = shp.map some := by
  unfold Arr.blockShape?
  by_cases h : ixs.length = s.length
  · simp [h, mapM_id_eq_some]
  · simp [h]

theorem blockShape?_length {ixs : List Index} {s : Sector} {shp : List Nat}
    (h : Arr.blockShape? ixs s = some shp) : s.length = ixs.length ∧ shp.length = ixs.length := by
  obtain ⟨h1, h2⟩ := (blockShape?_eq_some_iff _ _ _).mp h
  have := congrArg List.length h2
  simp only [List.length_zipWith, List.length_map] at this
  omega

theorem permuted_zipWith {α β γ : Type} (f : α → β → γ) (X : List α) (Y : List β) (p : List Nat)
    (hl : X.length = Y.length) (hp : ∀ x ∈ p, x < X.length) :
    permuted (List.zipWith f X Y) p = List.zipWith f (permuted X p) (permuted Y p) := by
  apply List.ext_getElem?
  intro j
  rw [permuted_getElem? _ _ (by simpa [← hl] using hp), List.getElem?_zipWith,
    permuted_getElem? _ _ hp, permuted_getElem? _ _ (by simpa [← hl] using hp)]
  cases p[j]? with
  | none => rfl
  | some x => simp only [Option.bind_some, List.getElem?_zipWith]

theorem blockShape?_permuted {ixs : List Index} {s : Sector} {shp : List Nat}
    (h : Arr.blockShape? ixs s = some shp) (p : List Nat) (hp : ∀ x ∈ p, x < ixs.length) :
    Arr.blockShape? (permuted ixs p) (permuted s p) = some (permuted shp p) := by
  obtain ⟨hl1, hl2⟩ := blockShape?_length h
  obtain ⟨h1, h2⟩ := (blockShape?_eq_some_iff _ _ _).mp h
  rw [blockShape?_eq_some_iff]
  refine ⟨?_, ?_⟩
  · rw [permuted_length _ _ hp, permuted_length _ _ (by simpa [hl1] using hp)]
  · rw [← permuted_zipWith _ _ _ _ h1 hp, h2, permuted_map]

theorem blockShape?_append {ixs ixs' : List Index} {s s' : Sector} {shp shp' : List Nat}
    (h : Arr.blockShape? ixs s = some shp) (h' : Arr.blockShape? ixs' s' = some shp') :
    Arr.blockShape? (ixs ++ ixs') (s ++ s') = some (shp ++ shp') := by
  obtain ⟨h1, h2⟩ := (blockShape?_eq_some_iff _ _ _).mp h
  obtain ⟨h1', h2'⟩ := (blockShape?_eq_some_iff _ _ _).mp h'
  rw [blockShape?_eq_some_iff]
  refine ⟨by simp [h1, h1'], ?_⟩
  rw [List.zipWith_append h1, h2, h2', List.map_append]

/-- block shape as a total function (`[]` where `blockShape?` fails) -/
def _root_.SymmModel.Arr.blockShapeD (ixs : List Index) (s : Sector) : List Nat := (Arr.blockShape? ixs s).getD []

/-- the shapes of all stored blocks are the ones the index tables prescribe (a clause of
    `Arr.validB`) -/
def _root_.SymmModel.Arr.shapesOk (a : Arr R) : Prop := ∀ p ∈ a.blocks, Arr.blockShape? a.indices p.1 = some p.2.shape

theorem Arr.shapesOk_of_validB {a : Arr R} (h : a.validB = true) : a.shapesOk := by
  intro p hp
  simp only [Arr.validB, Bool.and_eq_true, List.all_eq_true] at h
  have := h.1.2 p hp
  obtain ⟨s, b⟩ := p
  simp only [beq_iff_eq] at this
  exact this.1.2

theorem Arr.allDistinct_of_validB {a : Arr R} (h : a.validB = true) : allDistinct a.sectors = true := by
  simp only [Arr.validB, Bool.and_eq_true] at h
  exact h.1.1.2

/-! ### the value of the result -/

/-- the stored block pairs that contribute to result sector `s`, in visiting order -/
def pairsAt (a b : Arr R) (l xa xb r : List Nat) (s : Sector) :
    List ((Sector × Blk R) × (Sector × Blk R)) :=
  a.blocks.flatMap (fun pa =>
    (b.blocks.filter (fun pb => permuted pb.1 xb == permuted pa.1 xa &&
        permuted pa.1 l ++ permuted pb.1 r == s)).map (fun pb => (pa, pb)))

theorem filter_tdTerms [Zero R] [Add R] [Mul R] (a b : Arr R) (l xa xb r : List Nat) (s : Sector) :
    (tdTerms a b l xa xb r).filter (fun p => p.1 == s) =
      (pairsAt a b l xa xb r s).map (fun q =>
        (permuted q.1.1 l ++ permuted q.2.1 r, q.1.2.tensordotK q.2.2 xa xb)) := by
  unfold tdTerms tdPairs pairsAt
  rw [List.filter_map, List.filter_flatMap, List.map_flatMap, List.map_flatMap]
  apply flatMap_congr_mem
  rintro ⟨sa, ba⟩ _
  simp only [List.filter_map, List.filter_filter, List.map_map]
  congr 1
  apply List.filter_congr
  rintro ⟨sb, bb⟩ _
  simp only [Function.comp]
  rw [Bool.and_comm]

theorem mem_pairsAt {a b : Arr R} {l xa xb r : List Nat} {s : Sector}
    {q : (Sector × Blk R) × (Sector × Blk R)} :
    q ∈ pairsAt a b l xa xb r s ↔ q.1 ∈ a.blocks ∧ q.2 ∈ b.blocks ∧
      permuted q.2.1 xb = permuted q.1.1 xa ∧ permuted q.1.1 l ++ permuted q.2.1 r = s := by
  obtain ⟨pa, pb⟩ := q
  simp only [pairsAt, List.mem_flatMap, List.mem_map, List.mem_filter, Bool.and_eq_true, beq_iff_eq,
    Prod.mk.injEq]
  constructor
  · rintro ⟨pa', hA, pb', ⟨hB, hm, hs⟩, rfl, rfl⟩; exact ⟨hA, hB, hm, hs⟩
  · rintro ⟨hA, hB, hm, hs⟩; exact ⟨pa, hA, pb, ⟨hB, hm, hs⟩, rfl, rfl⟩

/-- **block-level value.**  What the result dictionary holds for `s`, read at `o` (0 if nothing is
    stored), is the sum over the contributing pairs of their `tensordotK` entry at `o`. -/
theorem tensordotBlockwise_get [AddMonoid R] [Mul R] (a b : Arr R) (l xa xb r : List Nat)
    (s : Sector) (o : List Nat)
    (ho : ∀ q ∈ pairsAt a b l xa xb r s, inBox (q.1.2.tensordotK q.2.2 xa xb).shape o = true) :
    (match alookup (tensordotBlockwise a b l xa xb r).blocks s with
      | none => 0
      | some blk => blk.get o) =
    ((pairsAt a b l xa xb r s).map (fun q => (q.1.2.tensordotK q.2.2 xa xb).get o)).sum := by
  rw [tensordotBlockwise_blocks]
  have hf := filter_tdTerms a b l xa xb r s
  cases hp : pairsAt a b l xa xb r s with
  | nil =>
    rw [hp] at hf
    rw [accum_none _ _ _ hf]; rfl
  | cons q qs =>
    rw [hp] at hf
    have hv : ((tdTerms a b l xa xb r).filter (fun p => p.1 == s)).map (·.2) =
        q.1.2.tensordotK q.2.2 xa xb :: qs.map (fun q => q.1.2.tensordotK q.2.2 xa xb) := by
      rw [hf]; simp
    obtain ⟨blk, h1, _, h3⟩ := accum_get_sum _ s _ _ hv (ho q (by rw [hp]; simp))
    rw [h1]
    show blk.get o = _
    rw [h3, hf, List.map_map]
    rfl

/-! ### the value of the result, at the level of addresses (`elem`) -/

/-- the stored sector pairs `(sa, sb)` that contribute to result sector `s`: equal contracted
    parts, and `s` is a's free part followed by b's free part.  In visiting order. -/
def storedPairs (a b : Arr R) (l xa xb r : List Nat) (s : Sector) : List (Sector × Sector) :=
  a.sectors.flatMap (fun sa =>
    (b.sectors.filter (fun sb => permuted sb xb == permuted sa xa &&
        permuted sa l ++ permuted sb r == s)).map (fun sb => (sa, sb)))

theorem map_pairsAt (a b : Arr R) (l xa xb r : List Nat) (s : Sector) :
    (pairsAt a b l xa xb r s).map (fun q => (q.1.1, q.2.1)) = storedPairs a b l xa xb r s := by
  simp only [pairsAt, storedPairs, Arr.sectors, List.map_flatMap, List.flatMap_map, List.map_map,
    List.filter_map]
  rfl

theorem mem_storedPairs {a b : Arr R} {l xa xb r : List Nat} {s sa sb : Sector} :
    (sa, sb) ∈ storedPairs a b l xa xb r s ↔ sa ∈ a.sectors ∧ sb ∈ b.sectors ∧
      permuted sb xb = permuted sa xa ∧ permuted sa l ++ permuted sb r = s := by
  simp only [storedPairs, List.mem_flatMap, List.mem_map, List.mem_filter, Bool.and_eq_true,
    beq_iff_eq, Prod.mk.injEq]
  constructor
  · rintro ⟨sa', hA, sb', ⟨hB, hm, hs⟩, rfl, rfl⟩; exact ⟨hA, hB, hm, hs⟩
  · rintro ⟨hA, hB, hm, hs⟩; exact ⟨sa, hA, sb, ⟨hB, hm, hs⟩, rfl, rfl⟩

theorem Arr.elem_of_phases_nil [Zero R] [Neg R] {x : Arr R} (h : x.phases = []) (s : Sector)
    (o : List Nat) :
    x.elem s o = match alookup x.blocks s with
      | none => 0
      | some blk => blk.get o := by
  unfold Arr.elem
  rw [h]
  cases alookup x.blocks s <;> simp [alookup]

theorem Arr.elem_of_mem [Zero R] [Neg R] {x : Arr R} (hd : allDistinct x.sectors = true)
    (h : x.phases = []) {p : Sector × Blk R} (hp : p ∈ x.blocks) (o : List Nat) :
    x.elem p.1 o = p.2.get o := by
  rw [Arr.elem_of_phases_nil h, alookup_of_mem (l := x.blocks) hd (k := p.1) (v := p.2) hp]

/-- one term of the contraction at the level of addresses: sectors `sa`, `sb`, contracted offset
    `k`, free offsets `oL`, `oR` -/
def contractTerm [Zero R] [Neg R] [Mul R] (a b : Arr R) (xa xb : List Nat) (sa sb : Sector)
    (oL oR k : List Nat) : R :=
  a.elem sa (mergeIdx 0 a.ndim xa (freeAxes a.ndim xa) k oL) *
  b.elem sb (mergeIdx 0 b.ndim xb (freeAxes b.ndim xb) k oR)

/-- the contraction of one stored sector pair: sum over the box of the contracted sizes -/
def contractPair [AddMonoid R] [Neg R] [Mul R] (a b : Arr R) (xa xb : List Nat) (oL oR : List Nat)
    (p : Sector × Sector) : R :=
  ((allIdx (permuted (Arr.blockShapeD a.indices p.1) xa)).map
    (fun k => contractTerm a b xa xb p.1 p.2 oL oR k)).sum

/-- shape of the `tensordotK` of a contributing pair, from the index tables -/
theorem tensordotK_shape_of_pair [Zero R] [Add R] [Mul R] {a b : Arr R} {xa xb : List Nat}
    (hsa : a.shapesOk) (hsb : b.shapesOk) {pa pb : Sector × Blk R}
    (hA : pa ∈ a.blocks) (hB : pb ∈ b.blocks) :
    (pa.2.tensordotK pb.2 xa xb).shape =
      Arr.blockShapeD (without a.indices xa ++ without b.indices xb)
        (permuted pa.1 (freeAxes a.ndim xa) ++ permuted pb.1 (freeAxes b.ndim xb)) := by
  have h1 := hsa pa hA
  have h2 := hsb pb hB
  have l1 := (blockShape?_length h1).2
  have l2 := (blockShape?_length h2).2
  have ea : a.ndim = a.indices.length := rfl
  have eb : b.ndim = b.indices.length := rfl
  rw [Blk.tensordotK_shape, l1, l2, without_eq_permuted_freeAxes, without_eq_permuted_freeAxes,
    Arr.blockShapeD, ea, eb,
    blockShape?_append (blockShape?_permuted h1 _ mem_freeAxes_lt) (blockShape?_permuted h2 _ mem_freeAxes_lt)]
  rfl

/-- **flagship, sector-pair form.**  For abelian arrays (no pending signs) with distinct sector
    keys and block shapes given by the index tables, the stored element of the blockwise
    contraction at the address `(s, o)` — `o` in the box the result index tables give to `s` — is
    the sum, over the stored sector pairs `(sa, sb)` that have equal contracted parts and whose
    free parts make up `s`, of the dense contraction `Σ_k a[sa, merge k oL] * b[sb, merge k oR]`
    over the contracted box. -/
theorem tensordotBlockwise_elem_pairs [AddMonoid R] [Mul R] [Neg R] (a b : Arr R) (xa xb : List Nat)
    (hpa : a.phases = []) (hpb : b.phases = [])
    (hda : allDistinct a.sectors = true) (hdb : allDistinct b.sectors = true)
    (hsa : a.shapesOk) (hsb : b.shapesOk) (s : Sector) (o : List Nat)
    (ho : inBox (Arr.blockShapeD (without a.indices xa ++ without b.indices xb) s) o = true) :
    (tensordotBlockwise a b (freeAxes a.ndim xa) xa xb (freeAxes b.ndim xb)).elem s o =
      ((storedPairs a b (freeAxes a.ndim xa) xa xb (freeAxes b.ndim xb) s).map
        (contractPair a b xa xb (o.take (freeAxes a.ndim xa).length)
          (o.drop (freeAxes a.ndim xa).length))).sum := by
  have hshape : ∀ q ∈ pairsAt a b (freeAxes a.ndim xa) xa xb (freeAxes b.ndim xb) s,
      (q.1.2.tensordotK q.2.2 xa xb).shape =
        Arr.blockShapeD (without a.indices xa ++ without b.indices xb) s := by
    intro q hq
    obtain ⟨hA, hB, _, hs⟩ := mem_pairsAt.mp hq
    rw [tensordotK_shape_of_pair hsa hsb hA hB, hs]
  rw [Arr.elem_of_phases_nil (show (tensordotBlockwise a b _ xa xb _).phases = [] from hpa),
    tensordotBlockwise_get a b _ xa xb _ s o (fun q hq => by rw [hshape q hq]; exact ho),
    ← map_pairsAt, List.map_map]
  congr 1
  apply List.map_congr_left
  intro q hq
  obtain ⟨hA, hB, _, _⟩ := mem_pairsAt.mp hq
  have l1 := (blockShape?_length (hsa _ hA)).2
  have l2 := (blockShape?_length (hsb _ hB)).2
  rw [Blk.tensordotK_get_sum _ _ xa xb (by rw [hshape q hq]; exact ho)]
  have e : Arr.blockShapeD a.indices q.1.1 = q.1.2.shape := by
    rw [Arr.blockShapeD, hsa _ hA]; rfl
  have ea : a.ndim = a.indices.length := rfl
  have eb : b.ndim = b.indices.length := rfl
  simp only [Function.comp, contractPair, contractTerm, Blk.tdTerm, Arr.elem_of_mem hda hpa hA,
    Arr.elem_of_mem hdb hpb hB, e, l1, l2, ea, eb]

/-! ### full contraction: the scalar result -/

/-- all aligned stored sector pairs (equal contracted parts), in visiting order -/
def alignedPairs (a b : Arr R) (xa xb : List Nat) : List (Sector × Sector) :=
  a.sectors.flatMap (fun sa =>
    (b.sectors.filter (fun sb => permuted sb xb == permuted sa xa)).map (fun sb => (sa, sb)))

theorem storedPairs_nil_nil (a b : Arr R) (xa xb : List Nat) :
    storedPairs a b [] xa xb [] [] = alignedPairs a b xa xb := by
  unfold storedPairs alignedPairs
  apply flatMap_congr_mem
  intro sa _
  congr 1
  apply List.filter_congr
  intro sb _
  simp [permuted]

theorem tdKeys_nil_nil (sa sb : List Sector) (xa xb : List Nat) :
    ∀ s ∈ tdKeys sa sb [] xa xb [], s = [] := by
  intro s hs
  obtain ⟨x, _, y, _, _, rfl⟩ := mem_tdKeys.mp hs
  simp [permuted]

theorem tdKeys_eq_map_alignedPairs (a b : Arr R) (l xa xb r : List Nat) :
    tdKeys a.sectors b.sectors l xa xb r =
      (alignedPairs a b xa xb).map (fun p => permuted p.1 l ++ permuted p.2 r) := by
  simp only [tdKeys, alignedPairs, List.map_flatMap, List.map_map]
  rfl

theorem eraseDups_of_all_eq {α : Type} [BEq α] [LawfulBEq α] (c : α) (l : List α)
    (h : ∀ x ∈ l, x = c) : l.eraseDups = if l.isEmpty then [] else [c] := by
  cases l with
  | nil => rfl
  | cons x xs =>
    have hx : x = c := h x (by simp)
    subst hx
    rw [List.eraseDups_cons]
    have : xs.filter (fun b => !b == x) = [] := by
      rw [List.filter_eq_nil_iff]
      intro y hy
      simp [h y (List.mem_cons_of_mem _ hy)]
    rw [this]; rfl

/-- for a full contraction the result has the single key `[]`, or no block when nothing aligns -/
theorem tensordotBlockwise_sectors_scalar [Zero R] [Add R] [Mul R] (a b : Arr R) (xa xb : List Nat) :
    (tensordotBlockwise a b [] xa xb []).sectors =
      if (alignedPairs a b xa xb).isEmpty then [] else [[]] := by
  rw [tensordotBlockwise_sectors_eq, eraseDups_of_all_eq [] _ (tdKeys_nil_nil _ _ xa xb),
    tdKeys_eq_map_alignedPairs]
  simp

/-! ### `tensordotA`, `parseAxes` -/

/-- `x % ndim` of Python, as a natural number -/
def normAxis (n : Nat) (x : Int) : Nat := (x % (n : Int)).toNat

theorem normAxis_lt {n : Nat} (hn : 0 < n) (x : Int) : normAxis n x < n := by
  unfold normAxis
  have h1 : 0 ≤ x % (n : Int) := Int.emod_nonneg _ (by omega)
  have h2 : x % (n : Int) < n := Int.emod_lt_of_pos _ (by omega)
  omega

theorem normAxis_of_nonneg {n : Nat} {x : Int} (h0 : 0 ≤ x) (h1 : x < n) : normAxis n x = x.toNat := by
  unfold normAxis; rw [Int.emod_eq_of_lt h0 h1]

/-- negative axes count from the end -/
theorem normAxis_of_neg {n : Nat} {x : Int} (h0 : x < 0) (h1 : -(n : Int) ≤ x) :
    normAxis n x = (x + n).toNat := by
  unfold normAxis
  rw [← Int.add_emod_right, Int.emod_eq_of_lt (by omega) (by omega)]

theorem parseAxes_pair {na nb : Nat} {xa xb : List Int} (hl : xa.length = xb.length)
    (ha : 0 < na ∨ xa = []) (hb : 0 < nb ∨ xb = []) :
    parseAxes na nb (.pair xa xb) = .ok (xa.map (normAxis na), xb.map (normAxis nb)) := by
  unfold parseAxes
  have c1 : (na == 0 && !xa.isEmpty) = false := by
    rcases ha with h | h
    · have : (na == 0) = false := by simp; omega
      simp [this]
    · simp [h]
  have c2 : (nb == 0 && !xb.isEmpty) = false := by
    rcases hb with h | h
    · have : (nb == 0) = false := by simp; omega
      simp [this]
    · simp [h]
  simp only [c1, c2, Bool.false_eq_true, if_false, hl, bne_self_eq_false]
  rfl

theorem parseAxes_int (na nb n : Nat) :
    parseAxes na nb (.int n) = .ok ((List.range na).drop (na - n), List.range n) := rfl

/-- blockwise mode of `tensordot_abelian`: parse (and normalise) the axes, take the complements as
    free axes, run `_tensordot_blockwise` -/
theorem tensordotA_blockwise' [Zero R] [Add R] [Mul R] (a b : Arr R) (axes : AxesArg) :
    tensordotA a b axes .blockwise =
      (parseAxes a.ndim b.ndim axes).map (fun x =>
        tensordotBlockwise a b (freeAxes a.ndim x.1) x.1 x.2 (freeAxes b.ndim x.2)) := by
  unfold tensordotA
  cases h : parseAxes a.ndim b.ndim axes with
  | error e => rfl
  | ok x =>
    obtain ⟨xa, xb⟩ := x
    simp only [Except.map, without_range]
    rfl

theorem dropMisaligned_ndim (a b : Arr R) (xa xb : List Nat) :
    (dropMisaligned a b xa xb).1.ndim = a.ndim ∧ (dropMisaligned a b xa xb).2.ndim = b.ndim := by
  constructor
  · show (dropUnused a.indices _).length = _; rw [dropUnused_length]; rfl
  · show (dropUnused b.indices _).length = _; rw [dropUnused_length]; rfl

theorem dropMisaligned_sectors_length {a b : Arr R} {xa xb : List Nat}
    (hla : ∀ s ∈ a.sectors, s.length = a.ndim) (hlb : ∀ s ∈ b.sectors, s.length = b.ndim) :
    (∀ s ∈ (dropMisaligned a b xa xb).1.sectors, s.length = (dropMisaligned a b xa xb).1.ndim) ∧
    (∀ s ∈ (dropMisaligned a b xa xb).2.sectors, s.length = (dropMisaligned a b xa xb).2.ndim) := by
  obtain ⟨n1, n2⟩ := dropMisaligned_ndim a b xa xb
  constructor
  · intro s hs
    rw [n1]; apply hla
    rw [Arr.sectors, dropMisaligned_fst_blocks] at hs
    obtain ⟨p, hp, rfl⟩ := List.mem_map.mp hs
    exact List.mem_map.mpr ⟨p, (List.mem_filter.mp hp).1, rfl⟩
  · intro s hs
    rw [n2]; apply hlb
    rw [Arr.sectors, dropMisaligned_snd_blocks] at hs
    obtain ⟨p, hp, rfl⟩ := List.mem_map.mp hs
    exact List.mem_map.mpr ⟨p, (List.mem_filter.mp hp).1, rfl⟩

/-- aligning first does not change `tensordot(..., mode="blockwise")`, whatever the axes argument -/
theorem tensordotA_blockwise_dropMisaligned [Zero R] [Add R] [Mul R] (a b : Arr R) (axes : AxesArg)
    (hla : ∀ s ∈ a.sectors, s.length = a.ndim) (hlb : ∀ s ∈ b.sectors, s.length = b.ndim) :
    (parseAxes a.ndim b.ndim axes).bind (fun x =>
        tensordotA (dropMisaligned a b x.1 x.2).1 (dropMisaligned a b x.1 x.2).2 axes .blockwise) =
      tensordotA a b axes .blockwise := by
  rw [tensordotA_blockwise']
  cases h : parseAxes a.ndim b.ndim axes with
  | error e => rfl
  | ok x =>
    obtain ⟨xa, xb⟩ := x
    obtain ⟨n1, n2⟩ := dropMisaligned_ndim a b xa xb
    simp only [Except.bind, Except.map]
    rw [tensordotA_blockwise', n1, n2, h]
    simp only [Except.map]
    rw [tensordotBlockwise_dropMisaligned a b xa xb hla hlb]

theorem matmulA_22 [Zero R] [Add R] [Mul R] (a b : Arr R) (ha : a.ndim = 2) (hb : b.ndim = 2) :
    matmulA a b = .ok (tensordotBlockwise a b (freeAxes a.ndim [1]) [1] [0] (freeAxes b.ndim [0])) := by
  unfold matmulA
  rw [ha, hb]
  rfl

end TdotP
end SymmModel
