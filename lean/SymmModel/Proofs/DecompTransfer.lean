/-
  SymmModel.Proofs.DecompTransfer — `a @ b` (`Arr.matmulF`) and `tensordot(a, b, ([-1],[0]), mode)`
  (`Arr.tensordotF`, every contraction mode) have the same labels, charge and value view: both
  refine the graded contraction of `a`'s last with `b`'s first axis (C03 `matmulF_refines_graded`,
  `tensordotF_refines_graded_at`, C06d `tensordotF_refines_graded_any_mode'`), and the label merge
  that makes `@` succeed makes `tensordot` succeed in every mode
  (`RoutesP.tensordotF_eq_core`, C06d `tensordotF_modes_agree_shapes`).
  Namespace `SymmModel.DecompP`.  Nothing here changes a model definition.
-/
import SymmModel.Proofs.Recon3Prod

namespace SymmModel
namespace DecompP
set_option linter.unusedSectionVars false
open LinalgLemmas TdotP GradedP RoutesP OddposP
open Lazy (sgnI)

variable {R : Type}

/-- the scalar laws of the fermionic `eigh` reconstruction follow from `SignRing` (not a global
    instance: used with `haveI`) -/
theorem signLaws_of_signRing [AddMonoid R] [Mul R] [Neg R] [SignRing R] : SignLaws R where
  neg_zero := SignRing.neg_zero
  neg_neg := SignRing.neg_neg
  neg_mul := SignRing.neg_mul
  mul_neg := SignRing.mul_neg

section transfer
variable [AddCommMonoid R] [Mul R] [Neg R] [SignRing R]

/-- `tensordot_fermionic(a, b, ([-1],[0]), mode)` succeeds in every mode as soon as the labels
    merge, and is the graded contraction (C03) in every mode -/
theorem tensordotF_graded_all_modes (hz1 : ∀ x : R, 0 * x = 0) (hz2 : ∀ x : R, x * 0 = 0)
    (a b : Arr R) (xa xb : List Nat) (hA : Adm a b xa xb) (out : List (Int × Bool)) (ph : Int)
    (hm : mergeOddpos a.parity a.oddpos b.oddpos = .ok (out, ph)) (tm : TdotMode) :
    ∃ c, a.tensordotF b (.pair (xa.map Int.ofNat) (xb.map Int.ofNat)) tm = .ok c
      ∧ c.oddpos = out ∧ c.charge = a.sym.combine [a.charge, b.charge]
      ∧ ∀ (s : Sector) (oL oR : List Nat), oL.length = (freeAxes a.ndim xa).length →
          inBox (Arr.blockShapeD (without a.indices xa ++ without b.indices xb) s) (oL ++ oR) = true →
          c.elem s (oL ++ oR) = sgnI ph (gradedContract a b xa xb s oL oR) := by
  have hadm : ValidP.tdotAdmissibleB a b xa xb = true := by
    unfold ValidP.tdotAdmissibleB
    simp only [Bool.and_eq_true, decide_eq_true_eq, List.all_eq_true]
    exact ⟨⟨⟨⟨⟨hA.sym, hA.con⟩, allDistinct_iff_nodup.mpr hA.nA⟩, allDistinct_iff_nodup.mpr hA.nB⟩,
      hA.ltA⟩, hA.ltB⟩
  have hbw : ∃ c, a.tensordotF b (.pair (xa.map Int.ofNat) (xb.map Int.ofNat)) .blockwise = .ok c := by
    have hcore := tensordotF_eq_core a b xa xb hA
    rw [hm] at hcore
    exact ⟨_, hcore⟩
  have hmodes : ∀ m, m = TdotMode.fused ∨ m = TdotMode.auto →
      ∃ c, a.tensordotF b (.pair (xa.map Int.ofNat) (xb.map Int.ofNat)) m = .ok c
        ∧ c.oddpos = out ∧ c.charge = a.sym.combine [a.charge, b.charge]
        ∧ ∀ (s : Sector) (oL oR : List Nat), oL.length = (freeAxes a.ndim xa).length →
            inBox (Arr.blockShapeD (without a.indices xa ++ without b.indices xb) s) (oL ++ oR) = true →
            c.elem s (oL ++ oR) = sgnI ph (gradedContract a b xa xb s oL oR) := by
    intro m hmode
    obtain ⟨rm, _, h1, _⟩ := (C06.tensordotF_modes_agree_shapes hz1 hz2 a b xa xb hA m hmode).2 _ hm
    obtain ⟨out', ph', g1, g2, g3, g4⟩ :=
      C06.tensordotF_refines_graded_any_mode' hz1 hz2 a b rm xa xb hA m hmode h1
    rw [hm] at g1
    cases g1
    exact ⟨rm, h1, g2, g3, g4⟩
  cases tm with
  | blockwise =>
    obtain ⟨c, hc⟩ := hbw
    obtain ⟨out', ph', g1, g2, g3, g4⟩ :=
      C03.tensordotF_refines_graded_at a b c xa xb hA.va hA.vb hA.fa hA.fb hadm hc
    rw [hm] at g1
    cases g1
    exact ⟨c, hc, g2, g3, g4⟩
  | fused => exact hmodes .fused (Or.inl rfl)
  | auto => exact hmodes .auto (Or.inr rfl)

/-- **`@` → `tensordot`.**  Valid fermionic operands of rank 1 or 2 with contractible inner legs:
    if `a @ b` succeeds with result `y`, then `tensordot_fermionic(a, b, ([ndim a - 1],[0]), mode)`
    succeeds in EVERY mode with the labels and charge of `y` and the element of `y` at every sector
    key and every address of the table box of the result indices. -/
theorem matmulF_to_tensordotF (hz1 : ∀ x : R, 0 * x = 0) (hz2 : ∀ x : R, x * 0 = 0)
    (a b y : Arr R) (ha : a.validB = true) (hb : b.validB = true) (hfa : a.fermi = true)
    (hfb : b.fermi = true) (hna : a.ndim = 1 ∨ a.ndim = 2) (hnb : b.ndim = 1 ∨ b.ndim = 2)
    (hadm : ValidP.tdotAdmissibleB a b [a.ndim - 1] [0] = true)
    (h : a.matmulF b = .ok y) (tm : TdotMode) :
    ∃ c, a.tensordotF b (.pair [Int.ofNat (a.ndim - 1)] [0]) tm = .ok c
      ∧ c.oddpos = y.oddpos ∧ c.charge = y.charge
      ∧ ∀ (s : Sector) (oL oR : List Nat), oL.length = (freeAxes a.ndim [a.ndim - 1]).length →
          inBox (Arr.blockShapeD (without a.indices [a.ndim - 1] ++ without b.indices [0]) s)
            (oL ++ oR) = true →
          c.elem s (oL ++ oR) = y.elem s (oL ++ oR) := by
  obtain ⟨out, ph, hm, ho, hc, he⟩ :=
    C03.matmulF_refines_graded a b y ha hb hfa hfb hna hnb hadm h
  obtain ⟨c, h1, h2, h3, h4⟩ := tensordotF_graded_all_modes hz1 hz2 a b [a.ndim - 1] [0]
    (Adm.of ha hb hfa hfb hadm) out ph hm tm
  exact ⟨c, h1, h2.trans ho.symm, h3.trans hc.symm,
    fun s oL oR hl hbox => (h4 s oL oR hl hbox).trans (he s oL oR hl hbox).symm⟩

end transfer

section abelian
variable [AddCommMonoid R] [Mul R] [Neg R]

/-- **abelian `tensordot`, every mode, table box.**  Valid abelian operands with matching
    contracted legs: `tensordot_abelian` succeeds in every mode and has, at every sector key and every
    address of the table box of the result indices, the element of the blockwise contraction. -/
theorem tensordotA_all_modes_table (hz1 : ∀ x : R, 0 * x = 0) (hz2 : ∀ x : R, x * 0 = 0)
    (a b : Arr R) (axes : AxesArg) (xa xb : List Nat)
    (hparse : parseAxes a.ndim b.ndim axes = .ok (xa, xb))
    (ha : a.validB = true) (hb : b.validB = true) (hfa : a.fermi = false) (hfb : b.fermi = false)
    (hsym : a.sym = b.sym) (hc : ValidP.contractibleB a b xa xb = true)
    (hnA : xa.Nodup) (hnB : xb.Nodup) (hA : ∀ x ∈ xa, x < a.ndim) (hB : ∀ x ∈ xb, x < b.ndim)
    (tm : TdotMode) :
    ∃ c, tensordotA a b axes tm = .ok c
      ∧ ∀ K J, inBox (Arr.blockShapeD (without a.indices xa ++ without b.indices xb) K) J = true →
          c.elem K J
            = (tensordotBlockwise a b (freeAxes a.ndim xa) xa xb (freeAxes b.ndim xb)).elem K J := by
  obtain ⟨c, bw, e1, e2, e3, e4, _, _, _, _, _, _, hsec, _, hel, hshape⟩ :=
    C06.tensordotA_modes_agree_all hz1 hz2 a b axes xa xb hparse ha hb hfa hfb hsym hc hnA hnB hA hB
  have hbw := tensordotA_blockwise_ok a b axes xa xb hparse
  rw [e2] at hbw
  have hbw' : bw = tensordotBlockwise a b (freeAxes a.ndim xa) xa xb (freeAxes b.ndim xb) :=
    Except.ok.inj hbw
  subst hbw'
  have hfused : ∀ K J,
      inBox (Arr.blockShapeD (without a.indices xa ++ without b.indices xb) K) J = true →
        c.elem K J
          = (tensordotBlockwise a b (freeAxes a.ndim xa) xa xb (freeAxes b.ndim xb)).elem K J := by
    intro K J hbox
    cases hl : alookup c.blocks K with
    | some V =>
      apply hel K V hl J
      unfold Arr.blockShapeD at hbox
      rw [hshape K V hl] at hbox
      exact hbox
    | none =>
      have hK : K ∉ c.sectors := (LinalgLemmas.alookup_eq_none_iff _ _).mp hl
      have hK' : K ∉ (tensordotBlockwise a b (freeAxes a.ndim xa) xa xb
          (freeAxes b.ndim xb)).sectors := fun h => hK (hsec K h)
      have hl' := (LinalgLemmas.alookup_eq_none_iff _ _).mpr hK'
      simp only [Arr.elem, hl, hl']
  cases tm with
  | blockwise => exact ⟨_, e2, fun _ _ _ => rfl⟩
  | fused => exact ⟨c, e1, hfused⟩
  | auto =>
    by_cases hxa : xa = []
    · exact ⟨_, e4 hxa, fun _ _ _ => rfl⟩
    · exact ⟨c, e3 hxa, hfused⟩

end abelian

end DecompP
end SymmModel
