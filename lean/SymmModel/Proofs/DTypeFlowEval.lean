/-
  SymmModel.Proofs.DTypeFlowEval — the step interpreter `evalOp` and programs `runProg` of the
  dtype-flow model preserve a uniform dtype and raise no loss flag (C20b).
-/
import SymmModel.Proofs.DTypeFlowProg
namespace SymmModel.DFlow
open SymmModel DType

/-- parameters of a step that are compatible with data of dtype `d`: scalar operands that cannot
    change a `d` block, constructors asked for `d` (`random` without `dtype=` means float64) -/
def Op.admissible (d : DType) : Op → Bool
  | .scalarOp s => s.okFor d
  | .fromFill _ _ _ _ e _ => e == d
  | .random _ _ _ _ dt _ => dt.getD f64 == d
  | .fromDense _ _ _ e _ _ _ _ => e == d
  | _ => true

/-- a value all of whose dtypes are `d` (arrays) resp. `d` or its real part (vectors, scalars,
    dense vectors: singular values, eigenvalues, norms) -/
def ValOK (d : DType) : DVal → Prop
  | .arr a => Uni d a.blocks
  | .vec v => UniW d v.blocks
  | .scalar s => s.valOK d
  | .dense e => Within d e

def ValsOK (d : DType) : List DVal → Prop
  | [] => True
  | v :: vs => ValOK d v ∧ ValsOK d vs

def EnvOK (d : DType) (env : Env) : Prop := ∀ p ∈ env, ValOK d p.2

theorem okv_eq {vs outs : List DVal} {fl : Flags} (h : okv vs = .ok (outs, fl)) :
    outs = vs ∧ fl = Flags.none := by
  have := pure_ok h
  injection this with h1 h2
  exact ⟨h1.symm, h2.symm⟩

theorem pair_ok {α : Type} {x : α} {f fl : Flags} {outs : List DVal} {g : α → List DVal}
    (h : (pure (g x, f) : Except Err (List DVal × Flags)) = .ok (outs, fl)) : outs = g x ∧ fl = f := by
  have := pure_ok h
  injection this with h1 h2
  exact ⟨h1.symm, h2.symm⟩

theorem evalOp_preserves {d : DType} {op : Op} {ins outs : List DVal} {fl : Flags}
    (hadm : op.admissible d = true) (hins : ValsOK d ins) (h : evalOp op ins = .ok (outs, fl))
    (hdef : fl.defaulted = false) :
    ValsOK d outs ∧ fl.losesImag = false ∧ fl.narrows = false := by
  unfold evalOp at h
  split at h
  all_goals try simp only [ValsOK, ValOK, and_true] at hins
  -- transpose
  · split at h
    · cases h
    · obtain ⟨rfl, rfl⟩ := okv_eq h
      exact ⟨⟨transposeD_uni hins _, trivial⟩, rfl, rfl⟩
  -- conj
  · obtain ⟨rfl, rfl⟩ := okv_eq h
    exact ⟨⟨conjD_uni hins, trivial⟩, rfl, rfl⟩
  -- dagger
  · obtain ⟨rfl, rfl⟩ := okv_eq h
    exact ⟨⟨daggerD_uni hins, trivial⟩, rfl, rfl⟩
  -- keep (array)
  · obtain ⟨rfl, rfl⟩ := okv_eq h
    exact ⟨⟨hins, trivial⟩, rfl, rfl⟩
  -- keep (vector)
  · obtain ⟨rfl, rfl⟩ := okv_eq h
    exact ⟨⟨hins, trivial⟩, rfl, rfl⟩
  -- sync_charges
  · obtain ⟨rfl, rfl⟩ := okv_eq h
    exact ⟨⟨syncChargesD_uni hins, trivial⟩, rfl, rfl⟩
  -- squeeze
  · obtain ⟨r, hr, h2⟩ := bind_ok_iff.mp h
    obtain ⟨rfl, rfl⟩ := okv_eq h2
    exact ⟨⟨squeezeD_uni hins hr, trivial⟩, rfl, rfl⟩
  -- expand_dims
  · split at h
    · cases h
    · obtain ⟨rfl, rfl⟩ := okv_eq h
      exact ⟨⟨expandDimsD_uni hins _ _ _, trivial⟩, rfl, rfl⟩
  -- fuse
  · obtain ⟨r, hr, h2⟩ := bind_ok_iff.mp h
    obtain ⟨rfl, rfl⟩ := pair_ok (g := fun (r : DArr × Flags) => [DVal.arr r.1]) h2
    obtain ⟨h3, h4⟩ := fuseD_uni hins hr
    exact ⟨⟨h3, trivial⟩, by rw [h4]; rfl, by rw [h4]; rfl⟩
  -- fuse_core
  · obtain ⟨r, hr, h2⟩ := bind_ok_iff.mp h
    obtain ⟨rfl, rfl⟩ := pair_ok (g := fun (r : DArr × Flags) => [DVal.arr r.1]) h2
    obtain ⟨h3, h4⟩ := fuseCoreD_uni hins hr
    exact ⟨⟨h3, trivial⟩, by rw [h4]; rfl, by rw [h4]; rfl⟩
  -- unfuse
  · obtain ⟨r, hr, h2⟩ := bind_ok_iff.mp h
    obtain ⟨rfl, rfl⟩ := okv_eq h2
    exact ⟨⟨unfuseD_uni hins hr, trivial⟩, rfl, rfl⟩
  -- unfuse_all
  · obtain ⟨r, hr, h2⟩ := bind_ok_iff.mp h
    obtain ⟨rfl, rfl⟩ := okv_eq h2
    exact ⟨⟨unfuseAllD_uni hins hr, trivial⟩, rfl, rfl⟩
  -- reshape
  · obtain ⟨r, hr, h2⟩ := bind_ok_iff.mp h
    obtain ⟨rfl, rfl⟩ := pair_ok (g := fun (r : DArr × Flags) => [DVal.arr r.1]) h2
    obtain ⟨h3, h4⟩ := reshapeD_uni hins hr
    exact ⟨⟨h3, trivial⟩, by rw [h4]; rfl, by rw [h4]; rfl⟩
  -- tensordot
  · obtain ⟨r, hr, h2⟩ := bind_ok_iff.mp h
    obtain ⟨rfl, rfl⟩ := pair_ok (g := fun (r : DArr × Flags) => [DVal.arr r.1]) h2
    obtain ⟨h3, h4⟩ := tensordotD_uni hins.1 hins.2 hr
    exact ⟨⟨h3, trivial⟩, by rw [h4]; rfl, by rw [h4]; rfl⟩
  -- matmul
  · obtain ⟨r, hr, h2⟩ := bind_ok_iff.mp h
    obtain ⟨rfl, rfl⟩ := okv_eq h2
    exact ⟨⟨matmulD_uni hins.1 hins.2 hr, trivial⟩, rfl, rfl⟩
  -- trace
  · obtain ⟨r, hr, h2⟩ := bind_ok_iff.mp h
    obtain ⟨rfl, rfl⟩ := okv_eq h2
    exact ⟨⟨traceD_valOK hins hr, trivial⟩, rfl, rfl⟩
  -- einsum
  · obtain ⟨r, hr, h2⟩ := bind_ok_iff.mp h
    obtain ⟨rfl, rfl⟩ := okv_eq h2
    exact ⟨⟨einsumD_uni hins hr, trivial⟩, rfl, rfl⟩
  -- multiply_diagonal
  · obtain ⟨rfl, rfl⟩ := okv_eq h
    exact ⟨⟨multiplyDiagonalD_uni hins.1 hins.2 _, trivial⟩, rfl, rfl⟩
  -- align_axes
  · obtain ⟨rfl, rfl⟩ := okv_eq h
    obtain ⟨h1, h2⟩ := dropMisalignedD_uni hins.1 hins.2 _ _
    exact ⟨⟨h1, h2, trivial⟩, rfl, rfl⟩
  -- binop (arrays)
  · obtain ⟨r, hr, h2⟩ := bind_ok_iff.mp h
    obtain ⟨rfl, rfl⟩ := okv_eq h2
    exact ⟨⟨binopD_uni hins.1 hins.2 hr, trivial⟩, rfl, rfl⟩
  -- binop (vectors)
  · obtain ⟨r, hr, h2⟩ := bind_ok_iff.mp h
    obtain ⟨rfl, rfl⟩ := okv_eq h2
    unfold DVec.binopD at hr
    obtain ⟨bl, hbl, h3⟩ := bind_ok_iff.mp hr
    rw [← pure_ok h3]
    exact ⟨⟨binaryD_uniW hins.1 hins.2 hbl, trivial⟩, rfl, rfl⟩
  -- scalar op (array)
  · obtain ⟨rfl, rfl⟩ := okv_eq h
    exact ⟨⟨scalarD_uni hins hadm, trivial⟩, rfl, rfl⟩
  -- scalar op (vector)
  · obtain ⟨rfl, rfl⟩ := okv_eq h
    exact ⟨⟨vscalarD_uniW hins hadm, trivial⟩, rfl, rfl⟩
  -- scalar op (scalar)
  · obtain ⟨rfl, rfl⟩ := okv_eq h
    exact ⟨⟨combine_valOK hins hadm, trivial⟩, rfl, rfl⟩
  -- norm (array)
  · obtain ⟨r, hr, h2⟩ := bind_ok_iff.mp h
    obtain ⟨rfl, rfl⟩ := okv_eq h2
    refine ⟨⟨normD_within (d := d) ?_ hr, trivial⟩, rfl, rfl⟩
    intro x hx
    obtain ⟨p, hp, rfl⟩ := List.mem_map.mp hx
    exact Or.inl (hins p hp)
  -- norm (vector)
  · obtain ⟨r, hr, h2⟩ := bind_ok_iff.mp h
    obtain ⟨rfl, rfl⟩ := okv_eq h2
    refine ⟨⟨normD_within (d := d) ?_ hr, trivial⟩, rfl, rfl⟩
    intro x hx
    obtain ⟨p, hp, rfl⟩ := List.mem_map.mp hx
    exact hins p hp
  -- reduce (array)
  · obtain ⟨r, hr, h2⟩ := bind_ok_iff.mp h
    obtain ⟨rfl, rfl⟩ := okv_eq h2
    refine ⟨⟨reduceD_within (d := d) ?_ hr, trivial⟩, rfl, rfl⟩
    intro x hx
    obtain ⟨p, hp, rfl⟩ := List.mem_map.mp hx
    exact Or.inl (hins p hp)
  -- reduce (vector)
  · obtain ⟨r, hr, h2⟩ := bind_ok_iff.mp h
    obtain ⟨rfl, rfl⟩ := okv_eq h2
    refine ⟨⟨reduceD_within (d := d) ?_ hr, trivial⟩, rfl, rfl⟩
    intro x hx
    obtain ⟨p, hp, rfl⟩ := List.mem_map.mp hx
    exact hins p hp
  -- to_dense
  · obtain ⟨r, hr, h2⟩ := bind_ok_iff.mp h
    obtain ⟨rfl, rfl⟩ := pair_ok (g := fun (r : DType × Flags) => [DVal.dense r.1]) h2
    obtain ⟨h3, h4, h5⟩ := toDenseD_uni hins hr hdef
    exact ⟨⟨Or.inl h3, trivial⟩, h4, h5⟩
  -- fill_missing_blocks
  · obtain ⟨rfl, rfl⟩ := pair_ok (g := fun (r : DArr × Flags) => [DVal.arr r.1]) h
    obtain ⟨h3, h4, h5⟩ := fillMissingD_uni hins hdef
    exact ⟨⟨h3, trivial⟩, h4, h5⟩
  -- qr
  · obtain ⟨r, hr, h2⟩ := bind_ok_iff.mp h
    obtain ⟨rfl, rfl⟩ := okv_eq h2
    obtain ⟨h3, h4⟩ := qrD_uni hins hr
    exact ⟨⟨h3, h4, trivial⟩, rfl, rfl⟩
  -- svd
  · obtain ⟨r, hr, h2⟩ := bind_ok_iff.mp h
    obtain ⟨rfl, rfl⟩ := okv_eq h2
    obtain ⟨h3, h4, h5⟩ := svdD_uni hins hr
    exact ⟨⟨h3, uni_real_to_uniW h4, h5, trivial⟩, rfl, rfl⟩
  -- eigh
  · obtain ⟨r, hr, h2⟩ := bind_ok_iff.mp h
    obtain ⟨rfl, rfl⟩ := okv_eq h2
    obtain ⟨h3, h4⟩ := eighD_uni hins hr
    exact ⟨⟨uni_real_to_uniW h3, h4, trivial⟩, rfl, rfl⟩
  -- solve
  · obtain ⟨r, hr, h2⟩ := bind_ok_iff.mp h
    obtain ⟨rfl, rfl⟩ := okv_eq h2
    exact ⟨⟨solveD_uni hins.1 hins.2 hr, trivial⟩, rfl, rfl⟩
  -- svd_truncated
  · obtain ⟨r, hr, h2⟩ := bind_ok_iff.mp h
    obtain ⟨h3, h4, h5⟩ := svdTruncatedD_uni hins hr
    split at h2
    · rename_i s hs
      obtain ⟨rfl, rfl⟩ := okv_eq h2
      exact ⟨⟨h3, uni_real_to_uniW (h4 s hs), h5, trivial⟩, rfl, rfl⟩
    · obtain ⟨rfl, rfl⟩ := okv_eq h2
      exact ⟨⟨h3, h5, trivial⟩, rfl, rfl⟩
  -- from_fill
  · obtain ⟨r, hr, h2⟩ := bind_ok_iff.mp h
    obtain ⟨rfl, rfl⟩ := okv_eq h2
    simp only [Op.admissible, beq_iff_eq] at hadm
    subst hadm
    exact ⟨⟨fromFillD_uni hr, trivial⟩, rfl, rfl⟩
  -- random
  · obtain ⟨r, hr, h2⟩ := bind_ok_iff.mp h
    obtain ⟨rfl, rfl⟩ := okv_eq h2
    simp only [Op.admissible, beq_iff_eq] at hadm
    subst hadm
    exact ⟨⟨fromFillD_uni hr, trivial⟩, rfl, rfl⟩
  -- from_dense
  · obtain ⟨r, hr, h2⟩ := bind_ok_iff.mp h
    obtain ⟨rfl, rfl⟩ := okv_eq h2
    simp only [Op.admissible, beq_iff_eq] at hadm
    subst hadm
    exact ⟨⟨fromDenseD_uni hr, trivial⟩, rfl, rfl⟩
  -- vabs
  · obtain ⟨rfl, rfl⟩ := okv_eq h
    exact ⟨⟨vabsD_uniW hins, trivial⟩, rfl, rfl⟩
  -- vto_dense
  · obtain ⟨r, hr, h2⟩ := bind_ok_iff.mp h
    obtain ⟨rfl, rfl⟩ := okv_eq h2
    exact ⟨⟨vtoDenseD_within hins hr, trivial⟩, rfl, rfl⟩
  -- anything else is a type error
  · cases h

/-! ### programs -/

theorem valsOK_mem {d : DType} {vs : List DVal} (h : ValsOK d vs) : ∀ v ∈ vs, ValOK d v := by
  induction vs with
  | nil => intro v hv; cases hv
  | cons w ws ih =>
    intro v hv
    rcases List.mem_cons.mp hv with rfl | hv
    · exact h.1
    · exact ih h.2 v hv

theorem valsOK_of_mem {d : DType} {vs : List DVal} (h : ∀ v ∈ vs, ValOK d v) : ValsOK d vs := by
  induction vs with
  | nil => trivial
  | cons w ws ih => exact ⟨h w (by simp), ih (fun v hv => h v (by simp [hv]))⟩

theorem envOK_ainsert {d : DType} {env : Env} {n : String} {v : DVal} (he : EnvOK d env) (hv : ValOK d v) :
    EnvOK d (ainsert env n v) := by
  intro p hp
  rcases mem_ainsert hp with h | h
  · exact he p h
  · rw [h]; exact hv

theorem bindOuts_ok {d : DType} {env : Env} {outs : List String} {vals : List DVal}
    (he : EnvOK d env) (hv : ValsOK d vals) : EnvOK d (bindOuts env outs vals) := by
  unfold bindOuts
  have hz : ∀ nv ∈ outs.zip vals, ValOK d nv.2 := by
    intro nv hnv
    exact valsOK_mem hv nv.2 (List.of_mem_zip hnv).2
  generalize outs.zip vals = z at hz
  induction z generalizing env with
  | nil => exact he
  | cons nv rest ih =>
    simp only [List.foldl_cons]
    exact ih (envOK_ainsert he (hz nv (by simp))) (fun q hq => hz q (by simp [hq]))

theorem lookups_ok {d : DType} {env : Env} (he : EnvOK d env) (names : List String) (ins : List DVal)
    (h : names.mapM (fun n => match alookup env n with
      | some v => pure v
      | none => (throw Err.key : Except Err DVal)) = .ok ins) : ValsOK d ins := by
  apply valsOK_of_mem
  intro v hv
  obtain ⟨n, _, hn⟩ := mapM_ok_mem _ _ _ h v hv
  split at hn
  · rename_i w hl
    rw [← pure_ok hn]
    obtain ⟨k, hk⟩ := alookup_mem hl
    exact he (k, w) hk
  · cases hn

theorem flags_or_defaulted {f g : Flags} (h : (f.or g).defaulted = false) :
    f.defaulted = false ∧ g.defaulted = false := by
  simp only [Flags.or, Bool.or_eq_false_iff] at h
  exact h

theorem runStep_preserves {d : DType} {st st' : Env × Flags} {s : Step}
    (hadm : s.op.admissible d = true) (he : EnvOK d st.1)
    (hf : st.2.losesImag = false ∧ st.2.narrows = false)
    (h : runStep st s = .ok st') (hdef : st'.2.defaulted = false) :
    EnvOK d st'.1 ∧ st'.2.losesImag = false ∧ st'.2.narrows = false := by
  unfold runStep at h
  obtain ⟨ins, hins, h2⟩ := bind_ok_iff.mp h
  obtain ⟨r, hr, h3⟩ := bind_ok_iff.mp h2
  have := pure_ok h3
  subst this
  simp only at hdef
  obtain ⟨_, hd2⟩ := flags_or_defaulted hdef
  obtain ⟨h4, h5, h6⟩ := evalOp_preserves (outs := r.1) (fl := r.2) hadm (lookups_ok he _ _ hins) hr hd2
  refine ⟨bindOuts_ok he h4, ?_, ?_⟩
  · simp only [Flags.or, hf.1, h5, Bool.or_self]
  · simp only [Flags.or, hf.2, h6, Bool.or_self]

theorem flags_defaulted_mono_step {st st' : Env × Flags} {s : Step} (h : runStep st s = .ok st')
    (hdef : st'.2.defaulted = false) : st.2.defaulted = false := by
  unfold runStep at h
  obtain ⟨ins, _, h2⟩ := bind_ok_iff.mp h
  obtain ⟨r, _, h3⟩ := bind_ok_iff.mp h2
  have := pure_ok h3
  subst this
  exact (flags_or_defaulted hdef).1

theorem foldlM_runStep_preserves {d : DType} (steps : List Step) :
    ∀ (st st' : Env × Flags), (∀ s ∈ steps, s.op.admissible d = true) → EnvOK d st.1 →
      (st.2.losesImag = false ∧ st.2.narrows = false) →
      steps.foldlM runStep st = .ok st' → st'.2.defaulted = false →
      EnvOK d st'.1 ∧ st'.2.losesImag = false ∧ st'.2.narrows = false ∧ st.2.defaulted = false := by
  induction steps with
  | nil =>
    intro st st' _ he hf h hdef
    have := pure_ok (by simpa [List.foldlM] using h)
    subst this
    exact ⟨he, hf.1, hf.2, hdef⟩
  | cons s rest ih =>
    intro st st' hadm he hf h hdef
    simp only [List.foldlM_cons] at h
    obtain ⟨st1, h1, h2⟩ := bind_ok_iff.mp h
    have hrest := ih st1 st' (fun q hq => hadm q (by simp [hq]))
    -- the flag of the intermediate state is below the final one
    have hd1 : st1.2.defaulted = false := by
      clear ih hrest
      -- by induction on the remaining steps
      have : ∀ (l : List Step) (a b : Env × Flags), l.foldlM runStep a = .ok b → b.2.defaulted = false →
          a.2.defaulted = false := by
        intro l
        induction l with
        | nil => intro a b hab hb
                 have := pure_ok (by simpa [List.foldlM] using hab)
                 subst this; exact hb
        | cons t ts ih2 =>
          intro a b hab hb
          simp only [List.foldlM_cons] at hab
          obtain ⟨c, hc, hcb⟩ := bind_ok_iff.mp hab
          exact flags_defaulted_mono_step hc (ih2 c b hcb hb)
      exact this rest st1 st' h2 hdef
    obtain ⟨he1, hl1, hn1⟩ := runStep_preserves (hadm s (by simp)) he hf h1 hd1
    obtain ⟨h3, h4, h5, _⟩ := hrest he1 ⟨hl1, hn1⟩ h2 hdef
    exact ⟨h3, h4, h5, flags_defaulted_mono_step h1 hd1⟩

end SymmModel.DFlow
