/-
  SymmModel.Proofs.FermiOps — lemmas for property C18 about SymmModel.Model.FermiOps.
  Part A: Fock space (canonical anticommutation relations on sorted occupation lists).
-/
import SymmModel.Model.FermiOps
import Mathlib.Algebra.Group.Defs
import Mathlib.Tactic.Ring
namespace SymmModel.FermiOpsP
open SymmModel

/-! ### A. Fock space -/

/-- strictly increasing occupation list -/
def Sorted (s : List Int) : Prop := s.Pairwise (· < ·)

theorem sorted_nil : Sorted [] := List.Pairwise.nil

theorem Sorted.nodup {s : List Int} (h : Sorted s) : s.Nodup :=
  List.Pairwise.imp (fun h => Int.ne_of_lt h) h

theorem sorted_ext {s t : List Int} (h1 : Sorted s) (h2 : Sorted t)
    (h : ∀ x, x ∈ s ↔ x ∈ t) : s = t :=
  List.Perm.eq_of_pairwise (fun a b _ _ hab hba => by omega) h1 h2
    ((List.perm_ext_iff_of_nodup h1.nodup h2.nodup).2 h)

theorem fockInsert_perm (a : Int) (s : List Int) : (fockInsert a s).Perm (a :: s) := by
  induction s with
  | nil => exact List.Perm.refl _
  | cons b s ih =>
    simp only [fockInsert]
    split
    · exact List.Perm.refl _
    · exact (List.Perm.cons b ih).trans (List.Perm.swap a b s)

theorem mem_fockInsert {a x : Int} {s : List Int} : x ∈ fockInsert a s ↔ x = a ∨ x ∈ s := by
  rw [(fockInsert_perm a s).mem_iff]; simp

theorem sorted_fockInsert {a : Int} {s : List Int} (h : Sorted s) (ha : a ∉ s) :
    Sorted (fockInsert a s) := by
  induction s with
  | nil => simp [fockInsert, Sorted]
  | cons b s ih =>
    unfold Sorted at h ih ⊢
    rw [List.pairwise_cons] at h
    simp only [fockInsert]
    split
    · rename_i hab
      rw [List.pairwise_cons, List.pairwise_cons]
      refine ⟨?_, h⟩
      intro x hx
      rcases List.mem_cons.1 hx with rfl | hx
      · exact hab
      · have := h.1 x hx; omega
    · rename_i hab
      have hne : a ≠ b := fun e => ha (by simp [e])
      rw [List.pairwise_cons]
      refine ⟨?_, ih h.2 (fun hm => ha (List.mem_cons_of_mem _ hm))⟩
      intro x hx
      rcases mem_fockInsert.1 hx with rfl | hx
      · omega
      · exact h.1 x hx

theorem sorted_erase {a : Int} {s : List Int} (h : Sorted s) : Sorted (s.erase a) :=
  List.Pairwise.sublist List.erase_sublist h

def sgn (n : Nat) : Int := if n % 2 = 0 then 1 else -1

theorem sgn_succ (n : Nat) : sgn (n + 1) = - sgn n := by
  unfold sgn; split <;> split <;> omega

theorem sgn_sq (n : Nat) : sgn n * sgn n = 1 := by
  unfold sgn; split <;> rfl

theorem sgn_cases (n : Nat) : sgn n = 1 ∨ sgn n = -1 := by
  unfold sgn; split <;> simp

theorem jwSign_eq (a : Int) (s : List Int) : jwSign a s = sgn (countBelow a s) := rfl

theorem countBelow_perm {s t : List Int} (b : Int) (h : s.Perm t) : countBelow b s = countBelow b t :=
  (h.filter _).length_eq

theorem countBelow_cons (b a : Int) (s : List Int) :
    countBelow b (a :: s) = countBelow b s + (if a < b then 1 else 0) := by
  unfold countBelow
  rw [List.filter_cons]
  split <;> simp_all

/-- the occupation after a non-vanishing action on mode `l` -/
def flipOcc (l : Int) (d : Bool) (s : List Int) : List Int :=
  if d then fockInsert l s else s.erase l

theorem applyOp_eq (o : FOp) (s : List Int) :
    applyOp o s = if decide (o.label ∈ s) = o.dual then none
      else some (jwSign o.label s, flipOcc o.label o.dual s) := by
  unfold applyOp flipOcc
  cases hd : o.dual <;> by_cases hm : o.label ∈ s <;> simp [hm]

theorem mem_flipOcc {l : Int} {d : Bool} {s : List Int} (hs : Sorted s) (x : Int) :
    x ∈ flipOcc l d s ↔ (if x = l then d = true else x ∈ s) ∨ (x ≠ l ∧ x ∈ s) ∨ (d = true ∧ x ∈ s) := by
  unfold flipOcc
  cases d
  · simp only [Bool.false_eq_true, if_false, false_and, or_false]
    rw [hs.nodup.mem_erase_iff]
    by_cases h : x = l <;> simp [h]
  · simp only [if_true, true_and]
    rw [mem_fockInsert]
    by_cases h : x = l <;> simp [h]

theorem mem_flipOcc_ne {l : Int} {d : Bool} {s : List Int} (hs : Sorted s) {x : Int} (h : x ≠ l) :
    x ∈ flipOcc l d s ↔ x ∈ s := by
  rw [mem_flipOcc hs]; simp [h]

theorem mem_flipOcc_self {l : Int} {d : Bool} {s : List Int} (hs : Sorted s)
    (hv : decide (l ∈ s) ≠ d) : l ∈ flipOcc l d s ↔ d = true := by
  rw [mem_flipOcc hs]
  cases d <;> simp_all

theorem sorted_flipOcc {l : Int} {d : Bool} {s : List Int} (hs : Sorted s)
    (hv : decide (l ∈ s) ≠ d) : Sorted (flipOcc l d s) := by
  unfold flipOcc
  cases d
  · exact sorted_erase hs
  · exact sorted_fockInsert hs (by simpa using hv)

theorem sgn_countBelow_flipOcc {l : Int} {d : Bool} {s : List Int}
    (hv : decide (l ∈ s) ≠ d) (b : Int) :
    sgn (countBelow b (flipOcc l d s)) = if l < b then - sgn (countBelow b s) else sgn (countBelow b s) := by
  unfold flipOcc
  cases d
  · have hm : l ∈ s := by simpa using hv
    have := countBelow_perm b (List.perm_cons_erase hm)
    rw [countBelow_cons] at this
    simp only [Bool.false_eq_true, if_false]
    rw [this]
    split
    · rw [sgn_succ]; simp
    · simp
  · simp only [if_true]
    rw [countBelow_perm b (fockInsert_perm l s), countBelow_cons]
    split
    · rw [sgn_succ]
    · simp

def negSt : FState → FState
  | none => none
  | some (a, s) => some (-a, s)

def StSorted : FState → Prop
  | none => True
  | some (_, s) => Sorted s

theorem bindOp_some (o : FOp) (amp : Int) (s : List Int) :
    bindOp o (some (amp, s)) = if decide (o.label ∈ s) = o.dual then none
      else some (amp * jwSign o.label s, flipOcc o.label o.dual s) := by
  simp only [bindOp, applyOp_eq]
  split <;> simp_all

theorem bindOp_sorted (o : FOp) {st : FState} (h : StSorted st) : StSorted (bindOp o st) := by
  match st, h with
  | none, _ => trivial
  | some (amp, s), h =>
    rw [bindOp_some]
    split
    · trivial
    · rename_i hv
      exact sorted_flipOcc h hv

theorem bindOp_negSt (o : FOp) (st : FState) : bindOp o (negSt st) = negSt (bindOp o st) := by
  match st with
  | none => rfl
  | some (amp, s) =>
    simp only [negSt, bindOp_some]
    split
    · rfl
    · simp

theorem applyWordSt_negSt (w : Word) (st : FState) :
    applyWordSt w (negSt st) = negSt (applyWordSt w st) := by
  induction w with
  | nil => rfl
  | cons o w ih => simp only [applyWordSt, List.foldr_cons] at ih ⊢; rw [ih, bindOp_negSt]

theorem applyWordSt_sorted (w : Word) {st : FState} (h : StSorted st) :
    StSorted (applyWordSt w st) := by
  induction w with
  | nil => exact h
  | cons o w ih => exact bindOp_sorted o ih

theorem vacAmp_negSt (st : FState) : vacAmp (negSt st) = - vacAmp st := by
  match st with
  | none => rfl
  | some (a, []) => rfl
  | some (a, _ :: _) => rfl

theorem applyWordSt_append (u v : Word) (st : FState) :
    applyWordSt (u ++ v) st = applyWordSt u (applyWordSt v st) := by
  simp [applyWordSt, List.foldr_append]

/-- operators on different modes anticommute (on every signed basis state) -/
theorem bindOp_anticomm (x y : FOp) (hxy : x.label ≠ y.label) (st : FState) (hst : StSorted st) :
    bindOp x (bindOp y st) = negSt (bindOp y (bindOp x st)) := by
  match st, hst with
  | none, _ => rfl
  | some (amp, s), hs =>
    have hs : Sorted s := hs
    by_cases hy : decide (y.label ∈ s) = y.dual
    · -- y vanishes on s (and on s after x)
      rw [bindOp_some y, if_pos hy]
      rw [bindOp_some x]
      split
      · rfl
      · rename_i hx
        rw [bindOp_some y]
        have : decide (y.label ∈ flipOcc x.label x.dual s) = y.dual := by
          rw [← hy]; congr 1; exact propext (mem_flipOcc_ne hs (Ne.symm hxy))
        rw [if_pos this]; rfl
    · rw [bindOp_some y, if_neg hy, bindOp_some x]
      have hxm : decide (x.label ∈ flipOcc y.label y.dual s) = decide (x.label ∈ s) := by
        congr 1; exact propext (mem_flipOcc_ne hs hxy)
      rw [hxm]
      by_cases hx : decide (x.label ∈ s) = x.dual
      · rw [if_pos hx, bindOp_some x, if_pos hx]; rfl
      · rw [if_neg hx, bindOp_some x, if_neg hx, bindOp_some y]
        have hym : decide (y.label ∈ flipOcc x.label x.dual s) = decide (y.label ∈ s) := by
          congr 1; exact propext (mem_flipOcc_ne hs (Ne.symm hxy))
        rw [hym, if_neg hy]
        simp only [negSt]
        have hstate : flipOcc x.label x.dual (flipOcc y.label y.dual s)
            = flipOcc y.label y.dual (flipOcc x.label x.dual s) := by
          apply sorted_ext
          · exact sorted_flipOcc (sorted_flipOcc hs hy) (by rw [hxm]; exact hx)
          · exact sorted_flipOcc (sorted_flipOcc hs hx) (by rw [hym]; exact hy)
          · intro z
            by_cases hzx : z = x.label
            · subst hzx
              rw [mem_flipOcc_self (sorted_flipOcc hs hy) (by rw [hxm]; exact hx),
                  mem_flipOcc_ne (sorted_flipOcc hs hx) hxy, mem_flipOcc_self hs hx]
            · by_cases hzy : z = y.label
              · subst hzy
                rw [mem_flipOcc_ne (sorted_flipOcc hs hy) hzx, mem_flipOcc_self hs hy,
                    mem_flipOcc_self (sorted_flipOcc hs hx) (by rw [hym]; exact hy)]
              · rw [mem_flipOcc_ne (sorted_flipOcc hs hy) hzx, mem_flipOcc_ne hs hzy,
                    mem_flipOcc_ne (sorted_flipOcc hs hx) hzy, mem_flipOcc_ne hs hzx]
        rw [hstate]
        congr 2
        simp only [jwSign_eq]
        rw [sgn_countBelow_flipOcc hy, sgn_countBelow_flipOcc hx]
        rcases Int.lt_or_gt_of_ne hxy with h | h
        · have h' : ¬ y.label < x.label := by omega
          rw [if_neg h', if_pos h]; ring
        · have h' : ¬ x.label < y.label := by omega
          rw [if_pos h, if_neg h']; ring

/-- CAR on one mode: `a a = 0`, `a† a† = 0` -/
theorem bindOp_sq (x : FOp) (st : FState) (hst : StSorted st) : bindOp x (bindOp x st) = none := by
  match st, hst with
  | none, _ => rfl
  | some (amp, s), hs =>
    have hs : Sorted s := hs
    rw [bindOp_some]
    split
    · rfl
    · rename_i hv
      rw [bindOp_some]
      have : decide (x.label ∈ flipOcc x.label x.dual s) = x.dual := by
        have := mem_flipOcc_self hs hv
        cases hd : x.dual <;> simp_all
      rw [if_pos this]

/-- CAR on one mode: `a a† + a† a = 1` on basis states: exactly one of the two orders
    vanishes and the other one is the identity. -/
theorem bindOp_car (l : Int) (amp : Int) (s : List Int) (hs : Sorted s) :
    let a : FOp := ⟨l, false⟩
    let ad : FOp := ⟨l, true⟩
    (bindOp a (bindOp ad (some (amp, s))) = some (amp, s) ∧ bindOp ad (bindOp a (some (amp, s))) = none)
    ∨ (bindOp a (bindOp ad (some (amp, s))) = none ∧ bindOp ad (bindOp a (some (amp, s))) = some (amp, s)) := by
  intro a ad
  have key : ∀ (d : Bool), decide (l ∈ s) ≠ d →
      bindOp ⟨l, !d⟩ (bindOp ⟨l, d⟩ (some (amp, s))) = some (amp, s)
      ∧ bindOp ⟨l, d⟩ (bindOp ⟨l, !d⟩ (some (amp, s))) = none := by
    intro d hv
    constructor
    · rw [bindOp_some, if_neg (by simpa using hv), bindOp_some]
      have hm : decide (l ∈ flipOcc l d s) = d := by
        have := mem_flipOcc_self hs hv
        cases d <;> simp_all
      have hv2 : decide (l ∈ flipOcc l d s) ≠ !d := by rw [hm]; cases d <;> simp
      rw [if_neg (by simpa using hv2)]
      congr 2
      · simp only [jwSign_eq]
        rw [sgn_countBelow_flipOcc hv, if_neg (by omega), Int.mul_assoc, sgn_sq, Int.mul_one]
      · apply sorted_ext (sorted_flipOcc (sorted_flipOcc hs hv) hv2) hs
        intro z
        by_cases hz : z = l
        · subst hz
          rw [mem_flipOcc_self (sorted_flipOcc hs hv) hv2]
          cases d <;> simp_all
        · rw [mem_flipOcc_ne (sorted_flipOcc hs hv) hz, mem_flipOcc_ne hs hz]
    · have : decide (l ∈ s) = !d := by cases d <;> simp_all
      rw [bindOp_some ⟨l, !d⟩, if_pos this]; rfl
  by_cases hm : l ∈ s
  · right
    have := key false (by simp [hm])
    exact ⟨this.2, this.1⟩
  · left
    exact key true (by simp [hm])

theorem vev_append (u v : Word) : vev (u ++ v) = vacAmp (applyWordSt u (applyWord v [])) := by
  simp [vev, applyWord, applyWordSt_append]

theorem applyWord_sorted (w : Word) : StSorted (applyWord w []) :=
  applyWordSt_sorted w (st := some (1, [])) sorted_nil

/-- swapping two adjacent operators on different modes flips the sign of the vev -/
theorem vev_swap (u v : Word) (x y : FOp) (h : x.label ≠ y.label) :
    vev (u ++ x :: y :: v) = - vev (u ++ y :: x :: v) := by
  rw [vev_append, vev_append]
  have e1 : applyWord (x :: y :: v) [] = bindOp x (bindOp y (applyWord v [])) := rfl
  have e2 : applyWord (y :: x :: v) [] = bindOp y (bindOp x (applyWord v [])) := rfl
  rw [e1, e2, bindOp_anticomm x y h _ (applyWord_sorted v), applyWordSt_negSt, vacAmp_negSt]

/-! ### B. the phased bubble sort -/

def LabelSorted (l : List FOp) : Prop := l.Pairwise (fun a b => a.label ≤ b.label)

theorem bubbleFrom_vev (rest : List FOp) : ∀ (cur : FOp) (ph : Int) (mv : Bool) (u : Word),
    (bubbleFrom cur rest ph mv).2.1 * vev (u ++ (bubbleFrom cur rest ph mv).1)
      = ph * vev (u ++ cur :: rest)
    ∧ ((bubbleFrom cur rest ph mv).2.1 = ph ∨ (bubbleFrom cur rest ph mv).2.1 = -ph) := by
  induction rest with
  | nil => intro cur ph mv u; simp [bubbleFrom]
  | cons y rest ih =>
    intro cur ph mv u
    simp only [bubbleFrom]
    split
    · rename_i hgt
      have := ih cur (-ph) true (u ++ [y])
      simp only [List.append_assoc, List.singleton_append] at this
      refine ⟨?_, ?_⟩
      · rw [this.1, vev_swap u rest cur y (by omega)]; ring
      · rcases this.2 with h | h
        · right; exact h
        · left; rw [h]; ring
    · have := ih y ph mv (u ++ [cur])
      simp only [List.append_assoc, List.singleton_append] at this
      exact this

theorem bubbleFrom_perm (rest : List FOp) : ∀ (cur : FOp) (ph : Int) (mv : Bool),
    (bubbleFrom cur rest ph mv).1.Perm (cur :: rest) := by
  induction rest with
  | nil => intro cur ph mv; exact List.Perm.refl _
  | cons y rest ih =>
    intro cur ph mv
    simp only [bubbleFrom]
    split
    · exact (List.Perm.cons y (ih cur (-ph) true)).trans (List.Perm.swap cur y rest)
    · exact List.Perm.cons cur (ih y ph mv)

/-- a sweep without moves leaves a label-sorted list unchanged -/
theorem bubbleFrom_nomove (rest : List FOp) : ∀ (cur : FOp) (ph : Int) (mv : Bool),
    (bubbleFrom cur rest ph mv).2.2 = false →
      mv = false ∧ (bubbleFrom cur rest ph mv).1 = cur :: rest
      ∧ (bubbleFrom cur rest ph mv).2.1 = ph ∧ LabelSorted (cur :: rest) := by
  induction rest with
  | nil => intro cur ph mv h; simp_all [bubbleFrom, LabelSorted]
  | cons y rest ih =>
    intro cur ph mv
    simp only [bubbleFrom]
    split
    · intro h
      have := (ih cur (-ph) true h).1
      cases this
    · rename_i hle
      intro h
      obtain ⟨h1, h2, h3, h4⟩ := ih y ph mv h
      refine ⟨h1, by rw [h2], h3, ?_⟩
      unfold LabelSorted at h4 ⊢
      rw [List.pairwise_cons]
      refine ⟨?_, h4⟩
      intro z hz
      rcases List.mem_cons.1 hz with rfl | hz
      · omega
      · have := (List.pairwise_cons.1 h4).1 z hz; omega

def cntGt (x : FOp) (l : List FOp) : Nat := (l.filter (fun y => decide (x.label > y.label))).length

theorem inversions_cons (x : FOp) (l : List FOp) : inversions (x :: l) = cntGt x l + inversions l := rfl

theorem cntGt_perm (x : FOp) {l l' : List FOp} (h : l.Perm l') : cntGt x l = cntGt x l' :=
  (h.filter _).length_eq

theorem cntGt_cons (x y : FOp) (l : List FOp) :
    cntGt x (y :: l) = cntGt x l + (if x.label > y.label then 1 else 0) := by
  unfold cntGt; rw [List.filter_cons]; split <;> simp_all

theorem bubbleFrom_inv (rest : List FOp) : ∀ (cur : FOp) (ph : Int) (mv : Bool),
    inversions (bubbleFrom cur rest ph mv).1 ≤ inversions (cur :: rest)
    ∧ ((bubbleFrom cur rest ph mv).2.2 = true →
        mv = true ∨ inversions (bubbleFrom cur rest ph mv).1 < inversions (cur :: rest)) := by
  induction rest with
  | nil => intro cur ph mv; simp [bubbleFrom]
  | cons y rest ih =>
    intro cur ph mv
    simp only [bubbleFrom]
    split
    · rename_i hgt
      have h1 := (ih cur (-ph) true).1
      have hp := cntGt_perm y (bubbleFrom_perm rest cur (-ph) true)
      have hlt : inversions (y :: (bubbleFrom cur rest (-ph) true).1) < inversions (cur :: y :: rest) := by
        simp only [inversions_cons] at h1 ⊢
        rw [hp, cntGt_cons, cntGt_cons, if_neg (by omega), if_pos hgt]
        omega
      exact ⟨Nat.le_of_lt hlt, fun _ => Or.inr hlt⟩
    · have h1 := ih y ph mv
      have hp := cntGt_perm cur (bubbleFrom_perm rest y ph mv)
      simp only [inversions_cons] at h1 ⊢
      rw [hp]
      refine ⟨by omega, fun h => ?_⟩
      rcases h1.2 h with h | h
      · exact Or.inl h
      · right; omega

theorem sortLoop_spec : ∀ (fuel : Nat) (el : List FOp) (ph : Int), inversions el < fuel →
    LabelSorted (sortLoop fuel el ph).1
    ∧ (∀ u, (sortLoop fuel el ph).2 * vev (u ++ (sortLoop fuel el ph).1) = ph * vev (u ++ el))
    ∧ ((sortLoop fuel el ph).2 = ph ∨ (sortLoop fuel el ph).2 = -ph) := by
  intro fuel
  induction fuel with
  | zero => intro el ph h; omega
  | succ fuel ih =>
    intro el ph hlt
    match el with
    | [] => simp [sortLoop, LabelSorted]
    | x :: rest =>
      simp only [sortLoop]
      split
      · rename_i hmv
        have hinv := (bubbleFrom_inv rest x ph false).2 hmv
        have hlt' : inversions (bubbleFrom x rest ph false).1 < fuel := by
          rcases hinv with h | h
          · cases h
          · omega
        obtain ⟨s1, s2, s3⟩ := ih (bubbleFrom x rest ph false).1 (bubbleFrom x rest ph false).2.1 hlt'
        refine ⟨s1, ?_, ?_⟩
        · intro u
          rw [s2 u, (bubbleFrom_vev rest x ph false u).1]
        · rcases s3 with h | h <;> rcases (bubbleFrom_vev rest x ph false []).2 with h' | h'
          · left; rw [h, h']
          · right; rw [h, h']
          · right; rw [h, h']
          · left; rw [h, h']; ring
      · rename_i hmv
        obtain ⟨_, h2, h3, h4⟩ := bubbleFrom_nomove rest x ph false (by simpa using hmv)
        refine ⟨by rw [h2]; exact h4, ?_, Or.inl h3⟩
        intro u
        rw [h2, h3]

theorem phasedSort_spec (el : List FOp) :
    LabelSorted (phasedSort el).1
    ∧ (phasedSort el).2 * vev (phasedSort el).1 = vev el
    ∧ ((phasedSort el).2 = 1 ∨ (phasedSort el).2 = -1) := by
  obtain ⟨h1, h2, h3⟩ := sortLoop_spec (inversions el + 1) el 1 (Nat.lt_succ_self _)
  refine ⟨h1, ?_, h3⟩
  have := h2 []
  simpa [phasedSort] using this

/-! ### C. the vacuum pattern test -/

/-- occupation of one mode after running its operators (given by their `dual` flags,
    rightmost first) on the empty mode; `none` = vanishes -/
def runFlags : List Bool → Option Bool
  | [] => some false
  | d :: r =>
    match runFlags r with
    | none => none
    | some o => if o = d then none else some d

/-- the subsequence of `w` on mode `l` (this is `groups[l]` of the code) -/
def restrictTo (l : Int) (w : Word) : Word := w.filter (fun o => decide (o.label = l))

def flagsOf (l : Int) (w : Word) : List Bool := (restrictTo l w).map (·.dual)

theorem flagsOf_cons (l : Int) (o : FOp) (w : Word) :
    flagsOf l (o :: w) = if o.label = l then o.dual :: flagsOf l w else flagsOf l w := by
  unfold flagsOf restrictTo
  rw [List.filter_cons]
  by_cases h : o.label = l <;> simp [h]

theorem jwSign_cases (a : Int) (s : List Int) : jwSign a s = 1 ∨ jwSign a s = -1 := sgn_cases _

theorem applyWord_cons (o : FOp) (w : Word) : applyWord (o :: w) [] = bindOp o (applyWord w []) := rfl

/-- the Fock-space run of any word is determined mode by mode -/
theorem applyWord_runFlags (w : Word) :
    (applyWord w [] = none → ∃ l, runFlags (flagsOf l w) = none)
    ∧ (∀ a s, applyWord w [] = some (a, s) →
        (a = 1 ∨ a = -1) ∧ ∀ l, runFlags (flagsOf l w) = some (decide (l ∈ s))) := by
  induction w with
  | nil =>
    refine ⟨fun h => (by cases h), ?_⟩
    intro a s h
    have : a = 1 ∧ s = [] := by
      simp only [applyWord, applyWordSt, List.foldr_nil, Option.some.injEq, Prod.mk.injEq] at h
      exact ⟨h.1.symm, h.2.symm⟩
    obtain ⟨rfl, rfl⟩ := this
    exact ⟨Or.inl rfl, fun l => by simp [flagsOf, restrictTo, runFlags]⟩
  | cons o w ih =>
    have hsorted := applyWord_sorted w
    rw [applyWord_cons]
    match hst : applyWord w [] with
    | none =>
      refine ⟨fun _ => ?_, fun a s h => (by cases h)⟩
      obtain ⟨l, hl⟩ := ih.1 hst
      refine ⟨l, ?_⟩
      rw [flagsOf_cons]
      split
      · simp [runFlags, hl]
      · exact hl
    | some (a', s') =>
      rw [hst] at hsorted
      have hs' : Sorted s' := hsorted
      obtain ⟨ha', hfl⟩ := ih.2 a' s' hst
      rw [bindOp_some]
      by_cases hv : decide (o.label ∈ s') = o.dual
      · rw [if_pos hv]
        refine ⟨fun _ => ⟨o.label, ?_⟩, fun a s h => (by cases h)⟩
        rw [flagsOf_cons, if_pos rfl]
        simp [runFlags, hfl o.label, hv]
      · rw [if_neg hv]
        refine ⟨fun h => (by cases h), ?_⟩
        intro a s h
        simp only [Option.some.injEq, Prod.mk.injEq] at h
        obtain ⟨rfl, rfl⟩ := h
        constructor
        · rcases ha' with rfl | rfl <;> rcases jwSign_cases o.label s' with h | h <;> rw [h] <;> simp
        · intro l
          rw [flagsOf_cons]
          by_cases hl : o.label = l
          · subst hl
            rw [if_pos rfl]
            simp only [runFlags, hfl o.label]
            rw [if_neg hv]
            congr 1
            have := mem_flipOcc_self hs' hv
            cases hd : o.dual <;> simp_all
          · rw [if_neg hl, hfl l]
            congr 2
            exact propext (mem_flipOcc_ne hs' (Ne.symm hl)).symm

theorem vev_cases (w : Word) : vev w = 0 ∨ vev w = 1 ∨ vev w = -1 := by
  unfold vev
  match h : applyWord w [] with
  | none => left; rfl
  | some (a, []) =>
    have := ((applyWord_runFlags w).2 a [] h).1
    rcases this with rfl | rfl
    · right; left; rfl
    · right; right; rfl
  | some (a, _ :: _) => left; rfl

/-- a word has a non-zero vev iff every mode runs back to empty without vanishing -/
theorem vev_ne_zero_iff (w : Word) :
    vev w ≠ 0 ↔ ∀ l, runFlags (flagsOf l w) = some false := by
  unfold vev
  match h : applyWord w [] with
  | none =>
    obtain ⟨l, hl⟩ := (applyWord_runFlags w).1 h
    constructor
    · intro h0; exact absurd rfl h0
    · intro hall; rw [hall l] at hl; cases hl
  | some (a, []) =>
    obtain ⟨ha, hfl⟩ := (applyWord_runFlags w).2 a [] h
    constructor
    · intro _ l; rw [hfl l]; simp
    · intro _; rcases ha with rfl | rfl <;> simp [vacAmp]
  | some (a, z :: s) =>
    obtain ⟨ha, hfl⟩ := (applyWord_runFlags w).2 a (z :: s) h
    constructor
    · intro h0; exact absurd rfl h0
    · intro hall
      have := hfl z
      rw [hall z] at this
      simp at this

/-- on a label-sorted word all Jordan–Wigner signs are `+1` -/
theorem applyWord_sorted_amp (w : Word) (hw : LabelSorted w) :
    ∀ a s, applyWord w [] = some (a, s) → a = 1 ∧ ∀ z ∈ s, ∃ o ∈ w, o.label = z := by
  induction w with
  | nil =>
    intro a s h
    simp only [applyWord, applyWordSt, List.foldr_nil, Option.some.injEq, Prod.mk.injEq] at h
    obtain ⟨rfl, rfl⟩ := h
    exact ⟨rfl, fun z hz => by cases hz⟩
  | cons o w ih =>
    intro a s h
    unfold LabelSorted at hw
    rw [List.pairwise_cons] at hw
    have hsorted := applyWord_sorted w
    rw [applyWord_cons] at h
    match hst : applyWord w [] with
    | none => rw [hst] at h; cases h
    | some (a', s') =>
      rw [hst] at h hsorted
      have hs' : Sorted s' := hsorted
      obtain ⟨rfl, hsub⟩ := ih hw.2 a' s' hst
      rw [bindOp_some] at h
      split at h
      · cases h
      · simp only [Option.some.injEq, Prod.mk.injEq] at h
        obtain ⟨rfl, rfl⟩ := h
        constructor
        · have : countBelow o.label s' = 0 := by
            unfold countBelow
            rw [List.length_eq_zero_iff, List.filter_eq_nil_iff]
            intro z hz
            obtain ⟨o', ho', rfl⟩ := hsub z hz
            have := hw.1 o' ho'
            simp only [decide_eq_true_eq]; omega
          simp [jwSign, this]
        · intro z hz
          by_cases hzo : z = o.label
          · exact ⟨o, List.mem_cons_self, hzo.symm⟩
          · rw [mem_flipOcc_ne hs' hzo] at hz
            obtain ⟨o', ho', e⟩ := hsub z hz
            exact ⟨o', List.mem_cons_of_mem _ ho', e⟩

theorem vev_sorted_cases (w : Word) (hw : LabelSorted w) : vev w = 0 ∨ vev w = 1 := by
  unfold vev
  match h : applyWord w [] with
  | none => left; rfl
  | some (a, []) =>
    have := (applyWord_sorted_amp w hw a [] h).1
    subst this; right; rfl
  | some (a, _ :: _) => left; rfl

/-! the code's test -/

theorem everyOther_cons_drop {α : Type} (b : α) (r : List α) :
    everyOther (b :: r) = b :: everyOther (r.drop 1) := by
  cases r <;> simp [everyOther]

theorem groupOk_cons_cons (a b : FOp) (r : List FOp) :
    groupOk (a :: b :: r) = (!a.dual && b.dual && groupOk r) := by
  unfold groupOk
  have e1 : (a :: b :: r).drop 1 = b :: r := rfl
  rw [e1, everyOther_cons_drop b r]
  have e2 : (a :: b :: r).length % 2 = r.length % 2 := by simp [List.length_cons]; omega
  simp only [everyOther, List.all_cons, e2]
  cases a.dual <;> cases b.dual <;> cases (r.length % 2 == 0) <;>
    cases (everyOther r).all (fun o => !o.dual) <;> simp

theorem runFlags_cons_cons (da db : Bool) (fr : List Bool) :
    runFlags (da :: db :: fr) = some false ↔ (da = false ∧ db = true ∧ runFlags fr = some false) := by
  simp only [runFlags]
  cases runFlags fr with
  | none => simp
  | some o => cases o <;> cases da <;> cases db <;> simp

theorem groupOk_iff : ∀ g : List FOp, groupOk g = true ↔ runFlags (g.map (·.dual)) = some false
  | [] => by simp [groupOk, everyOther, runFlags]
  | [a] => by
    simp only [groupOk, List.length_singleton, List.map_cons, List.map_nil, runFlags]
    cases a.dual <;> simp
  | a :: b :: r => by
    rw [groupOk_cons_cons]
    simp only [List.map_cons]
    rw [runFlags_cons_cons, ← groupOk_iff r]
    cases a.dual <;> cases b.dual <;> simp

def gkeys (g : List (Int × List FOp)) : List Int := g.map (·.1)

theorem gkeys_cons (k : Int) (v : List FOp) (rest : List (Int × List FOp)) :
    gkeys ((k, v) :: rest) = k :: gkeys rest := rfl

theorem gkeys_groupAdd (g : List (Int × List FOp)) (x : FOp) :
    gkeys (groupAdd g x) = if x.label ∈ gkeys g then gkeys g else gkeys g ++ [x.label] := by
  induction g with
  | nil => simp [groupAdd, gkeys]
  | cons kv rest ih =>
    obtain ⟨k, v⟩ := kv
    simp only [groupAdd]
    by_cases h : k = x.label
    · rw [if_pos h, gkeys_cons, gkeys_cons, if_pos (by rw [h]; exact List.mem_cons_self)]
    · rw [if_neg h, gkeys_cons, gkeys_cons, ih]
      by_cases hm : x.label ∈ gkeys rest
      · rw [if_pos hm, if_pos (List.mem_cons_of_mem _ hm)]
      · have : x.label ∉ k :: gkeys rest := by
          intro e
          rcases List.mem_cons.1 e with e | e
          · exact h e.symm
          · exact hm e
        rw [if_neg hm, if_neg this]; rfl

theorem mem_groupAdd (g : List (Int × List FOp)) (x : FOp) (hnd : (gkeys g).Nodup)
    (p : Int × List FOp) (hp : p ∈ groupAdd g x) :
    (p.1 ≠ x.label ∧ p ∈ g)
    ∨ (p.1 = x.label ∧ ((∃ v, (x.label, v) ∈ g ∧ p.2 = v ++ [x]) ∨ (x.label ∉ gkeys g ∧ p.2 = [x]))) := by
  induction g with
  | nil =>
    simp only [groupAdd, List.mem_singleton] at hp
    subst hp
    right; exact ⟨rfl, Or.inr ⟨by simp [gkeys], rfl⟩⟩
  | cons kv rest ih =>
    obtain ⟨k, v⟩ := kv
    rw [gkeys_cons, List.nodup_cons] at hnd
    simp only [groupAdd] at hp
    by_cases h : k = x.label
    · rw [if_pos h] at hp
      rcases List.mem_cons.1 hp with rfl | hp
      · right; refine ⟨h, Or.inl ⟨v, ?_, rfl⟩⟩
        rw [← h]; exact List.mem_cons_self
      · left
        refine ⟨?_, List.mem_cons_of_mem _ hp⟩
        intro e
        apply hnd.1
        rw [h, ← e]
        exact List.mem_map_of_mem hp
    · rw [if_neg h] at hp
      rcases List.mem_cons.1 hp with rfl | hp
      · left; exact ⟨h, List.mem_cons_self⟩
      · rcases ih hnd.2 hp with ⟨h1, h2⟩ | ⟨h1, h2⟩
        · left; exact ⟨h1, List.mem_cons_of_mem _ h2⟩
        · right
          refine ⟨h1, ?_⟩
          rcases h2 with ⟨v', hv', e⟩ | ⟨hn, e⟩
          · exact Or.inl ⟨v', List.mem_cons_of_mem _ hv', e⟩
          · refine Or.inr ⟨?_, e⟩
            rw [gkeys_cons, List.mem_cons, not_or]
            exact ⟨fun e => h e.symm, hn⟩

/-- invariant of the grouping loop -/
def GInv (g : List (Int × List FOp)) (done : List FOp) : Prop :=
  (gkeys g).Nodup ∧ (∀ p ∈ g, p.2 = restrictTo p.1 done) ∧ (∀ o ∈ done, o.label ∈ gkeys g)

theorem restrictTo_append_singleton (l : Int) (done : List FOp) (x : FOp) :
    restrictTo l (done ++ [x]) = restrictTo l done ++ (if x.label = l then [x] else []) := by
  unfold restrictTo
  rw [List.filter_append]
  congr 1
  by_cases h : x.label = l <;> simp [h]

theorem GInv_step (g : List (Int × List FOp)) (done : List FOp) (x : FOp) (h : GInv g done) :
    GInv (groupAdd g x) (done ++ [x]) := by
  obtain ⟨hnd, h1, h2⟩ := h
  refine ⟨?_, ?_, ?_⟩
  · rw [gkeys_groupAdd]
    split
    · exact hnd
    · rename_i hn
      rw [List.nodup_append]
      refine ⟨hnd, by simp, ?_⟩
      intro a ha b hb
      simp only [List.mem_singleton] at hb
      subst hb
      intro e; subst e; exact hn ha
  · intro p hp
    rw [restrictTo_append_singleton]
    rcases mem_groupAdd g x hnd p hp with ⟨hne, hpg⟩ | ⟨he, hv | hn⟩
    · rw [if_neg (fun e => hne e.symm), List.append_nil]; exact h1 p hpg
    · obtain ⟨v, hv, e⟩ := hv
      rw [if_pos he.symm, e, he]
      congr 1
      exact h1 (x.label, v) hv
    · rw [if_pos he.symm, hn.2]
      have : restrictTo p.1 done = [] := by
        unfold restrictTo
        rw [List.filter_eq_nil_iff]
        intro o ho
        simp only [decide_eq_true_eq]
        intro e
        apply hn.1
        rw [← he, ← e]
        exact h2 o ho
      rw [this]; rfl
  · intro o ho
    rw [gkeys_groupAdd]
    rcases List.mem_append.1 ho with ho | ho
    · split
      · exact h2 o ho
      · exact List.mem_append_left _ (h2 o ho)
    · simp only [List.mem_singleton] at ho
      subst ho
      split
      · assumption
      · simp

theorem GInv_foldl (w : List FOp) : ∀ (g : List (Int × List FOp)) (done : List FOp),
    GInv g done → GInv (w.foldl groupAdd g) (done ++ w) := by
  induction w with
  | nil => intro g done h; simpa using h
  | cons x w ih =>
    intro g done h
    have := ih (groupAdd g x) (done ++ [x]) (GInv_step g done x h)
    simpa using this

theorem GInv_groupsOf (w : Word) : GInv (groupsOf w) w := by
  have := GInv_foldl w [] [] ⟨by simp [gkeys], by simp, by simp⟩
  simpa [groupsOf] using this

/-- the code's `nonvanishing` flag is the mode-by-mode pattern test (any word) -/
theorem nonvanishing_iff (w : Word) :
    nonvanishing w = true ↔ ∀ l, groupOk (restrictTo l w) = true := by
  obtain ⟨_, h1, h2⟩ := GInv_groupsOf w
  unfold nonvanishing
  rw [List.all_eq_true]
  constructor
  · intro h l
    by_cases hl : l ∈ gkeys (groupsOf w)
    · obtain ⟨p, hp, e⟩ := List.mem_map.1 hl
      have := h p hp
      rw [h1 p hp, e] at this
      exact this
    · have : restrictTo l w = [] := by
        unfold restrictTo
        rw [List.filter_eq_nil_iff]
        intro o ho
        simp only [decide_eq_true_eq]
        intro e; apply hl; rw [← e]; exact h2 o ho
      rw [this]; rfl
  · intro h p hp
    rw [h1 p hp]; exact h p.1

/-- **pattern test = non-zero vev**, for every word -/
theorem nonvanishing_iff_vev (w : Word) : nonvanishing w = true ↔ vev w ≠ 0 := by
  rw [nonvanishing_iff, vev_ne_zero_iff]
  constructor
  · intro h l; exact (groupOk_iff _).1 (h l)
  · intro h l; exact (groupOk_iff _).2 (h l)

theorem vev_sorted_eq (w : Word) (hw : LabelSorted w) :
    vev w = if nonvanishing w then 1 else 0 := by
  by_cases h : nonvanishing w = true
  · rw [if_pos h]
    rcases vev_sorted_cases w hw with h0 | h1
    · exact absurd h0 ((nonvanishing_iff_vev w).1 h)
    · exact h1
  · rw [if_neg h]
    by_cases h0 : vev w = 0
    · exact h0
    · exact absurd ((nonvanishing_iff_vev w).2 h0) h

/-! ### D. the loops of `build_local_fermionic_elements` -/

set_option linter.unusedSectionVars false
section build
variable {α : Type} [AddCommGroup α] [DecidableEq α]

theorem scaleInt_zero_right (v : Int) : scaleInt v (0 : α) = 0 := by
  unfold scaleInt
  split
  · rfl
  · split
    · rfl
    · exact neg_zero

/-- the contribution of one term at one location: sort, test, `phase * coeff` = `vev · coeff` -/
theorem contrib_eq (el : Word) (c : α) :
    (if nonvanishing (phasedSort el).1 = true then phaseMul (phasedSort el).2 c else 0)
      = scaleInt (vev el) c := by
  obtain ⟨hs, hv, hph⟩ := phasedSort_spec el
  rw [vev_sorted_eq _ hs] at hv
  by_cases hn : nonvanishing (phasedSort el).1 = true
  · rw [if_pos hn] at hv ⊢
    rw [Int.mul_one] at hv
    rw [← hv]
    rcases hph with h | h <;> rw [h] <;> simp [phaseMul, scaleInt]
  · rw [if_neg hn] at hv ⊢
    rw [Int.mul_zero] at hv
    rw [← hv]; simp [scaleInt]

theorem alookup_ainsert {β : Type} (m : List (List Nat × β)) (k k' : List Nat) (v : β) :
    alookup (ainsert m k v) k' = if k = k' then some v else alookup m k' := by
  induction m with
  | nil => simp [ainsert, alookup]
  | cons p rest ih =>
    obtain ⟨k0, v0⟩ := p
    simp only [ainsert]
    by_cases h : k0 = k
    · subst h
      simp only [beq_self_eq_true, if_true, alookup]
      by_cases h' : k0 = k' <;> simp [h']
    · have : (k0 == k) = false := by simp [h]
      simp only [this, Bool.false_eq_true, if_false, alookup, ih]
      by_cases h' : k0 = k'
      · subst h'
        simp
        intro e; exact absurd e.symm h
      · simp [h']

theorem elemAt_ainsert (e : List (List Nat × α)) (idx k : List Nat) (v : α) :
    elemAt (ainsert e idx v) k = if idx = k then v else elemAt e k := by
  unfold elemAt
  rw [alookup_ainsert]
  split <;> rfl

theorem elemAt_termStep (idx : List Nat) (L R : Word) (e : List (List Nat × α))
    (ct : α × Word) (k : List Nat) :
    elemAt (termStep idx L R e ct) k
      = elemAt e k + (if idx = k then scaleInt (vev (L ++ ct.2 ++ R)) ct.1 else 0) := by
  unfold termStep
  by_cases hc : ct.1 = 0
  · rw [if_pos hc, hc, scaleInt_zero_right]; simp
  · rw [if_neg hc, ← contrib_eq]
    simp only
    split
    · rw [elemAt_ainsert]
      split
      · rename_i h; subst h; rfl
      · simp
    · simp

theorem elemAt_foldl_termStep (idx : List Nat) (L R : Word) (terms : List (α × Word)) :
    ∀ (e : List (List Nat × α)) (k : List Nat),
    elemAt (terms.foldl (termStep idx L R) e) k
      = elemAt e k + (if idx = k then
          sumA (terms.map (fun ct => scaleInt (vev (L ++ ct.2 ++ R)) ct.1)) else 0) := by
  induction terms with
  | nil => intro e k; simp [sumA]
  | cons ct terms ih =>
    intro e k
    rw [List.foldl_cons, ih, elemAt_termStep]
    split
    · simp [sumA, add_assoc]
    · simp

/-- index and operator strings of one location -/
def locIdx (lr : List (Nat × Word) × List (Nat × Word)) : List Nat :=
  lr.1.map (·.1) ++ lr.2.map (·.1)

def locSum (terms : List (α × Word)) (lr : List (Nat × Word) × List (Nat × Word)) : α :=
  sumA (terms.map (fun ct =>
    scaleInt (vev ((lr.1.map (·.2)).flatten ++ ct.2 ++ (lr.2.map (·.2)).flatten)) ct.1))

theorem elemAt_locStep (terms : List (α × Word)) (e : List (List Nat × α))
    (lr : List (Nat × Word) × List (Nat × Word)) (k : List Nat) :
    elemAt (locStep terms e lr) k = elemAt e k + (if locIdx lr = k then locSum terms lr else 0) := by
  unfold locStep
  simp only
  rw [elemAt_foldl_termStep]
  rfl

theorem elemAt_foldl_locStep (terms : List (α × Word))
    (locs : List (List (Nat × Word) × List (Nat × Word))) :
    ∀ (e : List (List Nat × α)) (k : List Nat),
    elemAt (locs.foldl (locStep terms) e) k
      = elemAt e k + sumA (locs.map (fun lr => if locIdx lr = k then locSum terms lr else 0)) := by
  induction locs with
  | nil => intro e k; simp [sumA]
  | cons lr locs ih =>
    intro e k
    rw [List.foldl_cons, ih, elemAt_locStep]
    simp [sumA, add_assoc]

theorem sumA_map_ite {β : Type} (l : List β) (p : β → Prop) [DecidablePred p] (f : β → α) :
    sumA (l.map (fun a => if p a then f a else 0)) = sumA ((l.filter (fun a => decide (p a))).map f) := by
  induction l with
  | nil => rfl
  | cons a l ih =>
    rw [List.map_cons, List.filter_cons]
    by_cases h : p a
    · simp [h, sumA, ih]
    · simp [h, sumA, ih]

end build

/-! #### the location product -/

theorem length_of_mem_cartProd {β : Type} : ∀ (ls : List (List β)) (t : List β),
    t ∈ cartProd ls → t.length = ls.length := by
  intro ls
  induction ls with
  | nil => intro t h; simp [cartProd] at h; subst h; rfl
  | cons l ls ih =>
    intro t h
    simp only [cartProd, List.mem_flatMap, List.mem_map] at h
    obtain ⟨x, _, t', ht', rfl⟩ := h
    simp [ih t' ht']

theorem flatMap_congr' {β γ : Type} (l : List β) (f g : β → List γ) (h : ∀ x ∈ l, f x = g x) :
    l.flatMap f = l.flatMap g := by
  induction l with
  | nil => rfl
  | cons a l ih =>
    rw [List.flatMap_cons, List.flatMap_cons, h a List.mem_cons_self,
        ih (fun x hx => h x (List.mem_cons_of_mem _ hx))]

theorem flatMap_ite {β γ : Type} (l : List β) (p : β → Prop) [DecidablePred p] (g : β → List γ) :
    l.flatMap (fun a => if p a then g a else []) = (l.filter (fun a => decide (p a))).flatMap g := by
  induction l with
  | nil => rfl
  | cons a l ih =>
    rw [List.flatMap_cons, List.filter_cons, ih]
    by_cases h : p a <;> simp [h]

theorem filter_zipIdx (b : List Word) : ∀ (n j : Nat),
    (b.zipIdx n).filter (fun p => decide (p.2 = j))
      = if n ≤ j ∧ j < n + b.length then [(b.getD (j - n) [], j)] else [] := by
  induction b with
  | nil => intro n j; simp
  | cons w b ih =>
    intro n j
    rw [List.zipIdx_cons, List.filter_cons, ih]
    by_cases h : n = j
    · subst h
      simp
    · have h1 : ¬ (n ≤ j ∧ j < n + (w :: b).length) ↔ ¬ (n + 1 ≤ j ∧ j < n + 1 + b.length) := by
        simp only [List.length_cons]; omega
      simp only [h, decide_false, Bool.false_eq_true, if_false]
      by_cases h2 : n + 1 ≤ j ∧ j < n + 1 + b.length
      · have h3 : n ≤ j ∧ j < n + (w :: b).length := by
          simp only [List.length_cons]; omega
        rw [if_pos h2, if_pos h3]
        have : j - n = (j - (n + 1)) + 1 := by omega
        rw [this, List.getD_cons_succ]
      · rw [if_neg h2, if_neg (h1.2 h2)]

theorem filter_enumerate (b : List Word) (j : Nat) :
    (enumerate b).filter (fun p => decide (p.1 = j))
      = if j < b.length then [(j, b.getD j [])] else [] := by
  unfold enumerate
  rw [List.filter_map]
  have : ((fun p : Nat × Word => decide (p.1 = j)) ∘ fun p : Word × Nat => (p.2, p.1))
      = fun p : Word × Nat => decide (p.2 = j) := rfl
  rw [this, filter_zipIdx]
  by_cases h : j < b.length
  · simp [h]
  · simp [h]

/-- the location singled out by a multi-index -/
def locOf (bs : List (List Word)) (k : List Nat) : List (Nat × Word) :=
  List.zipWith (fun b j => (j, b.getD j [])) bs k

theorem filter_cartProd_enumerate : ∀ (bs : List (List Word)) (k : List Nat),
    (cartProd (bs.map enumerate)).filter (fun t => decide (t.map (·.1) = k))
      = if inBox (bs.map List.length) k = true then [locOf bs k] else [] := by
  intro bs
  induction bs with
  | nil =>
    intro k
    cases k with
    | nil => simp [cartProd, inBox, locOf]
    | cons j k => simp [cartProd, inBox]
  | cons b bs ih =>
    intro k
    cases k with
    | nil =>
      simp only [List.map_cons, inBox, Bool.false_eq_true, if_false]
      rw [List.filter_eq_nil_iff]
      intro t ht
      have := length_of_mem_cartProd _ t ht
      cases t with
      | nil => simp at this
      | cons x t => simp
    | cons j k =>
      simp only [List.map_cons, cartProd]
      rw [List.filter_flatMap]
      have step : ∀ x : Nat × Word,
          ((cartProd (bs.map enumerate)).map (fun t => x :: t)).filter
              (fun t => decide (t.map (·.1) = j :: k))
            = if x.1 = j then
                ((cartProd (bs.map enumerate)).filter (fun t => decide (t.map (·.1) = k))).map
                  (fun t => x :: t)
              else [] := by
        intro x
        rw [List.filter_map]
        by_cases hx : x.1 = j
        · rw [if_pos hx]
          congr 1
          apply List.filter_congr
          intro t _
          simp [hx]
        · rw [if_neg hx]
          simp only [List.map_eq_nil_iff]
          rw [List.filter_eq_nil_iff]
          intro t _
          simp [hx]
      rw [flatMap_congr' _ _ _ (fun x _ => step x), flatMap_ite, filter_enumerate, ih]
      simp only [inBox]
      by_cases hj : j < b.length
      · by_cases hk : inBox (bs.map List.length) k = true
        · simp [hj, hk, locOf]
        · simp [hj, hk]
      · simp [hj]

theorem inBox_length : ∀ (ds k : List Nat), inBox ds k = true → k.length = ds.length
  | [], [], _ => rfl
  | [], _ :: _, h => by simp [inBox] at h
  | _ :: _, [], h => by simp [inBox] at h
  | d :: ds, j :: k, h => by
    simp only [inBox, Bool.and_eq_true] at h
    simp [inBox_length ds k h.2]

theorem inBox_append : ∀ (ds es k : List Nat),
    inBox (ds ++ es) k = (inBox ds (k.take ds.length) && inBox es (k.drop ds.length))
  | [], es, k => by simp [inBox]
  | d :: ds, es, [] => by simp [inBox]
  | d :: ds, es, j :: k => by
    simp only [List.cons_append, inBox, List.length_cons, List.take_succ_cons, List.drop_succ_cons]
    rw [inBox_append ds es k, Bool.and_assoc]

theorem filter_allLocations (bases : List (List Word)) (k : List Nat) :
    (allLocations bases).filter (fun lr => decide (locIdx lr = k))
      = if inBox (bases.map List.length ++ bases.map List.length) k = true then
          [(locOf (bases.map daggerBasis) (k.take bases.length), locOf bases (k.drop bases.length))]
        else [] := by
  unfold allLocations
  simp only
  have hL : bases.map (fun b => enumerate (daggerBasis b)) = (bases.map daggerBasis).map enumerate := by
    rw [List.map_map]; rfl
  rw [hL, List.filter_flatMap]
  have step : ∀ l ∈ cartProd ((bases.map daggerBasis).map enumerate),
      ((cartProd (bases.map enumerate)).map (fun r => (l, r))).filter (fun lr => decide (locIdx lr = k))
        = if l.map (·.1) = k.take bases.length then
            ((cartProd (bases.map enumerate)).filter
              (fun r => decide (r.map (·.1) = k.drop bases.length))).map (fun r => (l, r))
          else [] := by
    intro l hl
    have hlen : (l.map (·.1)).length = bases.length := by
      rw [List.length_map, length_of_mem_cartProd _ l hl]; simp
    rw [List.filter_map]
    have key : ∀ r : List (Nat × Word), (locIdx (l, r) = k)
        ↔ (l.map (·.1) = k.take bases.length ∧ r.map (·.1) = k.drop bases.length) := by
      intro r
      unfold locIdx
      constructor
      · intro e
        rw [← e, ← hlen]
        exact ⟨(List.take_left' rfl).symm, (List.drop_left' rfl).symm⟩
      · rintro ⟨e1, e2⟩
        simp only
        rw [e1, e2, List.take_append_drop]
    by_cases h1 : l.map (·.1) = k.take bases.length
    · rw [if_pos h1]
      congr 1
      apply List.filter_congr
      intro r _
      simp only [Function.comp]
      have := key r
      simp only [h1, true_and] at this
      exact decide_eq_decide.2 this
    · rw [if_neg h1]
      simp only [List.map_eq_nil_iff]
      rw [List.filter_eq_nil_iff]
      intro r _
      simp only [Function.comp, decide_eq_true_eq]
      intro e
      exact h1 ((key r).1 e).1
  rw [flatMap_congr' _ _ _ step, flatMap_ite, filter_cartProd_enumerate, filter_cartProd_enumerate,
      inBox_append]
  simp only [List.length_map, List.map_map]
  have hd : (List.length ∘ daggerBasis) = (List.length : List Word → Nat) := by
    funext b; simp [daggerBasis]
  rw [hd]
  by_cases h1 : inBox (bases.map List.length) (k.take bases.length) = true
  · by_cases h2 : inBox (bases.map List.length) (k.drop bases.length) = true
    · simp [h1, h2]
    · simp [h1, h2]
  · simp [h1]

theorem locOf_ops (bs : List (List Word)) (k : List Nat) :
    ((locOf bs k).map (·.2)).flatten = ketOf bs k := by
  unfold locOf ketOf
  rw [List.map_zipWith]

theorem getD_daggerBasis (b : List Word) (j : Nat) :
    (daggerBasis b).getD j [] = dagWord (b.getD j []) := by
  unfold daggerBasis
  rw [List.getD_eq_getElem?_getD, List.getD_eq_getElem?_getD, List.getElem?_map]
  cases b[j]? <;> simp [dagWord]

theorem locOf_dagger_ops (bs : List (List Word)) (k : List Nat) :
    ((locOf (bs.map daggerBasis) k).map (·.2)).flatten = braOf bs k := by
  unfold locOf braOf
  rw [List.map_zipWith, List.zipWith_map_left]
  simp only [getD_daggerBasis]

section main
variable {α : Type} [AddCommGroup α] [DecidableEq α]

theorem specAt_eq (terms : List (α × Word)) (bases : List (List Word)) (idx : List Nat) :
    specAt terms bases idx
      = if inBox (bases.map List.length ++ bases.map List.length) idx = true then
          sumA (terms.map (fun ct => scaleInt
            (vev (braOf bases (idx.take bases.length) ++ ct.2 ++ ketOf bases (idx.drop bases.length)))
            ct.1))
        else 0 := rfl

/-- the dict built by the loops, looked up at any multi-index, is the specified element -/
theorem elemAt_buildElementsCore (terms : List (α × Word)) (bases : List (List Word))
    (idx : List Nat) :
    elemAt (buildElementsCore terms bases) idx = specAt terms bases idx := by
  unfold buildElementsCore
  rw [elemAt_foldl_locStep, sumA_map_ite, filter_allLocations, specAt_eq]
  have h0 : elemAt ([] : List (List Nat × α)) idx = 0 := rfl
  rw [h0, zero_add]
  split
  · simp only [List.map_cons, List.map_nil, sumA, add_zero, locSum]
    simp only [locOf_dagger_ops]
    simp only [locOf_ops]
  · rfl

end main

/-! ### E. dagger, block reordering, Hermiticity -/

theorem dag_dag (o : FOp) : o.dag.dag = o := by
  cases o; simp [FOp.dag]

theorem dagWord_nil : dagWord [] = [] := rfl

theorem dagWord_append (u v : Word) : dagWord (u ++ v) = dagWord v ++ dagWord u := by
  simp [dagWord]

theorem dagWord_cons (o : FOp) (w : Word) : dagWord (o :: w) = dagWord w ++ [o.dag] := by
  simp [dagWord]

theorem dagWord_dagWord (w : Word) : dagWord (dagWord w) = w := by
  induction w with
  | nil => rfl
  | cons o w ih => rw [dagWord_cons, dagWord_append, ih]; simp [dagWord, dag_dag]

theorem dagWord_length (w : Word) : (dagWord w).length = w.length := by simp [dagWord]

theorem dagWord_flatten (Bs : List Word) :
    dagWord Bs.flatten = ((Bs.map dagWord).reverse).flatten := by
  induction Bs with
  | nil => rfl
  | cons B Bs ih =>
    rw [List.flatten_cons, dagWord_append, ih]
    simp

theorem flipOcc_flipOcc {l : Int} {d : Bool} {s : List Int} (hs : Sorted s)
    (hv : decide (l ∈ s) ≠ d) : flipOcc l (!d) (flipOcc l d s) = s := by
  have hm : decide (l ∈ flipOcc l d s) = d := by
    have := mem_flipOcc_self hs hv
    cases d <;> simp_all
  have hv2 : decide (l ∈ flipOcc l d s) ≠ !d := by rw [hm]; cases d <;> simp
  apply sorted_ext (sorted_flipOcc (sorted_flipOcc hs hv) hv2) hs
  intro z
  by_cases hz : z = l
  · subst hz
    rw [mem_flipOcc_self (sorted_flipOcc hs hv) hv2]
    cases d <;> simp_all
  · rw [mem_flipOcc_ne (sorted_flipOcc hs hv) hz, mem_flipOcc_ne hs hz]

/-- `⟨s'| o |s⟩ = ⟨s| o† |s'⟩` -/
theorem applyOp_adjoint (o : FOp) (s s' : List Int) (σ : Int) (hs : Sorted s)
    (h : applyOp o s = some (σ, s')) : applyOp o.dag s' = some (σ, s) := by
  rw [applyOp_eq] at h
  split at h
  · cases h
  · rename_i hv
    simp only [Option.some.injEq, Prod.mk.injEq] at h
    obtain ⟨rfl, rfl⟩ := h
    rw [applyOp_eq]
    have hm : decide (o.label ∈ flipOcc o.label o.dual s) = o.dual := by
      have := mem_flipOcc_self hs hv
      cases hd : o.dual <;> simp_all
    have hv2 : ¬ decide (o.dag.label ∈ flipOcc o.label o.dual s) = o.dag.dual := by
      show ¬ decide (o.label ∈ flipOcc o.label o.dual s) = !o.dual
      rw [hm]; cases o.dual <;> simp
    rw [if_neg hv2]
    show some (jwSign o.label (flipOcc o.label o.dual s), flipOcc o.label (!o.dual) (flipOcc o.label o.dual s))
      = some (jwSign o.label s, s)
    rw [flipOcc_flipOcc hs hv]
    simp only [jwSign_eq]
    rw [sgn_countBelow_flipOcc hv, if_neg (by omega)]

theorem applyWord_adjoint : ∀ (w : Word) (s : List Int) (a : Int) (s' : List Int), Sorted s →
    applyWord w s = some (a, s') → applyWord (dagWord w) s' = some (a, s) := by
  intro w
  induction w with
  | nil =>
    intro s a s' _ h
    simp only [applyWord, applyWordSt, List.foldr_nil, Option.some.injEq, Prod.mk.injEq] at h
    obtain ⟨rfl, rfl⟩ := h
    rfl
  | cons o w ih =>
    intro s a s' hs h
    have e : applyWord (o :: w) s = bindOp o (applyWord w s) := rfl
    rw [e] at h
    have hsorted : StSorted (applyWord w s) := applyWordSt_sorted w (st := some (1, s)) hs
    match hst : applyWord w s with
    | none => rw [hst] at h; cases h
    | some (a1, s1) =>
      rw [hst] at h hsorted
      have hs1 : Sorted s1 := hsorted
      simp only [bindOp] at h
      match hop : applyOp o s1 with
      | none => rw [hop] at h; cases h
      | some (σ, s'') =>
        rw [hop] at h
        simp only [Option.some.injEq, Prod.mk.injEq] at h
        obtain ⟨rfl, rfl⟩ := h
        have hadj := applyOp_adjoint o s1 s'' σ hs1 hop
        have hσ : σ = 1 ∨ σ = -1 := by
          rw [applyOp_eq] at hop
          split at hop
          · cases hop
          · simp only [Option.some.injEq, Prod.mk.injEq] at hop
            rw [← hop.1]; exact jwSign_cases _ _
        have ih' := ih s a1 s1 hs hst
        rw [dagWord_cons]
        show applyWordSt (dagWord w ++ [o.dag]) (some (1, s'')) = some (a1 * σ, s)
        rw [applyWordSt_append]
        have e2 : applyWordSt [o.dag] (some (1, s'')) = some (σ, s1) := by
          simp [applyWordSt, bindOp, hadj]
        rw [e2]
        rcases hσ with rfl | rfl
        · rw [Int.mul_one]; exact ih'
        · have : (some (-1, s1) : FState) = negSt (some (1, s1)) := rfl
          rw [this, applyWordSt_negSt]
          unfold applyWord at ih'
          rw [ih']
          simp [negSt]

theorem vev_ne_zero_elim (w : Word) (h : vev w ≠ 0) :
    ∃ a, applyWord w [] = some (a, []) ∧ vev w = a := by
  unfold vev at h ⊢
  match hst : applyWord w [] with
  | none => rw [hst] at h; exact absurd rfl h
  | some (a, []) => exact ⟨a, rfl, rfl⟩
  | some (a, _ :: _) => rw [hst] at h; exact absurd rfl h

/-- `⟨0| w |0⟩ = ⟨0| w† |0⟩` (all amplitudes are real) -/
theorem vev_dagWord (w : Word) : vev (dagWord w) = vev w := by
  by_cases h : vev w = 0
  · by_cases h' : vev (dagWord w) = 0
    · rw [h, h']
    · obtain ⟨a, ha, _⟩ := vev_ne_zero_elim _ h'
      have := applyWord_adjoint _ [] a [] sorted_nil ha
      rw [dagWord_dagWord] at this
      have : vev w = a := by unfold vev; rw [this]; rfl
      have : vev (dagWord w) = a := by unfold vev; rw [ha]; rfl
      omega
  · obtain ⟨a, ha, e⟩ := vev_ne_zero_elim _ h
    have := applyWord_adjoint _ [] a [] sorted_nil ha
    rw [e]; unfold vev; rw [this]; rfl

theorem sgn_add (a b : Nat) : sgn (a + b) = sgn a * sgn b := by
  unfold sgn
  split <;> split <;> split <;> first | rfl | omega

theorem sgn_zero : sgn 0 = 1 := rfl

def labelsDisjoint (A B : Word) : Prop := ∀ x ∈ A, ∀ y ∈ B, x.label ≠ y.label

/-- moving one operator to the right past a block on other modes -/
theorem vev_move_op (B : Word) : ∀ (u v : Word) (x : FOp), (∀ y ∈ B, x.label ≠ y.label) →
    vev (u ++ x :: (B ++ v)) = sgn B.length * vev (u ++ B ++ x :: v) := by
  induction B with
  | nil => intro u v x _; simp [sgn_zero]
  | cons y B ih =>
    intro u v x h
    have h1 : x.label ≠ y.label := h y List.mem_cons_self
    have e1 : u ++ x :: (y :: B ++ v) = u ++ x :: y :: (B ++ v) := rfl
    rw [e1, vev_swap u (B ++ v) x y h1]
    have := ih (u ++ [y]) v x (fun z hz => h z (List.mem_cons_of_mem _ hz))
    simp only [List.append_assoc, List.cons_append, List.nil_append] at this ⊢
    rw [this, List.length_cons, sgn_succ]; ring

/-- moving a block past a block on other modes -/
theorem vev_move_block (A : Word) : ∀ (u v B : Word), labelsDisjoint A B →
    vev (u ++ A ++ B ++ v) = sgn (A.length * B.length) * vev (u ++ B ++ A ++ v) := by
  induction A with
  | nil => intro u v B _; simp [sgn_zero]
  | cons x A ih =>
    intro u v B h
    have hA : labelsDisjoint A B := fun a ha => h a (List.mem_cons_of_mem _ ha)
    have hx : ∀ y ∈ B, x.label ≠ y.label := h x List.mem_cons_self
    have s1 := ih (u ++ [x]) v B hA
    have s2 := vev_move_op B u (A ++ v) x hx
    simp only [List.append_assoc, List.cons_append, List.nil_append] at s1 s2 ⊢
    rw [s1, s2, List.length_cons, Nat.succ_mul, sgn_add]; ring

def pairCount : List Nat → Nat
  | [] => 0
  | a :: r => a * sumN r + pairCount r

theorem length_flatten_sumN (Bs : List Word) : Bs.flatten.length = sumN (Bs.map List.length) := by
  induction Bs with
  | nil => rfl
  | cons B Bs ih => simp [sumN, ih]

/-- reversing the order of blocks on pairwise different modes -/
theorem vev_reverse_blocks (Bs : List Word) : Bs.Pairwise labelsDisjoint → ∀ (u v : Word),
    vev (u ++ Bs.flatten ++ v)
      = sgn (pairCount (Bs.map List.length)) * vev (u ++ Bs.reverse.flatten ++ v) := by
  induction Bs with
  | nil => intro _ u v; simp [pairCount, sgn_zero]
  | cons B Bs ih =>
    intro hd u v
    rw [List.pairwise_cons] at hd
    have hB : labelsDisjoint B Bs.flatten := by
      intro x hx y hy
      obtain ⟨B', hB', hy'⟩ := List.mem_flatten.1 hy
      exact hd.1 B' hB' x hx y hy'
    have s1 := vev_move_block B u v Bs.flatten hB
    have s2 := ih hd.2 u (B ++ v)
    simp only [List.flatten_cons, List.reverse_cons, List.flatten_append, List.flatten_nil,
      List.append_nil, List.append_assoc, List.map_cons, pairCount] at s1 s2 ⊢
    rw [s1, s2, length_flatten_sumN, sgn_add]; ring

def ketBlocks (bases : List (List Word)) (js : List Nat) : List Word :=
  List.zipWith (fun b j => b.getD j []) bases js

def braBlocks (bases : List (List Word)) (is : List Nat) : List Word :=
  List.zipWith (fun b i => dagWord (b.getD i [])) bases is

theorem ketOf_eq (bases : List (List Word)) (js : List Nat) : ketOf bases js = (ketBlocks bases js).flatten := rfl
theorem braOf_eq (bases : List (List Word)) (is : List Nat) : braOf bases is = (braBlocks bases is).flatten := rfl

theorem braBlocks_eq_map (bases : List (List Word)) (is : List Nat) :
    braBlocks bases is = (ketBlocks bases is).map dagWord := by
  unfold braBlocks ketBlocks
  rw [List.map_zipWith]

theorem map_dagWord_braBlocks (bases : List (List Word)) (is : List Nat) :
    (braBlocks bases is).map dagWord = ketBlocks bases is := by
  rw [braBlocks_eq_map, List.map_map]
  have : dagWord ∘ dagWord = id := by funext w; exact dagWord_dagWord w
  rw [this, List.map_id]

/-- sign between the documented bra `⟨i₁|⟨i₂|…` and the proper bra `…⟨i₂|⟨i₁|` -/
def siteSign (bases : List (List Word)) (is : List Nat) : Int :=
  sgn (pairCount ((ketBlocks bases is).map List.length))

/-- operators of different sites act on different modes -/
def SitesDisjoint (bases : List (List Word)) : Prop :=
  bases.Pairwise (fun b b' => ∀ w ∈ b, ∀ w' ∈ b', labelsDisjoint w w')

theorem getD_mem_or_nil (b : List Word) (j : Nat) : b.getD j [] = [] ∨ b.getD j [] ∈ b := by
  rw [List.getD_eq_getElem?_getD]
  cases h : b[j]? with
  | none => left; rfl
  | some w => right; exact List.mem_of_getElem? h

theorem mem_ketBlocks : ∀ (bases : List (List Word)) (js : List Nat) (w : Word),
    w ∈ ketBlocks bases js → w = [] ∨ ∃ b ∈ bases, w ∈ b
  | [], _, w, h => by simp [ketBlocks] at h
  | _ :: _, [], w, h => by simp [ketBlocks] at h
  | b :: bs, j :: js, w, h => by
    simp only [ketBlocks, List.zipWith_cons_cons, List.mem_cons] at h
    rcases h with rfl | h
    · rcases getD_mem_or_nil b j with e | e
      · left; exact e
      · right; exact ⟨b, List.mem_cons_self, e⟩
    · rcases mem_ketBlocks bs js w h with e | ⟨b', hb', e⟩
      · left; exact e
      · right; exact ⟨b', List.mem_cons_of_mem _ hb', e⟩

theorem pairwise_ketBlocks : ∀ (bases : List (List Word)), SitesDisjoint bases → ∀ js,
    (ketBlocks bases js).Pairwise labelsDisjoint
  | [], _, js => by simp [ketBlocks]
  | _ :: _, _, [] => by simp [ketBlocks]
  | b :: bs, hd, j :: js => by
    unfold SitesDisjoint at hd
    rw [List.pairwise_cons] at hd
    simp only [ketBlocks, List.zipWith_cons_cons]
    rw [List.pairwise_cons]
    refine ⟨?_, pairwise_ketBlocks bs hd.2 js⟩
    intro w' hw'
    rcases getD_mem_or_nil b j with e | e
    · rw [e]; intro x hx; cases hx
    · rcases mem_ketBlocks bs js w' hw' with rfl | ⟨b', hb', hw''⟩
      · intro x _ y hy; cases hy
      · exact hd.1 b' hb' _ e w' hw''

theorem labelsDisjoint_dagWord {A B : Word} (h : labelsDisjoint A B) :
    labelsDisjoint (dagWord A) (dagWord B) := by
  intro x hx y hy
  simp only [dagWord, List.mem_map, List.mem_reverse] at hx hy
  obtain ⟨x', hx', rfl⟩ := hx
  obtain ⟨y', hy', rfl⟩ := hy
  exact h x' hx' y' hy'

theorem pairwise_braBlocks (bases : List (List Word)) (hd : SitesDisjoint bases) (is : List Nat) :
    (braBlocks bases is).Pairwise labelsDisjoint := by
  rw [braBlocks_eq_map, List.pairwise_map]
  exact (pairwise_ketBlocks bases hd is).imp labelsDisjoint_dagWord

theorem siteSign_sq (bases : List (List Word)) (is : List Nat) :
    siteSign bases is * siteSign bases is = 1 := sgn_sq _

/-- the element with the roles of bra and ket exchanged, in terms of the daggered term -/
theorem vev_exchange (bases : List (List Word)) (hd : SitesDisjoint bases) (is js : List Nat) (t : Word) :
    vev (braOf bases js ++ t ++ ketOf bases is)
      = siteSign bases is * siteSign bases js * vev (braOf bases is ++ dagWord t ++ ketOf bases js) := by
  rw [← vev_dagWord, dagWord_append, dagWord_append, braOf_eq, ketOf_eq, dagWord_flatten,
      dagWord_flatten, map_dagWord_braBlocks, ← braBlocks_eq_map]
  have r1 := vev_reverse_blocks (braBlocks bases is) (pairwise_braBlocks bases hd is) []
    (dagWord t ++ (ketBlocks bases js).reverse.flatten)
  have r2 := vev_reverse_blocks (ketBlocks bases js) (pairwise_ketBlocks bases hd js)
    ((braBlocks bases is).flatten ++ dagWord t) []
  have l1 : (braBlocks bases is).map List.length = (ketBlocks bases is).map List.length := by
    rw [braBlocks_eq_map, List.map_map]
    congr 1
    funext w; exact dagWord_length w
  rw [l1] at r1
  simp only [List.nil_append, List.append_nil, List.append_assoc] at r1 r2 ⊢
  rw [braOf_eq, ketOf_eq]
  have q1 := siteSign_sq bases is
  have q2 := siteSign_sq bases js
  unfold siteSign at q1 q2 ⊢
  generalize sgn (pairCount ((ketBlocks bases is).map List.length)) = a at *
  generalize sgn (pairCount ((ketBlocks bases js).map List.length)) = b at *
  rw [r2, r1]
  generalize vev ((braBlocks bases is).reverse.flatten ++ (dagWord t ++ (ketBlocks bases js).reverse.flatten)) = Z
  have : a * b * (b * (a * Z)) = (a * a) * (b * b) * Z := by ring
  rw [this, q1, q2]; ring

section herm
variable {α : Type} [AddCommGroup α]

theorem sumA_perm {l l' : List α} (h : l.Perm l') : sumA l = sumA l' := by
  induction h with
  | nil => rfl
  | cons x _ ih => simp [sumA, ih]
  | swap x y l => simp [sumA, add_left_comm]
  | trans _ _ ih1 ih2 => exact ih1.trans ih2

theorem scaleInt_one (c : α) : scaleInt 1 c = c := by simp [scaleInt]
theorem scaleInt_neg_one (c : α) : scaleInt (-1) c = -c := by simp [scaleInt]
theorem scaleInt_zero (c : α) : scaleInt 0 c = 0 := by simp [scaleInt]

theorem scaleInt_neg (v : Int) (hv : v = 0 ∨ v = 1 ∨ v = -1) (c : α) :
    scaleInt (-v) c = - scaleInt v c := by
  rcases hv with rfl | rfl | rfl <;> simp [scaleInt]

theorem scale_sum_cancel {β : Type} (σ : Int) (hσ : σ = 1 ∨ σ = -1) (l : List β)
    (v : β → Int) (hv : ∀ x, v x = 0 ∨ v x = 1 ∨ v x = -1) (c : β → α) :
    scaleInt σ (sumA (l.map (fun x => scaleInt (σ * v x) (c x))))
      = sumA (l.map (fun x => scaleInt (v x) (c x))) := by
  rcases hσ with rfl | rfl
  · simp only [Int.one_mul, scaleInt_one]
  · rw [scaleInt_neg_one]
    induction l with
    | nil => simp [sumA]
    | cons x l ih =>
      simp only [List.map_cons, sumA, neg_add, ih]
      rw [show (-1 : Int) * v x = -(v x) by ring, scaleInt_neg _ (hv x), neg_neg]

theorem cj_zero (cj : α → α) (hcj : ∀ a b, cj (a + b) = cj a + cj b) : cj 0 = 0 := by
  have h := hcj 0 0
  rw [add_zero] at h
  exact (add_eq_left.1 h.symm)

theorem cj_neg (cj : α → α) (hcj : ∀ a b, cj (a + b) = cj a + cj b) (a : α) : cj (-a) = - cj a := by
  have h := hcj a (-a)
  rw [add_neg_cancel, cj_zero cj hcj] at h
  exact (neg_eq_of_add_eq_zero_right h.symm).symm

theorem cj_scaleInt (cj : α → α) (hcj : ∀ a b, cj (a + b) = cj a + cj b) (v : Int) (c : α) :
    cj (scaleInt v c) = scaleInt v (cj c) := by
  unfold scaleInt
  split
  · exact cj_zero cj hcj
  · split
    · rfl
    · exact cj_neg cj hcj c

theorem cj_sumA (cj : α → α) (hcj : ∀ a b, cj (a + b) = cj a + cj b) (l : List α) :
    cj (sumA l) = sumA (l.map cj) := by
  induction l with
  | nil => exact cj_zero cj hcj
  | cons x l ih => simp [sumA, hcj, ih]

theorem specAt_eq' (terms : List (α × Word)) (bases : List (List Word)) (idx : List Nat) :
    specAt terms bases idx
      = if inBox (bases.map List.length ++ bases.map List.length) idx = true then
          sumA (terms.map (fun ct => scaleInt
            (vev (braOf bases (idx.take bases.length) ++ ct.2 ++ ketOf bases (idx.drop bases.length)))
            ct.1))
        else 0 := rfl

/-- **Hermiticity**: if the term set is closed under dagger with conjugated coefficients and the
    sites act on different modes, the element array is Hermitian up to the diagonal sign
    `siteSign` of the bra convention: `M[i,j] = τ(i) τ(j) conj M[j,i]`. -/
theorem specAt_hermitian (cj : α → α) (hcj : ∀ a b, cj (a + b) = cj a + cj b)
    (terms : List (α × Word)) (bases : List (List Word)) (hd : SitesDisjoint bases)
    (hclosed : (terms.map (fun ct => (cj ct.1, dagWord ct.2))).Perm terms)
    (is js : List Nat) (hi : is.length = bases.length) (hj : js.length = bases.length) :
    specAt terms bases (is ++ js)
      = scaleInt (siteSign bases is * siteSign bases js) (cj (specAt terms bases (js ++ is))) := by
  rw [specAt_eq', specAt_eq']
  have t1 : (is ++ js).take bases.length = is := List.take_left' hi
  have d1 : (is ++ js).drop bases.length = js := List.drop_left' hi
  have t2 : (js ++ is).take bases.length = js := List.take_left' hj
  have d2 : (js ++ is).drop bases.length = is := List.drop_left' hj
  have hb : inBox (bases.map List.length ++ bases.map List.length) (js ++ is)
      = inBox (bases.map List.length ++ bases.map List.length) (is ++ js) := by
    rw [inBox_append, inBox_append, List.length_map, t1, d1, t2, d2, Bool.and_comm]
  rw [hb, t1, d1, t2, d2]
  have hσ : siteSign bases is * siteSign bases js = 1 ∨ siteSign bases is * siteSign bases js = -1 := by
    unfold siteSign
    rcases sgn_cases (pairCount ((ketBlocks bases is).map List.length)) with h | h <;>
    rcases sgn_cases (pairCount ((ketBlocks bases js).map List.length)) with h' | h' <;>
    rw [h, h'] <;> simp
  split
  · simp only [vev_exchange bases hd is js]
    rw [cj_sumA cj hcj, List.map_map]
    simp only [Function.comp_def, cj_scaleInt cj hcj]
    rw [scale_sum_cancel _ hσ terms (fun ct => vev (braOf bases is ++ dagWord ct.2 ++ ketOf bases js))
      (fun ct => vev_cases _) (fun ct => cj ct.1)]
    have := sumA_perm ((hclosed.map (fun ct : α × Word =>
      scaleInt (vev (braOf bases is ++ ct.2 ++ ketOf bases js)) ct.1)))
    rw [List.map_map] at this
    exact this.symm
  · rw [cj_zero cj hcj]
    rcases hσ with h | h <;> rw [h] <;> simp [scaleInt]

end herm

/-! ### F. charge conservation -/

def occCharge (q : Int → Int) : List Int → Int
  | [] => 0
  | z :: s => q z + occCharge q s

theorem occCharge_perm (q : Int → Int) {s t : List Int} (h : s.Perm t) : occCharge q s = occCharge q t := by
  induction h with
  | nil => rfl
  | cons x _ ih => simp [occCharge, ih]
  | swap x y l => simp only [occCharge]; omega
  | trans _ _ ih1 ih2 => exact ih1.trans ih2

theorem occCharge_flipOcc (q : Int → Int) {l : Int} {d : Bool} {s : List Int}
    (hv : decide (l ∈ s) ≠ d) :
    occCharge q (flipOcc l d s) = (if d then q l else - q l) + occCharge q s := by
  unfold flipOcc
  cases d
  · have hm : l ∈ s := by simpa using hv
    have := occCharge_perm q (List.perm_cons_erase hm)
    simp only [occCharge] at this
    simp only [Bool.false_eq_true, if_false]
    omega
  · simp only [if_true]
    rw [occCharge_perm q (fockInsert_perm l s)]; rfl

theorem applyWord_charge (q : Int → Int) (w : Word) :
    ∀ a s, applyWord w [] = some (a, s) → wordCharge q w = occCharge q s := by
  induction w with
  | nil =>
    intro a s h
    simp only [applyWord, applyWordSt, List.foldr_nil, Option.some.injEq, Prod.mk.injEq] at h
    rw [← h.2]; rfl
  | cons o w ih =>
    intro a s h
    rw [applyWord_cons] at h
    match hst : applyWord w [] with
    | none => rw [hst] at h; cases h
    | some (a', s') =>
      rw [hst, bindOp_some] at h
      split at h
      · cases h
      · rename_i hv
        simp only [Option.some.injEq, Prod.mk.injEq] at h
        rw [← h.2, occCharge_flipOcc q hv, ← ih a' s' hst]
        rfl

/-- a word with non-zero vacuum expectation value is charge neutral for every charge assignment -/
theorem vev_ne_zero_neutral (q : Int → Int) (w : Word) (h : vev w ≠ 0) : wordCharge q w = 0 := by
  obtain ⟨a, ha, _⟩ := vev_ne_zero_elim w h
  rw [applyWord_charge q w a [] ha]; rfl

theorem wordCharge_append (q : Int → Int) (u v : Word) :
    wordCharge q (u ++ v) = wordCharge q u + wordCharge q v := by
  induction u with
  | nil => simp [wordCharge]
  | cons o u ih => simp only [List.cons_append, wordCharge, ih]; omega

theorem wordCharge_dagWord (q : Int → Int) (w : Word) : wordCharge q (dagWord w) = - wordCharge q w := by
  induction w with
  | nil => rfl
  | cons o w ih =>
    obtain ⟨l, d⟩ := o
    rw [dagWord_cons, wordCharge_append, ih]
    simp only [wordCharge, FOp.dag]
    cases d <;> simp

theorem wordCharge_braOf (q : Int → Int) (bases : List (List Word)) (is : List Nat) :
    wordCharge q (braOf bases is) = - wordCharge q (ketOf bases is) := by
  rw [braOf_eq, ketOf_eq, braBlocks_eq_map]
  induction ketBlocks bases is with
  | nil => rfl
  | cons B Bs ih =>
    simp only [List.map_cons, List.flatten_cons, wordCharge_append, ih, wordCharge_dagWord]
    omega

theorem sumA_eq_zero {α : Type} [AddCommGroup α] (l : List α) (h : ∀ x ∈ l, x = 0) : sumA l = 0 := by
  induction l with
  | nil => rfl
  | cons x l ih =>
    simp only [sumA]
    rw [h x List.mem_cons_self, ih (fun y hy => h y (List.mem_cons_of_mem _ hy)), add_zero]

/-- **charge conservation**: with charge-neutral terms, a non-zero element connects basis
    states of equal charge, for every assignment `q` of charges to modes. -/
theorem specAt_charge {α : Type} [AddCommGroup α] (q : Int → Int)
    (terms : List (α × Word)) (bases : List (List Word))
    (hneutral : ∀ ct ∈ terms, wordCharge q ct.2 = 0) (idx : List Nat)
    (h : specAt terms bases idx ≠ 0) :
    wordCharge q (ketOf bases (idx.take bases.length))
      = wordCharge q (ketOf bases (idx.drop bases.length)) := by
  rw [specAt_eq'] at h
  split at h
  · by_contra hne
    apply h
    apply sumA_eq_zero
    intro x hx
    obtain ⟨ct, hct, rfl⟩ := List.mem_map.1 hx
    by_cases hv : vev (braOf bases (idx.take bases.length) ++ ct.2
        ++ ketOf bases (idx.drop bases.length)) = 0
    · rw [hv]; simp [scaleInt]
    · exfalso
      have := vev_ne_zero_neutral q _ hv
      rw [wordCharge_append, wordCharge_append, wordCharge_braOf, hneutral ct hct] at this
      apply hne; omega
  · exact absurd rfl h

end SymmModel.FermiOpsP
