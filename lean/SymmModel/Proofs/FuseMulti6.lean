/-
  SymmModel.Proofs.FuseMulti6 — **fuse_elem for arbitrary groups** (insert strategy, block form):
  the entry of a fused block at offsets `i` is the entry of the original block found by
  `splitAddr` on EVERY multi-axis group axis (identity on single-axis groups) and un-permuting.
-/
import SymmModel.Proofs.FuseMulti5
namespace SymmModel
namespace FuseP
set_option linter.unusedSectionVars false

variable {R : Type}

section Multi
variable {a : Arr R} {groups : List (List Nat)}

variable (a groups) in
/-- the segment (sub-charges, sub-offsets) that group `g` contributes to the expanded address -/
def segM (ns : Sector) (i : List Nat) (g : Nat) : Sector × List Nat :=
  if multiB groups g then
    (splitAddr (ixM a groups g) (ns.getD ((giM a groups).position + g) (0, 0))
      (i.getD ((giM a groups).position + g) 0)).getD ([], [])
  else ([ns.getD ((giM a groups).position + g) (0, 0)], [i.getD ((giM a groups).position + g) 0])

variable (a groups) in
/-- new sector with every group position expanded into its sub-charges -/
def expandK (ns : Sector) (i : List Nat) : Sector :=
  ns.take (giM a groups).position
    ++ ((List.range groups.length).map (fun g => (segM a groups ns i g).1)).flatten
    ++ ns.drop ((giM a groups).position + groups.length)

variable (a groups) in
/-- offsets with every group position expanded into its sub-offsets -/
def expandJ (ns : Sector) (i : List Nat) : List Nat :=
  i.take (giM a groups).position
    ++ ((List.range groups.length).map (fun g => (segM a groups ns i g).2)).flatten
    ++ i.drop ((giM a groups).position + groups.length)

theorem expandK_parts (ns : Sector) (i : List Nat) (hl : ns.length = ndimM a groups) :
    expandK a groups ns i
      = (List.range (giM a groups).position).map (fun x => ns.getD x (0, 0))
        ++ ((List.range groups.length).map (fun g => (segM a groups ns i g).1)).flatten
        ++ (List.range (giM a groups).axesAfter.length).map
            (fun j => ns.getD ((giM a groups).position + groups.length + j) (0, 0)) := by
  simp only [expandK]
  rw [take_eq_range_map ns (0, 0) _ (by rw [hl]; simp only [ndimM]; omega),
    drop_eq_range_map ns (0, 0) _ _ (by rw [hl]; rfl)]

theorem expandJ_parts (ns : Sector) (i : List Nat) (hl : i.length = ndimM a groups) :
    expandJ a groups ns i
      = (List.range (giM a groups).position).map (fun x => i.getD x 0)
        ++ ((List.range groups.length).map (fun g => (segM a groups ns i g).2)).flatten
        ++ (List.range (giM a groups).axesAfter.length).map
            (fun j => i.getD ((giM a groups).position + groups.length + j) 0) := by
  simp only [expandJ]
  rw [take_eq_range_map i 0 _ (by rw [hl]; simp only [ndimM]; omega),
    drop_eq_range_map i 0 _ _ (by rw [hl]; rfl)]

/-- three-part equality, split -/
theorem parts_inj {α : Type} {A A' M M' C C' : List α} (h : A ++ M ++ C = A' ++ M' ++ C')
    (ha : A.length = A'.length) (hc : C.length = C'.length) : A = A' ∧ M = M' ∧ C = C' := by
  have h1 := List.append_inj' h hc
  have h2 := List.append_inj h1.1 ha
  exact ⟨h2.1, h2.2, h1.2⟩

theorem range_map_inj {α : Type} {n : Nat} {f g : Nat → α} (h : (List.range n).map f = (List.range n).map g) :
    ∀ x, x < n → f x = g x := by
  intro x hx
  exact List.map_inj_left.1 h x (List.mem_range.2 hx)

/-- the segments of a stored sector in the fused block `ns`: when the group sub-sectors of `sb`
    are the ones `splitAddr` found, the expanded key is the transposed sector of `sb` -/
theorem expandK_of_stored (hok : GroupsOk groups a.ndim) {sb : Sector × Blk R} (hl : sb.1.length = a.ndim)
    {ns : Sector} {i : List Nat} (hns : (planM a groups sb).newSector = ns)
    (hseg : ∀ g, g < groups.length → (segM a groups ns i g).1 = (groups.getD g []).map (fun ax => sb.1.getD ax (0, 0))) :
    permuted sb.1 (giM a groups).perm = expandK a groups ns i := by
  rw [permutedM_eq hok sb.1 (0, 0) hl, expandK_parts ns i (by rw [← hns]; exact planM_newSector_length hok sb)]
  have hp := nsM_parts hok sb
  rw [hns] at hp
  congr 1
  · congr 1
    · apply List.map_congr_left
      intro x hx
      simp only [List.mem_range] at hx
      rw [hp, List.append_assoc, getD_before _ _ _ _ (by simpa using hx), getD_range_map _ _ _ _ hx]
    · congr 1
      apply List.map_congr_left
      intro g hg
      simp only [List.mem_range] at hg
      exact (hseg g hg).symm
  · apply List.map_congr_left
    intro j hj
    simp only [List.mem_range] at hj
    have hlen : ((List.range (giM a groups).position).map (fun x => sb.1.getD x (0, 0))
        ++ (List.range groups.length).map (fun g => cM (a := a) (groups := groups) sb g)).length
        = (giM a groups).position + groups.length := by simp
    rw [hp, ← hlen, getD_after, getD_range_map _ _ _ _ hj]

variable [Zero R]

/-- **element map, arbitrary groups, block form** -/
theorem fused_getM (hv : ValidArr a) (hok : GroupsOk groups a.ndim) {ns : Sector} {B : Blk R}
    (hB : alookup (fusedBlocksM a groups) ns = some B) {i : List Nat} (hi : inBox B.shape i = true) :
    (∀ g, g < groups.length → multiB groups g = true →
        splitAddr (ixM a groups g) (ns.getD ((giM a groups).position + g) (0, 0))
          (i.getD ((giM a groups).position + g) 0) = some (segM a groups ns i g))
    ∧ ∀ s offs, s.length = a.ndim → offs.length = a.ndim →
        permuted s (giM a groups).perm = expandK a groups ns i →
        permuted offs (giM a groups).perm = expandJ a groups ns i →
        (B.get i = (match alookup a.blocks s with
          | some b => b.get offs
          | none => 0))
        ∧ (∀ b, alookup a.blocks s = some b →
            inBox (permuted b.shape (giM a groups).perm) (permuted offs (giM a groups).perm) = true) := by
  have hinv := fusedBlocksM_inv hv hok
  obtain ⟨sb0, hsb0, hns0, hBs⟩ := fusedBlockM_info hv hok hB
  subst hns0
  rw [hBs] at hi
  have hib := inBox_iff.1 hi
  rw [BshM_length] at hib
  have hil : i.length = ndimM a groups := hib.1
  -- bound of `i` on a group axis
  have hig : ∀ g, g < groups.length → i.getD ((giM a groups).position + g) 0
      < if multiB groups g then DM a groups sb0 g else dM (a := a) (groups := groups) sb0 g := by
    intro g hg
    have hax : (giM a groups).position + g < ndimM a groups := by simp only [ndimM]; omega
    have := hib.2 _ hax
    rw [BshM_getD sb0 hax, axMulti_mid hg, Nat.add_sub_cancel_left] at this
    exact this
  -- the split on every multi-axis group
  have hsplit : ∀ g, g < groups.length → multiB groups g = true →
      ∃ e ss r st d shpM, alookup (extsM a groups g) (cM (a := a) (groups := groups) sb0 g) = some e
        ∧ (e.map (·.1)).Nodup
        ∧ segM a groups (planM a groups sb0).newSector i g = (ss, unravel shpM r)
        ∧ splitAddr (ixM a groups g) (cM (a := a) (groups := groups) sb0 g)
            (i.getD ((giM a groups).position + g) 0) = some (ss, unravel shpM r)
        ∧ startOf e ss = some (st, d) ∧ r < d ∧ i.getD ((giM a groups).position + g) 0 = st + r
        ∧ Arr.blockShape? ((groups.getD g []).map (fun ax => a.indices.getD ax default)) ss = some shpM
        ∧ prod shpM = d ∧ ss.length = (groups.getD g []).length
        ∧ a.sym.combine (List.zipWith (fun c' (sub : Index) =>
            a.sym.sign c' ((giM a groups).groupDuals.getD g false != sub.dual)) ss
            ((groups.getD g []).map (fun ax => a.indices.getD ax default)))
            = cM (a := a) (groups := groups) sb0 g := by
    intro g hg hm
    obtain ⟨gaxes, hgg, hlen⟩ := multiB_iff.1 hm
    have hgd : groups.getD g [] = gaxes := by simp [List.getD_eq_getElem?_getD, hgg]
    have ho := hig g hg
    simp only [hm, if_true] at ho
    obtain ⟨e, ss, r, st, d, shpM, h1, h2, h3, h4, h5, h6, h7, h8, h9, h10⟩ :=
      split_factsM hv hok hgg hlen hsb0 ho
    refine ⟨e, ss, r, st, d, shpM, h1, h2, ?_, h3, h4, h5, h6, by rw [hgd]; exact h7, h8,
      by rw [hgd]; exact h9, by rw [hgd]; exact h10⟩
    simp only [segM, hm, if_true]
    have : (planM a groups sb0).newSector.getD ((giM a groups).position + g) (0, 0)
        = cM (a := a) (groups := groups) sb0 g := rfl
    rw [this, h3]; rfl
  refine ⟨?_, ?_⟩
  · intro g hg hm
    obtain ⟨e, ss, r, st, d, shpM, _, _, h3, h4, _⟩ := hsplit g hg hm
    rw [h3]; exact h4
  intro s offs hsl hol hK hJ
  -- lengths of the segments
  have hseglen : ∀ g, g < groups.length →
      (segM a groups (planM a groups sb0).newSector i g).1.length = (groups.getD g []).length := by
    intro g hg
    by_cases hm : multiB groups g = true
    · obtain ⟨e, ss, r, st, d, shpM, _, _, h3, _, _, _, _, _, _, h9, _⟩ := hsplit g hg hm
      rw [h3]; exact h9
    · have hm' : multiB groups g = false := by simpa using hm
      have hgg : groups[g]? = some groups[g] := List.getElem?_eq_getElem hg
      have hlen : groups[g].length = 1 := by
        by_contra hne; exact hm (multiB_iff.2 ⟨_, hgg, hne⟩)
      simp [segM, hm', List.getD_eq_getElem?_getD, hgg, hlen]
  -- a stored sector with the expanded key lies in this fused block, with the found sub-sectors
  have hkey : ∀ sb ∈ a.blocks, permuted sb.1 (giM a groups).perm = expandK a groups (planM a groups sb0).newSector i →
      (planM a groups sb).newSector = (planM a groups sb0).newSector
      ∧ ∀ g, g < groups.length →
          (segM a groups (planM a groups sb0).newSector i g).1 = (groups.getD g []).map (fun ax => sb.1.getD ax (0, 0)) := by
    intro sb hsb hKsb
    rw [permutedM_eq hok sb.1 (0, 0) (hv.blk sb hsb).1,
      expandK_parts _ i (planM_newSector_length hok sb0)] at hKsb
    obtain ⟨e1, e2, e3⟩ := parts_inj hKsb (by simp) (by simp)
    have hE2 := flatten_map_inj (List.range groups.length) _ _ (by
      intro g hg
      simp only [List.mem_range] at hg
      simp only [List.length_map]
      exact (hseglen g hg).symm) e2
    have hseg : ∀ g, g < groups.length →
        (segM a groups (planM a groups sb0).newSector i g).1 = (groups.getD g []).map (fun ax => sb.1.getD ax (0, 0)) :=
      fun g hg => (hE2 g (List.mem_range.2 hg)).symm
    refine ⟨?_, hseg⟩
    -- the new sectors agree axis by axis
    apply list_ext_getD (0, 0) (by rw [planM_newSector_length hok, planM_newSector_length hok])
    intro ax hax
    rw [planM_newSector_length hok] at hax
    rcases axis_cases ax hax with h | ⟨g, hg, rfl⟩ | ⟨j, hj, rfl⟩
    · have h1 : (planM a groups sb).newSector.getD ax (0, 0) = sb.1.getD ax (0, 0) :=
        planOf_newSector_before _ _ _ _ _ _ (hokD hok) h
      rw [h1]; exact range_map_inj e1 ax h
    · have hgg : groups[g]? = some groups[g] := List.getElem?_eq_getElem hg
      have hgd : groups.getD g [] = groups[g] := by simp [List.getD_eq_getElem?_getD, hgg]
      by_cases hm : multiB groups g = true
      · obtain ⟨gaxes, hgg', hlen⟩ := multiB_iff.1 hm
        obtain ⟨e, ss, r, st, d, shpM, _, _, h3, _, _, _, _, _, _, _, h10⟩ := hsplit g hg hm
        have hs := hseg g hg
        rw [h3] at hs
        simp only at hs
        have hc := cM_eq_combine (a := a) hok hgg' hlen sb
        rw [ssM_eq hgg'] at hc
        have hgd' : groups.getD g [] = gaxes := by simp [List.getD_eq_getElem?_getD, hgg']
        rw [hgd'] at hs h10
        rw [← hs, h10] at hc
        exact hc
      · have hm' : multiB groups g = false := by simpa using hm
        have hlen : groups[g].length = 1 := by
          by_contra hne; exact hm (multiB_iff.2 ⟨_, hgg, hne⟩)
        have hs := hseg g hg
        simp only [segM, hm', Bool.false_eq_true, if_false, hgd] at hs
        have hc := cM_single (a := a) hok hgg hlen sb
        match hgx : groups[g], hlen with
        | [ax'], _ =>
          rw [hgx] at hs hc
          simp only [List.map_cons, List.map_nil, List.cons.injEq, and_true, List.headD_cons] at hs hc
          show cM (a := a) (groups := groups) sb g = _
          rw [hc, ← hs]
    · have h1 : (planM a groups sb).newSector.getD ((giM a groups).position + groups.length + j) (0, 0)
          = sb.1.getD ((giM a groups).axesAfter.getD j 0) (0, 0) :=
        planOf_newSector_after _ _ _ _ _ _ (hokD hok) hj
      rw [h1]; exact range_map_inj e3 j hj
  by_cases hstored : ∃ sb ∈ a.blocks, sb.1 = s
  · obtain ⟨sb, hsb, rfl⟩ := hstored
    rw [alookup_of_mem_nodup hv.nodup hsb]
    simp only
    suffices hmain : B.get i = sb.2.get offs
        ∧ inBox (permuted sb.2.shape (giM a groups).perm) (permuted offs (giM a groups).perm) = true by
      exact ⟨hmain.1, fun b hb => by simp only [Option.some.injEq] at hb; subst hb; exact hmain.2⟩
    obtain ⟨hnsb, hseg⟩ := hkey sb hsb hK
    have hshape := blockShape?_length (hv.blk sb hsb).2.1
    have hshl : sb.2.shape.length = a.ndim := by rw [hshape.2]; exact (hv.blk sb hsb).1
    -- `i` lies in the box of the fused block of `sb` as well
    have hBsb : BshM a groups sb = BshM a groups sb0 := by
      have e1 := shape_storedM hv hok hsb
      rw [hnsb, shape_storedM hv hok hsb0] at e1
      simpa using e1.symm
    have hib' : inBox (BshM a groups sb) i = true := by rw [hBsb]; exact hi
    -- start and size of `sb` on every multi-axis group axis
    have hst : ∀ g, g < groups.length → multiB groups g = true →
        ∃ r, i.getD ((giM a groups).position + g) 0 = stM a groups sb g + r
          ∧ r < dM (a := a) (groups := groups) sb g
          ∧ (segM a groups (planM a groups sb0).newSector i g).2
              = unravel ((groups.getD g []).map (fun ax => sb.2.shape.getD ax 0)) r := by
      intro g hg hm
      obtain ⟨gaxes, hgg, hlen⟩ := multiB_iff.1 hm
      have hgd : groups.getD g [] = gaxes := by simp [List.getD_eq_getElem?_getD, hgg]
      obtain ⟨e, ss, r, st, d, shpM, h1, _, h3, _, h5, h6, h7, h8, h9, _, _⟩ := hsplit g hg hm
      obtain ⟨e', D', t1, t2, _, _, _⟩ := stored_tableM hv hok hgg hlen hsb
      have hcc : cM (a := a) (groups := groups) sb g = cM (a := a) (groups := groups) sb0 g := by
        simp only [cM, hnsb]
      rw [hcc, h1] at t1
      simp only [Option.some.injEq] at t1; subst t1
      have hs := hseg g hg
      rw [h3, hgd] at hs
      simp only at hs
      rw [ssM_eq hgg, ← hs, h5] at t2
      simp only [Option.some.injEq, Prod.mk.injEq] at t2
      have hM : shpM = gaxes.map (fun ax => sb.2.shape.getD ax 0) := by
        have := blockShape?_map (hv.blk sb hsb).2.1 gaxes (groupM_lt hok hgg)
        rw [← hs] at this
        rw [hgd, this] at h8
        simpa using h8.symm
      refine ⟨r, by rw [← t2.1]; exact h7, by rw [← t2.2]; exact h6, ?_⟩
      rw [h3, hgd, hM]
    have hreg := (regionM hok sb hib').2 (fun g hg hm => by
      obtain ⟨r, h1, h2, _⟩ := hst g hg hm
      omega)
    have hShape0 : shapeOfM a groups (planM a groups sb0).newSector = BshM a groups sb0 := by
      simp [shapeOfM, shape_storedM hv hok hsb0]
    have hget := hinv.hit _ B (by show alookup _ (planM a groups sb).newSector = _; rw [hnsb]; exact hB) (toItemM a groups sb) (List.mem_map.2 ⟨sb, hsb, rfl⟩) rfl
      i (by show inBox (shapeOfM a groups (planM a groups sb).newSector) i = true; rw [hnsb, hShape0]; exact hi) hreg
    rw [hget]
    -- relative offsets per group
    let r : Nat → Nat := fun g => i.getD ((giM a groups).position + g) 0 - stM a groups sb g
    let ms : Nat → List Nat := fun g => (groups.getD g []).map (fun ax => sb.2.shape.getD ax 0)
    have hrlt : ∀ g, g < groups.length → r g < prod (ms g) := by
      intro g hg
      have hgg : groups[g]? = some groups[g] := List.getElem?_eq_getElem hg
      have hgd : groups.getD g [] = groups[g] := by simp [List.getD_eq_getElem?_getD, hgg]
      have hd := dM_eq (a := a) hok hgg sb
      simp only [r, ms, hgd]
      rw [← hd]
      by_cases hm : multiB groups g = true
      · obtain ⟨r', h1, h2, _⟩ := hst g hg hm
        omega
      · have hm' : multiB groups g = false := by simpa using hm
        have := hig g hg
        simp only [hm', Bool.false_eq_true, if_false] at this
        have hdd : dM (a := a) (groups := groups) sb g = dM (a := a) (groups := groups) sb0 g := by
          have hax : (giM a groups).position + g < ndimM a groups := by simp only [ndimM]; omega
          have e1 := BshM_getD (a := a) (groups := groups) sb hax
          have e2 := BshM_getD (a := a) (groups := groups) sb0 hax
          rw [axMulti_mid hg, hm'] at e1 e2
          simp only [Bool.false_eq_true, if_false] at e1 e2
          rw [hBsb, e2] at e1
          exact e1.symm
        rw [hdd]; omega
    have hsegJ : ∀ g, g < groups.length →
        (segM a groups (planM a groups sb0).newSector i g).2 = unravel (ms g) (r g) := by
      intro g hg
      by_cases hm : multiB groups g = true
      · obtain ⟨r', h1, h2, h3⟩ := hst g hg hm
        rw [h3]
        simp only [r, ms]
        congr 1; omega
      · have hm' : multiB groups g = false := by simpa using hm
        have hgg : groups[g]? = some groups[g] := List.getElem?_eq_getElem hg
        have hlen : groups[g].length = 1 := by
          by_contra hne; exact hm (multiB_iff.2 ⟨_, hgg, hne⟩)
        have hgd : groups.getD g [] = groups[g] := by simp [List.getD_eq_getElem?_getD, hgg]
        have hs0 : stM a groups sb g = 0 := by
          simp only [stM, startM, axMulti_mid hg, hm', Bool.false_eq_true, if_false]
        simp only [segM, hm', Bool.false_eq_true, if_false, r, ms, hs0, Nat.sub_zero, hgd]
        match hgx : groups[g], hlen with
        | [ax'], _ => simp [unravel_single]
    -- the source block read at the relative offsets
    have hj : List.zipWith (· - ·) i (toItemM a groups sb).2.1
        = (List.range (giM a groups).position).map (fun x => i.getD x 0)
          ++ (List.range groups.length).map (fun g => ravel (ms g) (unravel (ms g) (r g)))
          ++ (List.range (giM a groups).axesAfter.length).map
              (fun j => i.getD ((giM a groups).position + groups.length + j) 0) := by
      have hsl : (startsM a groups sb).length = ndimM a groups := by simp [startsM]
      have hzl : (List.zipWith (· - ·) i (startsM a groups sb)).length = ndimM a groups := by
        simp [hil, hsl]
      show List.zipWith (· - ·) i (startsM a groups sb) = _
      rw [three_parts (List.zipWith (· - ·) i (startsM a groups sb)) 0 _ _ _ hzl]
      congr 1
      · congr 1
        · apply List.map_congr_left
          intro x hx
          simp only [List.mem_range] at hx
          rw [getD_zipWith_sub (by rw [hil, hsl]), startsM_getD sb (by simp only [ndimM]; omega)]
          simp [startM, axMulti_before hx]
        · apply List.map_congr_left
          intro g hg
          simp only [List.mem_range] at hg
          rw [getD_zipWith_sub (by rw [hil, hsl]), startsM_getD sb (by simp only [ndimM]; omega),
            ravel_unravel (hrlt g hg)]
          rfl
      · apply List.map_congr_left
        intro j hj
        simp only [List.mem_range] at hj
        rw [getD_zipWith_sub (by rw [hil, hsl]), startsM_getD sb (by simp only [ndimM]; omega)]
        simp [startM, axMulti_after]
    rw [hj]
    have hJ' : permuted offs (giM a groups).perm
        = (List.range (giM a groups).position).map (fun x => i.getD x 0)
          ++ ((List.range groups.length).map (fun g => unravel (ms g) (r g))).flatten
          ++ (List.range (giM a groups).axesAfter.length).map
              (fun j => i.getD ((giM a groups).position + groups.length + j) 0) := by
      rw [hJ, expandJ_parts _ i hil]
      congr 2
      congr 1
      apply List.map_congr_left
      intro g hg
      exact hsegJ g (List.mem_range.1 hg)
    have hTshape : permuted sb.2.shape (giM a groups).perm
        = (List.range (giM a groups).position).map (fun x => sb.2.shape.getD x 0)
          ++ ((List.range groups.length).map ms).flatten
          ++ (List.range (giM a groups).axesAfter.length).map
              (fun j => sb.2.shape.getD ((giM a groups).axesAfter.getD j 0) 0) :=
      permutedM_eq hok sb.2.shape 0 hshl
    have hsrc : (toItemM a groups sb).2.2.get
          ((List.range (giM a groups).position).map (fun x => i.getD x 0)
          ++ (List.range groups.length).map (fun g => ravel (ms g) (unravel (ms g) (r g)))
          ++ (List.range (giM a groups).axesAfter.length).map
              (fun j => i.getD ((giM a groups).position + groups.length + j) 0))
        = (sb.2.transposeK (giM a groups).perm).get (permuted offs (giM a groups).perm) := by
      rw [hJ']
      simp only [toItemM, Blk.reshapeK, Blk.get]
      have hT : (sb.2.transposeK (giM a groups).perm).shape = permuted sb.2.shape (giM a groups).perm := rfl
      rw [hT, hTshape, nshM_parts hok sb]
      congr 1
      exact ravel_three (List.range groups.length) ms (fun g => unravel (ms g) (r g)) _ _ _ _ (by simp)
        (fun g _ => unravel_length _ _)
    rw [hsrc]
    have hbox : inBox (permuted sb.2.shape (giM a groups).perm) (permuted offs (giM a groups).perm) = true := by
      rw [hJ', hTshape, inBox_append (by simp [flatten_map_length_eq (List.range groups.length)
          (fun g => unravel (ms g) (r g)) ms (fun g _ => unravel_length _ _)]),
        inBox_append (by simp)]
      have h1 : inBox ((List.range (giM a groups).position).map (fun x => sb.2.shape.getD x 0))
          ((List.range (giM a groups).position).map (fun x => i.getD x 0)) = true := by
        apply inBox_range_map
        intro x hx
        have hax : x < ndimM a groups := by simp only [ndimM]; omega
        have := (inBox_iff.1 hib').2 x (by rw [BshM_length]; exact hax)
        rw [BshM_getD sb hax, axMulti_before hx] at this
        simp only [Bool.false_eq_true, if_false, planM] at this
        rw [planOf_newShape_before _ _ _ _ (hokD hok) hx] at this
        exact this
      have h2 : inBox ((List.range groups.length).map ms).flatten
          ((List.range groups.length).map (fun g => unravel (ms g) (r g))).flatten = true :=
        inBox_flatten_map _ _ _ (fun g hg => unravel_inBox (hrlt g (List.mem_range.1 hg)))
      have h3 : inBox ((List.range (giM a groups).axesAfter.length).map
            (fun j => sb.2.shape.getD ((giM a groups).axesAfter.getD j 0) 0))
          ((List.range (giM a groups).axesAfter.length).map
            (fun j => i.getD ((giM a groups).position + groups.length + j) 0)) = true := by
        apply inBox_range_map
        intro j hj
        have hax : (giM a groups).position + groups.length + j < ndimM a groups := by simp only [ndimM]; omega
        have := (inBox_iff.1 hib').2 _ (by rw [BshM_length]; exact hax)
        rw [BshM_getD sb hax, axMulti_after] at this
        simp only [Bool.false_eq_true, if_false, planM] at this
        rw [planOf_newShape_after _ _ _ _ (hokD hok) hj] at this
        exact this
      rw [h1, h2, h3]; rfl
    refine ⟨transposeK_get_permuted sb.2 hshl hol ?_ ?_ hbox, hbox⟩
    · intro ax hax; rw [mem_perm (hokD hok), duals_length]; exact hax
    · intro p hp; rw [← duals_length]; exact (mem_perm (hokD hok)).1 hp
  · -- the sector is not stored: the fused entry was never written
    have hnone : alookup a.blocks s = none := by
      rw [alookup_eq_none_iff]
      intro hm
      obtain ⟨sb, hsb, rfl⟩ := List.mem_map.1 hm
      exact hstored ⟨sb, hsb, rfl⟩
    rw [hnone]
    simp only
    refine ⟨?_, fun b hb => by cases hb⟩
    have hbox0 : inBox (shapeOfM a groups (planM a groups sb0).newSector) i = true := by
      have : shapeOfM a groups (planM a groups sb0).newSector = BshM a groups sb0 := by
        simp [shapeOfM, shape_storedM hv hok hsb0]
      rw [this]; exact hi
    apply hinv.miss _ B hB i hbox0
    intro it hit hkey'
    obtain ⟨sb, hsb, rfl⟩ := List.mem_map.1 hit
    have hnsb : (planM a groups sb).newSector = (planM a groups sb0).newSector := hkey'
    cases hreg : inRegion (toItemM a groups sb).2.1 (toItemM a groups sb).2.2.shape i with
    | false => rfl
    | true =>
      exfalso
      have hBsb : BshM a groups sb = BshM a groups sb0 := by
        have e1 := shape_storedM hv hok hsb
        rw [hnsb, shape_storedM hv hok hsb0] at e1
        simpa using e1.symm
      have hib' : inBox (BshM a groups sb) i = true := by rw [hBsb]; exact hi
      have hrg := (regionM hok sb hib').1 hreg
      apply hstored
      refine ⟨sb, hsb, ?_⟩
      have hperm : permuted sb.1 (giM a groups).perm = permuted s (giM a groups).perm := by
        rw [hK]
        apply expandK_of_stored hok (hv.blk sb hsb).1 hnsb
        intro g hg
        have hgg : groups[g]? = some groups[g] := List.getElem?_eq_getElem hg
        have hgd : groups.getD g [] = groups[g] := by simp [List.getD_eq_getElem?_getD, hgg]
        by_cases hm : multiB groups g = true
        · obtain ⟨gaxes, hgg', hlen⟩ := multiB_iff.1 hm
          obtain ⟨e, ss, r, st, d, shpM, h1, _, h3, _, h5, h6, h7, _⟩ := hsplit g hg hm
          obtain ⟨e', D', t1, t2, _, _, _⟩ := stored_tableM hv hok hgg' hlen hsb
          have hcc : cM (a := a) (groups := groups) sb g = cM (a := a) (groups := groups) sb0 g := by
            simp only [cM, hnsb]
          rw [hcc, h1] at t1
          simp only [Option.some.injEq] at t1; subst t1
          have hr := hrg g hg hm
          have hsseq : ssM (a := a) (groups := groups) sb g = ss := by
            by_cases hq : ssM (a := a) (groups := groups) sb g = ss
            · exact hq
            · have := startOf_disjoint t2 h5 hq; omega
          rw [h3]
          simp only
          rw [← hsseq, ssM_eq hgg']
          simp [List.getD_eq_getElem?_getD, hgg']
        · have hm' : multiB groups g = false := by simpa using hm
          have hlen : groups[g].length = 1 := by
            by_contra hne; exact hm (multiB_iff.2 ⟨_, hgg, hne⟩)
          have hc := cM_single (a := a) hok hgg hlen sb
          simp only [segM, hm', Bool.false_eq_true, if_false, hgd]
          have : (planM a groups sb0).newSector.getD ((giM a groups).position + g) (0, 0)
              = cM (a := a) (groups := groups) sb g := by simp only [cM, hnsb]
          rw [this, hc]
          match hgx : groups[g], hlen with
          | [ax'], _ => simp
      apply sector_ext (hv.blk sb hsb).1 hsl (perm := (giM a groups).perm)
      · intro ax hax; rw [mem_perm (hokD hok), duals_length]; exact hax
      · have hlt1 : ∀ p ∈ (giM a groups).perm, p < sb.1.length := by
          intro p hp; rw [(hv.blk sb hsb).1, ← duals_length]; exact (mem_perm (hokD hok)).1 hp
        have hlt2 : ∀ p ∈ (giM a groups).perm, p < s.length := by
          intro p hp; rw [hsl, ← duals_length]; exact (mem_perm (hokD hok)).1 hp
        rw [permuted_eq_map _ (0, 0) _ hlt1, permuted_eq_map _ (0, 0) _ hlt2] at hperm
        exact fun ax hax => List.map_inj_left.1 hperm ax hax

end Multi

end FuseP
end SymmModel
