/-
  SymmModel.Proofs.TdotFusedS3 — towards S7 for fused / auto mode: a second-level call of a chain
  in fused / auto mode on the fused / auto intermediate result, compared with the blockwise call on
  the blockwise intermediate result.  Namespace `SymmModel.TdotP`.
-/
import SymmModel.Proofs.TdotFusedS2

namespace SymmModel
namespace TdotP
open GradedP RoutesP AssocP
open Lazy (sgnI)
variable {R : Type}

/-- on a sector the blockwise result stores, the table boxes of `(P, C)` and `(Q, C)` coincide -/
theorem stored_boxes_left [Zero R] [Neg R] {P Q C : Arr R} (hp : Pad P Q) (hsc : C.shapesOk) (x y : List Nat)
    {s : Sector}
    (hs : s ∈ tdKeys Q.sectors C.sectors (freeAxes Q.ndim x) x y (freeAxes C.ndim y)) :
    Arr.blockShapeD (without P.indices x ++ without C.indices y) s
        = Arr.blockShapeD (without Q.indices x ++ without C.indices y) s
    ∧ (freeAxes P.ndim x).length
        ≤ (Arr.blockShapeD (without Q.indices x ++ without C.indices y) s).length := by
  obtain ⟨sa, hsa, sc, hsc', _, rfl⟩ := mem_tdKeys.mp hs
  obtain ⟨shpP, hP1, hP2, hP3, _⟩ := shape_of_mem hp.shapeP (hp.sub sa hsa)
  obtain ⟨shpQ, hQ1, hQ2, hQ3, _⟩ := shape_of_mem hp.shapeQ hsa
  obtain ⟨shpC, hC1, _, hC3, _⟩ := shape_of_mem hsc hsc'
  have hPQ : shpP = shpQ := by rw [← hP2, ← hQ2]; exact hp.shape sa hsa
  have eP : P.indices.length = P.ndim := rfl
  have eQ : Q.indices.length = Q.ndim := rfl
  have eC : C.indices.length = C.ndim := rfl
  have hlP : ∀ z ∈ freeAxes P.ndim x, z < P.ndim := fun z hz => (mem_freeAxes.mp hz).1
  have hlQ : ∀ z ∈ freeAxes Q.ndim x, z < Q.ndim := fun z hz => (mem_freeAxes.mp hz).1
  have hlC : ∀ z ∈ freeAxes C.ndim y, z < C.ndim := fun z hz => (mem_freeAxes.mp hz).1
  have e1 : Arr.blockShapeD (without P.indices x ++ without C.indices y)
      (permuted sa (freeAxes Q.ndim x) ++ permuted sc (freeAxes C.ndim y))
      = permuted shpP (freeAxes P.ndim x) ++ permuted shpC (freeAxes C.ndim y) := by
    rw [without_eq_permuted_freeAxes, without_eq_permuted_freeAxes, eP, eC, Arr.blockShapeD, ← hp.ndim,
      blockShape?_append (blockShape?_permuted hP1 _ hlP) (blockShape?_permuted hC1 _ hlC)]
    rfl
  have e2 : Arr.blockShapeD (without Q.indices x ++ without C.indices y)
      (permuted sa (freeAxes Q.ndim x) ++ permuted sc (freeAxes C.ndim y))
      = permuted shpQ (freeAxes Q.ndim x) ++ permuted shpC (freeAxes C.ndim y) := by
    rw [without_eq_permuted_freeAxes, without_eq_permuted_freeAxes, eQ, eC, Arr.blockShapeD,
      blockShape?_append (blockShape?_permuted hQ1 _ hlQ) (blockShape?_permuted hC1 _ hlC)]
    rfl
  refine ⟨by rw [e1, e2, hPQ, hp.ndim], ?_⟩
  rw [e2, List.length_append, permuted_length _ _ (by intro z hz; rw [hQ3]; exact hlQ z hz), hp.ndim]
  omega

/-- the same for the right operand -/
theorem stored_boxes_right [Zero R] [Neg R] {A P Q : Arr R} (hp : Pad P Q) (hsa : A.shapesOk) (x y : List Nat)
    {s : Sector}
    (hs : s ∈ tdKeys A.sectors Q.sectors (freeAxes A.ndim x) x y (freeAxes Q.ndim y)) :
    Arr.blockShapeD (without A.indices x ++ without P.indices y) s
        = Arr.blockShapeD (without A.indices x ++ without Q.indices y) s
    ∧ (freeAxes A.ndim x).length
        ≤ (Arr.blockShapeD (without A.indices x ++ without Q.indices y) s).length := by
  obtain ⟨sa, hsa', sc, hsc', _, rfl⟩ := mem_tdKeys.mp hs
  obtain ⟨shpP, hP1, hP2, hP3, _⟩ := shape_of_mem hp.shapeP (hp.sub sc hsc')
  obtain ⟨shpQ, hQ1, hQ2, hQ3, _⟩ := shape_of_mem hp.shapeQ hsc'
  obtain ⟨shpA, hA1, _, hA3, _⟩ := shape_of_mem hsa hsa'
  have hPQ : shpP = shpQ := by rw [← hP2, ← hQ2]; exact hp.shape sc hsc'
  have eP : P.indices.length = P.ndim := rfl
  have eQ : Q.indices.length = Q.ndim := rfl
  have eA : A.indices.length = A.ndim := rfl
  have hlP : ∀ z ∈ freeAxes P.ndim y, z < P.ndim := fun z hz => (mem_freeAxes.mp hz).1
  have hlQ : ∀ z ∈ freeAxes Q.ndim y, z < Q.ndim := fun z hz => (mem_freeAxes.mp hz).1
  have hlA : ∀ z ∈ freeAxes A.ndim x, z < A.ndim := fun z hz => (mem_freeAxes.mp hz).1
  have e1 : Arr.blockShapeD (without A.indices x ++ without P.indices y)
      (permuted sa (freeAxes A.ndim x) ++ permuted sc (freeAxes Q.ndim y))
      = permuted shpA (freeAxes A.ndim x) ++ permuted shpP (freeAxes P.ndim y) := by
    rw [without_eq_permuted_freeAxes, without_eq_permuted_freeAxes, eP, eA, Arr.blockShapeD, ← hp.ndim,
      blockShape?_append (blockShape?_permuted hA1 _ hlA) (blockShape?_permuted hP1 _ hlP)]
    rfl
  have e2 : Arr.blockShapeD (without A.indices x ++ without Q.indices y)
      (permuted sa (freeAxes A.ndim x) ++ permuted sc (freeAxes Q.ndim y))
      = permuted shpA (freeAxes A.ndim x) ++ permuted shpQ (freeAxes Q.ndim y) := by
    rw [without_eq_permuted_freeAxes, without_eq_permuted_freeAxes, eQ, eA, Arr.blockShapeD,
      blockShape?_append (blockShape?_permuted hA1 _ hlA) (blockShape?_permuted hQ1 _ hlQ)]
    rfl
  refine ⟨by rw [e1, e2, hPQ, hp.ndim], ?_⟩
  rw [e2, List.length_append, permuted_length _ _ (by intro z hz; rw [hA3]; exact hlA z hz)]
  omega

/-- **second-level call, left route** `(A·B)·C`: `P` = the intermediate of any mode, `Q` = the
    blockwise intermediate (`Pad P Q`).  If the blockwise call `Q·C` succeeds then so does `P·C` in
    fused / auto mode, with the same labels and charge and the same element at every address that
    lies in the table boxes of both calls. -/
theorem second_left [AddCommMonoid R] [Mul R] [Neg R] [SignRing R]
    (hz1 : ∀ x : R, 0 * x = 0) (hz2 : ∀ x : R, x * 0 = 0) {P Q C : Arr R} {x y : List Nat}
    (hp : Pad P Q) (Wm : AdmW P C x y) (Wb : AdmW Q C x y)
    (hodd : P.oddpos = Q.oddpos) (hch : P.charge = Q.charge)
    (mode : TdotMode) (hmode : mode = .fused ∨ mode = .auto) (cb : Arr R)
    (hb : Q.tensordotF C (.pair (x.map Int.ofNat) (y.map Int.ofNat)) .blockwise = .ok cb) :
    ∃ cm, P.tensordotF C (.pair (x.map Int.ofNat) (y.map Int.ofNat)) mode = .ok cm
      ∧ cm.oddpos = cb.oddpos ∧ cm.charge = cb.charge ∧ cm.sym = cb.sym ∧ cm.fermi = cb.fermi
      ∧ (∀ s o, (freeAxes P.ndim x).length ≤ o.length →
          inBox (Arr.blockShapeD (without P.indices x ++ without C.indices y) s) o = true →
          inBox (Arr.blockShapeD (without Q.indices x ++ without C.indices y) s) o = true →
          cm.elem s o = cb.elem s o)
      ∧ (∀ s ∈ cb.sectors, s ∈ cm.sectors)
      ∧ (∀ s ∈ cb.sectors, ∀ o, inBox (Arr.blockShapeD cb.indices s) o = true →
          cm.elem s o = cb.elem s o)
      ∧ (∀ s, s ∉ cb.sectors → ∀ o, (∀ V, alookup cm.blocks s = some V → inBox V.shape o = true) →
          cm.elem s o = 0)
      ∧ (∀ K V, alookup cm.blocks K = some V →
          Arr.blockShape? (without P.indices x ++ without C.indices y) K = some V.shape) := by
  have hpar : P.parity = Q.parity := by
    show Sym.parity P.sym P.charge = Sym.parity Q.sym Q.charge
    rw [hp.sym, hch]
  obtain ⟨he, hk⟩ := tensordotF_modes_all_w hz1 hz2 P C x y Wm mode hmode
  have hbq := tensordotF_eq_core_w Q C x y Wb
  have hbp := tensordotF_eq_core_w P C x y Wm
  have Fq := coreT_frame_w Q C x y Wb
  have Fp := coreT_frame_w P C x y Wm
  rw [hbq, ← hpar, ← hodd] at hb
  cases hmo : OddposP.mergeOddpos P.parity P.oddpos C.oddpos with
  | error e => rw [hmo] at hb; cases hb
  | ok r =>
    rw [hmo] at hb
    simp only [Except.map, Except.ok.injEq] at hb
    subst hb
    obtain ⟨cm, c', h1, h2, f1, f2, f3, f4, _, hsec, _, _, hshape, hel⟩ := hk r hmo
    have hc' : c' = finish (coreT P C x y) r := by
      have := h2
      rw [hbp, hmo] at this
      simp only [Except.map, Except.ok.injEq] at this
      exact this.symm
    obtain ⟨k1, k2, k3, k4, k5, k6⟩ := AssocP.finish_fields (coreT P C x y) r
    obtain ⟨q1, q2, q3, q4, q5, q6⟩ := AssocP.finish_fields (coreT Q C x y) r
    have hsC := Arr.shapesOk_of_validB Wm.vb
    -- graded form of the fused / auto result
    have hgr : ∀ s o, (freeAxes P.ndim x).length ≤ o.length →
        inBox (Arr.blockShapeD (without P.indices x ++ without C.indices y) s) o = true →
        cm.elem s o = sgnI r.2 (gradedContract Q C x y s (o.take (freeAxes P.ndim x).length)
          (o.drop (freeAxes P.ndim x).length)) := by
      intro s o hlen hbm
      have hsplit : o.take (freeAxes P.ndim x).length ++ o.drop (freeAxes P.ndim x).length = o :=
        List.take_append_drop _ _
      have hoL : (o.take (freeAxes P.ndim x).length).length = (freeAxes P.ndim x).length := by
        rw [List.length_take]; omega
      rw [elem_everywhere hsec hel s o (ownBox_of_table hshape s o hbm), hc']
      rw [AssocP.finish_elem _ _ (AssocP.coreFrame_signOk Fp)]
      have hbm' := hbm
      rw [← hsplit] at hbm'
      conv_lhs => rw [← hsplit]
      rw [Fp.elem s _ _ hoL hbm']
      rw [gradedContract_congr_left hz1 hp hsC
        (allDistinct_iff_nodup.mp (Arr.allDistinct_of_validB Wm.vb)) x y Wm.ltA s _ _ hoL hbm']
    have hAcl : ∀ s o, (freeAxes P.ndim x).length ≤ o.length →
        inBox (Arr.blockShapeD (without P.indices x ++ without C.indices y) s) o = true →
        inBox (Arr.blockShapeD (without Q.indices x ++ without C.indices y) s) o = true →
        cm.elem s o = (finish (coreT Q C x y) r).elem s o := by
      intro s o hlen hbm hbb
      have hsplit : o.take (freeAxes P.ndim x).length ++ o.drop (freeAxes P.ndim x).length = o :=
        List.take_append_drop _ _
      have hoL : (o.take (freeAxes P.ndim x).length).length = (freeAxes P.ndim x).length := by
        rw [List.length_take]; omega
      rw [hgr s o hlen hbm, AssocP.finish_elem _ _ (AssocP.coreFrame_signOk Fq)]
      rw [← hsplit] at hbb
      conv_rhs => rw [← hsplit]
      rw [Fq.elem s _ _ (by rw [← hp.ndim]; exact hoL) hbb]
    refine ⟨cm, h1, by rw [f1, hc', k6, q6], ?_, ?_, ?_, hAcl, ?_, ?_, ?_, hshape⟩
    · rw [f2, hc', k1, q1, Fp.charge, Fq.charge, hp.sym, hch]
    · rw [f3, hc', k2, q2, Fp.sym, Fq.sym, hp.sym]
    · rw [f4, hc', k3, q3, Fp.fermi, Fq.fermi, Wm.fa, Wb.fa]
    · intro s hs
      rw [q5, Fq.sectors, List.mem_eraseDups] at hs
      obtain ⟨sa, hsa, sc, hsc, hal, rfl⟩ := mem_tdKeys.mp hs
      apply hsec
      rw [hc', k5, Fp.sectors, List.mem_eraseDups, mem_tdKeys]
      exact ⟨sa, hp.sub sa hsa, sc, hsc, hal, by rw [hp.ndim]⟩
    · intro s hs o ho
      have hs' := hs
      rw [q5, Fq.sectors, List.mem_eraseDups] at hs'
      obtain ⟨eb, hn⟩ := stored_boxes_left hp hsC x y hs'
      have hbs : Arr.blockShapeD (finish (coreT Q C x y) r).indices s
          = Arr.blockShapeD (without Q.indices x ++ without C.indices y) s := by
        rw [q4, Fq.indices, Arr.blockShapeD, ValidP.dropUnused_blockShape _ _ _ (by rw [← q5]; exact hs)]
        rfl
      rw [hbs] at ho
      exact hAcl s o (by rw [inBox_length ho]; exact hn) (by rw [eb]; exact ho) ho
    · intro s hs o hown
      cases hl : alookup cm.blocks s with
      | none => exact Arr.elem_of_not_mem (alookup_eq_none_iff.mp hl) o
      | some V =>
        have hsh := hshape s V hl
        have hbm : inBox (Arr.blockShapeD (without P.indices x ++ without C.indices y) s) o = true := by
          rw [Arr.blockShapeD, hsh]; exact hown V hl
        have hlen : (freeAxes P.ndim x).length ≤ o.length := by
          rw [inBox_length (hown V hl), (blockShape?_length hsh).2, List.length_append, without_length]
          have : (freeAxes P.indices.length x).length = (freeAxes P.ndim x).length := rfl
          omega
        rw [hgr s o hlen hbm]
        have hnil : storedPairs Q C (freeAxes Q.ndim x) x y (freeAxes C.ndim y) s = [] := by
          apply List.eq_nil_iff_forall_not_mem.mpr
          intro p hp'
          apply hs
          rw [q5, Fq.sectors]
          exact (AssocP.mem_keys_iff _ _ _ _ _ _ _).mpr ⟨p, hp'⟩
        unfold gradedContract
        rw [hnil]
        exact Lazy.sgnI_zero _

/-- **second-level call, right route** `A·(B·C)`: `P` = the intermediate of any mode, `Q` = the
    blockwise intermediate (`Pad P Q`). -/
theorem second_right [AddCommMonoid R] [Mul R] [Neg R] [SignRing R]
    (hz1 : ∀ x : R, 0 * x = 0) (hz2 : ∀ x : R, x * 0 = 0) {A P Q : Arr R} {x y : List Nat}
    (hp : Pad P Q) (Wm : AdmW A P x y) (Wb : AdmW A Q x y)
    (hodd : P.oddpos = Q.oddpos) (hch : P.charge = Q.charge)
    (mode : TdotMode) (hmode : mode = .fused ∨ mode = .auto) (cb : Arr R)
    (hb : A.tensordotF Q (.pair (x.map Int.ofNat) (y.map Int.ofNat)) .blockwise = .ok cb) :
    ∃ cm, A.tensordotF P (.pair (x.map Int.ofNat) (y.map Int.ofNat)) mode = .ok cm
      ∧ cm.oddpos = cb.oddpos ∧ cm.charge = cb.charge ∧ cm.sym = cb.sym ∧ cm.fermi = cb.fermi
      ∧ (∀ s o, (freeAxes A.ndim x).length ≤ o.length →
          inBox (Arr.blockShapeD (without A.indices x ++ without P.indices y) s) o = true →
          inBox (Arr.blockShapeD (without A.indices x ++ without Q.indices y) s) o = true →
          cm.elem s o = cb.elem s o)
      ∧ (∀ s ∈ cb.sectors, s ∈ cm.sectors)
      ∧ (∀ s ∈ cb.sectors, ∀ o, inBox (Arr.blockShapeD cb.indices s) o = true →
          cm.elem s o = cb.elem s o)
      ∧ (∀ s, s ∉ cb.sectors → ∀ o, (∀ V, alookup cm.blocks s = some V → inBox V.shape o = true) →
          cm.elem s o = 0)
      ∧ (∀ K V, alookup cm.blocks K = some V →
          Arr.blockShape? (without A.indices x ++ without P.indices y) K = some V.shape) := by
  obtain ⟨he, hk⟩ := tensordotF_modes_all_w hz1 hz2 A P x y Wm mode hmode
  have hbq := tensordotF_eq_core_w A Q x y Wb
  have hbp := tensordotF_eq_core_w A P x y Wm
  have Fq := coreT_frame_w A Q x y Wb
  have Fp := coreT_frame_w A P x y Wm
  rw [hbq, ← hodd] at hb
  cases hmo : OddposP.mergeOddpos A.parity A.oddpos P.oddpos with
  | error e => rw [hmo] at hb; cases hb
  | ok r =>
    rw [hmo] at hb
    simp only [Except.map, Except.ok.injEq] at hb
    subst hb
    obtain ⟨cm, c', h1, h2, f1, f2, f3, f4, _, hsec, _, _, hshape, hel⟩ := hk r hmo
    have hc' : c' = finish (coreT A P x y) r := by
      have := h2
      rw [hbp, hmo] at this
      simp only [Except.map, Except.ok.injEq] at this
      exact this.symm
    obtain ⟨k1, k2, k3, k4, k5, k6⟩ := AssocP.finish_fields (coreT A P x y) r
    obtain ⟨q1, q2, q3, q4, q5, q6⟩ := AssocP.finish_fields (coreT A Q x y) r
    have hsA := Arr.shapesOk_of_validB Wm.va
    have hgr : ∀ s o, (freeAxes A.ndim x).length ≤ o.length →
        inBox (Arr.blockShapeD (without A.indices x ++ without P.indices y) s) o = true →
        cm.elem s o = sgnI r.2 (gradedContract A Q x y s (o.take (freeAxes A.ndim x).length)
          (o.drop (freeAxes A.ndim x).length)) := by
      intro s o hlen hbm
      have hsplit : o.take (freeAxes A.ndim x).length ++ o.drop (freeAxes A.ndim x).length = o :=
        List.take_append_drop _ _
      have hoL : (o.take (freeAxes A.ndim x).length).length = (freeAxes A.ndim x).length := by
        rw [List.length_take]; omega
      rw [elem_everywhere hsec hel s o (ownBox_of_table hshape s o hbm), hc']
      rw [AssocP.finish_elem _ _ (AssocP.coreFrame_signOk Fp)]
      have hbm' := hbm
      rw [← hsplit] at hbm'
      conv_lhs => rw [← hsplit]
      rw [Fp.elem s _ _ hoL hbm']
      rw [gradedContract_congr_right hz2 hp hsA
        (allDistinct_iff_nodup.mp (Arr.allDistinct_of_validB Wm.va)) x y Wm.ltB
        (shapes_match_w hsA (Arr.shapesOk_of_validB Wm.vb) Wm.con Wm.ltA Wm.ltB)
        s _ _ hoL hbm']
    have hAcl : ∀ s o, (freeAxes A.ndim x).length ≤ o.length →
        inBox (Arr.blockShapeD (without A.indices x ++ without P.indices y) s) o = true →
        inBox (Arr.blockShapeD (without A.indices x ++ without Q.indices y) s) o = true →
        cm.elem s o = (finish (coreT A Q x y) r).elem s o := by
      intro s o hlen hbm hbb
      have hsplit : o.take (freeAxes A.ndim x).length ++ o.drop (freeAxes A.ndim x).length = o :=
        List.take_append_drop _ _
      have hoL : (o.take (freeAxes A.ndim x).length).length = (freeAxes A.ndim x).length := by
        rw [List.length_take]; omega
      rw [hgr s o hlen hbm, AssocP.finish_elem _ _ (AssocP.coreFrame_signOk Fq)]
      rw [← hsplit] at hbb
      conv_rhs => rw [← hsplit]
      rw [Fq.elem s _ _ hoL hbb]
    refine ⟨cm, h1, by rw [f1, hc', k6, q6], ?_, ?_, ?_, hAcl, ?_, ?_, ?_, hshape⟩
    · rw [f2, hc', k1, q1, Fp.charge, Fq.charge, hch]
    · rw [f3, hc', k2, q2, Fp.sym, Fq.sym]
    · rw [f4, hc', k3, q3, Fp.fermi, Fq.fermi]
    · intro s hs
      rw [q5, Fq.sectors, List.mem_eraseDups] at hs
      obtain ⟨sa, hsa, sc, hsc, hal, rfl⟩ := mem_tdKeys.mp hs
      apply hsec
      rw [hc', k5, Fp.sectors, List.mem_eraseDups, mem_tdKeys]
      exact ⟨sa, hsa, sc, hp.sub sc hsc, hal, by rw [hp.ndim]⟩
    · intro s hs o ho
      have hs' := hs
      rw [q5, Fq.sectors, List.mem_eraseDups] at hs'
      obtain ⟨eb, hn⟩ := stored_boxes_right hp hsA x y hs'
      have hbs : Arr.blockShapeD (finish (coreT A Q x y) r).indices s
          = Arr.blockShapeD (without A.indices x ++ without Q.indices y) s := by
        rw [q4, Fq.indices, Arr.blockShapeD, ValidP.dropUnused_blockShape _ _ _ (by rw [← q5]; exact hs)]
        rfl
      rw [hbs] at ho
      exact hAcl s o (by rw [inBox_length ho]; exact hn) (by rw [eb]; exact ho) ho
    · intro s hs o hown
      cases hl : alookup cm.blocks s with
      | none => exact Arr.elem_of_not_mem (alookup_eq_none_iff.mp hl) o
      | some V =>
        have hsh := hshape s V hl
        have hbm : inBox (Arr.blockShapeD (without A.indices x ++ without P.indices y) s) o = true := by
          rw [Arr.blockShapeD, hsh]; exact hown V hl
        have hlen : (freeAxes A.ndim x).length ≤ o.length := by
          rw [inBox_length (hown V hl), (blockShape?_length hsh).2, List.length_append, without_length]
          have : (freeAxes A.indices.length x).length = (freeAxes A.ndim x).length := rfl
          omega
        rw [hgr s o hlen hbm]
        have hnil : storedPairs A Q (freeAxes A.ndim x) x y (freeAxes Q.ndim y) s = [] := by
          apply List.eq_nil_iff_forall_not_mem.mpr
          intro p hp'
          apply hs
          rw [q5, Fq.sectors]
          exact (AssocP.mem_keys_iff _ _ _ _ _ _ _).mpr ⟨p, hp'⟩
        unfold gradedContract
        rw [hnil]
        exact Lazy.sgnI_zero _

end TdotP
end SymmModel
