/-
  SymmModel.Proofs.TwoStepN2 — the hypotheses of `TwoStepN1` for the positions `tsPA`, `tsPB` of the remaining
  legs in the intermediate when `ya` is strictly increasing: `tsPA` is strictly increasing, below the
  separator `K = (freeAxes na xa).length`, `tsPB` is at or above it.  Namespace `SymmModel.TwoStepP`.
-/
import SymmModel.Proofs.TwoStepN1
import SymmModel.Proofs.TwoStepGeom

namespace SymmModel
namespace TwoStepP
open TdotP GradedP Lazy

theorem posIn_mono {l : List Nat} (hl : l.Pairwise (· < ·)) {x y : Nat} (hx : x ∈ l) (hy : y ∈ l)
    (h : x < y) : posIn l x < posIn l y := by
  obtain ⟨hx1, hx2⟩ := posIn_lt_get hx
  obtain ⟨hy1, hy2⟩ := posIn_lt_get hy
  obtain ⟨_, ex⟩ := List.getElem?_eq_some_iff.mp hx2
  obtain ⟨_, ey⟩ := List.getElem?_eq_some_iff.mp hy2
  by_contra hn
  rcases Nat.lt_or_eq_of_le (Nat.le_of_not_lt hn) with hlt | heq
  · have := List.pairwise_iff_getElem.mp hl _ _ hy1 hx1 hlt
    omega
  · have : y = x := by rw [← ey, ← ex]; simp only [heq]
    omega

theorem tsPA_pairwise {na : Nat} {xa ya : List Nat} (hn : (xa ++ ya).Nodup) (hlt : ∀ i ∈ xa ++ ya, i < na)
    (hinc : ya.Pairwise (· < ·)) : (tsPA na xa ya).Pairwise (· < ·) := by
  unfold tsPA
  rw [List.pairwise_map]
  exact List.Pairwise.imp_of_mem (fun hx hy h =>
    posIn_mono (show (freeAxes na xa).Pairwise (· < ·) from List.Pairwise.filter _ List.pairwise_lt_range) (mem_free_of hn hlt hx) (mem_free_of hn hlt hy) h) hinc

theorem tsPA_lt {na : Nat} {xa ya : List Nat} (hn : (xa ++ ya).Nodup) (hlt : ∀ i ∈ xa ++ ya, i < na) :
    ∀ p ∈ tsPA na xa ya, p < (freeAxes na xa).length := by
  intro p hp
  obtain ⟨ax, hax, rfl⟩ := List.mem_map.1 hp
  exact (posIn_lt_get (mem_free_of hn hlt hax)).1

theorem tsPB_ge (na nb : Nat) (xa xb yb : List Nat) :
    ∀ q ∈ tsPB na nb xa xb yb, (freeAxes na xa).length ≤ q := by
  intro p hp
  obtain ⟨ax, hax, rfl⟩ := List.mem_map.1 hp
  omega

end TwoStepP
end SymmModel
