/-
  SymmModel.Proofs.TdotFused12 — the core of the fused strategy for ARBITRARY group lists: the
  aligned-operand context without conditions on the free groups (`Ctx0`), the match of the two
  fused bond indices for any positions of the bond groups, and the bond double sum = blockwise
  double sum (`core_generic`).  Namespace `SymmModel.TdotP`.
-/
import SymmModel.Proofs.TdotFused11

namespace SymmModel
namespace TdotP
variable {R : Type}

/-- the situation after `dropMisaligned` (no condition on the free groups, nor on `xa`) -/
structure Ctx0 (A B : Arr R) (xa xb : List Nat) : Prop where
  vA : A.validB = true
  vB : B.validB = true
  fA : A.fermi = false
  fB : B.fermi = false
  sym : A.sym = B.sym
  nA : xa.Nodup
  nB : xb.Nodup
  rA : ∀ x ∈ xa, x < A.ndim
  rB : ∀ x ∈ xb, x < B.ndim
  len : xa.length = xb.length
  cm : (xa.map (fun ax => A.indices.getD ax default)).map Index.cm
      = (xb.map (fun ax => B.indices.getD ax default)).map Index.cm
  dual : (xb.map (fun ax => B.indices.getD ax default)).map Index.dual
      = (xa.map (fun ax => A.indices.getD ax default)).map (fun ix => !ix.dual)
  keys : ∀ K, K ∈ A.blocks.map (fun sb => xa.map (fun ax => sb.1.getD ax (0, 0))) ↔
      K ∈ B.blocks.map (fun sb => xb.map (fun ax => sb.1.getD ax (0, 0)))

/-- the aligned operands of a contractible pair satisfy `Ctx0` -/
theorem ctx0_of_dropMisaligned (a b : Arr R) (xa xb : List Nat)
    (ha : a.validB = true) (hb : b.validB = true) (hfa : a.fermi = false) (hfb : b.fermi = false)
    (hsym : a.sym = b.sym) (hc : ValidP.contractibleB a b xa xb = true)
    (hnA : xa.Nodup) (hnB : xb.Nodup) (hA : ∀ x ∈ xa, x < a.ndim) (hB : ∀ x ∈ xb, x < b.ndim) :
    Ctx0 (dropMisaligned a b xa xb).1 (dropMisaligned a b xa xb).2 xa xb := by
  obtain ⟨n1, n2⟩ := dropMisaligned_ndim a b xa xb
  obtain ⟨v1, v2⟩ := ValidP.dropMisaligned_valid a b xa xb ((ValidP.validB_iff a).mp ha)
    ((ValidP.validB_iff b).mp hb)
  have hla : ∀ s ∈ a.sectors, s.length = a.ndim := fun s hs =>
    Arr.sector_length (Arr.shapesOk_of_validB ha) hs
  have hlb : ∀ s ∈ b.sectors, s.length = b.ndim := fun s hs =>
    Arr.sector_length (Arr.shapesOk_of_validB hb) hs
  obtain ⟨hcm, hdual⟩ := aligned_cm_dual a b xa xb hla hlb hA hB hc
  obtain ⟨hsubA, hsubB⟩ := sectors_dropMisaligned_sub a b xa xb
  have hlen : xa.length = xb.length := by
    unfold ValidP.contractibleB at hc
    simp only [Bool.and_eq_true, beq_iff_eq] at hc
    exact hc.1
  refine ⟨(ValidP.validB_iff _).mpr v1, (ValidP.validB_iff _).mpr v2, hfa, hfb, hsym, hnA, hnB,
    by rw [n1]; exact hA, by rw [n2]; exact hB, hlen, hcm, hdual, ?_⟩
  intro K
  have eA : (dropMisaligned a b xa xb).1.blocks.map (fun sb => xa.map (fun ax => sb.1.getD ax (0, 0)))
      = subKeys (dropMisaligned a b xa xb).1 xa := by
    simp only [subKeys, Arr.sectors, List.map_map]
    apply List.map_congr_left
    intro sb hsb
    have hl : sb.1.length = a.ndim := hla _ (hsubA _ (List.mem_map.mpr ⟨sb, hsb, rfl⟩))
    exact (permuted_eq_map _ _ (by rw [hl]; exact hA) (0, 0)).symm
  have eB : (dropMisaligned a b xa xb).2.blocks.map (fun sb => xb.map (fun ax => sb.1.getD ax (0, 0)))
      = subKeys (dropMisaligned a b xa xb).2 xb := by
    simp only [subKeys, Arr.sectors, List.map_map]
    apply List.map_congr_left
    intro sb hsb
    have hl : sb.1.length = b.ndim := hlb _ (hsubB _ (List.mem_map.mpr ⟨sb, hsb, rfl⟩))
    exact (permuted_eq_map _ _ (by rw [hl]; exact hB) (0, 0)).symm
  rw [eA, eB]
  exact aligned_keys a b xa xb K

/-- the index of a group of an admissible group list is well formed -/
theorem ixM_wfB {A : Arr R} {G : List (List Nat)} (hv : FuseP.ValidArr A)
    (hok : FuseP.GroupsOk G A.ndim) {g : Nat} {gaxes : List Nat} (hg : G[g]? = some gaxes) :
    Index.wfB A.sym (FuseP.ixM A G g) = true := by
  by_cases hlen : gaxes.length = 1
  · rw [FuseP.ixM_single hok hg hlen]
    have hlt : ∀ x ∈ gaxes, x < A.indices.length := FuseP.groupM_lt hok hg
    match gaxes, hlen, hlt with
    | [ax], _, hlt => exact index_getD_wf hv (hlt ax (by simp))
  · exact FuseP.ixM_wf hv hok hg hlen

namespace Ctx0
variable {A B : Arr R} {xa xb : List Nat} (h : Ctx0 A B xa xb)
include h

theorem vaA : FuseP.ValidArr A := FuseP.validArr_of_validB h.vA
theorem vaB : FuseP.ValidArr B := FuseP.validArr_of_validB h.vB
theorem phA : A.phases = [] := phases_nil_of_validB h.vA h.fA
theorem phB : B.phases = [] := phases_nil_of_validB h.vB h.fB

variable {GA GB : List (List Nat)} {pA pB : Nat}

/-- **the two fused bond indices match** (bond groups at arbitrary positions of arbitrary
    admissible group lists) -/
theorem bond_match (hokA : FuseP.GroupsOk GA A.ndim) (hokB : FuseP.GroupsOk GB B.ndim)
    (gA : GA[pA]? = some xa) (gB : GB[pB]? = some xb) :
    (FuseP.ixM A GA pA).cm = (FuseP.ixM B GB pB).cm
    ∧ (xa.length ≠ 1 → FuseP.extsM A GA pA = FuseP.extsM B GB pB)
    ∧ (FuseP.ixM A GA pA).dual = !(FuseP.ixM B GB pB).dual := by
  by_cases hlen : xa.length = 1
  · have hlenB : xb.length = 1 := by rw [← h.len]; exact hlen
    rw [FuseP.ixM_single hokA gA hlen, FuseP.ixM_single hokB gB hlenB]
    have hcm := h.cm
    have hdual := h.dual
    match xa, xb, hlen, hlenB, hcm, hdual with
    | [i], [j], _, _, hcm, hdual =>
      simp only [List.map_cons, List.map_nil, List.cons.injEq, and_true] at hcm hdual
      refine ⟨hcm, fun hne => absurd rfl hne, ?_⟩
      simp only [List.headD_cons]
      rw [hdual]; simp
  · obtain ⟨h1, h2, h3⟩ := fused_tables_match h.vaA h.vaB h.sym hokA hokB gA gB hlen h.len
      h.cm h.dual h.keys
    exact ⟨h1, fun _ => h2, h3⟩

/-- decoding a bond position gives the same (sub-sector, sub-offsets) on both operands -/
theorem decAx_bond (hokA : FuseP.GroupsOk GA A.ndim) (hokB : FuseP.GroupsOk GB B.ndim)
    (gA : GA[pA]? = some xa) (gB : GB[pB]? = some xb) (c : Charge) (k : Nat) :
    decAx B GB pB c k = decAx A GA pA c k := by
  by_cases hlen : xa.length = 1
  · have hlenB : xb.length = 1 := by rw [← h.len]; exact hlen
    have hmA : FuseP.multiB GA pA = false := by simp [FuseP.multiB, gA, hlen]
    have hmB : FuseP.multiB GB pB = false := by simp [FuseP.multiB, gB, hlenB]
    simp [decAx, hmA, hmB]
  · have hlenB : xb.length ≠ 1 := by rw [← h.len]; exact hlen
    have hmA : FuseP.multiB GA pA = true := FuseP.multiB_iff.2 ⟨_, gA, hlen⟩
    have hmB : FuseP.multiB GB pB = true := FuseP.multiB_iff.2 ⟨_, gB, hlenB⟩
    have hsA := FuseP.ixM_sub (a := A) hokA gA hlen
    have hsB := FuseP.ixM_sub (a := B) hokB gB hlenB
    have hex := (h.bond_match hokA hokB gA gB).2.1 hlen
    simp only [decAx, hmA, hmB, if_true, FuseP.splitAddr, hsA, hsB, hex]
    cases alookup (FuseP.extsM B GB pB) c with
    | none => rfl
    | some ext =>
      simp only []
      cases FuseP.splitOffset ext k with
      | none => rfl
      | some q =>
        simp only []
        rw [blockShape?_congr_cm h.cm q.1]

/-- two aligned stored sectors have the same fused bond charge -/
theorem bond_charge (hokA : FuseP.GroupsOk GA A.ndim) (hokB : FuseP.GroupsOk GB B.ndim)
    (gA : GA[pA]? = some xa) (gB : GB[pB]? = some xb)
    {sa sb : Sector × Blk R} (hsa : sa ∈ A.blocks) (hsb : sb ∈ B.blocks)
    (hK : permuted sb.1 xb = permuted sa.1 xa) :
    FuseP.cM (a := B) (groups := GB) sb pB = FuseP.cM (a := A) (groups := GA) sa pA := by
  obtain ⟨i, O, hdec⟩ := dec_of_stored h.vaA hokA gA hsa
  have hdecB := h.decAx_bond hokA hokB gA gB (FuseP.cM (a := A) (groups := GA) sa pA) i
  rw [hdec] at hdecB
  exact cM_of_dec h.vaB hokB gB hdecB ((h.vaB.blk sb hsb).1) hK

end Ctx0

/-- **core of the fused strategy, generic form.**  `FA c k` / `FB c k`: the entries of the two
    fused operands as functions of the bond (charge, position), known to be the original operands'
    elements at the decoded addresses with fixed free parts `(Ls, oL)` / `(Rs, oR)`.  Then the
    double sum over the fused bond is the blockwise contraction at `(Ls ++ Rs, oL ++ oR)`. -/
theorem core_generic [AddCommMonoid R] [Mul R] [Neg R]
    (hz1 : ∀ x : R, 0 * x = 0) (hz2 : ∀ x : R, x * 0 = 0) {A B : Arr R} {xa xb : List Nat}
    (h : Ctx0 A B xa xb) {GA GB : List (List Nat)} {pA pB : Nat}
    (hokA : FuseP.GroupsOk GA A.ndim) (hokB : FuseP.GroupsOk GB B.ndim)
    (gA : GA[pA]? = some xa) (gB : GB[pB]? = some xb)
    {Ls Rs : Sector} {oL oR shpL shpR : List Nat}
    (hshpL : Arr.blockShape? (permuted A.indices (freeAxes A.ndim xa)) Ls = some shpL)
    (hboxL : inBox shpL oL = true)
    (hshpR : Arr.blockShape? (permuted B.indices (freeAxes B.ndim xb)) Rs = some shpR)
    (hboxR : inBox shpR oR = true)
    (FA FB : Charge → Nat → R)
    (HL : ∀ c D k K ok, (FuseP.ixM A GA pA).sizeOf? c = some D → k < D →
      decAx A GA pA c k = some (K, ok) →
      FA c k = A.elem (mergeSec A.ndim xa K Ls) (mergeIdx 0 A.ndim xa (freeAxes A.ndim xa) ok oL))
    (HR : ∀ c D k K ok, (FuseP.ixM B GB pB).sizeOf? c = some D → k < D →
      decAx B GB pB c k = some (K, ok) →
      FB c k = B.elem (mergeSec B.ndim xb K Rs) (mergeIdx 0 B.ndim xb (freeAxes B.ndim xb) ok oR)) :
    ((FuseP.ixM A GA pA).cm.map (fun cd => ((List.range cd.2).map (fun k =>
        FA cd.1 k * FB cd.1 k)).sum)).sum =
      (tensordotBlockwise A B (freeAxes A.ndim xa) xa xb (freeAxes B.ndim xb)).elem (Ls ++ Rs) (oL ++ oR) := by
  have hvA := h.vaA
  have hvB := h.vaB
  have ean : A.indices.length = A.ndim := rfl
  have ebn : B.indices.length = B.ndim := rfl
  have hndK := cm_keys_nodup (ixM_wfB hvA hokA gA)
  have hLlen : Ls.length = (freeAxes A.ndim xa).length := by
    rw [(blockShape?_length hshpL).1, permuted_length _ _ (by simpa [ean] using mem_freeAxes_lt)]
  have hRlen : Rs.length = (freeAxes B.ndim xb).length := by
    rw [(blockShape?_length hshpR).1, permuted_length _ _ (by simpa [ebn] using mem_freeAxes_lt)]
  have hoLlen : oL.length = (freeAxes A.ndim xa).length := by
    rw [inBox_length hboxL, (blockShape?_length hshpL).2,
      permuted_length _ _ (by simpa [ean] using mem_freeAxes_lt)]
  let H : Sector → List Nat → R := fun K ok =>
    A.elem (mergeSec A.ndim xa K Ls) (mergeIdx 0 A.ndim xa (freeAxes A.ndim xa) ok oL) *
    B.elem (mergeSec B.ndim xb K Rs) (mergeIdx 0 B.ndim xb (freeAxes B.ndim xb) ok oR)
  have hterm : ∀ cd ∈ (FuseP.ixM A GA pA).cm, ∀ k ∈ List.range cd.2,
      FA cd.1 k * FB cd.1 k =
      (match decAx A GA pA cd.1 k with
        | some (K, ok) => H K ok
        | none => 0) := by
    rintro ⟨c, D⟩ hcd k hk
    have hkD : k < D := List.mem_range.mp hk
    have hszA : (FuseP.ixM A GA pA).sizeOf? c = some D := alookup_of_mem_nodup hndK hcd
    have hszB : (FuseP.ixM B GB pB).sizeOf? c = some D := by
      rw [Index.sizeOf?, ← (h.bond_match hokA hokB gA gB).1]; exact hszA
    obtain ⟨K, ok, hdec⟩ := decAx_total hvA hokA gA hszA hkD
    have hdecB : decAx B GB pB c k = some (K, ok) := by
      rw [h.decAx_bond hokA hokB gA gB]; exact hdec
    simp only [hdec]
    rw [HL c D k K ok hszA hkD hdec, HR c D k K ok hszB hkD hdecB]
  rw [sum_map_congr (fun cd hcd => sum_map_congr (hterm cd hcd))]
  refine Eq.trans (Eq.trans (by rfl) (sum_decAx hvA hokA gA H)) ?_
  have hboxC : inBox (Arr.blockShapeD (without A.indices xa ++ without B.indices xb) (Ls ++ Rs))
      (oL ++ oR) = true := by
    rw [without_eq_permuted_freeAxes, without_eq_permuted_freeAxes, Arr.blockShapeD, ean, ebn,
      blockShape?_append hshpL hshpR]
    simp only [Option.getD_some]
    rw [inBox_append (inBox_length hboxL), hboxL, hboxR]; rfl
  rw [tensordotBlockwise_elem_dense' hz1 hz2 A B xa xb h.phA h.phB (Arr.allDistinct_of_validB h.vA)
    (Arr.allDistinct_of_validB h.vB) (Arr.shapesOk_of_validB h.vA) (Arr.shapesOk_of_validB h.vB)
    h.nA h.rA h.nB h.rB h.len (bondKs A GA pA) (bondKs_nodup hvA hokA gA)
    (bondKs_length hvA hokA gA)
    (fun sa hsa => by
      obtain ⟨p, hp, rfl⟩ := List.mem_map.mp hsa
      exact bondKs_cover hvA hokA gA p hp)
    Ls Rs hLlen hRlen (oL ++ oR) hboxC]
  have etake : (oL ++ oR).take (freeAxes A.ndim xa).length = oL := by rw [← hoLlen]; simp
  have edrop : (oL ++ oR).drop (freeAxes A.ndim xa).length = oR := by rw [← hoLlen]; simp
  rw [etake, edrop]
  apply sum_map_congr
  intro K hK
  obtain ⟨shpK, hshpK⟩ := bondKs_shape hvA hokA gA hK
  simp only [contractPair, contractTerm, H]
  rw [contracted_box h.nA h.rA hshpK hshpL, Arr.blockShapeD, hshpK]
  rfl

end TdotP
end SymmModel
