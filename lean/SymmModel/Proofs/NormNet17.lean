/-
  SymmModel.Proofs.NormNet17 — network form of the norm (property C10), part 17:
  the balanced bracketings B1, B2 with EVERY call in `mode = fused / auto / blockwise`
  (fused-mode results are zero-padded copies of the blockwise results: `TdotP.Pad`, `call_w`,
  `pad_blockwise`).
-/
import SymmModel.Proofs.NormNet16
import SymmModel.Proofs.TdotChain1
namespace SymmModel.NormNet
open SymmModel SymmModel.Lazy SymmModel.Norm SymmModel.TdotP SymmModel.GradedP SymmModel.RoutesP
open SymmModel.AssocP
set_option linter.unusedSectionVars false

section padutil
variable {R : Type} [Zero R] [Neg R]

/-- a rank-0 zero-padded copy has the same scalar -/
theorem pad_elem_nil {P Q : Arr R} (hp : Pad P Q) (hn : P.ndim = 0) : P.elem [] [] = Q.elem [] [] := by
  by_cases hs : ([] : Sector) ∈ P.sectors
  · apply hp.elem [] hs
    have : P.indices = [] := List.eq_nil_of_length_eq_zero hn
    rw [this]; rfl
  · rw [Arr.elem_of_not_mem hs, Arr.elem_of_not_mem (fun h => hs (hp.sub _ h))]

end padutil

section anymode
variable {R : Type} [AddCommMonoid R] [Mul R] [Neg R] [SignRing R]

/-- a call in any mode under the weak guard, next to the blockwise call -/
theorem call_any (hz1 : ∀ x : R, 0 * x = 0) (hz2 : ∀ x : R, x * 0 = 0) (a b : Arr R) (xa xb : List Nat)
    (W : AdmW a b xa xb) (mode : TdotMode) (rb : Arr R)
    (hb : a.tensordotF b (.pair (xa.map Int.ofNat) (xb.map Int.ofNat)) .blockwise = .ok rb) :
    ∃ rm, a.tensordotF b (.pair (xa.map Int.ofNat) (xb.map Int.ofNat)) mode = .ok rm
      ∧ Pad rm rb ∧ InterW a b xa xb rm ∧ rm.oddpos = rb.oddpos ∧ rm.charge = rb.charge := by
  cases mode with
  | blockwise =>
    obtain ⟨rm, h1, h2, h3, h4, h5, h6⟩ := call_w hz1 hz2 a b xa xb W .fused (Or.inl rfl) rb hb
    exact ⟨rb, hb, Pad.refl h4.valid, h4, rfl, rfl⟩
  | fused =>
    obtain ⟨rm, h1, h2, h3, _, h5, h6⟩ := call_w hz1 hz2 a b xa xb W .fused (Or.inl rfl) rb hb
    exact ⟨rm, h1, h2, h3, h5, h6⟩
  | auto =>
    obtain ⟨rm, h1, h2, h3, _, h5, h6⟩ := call_w hz1 hz2 a b xa xb W .auto (Or.inr rfl) rb hb
    exact ⟨rm, h1, h2, h3, h5, h6⟩

end anymode

/-! ## the weak guard between two halves computed in any mode -/
section halves
variable {R : Type}

theorem frame_mem {a b : Arr R} {xa xb : List Nat} {ix : Index}
    (h : ix ∈ without a.indices xa ++ without b.indices xb) : ix ∈ a.indices ∨ ix ∈ b.indices := by
  rcases List.mem_append.mp h with h | h
  · left; rw [without_eq_permuted_freeAxes] at h; exact mem_permuted h
  · right; rw [without_eq_permuted_freeAxes] at h; exact mem_permuted h

/-- `X` and `Y` have index tables that are `SizeLe`-prunings of the conjugated frame resp. the frame
    of `a·b`: they satisfy the weak guard over all legs, in both orders -/
theorem common_full {X Y a b : Arr R} {xa xb : List Nat}
    (ha : a.validB = true) (hb : b.validB = true)
    (hX : List.Forall₂ SizeLe X.indices ((without a.indices xa ++ without b.indices xb).map Index.conj))
    (hY : List.Forall₂ SizeLe Y.indices (without a.indices xa ++ without b.indices xb))
    (hnX : ∀ ix ∈ X.indices, (ix.cm.map (·.1)).Nodup)
    (hnY : ∀ ix ∈ Y.indices, (ix.cm.map (·.1)).Nodup) :
    contractibleCommonB X Y (List.range Y.ndim) (List.range Y.ndim) = true
    ∧ contractibleCommonB Y X (List.range Y.ndim) (List.range Y.ndim) = true := by
  have hlX : X.indices.length = Y.indices.length := by
    rw [hX.length_eq, hY.length_eq, List.length_map]
  have key : ∀ j, j < Y.ndim →
      cmAgree (X.indices.getD j default).cm (Y.indices.getD j default).cm = true
      ∧ cmAgree (Y.indices.getD j default).cm (X.indices.getD j default).cm = true
      ∧ (Y.indices.getD j default).dual = !(X.indices.getD j default).dual := by
    intro j hj
    have hjW : j < (without a.indices xa ++ without b.indices xb).length := by
      rw [← hY.length_eq]; exact hj
    have sX := forall₂_getD hX j (by rw [hlX]; exact hj) default default
    have sY := forall₂_getD hY j hj default default
    rw [getD_map_in Index.conj _ _ hjW] at sX
    have hmX : X.indices.getD j default ∈ X.indices := getD_mem_idx (by rw [hlX]; exact hj)
    have hmY : Y.indices.getD j default ∈ Y.indices := getD_mem_idx hj
    have hmW := getD_mem_idx hjW
    have hnW : (((without a.indices xa ++ without b.indices xb).getD j default).cm.map (·.1)).Nodup := by
      rcases frame_mem hmW with h | h
      · exact keys_nodup_of_validB ha _ h
      · exact keys_nodup_of_validB hb _ h
    have c0 : cmAgree ((without a.indices xa ++ without b.indices xb).getD j default).conj.cm
        ((without a.indices xa ++ without b.indices xb).getD j default).cm = true := by
      rw [Index.conj_cm]; exact cmAgree_self hnW
    have c0' : cmAgree ((without a.indices xa ++ without b.indices xb).getD j default).cm
        ((without a.indices xa ++ without b.indices xb).getD j default).conj.cm = true := by
      rw [Index.conj_cm]; exact cmAgree_self hnW
    refine ⟨cmAgree_of_sizeLe_right sY (cmAgree_of_sizeLe_left sX (hnX _ hmX) c0),
      cmAgree_of_sizeLe_right sX (cmAgree_of_sizeLe_left sY (hnY _ hmY) c0'), ?_⟩
    rw [sY.1, sX.1, Lazy.Index.conj_dual]; simp
  constructor
  · rw [commonB_iff]
    refine ⟨rfl, fun j hj => ?_⟩
    rw [List.length_range] at hj
    rw [getD_range _ _ hj]
    exact ⟨(key j hj).1, (key j hj).2.2⟩
  · rw [commonB_iff]
    refine ⟨rfl, fun j hj => ?_⟩
    rw [List.length_range] at hj
    rw [getD_range _ _ hj]
    exact ⟨(key j hj).2.1, not_not_dual _ _ (key j hj).2.2⟩

end halves

/-! ## B1, B2 with every call in any mode -/
section b12
variable {R : Type} [AddCommMonoid R] [Mul R] [Neg R] [Conj R] [NetLaws R]

/-- **B1 and B2 in any mode.**  The two halves `a·b` (mode `m1`) and `ā·b̄` (mode `m2`) and the final
    contraction (mode `m3` resp. `m4`), each in `blockwise`, `fused` or `auto` mode: all calls
    succeed and the results are rank-0 arrays without labels with value `normSq K` resp.
    `normSq' K`, `K` the blockwise contraction `a·b`. -/
theorem network_norm_halves_any_mode (hz1 : ∀ x : R, 0 * x = 0) (hz2 : ∀ x : R, x * 0 = 0)
    (a b : Arr R) (xa xb : List Nat)
    (ha : a.validB = true) (hb : b.validB = true) (hfa : a.fermi = true) (hfb : b.fermi = true)
    (hadm : ValidP.tdotAdmissibleB a b xa xb = true)
    (hoA : KetLabels a.oddpos) (hoB : KetLabels b.oddpos)
    (hd : (a.oddpos ++ b.oddpos).Pairwise (fun x y => x.1 ≠ y.1)) (m1 m2 m3 m4 : TdotMode) :
    ∃ K Km Kbm r r', a.tensordotF b (.pair (xa.map Int.ofNat) (xb.map Int.ofNat)) .blockwise = .ok K
      ∧ a.tensordotF b (.pair (xa.map Int.ofNat) (xb.map Int.ofNat)) m1 = .ok Km
      ∧ (braOf a xa).tensordotF (braOf b xb) (.pair (xa.map Int.ofNat) (xb.map Int.ofNat)) m2 = .ok Kbm
      ∧ Km.ndim = K.ndim ∧ Kbm.ndim = K.ndim
      ∧ Kbm.tensordotF Km (allAxes K.ndim) m3 = .ok r
      ∧ r.ndim = 0 ∧ r.oddpos = [] ∧ r.elem [] [] = normSq K
      ∧ Km.tensordotF Kbm (allAxes K.ndim) m4 = .ok r'
      ∧ r'.ndim = 0 ∧ r'.oddpos = [] ∧ r'.elem [] [] = normSq' K := by
  obtain ⟨K, Kb, eK, eKb, hobs, hKv, hKf, hKbv, hKbf, _, _, _⟩ :=
    conj_tensordot a b xa xb ha hb hfa hfb hadm hoA hoB hd
  obtain ⟨K', Kb', r, r', eK', eKb', hnd, h1, h2, h3, h4, g1, g2, g3, g4⟩ :=
    network_norm_halves a b xa xb ha hb hfa hfb hadm hoA hoB hd
  obtain rfl : K' = K := by rw [eK] at eK'; exact (Except.ok.inj eK').symm
  obtain rfl : Kb' = Kb := by rw [eKb] at eKb'; exact (Except.ok.inj eKb').symm
  have h := Adm.of ha hb hfa hfb hadm
  have hB := braOf_adm h
  obtain ⟨Km, e1, pK, IK, o1, c1⟩ := call_any hz1 hz2 a b xa xb (AdmW.ofAdm h) m1 K' eK
  obtain ⟨Kbm, e2, pKb, IKb, o2, c2⟩ :=
    call_any hz1 hz2 (braOf a xa) (braOf b xb) xa xb (AdmW.ofAdm hB) m2 Kb' eKb
  have hwi : without (braOf a xa).indices xa ++ without (braOf b xb).indices xb
      = (without a.indices xa ++ without b.indices xb).map Index.conj := by
    rw [(braOf_frame a xa).2.2.1, (braOf_frame b xb).2.2.1, without_map, without_map,
      List.map_append]
  have hXf := IKb.frame
  rw [hwi] at hXf
  obtain ⟨cc1, cc2⟩ := common_full ha hb hXf IK.frame (keys_nodup_of_validB IKb.valid)
    (keys_nodup_of_validB IK.valid)
  have hnK : Km.ndim = K'.ndim := pK.ndim
  have hnKb : Kbm.ndim = K'.ndim := pKb.ndim.trans hnd
  rw [hnK] at cc1 cc2
  have hsym : Kbm.sym = Km.sym := by rw [IKb.sym, (braOf_frame a xa).1, IK.sym]
  have hlt : ∀ i ∈ List.range K'.ndim, i < K'.ndim := fun i hi => List.mem_range.mp hi
  have Wp : AdmW Kbm Km (List.range K'.ndim) (List.range K'.ndim) :=
    ⟨IKb.valid, IK.valid, IKb.fermi, IK.fermi, hsym, cc1, List.nodup_range, List.nodup_range,
      fun i hi => hnKb ▸ hlt i hi, fun i hi => hnK ▸ hlt i hi⟩
  have Wp' : AdmW Km Kbm (List.range K'.ndim) (List.range K'.ndim) :=
    ⟨IK.valid, IKb.valid, IK.fermi, IKb.fermi, hsym.symm, cc2, List.nodup_range, List.nodup_range,
      fun i hi => hnK ▸ hlt i hi, fun i hi => hnKb ▸ hlt i hi⟩
  obtain ⟨A1, A2⟩ := adm_full hKv hKf hKbv hKbf
    (hobs.sym.trans (conjF_frame K' true true).1)
    (hobs.indices.trans (conjF_frame K' true true).2.2.1)
  -- bra half left
  obtain ⟨zp, ezp, pz, oz, _⟩ := pad_blockwise hz1 hz2 pKb pK Wp (AdmW.ofAdm A1) o2 c2 o1 c1 r h1
  obtain ⟨rm, e3, prm, _, orm, _⟩ := call_any hz1 hz2 Kbm Km _ _ Wp m3 zp ezp
  have n1 : rm.ndim = 0 := prm.ndim.trans (pz.ndim.trans h2)
  -- ket half left
  obtain ⟨zp', ezp', pz', oz', _⟩ :=
    pad_blockwise hz1 hz2 pK pKb Wp' (AdmW.ofAdm A2) o1 c1 o2 c2 r' g1
  obtain ⟨rm', e4, prm', _, orm', _⟩ := call_any hz1 hz2 Km Kbm _ _ Wp' m4 zp' ezp'
  have n2 : rm'.ndim = 0 := prm'.ndim.trans (pz'.ndim.trans g2)
  refine ⟨K', Km, Kbm, rm, rm', eK, e1, e2, hnK, hnKb, e3, n1, by rw [orm, oz, h3], ?_, e4, n2,
    by rw [orm', oz', g3], ?_⟩
  · rw [pad_elem_nil prm n1, pad_elem_nil pz (pz.ndim.trans h2), h4]
  · rw [pad_elem_nil prm' n2, pad_elem_nil pz' (pz'.ndim.trans g2), g4]

end b12

end SymmModel.NormNet
