/-
  SymmModel.Proofs.ReshapeIa — the one-call element statement of the fermionic `fuse` / `reshape`
  WITH the facts needed to compose calls over zero-filled parts of fused blocks: the split address
  `(s, offs)` of a stored element of the fused array has the right lengths, and IF the input stores
  the sector `s` then `offs` lies in the box of that block (`fuseF_elem_box`,
  `forward_elem_call_box`).  When the input does not store `s` the value is 0 (`Arr.elem`).
-/
import SymmModel.Proofs.ReshapeHd
namespace SymmModel.ReshapeI
open SymmModel SymmModel.Reshape SymmModel.C07 SymmModel.Reshape5 SymmModel.ReshapeH ReshapeP FuseP
open SymmModel.Lazy
set_option linter.unusedSectionVars false

variable {R : Type} [Zero R] [Neg R] [LawfulNeg R]

/-- `C05.fuseF_elem` with lengths and the box of the source block -/
theorem fuseF_elem_box (a : Arr R) (groups : List (List Nat)) (e : Bool)
    (hv : a.validB = true) (hf : a.fermi = true) (hg : C05.groupsOkB groups a.ndim = true) :
    let gi := calcFuseGroupInfo groups a.duals
    ∃ x, Arr.fuseF a groups .insert e = .ok x ∧
      ∀ ns B, alookup x.blocks ns = some B → ∀ i, inBox B.shape i = true →
        ∃ segs : List (Sector × List Nat), segs.length = groups.length
          ∧ (∀ g gaxes, groups[g]? = some gaxes → gaxes.length ≠ 1 →
                  splitAddr (x.indices.getD (gi.position + g) default) (ns.getD (gi.position + g) (0, 0))
                    (i.getD (gi.position + g) 0) = segs[g]?)
          ∧ (ns.take gi.position ++ (segs.map (·.1)).flatten ++ ns.drop (gi.position + groups.length)).length
              = a.ndim
          ∧ (i.take gi.position ++ (segs.map (·.2)).flatten ++ i.drop (gi.position + groups.length)).length
              = a.ndim
          ∧ ∀ s offs, s.length = a.ndim → offs.length = a.ndim →
              permuted s gi.perm = ns.take gi.position ++ (segs.map (·.1)).flatten
                ++ ns.drop (gi.position + groups.length) →
              permuted offs gi.perm = i.take gi.position ++ (segs.map (·.2)).flatten
                ++ i.drop (gi.position + groups.length) →
              x.elem ns i = sgnI (fuseSignF a groups s) (a.elem s offs)
              ∧ ∀ b, alookup a.blocks s = some b →
                  inBox (permuted b.shape gi.perm) (permuted offs gi.perm) = true := by
  have hok := groupsOk_iff.1 hg
  obtain ⟨h0, hM⟩ := fuseF_elemM a groups e hv hf hok
  obtain ⟨_, hT⟩ := fuseF_elemT a groups e hv hf hok
  have hfld := signAdj_fields a groups
  have hnd4 : (signAdj a groups).ndim = a.ndim := by
    show (signAdj a groups).indices.length = a.ndim
    rw [hfld.2.1]; exact permutedM_length hok a.indices rfl
  have hd4 : (signAdj a groups).duals.length = a.duals.length := by
    rw [duals_length, duals_length, hnd4]
  obtain ⟨hpos, _, _⟩ := newGroups_plan (hokD hok) hd4
  have hlen : (newGroupsF groups a.duals).length = groups.length := newGroupsF_length _ _
  have hfull := Full.of_valid hv hf
  have hisp : Arr.isPerm (calcFuseGroupInfo groups a.duals).perm a.ndim = true := by
    have := perm_isPerm (hokD hok); rwa [duals_length] at this
  have htr := hfull.trOk hisp
  refine ⟨_, h0, ?_⟩
  intro ns B hB i hi
  obtain ⟨h1, hKl, hJl, _, hbx⟩ := hT ns B hB i hi
  have eK : expandK (signAdj a groups) (newGroupsF groups a.duals) ns i
      = ns.take (calcFuseGroupInfo groups a.duals).position
        ++ (((List.range groups.length).map (segM (signAdj a groups) (newGroupsF groups a.duals) ns i)).map
              (·.1)).flatten
        ++ ns.drop ((calcFuseGroupInfo groups a.duals).position + groups.length) := by
    simp only [expandK, hpos, hlen, List.map_map]
    rfl
  have eJ : expandJ (signAdj a groups) (newGroupsF groups a.duals) ns i
      = i.take (calcFuseGroupInfo groups a.duals).position
        ++ (((List.range groups.length).map (segM (signAdj a groups) (newGroupsF groups a.duals) ns i)).map
              (·.2)).flatten
        ++ i.drop ((calcFuseGroupInfo groups a.duals).position + groups.length) := by
    simp only [expandJ, hpos, hlen, List.map_map]
    rfl
  refine ⟨(List.range groups.length).map (segM (signAdj a groups) (newGroupsF groups a.duals) ns i), by simp,
    ?_, by rw [← eK]; exact hKl, by rw [← eJ]; exact hJl, ?_⟩
  · intro g gaxes hgg hl1
    have hgl := getElem?_lt hgg
    have hseg : ((List.range groups.length).map (segM (signAdj a groups) (newGroupsF groups a.duals) ns i))[g]?
        = some (segM (signAdj a groups) (newGroupsF groups a.duals) ns i g) := by
      simp [List.getElem?_map, List.getElem?_range hgl]
    have hm : multiB groups g = true := multiB_iff.2 ⟨_, hgg, hl1⟩
    rw [hseg]
    have := h1 g hgl hm
    show splitAddr ((newIdxM (signAdj a groups) (newGroupsF groups a.duals)).getD _ default) _ _ = _
    have hix : (newIdxM (signAdj a groups) (newGroupsF groups a.duals)).getD
        ((calcFuseGroupInfo groups a.duals).position + g) default
        = ixM (signAdj a groups) (newGroupsF groups a.duals) g := by
      simp only [ixM]; rw [hpos]
    rw [hix]; exact this
  · intro s offs hs ho hK hJ
    refine ⟨hM ns B hB i hi s offs hs ho (by rw [hK, eK]) (by rw [hJ, eJ]), ?_⟩
    intro b hb
    obtain ⟨b4, hb4, hsh⟩ := signAdj_block (groups := groups) htr hb
    have := hbx b4 (by rw [eK, ← hK]; exact hb4)
    rw [hsh, eJ, ← hJ] at this
    exact this

/-- the one-call statement with lengths and box: every stored element of `y` is the element of `a` at
    the split address, times the fuse sign; the split address has `a.ndim` components and lies in the
    box of the source block when `a` stores the source sector -/
def ElemStepB (a y : Arr R) (G : List (List Nat)) (P : Nat) : Prop :=
  ∀ ns B, alookup y.blocks ns = some B → ∀ i, inBox B.shape i = true →
    ∃ segs : List (Sector × List Nat), segs.length = G.length
      ∧ (∀ g gaxes, G[g]? = some gaxes →
          splitAddr (y.indices.getD (P + g) default) (ns.getD (P + g) (0, 0)) (i.getD (P + g) 0) = segs[g]?)
      ∧ (ns.take P ++ (segs.map (·.1)).flatten ++ ns.drop (P + G.length)).length = a.ndim
      ∧ (i.take P ++ (segs.map (·.2)).flatten ++ i.drop (P + G.length)).length = a.ndim
      ∧ y.elem ns i = sgnI (fuseSignT a G (ns.take P ++ (segs.map (·.1)).flatten ++ ns.drop (P + G.length)))
          (a.elem (ns.take P ++ (segs.map (·.1)).flatten ++ ns.drop (P + G.length))
            (i.take P ++ (segs.map (·.2)).flatten ++ i.drop (P + G.length)))
      ∧ ∀ b, alookup a.blocks (ns.take P ++ (segs.map (·.1)).flatten ++ ns.drop (P + G.length)) = some b →
          inBox b.shape (i.take P ++ (segs.map (·.2)).flatten ++ i.drop (P + G.length)) = true

theorem forward_elem_call_box (a : Arr R) (G : List (List Nat)) (P lb : Nat)
    (hv : a.validB = true) (hf : a.fermi = true) (hc : CallOk G P lb a.ndim) :
    ∃ y, fuseDispatch a G = .ok y ∧ ElemStepB a y G P := by
  have hok := groupsOk_of_call hc.ne hc.two hc.flat hc.le
  have hgok : C05.groupsOkB G a.ndim = true := groupsOk_iff.2 hok
  have hdl := FuseP.duals_length a
  obtain ⟨hb, _, hperm⟩ := ValidP.groupInfo_consecutive (groups := G) (duals := a.duals)
    (p := P) (n := G.flatten.length) hc.flat (flatten_pos hc.ne hc.two) (by rw [hdl]; exact hc.le)
  rw [hdl] at hperm
  have hpos : (calcFuseGroupInfo G a.duals).position = P := by
    obtain ⟨_, _, _, _, _, hb', _⟩ := C05.calcFuseGroupInfo_perm G a.duals (by rw [hdl]; exact hgok)
    have := congrArg List.length (hb'.symm.trans hb)
    simpa using this
  obtain ⟨y, hy, hel⟩ := fuseF_elem_box a G true hv hf hgok
  rw [hpos, hperm] at hel
  refine ⟨y, by simp only [fuseDispatch, hf, if_true]; exact hy, ?_⟩
  intro ns B hB i hi
  obtain ⟨segs, hsl, hseg, hKl, hJl, hval⟩ := hel ns B hB i hi
  refine ⟨segs, hsl, ?_, hKl, hJl, ?_⟩
  · intro g gaxes hg
    have h2 := hc.two gaxes (List.mem_of_getElem? hg)
    exact hseg g gaxes hg (by omega)
  · have e1 : ∀ s : Sector, s.length = a.ndim → permuted s (List.range a.ndim) = s := by
      intro s hs; rw [← hs]; exact Lazy.permuted_range s
    have e2 : ∀ o : List Nat, o.length = a.ndim → permuted o (List.range a.ndim) = o := by
      intro o ho; rw [← ho]; exact Lazy.permuted_range o
    obtain ⟨h1, h2⟩ := hval _ _ hKl hJl (e1 _ hKl) (e2 _ hJl)
    constructor
    · rw [h1]
      congr 1
      unfold fuseSignF
      rw [hperm, e1 _ hKl, KoszulP.koszul_id', Int.mul_one]
    · intro b hb
      have := h2 b hb
      rw [e2 _ hJl] at this
      have hbl : b.shape.length = a.ndim := ShapeLen.of_valid hv (_, b) (Lazy.alookup_mem hb)
      rw [← hbl, Lazy.permuted_range] at this
      exact this

end SymmModel.ReshapeI
