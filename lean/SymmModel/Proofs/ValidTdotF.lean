/-
  SymmModel.Proofs.ValidTdotF — the public contraction entry points in block-wise mode:
  `tensordot_abelian` and `tensordot_fermionic` return valid arrays (property C01, item 5,
  including the odd-position labels repaired by `resolve_combined_oddpos`).
-/
import SymmModel.Proofs.ValidMore

namespace SymmModel
namespace ValidP
open Sym

variable {R : Type}

/-! ### the public entry `tensordot_abelian(..., mode="blockwise")` -/

theorem parseAxes_nat (na nb : Nat) (axesA axesB : List Nat) (hl : axesA.length = axesB.length)
    (hA : ∀ i ∈ axesA, i < na) (hB : ∀ i ∈ axesB, i < nb) :
    parseAxes na nb (.pair (axesA.map Int.ofNat) (axesB.map Int.ofNat)) = .ok (axesA, axesB) := by
  have hmodA : (axesA.map Int.ofNat).map (fun x => (x % (na : Int)).toNat) = axesA := by
    rw [List.map_map]
    conv => rhs; rw [← List.map_id axesA]
    apply List.map_congr_left
    intro i hi
    have := hA i hi
    simp only [Function.comp, Int.ofNat_eq_natCast, id]
    rw [Int.emod_eq_of_lt (by omega) (by omega), Int.toNat_natCast]
  have hmodB : (axesB.map Int.ofNat).map (fun x => (x % (nb : Int)).toNat) = axesB := by
    rw [List.map_map]
    conv => rhs; rw [← List.map_id axesB]
    apply List.map_congr_left
    intro i hi
    have := hB i hi
    simp only [Function.comp, Int.ofNat_eq_natCast, id]
    rw [Int.emod_eq_of_lt (by omega) (by omega), Int.toNat_natCast]
  unfold parseAxes
  simp only [hmodA, hmodB]
  have h1 : ¬ ((na == 0 && !(axesA.map Int.ofNat).isEmpty) = true) := by
    intro h
    simp only [Bool.and_eq_true, beq_iff_eq, Bool.not_eq_true', List.isEmpty_eq_false_iff,
      ne_eq, List.map_eq_nil_iff] at h
    obtain ⟨h0, hne⟩ := h
    cases axesA with
    | nil => exact hne rfl
    | cons i _ => have := hA i (by simp); omega
  have h2 : ¬ ((nb == 0 && !(axesB.map Int.ofNat).isEmpty) = true) := by
    intro h
    simp only [Bool.and_eq_true, beq_iff_eq, Bool.not_eq_true', List.isEmpty_eq_false_iff,
      ne_eq, List.map_eq_nil_iff] at h
    obtain ⟨h0, hne⟩ := h
    cases axesB with
    | nil => exact hne rfl
    | cons i _ => have := hB i (by simp); omega
  have h3 : ¬ (((axesA.map Int.ofNat).length != (axesB.map Int.ofNat).length) = true) := by
    simp [hl]
  simp only [h1, h2, h3, if_false]
  rfl

/-- guard of a contraction call (second operand `b` fixed) -/
def tdotAdmissibleB (a b : Arr R) (axesA axesB : List Nat) : Bool :=
  decide (a.sym = b.sym) && contractibleB a b axesA axesB
  && allDistinct axesA && allDistinct axesB
  && axesA.all (fun i => decide (i < a.ndim)) && axesB.all (fun i => decide (i < b.ndim))

theorem tensordotA_blockwise_valid [Zero R] [Add R] [Mul R] (a b r : Arr R) (axesA axesB : List Nat)
    (ha : Valid a) (hb : Valid b) (hfa : a.fermi = false)
    (hadm : tdotAdmissibleB a b axesA axesB = true)
    (h : tensordotA a b (.pair (axesA.map Int.ofNat) (axesB.map Int.ofNat)) .blockwise = .ok r) :
    Valid r := by
  unfold tdotAdmissibleB at hadm
  simp only [Bool.and_eq_true, decide_eq_true_eq, allDistinct_iff, List.all_eq_true] at hadm
  obtain ⟨⟨⟨⟨⟨hsym, hc⟩, hnA⟩, hnB⟩, hA⟩, hB⟩ := hadm
  have hlen : axesA.length = axesB.length := by
    unfold contractibleB at hc
    simp only [Bool.and_eq_true, beq_iff_eq] at hc
    exact hc.1
  unfold tensordotA at h
  rw [parseAxes_nat a.ndim b.ndim axesA axesB hlen hA hB] at h
  simp only [bind, Except.bind, pure, Except.pure, Except.ok.injEq] at h
  subst h
  exact tensordotBlockwise_valid a b axesA axesB ha hb hsym hfa (contractible_opposite hc)
    hnA hnB hA hB


/-! ### odd-position labels -/

theorem resolveScan_parity : ∀ (fuel : Nat) (pre post : List (Int × Bool)) (ph : Int)
    (out : List (Int × Bool)) (ph' : Int),
    resolveScan fuel pre post ph = .ok (out, ph') →
      out.length % 2 = (pre.length + post.length) % 2 := by
  intro fuel
  induction fuel with
  | zero =>
    intro pre post ph out ph' h
    simp [resolveScan, throw, throwThe, MonadExceptOf.throw] at h
  | succ fuel ih =>
    intro pre post ph out ph' h
    match post, h with
    | [], h =>
      simp only [resolveScan, pure, Except.pure, Except.ok.injEq, Prod.mk.injEq] at h
      rw [← h.1]; simp
    | [a], h =>
      simp only [resolveScan, pure, Except.pure, Except.ok.injEq, Prod.mk.injEq] at h
      rw [← h.1]; simp
    | a :: b :: rest, h =>
      simp only [resolveScan] at h
      split at h
      · split at h
        · match pre, h with
          | [], h =>
            have := ih _ _ _ _ _ h
            simp only [List.length_nil, List.length_cons] at this ⊢
            omega
          | p :: pre', h =>
            have := ih _ _ _ _ _ h
            simp only [List.length_cons] at this ⊢
            omega
        · simp [throw, throwThe, MonadExceptOf.throw] at h
      · split at h
        · match pre, h with
          | [], h =>
            have := ih _ _ _ _ _ h
            simp only [List.length_nil, List.length_cons] at this ⊢
            omega
          | p :: pre', h =>
            have := ih _ _ _ _ _ h
            simp only [List.length_cons] at this ⊢
            omega
        · have := ih _ _ _ _ _ h
          simp only [List.length_cons] at this ⊢
          omega

theorem odd_add (m n k : Nat) (h : k % 2 = (m + n) % 2) :
    (k % 2 == 1) = xor (m % 2 == 1) (n % 2 == 1) := by
  rcases Nat.mod_two_eq_zero_or_one m with hm | hm <;>
  rcases Nat.mod_two_eq_zero_or_one n with hn | hn <;>
  rcases Nat.mod_two_eq_zero_or_one k with hk | hk <;>
  simp [hm, hn, hk] <;> omega

/-- `resolve_combined_oddpos` restores the odd-position clause -/
theorem resolveCombinedOddpos_valid (l r new res : Arr R) (hnew : Core new)
    (hf : new.fermi = true) (hph : PhasesOk new.sym new.indices new.charge new.phases)
    (hch : new.sym.parity new.charge
      = xor (l.oddpos.length % 2 == 1) (r.oddpos.length % 2 == 1))
    (h : resolveCombinedOddpos l r new = .ok res) : Valid res := by
  unfold resolveCombinedOddpos at h
  simp only [bind, Except.bind, pure, Except.pure] at h
  split at h
  · rename_i hempty
    simp only [Except.ok.injEq] at h
    subst h
    simp only [Bool.and_eq_true, List.isEmpty_iff] at hempty
    refine ⟨hnew.idx, hnew.chg, hnew.nodup, hnew.blk, ?_⟩
    unfold SignsOk
    show if new.fermi = true then _ else _
    simp only [hf, if_true]
    refine ⟨hph, ?_⟩
    show (([] : List (Int × Bool)).length % 2 == 1) = new.sym.parity new.charge
    rw [hch, hempty.1, hempty.2]; rfl
  · split at h
    · cases h
    · rename_i res0 hscan
      obtain ⟨out, ph⟩ := res0
      simp only [Except.ok.injEq] at h
      have hpar := resolveScan_parity _ _ _ _ _ _ hscan
      simp only [List.length_nil, Nat.zero_add, List.length_append] at hpar
      have hodd : (out.length % 2 == 1) = new.sym.parity new.charge := by
        rw [hch]; exact odd_add _ _ _ hpar
      have hbase : Valid ({ new with oddpos := out } : Arr R) := by
        refine ⟨hnew.idx, hnew.chg, hnew.nodup, hnew.blk, ?_⟩
        unfold SignsOk
        show if new.fermi = true then _ else _
        simp only [hf, if_true]
        exact ⟨hph, hodd⟩
      subst h
      split
      · exact phaseGlobal_valid ({ new with oddpos := out } : Arr R) hbase hf
      · exact hbase

/-! ### positions after the transposes -/

theorem permuted_range_take {α : Type} (l : List α) (k : Nat) :
    permuted l (List.range k) = l.take k := by
  by_cases hk : k ≤ l.length
  · have h1 : permuted l (List.range k) = permuted (l.take k) (List.range k) := by
      unfold permuted
      apply List.filterMap_congr
      intro i hi
      have := List.mem_range.mp hi
      rw [List.getElem?_take_of_lt this]
    rw [h1]
    have := permuted_range (l.take k)
    rwa [List.length_take, Nat.min_eq_left hk] at this
  · have hk' : l.length ≤ k := by omega
    rw [List.take_of_length_le hk']
    have : List.range k = List.range l.length ++ (List.range' l.length (k - l.length)) := by
      rw [List.range_eq_range', List.range_eq_range']
      have := List.range'_append (s := 0) (m := l.length) (n := k - l.length) (step := 1)
      have e : l.length + (k - l.length) = k := by omega
      rw [e, Nat.one_mul, Nat.zero_add] at this
      exact this.symm
    rw [this, permuted_append, permuted_range]
    have : permuted l (List.range' l.length (k - l.length)) = [] := by
      unfold permuted
      rw [List.filterMap_eq_nil_iff]
      intro i hi
      have := (List.mem_range'_1.mp hi).1
      exact List.getElem?_eq_none this
    rw [this, List.append_nil]

theorem permuted_range_drop {α : Type} (l : List α) (m : Nat) :
    permuted l ((List.range l.length).drop m) = l.drop m := by
  have h1 : (List.range l.length).drop m = (List.range (l.length - m)).map (· + m) := by
    apply List.ext_getElem
    · simp
    · intro i h1 h2
      simp only [List.getElem_drop, List.getElem_range, List.getElem_map]
      omega
  rw [h1]
  have h2 : permuted l ((List.range (l.length - m)).map (· + m))
      = permuted (l.drop m) (List.range (l.length - m)) := by
    unfold permuted
    rw [List.filterMap_map]
    apply List.filterMap_congr
    intro i _
    simp only [Function.comp, List.getElem?_drop]
    congr 1; omega
  rw [h2]
  have := permuted_range (l.drop m)
  rwa [List.length_drop] at this

theorem isPerm_of_perm {axes : List Nat} {n : Nat} (h : axes.Perm (List.range n)) :
    Arr.isPerm axes n = true := by
  unfold Arr.isPerm
  simp only [Bool.and_eq_true, beq_iff_eq, List.all_eq_true, List.mem_range,
    List.contains_iff_mem]
  exact ⟨by simpa using h.length_eq, fun i hi => h.symm.subset (List.mem_range.mpr hi)⟩

/-! ### what `tensordot_fermionic` needs from the abelian kernel, for a given mode -/

/-- `tensordot_abelian` in `mode`: on operands satisfying the sign-free clauses of validity the
    result satisfies them too, with the combined charge and the first operand's other fields -/
def TdotASpec (R : Type) [Zero R] [Add R] [Mul R] (mode : TdotMode) : Prop :=
  ∀ (a b c : Arr R) (axesA axesB : List Nat), Core a → Core b → a.sym = b.sym →
    (permuted b.indices axesB).map Index.dual = (permuted a.indices axesA).map (fun ix => !ix.dual) →
    axesA.length = axesB.length → axesA.Nodup → axesB.Nodup →
    (∀ i ∈ axesA, i < a.ndim) → (∀ i ∈ axesB, i < b.ndim) →
    tensordotA a b (.pair (axesA.map Int.ofNat) (axesB.map Int.ofNat)) mode = .ok c →
    Core c ∧ c.sym = a.sym ∧ c.fermi = a.fermi ∧ c.charge = a.sym.combine [a.charge, b.charge]
      ∧ c.phases = a.phases ∧ c.oddpos = a.oddpos

theorem tdotASpec_blockwise [Zero R] [Add R] [Mul R] : TdotASpec R .blockwise := by
  intro a b c axesA axesB ha hb hsym hd hlen hnA hnB hA hB h
  unfold tensordotA at h
  rw [parseAxes_nat a.ndim b.ndim axesA axesB hlen hA hB] at h
  simp only [bind, Except.bind, pure, Except.pure, Except.ok.injEq] at h
  subst h
  exact ⟨tensordotBlockwise_core' a b axesA axesB ha hb hsym hd hnA hnB hA hB, rfl, rfl, rfl, rfl, rfl⟩

/-! ### `tensordot_fermionic` -/

/-- the two operands just before `phase_sync` (copy of the model text) -/
def tdF34 [Zero R] (a b : Arr R) (axesA axesB : List Nat) : Arr R × Arr R :=
  let leftAxes := without (List.range a.ndim) axesA
  let rightAxes := without (List.range b.ndim) axesB
  let ncon := axesA.length
  let a1 := a.transposeF (leftAxes ++ axesA)
  let b1 := b.transposeF (axesB ++ rightAxes)
  let b2 := b1.phaseTranspose (some ((List.range ncon).reverse ++ (List.range b1.ndim).drop ncon))
  let newAxesA := (List.range a.ndim).drop (a.ndim - ncon)
  let newAxesB := List.range ncon
  if a1.size ≤ b2.size then
    (a1.phaseFlip (newAxesA.filter (fun ax => !(a1.indices.getD ax default).dual)), b2)
  else
    (a1, b2.phaseFlip (newAxesB.filter (fun ax => (b2.indices.getD ax default).dual)))

theorem tensordotF_eq [Zero R] [Add R] [Mul R] [Neg R] (a b : Arr R) (axesA axesB : List Nat)
    (mode : TdotMode) (hl : axesA.length = axesB.length)
    (hA : ∀ i ∈ axesA, i < a.ndim) (hB : ∀ i ∈ axesB, i < b.ndim) :
    Arr.tensordotF a b (.pair (axesA.map Int.ofNat) (axesB.map Int.ofNat)) mode =
      (do
        let c ← tensordotA (tdF34 a b axesA axesB).1.phaseSync (tdF34 a b axesA axesB).2.phaseSync
          (.pair (((List.range a.ndim).drop (a.ndim - axesA.length)).map Int.ofNat)
                 ((List.range axesA.length).map Int.ofNat)) mode
        resolveCombinedOddpos (tdF34 a b axesA axesB).1.phaseSync
          (tdF34 a b axesA axesB).2.phaseSync c) := by
  unfold Arr.tensordotF
  rw [parseAxes_nat a.ndim b.ndim axesA axesB hl hA hB]
  rfl

/-- what is known about the operands handed to the abelian kernel -/
structure TdFProps (a b : Arr R) (axesA axesB : List Nat) (a3 b3 : Arr R) : Prop where
  va : Valid a3
  vb : Valid b3
  fa : a3.fermi = true
  fb : b3.fermi = true
  ia : a3.indices = permuted a.indices (without (List.range a.ndim) axesA ++ axesA)
  ib : b3.indices = permuted b.indices (axesB ++ without (List.range b.ndim) axesB)
  sa : a3.sym = a.sym
  sb : b3.sym = b.sym
  ca : a3.charge = a.charge
  cb : b3.charge = b.charge
  oa : a3.oddpos = a.oddpos
  ob : b3.oddpos = b.oddpos

theorem phaseFlip_fields (a : Arr R) (axs : List Nat) :
    (a.phaseFlip axs).indices = a.indices ∧ (a.phaseFlip axs).sym = a.sym
    ∧ (a.phaseFlip axs).charge = a.charge ∧ (a.phaseFlip axs).oddpos = a.oddpos
    ∧ (a.phaseFlip axs).fermi = a.fermi := by
  unfold Arr.phaseFlip
  split <;> exact ⟨rfl, rfl, rfl, rfl, rfl⟩

theorem tdF34_props [Zero R] (a b : Arr R) (axesA axesB : List Nat)
    (ha : Valid a) (hb : Valid b) (hfa : a.fermi = true) (hfb : b.fermi = true)
    (hnA : axesA.Nodup) (hnB : axesB.Nodup)
    (hA : ∀ i ∈ axesA, i < a.ndim) (hB : ∀ i ∈ axesB, i < b.ndim) :
    TdFProps a b axesA axesB (tdF34 a b axesA axesB).1 (tdF34 a b axesA axesB).2 := by
  have hpA : Arr.isPerm (without (List.range a.ndim) axesA ++ axesA) a.ndim = true :=
    isPerm_of_perm (without_append_perm hnA hA)
  have hpB : Arr.isPerm (axesB ++ without (List.range b.ndim) axesB) b.ndim = true :=
    isPerm_of_perm (List.perm_append_comm.trans (without_append_perm hnB hB))
  have va1 := transposeF_valid a _ true ha hfa hpA
  have vb1 := transposeF_valid b _ true hb hfb hpB
  have fb1 : (b.transposeF (axesB ++ without (List.range b.ndim) axesB) true).fermi = true := hfb
  have vb2 := phaseTranspose_valid _
    (some ((List.range axesA.length).reverse
      ++ (List.range (b.transposeF (axesB ++ without (List.range b.ndim) axesB) true).ndim).drop
          axesA.length)) vb1 fb1
  unfold tdF34
  simp only
  split
  · obtain ⟨e1, e2, e3, e4, e5⟩ := phaseFlip_fields
      (a.transposeF (without (List.range a.ndim) axesA ++ axesA) true)
      (((List.range a.ndim).drop (a.ndim - axesA.length)).filter (fun ax =>
        !((a.transposeF (without (List.range a.ndim) axesA ++ axesA) true).indices.getD ax default).dual))
    exact ⟨phaseFlip_valid _ _ va1 hfa, vb2, by rw [e5]; exact hfa, hfb, by rw [e1]; rfl, rfl,
      by rw [e2]; rfl, rfl, by rw [e3]; rfl, rfl, by rw [e4]; rfl, rfl⟩
  · obtain ⟨e1, e2, e3, e4, e5⟩ := phaseFlip_fields
      ((b.transposeF (axesB ++ without (List.range b.ndim) axesB) true).phaseTranspose
        (some ((List.range axesA.length).reverse
          ++ (List.range (b.transposeF (axesB ++ without (List.range b.ndim) axesB) true).ndim).drop
              axesA.length)))
      ((List.range axesA.length).filter (fun ax =>
        (((b.transposeF (axesB ++ without (List.range b.ndim) axesB) true).phaseTranspose
        (some ((List.range axesA.length).reverse
          ++ (List.range (b.transposeF (axesB ++ without (List.range b.ndim) axesB) true).ndim).drop
              axesA.length))).indices.getD ax default).dual))
    exact ⟨va1, phaseFlip_valid _ _ vb2 hfb, hfa, by rw [e5]; exact hfb, rfl, by rw [e1]; rfl,
      rfl, by rw [e2]; rfl, rfl, by rw [e3]; rfl, rfl, by rw [e4]; rfl⟩

theorem tensordotF_valid_of_spec [Zero R] [Add R] [Mul R] [Neg R] (mode : TdotMode)
    (hspec : TdotASpec R mode) (a b r : Arr R)
    (axesA axesB : List Nat) (ha : Valid a) (hb : Valid b)
    (hfa : a.fermi = true) (hfb : b.fermi = true)
    (hadm : tdotAdmissibleB a b axesA axesB = true)
    (h : Arr.tensordotF a b (.pair (axesA.map Int.ofNat) (axesB.map Int.ofNat)) mode = .ok r) :
    Valid r := by
  unfold tdotAdmissibleB at hadm
  simp only [Bool.and_eq_true, decide_eq_true_eq, allDistinct_iff, List.all_eq_true] at hadm
  obtain ⟨⟨⟨⟨⟨hsym, hc⟩, hnA⟩, hnB⟩, hA⟩, hB⟩ := hadm
  have hc' := contractible_opposite hc
  unfold oppositeDualsB at hc'
  simp only [Bool.and_eq_true, beq_iff_eq, List.all_eq_true] at hc'
  have hlen := hc'.1
  have hd := opposite_duals_permuted a.indices b.indices axesA axesB hlen hA hB hc'.2
  rw [tensordotF_eq a b axesA axesB _ hlen hA hB] at h
  obtain ⟨va, vb, fa, fb, ia, ib, sa, sb, ca, cb, oa, ob⟩ :=
    tdF34_props a b axesA axesB ha hb hfa hfb hnA hnB hA hB
  generalize (tdF34 a b axesA axesB).1 = a3 at *
  generalize (tdF34 a b axesA axesB).2 = b3 at *
  -- lengths
  have hleftlen : (without (List.range a.ndim) axesA).length = a.ndim - axesA.length := by
    have := (without_append_perm hnA hA).length_eq
    simp only [List.length_append, List.length_range] at this
    omega
  have hplA : (permuted a.indices (without (List.range a.ndim) axesA)).length
      = a.ndim - axesA.length := by
    rw [permuted_length (l := a.indices) (fun i hi => (without_lt i hi : i < a.ndim)), hleftlen]
  have hplB : (permuted b.indices axesB).length = axesA.length := by
    rw [permuted_length hB, hlen]
  have hna3 : a3.ndim = a.ndim := by
    unfold Arr.ndim
    rw [ia, permuted_length]
    · have := (without_append_perm hnA hA).length_eq
      simpa [Arr.ndim] using this
    · intro i hi
      rcases List.mem_append.mp hi with h1 | h1
      · exact without_lt i h1
      · exact hA i h1
  have hnb3 : b3.ndim = b.ndim := by
    unfold Arr.ndim
    rw [ib, permuted_length]
    · have := (List.perm_append_comm.trans (without_append_perm hnB hB)).length_eq
      simpa [Arr.ndim] using this
    · intro i hi
      rcases List.mem_append.mp hi with h1 | h1
      · exact hB i h1
      · exact without_lt i h1
  have hncon : axesA.length ≤ a.ndim := by
    have := (without_append_perm hnA hA).length_eq
    simp only [List.length_append, List.length_range] at this
    omega
  have hnconB : axesA.length ≤ b.ndim := by
    have := (without_append_perm hnB hB).length_eq
    simp only [List.length_append, List.length_range] at this
    omega
  -- the operands of the abelian kernel
  have va4 := phaseSync_valid a3 va
  have vb4 := phaseSync_valid b3 vb
  set a4 := a3.phaseSync with ha4
  set b4 := b3.phaseSync with hb4
  have ia4 : a4.indices = a3.indices := rfl
  have ib4 : b4.indices = b3.indices := rfl
  set newA := (List.range a.ndim).drop (a.ndim - axesA.length) with hnewA
  set newB := List.range axesA.length with hnewB
  have hnewAlt : ∀ i ∈ newA, i < a4.ndim := by
    intro i hi
    have := List.mem_range.mp (List.mem_of_mem_drop hi)
    show i < a3.ndim
    omega
  have hnewBlt : ∀ i ∈ newB, i < b4.ndim := by
    intro i hi
    have := List.mem_range.mp hi
    show i < b3.ndim
    omega
  have hnewAnd : newA.Nodup := List.Nodup.sublist (List.drop_sublist _ _) List.nodup_range
  have hnewBnd : newB.Nodup := List.nodup_range
  have hnewlen : newA.length = newB.length := by
    simp only [hnewA, hnewB, List.length_drop, List.length_range]; omega
  -- directions of the contracted indices after the transposes
  have hd4 : (permuted b4.indices newB).map Index.dual
      = (permuted a4.indices newA).map (fun ix => !ix.dual) := by
    have e1 : permuted a4.indices newA = permuted a.indices axesA := by
      rw [ia4, ia, permuted_append]
      have hl : (permuted a.indices (without (List.range a.ndim) axesA)
          ++ permuted a.indices axesA).length = a.ndim := by
        rw [List.length_append, hplA, permuted_length hA]; omega
      have := permuted_range_drop (permuted a.indices (without (List.range a.ndim) axesA)
          ++ permuted a.indices axesA) (a.ndim - axesA.length)
      rw [hl] at this
      rw [hnewA, this, List.drop_left' hplA]
    have e2 : permuted b4.indices newB = permuted b.indices axesB := by
      rw [ib4, ib, permuted_append, hnewB, permuted_range_take, List.take_left' hplB]
    rw [e1, e2]; exact hd
  -- run the abelian kernel
  simp only [bind, Except.bind] at h
  split at h
  · cases h
  · rename_i c hcres
    obtain ⟨hcore, hcsym', hcf', hcch', hcph', _⟩ := hspec a4 b4 c newA newB va4.core vb4.core
      (by show a3.sym = b3.sym; rw [sa, sb]; exact hsym) hd4 hnewlen hnewAnd hnewBnd hnewAlt hnewBlt
      hcres
    have hcf : c.fermi = true := by rw [hcf']; exact fa
    have hcph : c.phases = [] := by rw [hcph']; rfl
    have hcch : c.charge = a.sym.combine [a.charge, b.charge] := by
      rw [hcch']
      show a3.sym.combine [a3.charge, b3.charge] = _
      rw [sa, ca, cb]
    have hcsym : c.sym = a.sym := by rw [hcsym']; exact sa
    apply resolveCombinedOddpos_valid a4 b4 c r hcore hcf (by rw [hcph]; exact phasesOk_nil) _ h
    -- parity bookkeeping
    have hsa := ha.sgn
    have hsb := hb.sgn
    unfold SignsOk at hsa hsb
    simp only [hfa, hfb, if_true] at hsa hsb
    show c.sym.parity c.charge = xor (a3.oddpos.length % 2 == 1) (b3.oddpos.length % 2 == 1)
    rw [hcsym, hcch, parity_combine_pair', oa, ob, hsa.2, hsb.2, hsym]

theorem tensordotF_blockwise_valid [Zero R] [Add R] [Mul R] [Neg R] (a b r : Arr R)
    (axesA axesB : List Nat) (ha : Valid a) (hb : Valid b)
    (hfa : a.fermi = true) (hfb : b.fermi = true)
    (hadm : tdotAdmissibleB a b axesA axesB = true)
    (h : Arr.tensordotF a b (.pair (axesA.map Int.ofNat) (axesB.map Int.ofNat)) .blockwise = .ok r) :
    Valid r :=
  tensordotF_valid_of_spec .blockwise tdotASpec_blockwise a b r axesA axesB ha hb hfa hfb hadm h

end ValidP
end SymmModel
