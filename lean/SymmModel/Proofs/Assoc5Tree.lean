/-
  SymmModel.Proofs.Assoc5Tree — bracketings of a chain in which ANY subset of nodes has its operands
  exchanged (each swapped contraction followed by the transposition that rotates the two free blocks
  back, Koszul sign included): the result is equivalent to the unswapped bracketing.
  Namespace `SymmModel.Assoc5P`.
-/
import SymmModel.Proofs.Assoc5Swap

namespace SymmModel
namespace Assoc5P
open TdotP GradedP RoutesP KoszulP OddposP AssocP Assoc3P Assoc4P
set_option linter.unusedSectionVars false

variable {R : Type}

/-- a bracketing with a flag at every node: `true` = pass the operands in the other order -/
inductive FTree (R : Type) where
  | leaf (S : Seg R) : FTree R
  | node (sw : Bool) (a b : FTree R) : FTree R

/-- forget the flags -/
def FTree.strip : FTree R → STree R
  | .leaf S => .leaf S
  | .node _ a b => .node a.strip b.strip

/-- the swapped composition: `S2.arr · S1.arr` on the same bond, then rotate the free legs of `S1`
    back in front (`transposeF`, which multiplies by the Koszul sign of the rotation) -/
def compS [Zero R] [Add R] [Mul R] [Neg R] (S1 S2 : Seg R) : Except Err (Seg R) :=
  (tdF S2.arr S1.arr S2.l S1.r).map (fun z =>
    ⟨z.transposeF (rotB (freeAxes S2.arr.ndim S2.l).length (freeAxes S1.arr.ndim S1.r).length),
      positions (freeAxes S1.arr.ndim S1.r) S1.l,
      AssocP.axesAB S1.arr.ndim S2.arr.ndim S1.r S2.l S2.r⟩)

def FTree.eval [Zero R] [Add R] [Mul R] [Neg R] : FTree R → Except Err (Seg R)
  | .leaf S => .ok S
  | .node sw a b =>
    match a.eval, b.eval with
    | .ok s1, .ok s2 => if sw then compS s1 s2 else s1.comp s2
    | .error e, _ => .error e
    | .ok _, .error e => .error e

section
variable [AddCommMonoid R] [Mul R] [Neg R] [SignRing R] [AssocLaws R]

/-- **any subset of nodes swapped**: the evaluation succeeds, is valid and `SegEqv` to the
    evaluation of the unswapped bracketing -/
theorem ftree_eqv (hmul : ∀ x y : R, x * y = y * x) (t : FTree R) (hok : t.strip.OK)
    (hd : OddposP.LabelsDistinct t.strip.labels) :
    ∃ X T, t.eval = .ok X ∧ t.strip.eval = .ok T ∧ SegEqv X T ∧ X.arr.validB = true
      ∧ Good t.strip.first t.strip.last t.strip.labels T := by
  induction t with
  | leaf S => exact ⟨S, S, rfl, rfl, SegEqv.refl S, hok.valid, Good.leaf hok⟩
  | node sw a b iha ihb =>
    obtain ⟨oa, ob, lk⟩ := hok
    have hda : OddposP.LabelsDistinct a.strip.labels :=
      dist_of hd _ (List.Perm.refl _) (List.sublist_append_left _ _)
    have hdb : OddposP.LabelsDistinct b.strip.labels :=
      dist_of hd _ (List.Perm.refl _) (List.sublist_append_right _ _)
    obtain ⟨Xa, Ta, ea, eTa, hEa, vXa, ga⟩ := iha oa hda
    obtain ⟨Xb, Tb, eb, eTb, hEb, vXb, gb⟩ := ihb ob hdb
    obtain ⟨T, eT, gT⟩ := comp_good ga gb lk hd
    have eStrip : (STree.node a.strip b.strip).eval = .ok T := by
      show (match a.strip.eval, b.strip.eval with
        | .ok s1, .ok s2 => s1.comp s2
        | .error e, _ => .error e
        | .ok _, .error e => .error e) = _
      rw [eTa, eTb]; exact eT
    obtain ⟨X', eX', hTX'⟩ := comp_congr ga gb lk hEa.symm hEb.symm vXa vXb eT
    -- the unswapped call on the (possibly swapped) children
    have W := admW_of_good ga gb lk
    have WX : AdmW Xa.arr Xb.arr Xa.r Xb.l := by
      have := admW_congr W hEa.symm.1 hEb.symm.1 vXa vXb
      rw [hEa.symm.2.2, hEb.symm.2.1] at this
      exact this
    have hdX : OddposP.LabelsDistinct (Xa.arr.oddpos ++ Xb.arr.oddpos) := by
      rw [hEa.1.oddpos, hEb.1.oddpos]
      exact OddposP.LabelsDistinct.perm hd (ga.perm.symm.append gb.perm.symm)
    obtain ⟨Z, _, eZ, IZ, _⟩ := call_pack Xa.arr Xb.arr Xa.r Xb.l WX hdX
    have hZ : tdF Xa.arr Xb.arr Xa.r Xb.l = .ok Z := eZ
    have hX'arr : X' = ⟨Z, positions (freeAxes Xa.arr.ndim Xa.r) Xa.l,
        AssocP.axesAB Xa.arr.ndim Xb.arr.ndim Xa.r Xb.l Xb.r⟩ := by
      unfold Seg.comp at eX'
      rw [hZ] at eX'
      simp only [Except.map, Except.ok.injEq] at eX'
      exact eX'.symm
    cases sw with
    | false =>
      refine ⟨X', T, ?_, eStrip, hTX'.symm, by rw [hX'arr]; exact IZ.valid, gT⟩
      show (match a.eval, b.eval with
        | .ok s1, .ok s2 => if false = true then compS s1 s2 else s1.comp s2
        | .error e, _ => .error e
        | .ok _, .error e => .error e) = _
      rw [ea, eb]
      exact eX'
    | true =>
      obtain ⟨c', ec', _, hv, hE⟩ := swap_eqv hmul WX hdX Z hZ
      refine ⟨⟨c'.transposeF (rotB (freeAxes Xb.arr.ndim Xb.l).length (freeAxes Xa.arr.ndim Xa.r).length),
          positions (freeAxes Xa.arr.ndim Xa.r) Xa.l,
          AssocP.axesAB Xa.arr.ndim Xb.arr.ndim Xa.r Xb.l Xb.r⟩, T, ?_, eStrip, ?_, hv, gT⟩
      · show (match a.eval, b.eval with
          | .ok s1, .ok s2 => if true = true then compS s1 s2 else s1.comp s2
          | .error e, _ => .error e
          | .ok _, .error e => .error e) = _
        rw [ea, eb]
        show compS Xa Xb = _
        unfold compS
        rw [ec']
        rfl
      · have : SegEqv ⟨c'.transposeF (rotB (freeAxes Xb.arr.ndim Xb.l).length
            (freeAxes Xa.arr.ndim Xa.r).length), positions (freeAxes Xa.arr.ndim Xa.r) Xa.l,
            AssocP.axesAB Xa.arr.ndim Xb.arr.ndim Xa.r Xb.l Xb.r⟩ X' := by
          rw [hX'arr]; exact ⟨hE, rfl, rfl⟩
        exact this.trans hTX'.symm

end

end Assoc5P
end SymmModel
