/-
  SymmModel.Proofs.FuseCommuteH2 — fusing ONE group `g` of FREE legs of the LEFT operand (any
  position, any order, no preliminary transposition) commutes with the contraction (abelian, operands
  not aligned): the contraction of `fuse(a, [g])` with `b` over the renumbered axes
  `xa.map (shiftAxes a g)`, at the address read off a full address `(ML', MO')` of the fused operand,
  is the plain contraction at the address read off the full address `(ML, MO)` of `a` that
  `(ML', MO')` decodes to.  Namespace `SymmModel.TdotP`.
-/
import SymmModel.Proofs.FuseCommuteH1

namespace SymmModel
namespace TdotP
variable {R : Type}

theorem group_commute [AddCommMonoid R] [Mul R] [Neg R]
    (hz1 : ∀ x : R, 0 * x = 0) (hz2 : ∀ x : R, x * 0 = 0) (a b : Arr R) (xa xb g : List Nat)
    (ha : a.validB = true) (hb : b.validB = true) (hfa : a.fermi = false) (hpb : b.phases = [])
    (h : OneOk a g) (hdisj : ∀ x ∈ xa, x ∉ g)
    (hnA : xa.Nodup) (hnB : xb.Nodup) (hA : ∀ x ∈ xa, x < a.ndim) (hB : ∀ x ∈ xb, x < b.ndim)
    (hlen : xa.length = xb.length)
    {ML' ML : Sector} {MO' MO shp' shpA : List Nat}
    (hshp' : Arr.blockShape? (FuseP.fusedArrM a [g]).indices ML' = some shp') (hbox' : inBox shp' MO' = true)
    (hshpA : Arr.blockShape? a.indices ML = some shpA) (hboxA : inBox shpA MO = true)
    (hdec : decAx a [g] 0 (ML'.getD (bondPos a g) (0, 0)) (MO'.getD (bondPos a g) 0)
      = some (permuted ML g, permuted MO g))
    (hfS : permuted ML' (freeAxes (FuseP.fusedArrM a [g]).ndim [bondPos a g]) = permuted ML (freeAxes a.ndim g))
    (hfO : permuted MO' (freeAxes (FuseP.fusedArrM a [g]).ndim [bondPos a g]) = permuted MO (freeAxes a.ndim g))
    {Rs : Sector} {oR shpR : List Nat}
    (hR : Arr.blockShape? (permuted b.indices (freeAxes b.ndim xb)) Rs = some shpR)
    (hbR : inBox shpR oR = true) :
    (tensordotBlockwise (FuseP.fusedArrM a [g]) b
        (freeAxes (FuseP.fusedArrM a [g]).ndim (xa.map (shiftAxes a g))) (xa.map (shiftAxes a g)) xb
        (freeAxes b.ndim xb)).elem
        (permuted ML' (freeAxes (FuseP.fusedArrM a [g]).ndim (xa.map (shiftAxes a g))) ++ Rs)
        (permuted MO' (freeAxes (FuseP.fusedArrM a [g]).ndim (xa.map (shiftAxes a g))) ++ oR)
      = (tensordotBlockwise a b (freeAxes a.ndim xa) xa xb (freeAxes b.ndim xb)).elem
        (permuted ML (freeAxes a.ndim xa) ++ Rs) (permuted MO (freeAxes a.ndim xa) ++ oR) := by
  have hva := FuseP.validArr_of_validB ha
  have hpa : a.phases = [] := phases_nil_of_validB ha hfa
  have hok := h.groupsOk
  have hvF := one_validB ha hfa h
  have nF := one_ndim (R := R) h
  have ean : a.indices.length = a.ndim := rfl
  have ebn : b.indices.length = b.ndim := rfl
  have eFn : (FuseP.fusedArrM a [g]).indices.length = FuseP.ndimM a [g] := nF
  have hsa := Arr.shapesOk_of_validB ha
  have hsb := Arr.shapesOk_of_validB hb
  have hsF := Arr.shapesOk_of_validB hvF
  have hpF : (FuseP.fusedArrM a [g]).phases = [] := hpa
  rw [nF] at hfS hfO
  unfold bondPos at hdec hfS hfO
  have hMLl' : ML'.length = FuseP.ndimM a [g] := (blockShape?_length hshp').1.trans eFn
  have hMOl' : MO'.length = FuseP.ndimM a [g] := by
    rw [inBox_length hbox', (blockShape?_length hshp').2]; exact eFn
  have hMLl : ML.length = a.ndim := (blockShape?_length hshpA).1
  have hMOl : MO.length = a.ndim := by rw [inBox_length hboxA, (blockShape?_length hshpA).2]; exact ean
  have hshpl' : shp'.length = FuseP.ndimM a [g] := by rw [(blockShape?_length hshp').2]; exact eFn
  have hshpAl : shpA.length = a.ndim := (blockShape?_length hshpA).2
  -- the shifted contracted axes
  have hxaF : ∀ x ∈ xa, x < a.ndim ∧ x ∉ g := fun x hx => ⟨hA x hx, hdisj x hx⟩
  have hnA' : (xa.map (shiftAxes a g)).Nodup :=
    hnA.map_on (fun x hx y hy e => shiftAxes_inj h (hxaF x hx) (hxaF y hy) e)
  have hA' : ∀ x ∈ xa.map (shiftAxes a g), x < (FuseP.fusedArrM a [g]).ndim := by
    intro y hy; obtain ⟨x, hx, rfl⟩ := List.mem_map.mp hy; rw [nF]; exact shiftAxes_lt h (hxaF x hx)
  have hlen' : (xa.map (shiftAxes a g)).length = xb.length := by rw [List.length_map]; exact hlen
  have hKidx : permuted (FuseP.fusedArrM a [g]).indices (xa.map (shiftAxes a g)) = permuted a.indices xa :=
    permuted_shift h default eFn ean (one_free_indices h) xa hxaF
  -- free parts
  have hFAlt : ∀ x ∈ freeAxes a.ndim xa, x < a.ndim := fun x hx => (mem_freeAxes.mp hx).1
  have hFAlt' : ∀ x ∈ freeAxes (FuseP.fusedArrM a [g]).ndim (xa.map (shiftAxes a g)),
      x < (FuseP.fusedArrM a [g]).ndim := fun x hx => (mem_freeAxes.mp hx).1
  have hLshape : Arr.blockShape? (permuted a.indices (freeAxes a.ndim xa)) (permuted ML (freeAxes a.ndim xa))
      = some (permuted shpA (freeAxes a.ndim xa)) := blockShape?_permuted hshpA _ hFAlt
  have hLfshape : Arr.blockShape? (permuted (FuseP.fusedArrM a [g]).indices
        (freeAxes (FuseP.fusedArrM a [g]).ndim (xa.map (shiftAxes a g))))
      (permuted ML' (freeAxes (FuseP.fusedArrM a [g]).ndim (xa.map (shiftAxes a g))))
      = some (permuted shp' (freeAxes (FuseP.fusedArrM a [g]).ndim (xa.map (shiftAxes a g)))) :=
    blockShape?_permuted hshp' _ hFAlt'
  have hboxL : inBox (permuted shpA (freeAxes a.ndim xa)) (permuted MO (freeAxes a.ndim xa)) = true :=
    inBox_permuted hboxA _ (by intro q hq; rw [hshpAl]; exact hFAlt q hq)
  have hboxLf : inBox (permuted shp' (freeAxes (FuseP.fusedArrM a [g]).ndim (xa.map (shiftAxes a g))))
      (permuted MO' (freeAxes (FuseP.fusedArrM a [g]).ndim (xa.map (shiftAxes a g)))) = true :=
    inBox_permuted hbox' _ (by intro q hq; rw [hshpl', ← nF]; exact hFAlt' q hq)
  have hLl : (permuted ML (freeAxes a.ndim xa)).length = (freeAxes a.ndim xa).length :=
    permuted_length _ _ (by intro x hx; rw [hMLl]; exact hFAlt x hx)
  have hoLl : (permuted MO (freeAxes a.ndim xa)).length = (freeAxes a.ndim xa).length :=
    permuted_length _ _ (by intro x hx; rw [hMOl]; exact hFAlt x hx)
  have hLfl : (permuted ML' (freeAxes (FuseP.fusedArrM a [g]).ndim (xa.map (shiftAxes a g)))).length
      = (freeAxes (FuseP.fusedArrM a [g]).ndim (xa.map (shiftAxes a g))).length :=
    permuted_length _ _ (by intro x hx; rw [hMLl', ← nF]; exact hFAlt' x hx)
  have hoLfl : (permuted MO' (freeAxes (FuseP.fusedArrM a [g]).ndim (xa.map (shiftAxes a g)))).length
      = (freeAxes (FuseP.fusedArrM a [g]).ndim (xa.map (shiftAxes a g))).length :=
    permuted_length _ _ (by intro x hx; rw [hMOl', ← nF]; exact hFAlt' x hx)
  have hRl : Rs.length = (freeAxes b.ndim xb).length := by
    rw [(blockShape?_length hR).1, permuted_length _ _ (by simpa [ebn] using mem_freeAxes_lt)]
  -- the common list of contracted sub-sectors
  let Ks : List Sector := (a.sectors.map (fun s => permuted s xa)).eraseDups
  have hKn : Ks.Nodup := nodup_eraseDups _
  have hKl : ∀ K ∈ Ks, K.length = xa.length := by
    intro K hK
    obtain ⟨s, hs, rfl⟩ := List.mem_map.mp (List.mem_eraseDups.mp hK)
    exact permuted_length _ _ (by rw [Arr.sector_length hsa hs]; exact hA)
  have hKc : ∀ sa ∈ a.sectors, permuted sa xa ∈ Ks := fun sa hs =>
    List.mem_eraseDups.mpr (List.mem_map.mpr ⟨sa, hs, rfl⟩)
  have hKcF : ∀ sF ∈ (FuseP.fusedArrM a [g]).sectors, permuted sF (xa.map (shiftAxes a g)) ∈ Ks := by
    intro sF hsF'
    obtain ⟨p, hp, rfl⟩ := List.mem_map.mp hsF'
    have hl : alookup (FuseP.fusedBlocksM a [g]) p.1 = some p.2 :=
      alookup_of_mem (Arr.allDistinct_of_validB hvF) hp
    obtain ⟨sb0, hsb0, hns0, _⟩ := FuseP.fusedBlockM_info hva hok hl
    have hsl0 : sb0.1.length = a.ndim := (hva.blk sb0 hsb0).1
    rw [← hns0, permuted_shift h ((0, 0) : Charge) (FuseP.planM_newSector_length hok sb0) hsl0
      (one_newSector_free h sb0 hsl0) xa hxaF]
    exact hKc _ (List.mem_map.mpr ⟨sb0, hsb0, rfl⟩)
  -- boxes
  have hboxA' : inBox (Arr.blockShapeD (without a.indices xa ++ without b.indices xb)
      (permuted ML (freeAxes a.ndim xa) ++ Rs)) (permuted MO (freeAxes a.ndim xa) ++ oR) = true := by
    rw [without_eq_permuted_freeAxes, without_eq_permuted_freeAxes, Arr.blockShapeD, ean, ebn,
      blockShape?_append hLshape hR]
    simp only [Option.getD_some]
    rw [inBox_append (inBox_length hboxL), hboxL, hbR]; rfl
  have hboxF : inBox (Arr.blockShapeD (without (FuseP.fusedArrM a [g]).indices (xa.map (shiftAxes a g))
      ++ without b.indices xb)
      (permuted ML' (freeAxes (FuseP.fusedArrM a [g]).ndim (xa.map (shiftAxes a g))) ++ Rs))
      (permuted MO' (freeAxes (FuseP.fusedArrM a [g]).ndim (xa.map (shiftAxes a g))) ++ oR) = true := by
    have eF : (FuseP.fusedArrM a [g]).indices.length = (FuseP.fusedArrM a [g]).ndim := rfl
    rw [without_eq_permuted_freeAxes, without_eq_permuted_freeAxes, Arr.blockShapeD, ebn, eF,
      blockShape?_append hLfshape hR]
    simp only [Option.getD_some]
    rw [inBox_append (inBox_length hboxLf), hboxLf, hbR]; rfl
  rw [tensordotBlockwise_elem_dense' hz1 hz2 (FuseP.fusedArrM a [g]) b (xa.map (shiftAxes a g)) xb hpF hpb
      (Arr.allDistinct_of_validB hvF) (Arr.allDistinct_of_validB hb) hsF hsb hnA' hA' hnB hB hlen' Ks hKn
      (fun K hK => by rw [List.length_map]; exact hKl K hK) hKcF _ Rs hLfl hRl _ hboxF,
    tensordotBlockwise_elem_dense' hz1 hz2 a b xa xb hpa hpb (Arr.allDistinct_of_validB ha)
      (Arr.allDistinct_of_validB hb) hsa hsb hnA hA hnB hB hlen Ks hKn hKl hKc _ Rs hLl hRl _ hboxA']
  have etF : (permuted MO' (freeAxes (FuseP.fusedArrM a [g]).ndim (xa.map (shiftAxes a g))) ++ oR).take
      (freeAxes (FuseP.fusedArrM a [g]).ndim (xa.map (shiftAxes a g))).length
      = permuted MO' (freeAxes (FuseP.fusedArrM a [g]).ndim (xa.map (shiftAxes a g))) := List.take_left' hoLfl
  have edF : (permuted MO' (freeAxes (FuseP.fusedArrM a [g]).ndim (xa.map (shiftAxes a g))) ++ oR).drop
      (freeAxes (FuseP.fusedArrM a [g]).ndim (xa.map (shiftAxes a g))).length = oR := List.drop_left' hoLfl
  have etA : (permuted MO (freeAxes a.ndim xa) ++ oR).take (freeAxes a.ndim xa).length
      = permuted MO (freeAxes a.ndim xa) := List.take_left' hoLl
  have edA : (permuted MO (freeAxes a.ndim xa) ++ oR).drop (freeAxes a.ndim xa).length = oR :=
    List.drop_left' hoLl
  rw [etF, edF, etA, edA]
  apply sum_map_congr
  intro K hK
  obtain ⟨sa, hsa', rfl⟩ := List.mem_map.mp (List.mem_eraseDups.mp hK)
  obtain ⟨shpS, hA1, _, hA3, hA4⟩ := GradedP.shape_of_mem hsa hsa'
  have hKshape : Arr.blockShape? (permuted a.indices xa) (permuted sa xa) = some (permuted shpS xa) :=
    blockShape?_permuted hA1 xa (by simpa [ean] using hA)
  have hKlen := hKl _ hK
  simp only [contractPair]
  rw [contracted_box (A := FuseP.fusedArrM a [g]) hnA' hA' (by rw [hKidx]; exact hKshape) hLfshape,
    contracted_box (A := a) hnA hA hKshape hLshape]
  apply sum_map_congr
  intro kk hkk
  have hkbox : inBox (permuted shpS xa) kk = true := mem_allIdx_iff.mp hkk
  have hkkl : kk.length = xa.length := by
    rw [inBox_length hkbox, permuted_length _ _ (by intro x hx; rw [hA3]; exact hA x hx)]
  obtain ⟨shpM, hshpM, hboxM⟩ := merge_box (Y := FuseP.fusedArrM a [g]) hnA' hA'
    (show Arr.blockShape? (permuted (FuseP.fusedArrM a [g]).indices (xa.map (shiftAxes a g))) (permuted sa xa)
      = some (permuted shpS xa) by rw [hKidx]; exact hKshape) hLfshape hkbox hboxLf
  obtain ⟨s1, s2, s3⟩ := merged_free ((0, 0) : Charge) h hdisj hnA hA hKlen hMLl' hMLl hfS
  obtain ⟨o1, o2, o3⟩ := merged_free (0 : Nat) h hdisj hnA hA hkkl hMOl' hMOl hfO
  unfold contractTerm
  congr 1
  rw [nF] at hshpM hboxM ⊢
  refine one_elem hva hpa h (show Arr.blockShape? (FuseP.newIdxM a [g]) _ = some shpM from hshpM) hboxM
    (mergeSec_length _ _ _ _) (mergeIdx_length _ _ _ _ _ _) ?_ s1 o1
  show decAx a [g] 0 ((mergeIdx ((0, 0) : Charge) _ _ _ _ _).getD _ (0, 0)) _ = some (permuted (mergeIdx ((0, 0) : Charge) _ _ _ _ _) g, _)
  rw [s2, o2, s3, o3]
  exact hdec

end TdotP
end SymmModel
