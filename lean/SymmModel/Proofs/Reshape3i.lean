/-
  SymmModel.Proofs.Reshape3i — C07 for fermionic (and abelian) arrays: a certified reshape plan,
  executed with the dispatching `unfuse` / `fuse` / `expand_dims`, keeps the content up to signs,
  returns a valid array with the requested number of axes.
-/
import SymmModel.Proofs.Reshape3h

namespace SymmModel
namespace ReshapeP
open C07

variable {R : Type}

theorem unfuseDispatch_abs [Zero R] [Neg R] {st st' : SymShape} {x x' : Arr R} {ax : Nat}
    (hs : ValidP.Sim st x) (hv : ValidP.Valid x) (hu : symUnfuse st ax = some st')
    (h : unfuseDispatch x ax = .ok x') :
    ValidP.Sim st' x' ∧ ValidP.Valid x' ∧ SameAbs x x' := by
  refine ⟨(ValidP.unfuseDispatch_sim hs hu h).1, ValidP.unfuseDispatch_valid x x' ax hv h, ?_⟩
  have hvb := (ValidP.validB_iff x).2 hv
  unfold unfuseDispatch at h
  split at h
  · exact unfuseF_sameAbs x x' ax hvb h
  · exact (unfuseA_sameContent x x' ax hvb h).abs

theorem fuseDispatch_abs [Zero R] [Neg R] {st st' : SymShape} {x x' : Arr R} {groups : List (List Nat)}
    (hs : ValidP.Sim st x) (hv : ValidP.Valid x) (hu : symFuse st groups = some st')
    (h : fuseDispatch x groups = .ok x') :
    ValidP.Sim st' x' ∧ ValidP.Valid x' ∧ SameAbs x x' := by
  have hadm := ValidP.fuseAdmissible_of_symFuse hu hs.ndim_eq
  refine ⟨(ValidP.fuseDispatch_sim hs hu h).1, ValidP.fuseDispatch_valid x x' groups hv hadm h, ?_⟩
  have hvb := (ValidP.validB_iff x).2 hv
  obtain ⟨p, hflat, hlenpos, hne, hle, _⟩ := symFuse_spec hu
  have hle' : p + groups.flatten.length ≤ x.ndim := by rw [← hs.ndim_eq]; exact hle
  have hok : FuseP.GroupsOk groups x.ndim := by
    refine ⟨?_, hne, ?_, ?_⟩
    · intro hg; rw [hg] at hlenpos; simp at hlenpos
    · intro ax hax
      rw [hflat, List.mem_range'_1] at hax; omega
    · rw [hflat]; exact List.nodup_range'
  have hokB : FuseP.groupsOkB groups x.ndim = true := FuseP.groupsOk_iff.2 hok
  unfold fuseDispatch at h
  split at h
  · rename_i hf; exact fuseF_sameAbs x x' groups true hvb hf hokB h
  · rename_i hf
    exact (fuseA_sameContent x x' groups true hvb (by simpa using hf) hokB h).abs

theorem expandDispatch_abs [Zero R] [Neg R] {st st' : SymShape} {x x' : Arr R} {ax : Nat}
    (hs : ValidP.Sim st x) (hv : ValidP.Valid x) (hu : symExpand st ax = some st')
    (h : expandDispatch x ax = .ok x') :
    ValidP.Sim st' x' ∧ ValidP.Valid x' ∧ SameAbs x x' := by
  refine ⟨(ValidP.expandDispatch_sim hs hu h).1, ValidP.expandDispatch_valid x x' ax hv h, ?_⟩
  unfold expandDispatch at h
  split at h
  · cases h
  · simp only [pure, Except.pure, Except.ok.injEq] at h
    subst h
    have hva := FuseP.validArr_of_validB ((ValidP.validB_iff x).2 hv)
    exact (expandDims_sameContent x ax none none hva.nodup).abs

theorem steps_abs [Zero R] [Neg R] {α : Type} (fs : SymShape → α → Option SymShape)
    (f : Arr R → α → Except Err (Arr R))
    (hstep : ∀ (st st' : SymShape) (x x' : Arr R) (e : α), ValidP.Sim st x → ValidP.Valid x →
      fs st e = some st' → f x e = .ok x' → ValidP.Sim st' x' ∧ ValidP.Valid x' ∧ SameAbs x x') :
    ∀ (l : List α) (st s1 : SymShape) (x x1 : Arr R), ValidP.Sim st x → ValidP.Valid x →
      foldOpt fs l st = some s1 → l.foldlM f x = .ok x1 →
      ValidP.Sim s1 x1 ∧ ValidP.Valid x1 ∧ SameAbs x x1 := by
  intro l
  induction l with
  | nil =>
    intro st s1 x x1 hs hv h1 h2
    simp only [foldOpt, Option.some.injEq] at h1
    simp only [List.foldlM_nil, pure, Except.pure, Except.ok.injEq] at h2
    subst h1; subst h2
    exact ⟨hs, hv, SameAbs.refl _⟩
  | cons a as ih =>
    intro st s1 x x1 hs hv h1 h2
    unfold foldOpt at h1
    split at h1
    · rename_i st' hst'
      rw [List.foldlM_cons] at h2
      obtain ⟨x', hx', h2⟩ := ValidP.bind_ok h2
      obtain ⟨q1, q2, q3⟩ := hstep st st' x x' a hs hv hst' hx'
      obtain ⟨r1, r2, r3⟩ := ih st' s1 x' x1 q1 q2 h1 h2
      exact ⟨r1, r2, q3.trans r3⟩
    · cases h1

/-- **a certified plan on any valid array, abelian or fermionic**: content up to signs, validity,
    number of axes, kind of array -/
theorem applyPlan_abs [Zero R] [Neg R] (a r : Arr R)
    (t : List Nat × List (List (List Nat)) × List Nat) (ns : List Nat) (hv : a.validB = true)
    (hwf : (Plan.ofTriple t).wfB a.shape a.subsizes ns = true) (h : applyPlan a t = .ok r) :
    SameAbs a r ∧ r.validB = true ∧ r.ndim = ns.length ∧ r.fermi = a.fermi := by
  obtain ⟨st', _, _, hsz, hfe⟩ := ValidP.applyPlan_sim_of_certificate a r t ns hwf h
  refine ⟨?_, ?_, ValidP.applyPlan_ndim_of_certificate a r t ns hwf h, hfe⟩
  all_goals
    obtain ⟨_, st3, hr, _⟩ := wfB_iff.mp hwf
    unfold Plan.exec at hr
    split at hr
    · cases hr
    · rename_i s1 h1
      split at hr
      · cases hr
      · rename_i s2 h2
        unfold applyPlan at h
        obtain ⟨x1, hx1, h⟩ := ValidP.bind_ok h
        obtain ⟨x2, hx2, h⟩ := ValidP.bind_ok h
        obtain ⟨q1, v1, c1⟩ := steps_abs symUnfuse unfuseDispatch
          (fun st st' x x' ax hs hv hu h => unfuseDispatch_abs hs hv hu h) t.1 _ s1 a x1
          (ValidP.sim_init a) ((ValidP.validB_iff a).1 hv) h1 hx1
        obtain ⟨q2, v2, c2⟩ := steps_abs symFuse fuseDispatch
          (fun st st' x x' g hs hv hu h => fuseDispatch_abs hs hv hu h) t.2.1 s1 s2 x1 x2 q1 v1 h2 hx2
        obtain ⟨q3, v3, c3⟩ := steps_abs symExpand expandDispatch
          (fun st st' x x' ax hs hv hu h => expandDispatch_abs hs hv hu h) t.2.2 s2 st3 x2 r q2 v2 hr h
        first | exact (c1.trans c2).trans c3 | exact (ValidP.validB_iff r).2 v3

end ReshapeP
end SymmModel
