/-
  SymmModel.Proofs.Net4M2 — the five bracketings of a four-tensor network (K4 bonds) with each of the
  three calls in ITS OWN contraction mode (`routeM1 … routeM5`): every route succeeds and its result
  is a zero-padded copy (`PadA`) of the blockwise result of the same route.
  Namespace `SymmModel.Net4P`.
-/
import SymmModel.Proofs.Net4M1
import SymmModel.Proofs.Net4Moves

namespace SymmModel
namespace Net4P
open TdotP GradedP RoutesP KoszulP AssocP Assoc2P Assoc3P Assoc5P
set_option linter.unusedSectionVars false

variable {R : Type}

section routes
variable [Zero R] [Add R] [Mul R] [Neg R]
variable (A B C D : Arr R) (ab ac ad ba bc bd ca cb cd da db dc : List Nat)

/-- `((A·B)·C)·D`, call `i` in mode `mi` -/
def routeM1 (m1 m2 m3 : TdotMode) : Except Err (Arr R) :=
  (tdM m1 A B ab ba).bind fun AB =>
  (tdM m2 AB C (Assoc2P.axesAB A.ndim B.ndim ab ac ba bc) (ca ++ cb)).bind fun ABC =>
  tdM m3 ABC D (axesABC_D A B C ab ac ad ba bc bd ca cb cd) ((da ++ db) ++ dc)

/-- `(A·(B·C))·D` -/
def routeM2 (m1 m2 m3 : TdotMode) : Except Err (Arr R) :=
  (tdM m1 B C bc cb).bind fun BC =>
  (tdM m2 A BC (ab ++ ac) (Assoc2P.axesBC B.ndim C.ndim ba bc cb ca)).bind fun ABC =>
  tdM m3 ABC D (axesABC_D A B C ab ac ad ba bc bd ca cb cd) ((da ++ db) ++ dc)

/-- `(A·B)·(C·D)` -/
def routeM3 (m1 m2 m3 : TdotMode) : Except Err (Arr R) :=
  (tdM m1 A B ab ba).bind fun AB =>
  (tdM m2 C D cd dc).bind fun CD =>
  tdM m3 AB CD
    (Assoc2P.axesAB A.ndim B.ndim ab ac ba bc ++ Assoc2P.axesAB A.ndim B.ndim ab ad ba bd)
    (Assoc2P.axesBC C.ndim D.ndim (ca ++ cb) cd dc (da ++ db))

/-- `A·((B·C)·D)` -/
def routeM4 (m1 m2 m3 : TdotMode) : Except Err (Arr R) :=
  (tdM m1 B C bc cb).bind fun BC =>
  (tdM m2 BC D (Assoc2P.axesAB B.ndim C.ndim bc bd cb cd) (db ++ dc)).bind fun BCD =>
  tdM m3 A BCD (ab ++ (ac ++ ad)) (axesBCD_A B C D ba bc bd ca cb cd da db dc)

/-- `A·(B·(C·D))` -/
def routeM5 (m1 m2 m3 : TdotMode) : Except Err (Arr R) :=
  (tdM m1 C D cd dc).bind fun CD =>
  (tdM m2 B CD (bc ++ bd) (Assoc2P.axesBC C.ndim D.ndim cb cd dc db)).bind fun BCD =>
  tdM m3 A BCD (ab ++ (ac ++ ad)) (axesBCD_A B C D ba bc bd ca cb cd da db dc)

/-- in blockwise mode these are the routes of `Net4Flag` -/
theorem routeM_blockwise :
    routeM1 A B C D ab ac ad ba bc bd ca cb cd da db dc .blockwise .blockwise .blockwise
      = routeS1 A B C D ab ac ad ba bc bd ca cb cd da db dc false false false
    ∧ routeM2 A B C D ab ac ad ba bc bd ca cb cd da db dc .blockwise .blockwise .blockwise
      = routeS2 A B C D ab ac ad ba bc bd ca cb cd da db dc false false false
    ∧ routeM3 A B C D ab ac ad ba bc bd ca cb cd da db dc .blockwise .blockwise .blockwise
      = routeS3 A B C D ab ac ad ba bc bd ca cb cd da db dc false false false
    ∧ routeM4 A B C D ab ac ad ba bc bd ca cb cd da db dc .blockwise .blockwise .blockwise
      = routeS4 A B C D ab ac ad ba bc bd ca cb cd da db dc false false false
    ∧ routeM5 A B C D ab ac ad ba bc bd ca cb cd da db dc .blockwise .blockwise .blockwise
      = routeS5 A B C D ab ac ad ba bc bd ca cb cd da db dc false false false :=
  ⟨rfl, rfl, rfl, rfl, rfl⟩

end routes

section
variable [AddCommMonoid R] [Mul R] [Neg R] [SignRing R] [AssocLaws R]
variable {A B C D : Arr R} {ab ac ad ba bc bd ca cb cd da db dc : List Nat}

/-- route 1, `((A·B)·C)·D` -/
theorem routeM1_pad (hz1 : ∀ x : R, 0 * x = 0) (hz2 : ∀ x : R, x * 0 = 0)
    (H : K4H A B C D ab ac ad ba bc bd ca cb cd da db dc) (m1 m2 m3 : TdotMode) :
    ∃ T U : Arr R, routeS1 A B C D ab ac ad ba bc bd ca cb cd da db dc false false false = .ok T
      ∧ routeM1 A B C D ab ac ad ba bc bd ca cb cd da db dc m1 m2 m3 = .ok U
      ∧ PadA U T ∧ U.validB = true ∧ U.fermi = true := by
  obtain ⟨mA_bc, mA_bd, mA_cd, mA_b_cd, _⟩ := mid3 H.hnA H.WAB.ltA H.WAC.ltA H.WAD.ltA
  obtain ⟨mB_ac, mB_ad, mB_cd, mB_a_cd, _⟩ := mid3 H.hnB H.WAB.ltB H.WBC.ltA H.WBD.ltA
  obtain ⟨mC_ab, mC_ad, mC_bd, _, mC_ab_d⟩ := mid3 H.hnC H.WAC.ltB H.WBC.ltB H.WCD.ltA
  obtain ⟨mD_ab, mD_ac, mD_bc, _, mD_ab_c⟩ := mid3 H.hnD H.WAD.ltB H.WBD.ltB H.WCD.ltB
  have TABC : TriW A B C ab ac ba bc cb ca := ⟨H.WAB, H.WBC, mA_bc, mB_ac, mC_ab.symm, H.WAC.con⟩
  have TABD : TriW A B D ab ad ba bd db da := ⟨H.WAB, H.WBD, mA_bd, mB_ad, mD_ab.symm, H.WAD.con⟩
  obtain ⟨AB, BC, CD, ABC1, ABC2, BCD1, BCD2, T1, T2, T3, T4, T5, eAB, eBC, eCD, eABC1, eABC2, eBCD1,
    eBCD2, eT1, eT2, eT3, eT4, eT5, q2, q3, q4, q5, hv, X⟩ :=
    k4x A B C D ab ac ad ba bc bd ca cb cd da db dc H.WAB H.WAC H.WAD H.WBC H.WBD H.WCD
      H.hnA H.hnB H.hnC H.hnD H.hd
  obtain ⟨ABm, eABm, pABm, IABm⟩ := pad_call hz1 hz2 (PadA.refl H.WAB.va) (PadA.refl H.WAB.vb)
    H.WAB H.WAB AB eAB m1
  have WABmc := admW_left_triW IABm TABC
  obtain ⟨ABCm, eABCm, pABCm, IABCm⟩ := pad_call hz1 hz2 pABm (PadA.refl H.WBC.vb) WABmc X.wABc
    ABC1 eABC1 m2
  have WABmd := admW_left_triW IABm TABD
  have mABm : Mid ABm.ndim (Assoc2P.axesAB A.ndim B.ndim ab ac ba bc)
      (Assoc2P.axesAB A.ndim B.ndim ab ad ba bd) := by
    rw [IABm.ndim]; exact mid_axesAB mA_b_cd mB_a_cd
  have TT : TriW ABm C D (Assoc2P.axesAB A.ndim B.ndim ab ac ba bc)
      (Assoc2P.axesAB A.ndim B.ndim ab ad ba bd) (ca ++ cb) cd dc (da ++ db) :=
    ⟨WABmc, H.WCD, mABm, mC_ab_d, mD_ab_c.symm, WABmd.con⟩
  have WT := admW_left_triW IABCm TT
  rw [IABm.ndim] at WT
  obtain ⟨Um, eUm, pUm, IUm⟩ := pad_call hz1 hz2 pABCm (PadA.refl H.WCD.vb) WT X.wT1 T1 eT1 m3
  refine ⟨T1, Um, ?_, ?_, pUm, IUm.valid, IUm.fermi⟩
  · unfold routeS1 callS axesABC_D; simp only []
    rw [eAB]; simp only [Except.bind]; rw [eABC1]; exact eT1
  · unfold routeM1 axesABC_D
    rw [eABm]; simp only [Except.bind]; rw [eABCm]; exact eUm

/-- route 3, `(A·B)·(C·D)` -/
theorem routeM3_pad (hz1 : ∀ x : R, 0 * x = 0) (hz2 : ∀ x : R, x * 0 = 0)
    (H : K4H A B C D ab ac ad ba bc bd ca cb cd da db dc) (m1 m2 m3 : TdotMode) :
    ∃ T U : Arr R, routeS3 A B C D ab ac ad ba bc bd ca cb cd da db dc false false false = .ok T
      ∧ routeM3 A B C D ab ac ad ba bc bd ca cb cd da db dc m1 m2 m3 = .ok U
      ∧ PadA U T ∧ U.validB = true ∧ U.fermi = true := by
  obtain ⟨mA_bc, mA_bd, mA_cd, mA_b_cd, _⟩ := mid3 H.hnA H.WAB.ltA H.WAC.ltA H.WAD.ltA
  obtain ⟨mB_ac, mB_ad, mB_cd, mB_a_cd, _⟩ := mid3 H.hnB H.WAB.ltB H.WBC.ltA H.WBD.ltA
  obtain ⟨mC_ab, mC_ad, mC_bd, _, mC_ab_d⟩ := mid3 H.hnC H.WAC.ltB H.WBC.ltB H.WCD.ltA
  obtain ⟨mD_ab, mD_ac, mD_bc, _, mD_ab_c⟩ := mid3 H.hnD H.WAD.ltB H.WBD.ltB H.WCD.ltB
  have TABC : TriW A B C ab ac ba bc cb ca := ⟨H.WAB, H.WBC, mA_bc, mB_ac, mC_ab.symm, H.WAC.con⟩
  have TABD : TriW A B D ab ad ba bd db da := ⟨H.WAB, H.WBD, mA_bd, mB_ad, mD_ab.symm, H.WAD.con⟩
  obtain ⟨AB, BC, CD, ABC1, ABC2, BCD1, BCD2, T1, T2, T3, T4, T5, eAB, eBC, eCD, eABC1, eABC2, eBCD1,
    eBCD2, eT1, eT2, eT3, eT4, eT5, q2, q3, q4, q5, hv, X⟩ :=
    k4x A B C D ab ac ad ba bc bd ca cb cd da db dc H.WAB H.WAC H.WAD H.WBC H.WBD H.WCD
      H.hnA H.hnB H.hnC H.hnD H.hd
  obtain ⟨ABm, eABm, pABm, IABm⟩ := pad_call hz1 hz2 (PadA.refl H.WAB.va) (PadA.refl H.WAB.vb)
    H.WAB H.WAB AB eAB m1
  obtain ⟨CDm, eCDm, pCDm, ICDm⟩ := pad_call hz1 hz2 (PadA.refl H.WCD.va) (PadA.refl H.WCD.vb)
    H.WCD H.WCD CD eCD m2
  have WABmc := admW_left_triW IABm TABC
  have WABmd := admW_left_triW IABm TABD
  have mABm : Mid ABm.ndim (Assoc2P.axesAB A.ndim B.ndim ab ac ba bc)
      (Assoc2P.axesAB A.ndim B.ndim ab ad ba bd) := by
    rw [IABm.ndim]; exact mid_axesAB mA_b_cd mB_a_cd
  have TT : TriW ABm C D (Assoc2P.axesAB A.ndim B.ndim ab ac ba bc)
      (Assoc2P.axesAB A.ndim B.ndim ab ad ba bd) (ca ++ cb) cd dc (da ++ db) :=
    ⟨WABmc, H.WCD, mABm, mC_ab_d, mD_ab_c.symm, WABmd.con⟩
  have WT := admW_right_triW ICDm TT
  obtain ⟨Um, eUm, pUm, IUm⟩ := pad_call hz1 hz2 pABm pCDm WT X.wT3 T3 eT3 m3
  refine ⟨T3, Um, ?_, ?_, pUm, IUm.valid, IUm.fermi⟩
  · unfold routeS3 callS; simp only []
    rw [eAB]; simp only [Except.bind]; rw [eCD]; exact eT3
  · unfold routeM3
    rw [eABm]; simp only [Except.bind]; rw [eCDm]; exact eUm

/-- route 5, `A·(B·(C·D))` -/
theorem routeM5_pad (hz1 : ∀ x : R, 0 * x = 0) (hz2 : ∀ x : R, x * 0 = 0)
    (H : K4H A B C D ab ac ad ba bc bd ca cb cd da db dc) (m1 m2 m3 : TdotMode) :
    ∃ T U : Arr R, routeS5 A B C D ab ac ad ba bc bd ca cb cd da db dc false false false = .ok T
      ∧ routeM5 A B C D ab ac ad ba bc bd ca cb cd da db dc m1 m2 m3 = .ok U
      ∧ PadA U T ∧ U.validB = true ∧ U.fermi = true := by
  obtain ⟨mA_bc, mA_bd, mA_cd, mA_b_cd, _⟩ := mid3 H.hnA H.WAB.ltA H.WAC.ltA H.WAD.ltA
  obtain ⟨mB_ac, mB_ad, mB_cd, mB_a_cd, _⟩ := mid3 H.hnB H.WAB.ltB H.WBC.ltA H.WBD.ltA
  obtain ⟨mC_ab, mC_ad, mC_bd, _, mC_ab_d⟩ := mid3 H.hnC H.WAC.ltB H.WBC.ltB H.WCD.ltA
  obtain ⟨mD_ab, mD_ac, mD_bc, _, mD_ab_c⟩ := mid3 H.hnD H.WAD.ltB H.WBD.ltB H.WCD.ltB
  have TBCD : TriW B C D bc bd cb cd dc db := ⟨H.WBC, H.WCD, mB_cd, mC_bd, mD_bc.symm, H.WBD.con⟩
  have TACD : TriW A C D ac ad ca cd dc da := ⟨H.WAC, H.WCD, mA_cd, mC_ad, mD_ac.symm, H.WAD.con⟩
  obtain ⟨AB, BC, CD, ABC1, ABC2, BCD1, BCD2, T1, T2, T3, T4, T5, eAB, eBC, eCD, eABC1, eABC2, eBCD1,
    eBCD2, eT1, eT2, eT3, eT4, eT5, q2, q3, q4, q5, hv, X⟩ :=
    k4x A B C D ab ac ad ba bc bd ca cb cd da db dc H.WAB H.WAC H.WAD H.WBC H.WBD H.WCD
      H.hnA H.hnB H.hnC H.hnD H.hd
  obtain ⟨CDm, eCDm, pCDm, ICDm⟩ := pad_call hz1 hz2 (PadA.refl H.WCD.va) (PadA.refl H.WCD.vb)
    H.WCD H.WCD CD eCD m1
  have WbCDm := admW_right_triW ICDm TBCD
  obtain ⟨BCDm, eBCDm, pBCDm, IBCDm⟩ := pad_call hz1 hz2 (PadA.refl H.WAB.vb) pCDm WbCDm X.wbCD
    BCD2 eBCD2 m2
  have WaCDm := admW_right_triW ICDm TACD
  have mCDm : Mid CDm.ndim (Assoc2P.axesBC C.ndim D.ndim cb cd dc db)
      (Assoc2P.axesBC C.ndim D.ndim ca cd dc da) := by
    rw [ICDm.ndim]
    exact (mid_axesAB (xa1 := cd) (u := ca) (v := cb) (xb1 := dc) (s := da) (t := db)
      mC_ab_d.symm mD_ab_c.symm).symm
  have TT : TriW A B CDm ab (ac ++ ad) ba (bc ++ bd) (Assoc2P.axesBC C.ndim D.ndim cb cd dc db)
      (Assoc2P.axesBC C.ndim D.ndim ca cd dc da) := ⟨H.WAB, WbCDm, mA_b_cd, mB_a_cd, mCDm, WaCDm.con⟩
  have WT := admW_right_triW IBCDm TT
  rw [ICDm.ndim] at WT
  obtain ⟨Um, eUm, pUm, IUm⟩ := pad_call hz1 hz2 (PadA.refl H.WAB.va) pBCDm WT X.wT5 T5 eT5 m3
  refine ⟨T5, Um, ?_, ?_, pUm, IUm.valid, IUm.fermi⟩
  · unfold routeS5 callS axesBCD_A; simp only []
    rw [eCD]; simp only [Except.bind]; rw [eBCD2]; exact eT5
  · unfold routeM5 axesBCD_A
    rw [eCDm]; simp only [Except.bind]; rw [eBCDm]; exact eUm

end

end Net4P
end SymmModel
