/-
  SymmModel.Proofs.FuseCommuteI3 — the renumbering `shiftAxes X g` of the axes outside a fused group
  is strictly increasing ("the other legs keep their order").  Namespace `SymmModel.TdotP`.
-/
import SymmModel.Proofs.FuseCommuteI2

namespace SymmModel
namespace TdotP
variable {R : Type}

theorem freeAxes_pairwise (n : Nat) (l : List Nat) : (freeAxes n l).Pairwise (· < ·) := by
  unfold freeAxes
  exact List.Pairwise.filter _ List.pairwise_lt_range

theorem idxOf_lt_of_lt {L : List Nat} (hs : L.Pairwise (· < ·)) {x y : Nat} (hx : x ∈ L) (hy : y ∈ L)
    (h : x < y) : L.idxOf x < L.idxOf y := by
  have hix := List.idxOf_lt_length_of_mem hx
  have hiy := List.idxOf_lt_length_of_mem hy
  have e1 : L[L.idxOf x]? = some x := by rw [List.getElem?_eq_getElem hix, List.getElem_idxOf hix]
  have e2 : L[L.idxOf y]? = some y := by rw [List.getElem?_eq_getElem hiy, List.getElem_idxOf hiy]
  by_contra hn
  rcases Nat.lt_or_eq_of_le (Nat.le_of_not_lt hn) with hlt | heq
  · have := List.pairwise_iff_getElem.mp hs _ _ hiy hix hlt
    rw [List.getElem_idxOf hiy, List.getElem_idxOf hix] at this
    omega
  · rw [heq, e1] at e2
    have := Option.some.inj e2
    omega

/-- the axes outside the group keep their order in the fused array -/
theorem shiftAxes_strictMono {X : Arr R} {g : List Nat} (h : OneOk X g) {x y : Nat}
    (hx : x < X.ndim ∧ x ∉ g) (hy : y < X.ndim ∧ y ∉ g) (hxy : x < y) :
    shiftAxes X g x < shiftAxes X g y := by
  have hi := idxOf_lt_of_lt (freeAxes_pairwise X.ndim g) (mem_freeAxes.mpr hx) (mem_freeAxes.mpr hy) hxy
  have hjy : (freeAxes X.ndim g).idxOf y
      < (freeAxes (FuseP.ndimM X [g]) [(FuseP.giM X [g]).position]).length := by
    rw [one_free_length h]; exact List.idxOf_lt_length_of_mem (mem_freeAxes.mpr hy)
  unfold shiftAxes
  rw [List.getD_eq_getElem?_getD, List.getD_eq_getElem?_getD,
    List.getElem?_eq_getElem (Nat.lt_trans hi hjy), List.getElem?_eq_getElem hjy]
  simp only [Option.getD_some]
  exact List.pairwise_iff_getElem.mp (freeAxes_pairwise _ _) _ _ _ _ hi

/-- an axis below the fused position keeps its number; an axis above it lands above it -/
theorem shiftAxes_of_lt_pos {X : Arr R} {g : List Nat} (h : OneOk X g) {x : Nat}
    (hx : x < (FuseP.giM X [g]).position) : shiftAxes X g x = x := by
  have hp := one_pos_lt h
  have hxg : x ∉ g := fun hm => by have := one_pos_le h x hm; omega
  have hidx : (freeAxes X.ndim g).idxOf x = x := by
    rw [one_free h, List.idxOf_append_of_mem (List.mem_range.mpr hx)]
    have := (List.nodup_range (n := (FuseP.giM X [g]).position)).idxOf_getElem x (by simpa using hx)
    simpa using this
  unfold shiftAxes
  rw [hidx, one_ndimM h, freeAxes_succ_mid, List.getD_eq_getElem?_getD,
    List.getElem?_append_left (by simpa using hx)]
  simp [hx]

theorem shiftAxes_of_pos_lt {X : Arr R} {g : List Nat} (h : OneOk X g) {x : Nat}
    (hx : x < X.ndim ∧ x ∉ g) (hpx : (FuseP.giM X [g]).position < x) :
    (FuseP.giM X [g]).position < shiftAxes X g x := by
  have hne := shiftAxes_ne_pos h hx
  by_contra hn
  have hlt : shiftAxes X g x < (FuseP.giM X [g]).position := by omega
  have e := shiftAxes_of_lt_pos h hlt
  have hp := one_pos_lt h
  have hs : shiftAxes X g x < X.ndim ∧ shiftAxes X g x ∉ g :=
    ⟨by omega, fun hm => by have := one_pos_le h _ hm; omega⟩
  have := shiftAxes_inj h hs hx e
  omega

end TdotP
end SymmModel
