/-
  SymmModel.Proofs.DecompTrunc — the truncated factors `u'`, `vh'` of `svd_truncated`
  (`LinalgLemmas.truncU`, `truncV`, the closed form of `applyCounts`) are left- / right-factor-like
  arrays (`DecompP.LeftLike`, `RightLike`) over the kept items, so the fermionic isometry theorems of
  Proofs/DecompIso.lean apply to them.  Namespace `SymmModel.DecompP`.
  Nothing here changes a model definition.
-/
import SymmModel.Proofs.DecompIso

namespace SymmModel
namespace DecompP
set_option linter.unusedSectionVars false
open LinalgLemmas ReconP Recon2P

variable {R : Type} [Zero R] {x : Arr R} {L Rt : Blk R → Blk R} {counts : List Nat}

theorem kept_sectors_nodup (hv : x.validB = true) (hlen : counts.length = x.blocks.length) :
    ((kept x counts).map (fun t => t.1.1)).Nodup := by
  have hsub : ((kept x counts).map (fun t => t.1.1)).Sublist
      ((x.blocks.zip counts).map (fun t => t.1.1)) := List.filter_sublist.map _
  have e : (x.blocks.zip counts).map (fun t => t.1.1) = x.sectors := by
    have : (x.blocks.zip counts).map (fun t => t.1.1)
        = ((x.blocks.zip counts).map (·.1)).map (·.1) := by rw [List.map_map]; rfl
    rw [this, tri_map_fst hlen]; rfl
  rw [e] at hsub
  exact (sectors_nodup hv).sublist hsub

theorem leftLike_truncU (hv : x.validB = true) (h2 : x.ndim = 2) (hf : x.fermi = true)
    (hL : FacShape L Rt) (hlen : counts.length = x.blocks.length) :
    LeftLike x (truncU x L counts) (kept x counts) (fun t => t.1.1)
      (fun t => (L t.1.2).sliceK [0, 0] [(L t.1.2).shape.getD 0 0, t.2])
      (fun t => ((L t.1.2).shape.getD 0 0, t.2)) := by
  obtain ⟨i0, i1, hi⟩ := ndim_two h2
  refine ⟨truncU_valid hv h2 hi hL hlen, hf, rfl, rfl, rfl, ⟨_, rfl⟩, rfl, ?_,
    kept_sectors_nodup hv hlen, fun _ _ => rfl⟩
  intro t ht
  exact List.mem_map.mpr ⟨t.1, (kept_mem hlen ht).1, rfl⟩

theorem rightLike_truncV (hv : x.validB = true) (h2 : x.ndim = 2) (hf : x.fermi = true)
    (hL : FacShape L Rt) (hlen : counts.length = x.blocks.length) :
    RightLike x (truncV x L Rt counts) (kept x counts) (fun t => t.1.1)
      (fun t => (Rt t.1.2).sliceK [0, 0] [t.2, (Rt t.1.2).shape.getD 1 0])
      (fun t => (t.2, (Rt t.1.2).shape.getD 1 0)) := by
  obtain ⟨i0, i1, hi⟩ := ndim_two h2
  obtain ⟨f1, f2, f3, f4, f5, f6⟩ := rightF_fields (x := x) (L := L) (Rt := Rt)
  refine ⟨truncV_valid hv h2 hi hL hlen, f2.trans hf, f1, f6, ⟨_, rfl⟩, rfl, ?_,
    kept_sectors_nodup hv hlen, fun _ _ => rfl⟩
  intro t ht
  exact List.mem_map.mpr ⟨t.1, (kept_mem hlen ht).1, rfl⟩

end DecompP
end SymmModel
