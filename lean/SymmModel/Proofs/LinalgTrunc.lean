/-
  SymmModel.Proofs.LinalgTrunc — `applyCounts` (the slicing step of `svd_truncated`) on the
  factors produced by `svdA`: closed form and validity (C11.6).
-/
import SymmModel.Proofs.LinalgFactors

namespace SymmModel
namespace LinalgLemmas

variable {R : Type}

/-! ### a list of keyed items with counts -/
section Tri
variable {α : Type} (key : α → Charge)

theorem dropped_contains (tri : List (α × Nat)) (hnd : (tri.map (fun t => key t.1)).Nodup)
    {t : α × Nat} (ht : t ∈ tri) :
    ((tri.filter (fun t => t.2 == 0)).map (fun t => key t.1)).contains (key t.1) = (t.2 == 0) := by
  rw [Bool.eq_iff_iff, List.contains_iff_mem, List.mem_map]
  constructor
  · rintro ⟨t', ht', e⟩
    have hm := (List.mem_filter.mp ht')
    have := List.inj_on_of_nodup_map hnd hm.1 ht e
    subst this
    exact hm.2
  · intro h
    exact ⟨t, List.mem_filter.mpr ⟨ht, h⟩, rfl⟩

theorem kept_keys_nodup (tri : List (α × Nat)) (hnd : (tri.map (fun t => key t.1)).Nodup) :
    (((tri.filter (fun t => t.2 != 0)).map (fun t => (key t.1, t.2))).map (·.1)).Nodup := by
  rw [List.map_map]
  exact hnd.sublist (List.filter_sublist.map _)

theorem kept_lookup (tri : List (α × Nat)) (hnd : (tri.map (fun t => key t.1)).Nodup)
    {t : α × Nat} (ht : t ∈ tri) :
    alookup ((tri.filter (fun t => t.2 != 0)).map (fun t => (key t.1, t.2))) (key t.1)
      = if t.2 != 0 then some t.2 else none := by
  split
  next h =>
    apply alookup_of_mem_nodup (kept_keys_nodup key tri hnd)
    exact List.mem_map.mpr ⟨t, List.mem_filter.mpr ⟨ht, h⟩, rfl⟩
  next h =>
    rw [alookup_eq_none_iff, List.map_map]
    intro hm
    obtain ⟨t', ht', e⟩ := List.mem_map.mp hm
    have hm' := List.mem_filter.mp ht'
    have := List.inj_on_of_nodup_map hnd hm'.1 ht e
    subst this
    exact h hm'.2

end Tri

/-! ### closed form of `applyCounts` on svd factors -/
section Trunc
variable (x : Arr R) (L S Rt : Blk R → Blk R) (counts : List Nat)

/-- stored blocks of the input paired with their counts, those with a non-zero count -/
def kept : List ((Sector × Blk R) × Nat) := (x.blocks.zip counts).filter (fun t => t.2 != 0)

/-- `{column charge ↦ count}` restricted to non-zero counts (block order) -/
def keptCm : List (Charge × Nat) := (kept x counts).map (fun t => (colOf t.1.1, t.2))

variable [Zero R]

def truncU : Arr R :=
  { leftF x L with
    blocks := (kept x counts).map (fun t =>
      (t.1.1, (L t.1.2).sliceK [0, 0] [(L t.1.2).shape.getD 0 0, t.2])),
    indices := [x.indices.getD 0 default,
                (bondIx x L).withCm (Index.sortCm (keptCm x counts))] }

def truncS : BVec R :=
  ⟨(kept x counts).map (fun t => (colOf t.1.1, (S t.1.2).sliceK [0] [t.2]))⟩

def truncV : Arr R :=
  { rightF x L Rt with
    blocks := (kept x counts).map (fun t =>
      ([colOf t.1.1, colOf t.1.1], (Rt t.1.2).sliceK [0, 0] [t.2, (Rt t.1.2).shape.getD 1 0])),
    indices := [(bondIx x L).conj.withCm (Index.sortCm (keptCm x counts)),
                x.indices.getD 1 default] }

end Trunc

section TruncEq
variable {x : Arr R} {L S Rt : Blk R → Blk R} {counts : List Nat}

theorem tri_map_fst (hlen : counts.length = x.blocks.length) :
    (x.blocks.zip counts).map (·.1) = x.blocks :=
  List.map_fst_zip (by omega)

theorem tri_mem (hlen : counts.length = x.blocks.length) {t : (Sector × Blk R) × Nat}
    (ht : t ∈ x.blocks.zip counts) : t.1 ∈ x.blocks := by
  rw [← tri_map_fst hlen]
  exact List.mem_map.mpr ⟨t, ht, rfl⟩

theorem tri_keys_nodup (hv : x.validB = true) (h2 : x.ndim = 2)
    (hlen : counts.length = x.blocks.length) :
    ((x.blocks.zip counts).map (fun t => colOf t.1.1)).Nodup := by
  have := colCharges_nodup hv h2
  have e : (x.blocks.zip counts).map (fun t => colOf t.1.1)
      = ((x.blocks.zip counts).map (·.1)).map (fun p => colOf p.1) := by
    rw [List.map_map]; rfl
  rw [e, tri_map_fst hlen]
  simpa [Arr.sectors, List.map_map, Function.comp_def, colOf] using this

theorem plan_eq (u : Arr R) (hu : u.sectors = x.sectors) :
    u.sectors.zip counts = (x.blocks.zip counts).map (fun t => (t.1.1, t.2)) := by
  rw [hu, Arr.sectors, List.zip_map_left]
  rfl

theorem plan_keep (u : Arr R) (hu : u.sectors = x.sectors) :
    (u.sectors.zip counts).filter (fun p => p.2 != 0)
      = (kept x counts).map (fun t => (t.1.1, t.2)) := by
  rw [plan_eq u hu, List.filter_map]
  rfl

theorem plan_drop (u : Arr R) (hu : u.sectors = x.sectors) :
    ((u.sectors.zip counts).filter (fun p => p.2 == 0)).map (fun p => p.1.getD 1 (0, 0))
      = ((x.blocks.zip counts).filter (fun t => t.2 == 0)).map (fun t => colOf t.1.1) := by
  rw [plan_eq u hu, List.filter_map, List.map_map]
  rfl

end TruncEq

section ApplyEq
variable {x : Arr R} {L S Rt : Blk R → Blk R} {counts : List Nat} [Zero R]

omit [Zero R] in
theorem leftF_sectors : (leftF x L).sectors = x.sectors := by
  simp [leftF, Arr.sectors, List.map_map, Function.comp_def]

omit [Zero R] in
theorem keptCm_keys_nodup (hv : x.validB = true) (h2 : x.ndim = 2)
    (hlen : counts.length = x.blocks.length) : ((keptCm x counts).map (·.1)).Nodup :=
  kept_keys_nodup (fun p : Sector × Blk R => colOf p.1) _ (tri_keys_nodup hv h2 hlen)

omit [Zero R] in
theorem c1s_eq (hv : x.validB = true) (h2 : x.ndim = 2) (hlen : counts.length = x.blocks.length)
    (u : Arr R) (hu : u.sectors = x.sectors) :
    adict (((u.sectors.zip counts).filter (fun p => p.2 != 0)).map
        (fun p => (p.1.getD 1 (0, 0), p.2))) = keptCm x counts := by
  rw [plan_keep u hu, List.map_map]
  exact adict_of_nodup _ (keptCm_keys_nodup hv h2 hlen)

omit [Zero R] in
theorem kept_mem (hlen : counts.length = x.blocks.length) {t : (Sector × Blk R) × Nat}
    (ht : t ∈ kept x counts) : t.1 ∈ x.blocks ∧ t.2 ≠ 0 ∧ t ∈ x.blocks.zip counts := by
  have := List.mem_filter.mp ht
  exact ⟨tri_mem hlen this.1, by simpa using this.2, this.1⟩

theorem applyCounts_fst (hv : x.validB = true) (h2 : x.ndim = 2)
    (hlen : counts.length = x.blocks.length) (sv : BVec R) :
    (applyCounts (leftF x L) sv (rightF x L Rt) counts).1 = truncU x L counts := by
  have hu : (leftF x L).sectors = x.sectors := leftF_sectors
  unfold applyCounts truncU
  simp only []
  rw [c1s_eq hv h2 hlen _ hu, plan_keep _ hu, List.filterMap_map]
  have hb : List.filterMap ((fun p : Sector × Nat =>
        Option.map (fun b => (p.1, b.sliceK [0, 0] [b.shape.getD 0 0, p.2]))
          (alookup (leftF x L).blocks p.1)) ∘ fun t : (Sector × Blk R) × Nat => (t.1.1, t.2))
        (kept x counts)
      = (kept x counts).map (fun t =>
          (t.1.1, (L t.1.2).sliceK [0, 0] [(L t.1.2).shape.getD 0 0, t.2])) := by
    rw [← List.filterMap_eq_map]
    apply List.filterMap_congr
    intro t ht
    have hm := (kept_mem hlen ht).1
    have hl : alookup (leftF x L).blocks t.1.1 = some (L t.1.2) := by
      apply alookup_of_mem_nodup
      · have := sectors_nodup hv
        simpa [leftF, Arr.sectors, List.map_map, Function.comp_def] using this
      · exact List.mem_map.mpr ⟨t.1, hm, rfl⟩
    simp only [Function.comp, hl, Option.map_some]
  rw [hb]
  rfl

omit [Zero R] in
theorem filter_map_eq_filterMap {α β : Type} (p : α → Bool) (g : α → β) (l : List α) :
    (l.filter p).map g = l.filterMap (fun t => if p t then some (g t) else none) := by
  induction l with
  | nil => rfl
  | cons a l ih =>
    rw [List.filter_cons, List.filterMap_cons]
    by_cases h : p a = true
    · simp only [h, if_true, List.map_cons, ih]
    · simp only [h, Bool.false_eq_true, if_false, ih]

omit [Zero R] in
theorem plan_c1s (u : Arr R) (hu : u.sectors = x.sectors) :
    ((u.sectors.zip counts).filter (fun p => p.2 != 0)).map (fun p => (p.1.getD 1 (0, 0), p.2))
      = keptCm x counts := by
  rw [plan_keep u hu, List.map_map]
  rfl

theorem applyCounts_snd (hv : x.validB = true) (h2 : x.ndim = 2)
    (hlen : counts.length = x.blocks.length) :
    (applyCounts (leftF x L) ⟨x.blocks.map (fun p => (colOf p.1, S p.2))⟩ (rightF x L Rt) counts).2.1
      = truncS x S counts := by
  have hu : (leftF x L).sectors = x.sectors := leftF_sectors
  have hnd := tri_keys_nodup (counts := counts) hv h2 hlen
  unfold applyCounts truncS
  simp only []
  rw [plan_drop _ hu, plan_c1s _ hu]
  congr 1
  have hsb : x.blocks.map (fun p => (colOf p.1, S p.2))
      = (x.blocks.zip counts).map (fun t => (colOf t.1.1, S t.1.2)) := by
    conv => lhs; rw [← tri_map_fst hlen]
    rw [List.map_map]; rfl
  rw [hsb, List.filterMap_map]
  unfold kept
  rw [filter_map_eq_filterMap (fun t : (Sector × Blk R) × Nat => t.2 != 0)]
  apply List.filterMap_congr
  intro t ht
  have h1 := dropped_contains (fun p : Sector × Blk R => colOf p.1) _ hnd ht
  have h2' := kept_lookup (fun p : Sector × Blk R => colOf p.1) _ hnd ht
  simp only [Function.comp]
  unfold keptCm kept
  rw [h1, h2']
  by_cases h0 : t.2 = 0
  · simp [h0]
  · simp [h0]

theorem applyCounts_thd (hv : x.validB = true) (h2 : x.ndim = 2)
    (hlen : counts.length = x.blocks.length) (sv : BVec R) :
    (applyCounts (leftF x L) sv (rightF x L Rt) counts).2.2 = truncV x L Rt counts := by
  have hu : (leftF x L).sectors = x.sectors := leftF_sectors
  have hnd := tri_keys_nodup (counts := counts) hv h2 hlen
  obtain ⟨f1, f2, f3, f4, f5, f6⟩ := rightF_fields (x := x) (L := L) (Rt := Rt)
  unfold applyCounts truncV
  simp only []
  rw [c1s_eq hv h2 hlen _ hu, plan_drop _ hu, plan_c1s _ hu]
  have hb : ∀ F : Sector × Blk R → Option (Sector × Blk R), (∀ t ∈ x.blocks.zip counts,
      F ([colOf t.1.1, colOf t.1.1], Rt t.1.2) = if t.2 != 0 then some
        ([colOf t.1.1, colOf t.1.1], (Rt t.1.2).sliceK [0, 0] [t.2, (Rt t.1.2).shape.getD 1 0])
        else none) →
      List.filterMap F (rightF x L Rt).blocks = (kept x counts).map (fun t =>
        ([colOf t.1.1, colOf t.1.1], (Rt t.1.2).sliceK [0, 0] [t.2, (Rt t.1.2).shape.getD 1 0])) := by
    intro F hF
    have hsb : x.blocks.map (fun p => ([colOf p.1, colOf p.1], Rt p.2))
        = (x.blocks.zip counts).map (fun t => ([colOf t.1.1, colOf t.1.1], Rt t.1.2)) := by
      conv => lhs; rw [← tri_map_fst hlen]
      rw [List.map_map]; rfl
    rw [f5, hsb, List.filterMap_map]
    unfold kept
    rw [filter_map_eq_filterMap (fun t : (Sector × Blk R) × Nat => t.2 != 0)]
    apply List.filterMap_congr
    intro t ht
    simp only [Function.comp]
    exact hF t ht
  rw [hb]
  · simp only [f3, List.getD_cons_zero, List.getD_cons_succ]
  · intro t ht
    have h1 := dropped_contains (fun p : Sector × Blk R => colOf p.1) _ hnd ht
    have h2' := kept_lookup (fun p : Sector × Blk R => colOf p.1) _ hnd ht
    simp only [List.getD_cons_zero, beq_self_eq_true, Bool.true_and, if_true]
    unfold keptCm kept
    rw [h1, h2']
    by_cases h0 : t.2 = 0
    · simp [h0]
    · simp [h0]

/-- `applyCounts` on the factors `svdA` returns, in closed form -/
theorem applyCounts_eq (hv : x.validB = true) (h2 : x.ndim = 2)
    (hlen : counts.length = x.blocks.length) :
    applyCounts (leftF x L) ⟨x.blocks.map (fun p => (colOf p.1, S p.2))⟩ (rightF x L Rt) counts
      = (truncU x L counts, truncS x S counts, truncV x L Rt counts) := by
  apply Prod.ext
  · exact applyCounts_fst hv h2 hlen _
  · apply Prod.ext
    · exact applyCounts_snd hv h2 hlen
    · exact applyCounts_thd hv h2 hlen _

end ApplyEq

section TruncValid
variable {x : Arr R} {L Rt : Blk R → Blk R} {counts : List Nat} {i0 i1 : Index} [Zero R]

omit [Zero R] in
theorem withCm_mk (c : List (Charge × Nat)) (d : Bool) (s) (c' : List (Charge × Nat)) :
    (Index.mk c d s).withCm c' = Index.mk (Index.sortCm c') d s := rfl

omit [Zero R] in
/-- the new bond table: sorted, and `c ↦ n` exactly for the kept `(column charge, count)` -/
theorem newCm_props (hv : x.validB = true) (h2 : x.ndim = 2)
    (hlen : counts.length = x.blocks.length) :
    isSortedStrict Charge.lt ((Index.sortCm (Index.sortCm (keptCm x counts))).map (·.1)) = true
    ∧ (∀ c, alookup (Index.sortCm (Index.sortCm (keptCm x counts))) c = alookup (keptCm x counts) c)
    ∧ (Index.sortCm (Index.sortCm (keptCm x counts))).Perm (keptCm x counts) := by
  have hnd := keptCm_keys_nodup (counts := counts) hv h2 hlen
  have hnd' := sortCm_keys_nodup _ hnd
  exact ⟨sortCm_sorted _ hnd', fun c => by rw [alookup_sortCm _ hnd', alookup_sortCm _ hnd],
    (sortCm_perm _).trans (sortCm_perm _)⟩

omit [Zero R] in
theorem keptCm_lookup (hv : x.validB = true) (h2 : x.ndim = 2)
    (hlen : counts.length = x.blocks.length) {t : (Sector × Blk R) × Nat} (ht : t ∈ kept x counts) :
    alookup (keptCm x counts) (colOf t.1.1) = some t.2 := by
  apply alookup_of_mem_nodup (keptCm_keys_nodup hv h2 hlen)
  exact List.mem_map.mpr ⟨t, ht, rfl⟩

omit [Zero R] in
theorem newBond_wf (hv : x.validB = true) (h2 : x.ndim = 2) (hi : x.indices = [i0, i1])
    (hlen : counts.length = x.blocks.length) (d : Bool) :
    (Index.mk (Index.sortCm (Index.sortCm (keptCm x counts))) d none).wfB x.sym = true := by
  obtain ⟨hs, _, hp⟩ := newCm_props (counts := counts) hv h2 hlen
  apply wfB_plain _ _ hs
  intro c n hm
  have hm' := hp.mem_iff.mp hm
  obtain ⟨t, ht, e⟩ := List.mem_map.mp hm'
  obtain ⟨hb, hn, _⟩ := kept_mem hlen ht
  obtain ⟨r, c', m, n', B⟩ := mat_block hv hi (s := t.1.1) (b := t.1.2) hb
  have e1 := (Prod.mk.inj e).1; have e2 := (Prod.mk.inj e).2
  subst e1 e2
  exact ⟨Nat.pos_of_ne_zero hn, by simpa [colOf, B.hs] using B.vc⟩

theorem truncU_valid (hv : x.validB = true) (h2 : x.ndim = 2) (hi : x.indices = [i0, i1])
    (hL : FacShape L Rt) (hlen : counts.length = x.blocks.length) :
    (truncU x L counts).validB = true := by
  obtain ⟨_, hch, hnd, hb, hf⟩ := (validB_iff x).mp hv
  obtain ⟨_, hlk, _⟩ := newCm_props (counts := counts) hv h2 hlen
  have hI : (truncU x L counts).indices
      = [i0, Index.mk (Index.sortCm (Index.sortCm (keptCm x counts))) i1.dual none] := by
    simp [truncU, bondIx_eq hi, hi, withCm_mk]
  have hduals : (truncU x L counts).duals = x.duals := by simp [Arr.duals, hI, hi]
  refine (validB_iff _).mpr ⟨?_, hch, ?_, ?_, ?_⟩
  · rw [hI, wfListB_pair]
    exact ⟨(indices_wf hv hi).1, newBond_wf hv h2 hi hlen _⟩
  · have : (truncU x L counts).sectors = (kept x counts).map (fun t => t.1.1) := by
      simp [truncU, Arr.sectors, List.map_map, Function.comp_def]
    rw [this]
    have e : (kept x counts).map (fun t => t.1.1) = ((kept x counts).map (·.1)).map (·.1) := by
      rw [List.map_map]; rfl
    rw [e]
    have hsub : ((kept x counts).map (·.1)).Sublist x.blocks := by
      have := (List.filter_sublist (l := x.blocks.zip counts) (p := fun t => t.2 != 0)).map (·.1)
      rwa [tri_map_fst hlen] at this
    exact hnd.sublist (hsub.map _)
  · intro s b' hm'
    simp only [truncU, List.mem_map] at hm'
    obtain ⟨t, ht, e⟩ := hm'
    have e1 := (Prod.mk.inj e).1; have e2 := (Prod.mk.inj e).2
    subst e1 e2
    obtain ⟨hbm, hn, _⟩ := kept_mem hlen ht
    obtain ⟨r, c, m, n, B⟩ := mat_block hv hi (s := t.1.1) (b := t.1.2) hbm
    obtain ⟨g1, g2, _, _⟩ := hb t.1.1 t.1.2 hbm
    have hsh := hL t.1.2 m n B.hshape B.hwf
    refine ⟨by simpa [Arr.ndim, hI, hi] using g1, ?_, ?_, sliceK_wf _ _ _⟩
    · rw [isValidSector_congr (a := truncU x L counts) (a' := x) rfl hduals rfl]; exact g2
    · rw [hI, B.hs, sliceK_shape, hsh.1]
      refine (blockShape?_pair _ _ r c _).mpr ⟨m, t.2, B.hr, ?_, rfl⟩
      have := keptCm_lookup hv h2 hlen ht
      rw [show colOf t.1.1 = c by simp [colOf, B.hs]] at this
      simpa [hlk c] using this
  · rw [fermiOk_congr (a := truncU x L counts) (a' := x) rfl hduals rfl rfl rfl rfl]; exact hf

theorem truncV_valid (hv : x.validB = true) (h2 : x.ndim = 2) (hi : x.indices = [i0, i1])
    (hL : FacShape L Rt) (hlen : counts.length = x.blocks.length) :
    (truncV x L Rt counts).validB = true := by
  obtain ⟨_, hlk, _⟩ := newCm_props (counts := counts) hv h2 hlen
  obtain ⟨f1, f2, f3, f4, f5, f6⟩ := rightF_fields (x := x) (L := L) (Rt := Rt)
  have hRv := rightF_valid (Rt := Rt) hv h2 hi hL
  obtain ⟨_, _, _, _, hRf⟩ := (validB_iff _).mp hRv
  have hI : (truncV x L Rt counts).indices
      = [Index.mk (Index.sortCm (Index.sortCm (keptCm x counts))) (!i1.dual) none, i1] := by
    simp [truncV, bondIx_eq hi, hi, withCm_mk, Index.conj]
  have hS : (truncV x L Rt counts).sym = x.sym := f1
  have hC : (truncV x L Rt counts).charge = x.sym.zero := f4
  have hduals : (truncV x L Rt counts).duals = (rightF x L Rt).duals := by
    simp [Arr.duals, hI, f3, bondIx_eq hi, hi, Index.conj]
  refine (validB_iff _).mpr ⟨?_, ?_, ?_, ?_, ?_⟩
  · rw [hI, hS, wfListB_pair]
    exact ⟨newBond_wf hv h2 hi hlen _, (indices_wf hv hi).2⟩
  · rw [hS, hC]; exact Sym.combine_valid x.sym []
  · have : (truncV x L Rt counts).sectors
        = ((kept x counts).map (fun t => colOf t.1.1)).map (fun c => [c, c]) := by
      simp [truncV, Arr.sectors, List.map_map, Function.comp_def]
    rw [this]
    have hk := keptCm_keys_nodup (counts := counts) hv h2 hlen
    have hk' : ((kept x counts).map (fun t => colOf t.1.1)).Nodup := by
      simpa [keptCm, List.map_map, Function.comp_def] using hk
    exact nodup_map_of_inj _ _ hk' (fun a _ b _ e => (List.cons.inj e).1)
  · intro s b' hm'
    simp only [truncV, List.mem_map] at hm'
    obtain ⟨t, ht, e⟩ := hm'
    have e1 := (Prod.mk.inj e).1; have e2 := (Prod.mk.inj e).2
    subst e1 e2
    obtain ⟨hbm, hn, _⟩ := kept_mem hlen ht
    obtain ⟨r, c, m, n, B⟩ := mat_block hv hi (s := t.1.1) (b := t.1.2) hbm
    have hsh := hL t.1.2 m n B.hshape B.hwf
    have hcol : colOf t.1.1 = c := by simp [colOf, B.hs]
    refine ⟨by simp [Arr.ndim, hI], ?_, ?_, sliceK_wf _ _ _⟩
    · simp only [Arr.isValidSector, Arr.sectorCharge, Arr.duals, hI, hS, hC, hcol, List.map_cons,
        List.map_nil, List.zipWith_cons_cons, List.zipWith_nil_left, beq_iff_eq, dual_mk]
      exact diag_valid x.sym c i1.dual B.vc
    · rw [hI, hcol, sliceK_shape, hsh.2.2.1]
      refine (blockShape?_pair _ _ c c _).mpr ⟨t.2, n, ?_, B.hc, by simp⟩
      have := keptCm_lookup hv h2 hlen ht
      rw [hcol] at this
      simpa [hlk c] using this
  · rw [fermiOk_congr (a := truncV x L Rt counts) (a' := rightF x L Rt) rfl hduals rfl rfl rfl rfl]
    exact hRf

end TruncValid

end LinalgLemmas
end SymmModel
