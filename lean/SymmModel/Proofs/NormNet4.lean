/-
  SymmModel.Proofs.NormNet4 — network form of the norm (property C10), part 4:
  `conj` is a homomorphism of the fermionic contraction: contracting the bra tensors of a
  two-tensor network gives (observationally) `conj(phase_dual=True)` of the contracted ket
  network; hence the network norm along the routes that contract the two halves first.
-/
import SymmModel.Proofs.NormNet3
namespace SymmModel.NormNet
open SymmModel SymmModel.Lazy SymmModel.Norm SymmModel.TdotP SymmModel.GradedP SymmModel.RoutesP
set_option linter.unusedSectionVars false

/-! ## `finish` -/
section fin
variable {R : Type} [Zero R] [Neg R]

theorem finish_frame (T : Arr R) (r : List (Int × Bool) × Int) :
    (finish T r).sym = T.sym ∧ (finish T r).fermi = T.fermi ∧ (finish T r).indices = T.indices
      ∧ (finish T r).charge = T.charge ∧ (finish T r).blocks = T.blocks
      ∧ (finish T r).oddpos = r.1 := by
  unfold finish
  split <;> exact ⟨rfl, rfl, rfl, rfl, rfl, rfl⟩

theorem finish_elem [LawfulNeg R] (T : Arr R) (r : List (Int × Bool) × Int) (hT : SignOk T)
    (s : Sector) (off : List Nat) : (finish T r).elem s off = sgnI r.2 (T.elem s off) := by
  show (if (r.2 == -1) = true then T.phaseGlobal else T).elem s off = _
  by_cases h : r.2 = -1
  · rw [h]
    simp only [beq_self_eq_true, if_true]
    rw [phaseGlobal_elem _ hT, sgnI_neg_one]
  · have : (r.2 == -1) = false := by simpa using h
    simp only [this, Bool.false_eq_true, if_false]
    unfold sgnI
    rw [if_neg h]

end fin

/-! ## symmetry -/

theorem sign_combine_pair (s : Sym) (x y : Charge) :
    s.sign (s.combine [x, y]) true = s.combine [s.sign x true, s.sign y true] := by
  obtain ⟨x1, x2⟩ := x
  obtain ⟨y1, y2⟩ := y
  open Sym in
  cases s <;> sym_arith

/-! ## the graded contraction of the bra tensors -/
section contract
variable {R : Type} [AddMonoid R] [Mul R] [Neg R] [Conj R] [NetLaws R]

theorem blockShapeD_map_conj (idx : List Index) (s : Sector) :
    Arr.blockShapeD (idx.map Index.conj) s = Arr.blockShapeD idx s := by
  unfold Arr.blockShapeD; rw [blockShape?_conj]

theorem contractPair_bra (a b : Arr R) (xa xb oL oR : List Nat) (p : Sector × Sector)
    (ha : SignOk a) (hb : SignOk b) :
    contractPair (braOf a xa) (braOf b xb) xa xb oL oR p
      = sgnI (braSign a xa p.1 * braSign b xb p.2) (Conj.conj (contractPair a b xa xb oL oR p)) := by
  unfold contractPair contractTerm
  rw [(braOf_frame a xa).2.2.1, blockShapeD_map_conj, braOf_ndim, braOf_ndim, conj_sum, ← sum_sgnI]
  congr 1
  apply List.map_congr_left
  intro k _
  rw [braOf_elem a xa ha, braOf_elem b xb hb,
    sgnI_mul_sgnI (braSign_pm _ _ _) (braSign_pm _ _ _), NetLaws.conj_mul]

/-- the graded contraction of the bra pair is the `conj(phase_dual=True)` value of the graded
    contraction of the ket pair -/
theorem gradedContract_bra {a b K : Arr R} {xa xb : List Nat} (h : Adm a b xa xb) (S : List Sector)
    (hKs : K.sym = a.sym)
    (hKi : K.indices = dropUnused (without a.indices xa ++ without b.indices xb) S)
    (hKp : K.parity = xor a.parity b.parity)
    (hKl : (K.oddpos.length % 2 == 1) = K.parity)
    (ph ph' : Int) (hph : ph = 1 ∨ ph = -1) (hph' : ph' = ph * sgB (a.parity && b.parity))
    (s : Sector) (oL oR : List Nat) :
    sgnI ph' (gradedContract (braOf a xa) (braOf b xb) xa xb s oL oR)
      = sgnI (conjTotSign K true true s)
          (Conj.conj (sgnI ph (gradedContract a b xa xb s oL oR))) := by
  have hSa : SignOk a := SignOk.of_valid h.va h.fa
  have hSb : SignOk b := SignOk.of_valid h.vb h.fb
  have hph'pm : ph' = 1 ∨ ph' = -1 := by
    rw [hph']; exact mul_pm hph (by unfold sgB; split <;> simp)
  unfold gradedContract
  have hsp : storedPairs (braOf a xa) (braOf b xb) (freeAxes (braOf a xa).ndim xa) xa xb
        (freeAxes (braOf b xb).ndim xb) s
      = storedPairs a b (freeAxes a.ndim xa) xa xb (freeAxes b.ndim xb) s := by
    unfold storedPairs
    rw [braOf_sectors, braOf_sectors, braOf_ndim, braOf_ndim]
  rw [hsp, conj_sgnI, conj_sum]
  have L : sgnI ph' (((storedPairs a b (freeAxes a.ndim xa) xa xb (freeAxes b.ndim xb) s).map (fun p =>
        sgnI (gradedSign (braOf a xa) (braOf b xb) xa xb p.1 p.2)
          (contractPair (braOf a xa) (braOf b xb) xa xb oL oR p))).sum)
      = ((storedPairs a b (freeAxes a.ndim xa) xa xb (freeAxes b.ndim xb) s).map (fun p =>
        sgnI (ph' * (gradedSign (braOf a xa) (braOf b xb) xa xb p.1 p.2
            * (braSign a xa p.1 * braSign b xb p.2)))
          (Conj.conj (contractPair a b xa xb oL oR p)))).sum := by
    rw [← sgnI_sum]
    congr 1
    apply List.map_congr_left
    intro p _
    rw [contractPair_bra a b xa xb oL oR p hSa hSb,
      sgnI_comp (gradedSign_pm _ _ _ _ _ _) (mul_pm (braSign_pm _ _ _) (braSign_pm _ _ _)),
      sgnI_comp hph'pm (mul_pm (gradedSign_pm _ _ _ _ _ _)
        (mul_pm (braSign_pm _ _ _) (braSign_pm _ _ _)))]
  have Rr : sgnI (conjTotSign K true true s) (sgnI ph
        (((storedPairs a b (freeAxes a.ndim xa) xa xb (freeAxes b.ndim xb) s).map (fun p =>
          Conj.conj (sgnI (gradedSign a b xa xb p.1 p.2) (contractPair a b xa xb oL oR p)))).sum))
      = ((storedPairs a b (freeAxes a.ndim xa) xa xb (freeAxes b.ndim xb) s).map (fun p =>
        sgnI (conjTotSign K true true s * (ph * gradedSign a b xa xb p.1 p.2))
          (Conj.conj (contractPair a b xa xb oL oR p)))).sum := by
    rw [← sgnI_sum, ← sgnI_sum]
    congr 1
    apply List.map_congr_left
    intro p _
    rw [conj_sgnI, sgnI_comp hph (gradedSign_pm _ _ _ _ _ _),
      sgnI_comp (conjTotSign_pm _ _ _ _) (mul_pm hph (gradedSign_pm _ _ _ _ _ _))]
  rw [L, Rr]
  congr 1
  apply List.map_congr_left
  rintro ⟨sa, sb⟩ hp
  obtain ⟨h1, h2, h3, h4⟩ := mem_storedPairs.mp hp
  subst h4
  rw [bra_pair_sign h S hKs hKi hKp hKl h1 h2 h3 ph ph' hph']

end contract

end SymmModel.NormNet
