/-
  SymmModel.Proofs.TdotFused17 — the fused strategy when the RIGHT operand is contracted
  completely (matrix · vector shape: left group and contraction non-empty, right group empty).
  Namespace `SymmModel.TdotP`.
-/
import SymmModel.Proofs.TdotFused16

namespace SymmModel
namespace TdotP
variable {R : Type}

/-- the product of the fused matrix and the fused vector -/
def cfMV [Zero R] [Add R] [Mul R] (A B : Arr R) (xa xb : List Nat) : Arr R :=
  tensordotBlockwise (FuseP.fusedArrM A [freeAxes A.ndim xa, xa]) (FuseP.fusedArrM B [xb]) [0] [1] [0] []

theorem pair_of_free {A : Arr R} {xa : List Nat} (hn : xa.Nodup) (hr : ∀ x ∈ xa, x < A.ndim)
    (hne : xa ≠ []) (hfree : freeAxes A.ndim xa ≠ []) : PairOk A (freeAxes A.ndim xa) xa :=
  ⟨hfree, hne, by
    have := ValidP.without_append_perm hn hr
    rwa [without_range] at this⟩

theorem pair_of_free' {B : Arr R} {xb : List Nat} (hn : xb.Nodup) (hr : ∀ x ∈ xb, x < B.ndim)
    (hne : xb ≠ []) (hfree : freeAxes B.ndim xb ≠ []) : PairOk B xb (freeAxes B.ndim xb) :=
  ⟨hne, hfree, by
    have := ValidP.without_append_perm hn hr
    rw [without_range] at this
    exact List.perm_append_comm.trans this⟩

/-- **right operand contracted completely, aligned operands.** -/
theorem Ctx0.mv [AddCommMonoid R] [Mul R] [Neg R]
    (hz1 : ∀ x : R, 0 * x = 0) (hz2 : ∀ x : R, x * 0 = 0) {A B : Arr R} {xa xb : List Nat}
    (h : Ctx0 A B xa xb) (hneK : xa ≠ []) (hneL : freeAxes A.ndim xa ≠ [])
    (hR : freeAxes B.ndim xb = []) :
    ∃ c, (if ((freeAxes A.ndim xa).length != 1) = true then unfuseA (cfMV A B xa xb) 0
          else pure (cfMV A B xa xb)) = .ok c
      ∧ c.validB = true
      ∧ c.sym = A.sym ∧ c.fermi = false ∧ c.charge = A.sym.combine [A.charge, B.charge]
      ∧ c.phases = [] ∧ c.oddpos = A.oddpos
      ∧ c.indices.length = (freeAxes A.ndim xa).length + (freeAxes B.ndim xb).length
      ∧ (∀ K V, alookup c.blocks K = some V → ∀ J, inBox V.shape J = true →
          V.get J = (tensordotBlockwise A B (freeAxes A.ndim xa) xa xb (freeAxes B.ndim xb)).elem K J)
      ∧ (∀ s ∈ (tensordotBlockwise A B (freeAxes A.ndim xa) xa xb (freeAxes B.ndim xb)).sectors,
          s ∈ c.sectors)
      ∧ List.Forall₂ SizeLe c.indices (permuted A.indices (freeAxes A.ndim xa)
            ++ permuted B.indices (freeAxes B.ndim xb)) := by
  have hneKb : xb ≠ [] := by
    intro e; have := h.len; rw [e] at this; exact hneK (List.eq_nil_of_length_eq_zero this)
  have hpA := pair_of_free h.nA h.rA hneK hneL
  have hpB := solo_of_free_nil h.nB h.rB hneKb hR
  have hokA := hpA.groupsOk
  have hokB := hpB.groupsOk
  have gA0 : ([freeAxes A.ndim xa, xa] : List (List Nat))[0]? = some (freeAxes A.ndim xa) := rfl
  have gA : ([freeAxes A.ndim xa, xa] : List (List Nat))[1]? = some xa := rfl
  have gB : ([xb] : List (List Nat))[0]? = some xb := rfl
  have hvaf := fused_pair_validB h.vA h.fA hpA
  have hvbf := fused_solo_validB h.vB h.fB hpB
  have iA : (FuseP.fusedArrM A [freeAxes A.ndim xa, xa]).indices
      = [FuseP.ixM A [freeAxes A.ndim xa, xa] 0, FuseP.ixM A [freeAxes A.ndim xa, xa] 1] := pair_newIdx hpA
  have iB : (FuseP.fusedArrM B [xb]).indices = [FuseP.ixM B [xb] 0] := solo_newIdx hpB
  have e1 : (FuseP.fusedArrM A [freeAxes A.ndim xa, xa]).ndim = 2 := by
    show (FuseP.fusedArrM A [freeAxes A.ndim xa, xa]).indices.length = 2; rw [iA]; rfl
  have e2 : (FuseP.fusedArrM B [xb]).ndim = 1 := by
    show (FuseP.fusedArrM B [xb]).indices.length = 1; rw [iB]; rfl
  have bm := h.bond_match hokA hokB gA gB
  have ean : A.indices.length = A.ndim := rfl
  have ebn : B.indices.length = B.ndim := rfl
  -- validity of the product
  have hvcf : (cfMV A B xa xb).validB = true := by
    have := ValidP.tensordotBlockwise_valid (FuseP.fusedArrM A [freeAxes A.ndim xa, xa])
      (FuseP.fusedArrM B [xb]) [1] [0]
      ((ValidP.validB_iff _).mp hvaf) ((ValidP.validB_iff _).mp hvbf) h.sym h.fA
      (by
        unfold ValidP.oppositeDualsB
        simp only [List.length_cons, List.length_nil, BEq.rfl, List.zip_cons_cons, List.zip_nil_right,
          List.all_cons, List.all_nil, Bool.and_true, Bool.true_and, bne_iff_ne, ne_eq]
        rw [iA, iB]
        simp only [List.getD_cons_zero, List.getD_cons_succ]
        rw [bm.2.2]
        cases (FuseP.ixM B [xb] 0).dual <;> simp)
      (by simp) (by simp) (by simp [e1]) (by simp [e2])
    rw [e1, e2, without_range, without_range, freeAxes_2_1, freeAxes_1_0] at this
    exact (ValidP.validB_iff _).mpr this
  obtain ⟨t1, t2, t3, t4, t5⟩ := tensordotBlockwise_fields
    (FuseP.fusedArrM A [freeAxes A.ndim xa, xa]) (FuseP.fusedArrM B [xb]) [0] [1] [0] []
  obtain ⟨u1, u2, u3, u4, u5⟩ := fusedArrM_fields A [freeAxes A.ndim xa, xa]
  obtain ⟨_, _, w3, _, _⟩ := fusedArrM_fields B [xb]
  have k1 : (cfMV A B xa xb).sym = A.sym := t1.trans u1
  have k3 : (cfMV A B xa xb).charge = A.sym.combine [A.charge, B.charge] := by
    unfold cfMV; rw [t3, u1, u3, w3]
  have k5 : (cfMV A B xa xb).oddpos = A.oddpos := t5.trans u5
  have hfcf : (cfMV A B xa xb).fermi = false := (t2.trans u2).trans h.fA
  have hpcf : (cfMV A B xa xb).phases = [] := (t4.trans u4).trans h.phA
  have hdcf : allDistinct (cfMV A B xa xb).sectors = true := Arr.allDistinct_of_validB hvcf
  have hidx : (cfMV A B xa xb).indices =
      [dropTo (FuseP.ixM A [freeAxes A.ndim xa, xa] 0)
        ((cfMV A B xa xb).sectors.filterMap (fun s => s[0]?))] := by
    unfold cfMV
    rw [tensordotBlockwise_indices]
    have e1 : without (FuseP.fusedArrM A [freeAxes A.ndim xa, xa]).indices [1]
        = [FuseP.ixM A [freeAxes A.ndim xa, xa] 0] := by rw [iA]; rfl
    have e2 : without (FuseP.fusedArrM B [xb]).indices [0] = [] := by rw [iB]; rfl
    rw [e1, e2]
    rfl
  -- stored blocks of the product
  have hblock : ∀ {ns : Sector} {Bx : Blk R}, (ns, Bx) ∈ (cfMV A B xa xb).blocks →
      ∃ cL dL, ns = [cL] ∧ cL ∈ (cfMV A B xa xb).sectors.filterMap (fun s => s[0]?)
        ∧ (FuseP.ixM A [freeAxes A.ndim xa, xa] 0).sizeOf? cL = some dL ∧ Bx.shape = [dL] := by
    intro ns Bx hm
    have hsh := Arr.shapesOk_of_validB hvcf (ns, Bx) hm
    have hsec : ns ∈ (cfMV A B xa xb).sectors := List.mem_map.mpr ⟨_, hm, rfl⟩
    rw [hidx] at hsh
    obtain ⟨hl, _⟩ := blockShape?_length hsh
    match ns, hl with
    | [cL], _ =>
      have hcL : cL ∈ (cfMV A B xa xb).sectors.filterMap (fun s => s[0]?) :=
        List.mem_filterMap.mpr ⟨_, hsec, rfl⟩
      simp only [Arr.blockShape?_cons, Arr.blockShape?_nil_nil, dropTo_sizeOf? _ _ hcL] at hsh
      cases hzL : (FuseP.ixM A [freeAxes A.ndim xa, xa] 0).sizeOf? cL with
      | none => simp [hzL] at hsh
      | some dL =>
        simp only [hzL, Option.bind_some, Option.map_some, Option.some.injEq] at hsh
        exact ⟨cL, dL, rfl, hcL, hzL, hsh.symm⟩
  -- the core
  have hcore : ∀ {cL : Charge} {iL dL : Nat} {Ls : Sector} {oL : List Nat},
      decAx A [freeAxes A.ndim xa, xa] 0 cL iL = some (Ls, oL) →
      (FuseP.ixM A [freeAxes A.ndim xa, xa] 0).sizeOf? cL = some dL → iL < dL →
      (cfMV A B xa xb).elem [cL] [iL] =
        (tensordotBlockwise A B (freeAxes A.ndim xa) xa xb (freeAxes B.ndim xb)).elem (Ls ++ []) (oL ++ []) := by
    intro cL iL dL Ls oL hdL hzL hiL
    obtain ⟨shpL, hshpL, hboxL⟩ := decAx_facts h.vaA hokA gA0 hdL hzL hiL
    have hLlen : Ls.length = (freeAxes A.ndim xa).length := by
      rw [(blockShape?_length hshpL).1, permuted_length _ _ (by simpa [ean] using mem_freeAxes_lt)]
    have hoLlen : oL.length = (freeAxes A.ndim xa).length := by
      rw [inBox_length hboxL, (blockShape?_length hshpL).2,
        permuted_length _ _ (by simpa [ean] using mem_freeAxes_lt)]
    have hshpR : Arr.blockShape? (permuted B.indices (freeAxes B.ndim xb)) [] = some [] := by
      rw [hR]; rfl
    unfold cfMV
    rw [mv_elem hz1 hz2 (FuseP.fusedArrM A [freeAxes A.ndim xa, xa]) (FuseP.fusedArrM B [xb]) _ _ _
      iA iB h.phA h.phB (Arr.allDistinct_of_validB hvaf) (Arr.allDistinct_of_validB hvbf)
      (Arr.shapesOk_of_validB hvaf) (Arr.shapesOk_of_validB hvbf)
      (cm_keys_nodup (ixM_wfB h.vaA hokA gA)) hzL hiL]
    refine core_generic hz1 hz2 h hokA hokB gA gB (Ls := Ls) (Rs := []) (oL := oL) (oR := [])
      hshpL hboxL hshpR (by rfl)
      (fun c k => (FuseP.fusedArrM A [freeAxes A.ndim xa, xa]).elem [cL, c] [iL, k])
      (fun c k => (FuseP.fusedArrM B [xb]).elem [c] [k]) ?_ ?_
    · intro c D k K ok hsz hkD hdec
      obtain ⟨shpK, hshpK, hboxK⟩ := decAx_facts h.vaA hokA gA hdec hsz hkD
      have hKlen : K.length = xa.length := by
        rw [(blockShape?_length hshpK).1, permuted_length _ _ (by simpa [ean] using h.rA)]
      have hoklen : ok.length = xa.length := by
        rw [inBox_length hboxK, (blockShape?_length hshpK).2,
          permuted_length _ _ (by simpa [ean] using h.rA)]
      exact pair_elem h.vaA h.phA hpA hdL hdec hzL hiL hsz hkD
        (mergeSec_length _ _ _ _) (mergeIdx_length _ _ _ _ _ _)
        (permuted_mergeSec_free hLlen) (permuted_mergeSec_axes h.nA h.rA hKlen)
        (permuted_mergeIdx_free _ (freeAxes_nodup _ _) mem_freeAxes_lt
          (fun _ hx => (mem_freeAxes.mp hx).2) hoLlen)
        (permuted_mergeIdx_axes _ h.nA h.rA hoklen)
    · intro c D k K ok hsz hkD hdec
      obtain ⟨shpK, hshpK, hboxK⟩ := decAx_facts h.vaB hokB gB hdec hsz hkD
      have hKlen : K.length = xb.length := by
        rw [(blockShape?_length hshpK).1, permuted_length _ _ (by simpa [ebn] using h.rB)]
      have hoklen : ok.length = xb.length := by
        rw [inBox_length hboxK, (blockShape?_length hshpK).2,
          permuted_length _ _ (by simpa [ebn] using h.rB)]
      exact solo_elem h.vaB h.phB hpB hdec hsz hkD (mergeSec_length _ _ _ _) (mergeIdx_length _ _ _ _ _ _)
        (permuted_mergeSec_axes h.nB h.rB hKlen) (permuted_mergeIdx_axes _ h.nB h.rB hoklen)
  -- the unfuse stage
  generalize hS0 : (cfMV A B xa xb).sectors.filterMap (fun s => s[0]?) = S0 at hidx hblock
  have hix0 : (cfMV A B xa xb).indices[0]? = some (dropTo (FuseP.ixM A [freeAxes A.ndim xa, xa] 0) S0) := by
    rw [hidx]; rfl
  have hm0 : ((freeAxes A.ndim xa).length != 1) = true →
      (dropTo (FuseP.ixM A [freeAxes A.ndim xa, xa] 0) S0).sub.isSome = true := by
    intro hm
    rw [dropTo_sub _ _ (FuseP.ixM_sub hokA gA0 (by simpa using hm))]; rfl
  obtain ⟨c, hc_ok, hcv, hcf, hc1, hc2, hc3, hc4, hcidx, hback, hfwd⟩ :=
    stage (cfMV A B xa xb) 0 ((freeAxes A.ndim xa).length != 1) _ hvcf hfcf hix0 hm0
  have hci : c.indices =
      (if ((freeAxes A.ndim xa).length != 1) = true then
          ((dropTo (FuseP.ixM A [freeAxes A.ndim xa, xa] 0) S0).sub.map (·.1)).getD []
        else [dropTo (FuseP.ixM A [freeAxes A.ndim xa, xa] 0) S0]) := by
    rw [hcidx, hidx]
    simp only [List.take_zero, List.drop_succ_cons, List.drop_zero, List.nil_append, List.append_nil]
  have hleg := leg_sizeLe hokA gA0 S0
  refine ⟨c, hc_ok, hcv, by rw [hc1]; exact k1, hcf, by rw [hc2]; exact k3, by rw [hc3]; exact hpcf,
    by rw [hc4]; exact k5, ?_, ?_, ?_, ?_⟩
  · -- rank
    have := hleg.length_eq
    rw [hci, this, hR, permuted_length _ _ (by simpa [ean] using mem_freeAxes_lt)]
    rfl
  · -- values
    intro K2 V2 hl2 J2 hJ2
    obtain ⟨ns, Bx, segL, nL, hmem, hK2, hsegL, _, hget⟩ := hback K2 V2 hl2
    obtain ⟨cL, dL, rfl, hcL, hzL, hBxs⟩ := hblock hmem
    simp only [List.take_zero, List.nil_append, List.drop_succ_cons, List.append_nil,
      List.drop_nil] at hK2
    subst hK2
    obtain ⟨iL, hdecL, hg, hbox⟩ := hget J2 hJ2
    simp only [List.take_zero, List.nil_append, Nat.zero_add, List.drop_zero, List.getD_cons_zero,
      List.singleton_append] at hdecL hg hbox
    rw [hBxs] at hbox
    have hl := inBox_length hbox
    simp only [List.length_cons, List.length_nil] at hl
    have hrest : J2.drop nL = [] := by
      apply List.eq_nil_of_length_eq_zero; omega
    rw [hrest] at hbox hg
    simp only [inBox, Bool.and_eq_true, decide_eq_true_eq, and_true] at hbox
    have hoL : J2.take nL = J2 := by
      have := List.take_append_drop nL J2
      rw [hrest, List.append_nil] at this; exact this
    rw [hoL] at hdecL
    rw [decIx_dropTo gA0 S0 hcL] at hdecL
    have := hcore hdecL hzL hbox
    rw [List.append_nil, List.append_nil] at this
    rw [hg, ← this]
    exact (Arr.elem_of_mem hdcf hpcf hmem [iL]).symm
  · -- stored sectors
    intro s hs
    rw [tensordotBlockwise_sectors_eq, List.mem_eraseDups, mem_tdKeys] at hs
    obtain ⟨x, hx, y', hy', hxy, rfl⟩ := hs
    obtain ⟨sa, hsa, rfl⟩ := List.mem_map.mp hx
    obtain ⟨sb, hsb, rfl⟩ := List.mem_map.mp hy'
    have hsec : [FuseP.cM (a := A) (groups := [freeAxes A.ndim xa, xa]) sa 0] ∈ (cfMV A B xa xb).sectors := by
      unfold cfMV
      rw [tensordotBlockwise_sectors_eq, List.mem_eraseDups, mem_tdKeys]
      obtain ⟨Ba, hBa, _⟩ := FuseP.fusedBlockM_exists h.vaA hokA hsa
      obtain ⟨Bb, hBb, _⟩ := FuseP.fusedBlockM_exists h.vaB hokB hsb
      rw [pair_newSector hpA] at hBa
      rw [solo_newSector hpB] at hBb
      refine ⟨_, List.mem_map.mpr ⟨_, alookup_mem hBa, rfl⟩, _, List.mem_map.mpr ⟨_, alookup_mem hBb, rfl⟩,
        ?_, ?_⟩
      · simp only [permuted, List.filterMap_cons, List.filterMap_nil, List.getElem?_cons_succ,
          List.getElem?_cons_zero]
        rw [h.bond_charge hokA hokB gA gB hsa hsb hxy.symm]
      · simp [permuted]
    obtain ⟨⟨ns, Bx⟩, hmem, hnse⟩ := List.mem_map.mp hsec
    simp only at hnse
    subst hnse
    have hcL : FuseP.cM (a := A) (groups := [freeAxes A.ndim xa, xa]) sa 0 ∈ S0 := by
      rw [← hS0]; exact List.mem_filterMap.mpr ⟨_, hsec, rfl⟩
    have h2 := hfwd _ Bx hmem (permuted sa.1 (freeAxes A.ndim xa))
      (by simpa using segOf_stored h.vaA hokA gA0 hsa S0 hcL)
    rw [hR]
    simpa [permuted] using h2
  · -- index tables
    rw [hci, hR]
    have e : permuted B.indices [] = [] := rfl
    rw [e, List.append_nil]; exact hleg

end TdotP
end SymmModel
