/-
  SymmModel.Proofs.FermiAction5 — an operator array with `n` ket and `n` bra legs applied to the
  first `n` legs of a state tensor (property C18, action clause, any number of sites): the graded
  contraction of C03 reduces to a matrix–vector product with the reversal sign of the contracted
  bra charges.
-/
import SymmModel.Proofs.FermiAction4

namespace SymmModel
namespace FermiActP
open FermiOpsP GradedP TdotP
open Lazy (sgnI)

/-! ### positions -/

theorem mem_drop_range {n m y : Nat} : y ∈ (List.range m).drop n ↔ n ≤ y ∧ y < m := by
  by_cases h : n ≤ m
  · have : (List.range m).drop n = (List.range (m - n)).map (n + ·) := by
      have e : m = n + (m - n) := by omega
      conv => lhs; rw [e, List.range_add]
      rw [List.drop_left' (by simp)]
    rw [this]
    simp only [List.mem_map, List.mem_range]
    constructor
    · rintro ⟨a, ha, rfl⟩; omega
    · rintro ⟨h1, h2⟩; exact ⟨y - n, by omega, by omega⟩
  · rw [List.drop_eq_nil_of_le (by simp; omega)]
    simp; omega

theorem permuted_take {α : Type} (x : List α) (n : Nat) (h : n ≤ x.length) :
    permuted x (List.range n) = x.take n := by
  have := permuted_append_left (x.take n) (x.drop n)
  rw [List.take_append_drop, List.length_take, Nat.min_eq_left h] at this
  exact this

theorem permuted_drop {α : Type} (x : List α) (n : Nat) (h : n ≤ x.length) :
    permuted x ((List.range x.length).drop n) = x.drop n := by
  have := permuted_append_right (x.take n) (x.drop n)
  rw [List.take_append_drop, List.length_take, List.length_drop, Nat.min_eq_left h] at this
  have e : n + (x.length - n) = x.length := by omega
  rw [e] at this
  exact this

theorem mergeIdx_left (n : Nat) (k oL : List Nat) (hk : k.length = n) (hoL : oL.length = n) :
    mergeIdx 0 (2 * n) ((List.range (2 * n)).drop n) (List.range n) k oL = oL ++ k := by
  have hx : (oL ++ k).length = 2 * n := by simp [hk, hoL]; omega
  have := mergeIdx_permuted (d := 0) (n := 2 * n) (axes := (List.range (2 * n)).drop n)
    (free := List.range n) (x := oL ++ k) hx
    (fun y hy => (mem_drop_range.mp hy).2)
    (fun y hy => by have := List.mem_range.mp hy; omega)
    (fun y hy => by
      by_cases h : y < n
      · right; exact List.mem_range.mpr h
      · left; exact mem_drop_range.mpr ⟨by omega, hy⟩)
  have e1 : permuted (oL ++ k) ((List.range (2 * n)).drop n) = k := by
    have := permuted_append_right oL k
    rw [hoL, hk] at this
    have e : n + n = 2 * n := by omega
    rw [e] at this; exact this
  have e2 : permuted (oL ++ k) (List.range n) = oL := by
    have := permuted_append_left oL k
    rw [hoL] at this; exact this
  rw [e1, e2] at this
  exact this

theorem mergeIdx_right (n m : Nat) (k oR : List Nat) (hk : k.length = n) (hoR : n + oR.length = m) :
    mergeIdx 0 m (List.range n) ((List.range m).drop n) k oR = k ++ oR := by
  have hx : (k ++ oR).length = m := by simp [hk, hoR]
  have := mergeIdx_permuted (d := 0) (n := m) (axes := List.range n)
    (free := (List.range m).drop n) (x := k ++ oR) hx
    (fun y hy => by have := List.mem_range.mp hy; omega)
    (fun y hy => (mem_drop_range.mp hy).2)
    (fun y hy => by
      by_cases h : y < n
      · left; exact List.mem_range.mpr h
      · right; exact mem_drop_range.mpr ⟨by omega, hy⟩)
  have e1 : permuted (k ++ oR) (List.range n) = k := by
    have := permuted_append_left k oR
    rw [hk] at this; exact this
  have e2 : permuted (k ++ oR) ((List.range m).drop n) = oR := by
    have := permuted_append_right k oR
    rw [hk, hoR] at this; exact this
  rw [e1, e2] at this
  exact this

theorem without_drop_range {α : Type} (l : List α) (n : Nat) (h : n ≤ l.length) :
    without l ((List.range l.length).drop n) = l.take n := by
  rw [without_eq_permuted_freeAxes, freeAxes_drop l.length n h, permuted_take l n h]

theorem without_range_prefix {α : Type} (l : List α) (n : Nat) (h : n ≤ l.length) :
    without l (List.range n) = l.drop n := by
  rw [without_eq_permuted_freeAxes, freeAxes_range l.length n h, permuted_drop l n h]

/-! ### block shapes of a split sector -/

theorem blockShape?_split {ixs : List Index} {s : Sector} {shp : List Nat} (n : Nat)
    (h : Arr.blockShape? ixs s = some shp) :
    Arr.blockShape? (ixs.take n) (s.take n) = some (shp.take n)
    ∧ Arr.blockShape? (ixs.drop n) (s.drop n) = some (shp.drop n) := by
  obtain ⟨h1, h2⟩ := (blockShape?_eq_some_iff _ _ _).mp h
  constructor
  · rw [blockShape?_eq_some_iff]
    refine ⟨by simp [h1], ?_⟩
    rw [← List.take_zipWith, h2, List.map_take]
  · rw [blockShape?_eq_some_iff]
    refine ⟨by simp [h1], ?_⟩
    rw [← List.drop_zipWith, h2, List.map_drop]

/-- the sizes the index tables give to the charges of a sector -/
def sizesOf (ixs : List Index) (J : Sector) : List Nat :=
  List.zipWith (fun (ix : Index) c => (alookup ix.cm c).getD 0) ixs J

/-- a sector paired with its sizes: an element of the product of the charge tables -/
def withSizes (ixs : List Index) (J : Sector) : List (Charge × Nat) :=
  List.zipWith (fun (ix : Index) c => (c, (alookup ix.cm c).getD 0)) ixs J

theorem withSizes_fst (ixs : List Index) (J : Sector) (h : ixs.length = J.length) :
    (withSizes ixs J).map (·.1) = J := by
  induction ixs generalizing J with
  | nil => cases J with
    | nil => rfl
    | cons _ _ => simp at h
  | cons ix ixs ih =>
    cases J with
    | nil => simp at h
    | cons c J => simp [withSizes] at ih ⊢; exact ih J (by simpa using h)

theorem withSizes_snd (ixs : List Index) (J : Sector) :
    (withSizes ixs J).map (·.2) = sizesOf ixs J := by
  simp [withSizes, sizesOf, List.map_zipWith]

theorem blockShape?_sizes {ixs : List Index} {J : Sector} {ds : List Nat}
    (h : Arr.blockShape? ixs J = some ds) :
    ds = sizesOf ixs J ∧ withSizes ixs J ∈ cartesian (ixs.map Index.cm) := by
  induction ixs generalizing J ds with
  | nil =>
    cases J with
    | nil => simp only [Arr.blockShape?_nil_nil, Option.some.injEq] at h; subst h
             exact ⟨rfl, by simp [withSizes, cartesian]⟩
    | cons _ _ => simp [Arr.blockShape?] at h
  | cons ix ixs ih =>
    cases J with
    | nil => simp [Arr.blockShape?] at h
    | cons c J =>
      rw [Arr.blockShape?_cons] at h
      cases hs : ix.sizeOf? c with
      | none => rw [hs] at h; cases h
      | some d =>
        rw [hs, Option.bind_some] at h
        cases hr : Arr.blockShape? ixs J with
        | none => rw [hr] at h; cases h
        | some ds' =>
          rw [hr] at h
          simp only [Option.map_some, Option.some.injEq] at h
          subst h
          obtain ⟨e1, e2⟩ := ih hr
          have hs' : alookup ix.cm c = some d := hs
          refine ⟨by simp [sizesOf, hs', e1], ?_⟩
          rw [mem_cartesian] at e2 ⊢
          simp only [withSizes, List.zipWith_cons_cons, List.map_cons, hs', Option.getD_some]
          exact List.Forall₂.cons (alookup_eq_some_mem hs') e2

theorem withSizes_of_mem {ixs : List Index} (hnd : ∀ ix ∈ ixs, (ix.cm.map (·.1)).Nodup)
    {Jd : List (Charge × Nat)} (h : Jd ∈ cartesian (ixs.map Index.cm)) :
    withSizes ixs (Jd.map (·.1)) = Jd ∧ ixs.length = (Jd.map (·.1)).length := by
  rw [mem_cartesian] at h
  induction ixs generalizing Jd with
  | nil => cases h; exact ⟨rfl, rfl⟩
  | cons ix ixs ih =>
    cases Jd with
    | nil => cases h
    | cons cd Jd =>
      simp only [List.map_cons] at h
      cases h with
      | cons h1 h2 =>
        obtain ⟨e1, e2⟩ := ih (fun ix' hix' => hnd ix' (List.mem_cons_of_mem _ hix')) h2
        have := alookup_of_mem_nodup (hnd ix List.mem_cons_self) (k := cd.1) (v := cd.2) h1
        refine ⟨?_, by simp [e2]⟩
        simp only [withSizes, List.map_cons, List.zipWith_cons_cons, this, Option.getD_some]
        simp only [withSizes] at e1
        rw [e1]

/-! ### an operator array applied to the first `n` legs of a state -/
section applyn
variable {R : Type} [Ring R]

/-- the sign of reversing the odd charges of a list: `(-1)^(p(p-1)/2)`, `p` odd charges -/
def revSign (sym : Sym) (J : Sector) : Int :=
  (-1) ^ ((J.filter sym.parity).length * ((J.filter sym.parity).length - 1) / 2)

theorem revSign_pm (sym : Sym) (J : Sector) : revSign sym J = 1 ∨ revSign sym J = -1 := pow_pm _

/-- the sign of the graded contraction for an operator array: identity layouts, all contracted
    pairs bra-then-ket; what remains is the nesting (reversal) sign of the contracted charges -/
theorem gradedSign_op (G ψ : Arr R) (n : Nat) (hG : G.ndim = 2 * n)
    (hdual : ∀ ax ∈ (List.range (2 * n)).drop n, (G.indices.getD ax default).dual = true)
    (hm : n ≤ ψ.ndim) (sa sb : Sector) (hsa : sa.length = 2 * n) :
    gradedSign G ψ ((List.range (2 * n)).drop n) (List.range n) sa sb
      = revSign G.sym (sa.drop n) := by
  unfold gradedSign
  rw [hG, freeAxes_drop (2 * n) n (by omega), range_split (2 * n) n (by omega),
    freeAxes_range ψ.ndim n hm, range_split ψ.ndim n hm, KoszulP.koszul_id', KoszulP.koszul_id']
  have h1 : oddContracted G ((List.range (2 * n)).drop n) sa
      = ((sa.drop n).filter G.sym.parity).length := by
    unfold oddContracted
    have := permuted_drop sa n (by omega)
    rw [hsa] at this
    rw [this]
  have h2 : ketOdd G ((List.range (2 * n)).drop n) sa = 0 := by
    unfold ketOdd
    have : ((List.range (2 * n)).drop n).filter (fun ax => !(G.indices.getD ax default).dual) = [] := by
      rw [List.filter_eq_nil_iff]
      intro ax hax
      rw [hdual ax hax]; simp
    rw [this]; rfl
  rw [h1, h2]
  unfold revSign
  simp

theorem apply_op (G ψ c : Arr R) (n : Nat) (hGn : G.ndim = 2 * n)
    (hdual : ∀ ax ∈ (List.range (2 * n)).drop n, (G.indices.getD ax default).dual = true)
    (hG : G.validB = true) (hψ : ψ.validB = true) (hfG : G.fermi = true) (hfψ : ψ.fermi = true)
    (hadm : ValidP.tdotAdmissibleB G ψ ((List.range (2 * n)).drop n) (List.range n) = true)
    (h : G.tensordotF ψ (.pair (((List.range (2 * n)).drop n).map Int.ofNat)
        ((List.range n).map Int.ofNat)) .blockwise = .ok c) :
    ∃ out ph, OddposP.mergeOddpos G.parity G.oddpos ψ.oddpos = .ok (out, ph) ∧ c.oddpos = out
      ∧ c.charge = G.sym.combine [G.charge, ψ.charge]
      ∧ ∀ (L Rr : Sector) (oL oR shp : List Nat), L.length = n → oL.length = n →
          Arr.blockShape? (G.indices.take n ++ ψ.indices.drop n) (L ++ Rr) = some shp →
          inBox shp (oL ++ oR) = true →
          c.elem (L ++ Rr) (oL ++ oR) = sgnI ph
            (((cartesian ((G.indices.drop n).map Index.cm)).map (fun Jd =>
              sgnI (revSign G.sym (Jd.map (·.1)))
                (((allIdx (Jd.map (·.2))).map (fun k =>
                  G.elem (L ++ Jd.map (·.1)) (oL ++ k)
                    * ψ.elem (Jd.map (·.1) ++ Rr) (k ++ oR))).sum))).sum) := by
  obtain ⟨out, ph, h1, h2, h3, h4⟩ := tensordotF_graded G ψ c _ _ hG hψ hfG hfψ hadm h
  refine ⟨out, ph, h1, h2, h3, ?_⟩
  intro L Rr oL oR shp hL hoL hshp hbox
  have hadm' := hadm
  unfold ValidP.tdotAdmissibleB at hadm'
  simp only [Bool.and_eq_true, decide_eq_true_eq, List.all_eq_true] at hadm'
  have hm : n ≤ ψ.ndim := by
    cases n with
    | zero => omega
    | succ n' =>
      have := hadm'.2 n' (List.mem_range.mpr (by omega)); omega
  obtain ⟨_, hGnd, hGlen, _, hGsorted, _⟩ := validB_facts G hG
  obtain ⟨_, hψnd, hψlen, _, _, _⟩ := validB_facts ψ hψ
  have hGshape := Arr.shapesOk_of_validB hG
  have hGil : G.indices.length = 2 * n := hGn
  have hψil : ψ.indices.length = ψ.ndim := rfl
  have hibl : (G.indices.drop n).length = n := by simp [hGil]; omega
  have hibnd : ∀ ix ∈ G.indices.drop n, (ix.cm.map (·.1)).Nodup := by
    intro ix hix
    exact nodup_of_pairwise_lt (hGsorted ix (List.mem_of_mem_drop hix))
  have hoR : n + oR.length = ψ.ndim := by
    have l1 := inBox_length hbox
    have l2 := Arr.blockShape?_shape_length hshp
    simp only [List.length_append, List.length_take, List.length_drop, hGil, hψil] at l1 l2
    omega
  have hwG : without G.indices ((List.range (2 * n)).drop n) = G.indices.take n := by
    have := without_drop_range G.indices n (by omega)
    rw [hGil] at this; exact this
  have hwψ : without ψ.indices (List.range n) = ψ.indices.drop n :=
    without_range_prefix ψ.indices n (by omega)
  have key := h4 (L ++ Rr) oL oR
    (by rw [hGn, freeAxes_drop (2 * n) n (by omega), List.length_range]; exact hoL)
    (by rw [hwG, hwψ]; unfold Arr.blockShapeD; rw [hshp]; exact hbox)
  rw [key]
  congr 1
  unfold gradedContract
  rw [hGn, freeAxes_drop (2 * n) n (by omega), freeAxes_range ψ.ndim n hm]
  -- membership in the pair list
  have hmemP : ∀ sa sb, (sa, sb) ∈ storedPairs G ψ (List.range n) ((List.range (2 * n)).drop n)
      (List.range n) ((List.range ψ.ndim).drop n) (L ++ Rr) ↔
      ∃ J : Sector, J.length = n ∧ sa = L ++ J ∧ sb = J ++ Rr ∧ sa ∈ G.sectors ∧ sb ∈ ψ.sectors := by
    intro sa sb
    rw [mem_storedPairs]
    constructor
    · rintro ⟨hA, hB, hal, hs⟩
      have la := hGlen sa hA
      have lb := hψlen sb hB
      rw [hGn] at la
      have e1 : permuted sa ((List.range (2 * n)).drop n) = sa.drop n := by
        have := permuted_drop sa n (by omega); rw [la] at this; exact this
      have e2 : permuted sb (List.range n) = sb.take n := permuted_take sb n (by omega)
      have e3 : permuted sa (List.range n) = sa.take n := permuted_take sa n (by omega)
      have e4 : permuted sb ((List.range ψ.ndim).drop n) = sb.drop n := by
        have := permuted_drop sb n (by omega); rw [lb] at this; exact this
      rw [e1, e2] at hal
      rw [e3, e4] at hs
      have hlt : (sa.take n).length = L.length := by simp [la, hL]; omega
      obtain ⟨hs1, hs2⟩ := List.append_inj hs hlt
      refine ⟨sa.drop n, by simp [la]; omega, ?_, ?_, hA, hB⟩
      · rw [← hs1, List.take_append_drop]
      · rw [← hal, ← hs2, List.take_append_drop]
    · rintro ⟨J, hJ, rfl, rfl, hA, hB⟩
      have lb := hψlen _ hB
      refine ⟨hA, hB, ?_, ?_⟩
      · have e1 : permuted (L ++ J) ((List.range (2 * n)).drop n) = J := by
          have := permuted_append_right L J
          rw [hL, hJ] at this
          have e : n + n = 2 * n := by omega
          rw [e] at this; exact this
        have e2 : permuted (J ++ Rr) (List.range n) = J := by
          have := permuted_append_left J Rr; rw [hJ] at this; exact this
        rw [e1, e2]
      · have e3 : permuted (L ++ J) (List.range n) = L := by
          have := permuted_append_left L J; rw [hL] at this; exact this
        have e4 : permuted (J ++ Rr) ((List.range ψ.ndim).drop n) = Rr := by
          have := permuted_append_right J Rr
          simp only [List.length_append] at lb
          rw [hJ] at this lb
          rw [lb] at this; exact this
        rw [e3, e4]
  -- the shape of a stored operator sector
  have hshapeG : ∀ J : Sector, J.length = n → L ++ J ∈ G.sectors →
      ∃ shpL : List Nat, shpL.length = n
        ∧ Arr.blockShapeD G.indices (L ++ J) = shpL ++ sizesOf (G.indices.drop n) J
        ∧ withSizes (G.indices.drop n) J ∈ cartesian ((G.indices.drop n).map Index.cm) := by
    intro J hJ hA
    obtain ⟨⟨s', b⟩, hb, hs'⟩ := List.mem_map.mp hA
    simp only at hs'; subst hs'
    have hsh := hGshape (_, b) hb
    simp only at hsh
    obtain ⟨sp1, sp2⟩ := blockShape?_split n hsh
    have hd : (L ++ J).drop n = J := by rw [← hL]; exact List.drop_left
    rw [hd] at sp2
    obtain ⟨e1, e2⟩ := blockShape?_sizes sp2
    refine ⟨b.shape.take n, ?_, ?_, e2⟩
    · have := (TdotP.blockShape?_length hsh).2
      simp [this, hGil]; omega
    · unfold Arr.blockShapeD
      rw [hsh, Option.getD_some, ← e1, List.take_append_drop]
  apply sum_reindex _ _ (fun p => withSizes (G.indices.drop n) (p.1.drop n))
  · exact storedPairs_nodup _ _ _ _ _ hGnd hψnd
  · apply cartesian_nodup
    intro l hl
    obtain ⟨ix, hix, rfl⟩ := List.mem_map.mp hl
    exact List.Nodup.of_map _ (hibnd ix hix)
  · rintro ⟨sa, sb⟩ hp ⟨sa', sb'⟩ hq e
    obtain ⟨J, hJ, rfl, rfl, _, _⟩ := (hmemP sa sb).mp hp
    obtain ⟨J', hJ', rfl, rfl, _, _⟩ := (hmemP sa' sb').mp hq
    have d1 : (L ++ J).drop n = J := by rw [← hL]; exact List.drop_left
    have d2 : (L ++ J').drop n = J' := by rw [← hL]; exact List.drop_left
    simp only [d1, d2] at e
    have := congrArg (List.map (·.1)) e
    rw [withSizes_fst _ _ (by rw [hibl, hJ]), withSizes_fst _ _ (by rw [hibl, hJ'])] at this
    subst this; rfl
  · rintro ⟨sa, sb⟩ hp
    obtain ⟨J, hJ, rfl, rfl, hA, _⟩ := (hmemP sa sb).mp hp
    have d1 : (L ++ J).drop n = J := by rw [← hL]; exact List.drop_left
    simp only [d1]
    exact (hshapeG J hJ hA).choose_spec.2.2
  · rintro ⟨sa, sb⟩ hp
    obtain ⟨J, hJ, rfl, rfl, hA, hB⟩ := (hmemP sa sb).mp hp
    have d1 : (L ++ J).drop n = J := by rw [← hL]; exact List.drop_left
    obtain ⟨shpL, hsl, hsh, _⟩ := hshapeG J hJ hA
    simp only [d1]
    rw [withSizes_fst _ _ (by rw [hibl, hJ]), withSizes_snd,
      gradedSign_op G ψ n hGn hdual hm _ _ (by simp [hL, hJ]; omega), d1]
    congr 1
    unfold contractPair
    simp only
    rw [hsh]
    have hds : (sizesOf (G.indices.drop n) J).length = n := by
      simp [sizesOf, hibl, hJ]
    have e2 : permuted (shpL ++ sizesOf (G.indices.drop n) J) ((List.range (2 * n)).drop n)
        = sizesOf (G.indices.drop n) J := by
      have := permuted_append_right shpL (sizesOf (G.indices.drop n) J)
      rw [hsl, hds] at this
      have e : n + n = 2 * n := by omega
      rw [e] at this; exact this
    rw [e2]
    congr 1
    apply List.map_congr_left
    intro k hk
    have hkl : k.length = n := by
      have := inBox_length (mem_allIdx.mp hk); rw [hds] at this; exact this
    simp only [contractTerm]
    rw [hGn, freeAxes_drop (2 * n) n (by omega), freeAxes_range ψ.ndim n hm,
      mergeIdx_left n k oL hkl hoL, mergeIdx_right n ψ.ndim k oR hkl hoR]
  · intro Jd hK hnot
    obtain ⟨hw, hlen⟩ := withSizes_of_mem hibnd hK
    have hJ : (Jd.map (·.1)).length = n := by rw [← hlen, hibl]
    have hzero : ((allIdx (Jd.map (·.2))).map (fun k =>
        G.elem (L ++ Jd.map (·.1)) (oL ++ k) * ψ.elem (Jd.map (·.1) ++ Rr) (k ++ oR))).sum = 0 := by
      apply sum_map_eq_zero
      intro k _
      by_cases hA : L ++ Jd.map (·.1) ∈ G.sectors
      · by_cases hB : Jd.map (·.1) ++ Rr ∈ ψ.sectors
        · exfalso
          apply hnot
          refine List.mem_map.mpr ⟨(L ++ Jd.map (·.1), Jd.map (·.1) ++ Rr),
            (hmemP _ _).mpr ⟨_, hJ, rfl, rfl, hA, hB⟩, ?_⟩
          have d1 : (L ++ Jd.map (·.1)).drop n = Jd.map (·.1) := by rw [← hL]; exact List.drop_left
          simp only [d1]
          exact hw
        · rw [elem_eq_zero_of_not_mem ψ _ _ hB, mul_zero]
      · rw [elem_eq_zero_of_not_mem G _ _ hA, zero_mul]
    rw [hzero]
    exact Lazy.sgnI_zero _

end applyn

end FermiActP
end SymmModel
