/-
  SymmModel.Proofs.TdotFusedAll — `tensordot_fermionic` in fused / auto mode for EVERY admissible
  call: agreement with blockwise mode, block shapes of the result, transfer step.
  Namespace `SymmModel.TdotP`.
-/
import SymmModel.Proofs.TdotFused23

namespace SymmModel
namespace TdotP
variable {R : Type}

open GradedP RoutesP in
/-- the kernel call of `tensordot_fermionic` agrees, for every admissible call -/
theorem kernelOk_prepared [AddCommMonoid R] [Mul R] [Neg R] [SignRing R]
    (hz1 : ∀ x : R, 0 * x = 0) (hz2 : ∀ x : R, x * 0 = 0) (a b : Arr R) (xa xb : List Nat)
    (h : Adm a b xa xb) :
    KernelOk (ValidP.tdF34 a b xa xb).1.phaseSync (ValidP.tdF34 a b xa xb).2.phaseSync
      ((List.range a.ndim).drop (a.ndim - xa.length)) (List.range xa.length) := by
  obtain ⟨vX, vY, pX, pY, hsymXY, hXn, hYn, hcXY⟩ := prepared_ok a b xa xb h
  have hk : xa.length ≤ a.ndim := by have := freeAxes_length h.nA h.ltA; omega
  have hk' : xb.length ≤ b.ndim := by have := freeAxes_length h.nB h.ltB; omega
  have hlen := h.len
  generalize (ValidP.tdF34 a b xa xb).1.phaseSync = X at *
  generalize (ValidP.tdF34 a b xa xb).2.phaseSync = Y at *
  have hnA' : ((List.range a.ndim).drop (a.ndim - xa.length)).Nodup :=
    (List.drop_sublist _ _).nodup List.nodup_range
  have hA' : ∀ i ∈ (List.range a.ndim).drop (a.ndim - xa.length), i < X.ndim := by
    intro i hi; rw [hXn]; exact List.mem_range.mp (List.mem_of_mem_drop hi)
  have hB' : ∀ i ∈ List.range xa.length, i < Y.ndim := by
    intro i hi; rw [hYn]; have := List.mem_range.mp hi; omega
  exact kernelOk_all hz1 hz2 X Y _ _ vX vY pX pY hsymXY hcXY hnA' List.nodup_range hA' hB'

open GradedP RoutesP in
/-- with nothing to contract, `mode = auto` IS `mode = blockwise` -/
theorem tensordotF_auto_nil [Zero R] [Add R] [Mul R] [Neg R] (a b : Arr R) :
    a.tensordotF b (.pair (([] : List Nat).map Int.ofNat) (([] : List Nat).map Int.ofNat)) .auto
      = a.tensordotF b (.pair (([] : List Nat).map Int.ofNat) (([] : List Nat).map Int.ofNat)) .blockwise := by
  rw [ValidP.tensordotF_eq a b [] [] .auto rfl (by simp) (by simp),
    ValidP.tensordotF_eq a b [] [] .blockwise rfl (by simp) (by simp)]
  have hparse : ∀ X Y : Arr R, parseAxes X.ndim Y.ndim
      (.pair (((List.range a.ndim).drop (a.ndim - ([] : List Nat).length)).map Int.ofNat)
        ((List.range ([] : List Nat).length).map Int.ofNat)) = .ok ([], []) := by
    intro X Y
    have : (List.range a.ndim).drop (a.ndim - ([] : List Nat).length) = [] := by simp
    rw [this]
    exact ValidP.parseAxes_nat X.ndim Y.ndim [] [] rfl (by simp) (by simp)
  rw [tensordotA_auto_outer _ _ _ [] (hparse _ _), tensordotA_blockwise_ok _ _ _ [] [] (hparse _ _)]

open GradedP RoutesP in
/-- the blocks of the blockwise core have the shapes the operands' tables give -/
theorem coreFrame_block_shape [AddMonoid R] [Mul R] [Neg R] [SignRing R] {a b : Arr R} {xa xb : List Nat} {T : Arr R}
    (F : CoreFrame a b xa xb T) (hsa : a.shapesOk) (hsb : b.shapesOk) (K : Sector) (V : Blk R)
    (hl : alookup T.blocks K = some V) :
    Arr.blockShape? (without a.indices xa ++ without b.indices xb) K = some V.shape := by
  have hm : (K, V) ∈ T.blocks := alookup_mem hl
  have hK : K ∈ T.sectors := List.mem_map.mpr ⟨_, hm, rfl⟩
  rw [F.sectors, List.mem_eraseDups] at hK
  obtain ⟨x, hx, y, hy, _, rfl⟩ := mem_tdKeys.mp hK
  obtain ⟨shpA, hA1, _, hA3, _⟩ := shape_of_mem hsa hx
  obtain ⟨shpB, hB1, _, hB3, _⟩ := shape_of_mem hsb hy
  have hleftlt : ∀ z ∈ freeAxes a.ndim xa, z < a.ndim := fun z hz => (mem_freeAxes.mp hz).1
  have hrightlt : ∀ z ∈ freeAxes b.ndim xb, z < b.ndim := fun z hz => (mem_freeAxes.mp hz).1
  have ea : a.indices.length = a.ndim := rfl
  have eb : b.indices.length = b.ndim := rfl
  have hsh := F.shape _ hm
  simp only at hsh
  have key : Arr.blockShape? (without a.indices xa ++ without b.indices xb)
      (permuted x (freeAxes a.ndim xa) ++ permuted y (freeAxes b.ndim xb))
      = some (permuted shpA (freeAxes a.ndim xa) ++ permuted shpB (freeAxes b.ndim xb)) := by
    rw [without_eq_permuted_freeAxes, without_eq_permuted_freeAxes, ea, eb]
    exact blockShape?_append (blockShape?_permuted hA1 _ hleftlt) (blockShape?_permuted hB1 _ hrightlt)
  rw [hsh, Arr.blockShapeD, key]
  rfl

open GradedP RoutesP in
/-- **fused / auto = blockwise for `tensordot_fermionic`, every admissible call**, block shapes of
    the result included -/
theorem tensordotF_modes_all [AddCommMonoid R] [Mul R] [Neg R] [SignRing R]
    (hz1 : ∀ x : R, 0 * x = 0) (hz2 : ∀ x : R, x * 0 = 0) (a b : Arr R) (xa xb : List Nat)
    (h : Adm a b xa xb) (mode : TdotMode) (hmode : mode = .fused ∨ mode = .auto) :
    (∀ e, OddposP.mergeOddpos a.parity a.oddpos b.oddpos = .error e →
        a.tensordotF b (.pair (xa.map Int.ofNat) (xb.map Int.ofNat)) mode = .error e
        ∧ a.tensordotF b (.pair (xa.map Int.ofNat) (xb.map Int.ofNat)) .blockwise = .error e)
    ∧ (∀ r, OddposP.mergeOddpos a.parity a.oddpos b.oddpos = .ok r →
        ∃ rm rb, a.tensordotF b (.pair (xa.map Int.ofNat) (xb.map Int.ofNat)) mode = .ok rm
          ∧ a.tensordotF b (.pair (xa.map Int.ofNat) (xb.map Int.ofNat)) .blockwise = .ok rb
          ∧ rm.oddpos = rb.oddpos ∧ rm.charge = rb.charge ∧ rm.sym = rb.sym ∧ rm.fermi = rb.fermi
          ∧ rm.indices.length = rb.indices.length
          ∧ (∀ s ∈ rb.sectors, s ∈ rm.sectors)
          ∧ rm.sectors.Nodup
          ∧ List.Forall₂ SizeLe rm.indices (without a.indices xa ++ without b.indices xb)
          ∧ (∀ K V, alookup rm.blocks K = some V →
              Arr.blockShape? (without a.indices xa ++ without b.indices xb) K = some V.shape)
          ∧ (∀ K V, alookup rm.blocks K = some V → ∀ J, inBox V.shape J = true →
              rm.elem K J = rb.elem K J)) := by
  by_cases hcase : mode = .auto ∧ xa = []
  · obtain ⟨rfl, rfl⟩ := hcase
    have hxb : xb = [] := List.eq_nil_of_length_eq_zero h.len.symm
    subst hxb
    rw [tensordotF_auto_nil]
    have hbw := tensordotF_eq_core a b [] [] h
    have F := coreT_frame a b [] [] h
    rw [hbw]
    constructor
    · intro e he; rw [he]; exact ⟨rfl, rfl⟩
    · intro r hr
      rw [hr]
      obtain ⟨_, _, _, k4, k5, _⟩ := AssocP.finish_fields (coreT a b [] []) r
      refine ⟨_, _, rfl, rfl, rfl, rfl, rfl, rfl, rfl, fun _ hs => hs, ?_, ?_, ?_, fun _ _ _ _ _ => rfl⟩
      · rw [k5, F.sectors]; exact nodup_eraseDups _
      · rw [k4, F.indices]; exact dropUnused_sizeLe _ _
      intro K V hl
      rw [finish_blocks] at hl
      exact coreFrame_block_shape F (Arr.shapesOk_of_validB h.va) (Arr.shapesOk_of_validB h.vb) K V hl
  · have hm' : mode = .fused ∨ (mode = .auto ∧ xa ≠ []) := by
      rcases hmode with hm | hm
      · exact Or.inl hm
      · exact Or.inr ⟨hm, fun e => hcase ⟨hm, e⟩⟩
    exact tensordotF_modes_of_kernel a b xa xb h mode hm' (kernelOk_prepared hz1 hz2 a b xa xb h)

open GradedP RoutesP in
/-- **transfer step** for every admissible call: a successful fused / auto call comes with a
    successful blockwise call; same labels, charge, symmetry, kind, rank; every blockwise sector
    stored; stored blocks of the table shapes; and the same element at EVERY sector key and every
    address of the box the operands' index tables give for that key. -/
theorem tensordotF_to_blockwise_table [AddCommMonoid R] [Mul R] [Neg R] [SignRing R]
    (hz1 : ∀ x : R, 0 * x = 0) (hz2 : ∀ x : R, x * 0 = 0) (a b rm : Arr R) (xa xb : List Nat)
    (h : Adm a b xa xb) (mode : TdotMode) (hmode : mode = .fused ∨ mode = .auto)
    (hm : a.tensordotF b (.pair (xa.map Int.ofNat) (xb.map Int.ofNat)) mode = .ok rm) :
    ∃ rb, a.tensordotF b (.pair (xa.map Int.ofNat) (xb.map Int.ofNat)) .blockwise = .ok rb
      ∧ rm.oddpos = rb.oddpos ∧ rm.charge = rb.charge ∧ rm.sym = rb.sym ∧ rm.fermi = rb.fermi
      ∧ rm.indices.length = rb.indices.length
      ∧ (∀ s ∈ rb.sectors, s ∈ rm.sectors)
      ∧ (∀ K V, alookup rm.blocks K = some V →
          Arr.blockShape? (without a.indices xa ++ without b.indices xb) K = some V.shape)
      ∧ ∀ s o, inBox (Arr.blockShapeD (without a.indices xa ++ without b.indices xb) s) o = true →
          rm.elem s o = rb.elem s o := by
  obtain ⟨he, hk⟩ := tensordotF_modes_all hz1 hz2 a b xa xb h mode hmode
  cases hmo : OddposP.mergeOddpos a.parity a.oddpos b.oddpos with
  | error e => rw [(he e hmo).1] at hm; cases hm
  | ok r =>
    obtain ⟨rm', rb, h1, h2, f1, f2, f3, f4, f5, hsec, _, _, hshape, hel⟩ := hk r hmo
    rw [h1] at hm
    cases hm
    exact ⟨rb, h2, f1, f2, f3, f4, f5, hsec, hshape, fun s o hb =>
      elem_everywhere hsec hel s o (ownBox_of_table hshape s o hb)⟩

end TdotP
end SymmModel
