/-
  SymmModel.Proofs.Fuse9Fold — the relation through the whole right-to-left run of unfuse steps; the
  list of axes whose odd charges give the sign; `conjF` respects equality of value views.
-/
import SymmModel.Proofs.Fuse9Rel
import SymmModel.Proofs.Fuse6Order
namespace SymmModel
namespace FuseP
set_option linter.unusedSectionVars false
open SymmModel.Lazy SymmModel.KoszulP SymmModel.LinalgLemmas

variable {R : Type} [Zero R] [Neg R]

/-- unfuse the groups `g-1, …, 0` (last first) -/
def runR (groups : List (List Nat)) (pos : Nat) : Nat → Arr R → Except Err (Arr R)
  | 0, x => pure x
  | g + 1, x => do
    let x' ← (if multiB groups g then Arr.unfuseF x (pos + g) else pure x)
    runR groups pos g x'

theorem runR_eq (groups : List (List Nat)) (pos : Nat) (g : Nat) (x : Arr R) :
    runR groups pos g x
      = (List.range g).reverse.foldlM (fun x g => if multiB groups g then Arr.unfuseF x (pos + g) else pure x) x := by
  induction g generalizing x with
  | zero => rfl
  | succ g ih =>
    rw [List.range_succ, List.reverse_append, List.reverse_singleton, List.singleton_append, List.foldlM_cons]
    simp only [runR]
    congr 1
    funext x'
    exact ih x'

/-- the axes whose odd charges give the sign: at every multi-axis group the legs whose direction
    differs from the fused index, at their positions in the fully unfused array -/
def mmRec (idx : List Index) (groups : List (List Nat)) (pos : Nat) : Nat → List Nat → List Nat
  | 0, axes => axes
  | g + 1, axes =>
    if multiB groups g then
      match idx[pos + g]? with
      | some ix => match ix.sub with
        | some (subs, _) =>
          mmRec idx groups pos g
            ((mismatchLegs ix subs).map (fun t => pos + g + t) ++ axes.map (fun ax => ax + subs.length - 1))
        | none => mmRec idx groups pos g axes
      | none => mmRec idx groups pos g axes
    else mmRec idx groups pos g axes

section
variable [Conj R] [LawfulNegConj R]

/-- **the relation through the run** -/
theorem CRel.run (idx0 : List Index) (groups : List (List Nat)) (pos : Nat) :
    ∀ (g : Nat) (w z : Arr R) (axes : List Nat), CRel axes z w → (∀ ax ∈ axes, pos + g ≤ ax) →
      (∀ i, i < pos + g → w.indices[i]? = idx0[i]?) →
      (∀ g', g' < g → multiB groups g' = true →
        ∃ ix subs exts, idx0[pos + g']? = some ix ∧ ix.sub = some (subs, exts) ∧ 0 < subs.length) →
      ∃ w' z', runR groups pos g w = .ok w' ∧ runR groups pos g z = .ok z'
        ∧ CRel (mmRec idx0 groups pos g axes) z' w' := by
  intro g
  induction g with
  | zero => intro w z axes h _ _ _; exact ⟨w, z, rfl, rfl, h⟩
  | succ g ih =>
    intro w z axes h hax hkeep hfused
    cases hm : multiB groups g with
    | false =>
      have := ih w z axes h (fun ax hm' => by have := hax ax hm'; omega)
        (fun i hi => hkeep i (by omega)) (fun g' hg' => hfused g' (by omega))
      simpa only [runR, mmRec, hm, Bool.false_eq_true, if_false, bind, Except.bind, pure, Except.pure] using this
    | true =>
      obtain ⟨ix, subs, exts, hix0, hsub, hL⟩ := hfused g (by omega) hm
      have hix : w.indices[pos + g]? = some ix := by rw [hkeep (pos + g) (by omega)]; exact hix0
      obtain ⟨w1, z1, hw1, hz1, hw1i, hrel⟩ := h.step hix hsub hL (fun ax hm' => by have := hax ax hm'; omega)
      obtain ⟨w', z', hw', hz', hrel'⟩ := ih w1 z1 _ hrel
        (by
          intro ax hm'
          rcases List.mem_append.1 hm' with h1 | h1
          · obtain ⟨t, _, rfl⟩ := List.mem_map.1 h1; omega
          · obtain ⟨ax0, h0, rfl⟩ := List.mem_map.1 h1
            have := hax ax0 h0; omega)
        (by
          intro i hi
          rw [hw1i, getElem?_replace_before _ _ hi (getElem?_lt hix)]
          exact hkeep i (by omega))
        (fun g' hg' => hfused g' (by omega))
      refine ⟨w', z', ?_, ?_, ?_⟩
      · simp only [runR, hm, if_true, hw1, bind, Except.bind]; exact hw'
      · simp only [runR, hm, if_true, hz1, bind, Except.bind]; exact hz'
      · simp only [mmRec, hm, if_true, hix0, hsub]; exact hrel'

/-- `conjF` respects equality of value views -/
theorem conjF_veq {a b : Arr R} (h : VEq a b) (hva : a.validB = true) (hvb : b.validB = true)
    (hf : a.fermi = true) : VEq a.conjF b.conjF := by
  have hfb : b.fermi = true := by rw [← h.fermi]; exact hf
  have fa := conjF_frame a true false
  have fb := conjF_frame b true false
  refine ⟨by rw [fa.1, fb.1, h.sym], by rw [fa.2.1, fb.2.1, h.fermi], by rw [fa.2.2.1, fb.2.2.1, h.indices],
    by rw [fa.2.2.2.1, fb.2.2.2.1, h.sym, h.charge], by rw [fa.2.2.2.2.1, fb.2.2.2.2.1, h.oddpos], ?_⟩
  intro s off
  rw [conjF_elem a true false (SignOk.of_valid hva hf), conjF_elem b true false (SignOk.of_valid hvb hfb),
    conjTotSign_default, conjTotSign_default, h.elem]
  have hg : conjGlob a true = conjGlob b true := by simp only [conjGlob, h.sym, h.charge, h.oddpos]
  rw [hg, h.sym]

end

end FuseP
end SymmModel
