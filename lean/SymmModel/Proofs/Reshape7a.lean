/-
  SymmModel.Proofs.Reshape7a — the normalisation lemma.  `MSeg`: the planner-independent description
  of a target obtained by merging adjacent axes and/or dropping size-one axes — a list of segments,
  each a run of ≥ 1 axes mapped to their product, or a size-one axis dropped.  Every such description
  (positive sizes) can be rewritten as an `ItemsOk` item list — the planner's own reading — with the
  same old shape and the same target.
  The reading chosen (the planner's): a size-one axis facing a target dimension 1 is KEPT, the
  dropped one is a later one (`pushSq`); leading and trailing ones of a run are squeezed axes
  (`Sq`), the run proper starts and ends with sizes ≥ 2.
-/
import SymmModel.Proofs.Reshape6f
namespace SymmModel.Reshape5
open SymmModel SymmModel.Reshape SymmModel.C07

/-- one segment of a merge / drop description -/
inductive MSeg where
  | run (r : List Nat)     -- `r ≠ []`: the axes `r` become one axis of size `prod r`
  | drop                   -- a size-one axis is dropped
  deriving Repr, DecidableEq

def MSeg.shape : MSeg → List Nat
  | .run r => r
  | .drop => [1]

def MSeg.target : MSeg → List Nat
  | .run r => [prod r]
  | .drop => []

def shapeS (segs : List MSeg) : List Nat := segs.flatMap MSeg.shape
def targetS (segs : List MSeg) : List Nat := segs.flatMap MSeg.target

@[simp] theorem shapeS_cons (s : MSeg) (r : List MSeg) : shapeS (s :: r) = s.shape ++ shapeS r := by
  simp [shapeS]
@[simp] theorem targetS_cons (s : MSeg) (r : List MSeg) : targetS (s :: r) = s.target ++ targetS r := by
  simp [targetS]

/-- runs are non-empty and all sizes are positive -/
def MSegOk : MSeg → Prop
  | .run r => r ≠ [] ∧ ∀ d ∈ r, 1 ≤ d
  | .drop => True

instance : DecidablePred MSegOk := fun s => by cases s <;> (unfold MSegOk; infer_instance)

/-! ### inserting a dropped size-one axis in front of an item list -/

/-- a size-one axis in front of `T`, in the planner's reading: it is kept if the next target
    dimension is 1 (then a later one is the dropped one) -/
def pushSq : List Item → List Item
  | .K 1 :: T => .K 1 :: pushSq T
  | T => .Sq :: T

def pushN : Nat → List Item → List Item
  | 0, T => T
  | n + 1, T => pushSq (pushN n T)

theorem head_target_ne_one : ∀ (T : List Item), ItemsOk T → (∀ T', T ≠ Item.K 1 :: T') →
    (targetOf T).head? ≠ some 1 := by
  intro T hok hne
  cases T with
  | nil => simp
  | cons a T' =>
    cases a with
    | K d =>
      have : d ≠ 1 := fun h => hne T' (by rw [h])
      simp [Item.target]; exact this
    | Sq => simpa [Item.target] using hok.1
    | M d0 mid dl =>
      obtain ⟨h0, hl, hm, _⟩ := hok
      have := prod_suffix_ge2 hm hl
      simp only [targetOf_cons, Item.target, List.singleton_append, List.head?_cons, ne_eq,
        Option.some.injEq, prod]
      intro hc
      have : 2 * 2 ≤ d0 * prod (mid ++ [dl]) := Nat.mul_le_mul h0 this
      omega

theorem pushSq_spec : ∀ (T : List Item), ItemsOk T →
    ItemsOk (pushSq T) ∧ shapeOf (pushSq T) = 1 :: shapeOf T ∧ targetOf (pushSq T) = targetOf T := by
  intro T
  induction T with
  | nil => intro _; exact ⟨⟨by simp, trivial⟩, rfl, rfl⟩
  | cons a T ih =>
    intro hok
    by_cases h1 : a = Item.K 1
    · subst h1
      obtain ⟨i1, i2, i3⟩ := ih hok
      refine ⟨i1, ?_, ?_⟩
      · simp only [pushSq, shapeOf_cons, Item.shape, i2]; rfl
      · simp only [pushSq, targetOf_cons, Item.target, i3]
    · have hp : pushSq (a :: T) = Item.Sq :: a :: T := by
        cases a with
        | K d =>
          have : d ≠ 1 := fun h => h1 (by rw [h])
          unfold pushSq
          split
          · rename_i heq; injection heq with h _; injection h with h; exact (this h).elim
          · rfl
        | Sq => rfl
        | M _ _ _ => rfl
      rw [hp]
      refine ⟨⟨head_target_ne_one (a :: T) hok (fun T' h => by injection h with h _; exact h1 h), hok⟩, ?_, ?_⟩
      · simp [Item.shape]
      · simp [Item.target]

theorem pushN_spec : ∀ (n : Nat) (T : List Item), ItemsOk T →
    ItemsOk (pushN n T) ∧ shapeOf (pushN n T) = List.replicate n 1 ++ shapeOf T
      ∧ targetOf (pushN n T) = targetOf T := by
  intro n
  induction n with
  | zero => intro T h; exact ⟨h, by simp [pushN], rfl⟩
  | succ n ih =>
    intro T h
    obtain ⟨i1, i2, i3⟩ := ih T h
    obtain ⟨j1, j2, j3⟩ := pushSq_spec _ i1
    exact ⟨j1, by simp only [pushN, j2, i2, List.replicate_succ, List.cons_append], by simp only [pushN, j3, i3]⟩

/-- squeezed axes in front of an item list whose first target dimension is not 1 -/
theorem sq_front : ∀ (a : Nat) (X : List Item), ItemsOk X → (targetOf X).head? ≠ some 1 →
    ItemsOk (List.replicate a Item.Sq ++ X)
      ∧ shapeOf (List.replicate a Item.Sq ++ X) = List.replicate a 1 ++ shapeOf X
      ∧ targetOf (List.replicate a Item.Sq ++ X) = targetOf X := by
  intro a
  induction a with
  | zero => intro X h _; exact ⟨h, by simp, by simp⟩
  | succ a ih =>
    intro X h hh
    obtain ⟨i1, i2, i3⟩ := ih X h hh
    have e : List.replicate (a + 1) Item.Sq ++ X = Item.Sq :: (List.replicate a Item.Sq ++ X) := by
      simp [List.replicate_succ]
    rw [e]
    exact ⟨⟨by rw [i3]; exact hh, i1⟩, by rw [shapeOf_cons, i2]; simp [Item.shape, List.replicate_succ],
      by rw [targetOf_cons, i3]; simp [Item.target]⟩

/-! ### the shape of a run -/

theorem split_run : ∀ (r : List Nat), r ≠ [] → (∀ d ∈ r, 1 ≤ d) →
    (∀ d ∈ r, d = 1)
    ∨ (∃ a d0 b, 2 ≤ d0 ∧ r = List.replicate a 1 ++ d0 :: List.replicate b 1)
    ∨ (∃ a d0 mid dl b, 2 ≤ d0 ∧ 2 ≤ dl ∧ (∀ d ∈ mid, 1 ≤ d)
        ∧ r = List.replicate a 1 ++ d0 :: (mid ++ [dl]) ++ List.replicate b 1) := by
  intro r
  induction r with
  | nil => intro h; exact (h rfl).elim
  | cons d r ih =>
    intro _ hpos
    have hd := hpos d (by simp)
    have hposr : ∀ d' ∈ r, 1 ≤ d' := fun d' h => hpos d' (by simp [h])
    by_cases hr : r = []
    · subst hr
      by_cases h1 : d = 1
      · left; intro d' hd'; simp at hd'; rw [hd', h1]
      · right; left; exact ⟨0, d, 0, by omega, by simp⟩
    · rcases ih hr hposr with hall | ⟨a, d0, b, h0, rfl⟩ | ⟨a, d0, mid, dl, b, h0, hl, hm, rfl⟩
      · by_cases h1 : d = 1
        · left; intro d' hd'
          rcases List.mem_cons.mp hd' with rfl | h
          · exact h1
          · exact hall d' h
        · right; left
          refine ⟨0, d, r.length, by omega, ?_⟩
          have : r = List.replicate r.length 1 := List.eq_replicate_iff.mpr ⟨rfl, hall⟩
          conv => lhs; rw [this]
          simp
      · by_cases h1 : d = 1
        · right; left; exact ⟨a + 1, d0, b, h0, by rw [h1]; simp [List.replicate_succ]⟩
        · right; right
          exact ⟨0, d, List.replicate a 1, d0, b, by omega, h0,
            fun d' hd' => by rw [(List.mem_replicate.mp hd').2], by simp⟩
      · by_cases h1 : d = 1
        · right; right
          exact ⟨a + 1, d0, mid, dl, b, h0, hl, hm, by rw [h1]; simp [List.replicate_succ]⟩
        · right; right
          refine ⟨0, d, List.replicate a 1 ++ d0 :: mid, dl, b, by omega, hl, ?_, by simp⟩
          intro d' hd'
          rcases List.mem_append.mp hd' with h | h
          · rw [(List.mem_replicate.mp h).2]
          · rcases List.mem_cons.mp h with rfl | h
            · omega
            · exact hm d' h

theorem prod_replicate_one (n : Nat) : prod (List.replicate n 1) = 1 := by
  induction n with
  | zero => rfl
  | succ n ih => simp [List.replicate_succ, prod, ih]

/-- **the normalisation lemma** -/
theorem normalise : ∀ (segs : List MSeg), (∀ s ∈ segs, MSegOk s) →
    ∃ items, ItemsOk items ∧ shapeOf items = shapeS segs ∧ targetOf items = targetS segs := by
  intro segs
  induction segs with
  | nil => intro _; exact ⟨[], trivial, rfl, rfl⟩
  | cons s segs ih =>
    intro hok
    obtain ⟨T, hT, hsT, htT⟩ := ih (fun s' hs' => hok s' (by simp [hs']))
    have hs := hok s (by simp)
    cases s with
    | drop =>
      obtain ⟨j1, j2, j3⟩ := pushSq_spec T hT
      exact ⟨pushSq T, j1, by rw [shapeS_cons, j2, hsT]; rfl, by rw [targetS_cons, j3, htT]; rfl⟩
    | run r =>
      obtain ⟨hne, hpos⟩ := hs
      have hS : shapeS (MSeg.run r :: segs) = r ++ shapeOf T := by rw [shapeS_cons, hsT]; rfl
      have hTt : targetS (MSeg.run r :: segs) = prod r :: targetOf T := by rw [targetS_cons, htT]; rfl
      rw [hS, hTt]
      rcases split_run r hne hpos with hall | ⟨a, d0, b, h0, rfl⟩ | ⟨a, d0, mid, dl, b, h0, hl, hm, rfl⟩
      · -- a run of ones: the first is kept
        have hr : r = List.replicate r.length 1 := List.eq_replicate_iff.mpr ⟨rfl, hall⟩
        obtain ⟨n, hn⟩ : ∃ n, r.length = n + 1 := ⟨r.length - 1, by
          have := List.length_pos_iff.mpr hne; omega⟩
        obtain ⟨j1, j2, j3⟩ := pushN_spec n T hT
        refine ⟨Item.K 1 :: pushN n T, j1, ?_, ?_⟩
        · rw [shapeOf_cons, j2, hr, hn]; simp [Item.shape, List.replicate_succ]
        · rw [targetOf_cons, j3, hr, prod_replicate_one]; rfl
      · obtain ⟨j1, j2, j3⟩ := pushN_spec b T hT
        have hX : ItemsOk (Item.K d0 :: pushN b T) := j1
        obtain ⟨k1, k2, k3⟩ := sq_front a (Item.K d0 :: pushN b T) hX (by
          simp [Item.target]; omega)
        refine ⟨_, k1, ?_, ?_⟩
        · rw [k2, shapeOf_cons, j2]; simp [Item.shape]
        · rw [k3, targetOf_cons, j3]
          simp [Item.target, C07.prod_append, prod, prod_replicate_one]
      · obtain ⟨j1, j2, j3⟩ := pushN_spec b T hT
        have hX : ItemsOk (Item.M d0 mid dl :: pushN b T) := ⟨h0, hl, hm, j1⟩
        have h4 : 2 * 2 ≤ d0 * prod (mid ++ [dl]) := Nat.mul_le_mul h0 (prod_suffix_ge2 hm hl)
        obtain ⟨k1, k2, k3⟩ := sq_front a (Item.M d0 mid dl :: pushN b T) hX (by
          simp only [targetOf_cons, Item.target, List.singleton_append, List.head?_cons, ne_eq,
            Option.some.injEq, prod]
          omega)
        refine ⟨_, k1, ?_, ?_⟩
        · rw [k2, shapeOf_cons, j2]; simp [Item.shape]
        · rw [k3, targetOf_cons, j3]
          simp only [Item.target, List.singleton_append, List.cons.injEq, and_true]
          simp [C07.prod_append, prod, prod_replicate_one]

end SymmModel.Reshape5
