import SymmModel.Proofs.TdotFuseC7
import SymmModel.Proofs.Assoc4Swap

/-!
# C06 — fermionic: fusing the leading free legs of the RIGHT operand (via the operand swap S5)

`admW_fuse_lead`: the pre-fused operand is again admissible for the contraction (weak guard);
`fuse_lead_fields`: its fields; `lead_commute_fermi_right`: the one-sided theorem
`lead_commute_fermi` applied to the swapped call `tensordotF(b, a)` and carried back to
`tensordotF(a, fuseF(b))` by S5 (`tdotF_swap_w`).
-/

namespace SymmModel.TdotP
open SymmModel SymmModel.GradedP SymmModel.Lazy SymmModel.AssocP SymmModel.RoutesP
open SymmModel.Assoc3P SymmModel.Assoc4P

variable {R : Type}

/-- the Boolean guard from the proposition -/
theorem admB_of_admW [Zero R] {a b : Arr R} {xa xb : List Nat} (h : AdmW a b xa xb) :
    tdotAdmissibleCommonB a b xa xb = true := by
  unfold tdotAdmissibleCommonB
  simp only [Bool.and_eq_true, decide_eq_true_eq, ValidP.allDistinct_iff, List.all_eq_true]
  exact ⟨⟨⟨⟨⟨h.sym, h.con⟩, h.nA⟩, h.nB⟩, h.ltA⟩, h.ltB⟩

/-- fields of the fermionic fuse of the leading legs -/
theorem fuse_lead_fields [Zero R] [Neg R] [LawfulNeg R] (a : Arr R) {k : Nat} (hv : a.validB = true)
    (hf : a.fermi = true) (h1 : 1 ≤ k) (h2 : k ≤ a.ndim) :
    (FuseP.fusedArrM (FuseP.signAdj a [List.range k]) [List.range k]).oddpos = a.oddpos
    ∧ (FuseP.fusedArrM (FuseP.signAdj a [List.range k]) [List.range k]).sym = a.sym
    ∧ (FuseP.fusedArrM (FuseP.signAdj a [List.range k]) [List.range k]).fermi = true
    ∧ (FuseP.fusedArrM (FuseP.signAdj a [List.range k]) [List.range k]).charge = a.charge
    ∧ (FuseP.fusedArrM (FuseP.signAdj a [List.range k]) [List.range k]).ndim = 1 + (a.ndim - k)
    ∧ (FuseP.fusedArrM (FuseP.signAdj a [List.range k]) [List.range k]).indices
        = FuseP.ixM (FuseP.signAdj a [List.range k]) [List.range k] 0 :: a.indices.drop k := by
  obtain ⟨xI, xS, xSec, xPh, xV, xF, xCh, xOd, xE⟩ := signAdj_lead a hv hf h1 h2
  have hXn : (FuseP.signAdj a [List.range k]).ndim = a.ndim := by
    show (FuseP.signAdj a [List.range k]).indices.length = a.indices.length; rw [xI]
  have iP : (FuseP.fusedArrM (FuseP.signAdj a [List.range k]) [List.range k]).indices
      = FuseP.ixM (FuseP.signAdj a [List.range k]) [List.range k] 0
        :: (FuseP.signAdj a [List.range k]).indices.drop k :=
    lead_newIdx (X := FuseP.signAdj a [List.range k]) h1 (by rw [hXn]; exact h2)
  refine ⟨xOd, xS, xF.trans hf, xCh, ?_, by rw [iP, xI]⟩
  show (FuseP.fusedArrM (FuseP.signAdj a [List.range k]) [List.range k]).indices.length = _
  rw [iP, xI, List.length_cons, List.length_drop]
  show a.ndim - k + 1 = _
  omega

/-- the pre-fused operand is admissible (weak guard) with the contracted axes renumbered -/
theorem admW_fuse_lead [AddCommMonoid R] [Mul R] [Neg R] [SignRing R] {a b : Arr R} {xa xb : List Nat}
    (W : AdmW a b xa xb) (k : Nat) (e : Bool) (hk1 : 1 ≤ k) (hk : k ≤ a.ndim) (hxa : ∀ x ∈ xa, k ≤ x) :
    AdmW (FuseP.fusedArrM (FuseP.signAdj a [List.range k]) [List.range k]) b (xa.map (sh k)) xb := by
  have ha := W.va
  have hfa := W.fa
  have hnA := W.nA
  have hA := W.ltA
  have hlen := commonB_len W.con
  obtain ⟨_, hvP, _⟩ := fuseF_lead a k e ha hfa hk1 hk
  obtain ⟨xI, xS, xSec, xPh, xV, xF, xCh, xOd, xE⟩ := signAdj_lead a ha hfa hk1 hk
  obtain ⟨fO, fS, fF, fC, nP, iP'⟩ := fuse_lead_fields a ha hfa hk1 hk
  have hXn : (FuseP.signAdj a [List.range k]).ndim = a.ndim := by
    show (FuseP.signAdj a [List.range k]).indices.length = a.indices.length; rw [xI]
  have iP : (FuseP.fusedArrM (FuseP.signAdj a [List.range k]) [List.range k]).indices
      = FuseP.ixM (FuseP.signAdj a [List.range k]) [List.range k] 0
        :: (FuseP.signAdj a [List.range k]).indices.drop k :=
    lead_newIdx (X := FuseP.signAdj a [List.range k]) hk1 (by rw [hXn]; exact hk)
  have hnA' : (xa.map (sh k)).Nodup := by
    refine hnA.map_on ?_
    intro x hx y hy e
    have := hxa x hx; have := hxa y hy
    unfold sh at e; omega
  have hA' : ∀ x ∈ xa.map (sh k),
      x < (FuseP.fusedArrM (FuseP.signAdj a [List.range k]) [List.range k]).ndim := by
    intro y hy
    obtain ⟨x, hx, rfl⟩ := List.mem_map.mp hy
    have := hA x hx; have := hxa x hx
    rw [nP]; unfold sh; omega
  refine ⟨hvP, W.vb, fF, W.fb, fS.trans W.sym, ?_, hnA', W.nB, hA', W.ltB⟩
  have hcon := W.con
  unfold contractibleCommonB at hcon ⊢
  rw [Bool.and_eq_true, List.all_eq_true] at hcon ⊢
  refine ⟨by simp only [beq_iff_eq, List.length_map]; exact hlen, ?_⟩
  intro p hp
  rw [List.zip_map_left] at hp
  obtain ⟨q, hq, rfl⟩ := List.mem_map.mp hp
  have hqa : q.1 ∈ xa := (List.of_mem_zip hq).1
  have h0 := hcon.2 q hq
  simp only [Prod.map_fst, Prod.map_snd, id]
  rw [iP, getD_cons_drop_shift _ (FuseP.signAdj a [List.range k]).indices k q.1 hk1 (hxa _ hqa), xI]
  exact h0

/-- **fermionic, RIGHT operand**: fusing the leading free legs `0 … k-1` of the right operand `b`
    before the contraction.  With `c' = tensordotF(b, a)` the result of the call with the operands
    exchanged (S5: `c'` is the fermionic transpose of `c = tensordotF(a, b)` that moves `b`'s free
    legs in front), the element of `tensordotF(a, fuseF(b, [0 … k-1]))` at `(L ++ c0 :: restR)` is the
    Koszul sign of exchanging the two free parts times the element of `fuseF(c', [0 … k-1])` at
    `(c2 :: restR ++ L)` — `c0`, `c2` decoding, each through its own fused table, to the same
    `(S, O)`. -/
theorem lead_commute_fermi_right [AddCommMonoid R] [Mul R] [Neg R] [SignRing R]
    (hz1 : ∀ x : R, 0 * x = 0) (hz2 : ∀ x : R, x * 0 = 0) (hmul : ∀ x y : R, x * y = y * x)
    (a b c : Arr R) (xa xb : List Nat) (k : Nat) (e : Bool)
    (ha : a.validB = true) (hb : b.validB = true) (hfa : a.fermi = true) (hfb : b.fermi = true)
    (hadm : tdotAdmissibleCommonB a b xa xb = true)
    (hd : (a.oddpos ++ b.oddpos).Pairwise (fun x y => x.1 ≠ y.1))
    (hk1 : 1 ≤ k) (hk : k ≤ b.ndim) (hxb : ∀ x ∈ xb, k ≤ x)
    (hc : a.tensordotF b (.pair (xa.map Int.ofNat) (xb.map Int.ofNat)) .blockwise = .ok c) :
    b.fuseF [List.range k] .insert e
        = .ok (FuseP.fusedArrM (FuseP.signAdj b [List.range k]) [List.range k])
    ∧ ∃ c', b.tensordotF a (.pair (xb.map Int.ofNat) (xa.map Int.ofNat)) .blockwise = .ok c'
      ∧ c'.oddpos = c.oddpos ∧ c'.charge = c.charge ∧ c'.sym = c.sym ∧ c'.fermi = c.fermi
      ∧ (∀ (L Rr : Sector) (oL oR : List Nat), L.length = (freeAxes a.ndim xa).length →
          Rr.length = (freeAxes b.ndim xb).length → oL.length = (freeAxes a.ndim xa).length →
          oR.length = (freeAxes b.ndim xb).length →
          inBox (Arr.blockShapeD (without a.indices xa ++ without b.indices xb) (L ++ Rr))
            (oL ++ oR) = true →
          c'.elem (Rr ++ L) (oR ++ oL)
            = sgnI (koszul ((L ++ Rr).map a.sym.parity)
                (some ((List.range Rr.length).map (L.length + ·) ++ List.range L.length)))
                (c.elem (L ++ Rr) (oL ++ oR)))
      ∧ c'.fuseF [List.range k] .insert e
          = .ok (FuseP.fusedArrM (FuseP.signAdj c' [List.range k]) [List.range k])
      ∧ k ≤ c'.ndim
      ∧ ∃ cP, a.tensordotF (FuseP.fusedArrM (FuseP.signAdj b [List.range k]) [List.range k])
            (.pair (xa.map Int.ofNat) ((xb.map (sh k)).map Int.ofNat)) .blockwise = .ok cP
        ∧ ∀ (c0 c2 : Charge) (i0 d0 i2 d2 : Nat) (S restR L : Sector) (O orestR oL shp : List Nat),
          decAx (FuseP.signAdj b [List.range k]) [List.range k] 0 c0 i0 = some (S, O) →
          (FuseP.ixM (FuseP.signAdj b [List.range k]) [List.range k] 0).sizeOf? c0 = some d0 → i0 < d0 →
          decAx (FuseP.signAdj c' [List.range k]) [List.range k] 0 c2 i2 = some (S, O) →
          (FuseP.ixM (FuseP.signAdj c' [List.range k]) [List.range k] 0).sizeOf? c2 = some d2 → i2 < d2 →
          Arr.blockShape? (c'.indices.drop k) (restR ++ L) = some shp → inBox shp (orestR ++ oL) = true →
          L.length = (freeAxes a.ndim xa).length → oL.length = (freeAxes a.ndim xa).length →
          restR.length + 1 = (freeAxes (1 + (b.ndim - k)) (xb.map (sh k))).length →
          orestR.length = restR.length →
          inBox (Arr.blockShapeD
              (without (FuseP.fusedArrM (FuseP.signAdj b [List.range k]) [List.range k]).indices
                  (xb.map (sh k)) ++ without a.indices xa) ((c0 :: restR) ++ L))
            ((i0 :: orestR) ++ oL) = true →
          cP.elem (L ++ c0 :: restR) (oL ++ i0 :: orestR)
            = sgnI (koszul (((c0 :: restR) ++ L).map a.sym.parity)
                (some ((List.range L.length).map ((restR.length + 1) + ·)
                  ++ List.range (restR.length + 1))))
                ((FuseP.fusedArrM (FuseP.signAdj c' [List.range k]) [List.range k]).elem
                  (c2 :: (restR ++ L)) (i2 :: (orestR ++ oL))) := by
  have W := AdmW.of ha hb hfa hfb hadm
  have W' := admW_swap W
  have hd' : (b.oddpos ++ a.oddpos).Pairwise (fun x y => x.1 ≠ y.1) :=
    (List.pairwise_append_comm (fun h => Ne.symm h)).mp hd
  obtain ⟨c', hc', s1, s2, s3, s4, sel⟩ := tdotF_swap_w a b c xa xb hmul W hd hc
  obtain ⟨hfuseB, hfuseC, hkc, cP', hcP', hel⟩ :=
    lead_commute_fermi hz1 hz2 b a c' xb xa k e hb ha hfb hfa (admB_of_admW W') hk1 hk hxb hc'
  obtain ⟨fO, fS, fF, fC, nP, iP⟩ := fuse_lead_fields b hb hfb hk1 hk
  have WF := admW_fuse_lead W' k e hk1 hk hxb
  have hdF : ((FuseP.fusedArrM (FuseP.signAdj b [List.range k]) [List.range k]).oddpos
      ++ a.oddpos).Pairwise (fun x y => x.1 ≠ y.1) := by rw [fO]; exact hd'
  obtain ⟨cP, hcP, _, _, _, _, tel⟩ := tdotF_swap_w _ a cP' _ xa hmul WF hdF hcP'
  refine ⟨hfuseB, c', hc', s1, s2, s3, s4, sel, hfuseC, hkc, cP, hcP, ?_⟩
  intro c0 c2 i0 d0 i2 d2 S restR L O orestR oL shp h1 h2 h3 h4 h5 h6 h7 h8 lL loL lR loR hbox
  have := tel (c0 :: restR) L (i0 :: orestR) oL (by rw [nP]; simpa using lR)
    lL (by rw [nP]; simp only [List.length_cons]; omega) loL hbox
  rw [this, fS, W.sym.symm]
  simp only [List.length_cons]
  exact congrArg _ (hel c0 c2 i0 d0 i2 d2 S (restR ++ L) O (orestR ++ oL) shp h1 h2 h3 h4 h5 h6 h7 h8)

end SymmModel.TdotP
