/-
  SymmModel.Proofs.Net4Trans — "equal up to a fermionic transpose" as an `Eqv` statement.
  * `exists_preimage`     a permutation of positions is onto: every list is a re-listing;
  * `eqv_of_transposed`   BRIDGE: an array `c'` whose sectors, index tables and values are those of
                          `c` re-listed along `P` (values times the Koszul sign of `P`) is `Eqv` to
                          `c.transposeF P`;
  * `transposeF_congr`    `Eqv`-congruence of `transposeF`.
  Namespace `SymmModel.Net4P`.
-/
import SymmModel.Proofs.Net4Relist
import SymmModel.Proofs.Dense4a

namespace SymmModel
namespace Net4P
open TdotP GradedP RoutesP KoszulP AssocP Assoc3P
open Lazy (sgnI)
set_option linter.unusedSectionVars false

variable {R : Type}

theorem permuted_range_left (n : Nat) (l : List Nat) (h : ∀ i ∈ l, i < n) :
    permuted (List.range n) l = l := by
  induction l with
  | nil => rfl
  | cons x xs ih =>
    have hx : x < n := h x (by simp)
    have := ih (fun i hi => h i (List.mem_cons_of_mem _ hi))
    unfold permuted at this ⊢
    simp only [List.filterMap_cons, List.getElem?_range hx]
    rw [this]

/-- a permutation of positions is onto -/
theorem exists_preimage {α : Type} {P : List Nat} {n : Nat} (hP : P.Perm (List.range n))
    (o : List α) (ho : o.length = n) : ∃ o0 : List α, o0.length = n ∧ permuted o0 P = o := by
  have hPl : P.length = n := by simpa using hP.length_eq
  obtain ⟨π, hπ, e⟩ := exists_relist (l' := List.range n) (l := P) hP.symm
  rw [hPl] at hπ
  have hπl : π.length = n := by simpa using hπ.length_eq
  obtain ⟨π', hπ', e'⟩ := exists_relist (l' := List.range n) (l := π) hπ.symm
  rw [hπl] at hπ'
  have hπlt : ∀ i ∈ π, i < n := mem_lt_of_perm hπ
  have key : π' = P := by
    have h1 := permuted_permuted_ax P π π' (by rw [hPl]; exact hπlt)
    rw [e', e, permuted_range_left n π' (mem_lt_of_perm hπ')] at h1
    rw [← hPl, ValidP.permuted_range] at h1
    exact h1.symm
  subst key
  refine ⟨permuted o π, ?_, ?_⟩
  · rw [permuted_length_perm o π (by rw [ho]; exact hπ)]; exact ho
  · rw [← permuted_permuted_ax o π π' (by rw [ho]; exact hπlt), e', ← ho, ValidP.permuted_range]

section
variable [AddCommMonoid R] [Mul R] [Neg R] [SignRing R]

/-- **bridge**: `c'` is `c` re-listed along `P` ⇒ `c.transposeF P` is `Eqv` to `c'` -/
theorem eqv_of_transposed {c c' : Arr R} {P : List Nat} (hv : c.validB = true) (hf : c.fermi = true)
    (hP : Arr.isPerm P c.ndim = true)
    (hsym : c'.sym = c.sym) (hfer : c'.fermi = c.fermi) (hch : c'.charge = c.charge)
    (hodd : c'.oddpos = c.oddpos) (hidx : c'.indices = permuted c.indices P)
    (hsec : ∀ s', s' ∈ c'.sectors ↔ ∃ s ∈ c.sectors, s' = permuted s P)
    (helem : ∀ s ∈ c.sectors, ∀ o, inBox (Arr.blockShapeD c.indices s) o = true →
      c'.elem (permuted s P) (permuted o P) = sgnI (koszul (c.parities s) (some P)) (c.elem s o)) :
    Eqv (c.transposeF P) c' := by
  have T := transOf_transposeF c P hv hf hP
  have hsc := Arr.shapesOk_of_validB hv
  have hPp := KoszulP.perm_of_isPerm hP
  have hsec' : ∀ s, s ∈ (c.transposeF P).sectors ↔ s ∈ c'.sectors := by
    intro s
    rw [T.sectors, List.mem_map, hsec]
    constructor
    · rintro ⟨s0, h0, rfl⟩; exact ⟨s0, h0, rfl⟩
    · rintro ⟨s0, h0, rfl⟩; exact ⟨s0, h0, rfl⟩
  refine ⟨by rw [T.sym, hsym], hfer.symm, hch.symm, hodd.symm, by rw [T.indices, hidx], hsec', ?_⟩
  intro s o ho
  by_cases hs : s ∈ (c.transposeF P).sectors
  · have hbox := ho hs
    rw [T.sectors, List.mem_map] at hs
    obtain ⟨s0, h0, rfl⟩ := hs
    obtain ⟨shp, h1, h2, h3, h4⟩ := shape_of_mem hsc h0
    have hPlt : ∀ x ∈ P, x < c.indices.length := mem_lt_of_perm hPp
    rw [T.indices, Arr.blockShapeD, blockShape?_permuted h1 P hPlt] at hbox
    change inBox (permuted shp P) o = true at hbox
    have hol : o.length = c.ndim := by
      have := inBox_length hbox
      rw [this, permuted_length_perm shp P (by rw [h3]; exact hPp)]; exact h3
    obtain ⟨o0, hl0, rfl⟩ := exists_preimage hPp o hol
    have hb0 : inBox (Arr.blockShapeD c.indices s0) o0 = true := by
      rw [h2]
      exact Dense4.inBox_of_permuted (n := c.ndim) (mem_lt_of_perm hPp)
        (fun ax hax => hPp.mem_iff.mpr (List.mem_range.mpr hax)) h3 hl0 hbox
    rw [T.elem s0 h0 o0 hb0, helem s0 h0 o0 hb0]
  · rw [Arr.elem_of_not_mem hs, Arr.elem_of_not_mem (fun h => hs ((hsec' s).mpr h))]

/-- `Eqv`-congruence of `transposeF` -/
theorem transposeF_congr {X X' : Arr R} {P : List Nat} (h : Eqv X X') (hv : X.validB = true)
    (hv' : X'.validB = true) (hf : X.fermi = true) (hP : Arr.isPerm P X.ndim = true) :
    Eqv (X.transposeF P) (X'.transposeF P) := by
  have hf' : X'.fermi = true := by rw [← h.fermi]; exact hf
  have hP' : Arr.isPerm P X'.ndim = true := by rw [← h.ndim]; exact hP
  have T' := transOf_transposeF X' P hv' hf' hP'
  refine eqv_of_transposed hv hf hP (by rw [T'.sym, h.sym]) (h.fermi.symm ▸ rfl) h.charge.symm
    h.oddpos.symm (by rw [T'.indices, h.indices]) ?_ ?_
  · intro s'
    rw [T'.sectors, List.mem_map]
    constructor
    · rintro ⟨s0, h0, rfl⟩; exact ⟨s0, (h.sectors s0).mpr h0, rfl⟩
    · rintro ⟨s0, h0, rfl⟩; exact ⟨s0, (h.sectors s0).mp h0, rfl⟩
  · intro s hs o ho
    have hs' := (h.sectors s).mp hs
    rw [T'.elem s hs' o (by rw [← h.indices]; exact ho), ← h.elem s o (fun _ => ho)]
    unfold Arr.parities
    rw [h.sym]

theorem transposeF_validB (X : Arr R) (P : List Nat) (hv : X.validB = true) (hf : X.fermi = true)
    (hP : Arr.isPerm P X.ndim = true) : (X.transposeF P).validB = true :=
  (ValidP.validB_iff _).mpr (ValidP.transposeF_valid X P true ((ValidP.validB_iff X).mp hv) hf hP)

theorem transposeF_ndim (X : Arr R) (P : List Nat) (hv : X.validB = true) (hf : X.fermi = true)
    (hP : Arr.isPerm P X.ndim = true) : (X.transposeF P).ndim = X.ndim := by
  have T := transOf_transposeF X P hv hf hP
  show (X.transposeF P).indices.length = X.indices.length
  rw [T.indices]
  exact permuted_length_perm _ _ (KoszulP.perm_of_isPerm hP)

/-- **composition law**: transposing by `P` and then by `Q` is transposing by `compose P Q` -/
theorem transposeF_comp (X : Arr R) (P Q : List Nat) (hv : X.validB = true) (hf : X.fermi = true)
    (hP : Arr.isPerm P X.ndim = true) (hQ : Arr.isPerm Q X.ndim = true) :
    Eqv (X.transposeF (compose P Q)) ((X.transposeF P).transposeF Q) := by
  have hPp := KoszulP.perm_of_isPerm hP
  have hQp := KoszulP.perm_of_isPerm hQ
  have hsX := Arr.shapesOk_of_validB hv
  have T1 := transOf_transposeF X P hv hf hP
  have hv1 := transposeF_validB X P hv hf hP
  have hn1 := transposeF_ndim X P hv hf hP
  have hf1 : (X.transposeF P).fermi = true := hf
  have T2 := transOf_transposeF (X.transposeF P) Q hv1 hf1 (by rw [hn1]; exact hQ)
  have hPlt : ∀ i ∈ P, i < X.ndim := mem_lt_of_perm hPp
  refine eqv_of_transposed hv hf (KoszulP.isPerm_of_perm (compose_perm hPp hQp))
    (by rw [T2.sym, T1.sym]) rfl rfl rfl ?_ ?_ ?_
  · rw [T2.indices, T1.indices]
    exact KoszulP.permuted_permuted X.indices P Q hPlt
  · intro s'
    rw [T2.sectors, T1.sectors, List.map_map, List.mem_map]
    constructor
    · rintro ⟨s, hs, rfl⟩
      exact ⟨s, hs, KoszulP.permuted_permuted s P Q (by rw [Arr.sector_length hsX hs]; exact hPlt)⟩
    · rintro ⟨s, hs, rfl⟩
      exact ⟨s, hs, KoszulP.permuted_permuted s P Q (by rw [Arr.sector_length hsX hs]; exact hPlt)⟩
  · intro s hs o ho
    obtain ⟨shp, h1, h2, h3, h4⟩ := shape_of_mem hsX hs
    have hol : o.length = X.ndim := by rw [inBox_length ho, h2, h3]
    rw [← KoszulP.permuted_permuted s P Q (by rw [h4]; exact hPlt),
      ← KoszulP.permuted_permuted o P Q (by rw [hol]; exact hPlt)]
    have hs1 : permuted s P ∈ (X.transposeF P).sectors := by
      rw [T1.sectors]; exact List.mem_map.mpr ⟨s, hs, rfl⟩
    have hb1 : inBox (Arr.blockShapeD (X.transposeF P).indices (permuted s P)) (permuted o P) = true := by
      rw [T1.indices, Arr.blockShapeD, blockShape?_permuted h1 P hPlt]
      change inBox (permuted shp P) (permuted o P) = true
      rw [h2] at ho
      exact KoszulP.inBox_permuted shp o P X.ndim hPp h3 ho
    rw [T2.elem _ hs1 _ hb1, T1.elem s hs o ho, sgnI_comp (Lazy.koszul_pm _ _) (Lazy.koszul_pm _ _)]
    congr 1
    have hpar : (X.transposeF P).parities (permuted s P) = permuted (X.parities s) P := by
      unfold Arr.parities
      rw [T1.sym]
      exact permuted_map _ s P
    rw [hpar, Int.mul_comm]
    exact (koszul_cocycle' (X.parities s) P Q X.ndim (by unfold Arr.parities; rw [List.length_map, h4])
      hPp hQp).symm

/-- `T'` is a fermionic transpose of `T` (up to block order / pending signs): for some permutation
    `P` of the legs, `T.transposeF P` is `Eqv` to `T'` -/
def TEq (T T' : Arr R) : Prop :=
  ∃ P, Arr.isPerm P T.ndim = true ∧ Eqv (T.transposeF P) T'

theorem TEq.of_eqv {T T' : Arr R} (h : Eqv T T') (hv : T.validB = true) (hf : T.fermi = true) :
    TEq T T' := by
  have hid : Arr.isPerm (List.range T.ndim) T.ndim = true := KoszulP.isPerm_of_perm (List.Perm.refl _)
  refine ⟨List.range T.ndim, hid, Eqv.trans ?_ h⟩
  have TT := transOf_transposeF T (List.range T.ndim) hv hf hid
  have hsT := Arr.shapesOk_of_validB hv
  have eidx : permuted T.indices (List.range T.ndim) = T.indices := ValidP.permuted_range T.indices
  refine ⟨TT.sym, rfl, rfl, rfl, by rw [TT.indices]; exact eidx, ?_, ?_⟩
  · intro s
    rw [TT.sectors, List.mem_map]
    constructor
    · rintro ⟨s0, h0, rfl⟩
      rw [← Arr.sector_length hsT h0, ValidP.permuted_range]; exact h0
    · intro h0
      exact ⟨s, h0, by rw [← Arr.sector_length hsT h0, ValidP.permuted_range]⟩
  · intro s o ho
    by_cases hs : s ∈ (T.transposeF (List.range T.ndim)).sectors
    · have hbox := ho hs
      rw [TT.sectors, List.mem_map] at hs
      obtain ⟨s0, h0, e0⟩ := hs
      have hl0 := Arr.sector_length hsT h0
      rw [← hl0, ValidP.permuted_range] at e0
      subst e0
      obtain ⟨shp, h1, h2, h3, h4⟩ := shape_of_mem hsT h0
      rw [TT.indices, eidx, h2] at hbox
      have hol : o.length = T.ndim := by rw [inBox_length hbox, h3]
      have e1 : permuted s0 (List.range T.ndim) = s0 := by
        rw [← hl0]; exact ValidP.permuted_range s0
      have e2 : permuted o (List.range T.ndim) = o := by
        rw [← hol]; exact ValidP.permuted_range o
      have := TT.elem s0 h0 o (by rw [h2]; exact hbox)
      rw [e1, e2] at this
      rw [this]
      have hk : koszul (T.parities s0) (some (List.range T.ndim)) = 1 := by
        have hlen : (T.parities s0).length = T.ndim := by
          unfold Arr.parities; rw [List.length_map, hl0]
        have := koszul_id_block_left (T.parities s0) [] [] (List.Perm.refl _)
        simp only [List.append_nil, List.map_nil] at this
        rw [← hlen, this]
        rfl
      rw [hk, Lazy.sgnI_one]
    · rw [Arr.elem_of_not_mem hs]
      rw [TT.sectors, List.mem_map] at hs
      rw [Arr.elem_of_not_mem]
      intro h0
      exact hs ⟨s, h0, by rw [← Arr.sector_length hsT h0, ValidP.permuted_range]⟩

/-- transitivity of "is a fermionic transpose of" -/
theorem TEq.trans {T1 T2 T3 : Arr R} (h12 : TEq T1 T2) (h23 : TEq T2 T3) (hv1 : T1.validB = true)
    (hf1 : T1.fermi = true) (hv2 : T2.validB = true) : TEq T1 T3 := by
  obtain ⟨P, hP, e12⟩ := h12
  obtain ⟨Q, hQ, e23⟩ := h23
  have hn : (T1.transposeF P).ndim = T1.ndim := transposeF_ndim T1 P hv1 hf1 hP
  have hQ' : Arr.isPerm Q T1.ndim = true := by rw [← hn, e12.ndim]; exact hQ
  refine ⟨compose P Q, KoszulP.isPerm_of_perm
    (compose_perm (KoszulP.perm_of_isPerm hP) (KoszulP.perm_of_isPerm hQ')), ?_⟩
  have c := transposeF_comp T1 P Q hv1 hf1 hP hQ'
  have hvP := transposeF_validB T1 P hv1 hf1 hP
  have cg := transposeF_congr e12 hvP hv2 (by exact hf1) (by rw [hn]; exact hQ')
  exact (c.trans cg).trans e23

end

end Net4P
end SymmModel
