/-
  SymmModel.Proofs.Reshape3j — C07: what "same content up to signs" gives (norm², multiset of
  magnitudes), and `reshape` itself with the planner certificate discharged by the unbounded
  planner theorem.
-/
import SymmModel.Proofs.Reshape3i
import SymmModel.Proofs.Reshape3g

namespace SymmModel
namespace ReshapeP
open C07 Reshape3

variable {R : Type}

theorem SameAbs.normSq2 [Zero R] [Neg R] {a b : Arr R} (h : SameAbs a b) {S : Type}
    [AddCommMonoid S] (nsq : R → S) (h0 : nsq 0 = 0) (he : ∀ x, nsq (-x) = nsq x) :
    C12.normSq2 nsq a = C12.normSq2 nsq b := by
  rw [normSq2_eq_entrySum, normSq2_eq_entrySum]; exact h S nsq h0 he

/-- the non-zero magnitudes `m entry` of the stored entries, block after block -/
def magEntries {S : Type} [Zero S] [DecidableEq S] (m : R → S) (a : Arr R) : List S :=
  a.blocks.flatMap (fun p => (p.2.data.toList.map m).filter (fun r => decide (r ≠ 0)))

/-- **same content up to signs ⇒ the same multiset of non-zero magnitudes**, for every magnitude
    function `m` with `m 0 = 0` and `m (-x) = m x` -/
theorem SameAbs.perm_mag [Zero R] [Neg R] {S : Type} [Zero S] [DecidableEq S] (m : R → S)
    (h0 : m 0 = 0) (he : ∀ x, m (-x) = m x) {a b : Arr R} (h : SameAbs a b) :
    (magEntries m a).Perm (magEntries m b) := by
  rw [List.perm_iff_count]
  intro v
  have key : ∀ x : Arr R, (magEntries m x).count v
      = entrySum (M := Nat) (fun r => if m r ≠ 0 ∧ m r = v then 1 else 0) x := by
    intro x
    simp only [magEntries, List.count_flatMap, entrySum, blkSum, Function.comp_def,
      count_filter_eq_sum, List.map_map]
  rw [key, key]
  exact h Nat _ (by simp [h0]) (by intro x; simp [he])

/-- `reshape` on any valid array, abelian or fermionic, when the planner's plan is certified -/
theorem reshapeArr_abs [Zero R] [Neg R] (a r : Arr R) (ns full : List Int) (nsN : List Nat)
    (t : List Nat × List (List (List Nat)) × List Nat) (hv : a.validB = true)
    (h1 : findFullReshape ns a.size = .ok full)
    (h2 : full.mapM (fun (d : Int) => if d < 0 then (throw Err.notimpl : Except Err Nat) else pure d.toNat)
      = .ok nsN)
    (h3 : calcReshapeArgs a.shape nsN a.subsizes = .ok t)
    (hwf : (Plan.ofTriple t).wfB a.shape a.subsizes nsN = true)
    (h : reshapeArr a ns = .ok r) :
    SameAbs a r ∧ r.validB = true ∧ r.ndim = nsN.length ∧ r.fermi = a.fermi := by
  rw [reshapeArr_eq a ns full nsN t h1 h2 h3] at h
  exact applyPlan_abs a r t nsN hv hwf h

theorem shape_subsizes_length (a : Arr R) : a.shape.length = a.subsizes.length := by
  simp [Arr.shape, Arr.subsizes]

/-- the certificate of `reshape`'s plan from the unbounded planner theorem: no sparsely fused
    axis, no zero-size axis, equal dense sizes -/
theorem reshape_plan_certified (a : Arr R) (nsN : List Nat)
    (t : List Nat × List (List (List Nat)) × List Nat)
    (hdense : denseB a.shape a.subsizes = true) (hpos : ∀ d ∈ a.shape, 0 < d)
    (hprod : prod a.shape = prod nsN) (h3 : calcReshapeArgs a.shape nsN a.subsizes = .ok t) :
    (Plan.ofTriple t).wfB a.shape a.subsizes nsN = true :=
  planner_wf_of_prod a.shape nsN a.subsizes (shape_subsizes_length a) hdense hpos hprod t h3

theorem denseB_unfused (a : Arr R) (h : ∀ ix ∈ a.indices, ix.sub = none) :
    denseB a.shape a.subsizes = true := by
  rw [subsizes_nones a h]; exact denseB_nones _

end ReshapeP
end SymmModel
