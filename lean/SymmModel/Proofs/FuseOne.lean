/-
  SymmModel.Proofs.FuseOne — fusing ONE multi-axis group `gaxes` (arbitrary position, arbitrary
  other axes): explicit plan, table facts for stored sectors, and `fuseInsert` as an `insFold`.
-/
import SymmModel.Proofs.FuseIns
namespace SymmModel
namespace FuseP
set_option linter.unusedSectionVars false

variable {R : Type}

section One
variable (a : Arr R) (gaxes : List Nat)

/-- the group plan for the single group -/
abbrev gi1 : FuseGroupInfo := calcFuseGroupInfo [gaxes] a.duals

def gdual1 : Bool := (gi1 a gaxes).groupDuals.getD 0 false
def subs1 : List Index := gaxes.map (fun ax => a.indices.getD ax default)
def preOf (s : Sector) : Sector := (gi1 a gaxes).axesBefore.map (fun ax => s.getD ax (0, 0))
def postOf (s : Sector) : Sector := (gi1 a gaxes).axesAfter.map (fun ax => s.getD ax (0, 0))
def ssOf (s : Sector) : Sector := gaxes.map (fun ax => s.getD ax (0, 0))
def cOf (s : Sector) : Charge := fusedCharge a.sym a.indices s (gdual1 a gaxes) gaxes
def shPre (shp : List Nat) : List Nat := (gi1 a gaxes).axesBefore.map (fun ax => shp.getD ax 0)
def shPost (shp : List Nat) : List Nat := (gi1 a gaxes).axesAfter.map (fun ax => shp.getD ax 0)
def shMid (shp : List Nat) : List Nat := gaxes.map (fun ax => shp.getD ax 0)
def nsOf (s : Sector) : Sector := preOf a gaxes s ++ [cOf a gaxes s] ++ postOf a gaxes s
def newShapeOf (shp : List Nat) : List Nat :=
  shPre a gaxes shp ++ [prod (shMid gaxes shp)] ++ shPost a gaxes shp

/-- the entries collected for the table of the group -/
def entries1 : List (Sector × Charge × Nat) :=
  a.blocks.map (fun sb => (ssOf gaxes sb.1, cOf a gaxes sb.1, prod (shMid gaxes sb.2.shape)))

/-- the fused index -/
def fix1 : Index := fusedIndexOf (entries1 a gaxes) (gdual1 a gaxes) (subs1 a gaxes)

def newIndices1 : List Index :=
  permuted a.indices (gi1 a gaxes).axesBefore ++ [fix1 a gaxes] ++ permuted a.indices (gi1 a gaxes).axesAfter

variable {a gaxes}

theorem planOf_one (hlen : gaxes.length ≠ 1) (s : Sector) (shp : List Nat) :
    planOf a.sym a.indices [gaxes] (gi1 a gaxes) s shp
      = { newShape := newShapeOf a gaxes shp, newSector := nsOf a gaxes s, subsectors := [ssOf gaxes s] } := by
  have hl : (gaxes.length == 1) = false := by simpa using hlen
  simp [planOf, midOf, hl, newShapeOf, nsOf, shPre, shPost, shMid, preOf, postOf, ssOf, cOf, gdual1,
    List.zipIdx]

theorem blockmapOf_one (hlen : gaxes.length ≠ 1) :
    blockmapOf a [gaxes] = a.blocks.map (fun sb => (sb.1,
      ({ newShape := newShapeOf a gaxes sb.2.shape, newSector := nsOf a gaxes sb.1,
         subsectors := [ssOf gaxes sb.1] } : BlockPlan))) := by
  simp only [blockmapOf]
  apply List.map_congr_left
  intro sb _
  rw [planOf_one hlen]

theorem preOf_length (hok : GroupsOk [gaxes] a.ndim) (s : Sector) :
    (preOf a gaxes s).length = (gi1 a gaxes).position := by
  have hok' : GroupsOk [gaxes] a.duals.length := by rw [duals_length]; exact hok
  simp [preOf, axesBefore_length hok']

theorem shPre_length (hok : GroupsOk [gaxes] a.ndim) (shp : List Nat) :
    (shPre a gaxes shp).length = (gi1 a gaxes).position := by
  have hok' : GroupsOk [gaxes] a.duals.length := by rw [duals_length]; exact hok
  simp [shPre, axesBefore_length hok']

theorem tableEntries_one (hok : GroupsOk [gaxes] a.ndim) (hlen : gaxes.length ≠ 1) :
    tableEntries (blockmapOf a [gaxes]) (gi1 a gaxes).position 0 = entries1 a gaxes := by
  rw [blockmapOf_one hlen]
  simp only [tableEntries, entries1, List.map_map]
  apply List.map_congr_left
  intro sb _
  simp only [Function.comp, List.getD_cons_zero, Nat.add_zero, Prod.mk.injEq, true_and]
  constructor
  · simp only [nsOf]
    rw [← preOf_length hok sb.1]
    simp
  · simp only [newShapeOf]
    rw [← shPre_length hok sb.2.shape]
    simp

theorem newIndices_one (hok : GroupsOk [gaxes] a.ndim) (hlen : gaxes.length ≠ 1) :
    (fuseInfoOf a [gaxes]).newIndices = newIndices1 a gaxes := by
  have hl : (gaxes.length == 1) = false := by simpa using hlen
  simp only [fuseInfoOf, newIndices1, newMidOf, List.zipIdx_cons, List.zipIdx_nil, List.map_cons,
    List.map_nil, hl, Bool.false_eq_true, if_false, tableEntries_one hok hlen, fix1, gdual1, subs1]

theorem fix1_wf (hv : ValidArr a) (hok : GroupsOk [gaxes] a.ndim) (hlen : gaxes.length ≠ 1) :
    Index.wfB a.sym (fix1 a gaxes) = true := by
  have := fused_index_wf (g := 0) (gaxes := gaxes) hv hok (by simp) hlen
  rw [fused_index_sub hok (by simp) hlen, tableEntries_one hok hlen] at this
  exact this

theorem fix1_sub : (fix1 a gaxes).sub = some (subs1 a gaxes,
    (accumExtents (sortedEntries (entries1 a gaxes))).2) := rfl

theorem fix1_cm : (fix1 a gaxes).cm = Index.sortCm (accumExtents (sortedEntries (entries1 a gaxes))).1 := rfl

theorem fix1_dual : (fix1 a gaxes).dual = gdual1 a gaxes := rfl

/-- the extents of the fused index -/
def exts1 (a : Arr R) (gaxes : List Nat) : Extents := (accumExtents (sortedEntries (entries1 a gaxes))).2

theorem entries1_entryOk (hv : ValidArr a) (hok : GroupsOk [gaxes] a.ndim) (hlen : gaxes.length ≠ 1) :
    ∀ x ∈ entries1 a gaxes, EntryOk a.sym (gdual1 a gaxes) (subs1 a gaxes) x := by
  have := tableEntries_entryOk (g := 0) (gaxes := gaxes) hv hok (by simp) hlen
  rw [tableEntries_one hok hlen] at this
  exact this

theorem entryOk_functional {sym : Sym} {gdual : Bool} {subs : List Index} {x y : Sector × Charge × Nat}
    (hx : EntryOk sym gdual subs x) (hy : EntryOk sym gdual subs y) (h : x.1 = y.1) : x = y := by
  obtain ⟨x1, x2, x3⟩ := x
  obtain ⟨y1, y2, y3⟩ := y
  simp only at h; subst h
  obtain ⟨_, ⟨shp, h1, h2⟩, h3, _⟩ := hx
  obtain ⟨_, ⟨shp', h1', h2'⟩, h3', _⟩ := hy
  simp only at h1 h2 h3 h1' h2' h3'
  rw [h1] at h1'; simp only [Option.some.injEq] at h1'; subst h1'
  rw [← h2, ← h3, h2', h3']

/-- what the table knows about a stored sector -/
theorem stored_in_table (hv : ValidArr a) (hok : GroupsOk [gaxes] a.ndim) (hlen : gaxes.length ≠ 1)
    {sb : Sector × Blk R} (hsb : sb ∈ a.blocks) :
    ∃ e D st, alookup (exts1 a gaxes) (cOf a gaxes sb.1) = some e
      ∧ startOf e (ssOf gaxes sb.1) = some (st, prod (shMid gaxes sb.2.shape))
      ∧ (fix1 a gaxes).sizeOf? (cOf a gaxes sb.1) = some D
      ∧ sumN (e.map (·.2)) = D := by
  have hE := entries1_entryOk hv hok hlen
  have hmem : (ssOf gaxes sb.1, cOf a gaxes sb.1, prod (shMid gaxes sb.2.shape)) ∈ entries1 a gaxes :=
    List.mem_map.2 ⟨sb, hsb, rfl⟩
  obtain ⟨e, D, h1, h2, h3, h4, h5⟩ := fusedIndexOf_complete (entries1 a gaxes)
    (fun x hx y hy hxy => entryOk_functional (hE x hx) (hE y hy) hxy) hmem
  obtain ⟨st, hst⟩ := startOf_of_mem_nodup h3 h2
  exact ⟨e, D, st, h1, hst, h4, h5⟩

end One

end FuseP
end SymmModel
